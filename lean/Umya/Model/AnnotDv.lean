/-
  C06 — the data-validation codec at the level of element trees.

  Sources (the worktree after fix_1 / fix_2 of this model's report):
    src/structs/data_validations.rs, data_validation.rs, data_validation_values.rs,
    data_validation_operator_values.rs, sequence_of_references.rs, enum_value.rs, boolean_value.rs,
    string_value.rs, writer/driver.rs, reader/driver.rs

  `write x` is the element tree an XML 1.0 reader delivers for what `write_to` emits; `read n` is what
  `set_attributes` makes of such a tree.  Attribute values and character data in a `Node` are the
  UNESCAPED texts: the escape / unescape channel they travel through is the one already modelled in
  `Umya/Model/XmlEsc.lean` and proved to be the identity (`attrRead_attrWrite`, `attrValue_attrEscape`,
  `textValue_escape`, restated as `C06_codec_channel`).  `<x/>` and `<x></x>` are the same tree and the
  reader treats them alike (`Event::Empty` / `Event::Start` arms with the same attribute handling).

  Choices, each following the Rust:
  * every field is an `Option` (`EnumValue`, `BooleanValue`, `StringValue` hold `Option`s); an attribute is
    written iff `has_value()`; an absent attribute leaves the field `none`;
  * `EnumValue::set_value_string`: a text `from_str` rejects leaves the field as it was (`none` on a fresh
    object); `BooleanValue::set_value_string`: `true` iff the text is `true` or `1`;
  * attribute order of `write_to`: type, allowBlank, showInputMessage, operator, showErrorMessage, errorTitle,
    error, promptTitle, prompt, sqref; `sqref` is omitted when the joined text is empty;
  * `get_attribute`: the first attribute whose qualified name equals the key;
  * `SequenceOfReferences::set_sqref`: `split(' ')`, one `Range::set_range` per piece (a panic there is
    `Res.panic`), pushed in order; `get_sqref`: `Range::get_range` joined with one blank;
  * `<formula1>` / `<formula2>`: written iff `has_value()`, `write_text_node` of the text (no text event for
    an empty text); read: the value is emptied at the start tag, set by a text event, taken at the end tag
    (fix_2: read untrimmed).  Text nested deeper than one level inside a formula element is not written by
    this library and is outside the model;
  * `<dataValidations count=…>`: the children named `dataValidation`, in order; `count` is not read.
  Core Lean only.
-/
import Umya.Model.Annot
import Umya.Spec.XmlLex
namespace Umya.AnnotDv
open Umya.Coord
open Umya.Spec.Xml (Node Attr)

abbrev Text := List Char

/-! ## attribute lists -/

/-- `get_attribute(e, key)`: the first attribute with that name -/
def getAttr : List Attr → Text → Option Text
  | [], _ => none
  | a :: r, k => if a.name = k then some a.value else getAttr r k

/-- `if x.has_value() { attributes.push((name, value)) }`, name by name -/
def render : List Text → List (Option Text) → List Attr
  | n :: ns, some v :: vs => ⟨n, v⟩ :: render ns vs
  | _ :: ns, none :: vs => render ns vs
  | _, _ => []

/-! ## scalar wrappers -/

/-- `BooleanValue::get_value_string` -/
def boolStr (b : Bool) : Text := if b then ['1'] else ['0']

/-- `BooleanValue::set_value_string` -/
def boolOf (t : Text) : Bool := t = ['t', 'r', 'u', 'e'] || t = ['1']

/-! ## enums -/

inductive DvType where
  | custom | date | decimal | list | none | textLength | time | whole
  deriving Repr, DecidableEq, Inhabited

def DvType.all : List DvType := [.custom, .date, .decimal, .list, .none, .textLength, .time, .whole]

/-- `EnumTrait::get_value_string` of `DataValidationValues` -/
def DvType.toStr : DvType → Text
  | .custom => "custom".toList
  | .date => "date".toList
  | .decimal => "decimal".toList
  | .list => "list".toList
  | .none => "none".toList
  | .textLength => "textLength".toList
  | .time => "time".toList
  | .whole => "whole".toList

/-- `FromStr for DataValidationValues` (`none` = `Err(())`) -/
def DvType.fromStr (t : Text) : Option DvType :=
  if t = "custom".toList then some .custom
  else if t = "date".toList then some .date
  else if t = "decimal".toList then some .decimal
  else if t = "list".toList then some .list
  else if t = "none".toList then some .none
  else if t = "textLength".toList then some .textLength
  else if t = "time".toList then some .time
  else if t = "whole".toList then some .whole
  else Option.none

/-- the writer's table BEFORE fix_1 (kept for the refutation): `None` was spelled `iso_8859_8_i` -/
def DvType.toStrOld : DvType → Text
  | .none => "iso_8859_8_i".toList
  | v => v.toStr

inductive DvOp where
  | between | equal | greaterThan | greaterThanOrEqual | lessThan | lessThanOrEqual | notBetween | notEqual
  deriving Repr, DecidableEq, Inhabited

def DvOp.all : List DvOp := [.between, .equal, .greaterThan, .greaterThanOrEqual, .lessThan, .lessThanOrEqual, .notBetween, .notEqual]

def DvOp.toStr : DvOp → Text
  | .between => "between".toList
  | .equal => "equal".toList
  | .greaterThan => "greaterThan".toList
  | .greaterThanOrEqual => "greaterThanOrEqual".toList
  | .lessThan => "lessThan".toList
  | .lessThanOrEqual => "lessThanOrEqual".toList
  | .notBetween => "notBetween".toList
  | .notEqual => "notEqual".toList

def DvOp.fromStr (t : Text) : Option DvOp :=
  if t = "between".toList then some .between
  else if t = "equal".toList then some .equal
  else if t = "greaterThan".toList then some .greaterThan
  else if t = "greaterThanOrEqual".toList then some .greaterThanOrEqual
  else if t = "lessThan".toList then some .lessThan
  else if t = "lessThanOrEqual".toList then some .lessThanOrEqual
  else if t = "notBetween".toList then some .notBetween
  else if t = "notEqual".toList then some .notEqual
  else none

/-- `EnumValue::set_value_string` on a field holding `cur` -/
def setEnum {α} (fromStr : Text → Option α) (cur : Option α) (t : Text) : Option α :=
  match fromStr t with
  | some v => some v
  | none => cur

/-- `if let Some(v) = get_attribute(..) { field.set_value_string(v) }` for an enum field of a fresh object -/
def readEnum {α} (fromStr : Text → Option α) (a : Option Text) : Option α :=
  match a with
  | some t => setEnum fromStr none t
  | none => none

/-! ## sqref -/

/-- `str::split(' ')` (always at least one piece) -/
def splitSp (s : Text) : List Text :=
  let rec go (s : Text) (cur : Text) : List Text :=
    match s with
    | [] => [cur.reverse]
    | c :: r => if c = ' ' then cur.reverse :: go r [] else go r (c :: cur)
  go s []

/-- `[..].join(" ")` -/
def joinSp : List Text → Text
  | [] => []
  | [a] => a
  | a :: b :: r => a ++ ' ' :: joinSp (b :: r)

/-- `SequenceOfReferences::get_sqref` -/
def sqrefText (rs : List Range) : Text := joinSp (rs.map Range.print)

/-- pushing one parsed range per piece onto `acc` -/
def pushRanges : List Range → List Text → Res (List Range)
  | acc, [] => .ok acc
  | acc, p :: ps =>
    match Range.parse p with
    | .ok ρ => pushRanges (acc ++ [ρ]) ps
    | .panic => .panic

/-- `SequenceOfReferences::set_sqref` on a collection holding `acc`: `split(' ')`, the empty pieces left out
    (fix 13062503: the empty text is no range), one range per piece -/
def setSqref (acc : List Range) (t : Text) : Res (List Range) := pushRanges acc ((splitSp t).filter fun p => !p.isEmpty)

/-- before fix 13062503: every piece, the empty ones too (`"".split(' ')` yields one empty piece) -/
def setSqrefOld (acc : List Range) (t : Text) : Res (List Range) := pushRanges acc (splitSp t)

/-- the `sqref` attribute handling of a fresh object -/
def readSqref (a : Option Text) : Res (List Range) :=
  match a with
  | some t => setSqref [] t
  | none => .ok []

/-! ## `DataValidation` -/

structure Dv where
  type : Option DvType := none
  operator : Option DvOp := none
  allowBlank : Option Bool := none
  showInput : Option Bool := none
  showError : Option Bool := none
  promptTitle : Option Text := none
  prompt : Option Text := none
  errorTitle : Option Text := none
  error : Option Text := none
  sqref : List Range := []
  formula1 : Option Text := none
  formula2 : Option Text := none
  deriving Repr, DecidableEq

def nDataValidation : Text := "dataValidation".toList
def nDataValidations : Text := "dataValidations".toList
def nFormula1 : Text := "formula1".toList
def nFormula2 : Text := "formula2".toList

/-- attribute names in the order `write_to` pushes them -/
def dvNames : List Text :=
  ["type".toList, "allowBlank".toList, "showInputMessage".toList, "operator".toList, "showErrorMessage".toList,
   "errorTitle".toList, "error".toList, "promptTitle".toList, "prompt".toList, "sqref".toList]

def sqrefAttr (rs : List Range) : Option Text :=
  let t := sqrefText rs
  if t = [] then none else some t

def dvValues (x : Dv) : List (Option Text) :=
  [x.type.map DvType.toStr, x.allowBlank.map boolStr, x.showInput.map boolStr, x.operator.map DvOp.toStr,
   x.showError.map boolStr, x.errorTitle, x.error, x.promptTitle, x.prompt, sqrefAttr x.sqref]

/-- `<name>text</name>` as a tree: no text child for an empty text -/
def textElem (name : Text) (t : Text) : Node := .elem name [] (if t = [] then [] else [.text t])

def optElem (name : Text) : Option Text → List Node
  | some t => [textElem name t]
  | none => []

/-- `DataValidation::write_to` -/
def write (x : Dv) : Node :=
  .elem nDataValidation (render dvNames (dvValues x)) (optElem nFormula1 x.formula1 ++ optElem nFormula2 x.formula2)

/-- the value a formula element hands over at its end tag: the last text event inside it, else empty -/
def lastText : List Node → Text → Text
  | [], acc => acc
  | .text s :: r, _ => lastText r s
  | .elem _ _ _ :: r, acc => lastText r acc

/-- the event loop over the children of `<dataValidation>` -/
def readKids : List Node → Option Text × Option Text → Option Text × Option Text
  | [], st => st
  | .text _ :: r, st => readKids r st
  | .elem n _ kids :: r, st =>
    if n = nFormula1 then readKids r (some (lastText kids []), st.2)
    else if n = nFormula2 then readKids r (st.1, some (lastText kids []))
    else readKids r st

/-- `DataValidation::set_attributes` on a fresh object -/
def read (n : Node) : Res Dv :=
  match n with
  | .text _ => .ok {}
  | .elem _ as kids =>
    match readSqref (getAttr as "sqref".toList) with
    | .panic => .panic
    | .ok sq =>
      let f := readKids kids (none, none)
      .ok { type := readEnum DvType.fromStr (getAttr as "type".toList)
            operator := readEnum DvOp.fromStr (getAttr as "operator".toList)
            allowBlank := (getAttr as "allowBlank".toList).map boolOf
            showInput := (getAttr as "showInputMessage".toList).map boolOf
            showError := (getAttr as "showErrorMessage".toList).map boolOf
            errorTitle := getAttr as "errorTitle".toList
            error := getAttr as "error".toList
            promptTitle := getAttr as "promptTitle".toList
            prompt := getAttr as "prompt".toList
            sqref := sq
            formula1 := f.1
            formula2 := f.2 }

/-! ## `DataValidations` -/

/-- `DataValidations::write_to`: `count`, then every validation in list order -/
def writeList (l : List Dv) : Node :=
  .elem nDataValidations [⟨"count".toList, Umya.Dec.decDigits l.length⟩] (l.map write)

/-- `DataValidations::set_attributes`: every child called `dataValidation`, in document order -/
def readAll : List Node → Res (List Dv)
  | [] => .ok []
  | .text _ :: r => readAll r
  | .elem n as kids :: r =>
    if n = nDataValidation then
      match read (.elem n as kids) with
      | .panic => .panic
      | .ok x =>
        match readAll r with
        | .ok xs => .ok (x :: xs)
        | .panic => .panic
    else readAll r

def readList (n : Node) : Res (List Dv) :=
  match n with
  | .text _ => .ok []
  | .elem _ _ kids => readAll kids

/-! ## the reader BEFORE fix_2 (kept for the refutation): the worksheet part is read with
    `trim_text(true)`, which drops leading / trailing blank, tab, CR, LF of the RAW text event (so a
    carriage return, written as `&#13;`, survives) and suppresses an event that becomes empty -/

def isTrimmed (c : Char) : Bool := c = ' ' || c = '\t' || c = '\n'
def trimOld (s : Text) : Text := ((s.dropWhile isTrimmed).reverse.dropWhile isTrimmed).reverse

/-- formula text as the unfixed reader returned it, given the text that was written -/
def formulaReadOld (t : Text) : Option Text :=
  Umya.XmlEsc.unescape (Umya.Annot.trimXml (Umya.XmlEsc.escape t))

end Umya.AnnotDv
