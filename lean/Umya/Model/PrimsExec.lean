/-
  The executable `Prims` instance used by the native driver: SHA-512, AES-256-CBC, HMAC-SHA-512
  and base64 written in core Lean (`Sha512.lean`, `Aes.lean`, `Hmac.lean`, `Base64.lean`).

  None of it is proved.  `selftest` runs the published vectors
  (FIPS 180-4 / NIST SHA-512 examples, FIPS 197 C.3, SP 800-38A F.2.5/F.2.6, RFC 4231 cases 1, 2, 6,
  RFC 4648 §10) and samples the laws of `Prims.Lawful`; the driver exposes it as `c14 selftest`.
-/
import Umya.Model.Prims
import Umya.Model.Sha512
import Umya.Model.Aes
import Umya.Model.Hmac
import Umya.Model.Base64
namespace Umya.PrimsExec
open Umya.Crypto

def toBA (l : Bytes) : ByteArray := l.toByteArray
def ofBA (b : ByteArray) : Bytes := b.toList

def exec : Prims where
  sha512 x := ofBA (Umya.Sha512.hash (toBA x))
  aesCbcEnc k iv m := ofBA (Umya.Aes.cbcEnc (toBA k) (toBA iv) (toBA m))
  aesCbcDec k iv m := ofBA (Umya.Aes.cbcDec (toBA k) (toBA iv) (toBA m))
  hmac k m := ofBA (Umya.Hmac.hmacSha512 (toBA k) (toBA m))
  b64 := Umya.Base64.encode
  unb64 := Umya.Base64.decode

def hexVal (c : Char) : Nat :=
  if '0' ≤ c ∧ c ≤ '9' then c.toNat - 48
  else if 'a' ≤ c ∧ c ≤ 'f' then c.toNat - 87
  else 0

def unhex (s : String) : Bytes :=
  let rec go : List Char → Bytes
    | a :: b :: r => UInt8.ofNat (16 * hexVal a + hexVal b) :: go r
    | _ => []
  go s.toList

def hexDigit (n : Nat) : Char :=
  if n < 10 then Char.ofNat (48 + n) else Char.ofNat (87 + n)

def hex (b : Bytes) : String :=
  String.ofList (b.flatMap fun x => [hexDigit (x.toNat / 16), hexDigit (x.toNat % 16)])

def ascii (s : String) : Bytes := s.toUTF8.toList

/-- list of (name, passed) -/
def vectors : List (String × Bool) :=
  let P := exec
  let k256 := unhex "603deb1015ca71be2b73aef0857d77811f352c073b6108d72d9810a30914dff4"
  let iv := unhex "000102030405060708090a0b0c0d0e0f"
  let pt := unhex ("6bc1bee22e409f96e93d7e117393172aae2d8a571e03ac9c9eb76fac45af8e51" ++
                   "30c81c46a35ce411e5fbc1191a0a52eff69f2445df4f9b17ad2b417be66c3710")
  let ct := unhex ("f58c4c04d6e5f1ba779eabfb5f7bfbd69cfc4e967edb808d679f777bc6702c7d" ++
                   "39f23369a9d9bacfa530e26304231461b2eb05e2c39be9fcda6c19078c6a9d1b")
  [ ("sha512-empty", hex (P.sha512 []) ==
      "cf83e1357eefb8bdf1542850d66d8007d620e4050b5715dc83f4a921d36ce9ce47d0d13c5d85f2b0ff8318d2877eec2f63b931bd47417a81a538327af927da3e"),
    ("sha512-abc", hex (P.sha512 (ascii "abc")) ==
      "ddaf35a193617abacc417349ae20413112e6fa4e89a97ea20a9eeee64b55d39a2192992a274fc1a836ba3c23a3feebbd454d4423643ce80e2a9ac94fa54ca49f"),
    ("sha512-896bit", hex (P.sha512 (ascii
      "abcdefghbcdefghicdefghijdefghijkefghijklfghijklmghijklmnhijklmnoijklmnopjklmnopqklmnopqrlmnopqrsmnopqrstnopqrstu")) ==
      "8e959b75dae313da8cf4f72814fc143f8f7779c6eb9f7fa17299aeadb6889018501d289e4900f7e4331b99dec4b5433ac7d329eeb6dd26545e96e55b874be909"),
    ("sha512-111a", hex (P.sha512 (List.replicate 111 97)) ==
      "fa9121c7b32b9e01733d034cfc78cbf67f926c7ed83e82200ef86818196921760b4beff48404df811b953828274461673c68d04e297b0eb7b2b4d60fc6b566a2"),
    ("sha512-112a", hex (P.sha512 (List.replicate 112 97)) ==
      "c01d080efd492776a1c43bd23dd99d0a2e626d481e16782e75d54c2503b5dc32bd05f0f1ba33e568b88fd2d970929b719ecbb152f58f130a407c8830604b70ca"),
    ("sha512-million-a", hex (P.sha512 (List.replicate 1000000 97)) ==
      "e718483d0ce769644e2e42c7bc15b4638e1f98b13b2044285632a803afa973ebde0ff244877ea60a4cb0432ce577c31beb009c5c2c49aa2e4eadb217ad8cc09b"),
    ("aes256-fips197-c3",
      hex (P.aesCbcEnc (unhex "000102030405060708090a0b0c0d0e0f101112131415161718191a1b1c1d1e1f")
        (List.replicate 16 0) (unhex "00112233445566778899aabbccddeeff")) == "8ea2b7ca516745bfeafc49904b496089"),
    ("aes256-fips197-c3-inv",
      hex (P.aesCbcDec (unhex "000102030405060708090a0b0c0d0e0f101112131415161718191a1b1c1d1e1f")
        (List.replicate 16 0) (unhex "8ea2b7ca516745bfeafc49904b496089")) == "00112233445566778899aabbccddeeff"),
    ("cbc-aes256-sp800-38a-f25", P.aesCbcEnc k256 iv pt == ct),
    ("cbc-aes256-sp800-38a-f26", P.aesCbcDec k256 iv ct == pt),
    ("hmac-rfc4231-1", hex (P.hmac (List.replicate 20 0x0b) (ascii "Hi There")) ==
      "87aa7cdea5ef619d4ff0b4241a1d6cb02379f4e2ce4ec2787ad0b30545e17cdedaa833b7d6b8a702038b274eaea3f4e4be9d914eeb61f1702e696c203a126854"),
    ("hmac-rfc4231-2", hex (P.hmac (ascii "Jefe") (ascii "what do ya want for nothing?")) ==
      "164b7a7bfcf819e2e395fbe73b56e0a387bd64222e831fd610270cd7ea2505549758bf75c05a994a6d034f65f8f0e6fdcaeab1a34d4a6b4b636e070a38bce737"),
    ("hmac-rfc4231-6", hex (P.hmac (List.replicate 131 0xaa)
        (ascii "Test Using Larger Than Block-Size Key - Hash Key First")) ==
      "80b24263c7c1a3ebb71493c1dd7be8b49b46d1f41b4aeec1121b013783f8f3526b56d037e05f2598bd0fd2215d6a1e5295e64f73f63f0aec8b915a985d786598"),
    ("b64-rfc4648", [("", ""), ("f", "Zg=="), ("fo", "Zm8="), ("foo", "Zm9v"), ("foob", "Zm9vYg=="),
        ("fooba", "Zm9vYmE="), ("foobar", "Zm9vYmFy")].all fun (a, b) =>
          P.b64 (ascii a) == b.toList && P.unb64 b.toList == some (ascii a)),
    ("b64-all-bytes", let all := (List.range 256).map UInt8.ofNat
        P.unb64 (P.b64 all) == some all && P.unb64 (P.b64 (all.drop 1)) == some (all.drop 1) &&
        P.unb64 (P.b64 (all.drop 2)) == some (all.drop 2)),
    ("b64-reject", P.unb64 "Zg=".toList == none && P.unb64 "Z===".toList == none && P.unb64 "Zm9v!A==".toList == none),
    -- sampled laws of `Prims.Lawful`
    ("law-lengths", (P.sha512 pt).length == 64 && (P.hmac pt ct).length == 64 &&
        (P.aesCbcEnc k256 iv pt).length == pt.length),
    ("law-dec-enc-4096", let m := (List.range 4096).map fun i => UInt8.ofNat (i * 7 + i / 256)
        P.aesCbcDec k256 iv (P.aesCbcEnc k256 iv m) == m) ]

def selftest : String :=
  let bad := vectors.filter (fun p => !p.2)
  if bad.isEmpty then s!"ok {vectors.length}"
  else "fail " ++ " ".intercalate (bad.map (·.1))

end Umya.PrimsExec
