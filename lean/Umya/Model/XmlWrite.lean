/-
  The tag-level serialisation of `writer/driver.rs` on top of quick-xml 0.37.5 `Writer::write_event`
  (`quick-xml-0.37.5/src/writer.rs`, `events/mod.rs`), as characters (`List Char`; every delimiter is
  ASCII, so working on scalar values instead of UTF-8 bytes changes nothing):

  * `Event::Start(e)` ↦ `<` e `>`, `Event::Empty(e)` ↦ `<` e `/>`, `Event::End(e)` ↦ `</` e `>`,
    `Event::Text(e)` ↦ e, `Event::Decl(e)` ↦ `<?` e `?>` (`write_wrapped`; the writers of this library are
    made by `Writer::new`, i.e. without indentation);
  * `BytesStart::push_attribute((k, v))` appends one blank, k, `="`, v (NOT escaped by quick-xml), `"`;
  * `BytesDecl::new("1.0", Some("UTF-8"), Some("yes"))` is `xml version="1.0" encoding="UTF-8" standalone="yes"`.

  `write_start_tag` escapes each attribute value with `Umya.XmlEsc.attrEscape` (quick-xml `escape`, then
  `\t \n \r` as character references); `write_text_node` writes `Umya.XmlEsc.escape`,
  `write_text_node_conversion` writes `Umya.XmlEsc.partialEscape` through `write_text_node_no_escape`
  (the bytes as they are); `write_new_line` writes the two characters CR LF.
  Which event / pipeline each function uses is regenerated from the source on every run
  (`Umya/Model/Gen/Tables.lean`, `Umya.Gen.driver_*`) and proved equal to the definitions here
  (`C02_writer_matches_source`).

  A written document is described by a tree of WRITER CALLS (`WNode`): it records, per element, which of
  the two forms the code used (`empty_flag = true`, or start tag … end tag) and, per text, which of the text
  writers was called.  `erase` forgets these choices and gives the element tree
  (`Umya.Spec.Xml.Node`) that was meant.
-/
import Umya.Model.XmlEsc
import Umya.Spec.XmlLex
namespace Umya.XmlWrite
open Umya.XmlEsc
open Umya.Spec.Xml (Attr Node Token)

abbrev Text := List Char

/-! ## the functions of `writer/driver.rs` -/

/-- which quick-xml event a function hands to `Writer::write_event` -/
inductive EvKind where
  | start | empty | stop | text
  deriving DecidableEq, Repr

/-- `Writer::write_event` on an event whose content is `body` -/
def writeEvent (k : EvKind) (body : Text) : Text :=
  match k with
  | .start => '<' :: body ++ ['>']
  | .empty => '<' :: body ++ ['/', '>']
  | .stop => '<' :: '/' :: body ++ ['>']
  | .text => body

/-- `BytesStart::push_attribute` with the value `write_start_tag` computed -/
def renderAttr (a : Attr) : Text := ' ' :: a.name ++ '=' :: '"' :: attrEscape a.value ++ ['"']

def renderAttrs (as : List Attr) : Text := as.flatMap renderAttr

/-- the event `write_start_tag` emits under `empty_flag` -/
def startKind (emptyFlag : Bool) : EvKind := if emptyFlag then .empty else .start

/-- `write_start_tag(writer, name, attributes, empty_flag)` -/
def writeStartTag (name : Text) (as : List Attr) (emptyFlag : Bool) : Text :=
  writeEvent (startKind emptyFlag) (name ++ renderAttrs as)

/-- `write_end_tag(writer, name)` -/
def writeEndTag (name : Text) : Text := writeEvent .stop name

/-- `write_text_node(writer, data)`: `Event::Text(BytesText::from_escaped(escape(data).replace('\r', "&#13;")))` -/
def writeTextNode (s : Text) : Text := writeEvent .text (escape s)

/-- `write_text_node_no_escape(writer, data)`: the bytes as they are -/
def writeTextNodeNoEscape (s : Text) : Text := s

/-- `write_text_node_conversion(writer, data)` -/
def writeTextNodeConversion (s : Text) : Text := writeTextNodeNoEscape (partialEscape s)

/-- the literal of `write_new_line` -/
def newLineLit : Text := ['\r', '\n']

/-- `write_new_line(writer)` -/
def writeNewLine : Text := writeTextNodeNoEscape newLineLit

/-- `Event::Decl(BytesDecl::new("1.0", Some("UTF-8"), Some("yes")))`, emitted first by every part writer -/
def declBody : Text := "xml version=\"1.0\" encoding=\"UTF-8\" standalone=\"yes\"".toList

def writeDecl : Text := '<' :: '?' :: declBody ++ ['?', '>']

/-! ## documents as trees of writer calls -/

inductive WNode where
  /-- `write_start_tag(name, attrs, false)`, the children, `write_end_tag(name)` -/
  | elem (name : Text) (attrs : List Attr) (kids : List WNode)
  /-- `write_start_tag(name, attrs, true)` -/
  | empty (name : Text) (attrs : List Attr)
  /-- `write_text_node(s)` -/
  | text (s : Text)
  /-- `write_text_node_conversion(s)` -/
  | conv (s : Text)
  /-- `write_text_node_no_escape(r)`; `v` records the character data `r` stands for (the theorems ask for
      `textValue r = some v`) -/
  | raw (r : Text) (v : Text)
  /-- `write_new_line()` -/
  | nl
  deriving Repr, Inhabited

/-- the characters a sequence of writer calls leaves in the buffer -/
def renderKids : List WNode → Text
  | [] => []
  | .elem n as ks :: r => writeStartTag n as false ++ (renderKids ks ++ (writeEndTag n ++ renderKids r))
  | .empty n as :: r => writeStartTag n as true ++ renderKids r
  | .text s :: r => writeTextNode s ++ renderKids r
  | .conv s :: r => writeTextNodeConversion s ++ renderKids r
  | .raw x _ :: r => writeTextNodeNoEscape x ++ renderKids r
  | .nl :: r => writeNewLine ++ renderKids r

def renderNode (w : WNode) : Text := renderKids [w]

/-- a part: XML declaration, new line, root element -/
def renderDoc (w : WNode) : Text := writeDecl ++ (writeNewLine ++ renderNode w)

/-- the element tree that was meant -/
def eraseKids : List WNode → List Node
  | [] => []
  | .elem n as ks :: r => .elem n as (eraseKids ks) :: eraseKids r
  | .empty n as :: r => .elem n as [] :: eraseKids r
  | .text s :: r => .text s :: eraseKids r
  | .conv s :: r => .text s :: eraseKids r
  | .raw _ v :: r => .text v :: eraseKids r
  | .nl :: r => .text ['\n'] :: eraseKids r

def erase : WNode → Node
  | .elem n as ks => .elem n as (eraseKids ks)
  | .empty n as => .elem n as []
  | .text s => .text s
  | .conv s => .text s
  | .raw _ v => .text v
  | .nl => .text ['\n']

/-! ## the reader's normal form

  An XML reader cannot deliver an empty text node (no character data = no node) and cannot tell where one
  piece of character data ends and the next begins: inside an element, empty text nodes are dropped and
  adjacent text nodes are concatenated.  Nothing else changes (names, attributes and their order, the
  order of children, the text itself). -/

open Umya.Spec.Xml (pushText)

/-- append character data to a reversed list of children -/
def pushP (kids : List Node) (p : Text) : List Node := if p = [] then kids else pushText kids p

/-- normalise a list of children onto the reversed accumulator `acc` -/
def normKidsAcc : List Node → List Node → List Node
  | acc, [] => acc
  | acc, .text s :: r => normKidsAcc (pushP acc s) r
  | acc, .elem n as ks :: r => normKidsAcc (.elem n as (normKidsAcc [] ks).reverse :: acc) r

def normKids (ks : List Node) : List Node := (normKidsAcc [] ks).reverse

def normNode : Node → Node
  | .elem n as ks => .elem n as (normKids ks)
  | .text s => .text s

/-- trees already in normal form: no empty text node, no two adjacent text nodes, at any depth -/
def startsText : List Node → Bool
  | .text _ :: _ => true
  | _ => false

def isNFKids : List Node → Bool
  | [] => true
  | .text s :: r => !s.isEmpty && !startsText r && isNFKids r
  | .elem _ _ ks :: r => isNFKids ks && isNFKids r

def isNF : Node → Bool
  | .elem _ _ ks => isNFKids ks
  | .text s => !s.isEmpty

/-! ## well-formedness conditions of the theorems (all decidable) -/

open Umya.Spec.Xml (isXmlChar isNameStart isNameChar textValue)

/-- production [5] Name, restricted to legal characters -/
def wfName (n : Text) : Bool :=
  match n with
  | [] => false
  | c :: cs => isNameStart c && isXmlChar c && cs.all (fun d => isNameChar d && isXmlChar d)

def allXml (s : Text) : Bool := s.all isXmlChar

/-- attribute names are Names and pairwise distinct; values are XML characters -/
def wfAttrs (as : List Attr) : Bool :=
  as.all (fun a => wfName a.name && allXml a.value) && decide ((as.map (·.name)).Nodup)

/-- raw character data handed to `write_text_node_no_escape`: XML characters, no `<`, no literal carriage
    return, and its references resolve to `v` -/
def wfRaw (r v : Text) : Bool :=
  allXml r && !r.contains '<' && !r.contains '\r' && decide (textValue r = some v)

def wfKids : List WNode → Bool
  | [] => true
  | .elem n as ks :: r => wfName n && wfAttrs as && wfKids ks && wfKids r
  | .empty n as :: r => wfName n && wfAttrs as && wfKids r
  | .text s :: r => allXml s && wfKids r
  | .conv s :: r => allXml s && wfKids r
  | .raw x v :: r => wfRaw x v && wfKids r
  | .nl :: r => wfKids r

def WF (w : WNode) : Bool := wfKids [w]

def isElemW : WNode → Bool
  | .elem _ _ _ => true
  | .empty _ _ => true
  | _ => false

/-! ## element trees rendered with default choices -/

/-- a writer-call tree for an element tree: every text through `write_text_node`; a childless element as
    an empty-element tag when `selfClose`, as start tag + end tag otherwise -/
def mkElem (selfClose : Bool) (n : Text) (as : List Attr) (ws : List WNode) : WNode :=
  match ws with
  | [] => if selfClose then .empty n as else .elem n as []
  | _ => .elem n as ws

def ofKids (selfClose : Bool) : List Node → List WNode
  | [] => []
  | .text s :: r => .text s :: ofKids selfClose r
  | .elem n as ks :: r => mkElem selfClose n as (ofKids selfClose ks) :: ofKids selfClose r

def ofNode (selfClose : Bool) : Node → WNode
  | .text s => .text s
  | .elem n as ks => mkElem selfClose n as (ofKids selfClose ks)

/-- names / attributes / characters of an element tree are fit for XML -/
def wfNodes : List Node → Bool
  | [] => true
  | .text s :: r => allXml s && wfNodes r
  | .elem n as ks :: r => wfName n && wfAttrs as && wfNodes ks && wfNodes r

end Umya.XmlWrite
