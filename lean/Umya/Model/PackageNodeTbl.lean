/-
  The PACKAGE the writer assembles (`make_buffer`, `src/writer/xlsx.rs`) for a workbook whose sheets may carry COMMENTS
  and TABLES — what a sheet with tables adds to the package model of `Umya/Model/PackageNodeCmt.lean`: names, content
  types, relationships, numbers, and the `<tableParts>` child of the sheet.  The TREE of a table part
  (`writer/xlsx/table.rs`) is not modelled here (an opaque tree).

  Per sheet, in sheet order, `make_buffer` runs (second loop) vml_drawing::write, comment::write, then

      table::write            for every table of the sheet, in order: `table_no = writer_mng.next_table_no()` (ONE
                              counter for the whole package, `table_no += 1`), skipping numbers whose part
                              `xl/tables/table{n}.xml` is already registered (only raw sheets register such parts before:
                              outside this model, so the loop body never runs here); `add_file_at_table`; the numbers
                              are returned as `table_no_list`
      worksheet_rels::write   hyperlink relationships (`rId1` …), — no printer settings, no drawing — `rId{r}`
                              vmlDrawing when the sheet has comments, then ONE `table` relationship PER TABLE
                              `rId{r'}` … → `../tables/table{n}.xml`, — no OLE objects — then the comments
                              relationship: the tables sit BETWEEN vmlDrawing and comments and shift the comments id

  and `worksheet::write` (first loop) writes, after `legacyDrawing`, `<tableParts count="t">` with one
  `<tablePart r:id="rId{r'+j}"/>` per table, ITS counter continuing after `legacyDrawing` (`r_id += 1` there).

  `[Content_Types].xml`: one `Override` per `/xl/tables/table{n}.xml` (`TABLE_TYPE`).
  Core Lean only.
-/
import Umya.Model.PackageNodeCmt
namespace Umya.PackageNode
open Umya.Xml Umya.CellXml Umya.CellNode Umya.SheetNode Umya.WorkbookNode Umya.Dec
open Umya.Spec.Xml (Node Attr)
open Umya.Spec.Sml (Part Package)

/-- `format!("{}/table{}.xml", PKG_TABLES, table_no)` -/
def tblPartL (t : Nat) : List Char :=
  'x' :: 'l' :: '/' :: 't' :: 'a' :: 'b' :: 'l' :: 'e' :: 's' :: '/' :: 't' :: 'a' :: 'b' :: 'l' :: 'e' :: (decDigits t ++ ['.', 'x', 'm', 'l'])

/-- `format!("../tables/table{}.xml", table_no)` -/
def tblTarget (t : Nat) : List Char :=
  '.' :: '.' :: '/' :: 't' :: 'a' :: 'b' :: 'l' :: 'e' :: 's' :: '/' :: 't' :: 'a' :: 'b' :: 'l' :: 'e' :: (decDigits t ++ ['.', 'x', 'm', 'l'])

def tTable : List Char := ['h', 't', 't', 'p', ':', '/', '/', 's', 'c', 'h', 'e', 'm', 'a', 's', '.', 'o', 'p', 'e', 'n', 'x', 'm', 'l', 'f', 'o', 'r', 'm', 'a', 't', 's', '.', 'o', 'r', 'g', '/', 'o', 'f', 'f', 'i', 'c', 'e', 'D', 'o', 'c', 'u', 'm', 'e', 'n', 't', '/', '2', '0', '0', '6', '/', 'r', 'e', 'l', 'a', 't', 'i', 'o', 'n', 's', 'h', 'i', 'p', 's', '/', 't', 'a', 'b', 'l', 'e']
def ctTable : List Char := ['a', 'p', 'p', 'l', 'i', 'c', 'a', 't', 'i', 'o', 'n', '/', 'v', 'n', 'd', '.', 'o', 'p', 'e', 'n', 'x', 'm', 'l', 'f', 'o', 'r', 'm', 'a', 't', 's', '-', 'o', 'f', 'f', 'i', 'c', 'e', 'd', 'o', 'c', 'u', 'm', 'e', 'n', 't', '.', 's', 'p', 'r', 'e', 'a', 'd', 's', 'h', 'e', 'e', 't', 'm', 'l', '.', 't', 'a', 'b', 'l', 'e', '+', 'x', 'm', 'l']
def nTableParts : List Char := ['t', 'a', 'b', 'l', 'e', 'P', 'a', 'r', 't', 's']
def nTablePart : List Char := ['t', 'a', 'b', 'l', 'e', 'P', 'a', 'r', 't']

/-! ## numbers -/

/-- the numbers `table::write` hands out: `c` = the counter of the `WriterManager` before the sheet, `counts` = the
    number of tables of every sheet in sheet order; sheet i gets `c_i + 1 … c_i + t_i` -/
def tableNums : Nat → List Nat → List (List Nat)
  | _, [] => []
  | c, t :: r => List.range' (c + 1) t :: tableNums (c + t) r

/-! ## relationships -/

/-- one `table` relationship per number, ids `k`, `k + 1`, … -/
def tblRelNodes : Nat → List Nat → List Node
  | _, [] => []
  | k, t :: r => relEl k tTable (tblTarget t) :: tblRelNodes (k + 1) r

/-- what follows the hyperlink relationships of a sheet: vmlDrawing (with comments), the tables, comments -/
def restNodesT (k : Nat) (num : Option (Nat × Nat)) (ts : List Nat) : List Node :=
  match num with
  | none => tblRelNodes k ts
  | some (v, c) => relEl k tVml (vmlTarget v) :: (tblRelNodes (k + 1) ts ++ [relEl (k + 1 + ts.length) tComments (commentsTarget c)])

def restOfT (links : List LinkW) (num : Option (Nat × Nat)) (ts : List Nat) : List Node := restNodesT (hlNext 1 links) num ts

/-! ## the `<tableParts>` child of `<worksheet>` -/

/-- `<tablePart r:id="rId{k}"/>` … , `t` of them -/
def tablePartEls : Nat → Nat → List Node
  | _, 0 => []
  | k, t + 1 => Node.elem nTablePart [⟨['r', ':', 'i', 'd'], rIdText k⟩] [] :: tablePartEls (k + 1) t

/-- the counter of worksheet.rs where the table parts start: after the hyperlink loop and `legacyDrawing` -/
def tblStart (links : List LinkW) (hasCmt : Bool) : Nat := hlNext 1 links + (if hasCmt then 1 else 0)

/-- `if worksheet.has_table() { <tableParts count=…> … }` -/
def tablePartsNodes (links : List LinkW) (hasCmt : Bool) (t : Nat) : List Node :=
  if t = 0 then [] else [Node.elem nTableParts [⟨['c', 'o', 'u', 'n', 't'], decDigits t⟩] (tablePartEls (tblStart links hasCmt) t)]

/-- the `r:id`s of the table parts of a sheet -/
def tablePartIds (links : List LinkW) (hasCmt : Bool) (t : Nat) : List (List Char) :=
  (List.range' (tblStart links hasCmt) t).map rIdText

/-! ## `[Content_Types].xml` -/

def tableOverrides (ts : List Nat) : List Node := ts.map fun t => overrideEl (tblPartL t) ctTable

def contentTypesNodeT (n : Nat) (hasSst : Bool) (vs cs ts : List Nat) : Node :=
  Node.elem ['T', 'y', 'p', 'e', 's'] [⟨['x', 'm', 'l', 'n', 's'], ctNs⟩]
    ([defaultEl ['r', 'e', 'l', 's'] ctRels, defaultEl ['x', 'm', 'l'] ctXml] ++
     (if vs.isEmpty then [] else [defaultEl ['v', 'm', 'l'] ctVml]) ++
     [overrideEl nApp ctApp, overrideEl nCore ctCore] ++ commentsOverrides cs ++
     (if hasSst then [overrideEl nSst ctSst] else []) ++
     [overrideEl nStyles ctStyles] ++ tableOverrides ts ++ [overrideEl nTheme ctTheme, overrideEl nWorkbookPart ctWorkbook] ++
     sheetOverrides 1 n)

/-! ## the skeleton (what the tie compares with the real package) -/

def tblRelTs : Nat → List Nat → List RelT
  | _, [] => []
  | k, t :: r => ⟨rIdText k, tTable, tblTarget t, false⟩ :: tblRelTs (k + 1) r

def restRelTsT (k : Nat) (num : Option (Nat × Nat)) (ts : List Nat) : List RelT :=
  match num with
  | none => tblRelTs k ts
  | some (v, c) => ⟨rIdText k, tVml, vmlTarget v, false⟩ :: (tblRelTs (k + 1) ts ++ [⟨rIdText (k + 1 + ts.length), tComments, commentsTarget c, false⟩])

def sheetRelsSkelT : Nat → List (List LinkW × Option (Nat × Nat) × List Nat) → List PartS
  | _, [] => []
  | k, (ls, num, ts) :: r =>
    (if linkRelTs 1 ls ++ restRelTsT (hlNext 1 ls) num ts = [] then [] else [⟨sheetRelsL k, some ctRels, linkRelTs 1 ls ++ restRelTsT (hlNext 1 ls) num ts⟩]) ++
    sheetRelsSkelT (k + 1) r

def tblSkel (ts : List Nat) : List PartS := ts.map fun t => ⟨tblPartL t, some ctTable, []⟩

/-- the skeleton of the package for `links` = the (sorted) hyperlinks of every sheet, `flags` = which sheets have
    comments, `counts` = how many tables every sheet has, and whether a shared-string part is written -/
def skeletonT (links : List (List LinkW)) (flags : List Bool) (counts : List Nat) (hasSst : Bool) : List PartS :=
  let n := links.length
  let nums := numbering [] [] flags
  let tn := tableNums 0 counts
  [⟨nApp, some ctApp, []⟩, ⟨nCore, some ctCore, []⟩,
   ⟨nRootRels, some ctRels, [⟨rIdText 3, tXprops, nApp, false⟩, ⟨rIdText 2, tCoreprops, nCore, false⟩, ⟨rIdText 1, tOfficeDoc, nWorkbookPart, false⟩]⟩,
   ⟨nTheme, some ctTheme, []⟩] ++
  sheetSkel 1 n ++ cmtSkel nums ++ tblSkel tn.flatten ++ sheetRelsSkelT 1 (links.zip (nums.zip tn)) ++
  (if hasSst then [⟨nSst, some ctSst, []⟩] else []) ++
  [⟨nStyles, some ctStyles, []⟩, ⟨nWorkbookPart, some ctWorkbook, []⟩,
   ⟨nWorkbookRels, some ctRels,
     wsRelTs 1 n ++ [⟨rIdText (n + 1), tStyles, ['s', 't', 'y', 'l', 'e', 's', '.', 'x', 'm', 'l'], false⟩, ⟨rIdText (n + 2), tTheme, ['t', 'h', 'e', 'm', 'e', '/', 't', 'h', 'e', 'm', 'e', '1', '.', 'x', 'm', 'l'], false⟩] ++
     (if hasSst then [⟨rIdText (n + 3), tSharedStrings, ['s', 'h', 'a', 'r', 'e', 'd', 'S', 't', 'r', 'i', 'n', 'g', 's', '.', 'x', 'm', 'l'], false⟩] else [])⟩,
   ⟨nContentTypes, none, []⟩]


/-! ## the whole package (`make_buffer`) for workbooks whose sheets may carry comments AND tables

  A sheet with tables is a sheet of the comments model (`SheetC`) plus the TREES of its table parts (opaque here:
  `table.rs` is not modelled); its `<worksheet>` has the `<tableParts>` child right after the place of
  `legacyDrawing`, i.e. at the head of the children that follow it (`postB`).  The package is the one of
  `assembleC` for these sheets, with the table parts added, the sheet relationship parts carrying the table
  relationships (`restOfT`) and `[Content_Types].xml` the table Overrides. -/

structure SheetT (N : Type) where
  c : SheetC N
  tables : List Node := []

/-- the sheet of the comments model whose written frame has `<tableParts>` after `legacyDrawing` -/
def SheetT.toC {N} (s : SheetT N) : SheetC N :=
  { s.c with postB := tablePartsNodes s.c.sheet.links s.c.has s.tables.length ++ s.c.postB }

structure BookT (N : Type) where
  sheets : List (SheetT N)
  names : List NameE := []
  wbFrame : WbFrame := {}
  app : Node
  core : Node
  theme : Node
  styles : Node

def BookT.toC {N} (b : BookT N) : BookC N :=
  { sheets := b.sheets.map (·.toC), names := b.names, wbFrame := b.wbFrame, app := b.app, core := b.core, theme := b.theme, styles := b.styles }

/-- the numbers of the table parts, per sheet -/
def BookT.tnums {N} (b : BookT N) : List (List Nat) := tableNums 0 (b.sheets.map (·.tables.length))

/-- the table parts: the numbers in the order handed out, each with its tree -/
def tblPartsOf (nums : List Nat) (trees : List Node) : List Part := (nums.zip trees).map fun p => xmlPart (tblPartL p.1) p.2

def relsInputT {N} (an : List (SheetC N × Option (Nat × Nat))) (tn : List (List Nat)) : List (List LinkW × List Node) :=
  (an.zip tn).map fun p => (p.1.1.sheet.links, restOfT p.1.1.sheet.links p.1.2 p.2)

section
variable (F : Umya.Num.NumFmt)

def assembleT (b : BookT F.Num) (hasSst : Bool) (roots : List Node) (cmt : List Part) (sst : List Part) : Package :=
  [xmlPart nApp b.toC.app, xmlPart nCore b.toC.core, xmlPart nRootRels rootRelsNode, xmlPart nTheme b.toC.theme] ++
  sheetParts 1 roots ++ cmt ++ tblPartsOf b.tnums.flatten (b.sheets.map (·.tables)).flatten ++
  relsPartsG 1 (relsInputT (annotate b.toC.sheets) b.tnums) ++ sst ++
  [xmlPart nStyles b.toC.styles,
   xmlPart nWorkbookPart (workbookNode b.toC.wbFrame (b.toC.sheets.map (·.entry)) b.toC.names),
   xmlPart nWorkbookRels (workbookRelsNode b.toC.sheets.length (wbRelsRest b.toC.sheets.length hasSst)),
   xmlPart nContentTypes (contentTypesNodeT b.toC.sheets.length hasSst (vmlNums (annotate b.toC.sheets)) (cmtNums (annotate b.toC.sheets)) b.tnums.flatten)]

/-- `make_buffer` for workbooks whose sheets may carry comments and tables -/
def writePackageT (b : BookT F.Num) : Option Package :=
  match renderSheetsP F [] (b.toC.sheets.map (·.toP)) with
  | none => none
  | some (tbl, roots) =>
    match cmtPartsC (annotate b.toC.sheets) with
    | none => none
    | some cmt => (sstPartsP tbl).map (assembleT F b (!tbl.isEmpty) roots cmt)

end

end Umya.PackageNode
