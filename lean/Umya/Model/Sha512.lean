/-
  SHA-512 (FIPS 180-4) in core Lean, for the native driver.  NOT proved; validated by the
  FIPS 180-4 / NIST example vectors in `selftest` (run by the driver op `c14 selftest`) and by
  agreeing with the Rust `sha2` crate on every check run.

  Written for speed in compiled code: the eight working variables and a rolling window of sixteen
  message-schedule words are `UInt64` arguments of one tail-recursive function (unboxed locals in
  the generated C); no `List` in the inner loop.
-/
namespace Umya.Sha512

def K : Array UInt64 := #[
  0x428a2f98d728ae22, 0x7137449123ef65cd, 0xb5c0fbcfec4d3b2f, 0xe9b5dba58189dbbc,
  0x3956c25bf348b538, 0x59f111f1b605d019, 0x923f82a4af194f9b, 0xab1c5ed5da6d8118,
  0xd807aa98a3030242, 0x12835b0145706fbe, 0x243185be4ee4b28c, 0x550c7dc3d5ffb4e2,
  0x72be5d74f27b896f, 0x80deb1fe3b1696b1, 0x9bdc06a725c71235, 0xc19bf174cf692694,
  0xe49b69c19ef14ad2, 0xefbe4786384f25e3, 0x0fc19dc68b8cd5b5, 0x240ca1cc77ac9c65,
  0x2de92c6f592b0275, 0x4a7484aa6ea6e483, 0x5cb0a9dcbd41fbd4, 0x76f988da831153b5,
  0x983e5152ee66dfab, 0xa831c66d2db43210, 0xb00327c898fb213f, 0xbf597fc7beef0ee4,
  0xc6e00bf33da88fc2, 0xd5a79147930aa725, 0x06ca6351e003826f, 0x142929670a0e6e70,
  0x27b70a8546d22ffc, 0x2e1b21385c26c926, 0x4d2c6dfc5ac42aed, 0x53380d139d95b3df,
  0x650a73548baf63de, 0x766a0abb3c77b2a8, 0x81c2c92e47edaee6, 0x92722c851482353b,
  0xa2bfe8a14cf10364, 0xa81a664bbc423001, 0xc24b8b70d0f89791, 0xc76c51a30654be30,
  0xd192e819d6ef5218, 0xd69906245565a910, 0xf40e35855771202a, 0x106aa07032bbd1b8,
  0x19a4c116b8d2d0c8, 0x1e376c085141ab53, 0x2748774cdf8eeb99, 0x34b0bcb5e19b48a8,
  0x391c0cb3c5c95a63, 0x4ed8aa4ae3418acb, 0x5b9cca4f7763e373, 0x682e6ff3d6b2b8a3,
  0x748f82ee5defb2fc, 0x78a5636f43172f60, 0x84c87814a1f0ab72, 0x8cc702081a6439ec,
  0x90befffa23631e28, 0xa4506cebde82bde9, 0xbef9a3f7b2c67915, 0xc67178f2e372532b,
  0xca273eceea26619c, 0xd186b8c721c0c207, 0xeada7dd6cde0eb1e, 0xf57d4f7fee6ed178,
  0x06f067aa72176fba, 0x0a637dc5a2c898a6, 0x113f9804bef90dae, 0x1b710b35131c471b,
  0x28db77f523047d84, 0x32caab7b40c72493, 0x3c9ebe0a15c9bebc, 0x431d67c49c100d4c,
  0x4cc5d4becb3e42b6, 0x597f299cfc657e2a, 0x5fcb6fab3ad6faec, 0x6c44198c4a475817
]

@[inline] def rotr (x : UInt64) (n : UInt64) : UInt64 := (x >>> n) ||| (x <<< (64 - n))
@[inline] def bsig0 (x : UInt64) : UInt64 := rotr x 28 ^^^ rotr x 34 ^^^ rotr x 39
@[inline] def bsig1 (x : UInt64) : UInt64 := rotr x 14 ^^^ rotr x 18 ^^^ rotr x 41
@[inline] def ssig0 (x : UInt64) : UInt64 := rotr x 1 ^^^ rotr x 8 ^^^ (x >>> 7)
@[inline] def ssig1 (x : UInt64) : UInt64 := rotr x 19 ^^^ rotr x 61 ^^^ (x >>> 6)
@[inline] def ch (x y z : UInt64) : UInt64 := (x &&& y) ^^^ ((~~~ x) &&& z)
@[inline] def maj (x y z : UInt64) : UInt64 := (x &&& y) ^^^ (x &&& z) ^^^ (y &&& z)

structure State where
  a : UInt64
  b : UInt64
  c : UInt64
  d : UInt64
  e : UInt64
  f : UInt64
  g : UInt64
  h : UInt64

def init : State :=
  ⟨0x6a09e667f3bcc908, 0xbb67ae8584caa73b, 0x3c6ef372fe94f82b, 0xa54ff53a5f1d36f1,
   0x510e527fade682d1, 0x9b05688c2b3e6c1f, 0x1f83d9abfb41bd6b, 0x5be0cd19137e2179⟩

/-- rounds `t … 79`; `w0` is `W[t]`, `w1 … w15` are `W[t+1] … W[t+15]` -/
def rounds (fuel : Nat) (t : Nat) (a b c d e f g h : UInt64)
    (w0 w1 w2 w3 w4 w5 w6 w7 w8 w9 w10 w11 w12 w13 w14 w15 : UInt64) : State :=
  match fuel with
  | 0 => ⟨a, b, c, d, e, f, g, h⟩
  | fuel + 1 =>
    let t1 := h + bsig1 e + ch e f g + K[t]! + w0
    let t2 := bsig0 a + maj a b c
    let wn := ssig1 w14 + w9 + ssig0 w1 + w0
    rounds fuel (t + 1) (t1 + t2) a b c (d + t1) e f g w1 w2 w3 w4 w5 w6 w7 w8 w9 w10 w11 w12 w13 w14 w15 wn

@[inline] def getU64 (m : ByteArray) (i : Nat) : UInt64 :=
  ((m.get! i).toUInt64 <<< 56) ||| ((m.get! (i + 1)).toUInt64 <<< 48) |||
  ((m.get! (i + 2)).toUInt64 <<< 40) ||| ((m.get! (i + 3)).toUInt64 <<< 32) |||
  ((m.get! (i + 4)).toUInt64 <<< 24) ||| ((m.get! (i + 5)).toUInt64 <<< 16) |||
  ((m.get! (i + 6)).toUInt64 <<< 8) ||| (m.get! (i + 7)).toUInt64

/-- one compression: the 128-byte block of `m` starting at byte `off` -/
def compress (s : State) (m : ByteArray) (off : Nat) : State :=
  let r := rounds 80 0 s.a s.b s.c s.d s.e s.f s.g s.h
    (getU64 m (off + 0)) (getU64 m (off + 8)) (getU64 m (off + 16)) (getU64 m (off + 24)) (getU64 m (off + 32)) (getU64 m (off + 40)) (getU64 m (off + 48)) (getU64 m (off + 56)) (getU64 m (off + 64)) (getU64 m (off + 72)) (getU64 m (off + 80)) (getU64 m (off + 88)) (getU64 m (off + 96)) (getU64 m (off + 104)) (getU64 m (off + 112)) (getU64 m (off + 120))
  ⟨s.a + r.a, s.b + r.b, s.c + r.c, s.d + r.d, s.e + r.e, s.f + r.f, s.g + r.g, s.h + r.h⟩

def pushU64 (o : ByteArray) (x : UInt64) : ByteArray :=
  (((((((o.push (x >>> 56).toUInt8).push (x >>> 48).toUInt8).push (x >>> 40).toUInt8).push
    (x >>> 32).toUInt8).push (x >>> 24).toUInt8).push (x >>> 16).toUInt8).push
    (x >>> 8).toUInt8).push x.toUInt8

/-- message ‖ 0x80 ‖ zeros ‖ 128-bit big-endian bit length, a multiple of 128 bytes -/
def pad (m : ByteArray) : ByteArray :=
  let n := m.size
  let total := (n + 17 + 127) / 128 * 128
  let zeros := total - n - 17
  let rec addZeros (k : Nat) (o : ByteArray) : ByteArray :=
    match k with
    | 0 => o
    | k + 1 => addZeros k (o.push 0)
  let o := addZeros zeros (m.push 0x80)
  let bits := n * 8
  pushU64 (pushU64 o (UInt64.ofNat (bits / 18446744073709551616))) (UInt64.ofNat bits)

def blocks (m : ByteArray) (nblocks : Nat) (i : Nat) (s : State) : State :=
  match nblocks with
  | 0 => s
  | k + 1 => blocks m k (i + 1) (compress s m (i * 128))

def digest (s : State) : ByteArray :=
  pushU64 (pushU64 (pushU64 (pushU64 (pushU64 (pushU64 (pushU64 (pushU64 (ByteArray.emptyWithCapacity 64)
    s.a) s.b) s.c) s.d) s.e) s.f) s.g) s.h

def hash (m : ByteArray) : ByteArray :=
  let p := pad m
  digest (blocks p (p.size / 128) 0 init)

/-- number of compression-function calls for an `n`-byte message -/
def compressions (n : Nat) : Nat := (n + 17 + 127) / 128

end Umya.Sha512
