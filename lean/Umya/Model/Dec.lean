/-
  Decimal text of naturals, as `List Char`.

  Models Rust's `u32`/`usize` `Display` (`format!("{}", n)`) and `str::parse::<u32>()`
  restricted to ASCII digit strings (the only strings the modelled code ever parses:
  the coordinate regex only hands `[0-9]+` to `parse`).
-/
namespace Umya.Dec

def digitChar : Nat → Char
  | 0 => '0' | 1 => '1' | 2 => '2' | 3 => '3' | 4 => '4'
  | 5 => '5' | 6 => '6' | 7 => '7' | 8 => '8' | _ => '9'

def isDigit (c : Char) : Bool := c.toNat ≥ 48 && c.toNat ≤ 57

def digitVal (c : Char) : Nat := c.toNat - 48

/-- Shortest decimal text of `n` (`0 ↦ "0"`), most significant digit first. -/
def decDigits (n : Nat) : List Char :=
  if n < 10 then [digitChar n] else decDigits (n / 10) ++ [digitChar (n % 10)]
termination_by n
decreasing_by omega

/-- Value of a digit string (no validation; callers check `all isDigit`). -/
def parseDec (cs : List Char) : Nat := cs.foldl (fun a c => 10 * a + digitVal c) 0

/-- `str::parse::<u32>()` on a non-empty ASCII digit string: `none` on overflow. -/
def parseU32 (cs : List Char) : Option Nat :=
  if cs.isEmpty then none
  else if cs.all isDigit then
    let v := parseDec cs
    if v < 4294967296 then some v else none
  else none

theorem digitVal_digitChar (d : Nat) (h : d < 10) : digitVal (digitChar d) = d := by
  have : ∀ d : Fin 10, digitVal (digitChar d.val) = d.val := by decide
  exact this ⟨d, h⟩

theorem isDigit_digitChar (d : Nat) : isDigit (digitChar d) = true := by
  unfold digitChar
  split <;> decide

theorem parseDec_append_single (xs : List Char) (c : Char) :
    parseDec (xs ++ [c]) = 10 * parseDec xs + digitVal c := by
  simp [parseDec, List.foldl_append]

theorem parseDec_decDigits (n : Nat) : parseDec (decDigits n) = n := by
  induction n using Nat.strongRecOn with
  | _ n ih =>
    rw [decDigits]
    split
    · rename_i h; simp [parseDec, digitVal_digitChar n h]
    · rename_i h
      rw [parseDec_append_single, ih (n / 10) (by omega), digitVal_digitChar _ (by omega)]
      omega

theorem decDigits_all_digit (n : Nat) : (decDigits n).all isDigit = true := by
  induction n using Nat.strongRecOn with
  | _ n ih =>
    rw [decDigits]
    split
    · simp [isDigit_digitChar]
    · rename_i h
      simp only [List.all_append, ih (n / 10) (by omega), List.all_cons, isDigit_digitChar,
        List.all_nil, Bool.and_self]

theorem decDigits_ne_nil (n : Nat) : decDigits n ≠ [] := by
  rw [decDigits]; split <;> simp

theorem parseU32_decDigits (n : Nat) (h : n < 4294967296) : parseU32 (decDigits n) = some n := by
  unfold parseU32
  have h1 : (decDigits n).isEmpty = false := by
    cases hd : decDigits n with
    | nil => exact absurd hd (decDigits_ne_nil n)
    | cons _ _ => rfl
  simp [h1, decDigits_all_digit, parseDec_decDigits, h]

end Umya.Dec
