/-
  Model of the style sheet of umya-spreadsheet (src/structs/stylesheet.rs and the component
  tables fonts.rs / fills.rs / borders_crate.rs / numbering_formats.rs, cell_format.rs), of
  `Columns::write_to` / `Columns::set_attributes` (columns.rs) and of the row attributes (row.rs),
  AFTER fix_1 (component tables are searched with `==` instead of by `get_hash_code`).

  Text is `List Char`.  Every scalar attribute of a component is an optional token: `none` = the
  Rust value wrapper has no value, `some t` = it has the value whose `get_value_string()` is `t`
  (booleans `"1"`/`"0"`, enums their XML name, numbers Rust's shortest decimal text).  Equality of
  records of tokens is the derived `PartialEq` of the Rust structs (for finite floats other than -0).
  A Rust panic (`unwrap` on a missing table entry) is `none`.
  Core Lean only.
-/
import Umya.Model.Interning
namespace Umya.Style
open Umya.Interning

abbrev Tok := List Char

/-! ## components -/

structure Color where
  indexed : Option Tok := none
  theme : Option Tok := none
  argb : Option Tok := none
  tint : Option Tok := none
  deriving DecidableEq, Repr

structure Font where
  name : Option Tok := none
  size : Option Tok := none
  family : Option Tok := none
  bold : Option Tok := none
  italic : Option Tok := none
  underline : Option Tok := none
  strike : Option Tok := none
  color : Color := {}
  charset : Option Tok := none
  scheme : Option Tok := none
  vertAlign : Option Tok := none
  deriving DecidableEq, Repr

structure PatternFill where
  patternType : Option Tok := none
  fg : Option Color := none
  bg : Option Color := none
  deriving DecidableEq, Repr

/-- a gradient fill is an opaque token (degree and stops in a canonical text): the style sheet only
    ever compares it for equality -/
structure Fill where
  pattern : Option PatternFill := none
  gradient : Option Tok := none
  deriving DecidableEq, Repr

structure Border where
  style : Option Tok := none
  color : Color := {}
  deriving DecidableEq, Repr

structure Borders where
  left : Border := {}
  right : Border := {}
  top : Border := {}
  bottom : Border := {}
  diagonal : Border := {}
  vertical : Border := {}
  horizontal : Border := {}
  diagDown : Option Tok := none
  diagUp : Option Tok := none
  deriving DecidableEq, Repr

structure Alignment where
  horizontal : Option Tok := none
  vertical : Option Tok := none
  wrap : Option Tok := none
  rotation : Option Tok := none
  deriving DecidableEq, Repr

structure Protection where
  locked : Option Tok := none
  hidden : Option Tok := none
  deriving DecidableEq, Repr

/-- `NumberingFormat { number_format_id, format_code, is_build_in }` -/
structure NumFmt where
  id : Nat
  code : Tok
  builtIn : Bool
  deriving DecidableEq, Repr

/-- `Style`: every component optional; `formatId` is `format_id: UInt32Value` -/
structure Style where
  font : Option Font := none
  fill : Option Fill := none
  borders : Option Borders := none
  alignment : Option Alignment := none
  numFmt : Option NumFmt := none
  formatId : Option Nat := none
  protection : Option Protection := none
  deriving DecidableEq, Repr

/-- `Style::is_empty` (a cell with no value and an empty style is not written) -/
def Style.isEmpty (s : Style) : Bool :=
  s.font.isNone && s.fill.isNone && s.borders.isNone && s.alignment.isNone && s.numFmt.isNone && s.protection.isNone

/-! ## the interning keys of the UNFIXED code (`get_hash_code`): a concatenation of the field texts
    without separators, `"empty!!"` standing for "no value", hashed with md5 (`h`, abstract) -/

def hs (o : Option Tok) : Tok := o.getD "empty!!".toList

def Color.keyText (c : Color) : Tok := hs c.indexed ++ hs c.theme ++ hs c.argb ++ hs c.tint

def Font.keyText (h : Tok → Tok) (f : Font) : Tok :=
  hs f.name ++ hs f.size ++ hs f.family ++ hs f.bold ++ hs f.italic ++ hs f.underline ++ hs f.strike ++
  h f.color.keyText ++ hs f.charset ++ hs f.scheme ++ hs f.vertAlign

/-! ## built-in number formats (`FILL_BUILT_IN_FORMAT_CODES`, numbering_format.rs) -/

def builtinCodes : List (Nat × Tok) :=
  [ (0, "General"), (1, "0"), (2, "0.00"), (3, "#,##0"), (4, "#,##0.00"),
    (9, "0%"), (10, "0.00%"), (11, "0.00E+00"), (12, "# ?/?"), (13, "# ??/??"),
    (14, "m/d/yyyy"), (15, "d-mmm-yy"), (16, "d-mmm"), (17, "mmm-yy"), (18, "h:mm AM/PM"),
    (19, "h:mm:ss AM/PM"), (20, "h:mm"), (21, "h:mm:ss"), (22, "m/d/yyyy h:mm"),
    (27, "[$-404]e/m/d"), (28, "[$-411]ggge\"年\"m\"月\"d\"日\""), (29, "[$-411]ggge\"年\"m\"月\"d\"日\""),
    (30, "m/d/yy"), (31, "yyyy\"年\"m\"月\"d\"日\""), (32, "h\"時\"mm\"分\""), (33, "h\"時\"mm\"分\"ss\"秒\""),
    (34, "yyyy\"年\"m\"月\""), (35, "m\"月\"d\"日\""), (36, "[$-404]e/m/d"),
    (37, "#,##0_);(#,##0)"), (38, "#,##0_);[Red](#,##0)"), (39, "#,##0.00_);(#,##0.00)"),
    (40, "#,##0.00_);[Red](#,##0.00)"),
    (44, "_(\"$\"* #,##0.00_);_(\"$\"* \\(#,##0.00\\);_(\"$\"* \"-\"??_);_(@_)"),
    (45, "mm:ss"), (46, "[h]:mm:ss"), (47, "mm:ss.0"), (48, "##0.0E+0"), (49, "@"),
    (50, "[$-404]e/m/d"), (51, "[$-411]ggge\"年\"m\"月\"d\"日\""), (52, "yyyy\"年\"m\"月\""),
    (53, "m\"月\"d\"日\""), (54, "[$-411]ggge\"年\"m\"月\"d\"日\""), (55, "yyyy\"年\"m\"月\""),
    (56, "m\"月\"d\"日\""), (57, "[$-404]e/m/d"), (58, "[$-411]ggge\"年\"m\"月\"d\"日\""),
    (59, "t0"), (60, "t0.00"), (61, "t#,##0"), (62, "t#,##0.00"), (67, "t0%"), (68, "t0.00%"),
    (69, "t# ?/?"), (70, "t# ??/??") ].map (fun p => (p.1, p.2.toList))

def assoc {β : Type} (t : List (Nat × β)) (id : Nat) : Option β :=
  (t.find? (fun p => p.1 == id)).map (·.2)

def builtin (id : Nat) : Option Tok := assoc builtinCodes id

/-- `NumberingFormat::set_format_code`: a code of the built-in table makes the format built-in
    (the Rust loop takes whichever id the hash map yields first; the model takes the first of the
    list = the smallest, ids with equal codes are interchangeable) -/
def NumFmt.ofCode (code : Tok) : NumFmt :=
  match builtinCodes.find? (fun p => p.2 == code) with
  | some p => { id := p.1, code := code, builtIn := true }
  | none => { id := 999999, code := code, builtIn := false }

/-- `NumberingFormat::set_number_format_id`: panics (`none`) for an id outside the table -/
def NumFmt.ofId (id : Nat) : Option NumFmt :=
  (builtin id).map (fun c => { id := id, code := c, builtIn := true })

/-- a built-in number format carries the code of its id -/
def NumFmt.WF (v : NumFmt) : Prop := v.builtIn = true → builtin v.id = some v.code

def Style.WF (s : Style) : Prop := ∀ v, s.numFmt = some v → v.WF

/-! ## the style sheet -/

/-- `CellFormat` (an `<xf>` of `cellXfs`); the `apply*` flags are `BooleanValue`s: `none` = absent -/
structure Xf where
  numFmtId : Nat := 0
  fontId : Nat := 0
  fillId : Nat := 0
  borderId : Nat := 0
  applyNumFmt : Option Bool := none
  applyFont : Option Bool := none
  applyFill : Option Bool := none
  applyBorder : Option Bool := none
  applyAlignment : Option Bool := none
  applyProtection : Option Bool := none
  alignment : Option Alignment := none
  protection : Option Protection := none
  deriving DecidableEq, Repr

structure Sheet where
  numFmts : List (Nat × NumFmt) := []     -- HashMap<u32, NumberingFormat>, keys distinct
  fonts : List Font := []
  fills : List Fill := []
  borders : List Borders := []
  xfs : List Xf := []                     -- cell_formats
  made : List Style := []                 -- maked_style_list
  deriving DecidableEq, Repr

/-- component look-up of `Fonts::set_style` & co.: `None => 0`, otherwise find-or-append by `==` -/
def internOpt {α : Type} [DecidableEq α] (t : List α) : Option α → List α × Nat
  | none => (t, 0)
  | some v => internEq t v

def maxId (t : List (Nat × NumFmt)) : Nat := t.foldl (fun m p => if m < p.1 then p.1 else m) 175

/-- `NumberingFormats::set_style`; `key` is md5 (the table is searched by the md5 of the format code) -/
def nfSetStyle (key : Tok → Tok) (t : List (Nat × NumFmt)) : Option NumFmt → List (Nat × NumFmt) × Nat
  | none => (t, 0)
  | some v =>
    if v.builtIn then (t, v.id) else
    match t.find? (fun p => key p.2.code == key v.code) with
    | some p => (t, p.1)
    | none => let id := maxId t + 1; (t ++ [(id, { v with id := id })], id)

def flag (b : Bool) : Option Bool := if b then some true else none

/-- `Stylesheet::set_style` -/
def setStyle (key : Tok → Tok) (ss : Sheet) (s : Style) : Sheet × Nat :=
  if s = {} then (ss, 0) else
  match find (fun m => decide (s = m)) ss.made with
  | some i => (ss, i)
  | none =>
    let nf := nfSetStyle key ss.numFmts s.numFmt
    let fo := internOpt ss.fonts s.font
    let fi := internOpt ss.fills s.fill
    let bo := internOpt ss.borders s.borders
    let xf : Xf :=
      { numFmtId := nf.2, fontId := fo.2, fillId := fi.2, borderId := bo.2,
        applyNumFmt := flag s.numFmt.isSome, applyFont := flag s.font.isSome,
        applyFill := flag s.fill.isSome, applyBorder := flag s.borders.isSome,
        applyAlignment := flag s.alignment.isSome, applyProtection := flag s.protection.isSome,
        alignment := s.alignment, protection := s.protection }
    ({ numFmts := nf.1, fonts := fo.1, fills := fi.1, borders := bo.1,
       xfs := ss.xfs ++ [xf], made := ss.made ++ [s] }, ss.made.length)

def defaultFont : Font :=
  { name := some "Calibri".toList, size := some "11".toList, family := some "2".toList,
    color := { theme := some "1".toList }, scheme := some "minor".toList }
def defaultFill : Fill := { pattern := some { patternType := some "none".toList } }
def defaultFill2 : Fill := { pattern := some { patternType := some "gray125".toList } }
/-- `Style::get_default_value` / `get_default_value_2` -/
def defaultStyle : Style := { font := some defaultFont, fill := some defaultFill, borders := some {} }
def defaultStyle2 : Style := { font := some defaultFont, fill := some defaultFill2, borders := some {} }

/-- `Stylesheet::set_defalut_value` on an empty sheet: the style sheet of `new_file()` -/
def initSheet (key : Tok → Tok) : Sheet :=
  (setStyle key (setStyle key {} defaultStyle).1 defaultStyle2).1

/-! ## save / reload of the tables

  The XML codecs of the components are parameters: `rt a` is "write `a`, read it back" (`none` = the
  reader fails), hypothesised to be `some (norm a)` for an idempotent normalisation `norm` (the
  writers drop e.g. `<b val="0"/>`, so a font comes back with `bold` absent instead of false).
  That `norm` does not change the *effective* value of any attribute is NOT a theorem here; it is
  checked by the harness (every attribute varied one at a time). -/

structure Codec (α : Type) where
  rt : α → Option α
  norm : α → α
  rt_eq : ∀ a, rt a = some (norm a)
  idem : ∀ a, norm (norm a) = norm a

structure Codecs where
  font : Codec Font
  fill : Codec Fill
  borders : Codec Borders
  alignment : Codec Alignment
  protection : Codec Protection
  code : Codec Tok

def mapOpt {α β : Type} (f : α → Option β) : List α → Option (List β)
  | [] => some []
  | a :: l => match f a, mapOpt f l with
    | some b, some r => some (b :: r)
    | _, _ => none

def optRt {α : Type} (c : Codec α) : Option α → Option (Option α)
  | none => some none
  | some a => (c.rt a).map some

def Xf.rt (cs : Codecs) (x : Xf) : Option Xf :=
  match optRt cs.alignment x.alignment, optRt cs.protection x.protection with
  | some a, some p => some { x with alignment := a, protection := p }
  | _, _ => none

def Xf.norm (cs : Codecs) (x : Xf) : Xf :=
  { x with alignment := x.alignment.map cs.alignment.norm, protection := x.protection.map cs.protection.norm }

/-- the custom formats written by `NumberingFormats::write_to` and read back by `set_attributes`
    (id = the numFmtId written, `is_build_in = false`), in front of the table of built-ins loaded by
    `get_build_in_formats` (a custom entry overrides a built-in with the same id) -/
def customs (t : List (Nat × NumFmt)) : List (Nat × NumFmt) := t.filter (fun p => !p.2.builtIn)

def builtinEntries : List (Nat × NumFmt) :=
  builtinCodes.map (fun p => (p.1, { id := p.1, code := p.2, builtIn := true }))

def reloadNumFmts (cs : Codecs) (t : List (Nat × NumFmt)) : Option (List (Nat × NumFmt)) :=
  (mapOpt (fun p : Nat × NumFmt => (cs.code.rt p.2.code).map (fun c => (p.1, ({ id := p.1, code := c, builtIn := false } : NumFmt))))
    (customs t)).map (· ++ builtinEntries)

def reloadNumFmtsN (cs : Codecs) (t : List (Nat × NumFmt)) : List (Nat × NumFmt) :=
  (customs t).map (fun p => (p.1, ({ id := p.1, code := cs.code.norm p.2.code, builtIn := false } : NumFmt))) ++ builtinEntries

/-- one component of `get_style_by_cell_format`: taken from its table when the `apply*` flag is absent
    or true (`.unwrap()` on the table entry: `none` = panic), left out when the flag is false -/
def pick {α : Type} (apply : Option Bool) (t : List α) (id : Nat) : Option (Option α) :=
  if apply.getD true then (t[id]?).map some else some none

/-- `Stylesheet::get_style_by_cell_format` with an empty `cellStyleXfs` (the default `CellFormat`) -/
def rebuild (ss : Sheet) (x : Xf) : Option Style :=
  match pick x.applyFont ss.fonts x.fontId, pick x.applyFill ss.fills x.fillId,
        pick x.applyBorder ss.borders x.borderId with
  | some fo, some fi, some bo =>
    some { font := fo, fill := fi, borders := bo,
           alignment := if x.applyAlignment.getD true then x.alignment else none,
           numFmt := if x.applyNumFmt.getD true then assoc ss.numFmts x.numFmtId else none,
           formatId := some 0,
           protection := if x.applyProtection.getD true then x.protection else none }
  | _, _, _ => none

/-- `Stylesheet::make_style` -/
def makeStyle (ss : Sheet) : Option Sheet :=
  (mapOpt (rebuild ss) ss.xfs).map (fun m => { ss with made := m })

/-- write styles.xml, read it back (`set_attributes` + `make_style`) -/
def reload (cs : Codecs) (ss : Sheet) : Option Sheet :=
  match mapOpt cs.font.rt ss.fonts, mapOpt cs.fill.rt ss.fills, mapOpt cs.borders.rt ss.borders,
        mapOpt (Xf.rt cs) ss.xfs, reloadNumFmts cs ss.numFmts with
  | some fo, some fi, some bo, some xs, some nf =>
    makeStyle { numFmts := nf, fonts := fo, fills := fi, borders := bo, xfs := xs, made := [] }
  | _, _, _, _, _ => none

/-- the tables after a reload, given the round-trip hypotheses of the codecs -/
def reloadTables (cs : Codecs) (ss : Sheet) : Sheet :=
  { numFmts := reloadNumFmtsN cs ss.numFmts, fonts := ss.fonts.map cs.font.norm,
    fills := ss.fills.map cs.fill.norm, borders := ss.borders.map cs.borders.norm,
    xfs := ss.xfs.map (Xf.norm cs), made := [] }

/-- `Stylesheet::get_style(id)`: `maked_style_list.get(id).unwrap()` -/
def getStyle (ss : Sheet) (i : Nat) : Option Style := ss.made[i]?

/-- the style that index `i` denotes after save + reload -/
def styleAt (cs : Codecs) (ss : Sheet) (i : Nat) : Option Style :=
  (ss.xfs[i]?).bind (fun x => rebuild (reloadTables cs ss) (Xf.norm cs x))

/-! ## effective formatting -/

structure Eff where
  font : Font
  fill : Fill
  borders : Borders
  alignment : Option Alignment
  code : Tok
  protection : Option Protection
  deriving DecidableEq, Repr

def general : Tok := "General".toList

/-- the effective formatting of a style relative to a style sheet: an absent font / fill / border
    is entry 0 of its table, an absent number format is `General` (that is what a reader
    materialises for an `<xf>` without the `apply*` flag); compared up to the codecs' normalisation -/
def eff (cs : Codecs) (ss : Sheet) (s : Style) : Option Eff :=
  match ss.fonts[0]?, ss.fills[0]?, ss.borders[0]? with
  | some f0, some fi0, some b0 =>
    some { font := cs.font.norm (s.font.getD f0), fill := cs.fill.norm (s.fill.getD fi0),
           borders := cs.borders.norm (s.borders.getD b0),
           alignment := s.alignment.map cs.alignment.norm,
           code := cs.code.norm ((s.numFmt.map (·.code)).getD general),
           protection := s.protection.map cs.protection.norm }
  | _, _, _ => none

/-- the sizes of all tables -/
def sizes (ss : Sheet) : Nat × Nat × Nat × Nat × Nat × Nat :=
  (ss.numFmts.length, ss.fonts.length, ss.fills.length, ss.borders.length, ss.xfs.length, ss.made.length)

/-- `set_style` for a sequence of styles (cells in document order): final sheet and the indices -/
def setAll (key : Tok → Tok) : Sheet → List Style → Sheet × List Nat
  | ss, [] => (ss, [])
  | ss, s :: l =>
    let r := setStyle key ss s
    let r' := setAll key r.1 l
    (r'.1, r.2 :: r'.2)

/-! ## columns (`Columns::write_to`, `Columns::set_attributes`) -/

structure Col (σ : Type) where
  num : Nat
  width : Tok        -- `width.get_value_string()`
  hidden : Bool
  bestFit : Bool
  style : σ
  deriving DecidableEq, Repr

def bit (b : Bool) : Char := if b then '1' else '0'

/-- `Column::get_hash_code` before md5: width ‖ hidden ‖ best_fit (the two flags are one character each) -/
def Col.keyText {σ : Type} (c : Col σ) : Tok := c.width ++ [bit c.hidden] ++ [bit c.bestFit]

/-- insertion into a list sorted by column number (stable) -/
def insertCol {σ : Type} (c : Col σ) : List (Col σ) → List (Col σ)
  | [] => [c]
  | d :: l => if c.num < d.num then c :: d :: l else d :: insertCol c l

/-- `column_copy.sort_by(|a, b| a.get_col_num().cmp(b.get_col_num()))` (stable) -/
def sortCols {σ : Type} (l : List (Col σ)) : List (Col σ) := l.foldr insertCol []

structure ColRun (σ : Type) where
  min : Nat
  max : Nat
  obj : Col σ
  deriving Repr

/-- the merge condition of `write_to`: next column number, equal hash code, equal style -/
def sameRun {σ : Type} [DecidableEq σ] (key : Tok → Tok) (obj c : Col σ) (max : Nat) : Bool :=
  c.num == max + 1 && key c.keyText == key obj.keyText && c.style == obj.style

def mergeGo {σ : Type} [DecidableEq σ] (key : Tok → Tok) (obj : Col σ) (min max : Nat) :
    List (Col σ) → List (ColRun σ)
  | [] => [⟨min, max, obj⟩]
  | c :: cs =>
    if sameRun key obj c max then mergeGo key obj min (max + 1) cs
    else ⟨min, max, obj⟩ :: mergeGo key c c.num c.num cs

/-- the `<col min max …>` elements written for a (sorted) column list -/
def mergeCols {σ : Type} [DecidableEq σ] (key : Tok → Tok) : List (Col σ) → List (ColRun σ)
  | [] => []
  | c :: cs => mergeGo key c c.num c.num cs

/-- the reader: `for i in min..=max { obj.set_col_num(i); push(obj.clone()) }` -/
def expandRun {σ : Type} (r : ColRun σ) : List (Col σ) :=
  (List.range' r.min (r.max + 1 - r.min)).map (fun i => { r.obj with num := i })

def expand {σ : Type} (rs : List (ColRun σ)) : List (Col σ) := rs.flatMap expandRun

/-! ## rows (`Row::write_to`) -/

structure Row where
  num : Nat
  height : Option Tok := none     -- `ht`, written when the height is not 0
  customHeight : Bool := false
  hidden : Bool := false
  style : Style := {}
  deriving Repr

def insertRow (r : Row) : List Row → List Row
  | [] => [r]
  | d :: l => if r.num < d.num then r :: d :: l else d :: insertRow r l
def sortRows (l : List Row) : List Row := l.foldr insertRow []

/-- the `ht` attribute: present iff the height has a value other than 0 -/
def Row.htAttr (r : Row) : Option Tok :=
  match r.height with
  | some h => if h = "0".toList ∨ h = "-0".toList then none else some h
  | none => none

/-! ## a whole save: the order in which `set_style` is called by the worksheet writer -/

structure Cell where
  row : Nat
  col : Nat
  style : Style
  deriving Repr

structure Book where
  cols : List (Col Style) := []
  rows : List Row := []
  cells : List Cell := []       -- at most one per coordinate
  deriving Repr

def insertCell (c : Cell) : List Cell → List Cell
  | [] => [c]
  | d :: l => if c.col < d.col then c :: d :: l else d :: insertCell c l

structure Saved where
  sheet : Sheet
  cols : List (ColRun Style × Nat)
  rows : List (Row × Nat)
  cells : List (Cell × Nat)

def saveCols (key : Tok → Tok) : Sheet → List (ColRun Style) → Sheet × List (ColRun Style × Nat)
  | ss, [] => (ss, [])
  | ss, r :: rs =>
    let a := setStyle key ss r.obj.style
    let b := saveCols key a.1 rs
    (b.1, (r, a.2) :: b.2)

def saveCells (key : Tok → Tok) : Sheet → List Cell → Sheet × List (Cell × Nat)
  | ss, [] => (ss, [])
  | ss, c :: cs =>
    if c.style.isEmpty then saveCells key ss cs else
    let a := setStyle key ss c.style
    let b := saveCells key a.1 cs
    (b.1, (c, a.2) :: b.2)

def saveRows (key : Tok → Tok) (cells : List Cell) : Sheet → List Row → Sheet × List (Row × Nat) × List (Cell × Nat)
  | ss, [] => (ss, [], [])
  | ss, r :: rs =>
    let a := setStyle key ss r.style
    let inRow := (cells.filter (fun c => c.row == r.num)).foldr insertCell []
    let b := saveCells key a.1 inRow
    let c := saveRows key cells b.1 rs
    (c.1, (r, a.2) :: c.2.1, b.2 ++ c.2.2)

/-- `writer::xlsx::worksheet::write` as far as styles are concerned: columns (sorted, merged), then
    row by row: the row's own style, then its cells from left to right -/
def save (key : Tok → Tok) (ss : Sheet) (b : Book) : Saved :=
  let c := saveCols key ss (mergeCols key (sortCols b.cols))
  let r := saveRows key b.cells c.1 (sortRows b.rows)
  { sheet := r.1, cols := c.2, rows := r.2.1, cells := r.2.2 }

/-! ## the pattern-fill codec, concretely (`pattern_fill.rs` / `color.rs`: `write_to`, `set_attributes`)

  The codecs are parameters of the interning theorems; this one component is also modelled concretely
  because it was wrong: before fix 90daeac the reader stored `<fgColor>` through the public
  `set_foreground_color`, whose `auto_set_pattern_type` turns patternType none (or unset) into solid.
  After the fix the reader assigns the field; the public setter is unchanged.  Attribute values are
  tokens (enumeration names, hex colours, decimal texts): they pass the XML layer unchanged. -/

/-- `Color::write_to` writes no element at all when there is no attribute to write -/
def Color.isBlank (c : Color) : Bool := c.theme.isNone && c.indexed.isNone && c.argb.isNone && c.tint.isNone

/-- `Color::write_to` (one of `theme` / `indexed` / `rgb`, in this priority, and `tint`), then
    `Color::set_attributes` -/
def Color.norm (c : Color) : Color :=
  if c.theme.isSome then { theme := c.theme, tint := c.tint }
  else if c.indexed.isSome then { indexed := c.indexed, tint := c.tint }
  else { argb := c.argb, tint := c.tint }

/-- the colour child that comes back: none when nothing was written -/
def Color.rt (c : Color) : Option Color := if c.isBlank then none else some c.norm

/-- what `PatternFill::write_to` puts into the file: the `patternType` attribute when the enum has a
    value, and the `fgColor` / `bgColor` children that have an attribute -/
structure PatternFillXml where
  patternType : Option Tok
  fgColor : Option Color
  bgColor : Option Color
  deriving DecidableEq, Repr

def PatternFill.write (p : PatternFill) : PatternFillXml :=
  { patternType := p.patternType, fgColor := p.fg.bind Color.rt, bgColor := p.bg.bind Color.rt }

/-- `PatternFill::set_attributes` after fix 90daeac: the attribute, then each colour child into its field -/
def PatternFill.read (x : PatternFillXml) : PatternFill :=
  { patternType := x.patternType, fg := x.fgColor, bg := x.bgColor }

/-- `PatternFill::get_pattern_type`: an unset enum shows the default, `none` -/
def PatternFill.effPattern (p : PatternFill) : Tok := p.patternType.getD "none".toList

/-- the public `PatternFill::set_foreground_color` (unchanged by the fix): the colour, then
    `auto_set_pattern_type` — pattern none with a foreground colour becomes solid (the other branch of
    that function needs an absent foreground colour and cannot be taken here) -/
def PatternFill.setForegroundColor (p : PatternFill) (c : Color) : PatternFill :=
  if p.effPattern = "none".toList then { p with fg := some c, patternType := some "solid".toList }
  else { p with fg := some c }

/-- write, then read: the normalisation of the pattern-fill codec -/
def PatternFill.norm (p : PatternFill) : PatternFill := PatternFill.read (PatternFill.write p)

end Umya.Style
