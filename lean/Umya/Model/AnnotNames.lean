/-
  C06 — where a defined name lives: the workbook writer's <definedNames> list and the reader's
  re-homing loop (src/writer/xlsx/workbook.rs, src/reader/xlsx/workbook.rs,
  src/structs/defined_name.rs write_to / set_attributes, Spreadsheet::remove_sheet).
  Core Lean only.

  A name is (name, localSheetId, address text, sheet name of the first area).  The address text and
  its areas are opaque here: their codec is C06_defined_name_roundtrip / _text_kept; `first` is
  `get_address_obj().get(0).map(get_sheet_name)`, a function of the address text that the codec
  theorems preserve.
-/
namespace Umya.AnnotNames

abbrev Text := List Char

structure DN where
  name : Text
  lsid : Option Nat
  addr : Text
  first : Option Text
deriving DecidableEq, Repr

structure Sheet where
  title : Text
  names : List DN
deriving DecidableEq, Repr

structure Book where
  wb : List DN
  sheets : List Sheet
deriving DecidableEq, Repr

def Book.titles (b : Book) : List Text := b.sheets.map (·.title)

/-- the <definedNames> list: workbook-level names, then the names of the sheets in order, each
    with the localSheetId it holds (DefinedName::write_to). -/
def flat (ss : List Sheet) : List DN := (ss.map (·.names)).flatten

def write (b : Book) : List DN := b.wb ++ flat b.sheets

/-- find_sheet_index_by_name: position of the first sheet with that title. -/
def indexOf (t : Text) : List Text → Option Nat
  | [] => none
  | x :: r => if x = t then some 0 else (indexOf t r).map (· + 1)

/-- Worksheet::add_defined_names on sheet k (the caller has checked k is in range). -/
def addAt : Nat → DN → List Sheet → List Sheet
  | _, _, [] => []
  | 0, d, s :: r => { s with names := s.names ++ [d] } :: r
  | j + 1, d, s :: r => s :: addAt j d r

/-- one turn of the reader's loop; `none` = the `.unwrap()` on get_sheet_mut panics
    (localSheetId not below the number of sheets).  `titles` = the sheet names of the file
    (the loop does not change them). -/
def place (titles : List Text) (b : Book) (d : DN) : Option Book :=
  match d.lsid with
  | some k => if k < b.sheets.length then some { b with sheets := addAt k d b.sheets } else none
  | none =>
    match d.first with
    | some t =>
      match indexOf t titles with
      | some k => if k < b.sheets.length then some { b with sheets := addAt k d b.sheets }
                  else some { b with wb := b.wb ++ [d] }
      | none => some { b with wb := b.wb ++ [d] }
    | none => some { b with wb := b.wb ++ [d] }

def emptyBook (titles : List Text) : Book := ⟨[], titles.map (fun t => ⟨t, []⟩)⟩

def readFrom (titles : List Text) : Book → List DN → Option Book
  | b, [] => some b
  | b, d :: r => match place titles b d with
    | some b' => readFrom titles b' r
    | none => none

/-- the reader: sheets with their titles and no names, then the loop over the parsed names. -/
def read (titles : List Text) (ds : List DN) : Option Book := readFrom titles (emptyBook titles) ds

/-- shift_local_sheet_ids_after_remove on one list (fix 39e32f7): names scoped
    to the removed position go, names scoped to a later position move down by one. -/
def fixOne (i : Nat) (d : DN) : DN :=
  match d.lsid with
  | some j => if i < j then { d with lsid := some (j - 1) } else d
  | none => d

def fixIds (i : Nat) (l : List DN) : List DN := (l.filter (fun d => d.lsid ≠ some i)).map (fixOne i)

def fixSheet (i : Nat) (s : Sheet) : Sheet := { s with names := fixIds i s.names }

/-- Spreadsheet::remove_sheet(i) after the fix (Err and nothing changed when i is out of range): the
    sheet goes with its names; every remaining list has its localSheetIds shifted. -/
def removeSheet (i : Nat) (b : Book) : Book :=
  if i < b.sheets.length then ⟨fixIds i b.wb, (b.sheets.eraseIdx i).map (fixSheet i)⟩ else b

/-- remove_sheet before the fix: the sheet goes with its names, no stored localSheetId is touched. -/
def removeSheetUnfixed (i : Nat) (b : Book) : Book := { b with sheets := b.sheets.eraseIdx i }

/-- Spreadsheet::add_sheet / new_sheet append; a sheet put at position i through
    get_sheet_collection_mut().insert (no id is touched). -/
def insertSheet (i : Nat) (s : Sheet) (b : Book) : Book :=
  { b with sheets := b.sheets.take i ++ s :: b.sheets.drop i }

/-! specification side -/

/-- where a written name belongs: its localSheetId, else the first sheet called like the sheet of
    its first area, else (none) the workbook. -/
def byName (titles : List Text) (d : DN) : Option Nat :=
  match d.first with
  | some t => indexOf t titles
  | none => none

def target (titles : List Text) (d : DN) : Option Nat :=
  match d.lsid with
  | some k => some k
  | none => byName titles d

def homes (tg : DN → Option Nat) (ds : List DN) : Nat → List Text → List Sheet
  | _, [] => []
  | k, t :: r => ⟨t, ds.filter (fun d => tg d = some k)⟩ :: homes tg ds (k + 1) r

/-- every list of the reloaded book is the written list filtered by destination (order kept). -/
def rehome (titles : List Text) (ds : List DN) : Book :=
  ⟨ds.filter (fun d => target titles d = none), homes (target titles) ds 0 titles⟩

def StableFrom (tg : DN → Option Nat) : Nat → List Sheet → Prop
  | _, [] => True
  | k, s :: r => (∀ d ∈ s.names, tg d = some k) ∧ StableFrom tg (k + 1) r

/-- every name is stored where the reader would put it: workbook-level names have no
    localSheetId and their first area names no sheet of the book; a name on sheet k has
    localSheetId k, or none and a first area that names sheet k. -/
def Stable (b : Book) : Prop :=
  (∀ d ∈ b.wb, d.lsid = none ∧ byName b.titles d = none) ∧ StableFrom (target b.titles) 0 b.sheets

end Umya.AnnotNames
