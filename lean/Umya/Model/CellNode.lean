/-
  The bridge between the fact-level model of the cell writer (`Umya/Model/CellXml.lean`: `CellX`, `TX`,
  `SiX`, `BookX`) and the independent SpreadsheetML decoder (`Umya/Spec/Sml.lean`), which works on the
  element trees of `Umya/Spec/XmlLex.lean`:

      written facts  ──render──▶  the element tree an XML 1.0 reader hands to the decoder

  A fact carries the RAW (escaped) text content of an element and the UNESCAPED strings given to
  `write_start_tag` as attribute values.  Rendering therefore applies

  * to text content: the reader half only — `Umya.Spec.Xml.textValue raw` (line-end normalisation 2.11,
    references 4.1/4.6), exactly what `lexGo`/`flushText` put into a `Token.text`;
  * to an attribute: both halves — `attrValue (attrEscape s)`: `write_start_tag` escapes with quick-xml
    `escape` + `&#9; &#10; &#13;` (`Umya.XmlEsc.attrEscape`), the reader normalises and expands (3.3.3).

  `none` = the written bytes would not be well-formed character data / attribute values for the XML 1.0
  reader (a bare `&`, an unknown entity, a `<` inside text).  `Lemmas/CellDecode.lean` proves that
  everything the writer model produces renders (`some`).

  Choices, each following the Rust (`structs/cell.rs::write_to`, `cell_formula.rs::write_to`, `text.rs`,
  `text_element.rs`, `rich_text.rs`, `shared_string_item.rs`, `shared_string_table.rs`, `writer/driver.rs`):

  * EMPTY CONTENT.  `<v></v>`, `<t></t>`, `<f></f>` (start tag, `write_text_node("")`, end tag) give an
    element WITHOUT a text child: the lexer emits no text token for empty character data (`flushText`).
    So does `<v/>` (`VNode.emptyTag`, written for an empty value under a formula): an XML reader cannot
    tell `<v/>` from `<v></v>`.  An ABSENT `<v>` (`VNode.absent`, the `<c r= s= />` form) gives no child.
    `<c …/>` and `<c …></c>` are likewise the same tree.
  * `<` IN RAW TEXT is rejected: character data ends at the next `<`, so such a fact is not the content
    of one text node.  Characters outside production [2] `Char` are NOT rejected here; legality of
    characters is the separate clause of C02 that the lexer checks on every written part.
  * ATTRIBUTES of `<c>`: `r` always; `t` only when the fact's `t` is non-empty (the writer pushes it for
    `s`, `b`, `str`, `e` only — `tAttrOf`); `s` only when the cell is styled, with the index the
    stylesheet handed out (parameter `xf`: the style table is not part of this model, C05); in this order.
  * `<f>`: no attributes — `CellX` models plain formula text only (shared / array formula attributes are
    outside the modelled fragment; the decoder's `shared` field is then `none`).
  * `<t>`: `xml:space="preserve"` exactly when the fact says so (`Text::write_to`).
  * `<r>`: an opaque `<rPr/>` child when the run has properties (their content is not part of the value
    and not modelled), then `<t>`.
  * `<si>`: optional `<t>`, the runs, then the constant `<phoneticPr fontId="1"/>`.
  * `<sst>`: the items in table order; root attributes (`xmlns`, `count`, `uniqueCount`) are not rendered
    (the decoder does not read them).  An empty table writes NO shared-string part
    (`writer/xlsx/shared_strings.rs` returns early).
  * `<is>` is never written by this library; it is rendered for completeness of `CellX`.
  * Namespace prefixes: the library writes SpreadsheetML elements unprefixed; the decoder matches local
    names, so the element names here are the unprefixed ones.
-/
import Umya.Model.CellXml
import Umya.Model.XmlEsc
import Umya.Spec.Sml
namespace Umya.CellNode
open Umya.Xml Umya.CellXml Umya.Dec
open Umya.Spec.Xml (Node Attr textValue attrValue)

/-- the children an XML 1.0 reader delivers for the character data `raw` between a start and an end tag -/
def charData (raw : Text) : Option (List Node) :=
  if raw = [] then some []
  else if '<' ∈ raw then none
  else (textValue raw).map fun v => [Node.text v]

/-- an attribute as written by `write_start_tag` and read by an XML 1.0 reader -/
def attrOf (name value : Text) : Option Attr :=
  (attrValue (Umya.XmlEsc.attrEscape value)).map fun v => ⟨name, v⟩

/-- `<name attrs>raw</name>` -/
def textElem (name : Text) (attrs : List Attr) (raw : Text) : Option Node :=
  (charData raw).map (Node.elem name attrs)

/-- `<t [xml:space="preserve"]>raw</t>` -/
def tNode (t : TX) : Option Node :=
  (if t.preserve then (attrOf ['x', 'm', 'l', ':', 's', 'p', 'a', 'c', 'e'] ['p', 'r', 'e', 's', 'e', 'r', 'v', 'e']).map ([·])
   else some []).bind fun as => textElem ['t'] as t.raw

/-- the `<v>` child, if any -/
def vNodes : VNode → Option (List Node)
  | .absent => some []
  | .emptyTag => some [Node.elem ['v'] [] []]
  | .text raw => (textElem ['v'] [] raw).map ([·])

/-- the `<f>` child, if any -/
def fNodes : Option Text → Option (List Node)
  | none => some []
  | some raw => (textElem ['f'] [] raw).map ([·])

/-- the `<is>` child, if any -/
def isNodes : Option TX → Option (List Node)
  | none => some []
  | some tx => (tNode tx).map fun t => [Node.elem ['i', 's'] [] [t]]

/-- the attributes of `<c>`: `r`, then `t` unless empty, then `s` when styled -/
def cellAttrs (xf : Nat) (cx : CellX) : Option (List Attr) :=
  (attrOf ['r'] cx.ref).bind fun r =>
  (if cx.t = [] then some [] else (attrOf ['t'] cx.t).map ([·])).bind fun t =>
  (if cx.styled then (attrOf ['s'] (decDigits xf)).map ([·]) else some []).bind fun s =>
  some (r :: t ++ s)

/-- a written `<c>` as the element tree handed to the decoder; `xf` = the cell's `cellXfs` index -/
def cellNode (xf : Nat) (cx : CellX) : Option Node :=
  (cellAttrs xf cx).bind fun as =>
  (fNodes cx.f).bind fun f =>
  (vNodes cx.v).bind fun v =>
  (isNodes cx.is).bind fun i =>
  some (Node.elem ['c'] as (f ++ v ++ i))

/-- `<r>[<rPr/>]<t>…</t></r>` -/
def runNode (r : RunX) : Option Node :=
  (tNode r.t).map fun t =>
    Node.elem ['r'] [] ((match r.font with | some _ => [Node.elem ['r', 'P', 'r'] [] []] | none => []) ++ [t])

def phoneticPr : Node := Node.elem ['p', 'h', 'o', 'n', 'e', 't', 'i', 'c', 'P', 'r'] [⟨['f', 'o', 'n', 't', 'I', 'd'], ['1']⟩] []

/-- a written `<si>` -/
def siNode (x : SiX) : Option Node :=
  (match x.t with | none => some [] | some tx => (tNode tx).map ([·])).bind fun t =>
  (mapOpt runNode x.runs).bind fun rs =>
  some (Node.elem ['s', 'i'] [] (t ++ rs ++ [phoneticPr]))

/-- the root element of `xl/sharedStrings.xml` -/
def sstNode (sst : List SiX) : Option Node := (mapOpt siNode sst).map (Node.elem ['s', 's', 't'] [])

def sstPath : String := "xl/sharedStrings.xml"

/-- the shared-string part of a written package, if one is written: none for an empty table -/
def sstParts (sst : List SiX) : Option Umya.Spec.Sml.Package :=
  if sst = [] then some []
  else (sstNode sst).map fun root => [{ name := sstPath, xml := some root, isXml := true }]

/-- the `<c>` elements of one sheet, in document order; `xf ref` = the `cellXfs` index of the cell at `ref` -/
def renderCells (xf : Text → Nat) (xs : List CellX) : Option (List Node) :=
  mapOpt (fun cx => cellNode (xf cx.ref) cx) xs

/-- … of all sheets; `xf k` belongs to the sheet at position `k` -/
def renderSheets (xf : Nat → Text → Nat) : Nat → List (List CellX) → Option (List (List Node))
  | _, [] => some []
  | k, xs :: xss =>
    match renderCells (xf k) xs with
    | none => none
    | some ns =>
      match renderSheets xf (k + 1) xss with
      | none => none
      | some nss => some (ns :: nss)

/-! ## what a cell means (the view the decoder must arrive at) -/

section
variable (F : Umya.Num.NumFmt)

/-- The kind an independent reader sees for a written cell, from the value `Cell::write_to` writes
    (`CellXml.resolveRaw`: a lazy value resolved, fix 6) and the presence of a formula:

      text, rich text → "s"    number → "n"    boolean → "b"    error → "e"    blank → ""

    with one documented deviation from that table, a consequence of how `Cell::write_to` writes
    (see `C02_cell_uncached_formula_fails` in `Thm/C02.lean`):
    * a formula WITHOUT cached value is written `t="str"` with `<v/>`: an empty string result, kind "s"
      (the check's view function treats "formula with empty string result" and "formula without result"
      as the same thing).
    `fileView` takes it of the resolved value, so the `.lazy` arm is never consulted by a theorem; it says what
    `get_data_type` says of a lazy value. -/
def fileKind (raw : RawValue F.Num) (formula : Option Text) : String :=
  match raw with
  | .str _ => "s"
  | .rich _ => "s"
  | .num _ => "n"
  | .bool _ => "b"
  | .err _ => "e"
  | .empty => if formula.isSome then "s" else ""
  | .lazy _ => ""

/-- the pure table of the property text -/
def docKind (raw : RawValue F.Num) : String :=
  match raw with
  | .str _ => "s"
  | .rich _ => "s"
  | .num _ => "n"
  | .bool _ => "b"
  | .err _ => "e"
  | _ => ""

/-- what a written cell whose value is not lazy must decode to: reference, kind, value text (`CellRawValue:
    Display`: the text, the concatenated run texts, the number token, TRUE/FALSE, the error code), formula text,
    style index -/
def fileViewCore (xf : Nat) (c : Cell F.Num) : Umya.Spec.Sml.CellV :=
  { ref := Umya.Coord.coordinateFromIndexWithLock c.col c.row false false,
    kind := fileKind F c.raw c.formula,
    value := valueText F c.raw,
    formula := c.formula,
    style := if c.styled then xf else 0 }

/-- what the written cell must decode to: the view of the cell with its value resolved (a lazy value stands for
    the typed value `guess_typed_data` makes of its text, fix 6; every other cell is taken as it is) -/
def fileView (xf : Nat) (c : Cell F.Num) : Umya.Spec.Sml.CellV := fileViewCore F xf (Cell.resolved F c)

/-- the decoder's expected result for the cells of one sheet: the view of each, and no violation -/
def viewCells (xf : Text → Nat) (cs : List (Cell F.Num)) : List (Umya.Spec.Sml.CellV × List String) :=
  cs.map fun c => (fileView F (xf (Umya.Coord.coordinateFromIndexWithLock c.col c.row false false)) c, [])

def viewSheets (xf : Nat → Text → Nat) : Nat → List (List (Cell F.Num)) → List (List (Umya.Spec.Sml.CellV × List String))
  | _, [] => []
  | k, cs :: css => viewCells F (xf k) cs :: viewSheets xf (k + 1) css

/-- the cells for which the decoded kind is the one of the plain table `docKind` (of the resolved value):
    everything except a formula without cached value (a lazy "" under a formula resolves to that) -/
def plainKind (c : Cell F.Num) : Bool :=
  match resolveRaw F c.raw with
  | .empty => c.formula.isNone
  | _ => true

/-- how the check's view compares kinds (`Driver/C02.lean::cellStr`): a formula cell whose cached string
    result is empty is the same as one without a cached result -/
def normKind (formula : Option Text) (kind : String) (value : Text) : String :=
  if formula.isSome ∧ kind = "s" ∧ value.isEmpty then "" else kind

/-- the value text of a shared-string item: its `<t>` then its runs (what `rstText` must return) -/
def itemText (it : Item) : Text :=
  (match it.text with | some s => s | none => []) ++ (match it.rich with | some rs => richText rs | none => [])

end

end Umya.CellNode
