/-
  Grammars of `Umya/Model/CoordCanon.lean` widened (add-only): sheet-qualified areas of ALL four range shapes
  (`canonAreaB'`: also `Sheet1!$A:$B`, `'My Sheet'!$1:$3`), and the address-level grammar with or without a qualifier
  (`canonAddrB`).  Hypotheses of `Umya/Thm/C17ParseMore.lean`.  Core Lean only.
-/
import Umya.Model.CoordCanon
namespace Umya.Annot
open Umya.Coord Umya.Dec

/-- one area `qualifier!range` in canonical spelling, the range of any of the four shapes of `canonRangeB`
    (`cell`, `cell:cell`, `col:col`, `row:row`) -/
def canonAreaB' (t : Text) : Bool :=
  match rsplitBang t with
  | some (q, a) => canonQualB q && canonRangeB a
  | none => false

/-- the address-level grammar: `canonAreaB'` when the text has a `!`, a bare `canonRangeB` text when it has none -/
def canonAddrB (t : Text) : Bool :=
  match rsplitBang t with
  | some (q, a) => canonQualB q && canonRangeB a
  | none => canonRangeB t

/-- `Address::set_address(t.replace("''","'"))` on a default address, then `get_address_ptn2()` -/
def addrReprint (t : Text) : Res Text :=
  match Address.parse (undouble t) with
  | .ok a => .ok a.text
  | .panic => .panic

end Umya.Annot
