/-
  Model of the CSV export, `src/writer/csv.rs::write_writer` (as repaired by
  fix_1_csv_quoting_utf16.patch), of `Cells::get_highest_column_and_row`
  (`src/structs/cells.rs`) and of the active-sheet selection in `src/structs/spreadsheet.rs`
  (`get_active_sheet`, `set_active_sheet`, `new_sheet`, `remove_sheet` as repaired by
  fix_2_active_tab_clamp.patch).

  Text is `List Char` (Unicode scalar values).  A Rust panic is `none`.
  Modelled fragment of the options: `wrap_with_char` is the empty string (`none`) or a single
  character (`some q`); longer wrap strings are modelled in `Umya/Model/CsvWrap.lean`.
  Core Lean only.
-/
namespace Umya.Csv

abbrev Text := List Char

/-! ### the cell store, as far as the CSV writer looks at it -/

/-- `(row, col) ↦ value text`; the first binding of a key is the current one
    (`set` puts the new binding in front). -/
abbrev Grid := List ((Nat × Nat) × Text)

def Grid.set (g : Grid) (row col : Nat) (v : Text) : Grid := ((row, col), v) :: g

/-- `worksheet.get_cell((col,row))` followed by `get_value()`; a missing cell is `String::new()` -/
def Grid.get (g : Grid) (row col : Nat) : Text :=
  match g.lookup (row, col) with
  | some v => v
  | none => []

/-- `row_column_index.last().unwrap_or((0,0)).0` – the largest row that has a cell, 0 if none -/
def highestRow (g : Grid) : Nat := g.foldl (fun m e => max m e.1.1) 0

/-- `column_row_index.last().unwrap_or((0,0)).0` – the largest column that has a cell, 0 if none -/
def highestCol (g : Grid) : Nat := g.foldl (fun m e => max m e.1.2) 0

/-! ### options -/

inductive Enc
  | utf8 | shiftJis | koi8u | koi8r | iso88598i | gbk | eucKr | big5 | utf16le | utf16be
  deriving DecidableEq, Repr

structure Opts where
  enc : Enc
  trim : Bool
  /-- `wrap_with_char`: `none` = empty string, `some q` = the one-character string `q` -/
  wrap : Option Char

/-! ### `str::trim` -/

/-- `char::is_whitespace` (Unicode `White_Space`) -/
def isWhitespace (c : Char) : Bool :=
  let n := c.toNat
  (9 ≤ n && n ≤ 13) || n == 0x20 || n == 0x85 || n == 0xA0 || n == 0x1680 ||
  (0x2000 ≤ n && n ≤ 0x200A) || n == 0x2028 || n == 0x2029 || n == 0x202F || n == 0x205F || n == 0x3000

def trimStart (s : Text) : Text := s.dropWhile isWhitespace

/-- `str::trim` = `trim_matches(char::is_whitespace)` -/
def trim (s : Text) : Text := (trimStart (trimStart s).reverse).reverse

/-! ### one field -/

/-- `value.replace(q, qq)` for a one-character `q` -/
def escape (q : Char) (v : Text) : Text := v.flatMap (fun c => if c = q then [q, q] else [c])

/-- `format!("{}{}{}", q, value.replace(q, qq), q)` -/
def quoted (q : Char) (v : Text) : Text := q :: (escape q v ++ [q])

/-- `value.contains(|c| matches!(c, ',' | '"' | '\r' | '\n'))` -/
def needsQuote (v : Text) : Bool := v.any (fun c => c == ',' || c == '"' || c == '\r' || c == '\n')

/-- the value after the optional trim -/
def fieldValue (o : Opts) (v : Text) : Text := if o.trim then trim v else v

/-- the text pushed into `row_vec` for one cell -/
def renderField (o : Opts) (v : Text) : Text :=
  let v := fieldValue o v
  match o.wrap with
  | some q => quoted q v
  | none => if needsQuote v then quoted '"' v else v

/-- `row_vec.join(sep)` -/
def join (sep : Text) : List Text → Text
  | [] => []
  | [x] => x
  | x :: y :: r => x ++ sep ++ join sep (y :: r)

/-- one line of output for an already fetched row of cell values -/
def renderRow (o : Opts) (row : List Text) : Text := join [','] (row.map (renderField o)) ++ ['\r', '\n']

/-- the string `data` built by the double loop
    `for row in 0..max_row { for column in 0..max_column { … } join(","); "\r\n" }` -/
def csvText (g : Grid) (o : Opts) : Text :=
  (List.range (highestRow g)).flatMap fun row =>
    renderRow o ((List.range (highestCol g)).map fun col => g.get (row + 1) (col + 1))

/-! ### encodings -/

/-- `char::encode_utf16`: one unit in the BMP, a surrogate pair above -/
def utf16Units (c : Char) : List Nat :=
  if c.toNat < 0x10000 then [c.toNat]
  else [0xD800 + (c.toNat - 0x10000) / 0x400, 0xDC00 + (c.toNat - 0x10000) % 0x400]

/-- `u16::to_be_bytes` / `u16::to_le_bytes` -/
def unitBytes (bigEndian : Bool) (u : Nat) : List UInt8 :=
  if bigEndian then [UInt8.ofNat (u / 256), UInt8.ofNat (u % 256)]
  else [UInt8.ofNat (u % 256), UInt8.ofNat (u / 256)]

/-- `data.encode_utf16().flat_map(u16::to_xx_bytes).collect()` -/
def encodeUtf16 (bigEndian : Bool) (s : Text) : List UInt8 :=
  s.flatMap fun c => (utf16Units c).flatMap (unitBytes bigEndian)

/-- `data.into_bytes()` – a Rust `String` is its UTF-8 encoding -/
def encodeUtf8 (s : Text) : List UInt8 := (String.ofList s).toUTF8.data.toList

/-- bytes → 16-bit units; an odd number of bytes is an error -/
def unitsOfBytes (bigEndian : Bool) : List UInt8 → Option (List Nat)
  | [] => some []
  | [_] => none
  | a :: b :: r =>
    match unitsOfBytes bigEndian r with
    | some us => some ((if bigEndian then a.toNat * 256 + b.toNat else b.toNat * 256 + a.toNat) :: us)
    | none => none

/-- 16-bit units → scalar values (the standard UTF-16 decoding; lone surrogates are errors) -/
def charsOfUnits : List Nat → Option Text
  | [] => some []
  | u :: r =>
    if u < 0xD800 ∨ 0xE000 ≤ u then
      match charsOfUnits r with
      | some cs => some (Char.ofNat u :: cs)
      | none => none
    else if u < 0xDC00 then
      match r with
      | v :: r' =>
        if 0xDC00 ≤ v ∧ v < 0xE000 then
          match charsOfUnits r' with
          | some cs => some (Char.ofNat (0x10000 + (u - 0xD800) * 0x400 + (v - 0xDC00)) :: cs)
          | none => none
        else none
      | [] => none
    else none

/-- a strict UTF-16 decoder (what `String::from_utf16` does on the units) -/
def decodeUtf16 (bigEndian : Bool) (b : List UInt8) : Option Text :=
  match unitsOfBytes bigEndian b with
  | some us => charsOfUnits us
  | none => none

def decodeUtf8 (b : List UInt8) : Option Text :=
  match String.fromUTF8? (ByteArray.mk b.toArray) with
  | some s => some s.toList
  | none => none

/-- The byte-level step of `write_writer`.  The seven code pages handled by `encoding_rs`
    are a parameter `legacy`. -/
def encodeWith (legacy : Enc → Text → List UInt8) (e : Enc) (t : Text) : List UInt8 :=
  match e with
  | .utf8 => encodeUtf8 t
  | .utf16le => encodeUtf16 false t
  | .utf16be => encodeUtf16 true t
  | e => legacy e t

/-! ### the workbook: sheet list and active tab -/

structure Book where
  sheets : List Grid
  /-- `workbook_view.active_tab` -/
  active : Nat

/-- `new_file()`: one empty sheet, `set_active_sheet(0)` -/
def Book.new : Book := ⟨[[]], 0⟩

/-- `new_sheet(name)` with a fresh legal name -/
def Book.newSheet (b : Book) : Book := { b with sheets := b.sheets ++ [[]] }

/-- `set_active_sheet(i)` – not range-checked by the crate -/
def Book.setActive (b : Book) (i : Nat) : Book := { b with active := i }

/-- `remove_sheet(i)` (after fix_2: the active tab is clamped to the last remaining sheet);
    `none` is `Err("out of index.")` -/
def Book.removeSheet (b : Book) (i : Nat) : Option Book :=
  if b.sheets.length ≤ i then none
  else
    let s := b.sheets.eraseIdx i
    some ⟨s, if b.active > s.length - 1 then s.length - 1 else b.active⟩

/-- `get_sheet_mut(&s)?.get_cell_mut((col,row)).set_value_string(v)`; `none` = no such sheet -/
def Book.setCell (b : Book) (s row col : Nat) (v : Text) : Option Book :=
  if s < b.sheets.length then some { b with sheets := b.sheets.modify s (fun g => g.set row col v) }
  else none

/-- `get_sheet_mut(&s)?.remove_cell((col,row))`: every binding of the key goes; `none` = no such sheet -/
def Book.delCell (b : Book) (s row col : Nat) : Option Book :=
  if s < b.sheets.length then some { b with sheets := b.sheets.modify s (fun g => g.filter (fun e => e.1 ≠ (row, col))) }
  else none

/-- `get_active_sheet()`: `get_sheet(active_tab).unwrap()` – `none` is the panic -/
def Book.activeSheet (b : Book) : Option Grid := b.sheets[b.active]?

/-- `write_writer(book, writer, option)` into an in-memory writer: the bytes, `none` = panic -/
def writeWriter (legacy : Enc → Text → List UInt8) (b : Book) (o : Opts) : Option (List UInt8) :=
  match b.activeSheet with
  | none => none
  | some g => some (encodeWith legacy o.enc (csvText g o))

end Umya.Csv
