/-
  Model of how the library's reader resolves a cell's `s` attribute, as the code is in the worktree:

    * reader/xlsx/styles.rs `read`: `Stylesheet::set_attributes`, then `make_style`;
    * structs/stylesheet.rs `set_attributes` (one arm per table: `numFmts`, `fonts`, `fills`, `borders`,
      `cellStyleXfs`, `cellXfs`; every such child APPENDS to its table), `make_style`,
      `get_style_by_cell_format`, `get_style`;
    * structs/{numbering_formats, fonts, fills, borders_crate, cell_style_formats, cell_formats}.rs
      `set_attributes`: the item loops;  structs/cell_format.rs `set_attributes` (`<xf>`);
    * structs/cell.rs `Cell::set_attributes`, the `s` arm: `stylesheet.get_style(v.parse::<usize>().unwrap())`.

  The component codecs are NOT modelled again: `Font.read`, `Fill.read`, `Borders.read`, `Alignment.read`,
  `Protection.read`, `NumFmt.read` of `Umya.Model.StyleCodec` (tree level, proved inverse to the writers in
  Thm/C05Codec) are used as they are; the `apply*` rule is `Umya.Style.pick` of `Umya.Model.Style` (the
  interning-side model of `get_style_by_cell_format`, C05) and the built-in number formats are
  `Umya.Style.builtin` (proved equal to the table regenerated from the source, `C05_tables_match_source`).

  What is specific to the reader and modelled here:
    * `CellFormat::set_attributes` reads `numFmtId fontId fillId borderId` and the six `apply*` attributes and
      the LAST `<alignment/>` / `<protection/>` child; it does NOT read `xfId`: `format_id` stays 0, so
      `make_style` takes `cellStyleXfs[0]` (or a default `CellFormat`) as `def_cell_format` for EVERY xf;
    * `get_style_by_cell_format`: a component is applied unless the xf's `apply*` flag — or, when the xf has none,
      the flag of `def_cell_format` — is false; number formats are looked up by id in a map that holds the
      built-ins overridden by the `<numFmt>` elements in document order (the last one with an id wins); an id
      that is neither leaves the style without number format; font / fill / border ids are unwrapped (panic);
      alignment / protection: the xf's own child, nothing when it has none (fix: before, `def_cell_format`'s —
      the alignment of `cellStyleXfs[0]` — was taken for an xf without the child);
    * a cell without `s` keeps `Style::default()`; `get_style(i)` unwraps `maked_style_list.get(i)`.

  Conventions as in `Umya.Model.Reader`: the model reads the element tree of `Umya.Spec.Xml` (start/end-tag and
  empty-element forms are not distinguished: `<fill/>`, `<numFmt></numFmt>`, `<b></b>`, `<alignment></alignment>`
  are below the tree), an attribute value in the tree is what `get_attribute` returns (`C03_attr`), elements are
  matched by their full name (the library compares `e.name()` with the unprefixed literal), a panic is `none`.
  The loops of the library react to events at any depth inside a table / item (`xml_read_loop!` does not track
  depth); the model looks at direct children (nested look-alikes are not schema-valid).
  Core Lean only.
-/
import Umya.Model.Reader
import Umya.Model.StyleCodec
import Umya.Model.Style
namespace Umya.Reader
open Umya.Spec.Xml
open Umya.StyleCodec (Tok Font Fill Borders Alignment Protection NumFmt foldOpt u32Attr boolAttr)

/-- an element child with exactly this (unprefixed) name -/
def named (name : String) (n : Node) : Bool := n.isElem && n.name = name.toList

/-- `CellFormat` as `set_attributes` leaves it (`UInt32Value` without value reads as 0) -/
structure XfR where
  numFmtId : Nat := 0
  fontId : Nat := 0
  fillId : Nat := 0
  borderId : Nat := 0
  applyNumFmt : Option Bool := none
  applyFont : Option Bool := none
  applyFill : Option Bool := none
  applyBorder : Option Bool := none
  applyAlignment : Option Bool := none
  applyProtection : Option Bool := none
  alignment : Option Alignment := none
  protection : Option Protection := none
  deriving DecidableEq, Repr

/-- one child event of `<xf>` -/
def xfStep (x : XfR) (n : Node) : Option XfR :=
  if named "alignment" n then (Alignment.read n).map fun a => { x with alignment := some a }
  else if named "protection" n then (Protection.read n).map fun p => { x with protection := some p }
  else some x

/-- `CellFormat::set_attributes`; `none` = panic (an id that is not a `u32`, `textRotation` likewise) -/
def readXf (n : Node) : Option XfR :=
  match u32Attr n.attrs "numFmtId" none, u32Attr n.attrs "fontId" none, u32Attr n.attrs "fillId" none,
        u32Attr n.attrs "borderId" none with
  | some nf, some fo, some fi, some bo =>
    foldOpt xfStep n.children
      { numFmtId := nf.getD 0, fontId := fo.getD 0, fillId := fi.getD 0, borderId := bo.getD 0,
        applyNumFmt := boolAttr n.attrs "applyNumberFormat" none, applyFont := boolAttr n.attrs "applyFont" none,
        applyFill := boolAttr n.attrs "applyFill" none, applyBorder := boolAttr n.attrs "applyBorder" none,
        applyAlignment := boolAttr n.attrs "applyAlignment" none,
        applyProtection := boolAttr n.attrs "applyProtection" none }
  | _, _, _, _ => none

/-- the items of a table: every `<table>` child of the root appends its `<item>` children -/
def tableOf (root : Node) (table item : String) : List Node :=
  (root.children.filter (named table)).flatMap fun t => t.children.filter (named item)

/-- the `Stylesheet` after `set_attributes` -/
structure StyleTables where
  numFmts : List NumFmt := []        -- the `<numFmt>` elements in document order (inserted after the built-ins)
  fonts : List Font := []
  fills : List Fill := []
  borders : List Borders := []
  styleXfs : List XfR := []
  xfs : List XfR := []
  deriving Repr

def readStyles (cf : Tok → Tok) (root : Node) : Option StyleTables :=
  match (tableOf root "numFmts" "numFmt").mapM NumFmt.read, (tableOf root "fonts" "font").mapM (Font.read cf),
        (tableOf root "fills" "fill").mapM (Fill.read cf), (tableOf root "borders" "border").mapM (Borders.read cf),
        (tableOf root "cellStyleXfs" "xf").mapM readXf, (tableOf root "cellXfs" "xf").mapM readXf with
  | some nf, some fo, some fi, some bo, some sx, some xs =>
    some { numFmts := nf, fonts := fo, fills := fi, borders := bo, styleXfs := sx, xfs := xs }
  | _, _, _, _, _, _ => none

/-- `Style` as `get_style_by_cell_format` fills it -/
structure StyleR where
  font : Option Font := none
  fill : Option Fill := none
  borders : Option Borders := none
  alignment : Option Alignment := none
  numFmt : Option Umya.Style.NumFmt := none
  protection : Option Protection := none
  deriving DecidableEq, Repr

/-- `numbering_formats.get_numbering_format().get(id)`: the last `<numFmt>` with that id, else the built-in -/
def nfLookup (customs : List NumFmt) (id : Nat) : Option Umya.Style.NumFmt :=
  match customs.reverse.find? (fun c => c.id = id) with
  | some c => some { id := id, code := c.code, builtIn := false }
  | none => Umya.Style.NumFmt.ofId id

/-- `apply = true; if def.has { apply = def } if xf.has { apply = xf }` as an optional flag for `pick` -/
def flagOf (d x : Option Bool) : Option Bool :=
  match x with
  | some b => some b
  | none => d

/-- before the fix: `if let Some(v) = def.get_x() { set(v) } if let Some(v) = xf.get_x() { set(v) }`: the xf's own,
    else the default's -/
def orOf {α : Type} (x d : Option α) : Option α :=
  match x with
  | some a => some a
  | none => d

/-- `Stylesheet::get_style_by_cell_format(style, def_cell_format = d, cell_format = x)`; `none` = panic -/
def resolveXf (t : StyleTables) (d x : XfR) : Option StyleR :=
  match Umya.Style.pick (flagOf d.applyFont x.applyFont) t.fonts x.fontId,
        Umya.Style.pick (flagOf d.applyFill x.applyFill) t.fills x.fillId,
        Umya.Style.pick (flagOf d.applyBorder x.applyBorder) t.borders x.borderId with
  | some fo, some fi, some bo =>
    some { font := fo, fill := fi, borders := bo,
           alignment := if (flagOf d.applyAlignment x.applyAlignment).getD true then x.alignment else none,
           numFmt := if (flagOf d.applyNumFmt x.applyNumFmt).getD true then nfLookup t.numFmts x.numFmtId else none,
           protection := if (flagOf d.applyProtection x.applyProtection).getD true then x.protection else none }
  | _, _, _ => none

/-- `get_style_by_cell_format` before the fix: an xf without `<alignment>` / `<protection>` took `def_cell_format`'s -/
def resolveXfOld (t : StyleTables) (d x : XfR) : Option StyleR :=
  (resolveXf t d x).map fun s =>
    { s with
      alignment := if (flagOf d.applyAlignment x.applyAlignment).getD true then orOf x.alignment d.alignment else none,
      protection := if (flagOf d.applyProtection x.applyProtection).getD true then orOf x.protection d.protection else none }

/-- `Stylesheet::make_style`: `format_id` is 0 for every xf (the reader does not read `xfId`) -/
def makeStyles (t : StyleTables) : Option (List StyleR) :=
  t.xfs.mapM (resolveXf t ((t.styleXfs[0]?).getD {}))

/-- reader/xlsx/styles.rs: `maked_style_list` of the loaded workbook -/
def readStyleSheet (cf : Tok → Tok) (root : Node) : Option (List StyleR) := (readStyles cf root).bind makeStyles

/-- the `s` arm of `Cell::set_attributes`: `get_style(v.parse::<usize>().unwrap())` = `maked_style_list.get(id).unwrap()`;
    without `s` the cell keeps `Style::default()` -/
def cellStyle (made : List StyleR) (c : Node) : Option StyleR :=
  match c.attr? "s".toList with
  | some v => (parseUsize v).bind fun i => made[i]?
  | none => some {}

end Umya.Reader
