/-
  C06 — defined names: the sheet of the first area derived from the address TEXT, and histories of
  appended / removed sheets.  Core Lean only.

  The workbook reader (src/reader/xlsx/workbook.rs) looks at `defined_name.get_address_obj().get(0)`
  and takes `get_sheet_name()` of it: the address objects are what `DefinedName::set_address` made
  of the text of the `<definedName>` element (`Umya.Annot.DefName.setAddress`: split_str on ','
  outside quotes, is_address on every piece, add_address = un-double `''`, split on the last '!',
  strip the quotes).  A text that is not a list of cell areas is kept as a string value and has
  no address object.
-/
import Umya.Model.Annot
import Umya.Model.AnnotNames
namespace Umya.AnnotNames
open Umya.Coord

/-- `get_address_obj().get(0).map(get_sheet_name)` of the name `set_address(v)` builds;
    `.panic` = set_address panics. -/
def firstAreaSheet (v : List Char) : Res (Option (List Char)) :=
  match Umya.Annot.DefName.setAddress {} v with
  | .ok d => .ok (d.areas.head?.map (·.sheet))
  | .panic => .panic

/-- a <definedName> element as the reader sees it: attributes and text -/
structure DNT where
  name : Text
  lsid : Option Nat
  addr : Text
deriving DecidableEq, Repr

def DN.forget (d : DN) : DNT := ⟨d.name, d.lsid, d.addr⟩

/-- DefinedName::set_attributes: the first area comes from the text -/
def DNT.parse (t : DNT) : Option DN :=
  match firstAreaSheet t.addr with
  | .ok f => some ⟨t.name, t.lsid, t.addr, f⟩
  | .panic => none

/-- the name's `first` field IS what the reader derives from its address text -/
def Derived (d : DN) : Prop := firstAreaSheet d.addr = .ok d.first

def writeText (b : Book) : List DNT := (write b).map DN.forget

/-- the reader from the elements: parse every element, then the re-homing loop -/
def readText (titles : List Text) (ts : List DNT) : Option Book :=
  match ts.mapM DNT.parse with
  | some ds => read titles ds
  | none => none

/-- Spreadsheet::new_sheet / add_sheet: the sheet goes to the end, nothing else changes -/
def appendSheet (s : Sheet) (b : Book) : Book := { b with sheets := b.sheets ++ [s] }

inductive HistOp where
  | append (s : Sheet)
  | remove (i : Nat)

def applyOp (b : Book) : HistOp → Book
  | .append s => appendSheet s b
  | .remove i => removeSheet i b

/-- what an appended sheet must satisfy: no workbook-level name's first area names its title, and
    its own names are scoped to it (destination = the position it gets) -/
def AppendOK (b : Book) (s : Sheet) : Prop :=
  (∀ d ∈ b.wb, d.first ≠ some s.title) ∧
  (∀ d ∈ s.names, target (b.titles ++ [s.title]) d = some b.sheets.length)

def HistOK : Book → List HistOp → Prop
  | _, [] => True
  | b, .append s :: r => AppendOK b s ∧ HistOK (appendSheet s b) r
  | b, .remove i :: r => HistOK (removeSheet i b) r

end Umya.AnnotNames
