/-
  Model of `src/helper/formula.rs` AS FIXED (fix_1 … fix_9 of the C08/C09 series):
  `parse_to_tokens` pass by pass (`lex1` character machine, `pass2` blank removal / intersection,
  `pass3` prefix/infix and operand subtypes), `render`, `adjustment_formula_coordinate`
  (the (dc,dr) translation used by `Cell::set_coordinate`), and
  `adjustment_insert_formula_coordinate` / `adjustment_remove_formula_coordinate`.

  Text is `List Char` (the Rust indexes the formula with `chars().nth(index)`).
  The character loop of pass 1 is a plain `List.foldl` of `step`; the Rust look-aheads
  (doubled quotes, the blank-skipping inner `while`, two-character comparators) are explicit
  modes.  A Rust panic (`stack.pop().unwrap()` on an empty stack) is the absorbing mode `dead`,
  reported as `.panic` by `lex1`; arithmetic overflow / `assert!` in the adjust functions is
  `.panic` of `Res`.

  Not modelled because it is dead code: the "scientific notation check" — `SCIENTIFIC_REGEX` is
  `/^[1-9]{1}(\\.\\d+)?E{1}$/` *including the slashes* and is matched against a one-character
  string, so it never matches.  (`1E+5` therefore lexes as `1E`, `+`, `5`.)
-/
import Umya.Model.Coord
namespace Umya.Formula
open Umya.Coord Umya.Dec

/-! ## tokens -/

inductive TT where
  | noop | operand | function | subexpression | argument
  | opPrefix | opInfix | opPostfix | whitespace | unknown
  deriving Repr, DecidableEq, Inhabited

inductive ST where
  | nothing | start | stop | text | number | logical | error | range
  | math | concatenation | intersection | union
  deriving Repr, DecidableEq, Inhabited

/-- `ArrayPart`: what a token stands for in an array constant.  `{1,2;3,4}` is tokenized as
    `ARRAY(ARRAYROW(1,2),ARRAYROW(3,4))`; the (crate-private) mark lets `render` write the braces
    and semicolons back (fix f50ad32) -/
inductive Arr where
  | none | array | row
  deriving Repr, DecidableEq, Inhabited

structure Tok where
  val : List Char
  ty : TT
  sub : ST
  arr : Arr
  deriving Repr, DecidableEq, Inhabited

/-- `ERRORS` -/
def errors : List (List Char) :=
  [['#', 'N', 'U', 'L', 'L', '!'],
   ['#', 'D', 'I', 'V', '/', '0', '!'],
   ['#', 'V', 'A', 'L', 'U', 'E', '!'],
   ['#', 'R', 'E', 'F', '!'],
   ['#', 'N', 'A', 'M', 'E', '?'],
   ['#', 'N', 'U', 'M', '!'],
   ['#', 'N', '/', 'A']]

/-- `OPERATORS_INFIX = "+-*/^&=><"` -/
def isInfixChar (c : Char) : Bool :=
  c = '+' || c = '-' || c = '*' || c = '/' || c = '^' || c = '&' || c = '=' || c = '>' || c = '<'

/-- `COMPARATORS_MULTI = [">=", "<=", "<>"]` -/
def isMultiCmp (c d : Char) : Bool :=
  (c = '>' && d = '=') || (c = '<' && d = '=') || (c = '<' && d = '>')

/-! ## pass 1: the character machine -/

inductive Mode where
  | normal
  | skipBlank          -- inside the blank-skipping `while` after a blank
  | cmp (c : Char)     -- `<` or `>` seen, comparator not yet emitted (look-ahead of one)
  | str                -- `in_string`
  | strQ               -- `in_string`, a `"` seen: doubled or closing? (look-ahead of one)
  | path               -- `in_path`
  | pathQ              -- `in_path`, a `'` seen
  | range              -- `in_range`
  | error              -- `in_error`
  | dead               -- `unwrap()` on an empty stack: the Rust has panicked
  deriving Repr, DecidableEq, Inhabited

structure LexSt where
  toks : List Tok := []      -- `tokens1`
  stack : List Tok := []     -- `stack` (head = top)
  value : List Char := []    -- `value`
  mode : Mode := .normal
  deriving Repr, DecidableEq, Inhabited

def LexSt.push (st : LexSt) (t : Tok) : LexSt := { st with toks := st.toks ++ [t] }

/-- `if value != "" { push token(value, ty); value = "" }` -/
def LexSt.flush (st : LexSt) (ty : TT) : LexSt :=
  if st.value = [] then st
  else { st with toks := st.toks ++ [⟨st.value, ty, .nothing, .none⟩], value := [] }

/-- push a Start token on both the token list and the stack -/
def LexSt.open_ (st : LexSt) (t : Tok) : LexSt :=
  { st with toks := st.toks ++ [t], stack := t :: st.stack }

/-- `stack.pop().unwrap()`, value cleared, subtype Stop (the array mark stays), pushed on the token list -/
def LexSt.close (st : LexSt) : LexSt :=
  match st.stack with
  | [] => { st with mode := .dead }
  | t :: rest => { st with toks := st.toks ++ [⟨[], t.ty, .stop, t.arr⟩], stack := rest }

def arrayTok : Tok := ⟨['A', 'R', 'R', 'A', 'Y'], .function, .start, .array⟩
def arrayRowTok : Tok := ⟨['A', 'R', 'R', 'A', 'Y', 'R', 'O', 'W'], .function, .start, .row⟩

/-- one iteration of the main loop with all mode flags false -/
def stepNormal (st : LexSt) (c : Char) : LexSt :=
  if c = '"' then { st.flush .unknown with mode := .str }
  else if c = '\'' then { st.flush .unknown with value := ['\''], mode := .path }
  else if c = '[' then { st with value := st.value ++ ['['], mode := .range }
  else if c = '#' then { st.flush .unknown with value := ['#'], mode := .error }
  else if c = '{' then ((st.flush .unknown).open_ arrayTok).open_ arrayRowTok
  else if c = ';' then
    let s1 := (st.flush .operand).close
    if s1.mode = .dead then s1
    else (s1.push ⟨[','], .argument, .nothing, .row⟩).open_ arrayRowTok
  else if c = '}' then
    let s1 := (st.flush .operand).close
    if s1.mode = .dead then s1 else s1.close
  else if c = ' ' then
    { (st.flush .operand).push ⟨[], .whitespace, .nothing, .none⟩ with mode := .skipBlank }
  else if c = '<' || c = '>' then { st.flush .operand with mode := .cmp c }
  else if isInfixChar c then (st.flush .operand).push ⟨[c], .opInfix, .nothing, .none⟩
  else if c = '%' then (st.flush .operand).push ⟨[c], .opPostfix, .nothing, .none⟩
  else if c = '(' then
    if st.value = [] then st.open_ ⟨[], .subexpression, .start, .none⟩
    else { st with value := [] }.open_ ⟨st.value, .function, .start, .none⟩
  else if c = ',' then
    let s1 := st.flush .operand
    match s1.stack with
    | [] => { s1 with mode := .dead }
    | t :: rest =>
      let s2 := { s1 with stack := ⟨[], t.ty, .stop, t.arr⟩ :: rest }
      if t.ty = .function then s2.push ⟨[','], .opInfix, .union, .none⟩
      else s2.push ⟨[','], .argument, .nothing, .none⟩
  else if c = ')' then (st.flush .operand).close
  else { st with value := st.value ++ [c] }

def step (st : LexSt) (c : Char) : LexSt :=
  match st.mode with
  | .dead => st
  | .normal => stepNormal st c
  | .skipBlank => if c = ' ' then st else stepNormal { st with mode := .normal } c
  | .cmp a =>
    if isMultiCmp a c then { st.push ⟨[a, c], .opInfix, .logical, .none⟩ with mode := .normal }
    else stepNormal { st.push ⟨[a], .opInfix, .nothing, .none⟩ with mode := .normal } c
  | .str => if c = '"' then { st with mode := .strQ } else { st with value := st.value ++ [c] }
  | .strQ =>
    if c = '"' then { st with value := st.value ++ ['"'], mode := .str }
    else stepNormal { st with toks := st.toks ++ [⟨st.value, .operand, .text, .none⟩], value := [], mode := .normal } c
  | .path => if c = '\'' then { st with mode := .pathQ } else { st with value := st.value ++ [c] }
  | .pathQ =>
    if c = '\'' then { st with value := st.value ++ ['\'', '\''], mode := .path }
    else stepNormal { st with value := st.value ++ ['\''], mode := .normal } c
  | .range =>
    { st with value := st.value ++ [c], mode := if c = ']' then .normal else .range }
  | .error =>
    let v := st.value ++ [c]
    if errors.contains v then
      { st with toks := st.toks ++ [⟨v, .operand, .error, .none⟩], value := [], mode := .normal }
    else { st with value := v }

/-- what the look-ahead modes do when the input ends, then "dump remaining accumulation".
    `value` is deliberately *not* cleared by the dump (pass 2 reuses it). -/
def finish (st : LexSt) : LexSt :=
  let s1 : LexSt :=
    match st.mode with
    | .strQ => { st with toks := st.toks ++ [⟨st.value, .operand, .text, .none⟩], value := [] }
    | .pathQ => { st with value := st.value ++ ['\''] }
    | .cmp a => st.push ⟨[a], .opInfix, .nothing, .none⟩
    | _ => st
  if s1.value = [] then s1 else { s1 with toks := s1.toks ++ [⟨s1.value, .operand, .nothing, .none⟩] }

def lexRun (s : List Char) : LexSt := s.foldl step {}

/-- pass 1 on the text after the leading `=`: tokens and the left-over accumulator -/
def lex1 (s : List Char) : Res (List Tok × List Char) :=
  let st := lexRun s
  if st.mode = .dead then .panic else
  let f := finish st
  .ok (f.toks, f.value)

/-! ## pass 2: drop blanks, keep intersections -/

def isOperandLikeEnd (t : Tok) : Bool :=
  (t.ty = .function && t.sub = .stop) || (t.ty = .subexpression && t.sub = .stop) || t.ty = .operand

def isOperandLikeStart (t : Tok) : Bool :=
  (t.ty = .function && t.sub = .start) || (t.ty = .subexpression && t.sub = .start) || t.ty = .operand

/-- `prev` is `tokens1[i-1]`, `lv` the accumulator `value` (consumed by the first intersection) -/
def pass2Go (prev : Option Tok) (lv : List Char) : List Tok → List Tok
  | [] => []
  | t :: rest =>
    if t.ty ≠ .whitespace then t :: pass2Go (some t) lv rest
    else
      match prev, rest with
      | some p, n :: _ =>
        if isOperandLikeEnd p && isOperandLikeStart n then
          ⟨lv, .opInfix, .intersection, .none⟩ :: pass2Go (some t) [] rest
        else pass2Go (some t) lv rest
      | _, _ => pass2Go (some t) lv rest

def pass2 (toks : List Tok) (lv : List Char) : List Tok := pass2Go none lv toks

/-! ## pass 3: prefix / infix, operand subtypes -/

/-- ASCII case-insensitive comparison with an upper-case literal (`to_uppercase() == lit`) -/
def eqUpper (s : List Char) (lit : String) : Bool := s.map upcase = lit.toList

def lowerAscii (c : Char) : Char := if isUpperAZ c then Char.ofNat (c.toNat + 32) else c

/-- `digits*` prefix -/
def spanDigits (s : List Char) : List Char × List Char := (s.takeWhile isDigit, s.dropWhile isDigit)

/-- Rust `str::parse::<f64>().is_ok()` (`core::num::dec2flt`):
    `[+-]? ( inf | infinity | nan | (digits* ('.' digits*)?){≥1 digit} ([eE] [+-]? digits+)? )` -/
def parseF64Ok (s : List Char) : Bool :=
  match s with
  | [] => false
  | c :: r =>
    let t := if c = '-' || c = '+' then r else s
    if t = [] then false else
    let lower := t.map lowerAscii
    if lower = "nan".toList || lower = "inf".toList || lower = "infinity".toList then true else
    let (i, r1) := spanDigits t
    let (f, r2) :=
      match r1 with
      | '.' :: r1' => spanDigits r1'
      | _ => ([], r1)
    if i.length + f.length = 0 then false else
    match r2 with
    | [] => true
    | e :: r3 =>
      if e = 'e' || e = 'E' then
        let r4 := match r3 with
          | sg :: r3' => if sg = '-' || sg = '+' then r3' else r3
          | [] => r3
        let (d, r5) := spanDigits r4
        !d.isEmpty && r5.isEmpty
      else false

def isValueEnd (p : Tok) : Bool :=
  (p.ty = .function && p.sub = .stop) || (p.ty = .subexpression && p.sub = .stop) ||
  p.ty = .opPostfix || p.ty = .operand

/-- one token of pass 3; `prev` is `tokens2[i-1]` -/
def pass3Tok (prev : Option Tok) (t : Tok) : Res Tok :=
  if t.ty = .opInfix && (t.val = ['-'] || t.val = ['+']) then
    match prev with
    | none => .ok { t with ty := .opPrefix }
    | some p => if isValueEnd p then .ok { t with sub := .math } else .ok { t with ty := .opPrefix }
  else if t.ty = .opInfix && t.sub = .nothing then
    match t.val with
    | [] => .panic                      -- `chars().nth(0).unwrap()`
    | c :: _ =>
      if c = '<' || c = '>' || c = '=' then .ok { t with sub := .logical }
      else if t.val = ['&'] then .ok { t with sub := .concatenation }
      else .ok { t with sub := .math }
  else if t.ty = .operand && t.sub = .nothing then
    if !parseF64Ok t.val then
      if eqUpper t.val "TRUE" || eqUpper t.val "FALSE" then .ok { t with sub := .logical }
      else .ok { t with sub := .range }
    else .ok { t with sub := .number }
  else if t.ty = .function then
    match t.val with
    | '@' :: r => .ok { t with val := r }
    | _ => .ok t
  else .ok t

def pass3Go (prev : Option Tok) : List Tok → Res (List Tok)
  | [] => .ok []
  | t :: rest =>
    match pass3Tok prev t with
    | .panic => .panic
    | .ok t' =>
      match pass3Go (some t) rest with
      | .panic => .panic
      | .ok r => .ok (t' :: r)

def pass3 (toks : List Tok) : Res (List Tok) := pass3Go none toks

/-- `parse_to_tokens(formula)` -/
def parse (formula : List Char) : Res (List Tok) :=
  match formula with
  | '=' :: c :: r =>
    match lex1 (c :: r) with
    | .panic => .panic
    | .ok (t1, lv) => pass3 (pass2 t1 lv)
  | _ => .ok []

/-! ## render -/

def dblQuote (s : List Char) : List Char :=
  s.flatMap (fun c => if c = '"' then ['"', '"'] else [c])

def renderTok (t : Tok) : List Char :=
  if t.arr = .array then (if t.sub = .start then ['{'] else ['}'])
  else if t.arr = .row then (if t.ty = .argument then [';'] else [])
  else if t.ty = .function && t.sub = .start then t.val ++ ['(']
  else if t.ty = .function && t.sub = .stop then [')']
  else if t.ty = .subexpression && t.sub = .start then ['(']
  else if t.ty = .subexpression && t.sub = .stop then [')']
  else if t.ty = .operand && t.sub = .text then ['"'] ++ dblQuote t.val ++ ['"']
  else if t.ty = .opInfix && t.sub = .intersection then [' ']
  else t.val

def render (toks : List Tok) : List Char := toks.flatMap renderTok

/-! ## range operands: qualifier and corners -/

/-- `str::replace("''", "'")` -/
def undouble : List Char → List Char
  | '\'' :: '\'' :: r => '\'' :: undouble r
  | c :: r => c :: undouble r
  | [] => []

/-- `split_sheet_qualifier`: (qualifier as written, sheet name, range) -/
def splitSheetQualifier (v : List Char) : List Char × List Char × List Char :=
  let (sheet, range) := splitAddress v
  (v.take (v.length - range.length), undouble sheet, range)

abbrev Part := Nat × Bool
abbrev Corner := Option Part × Option Part

def optZip {α β} : Option α → Option β → Option (α × β)
  | some a, some b => some (a, b)
  | _, _ => none

/-- `render_corner`; `string_from_column_index` asserts `col ≥ 1` -/
def renderCorner (k : Corner) : Res (List Char) :=
  let colTxt : Res (List Char) :=
    match k.1 with
    | some (n, l) =>
      match indexToAlpha? n with
      | some a => .ok ((if l then ['$'] else []) ++ a)
      | none => .panic
    | none => .ok []
  match colTxt with
  | .panic => .panic
  | .ok ct =>
    match k.2 with
    | some (n, l) => .ok (ct ++ (if l then ['$'] else []) ++ decDigits n)
    | none => .ok ct

/-- `parse_corner` -/
def parseCorner (s : List Char) : Option Corner :=
  let (c, r, lc, lr) := indexFromCoordinate s
  let k : Corner := (optZip c lc, optZip r lr)
  if (c.isSome || r.isSome) && renderCorner k = .ok s then some k else none

def joinColon : List (List Char) → List Char
  | [] => []
  | [a] => a
  | a :: rest => a ++ [':'] ++ joinColon rest

def refErrorTok (t : Tok) : Tok := { t with val := ['#', 'R', 'E', 'F', '!'], sub := .error }

def isRangeOperand (t : Tok) : Bool := t.ty = .operand && t.sub = .range

/-! ## `adjustment_formula_coordinate` -/

def maxCol : Nat := 16384
def maxRow : Nat := 1048576

/-- `translate_part`: `none` = leaves the grid -/
def translatePart (p : Part) (d : Int) (max : Nat) : Option Part :=
  if p.2 then some p
  else
    let v : Int := (p.1 : Int) + d
    if v < 1 || v > (max : Int) then none else some (v.toNat, p.2)

/-- one corner text: `.ok none` = reference error -/
def translateCoord (s : List Char) (dc dr : Int) : Res (Option (List Char)) :=
  match parseCorner s with
  | none => .ok (some s)
  | some (col, row) =>
    let col' := col.map (fun p => translatePart p dc maxCol)
    let row' := row.map (fun p => translatePart p dr maxRow)
    if col' = some none || row' = some none then .ok none
    else
      match renderCorner (col'.join, row'.join) with
      | .ok t => .ok (some t)
      | .panic => .panic

/-- the `for coordinate in &coordinate_list` loop with its `break` on error -/
def translateList (dc dr : Int) : List (List Char) → Res (Option (List (List Char)))
  | [] => .ok (some [])
  | s :: rest =>
    match translateCoord s dc dr with
    | .panic => .panic
    | .ok none => .ok none
    | .ok (some t) =>
      match translateList dc dr rest with
      | .panic => .panic
      | .ok none => .ok none
      | .ok (some ts) => .ok (some (t :: ts))

def translateTok (dc dr : Int) (t : Tok) : Res Tok :=
  if isRangeOperand t then
    let (q, _, range) := splitSheetQualifier t.val
    match translateList dc dr (splitColon range) with
    | .panic => .panic
    | .ok none => .ok (refErrorTok t)
    | .ok (some l) => .ok { t with val := q ++ joinColon l }
  else .ok t

def mapRes {α β} (f : α → Res β) : List α → Res (List β)
  | [] => .ok []
  | a :: rest =>
    match f a with
    | .panic => .panic
    | .ok b =>
      match mapRes f rest with
      | .panic => .panic
      | .ok bs => .ok (b :: bs)

def adjustFormulaCoordinate (toks : List Tok) (dc dr : Int) : Res (List Tok) :=
  mapRes (translateTok dc dr) toks

/-- `Cell::set_coordinate` seen from the formula: new formula text for offset `(dc, dr)` -/
def setCoordinate (formula : List Char) (dc dr : Int) : Res (List Char) :=
  if formula = [] then .ok []
  else
    match parse ('=' :: formula) with
    | .panic => .panic
    | .ok toks =>
      match adjustFormulaCoordinate toks dc dr with
      | .panic => .panic
      | .ok toks' => .ok (render toks')

/-! ## insert / remove -/

def u32Max : Nat := 4294967295

/-- `adjustment_insert_coordinate` (u32 addition, overflow-checked) -/
def insertCoordinate (num root offset : Nat) : Res Nat :=
  if num ≥ root && offset ≠ 0 then
    (if num + offset > u32Max then .panic else .ok (num + offset))
  else .ok num

/-- `adjustment_remove_coordinate` (u32 subtraction, underflow-checked) -/
def removeCoordinate (num root offset : Nat) : Res Nat :=
  if num ≥ root && offset ≠ 0 then
    (if offset > num then .panic else .ok (num - offset))
  else .ok num

/-- `is_remove_coordinate`: `num >= root && num < root + offset`; the u32 addition is only
    evaluated when the first conjunct holds -/
def isRemoveCoordinate (num root offset : Nat) : Res Bool :=
  if root ≠ 0 && offset ≠ 0 then
    (if num ≥ root then
      (if root + offset > u32Max then .panic else .ok (decide (num < root + offset)))
     else .ok false)
  else .ok false

/-- the sheet-matching condition of both functions -/
def concerns (ignore : Bool) (sheetName ws selfWs : List Char) : Bool :=
  ignore || (sheetName = [] && ws = selfWs) || sheetName = ws

/-- `insert_part` (the Rust adds two `u32` in `u64`: no overflow): a number at or behind the
    insertion point moves by `offset` whatever its `$` flag; pushed beyond `max` it is cut off at
    `max` when it ends a range and `none` (the cell no longer exists) otherwise -/
def insertPart (p : Part) (root offset max : Nat) (isEnd : Bool) : Option Part :=
  if p.1 < root || offset = 0 then some p
  else if p.1 + offset ≤ max then some (p.1 + offset, p.2)
  else if isEnd then some (max, p.2) else none

/-- one corner text (`isEnd` = `index != 0`): `.ok none` = reference error -/
def insertCoord (rc oc rr orr : Nat) (isEnd : Bool) (s : List Char) : Res (Option (List Char)) :=
  match parseCorner s with
  | none => .ok (some s)
  | some (col, row) =>
    let col' := col.map (fun p => insertPart p rc oc maxCol isEnd)
    let row' := row.map (fun p => insertPart p rr orr maxRow isEnd)
    if col' = some none || row' = some none then .ok none
    else
      match renderCorner (col'.join, row'.join) with
      | .ok t => .ok (some t)
      | .panic => .panic

/-- the `for (index, coordinate) in coordinate_list.iter().enumerate()` loop with its `break` on
    error; `isEnd` says whether the head of the list has `index != 0` -/
def insertList (rc oc rr orr : Nat) (isEnd : Bool) : List (List Char) → Res (Option (List (List Char)))
  | [] => .ok (some [])
  | s :: rest =>
    match insertCoord rc oc rr orr isEnd s with
    | .panic => .panic
    | .ok none => .ok none
    | .ok (some t) =>
      match insertList rc oc rr orr true rest with
      | .panic => .panic
      | .ok none => .ok none
      | .ok (some ts) => .ok (some (t :: ts))

def insertTok (rc oc rr orr : Nat) (ws selfWs : List Char) (ignore : Bool) (t : Tok) : Res Tok :=
  if isRangeOperand t then
    let (q, name, range) := splitSheetQualifier t.val
    if concerns ignore name ws selfWs then
      match insertList rc oc rr orr false (splitColon range) with
      | .panic => .panic
      | .ok none => .ok (refErrorTok t)
      | .ok (some l) => .ok { t with val := q ++ joinColon l }
    else .ok t
  else .ok t

/-- `adjustment_insert_formula_coordinate` (returns the rendered text) -/
def adjustInsert (toks : List Tok) (rc oc rr orr : Nat) (ws selfWs : List Char) (ignore : Bool) :
    Res (List Char) :=
  match mapRes (insertTok rc oc rr orr ws selfWs ignore) toks with
  | .panic => .panic
  | .ok l => .ok (render l)

/-- the assignment loop of `remove_parts`; `i` is the index of the part -/
def removePartsGo (root offset : Nat) (i : Nat) : List Part → List Bool → Res (List Part)
  | p :: ps, f :: fs =>
    let n' : Res Nat :=
      if f then (if i = 0 then .ok root else .ok (root - 1))
      else removeCoordinate p.1 root offset
    match n' with
    | .panic => .panic
    | .ok n =>
      match removePartsGo root offset (i + 1) ps fs with
      | .panic => .panic
      | .ok r => .ok ((n, p.2) :: r)
  | _, _ => .ok []

/-- `remove_parts` on the numbers of one axis (in corner order): `.ok none` = nothing left -/
def removeParts (parts : List Part) (root offset : Nat) : Res (Option (List Part)) :=
  match mapRes (fun (p : Part) => isRemoveCoordinate p.1 root offset) parts with
  | .panic => .panic
  | .ok flags =>
    if !parts.isEmpty && flags.all id then .ok none
    else
      match removePartsGo root offset 0 parts flags with
      | .panic => .panic
      | .ok r => .ok (some r)

/-- write the adjusted numbers of one axis back into the corners that have that axis -/
def putCols : List (Option Corner) → List Part → List (Option Corner)
  | some (some _, r) :: ks, p :: ps => some (some p, r) :: putCols ks ps
  | k :: ks, ps => k :: putCols ks ps
  | [], _ => []

def putRows : List (Option Corner) → List Part → List (Option Corner)
  | some (c, some _) :: ks, p :: ps => some (c, some p) :: putRows ks ps
  | k :: ks, ps => k :: putRows ks ps
  | [], _ => []

def colsOf (ks : List (Option Corner)) : List Part :=
  ks.filterMap (fun k => match k with | some (some p, _) => some p | _ => none)

def rowsOf (ks : List (Option Corner)) : List Part :=
  ks.filterMap (fun k => match k with | some (_, some p) => some p | _ => none)

def renderCorners : List (Option Corner) → List (List Char) → Res (List (List Char))
  | some k :: ks, _ :: ss =>
    match renderCorner k with
    | .panic => .panic
    | .ok t => match renderCorners ks ss with | .panic => .panic | .ok r => .ok (t :: r)
  | none :: ks, s :: ss =>
    match renderCorners ks ss with | .panic => .panic | .ok r => .ok (s :: r)
  | _, _ => .ok []

def removeTok (rc oc rr orr : Nat) (ws selfWs : List Char) (ignore : Bool) (t : Tok) : Res Tok :=
  if isRangeOperand t then
    let (q, name, range) := splitSheetQualifier t.val
    if concerns ignore name ws selfWs then
      let coords := splitColon range
      let ks := coords.map parseCorner
      match removeParts (colsOf ks) rc oc with
      | .panic => .panic
      | .ok none => .ok (refErrorTok t)     -- `&&` short-circuits: rows are not looked at
      | .ok (some cols') =>
        let ks1 := putCols ks cols'
        match removeParts (rowsOf ks1) rr orr with
        | .panic => .panic
        | .ok none => .ok (refErrorTok t)
        | .ok (some rows') =>
          match renderCorners (putRows ks1 rows') coords with
          | .panic => .panic
          | .ok l => .ok { t with val := q ++ joinColon l }
    else .ok t
  else .ok t

/-- `adjustment_remove_formula_coordinate` -/
def adjustRemove (toks : List Tok) (rc oc rr orr : Nat) (ws selfWs : List Char) (ignore : Bool) :
    Res (List Char) :=
  match mapRes (removeTok rc oc rr orr ws selfWs ignore) toks with
  | .panic => .panic
  | .ok l => .ok (render l)

/-! ## `CellFormula` fan-out: re-tokenise `text`, adjust, render -/

inductive Edit where
  | insert | remove
  deriving Repr, DecidableEq

/-- `CellFormula::adjustment_{insert,remove}_coordinate_with_2sheet` on the `text` field -/
def editFormula (e : Edit) (text : List Char) (rc oc rr orr : Nat) (ws selfWs : List Char) :
    Res (List Char) :=
  match parse ('=' :: text) with
  | .panic => .panic
  | .ok toks =>
    match e with
    | .insert => adjustInsert toks rc oc rr orr ws selfWs false
    | .remove => adjustRemove toks rc oc rr orr ws selfWs false

end Umya.Formula
