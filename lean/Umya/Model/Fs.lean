/-
  C13 — file-system model for the path-save protocols of `writer/xlsx.rs`, `writer/csv.rs`
  and `helper/crypt.rs` (as FIXED: explicit flush before the rename, errors propagated,
  temp + rename in `set_password`), and of the protocol as it was (for the refutation).

  * a file system is a finite map path → node (regular file with its bytes, symlink, directory);
  * a fault plan decides: creation fails; each write call (index, current file size = offset,
    requested length) fails or accepts a number of bytes (possibly fewer than requested, possibly
    none); rename fails; remove fails.  "writes fail from byte offset k, with or without a partial
    write" and "write call i fails" are instances (`limitPolicy`, `callPolicy`);
  * `std::io::BufWriter` (capacity 8192) from std's documented behaviour and source:
    `write_all` of less than the spare capacity is buffered; otherwise the buffer is flushed if the
    data does not fit and data of at least the capacity goes straight to the inner writer;
    an explicit `flush` returns the error; `drop` flushes and discards the error; a failed flush
    keeps the unwritten remainder in the buffer;
  * `Write::write_all` loops over partial writes, `Ok(0)` is the `WriteZero` error
    (`ErrorKind::Interrupted` retries are outside the model).

  Every system call appends the new file-system state to a history, so that "what an observer
  may see at any moment" is a statement about all states of the history.

  Core Lean only (the driver links this file).
-/
namespace Umya.Fs

abbrev Path := List Char
abbrev Bytes := List UInt8

inductive Node where
  | file (b : Bytes)
  | symlink (t : Path)
  | dir
  deriving DecidableEq, Repr

/-- finite map as an association list; the first binding of a path counts -/
abbrev Fs := List (Path × Node)

def get : Fs → Path → Option Node
  | [], _ => none
  | (q, n) :: r, p => if q = p then some n else get r p

def set (fs : Fs) (p : Path) (n : Node) : Fs := (p, n) :: fs

def del : Fs → Path → Fs
  | [], _ => []
  | (q, n) :: r, p => if q = p then del r p else (q, n) :: del r p

/-- follow symlinks (at most `fuel` of them, Linux: 40); `none` = ELOOP -/
def resolve (fs : Fs) : Nat → Path → Option Path
  | 0, _ => none
  | k + 1, p =>
    match get fs p with
    | some (.symlink t) => resolve fs k t
    | _ => some p

/-- what a reader opening `p` gets -/
def content (fs : Fs) (p : Path) : Option Bytes :=
  match resolve fs 40 p with
  | some q => (match get fs q with | some (.file b) => some b | _ => none)
  | none => none

/-- result of a library call: `panic` = Rust panic, `diverge` = a loop ran out of fuel
    (shown not to happen) -/
inductive R where
  | ok | err | panic | diverge
  deriving DecidableEq, Repr

/-- outcome of one `write(2)` call -/
inductive WOut where
  | err
  | accept (c : Nat)
  deriving DecidableEq, Repr

structure Fault where
  createFails : Bool
  /-- call index → current size of the file (= offset, the protocols only append) → requested
      length → outcome; an accepted count is clipped to the requested length -/
  write : Nat → Nat → Nat → WOut
  renameFails : Bool
  removeFails : Bool

/-- writes fail from byte offset `k` on (EFBIG under RLIMIT_FSIZE, ENOSPC); with `part` a write
    crossing `k` is shortened to end at `k` (what Linux does), without it the call fails -/
def limitPolicy (k : Nat) (part : Bool) : Nat → Nat → Nat → WOut :=
  fun _ pos len =>
    if pos + len ≤ k then .accept len
    else if part && pos < k then .accept (k - pos)
    else .err

/-- a sink that accepts at most `chunk` bytes per call (0 = everything) and fails every call
    with index ≥ `failAt` (`zero`: returns `Ok(0)`) -/
def callPolicy (chunk : Nat) (failAt : Option Nat) (zero : Bool) : Nat → Nat → Nat → WOut :=
  fun i _ len =>
    match failAt with
    | some f => if f ≤ i then (if zero then .accept 0 else .err)
                else .accept (if chunk = 0 then len else min len chunk)
    | none => .accept (if chunk = 0 then len else min len chunk)

def noFault : Fault := ⟨false, fun _ _ len => .accept len, false, false⟩

/-- machine state: current file system, earlier file systems (latest first), number of
    write calls made so far -/
structure St where
  cur : Fs
  hist : List Fs
  calls : Nat

def St.init (fs : Fs) : St := ⟨fs, [], 0⟩
def St.step (st : St) (fs' : Fs) : St := ⟨fs', st.cur :: st.hist, st.calls⟩
def St.tick (st : St) : St := ⟨st.cur, st.hist, st.calls + 1⟩
/-- every file-system state an observer may have seen -/
def St.states (st : St) : List Fs := st.cur :: st.hist

/-! ### system calls -/

/-- `open(O_WRONLY|O_CREAT|O_TRUNC)`: follows symlinks; returns the path of the file written to -/
def sysCreate (φ : Fault) (p : Path) (st : St) : St × Option Path :=
  if φ.createFails then (st, none)
  else match resolve st.cur 40 p with
    | none => (st, none)
    | some q =>
      match get st.cur q with
      | some .dir => (st, none)
      | some (.symlink _) => (st, none)
      | _ => (st.step (set st.cur q (.file [])), some q)

/-- `write(2)` on the handle for `h`, appending -/
def sysWrite (φ : Fault) (h : Path) (bs : Bytes) (st : St) : St × WOut :=
  match get st.cur h with
  | some (.file c) =>
    match φ.write st.calls c.length bs.length with
    | .err => (st.tick, .err)
    | .accept n =>
      (st.tick.step (set st.cur h (.file (c ++ bs.take (min n bs.length)))), .accept (min n bs.length))
  | _ => (st.tick, .err)

def sysRename (φ : Fault) (src dst : Path) (st : St) : St × R :=
  if φ.renameFails then (st, .err)
  else match get st.cur src with
    | none => (st, .err)
    | some n =>
      match get st.cur dst with
      | some .dir => (st, .err)
      | _ => (st.step (set (del st.cur src) dst n), .ok)

def sysRemove (φ : Fault) (p : Path) (st : St) : St × R :=
  if φ.removeFails then (st, .err)
  else match get st.cur p with
    | none => (st, .err)
    | some .dir => (st, .err)
    | some _ => (st.step (del st.cur p), .ok)

/-! ### `Write::write_all` on an unbuffered handle -/

def writeAll (φ : Fault) (h : Path) : Nat → Bytes → St → St × R
  | _, [], st => (st, .ok)
  | 0, _ :: _, st => (st, .diverge)
  | k + 1, b :: bs, st =>
    match sysWrite φ h (b :: bs) st with
    | (st', .err) => (st', .err)
    | (st', .accept 0) => (st', .err)
    | (st', .accept (m + 1)) => writeAll φ h k ((b :: bs).drop (m + 1)) st'

/-! ### `BufWriter` -/

def cap : Nat := 8192

structure BufW where
  h : Path
  buf : Bytes

/-- `BufWriter::flush_buf`: on failure the unwritten remainder stays in the buffer -/
def flushBuf (φ : Fault) (h : Path) : Nat → Bytes → St → Bytes × St × R
  | _, [], st => ([], st, .ok)
  | 0, b :: bs, st => (b :: bs, st, .diverge)
  | k + 1, b :: bs, st =>
    match sysWrite φ h (b :: bs) st with
    | (st', .err) => (b :: bs, st', .err)
    | (st', .accept 0) => (b :: bs, st', .err)
    | (st', .accept (m + 1)) => flushBuf φ h k ((b :: bs).drop (m + 1)) st'

/-- `BufWriter::flush` (`File::flush` is a no-op) -/
def bufFlush (φ : Fault) (bw : BufW) (st : St) : BufW × St × R :=
  let o := flushBuf φ bw.h bw.buf.length bw.buf st
  (⟨bw.h, o.1⟩, o.2.1, o.2.2)

/-- `BufWriter::write_all` -/
def bufWriteAll (φ : Fault) (bw : BufW) (data : Bytes) (st : St) : BufW × St × R :=
  if data.length < cap - bw.buf.length then (⟨bw.h, bw.buf ++ data⟩, st, .ok)
  else
    let o := if data.length > cap - bw.buf.length then bufFlush φ bw st else (bw, st, .ok)
    match o.2.2 with
    | .ok =>
      if cap ≤ data.length then
        let w := writeAll φ bw.h data.length data o.2.1
        (o.1, w.1, w.2)
      else (⟨bw.h, o.1.buf ++ data⟩, o.2.1, .ok)
    | r => (o.1, o.2.1, r)

/-- `Drop for BufWriter`: flush, discard the result -/
def bufDrop (φ : Fault) (bw : BufW) (st : St) : St := (bufFlush φ bw st).2.1

/-! ### the save protocols -/

/-- `path.with_extension(ext + "tmp")` for a path that has an extension -/
def tmpOf (dest : Path) : Path := dest ++ ['t', 'm', 'p']

/-- the tail shared by all fixed path-save functions: rename the temp file over the destination
    if everything so far succeeded; on any error remove the temp file (result ignored) -/
def finish (φ : Fault) (dest : Path) (st : St) (r : R) : St × R :=
  let rn := match r with                                        -- fs::rename
    | .ok => sysRename φ (tmpOf dest) dest st
    | r => (st, r)
  match rn.2 with
  | .ok => (rn.1, .ok)
  | r => ((sysRemove φ (tmpOf dest) rn.1).1, r)                 -- let _ = fs::remove_file(tmp)

/-- `write_writer(…, &mut writer)`; `writer.flush()` if that succeeded; `drop(writer)` -/
def writeTmp (φ : Fault) (h : Path) (data : Bytes) (st : St) : St × R :=
  let w := bufWriteAll φ ⟨h, []⟩ data st
  let f := match w.2.2 with
    | .ok => bufFlush φ w.1 w.2.1
    | r => (w.1, w.2.1, r)
  (bufDrop φ f.1 f.2.1, f.2.2)

/-- `xlsx::write`, `xlsx::write_light`, `csv::write` as fixed.  `data` is the complete output
    (built in memory before anything is written). -/
def savePath (φ : Fault) (data : Bytes) (dest : Path) (st : St) : St × R :=
  match sysCreate φ (tmpOf dest) st with
  | (st1, none) => (st1, .err)
  | (st1, some h) =>
    let w := writeTmp φ h data st1
    finish φ dest w.1 w.2

/-- the protocol as it was: no explicit flush; the temporary `BufWriter` of the `if let`
    scrutinee is dropped at the end of the statement (after the `remove_file` of the error
    branch, before the rename) -/
def savePathUnflushed (φ : Fault) (data : Bytes) (dest : Path) (st : St) : St × R :=
  match sysCreate φ (tmpOf dest) st with
  | (st1, none) => (st1, .err)
  | (st1, some h) =>
    let w := bufWriteAll φ ⟨h, []⟩ data st1
    match w.2.2 with
    | .ok =>
      let st3 := bufDrop φ w.1 w.2.1
      sysRename φ (tmpOf dest) dest st3
    | r =>
      match sysRemove φ (tmpOf dest) w.2.1 with
      | (st3, _) => (bufDrop φ w.1 st3, r)

/-- a sequence of `write_all` calls on an unbuffered handle (the compound-file writer of
    `helper/crypt.rs` after the fix: every error is returned; its seeks are outside the model) -/
def writeChunks (φ : Fault) (h : Path) : List Bytes → St → St × R
  | [], st => (st, .ok)
  | c :: cs, st =>
    match writeAll φ h c.length c st with
    | (st', .ok) => writeChunks φ h cs st'
    | (st', r) => (st', r)

/-- `write_with_password(_light)` as fixed: `try_encrypt(tmp)`, rename, remove on error -/
def savePw (φ : Fault) (chunks : List Bytes) (dest : Path) (st : St) : St × R :=
  let e := match sysCreate φ (tmpOf dest) st with
    | (st1, none) => (st1, R.err)
    | (st1, some h) => writeChunks φ h chunks st1
  finish φ dest e.1 e.2

/-- `set_password` as fixed: read the source completely, then the same protocol;
    `enc` is the container encoder (outside the model) -/
def setPw (φ : Fault) (enc : Bytes → List Bytes) (src dest : Path) (st : St) : St × R :=
  match content st.cur src with
  | some b => savePw φ (enc b) dest st
  | none => (st, .err)

/-! ### saving to a caller-supplied writer -/

def sinkPath : Path := ['s', 'i', 'n', 'k']

structure SinkOut where
  res : R
  accepted : Option Bytes
  calls : Nat

/-- `xlsx::write_writer`, `write_writer_light`, `csv::write_writer` (as fixed): one `write_all`
    of the complete output; the sink's behaviour is the write policy of `φ` -/
def writeWriter (φ : Fault) (data : Bytes) : SinkOut :=
  let o := writeAll φ sinkPath data.length data (St.init [(sinkPath, .file [])])
  ⟨o.2, (match get o.1.cur sinkPath with | some (.file b) => some b | _ => none), o.1.calls⟩

/-- `csv::write_writer` as it was: `writer.write_all(..).unwrap()` -/
def csvWriteWriterUnwrap (φ : Fault) (data : Bytes) : SinkOut :=
  let o := writeWriter φ data
  match o.res with
  | .err => ⟨.panic, o.accepted, o.calls⟩
  | _ => o

end Umya.Fs
