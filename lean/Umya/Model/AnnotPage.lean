/-
  C06 — page setup, page margins, print options, header / footer:
  `structs/page_setup.rs`, `orientation_values.rs`, `page_margins.rs`, `print_options.rs`,
  `header_footer.rs`, `odd_header.rs`, `odd_footer.rs`.

  What the code does and the model follows:
  * `<pageSetup>` and `<printOptions>` are written only when some field has a value (`has_param`);
    the reader then leaves the default object, which is the same value.
  * the printer settings (`object_data`, a byte blob) travel in another part: the element only carries
    `r:id="rId<k>"` with `k` the running relationship counter of the sheet writer; the reader looks the
    id up in the sheet's relationships (`get_relationship_by_rid(..)` panics when it is missing).  The
    blob is an opaque token here and the relationship table a parameter.
  * `<pageMargins>` is ALWAYS written, all six attributes, `0` for a field without value, and read with
    `get_attribute(..).unwrap()` (a missing attribute panics) + `parse::<f64>().unwrap_or_default()`.
  * `<headerFooter>` is written when the odd header or the odd footer HAS a value (the empty string
    counts); `<oddHeader>` / `<oddFooter>` likewise.  The readers switch `trim_text` off while inside
    (fix cd8e1b4), so the text comes back character for character; an EMPTY text produces no text
    event and the field stays without value (`get_value()` returns `""` either way).
-/
import Umya.Model.AnnotCodec
namespace Umya.AnnotPage
open Umya.Spec.Xml (Node Attr)
open Umya.Dec Umya.AnnotCodec

/-! ## orientation -/

inductive Orientation where
  | default | landscape | portrait
  deriving DecidableEq, Repr

def Orientation.all : List Orientation := [.default, .landscape, .portrait]

def Orientation.toStrS : Orientation → String
  | .default => "default" | .landscape => "landscape" | .portrait => "portrait"

def Orientation.nameS : Orientation → String
  | .default => "Default" | .landscape => "Landscape" | .portrait => "Portrait"

def Orientation.toStr (v : Orientation) : Text := v.toStrS.toList

def Orientation.fromStr (t : Text) : Option Orientation :=
  if t = "default".toList then some .default
  else if t = "landscape".toList then some .landscape
  else if t = "portrait".toList then some .portrait
  else none

/-! ## `<pageSetup>` -/

/-- `Tok` = the printer-settings blob, opaque -/
structure PageSetup (Tok : Type) where
  paperSize : Option Nat := none
  orientation : Option Orientation := none
  scale : Option Nat := none
  fitToHeight : Option Nat := none
  fitToWidth : Option Nat := none
  horizontalDpi : Option Nat := none
  verticalDpi : Option Nat := none
  objectData : Option Tok := none

def PageSetup.hasParam {Tok} (p : PageSetup Tok) : Bool :=
  p.paperSize.isSome || p.orientation.isSome || p.scale.isSome || p.fitToHeight.isSome || p.fitToWidth.isSome ||
  p.horizontalDpi.isSome || p.verticalDpi.isSome || p.objectData.isSome

/-- `format!("rId{}", r_id)` -/
def ridText (k : Nat) : Text := "rId".toList ++ decDigits k

def PageSetup.fields {Tok} (p : PageSetup Tok) (rid : Nat) : List (Text × Option Text) :=
  [("paperSize".toList, p.paperSize.map decDigits), ("scale".toList, p.scale.map decDigits),
   ("orientation".toList, p.orientation.map Orientation.toStr),
   ("fitToHeight".toList, p.fitToHeight.map decDigits), ("fitToWidth".toList, p.fitToWidth.map decDigits),
   ("horizontalDpi".toList, p.horizontalDpi.map decDigits), ("verticalDpi".toList, p.verticalDpi.map decDigits),
   ("r:id".toList, p.objectData.map (fun _ => ridText rid))]

/-- `PageSetup::write_to` with the sheet writer's relationship counter: the element (if any) and the
    counter afterwards -/
def PageSetup.write {Tok} (p : PageSetup Tok) (rid : Nat) : List Node × Nat :=
  if p.hasParam then ([elem "pageSetup" (render (p.fields rid)) []], if p.objectData.isSome then rid + 1 else rid)
  else ([], rid)

/-- the blob behind `r:id`, `none` (outer) = panic for an unknown id -/
def relData {Tok} (rels : Text → Option Tok) : Option Text → Option (Option Tok)
  | some id => (rels id).map some
  | none => some none

/-- `PageSetup::set_attributes` on a default object -/
def PageSetup.readAttrs {Tok} (rels : Text → Option Tok) (as : List Attr) : Option (PageSetup Tok) :=
  (optU32 (getAttr as "paperSize".toList)).bind fun ps =>
  (optU32 (getAttr as "scale".toList)).bind fun sc =>
  (optU32 (getAttr as "fitToHeight".toList)).bind fun fh =>
  (optU32 (getAttr as "fitToWidth".toList)).bind fun fw =>
  (optU32 (getAttr as "horizontalDpi".toList)).bind fun hd =>
  (optU32 (getAttr as "verticalDpi".toList)).bind fun vd =>
  (relData rels (getAttr as "r:id".toList)).map fun od =>
  { paperSize := ps, orientation := enumRead Orientation.fromStr none (getAttr as "orientation".toList),
    scale := sc, fitToHeight := fh, fitToWidth := fw, horizontalDpi := hd, verticalDpi := vd, objectData := od }

/-- the worksheet reader: the object stays the default when there is no `<pageSetup>` -/
def PageSetup.read {Tok} (rels : Text → Option Tok) : List Node → Option (PageSetup Tok)
  | [] => some {}
  | n :: _ => PageSetup.readAttrs rels n.attrs

def PageSetup.WF {Tok} (p : PageSetup Tok) : Prop :=
  (∀ n, p.paperSize = some n → n < 4294967296) ∧ (∀ n, p.scale = some n → n < 4294967296) ∧
  (∀ n, p.fitToHeight = some n → n < 4294967296) ∧ (∀ n, p.fitToWidth = some n → n < 4294967296) ∧
  (∀ n, p.horizontalDpi = some n → n < 4294967296) ∧ (∀ n, p.verticalDpi = some n → n < 4294967296)

/-! ## `<pageMargins>` -/

structure PageMargins (Z : NumZ) where
  left : Option Z.F.Num := none
  right : Option Z.F.Num := none
  top : Option Z.F.Num := none
  bottom : Option Z.F.Num := none
  header : Option Z.F.Num := none
  footer : Option Z.F.Num := none

def PageMargins.fields {Z} (m : PageMargins Z) : List (Text × Option Text) :=
  [("left".toList, some (numStr Z m.left)), ("right".toList, some (numStr Z m.right)),
   ("top".toList, some (numStr Z m.top)), ("bottom".toList, some (numStr Z m.bottom)),
   ("header".toList, some (numStr Z m.header)), ("footer".toList, some (numStr Z m.footer))]

def PageMargins.write {Z} (m : PageMargins Z) : Node := elem "pageMargins" (render m.fields) []

/-- `PageMargins::set_attributes`: each of the six attributes is unwrapped -/
def PageMargins.read {Z} (n : Node) : Option (PageMargins Z) :=
  let as := n.attrs
  (getAttr as "left".toList).bind fun l =>
  (getAttr as "right".toList).bind fun r =>
  (getAttr as "top".toList).bind fun t =>
  (getAttr as "bottom".toList).bind fun b =>
  (getAttr as "header".toList).bind fun h =>
  (getAttr as "footer".toList).map fun f =>
  { left := some (numRead Z l), right := some (numRead Z r), top := some (numRead Z t),
    bottom := some (numRead Z b), header := some (numRead Z h), footer := some (numRead Z f) }

/-- after reload every margin HAS a value: the one it had, or zero -/
def PageMargins.norm {Z} (m : PageMargins Z) : PageMargins Z :=
  { left := some (m.left.getD Z.zero), right := some (m.right.getD Z.zero), top := some (m.top.getD Z.zero),
    bottom := some (m.bottom.getD Z.zero), header := some (m.header.getD Z.zero), footer := some (m.footer.getD Z.zero) }

/-! ## `<printOptions>` -/

structure PrintOptions where
  horizontalCentered : Option Bool := none
  verticalCentered : Option Bool := none
  deriving DecidableEq, Repr

def PrintOptions.fields (p : PrintOptions) : List (Text × Option Text) :=
  [("horizontalCentered".toList, p.horizontalCentered.map boolStr),
   ("verticalCentered".toList, p.verticalCentered.map boolStr)]

def PrintOptions.write (p : PrintOptions) : List Node :=
  if p.horizontalCentered.isSome || p.verticalCentered.isSome then [elem "printOptions" (render p.fields) []] else []

def PrintOptions.read : List Node → PrintOptions
  | [] => {}
  | n :: _ => { horizontalCentered := optBool (getAttr n.attrs "horizontalCentered".toList),
                verticalCentered := optBool (getAttr n.attrs "verticalCentered".toList) }

/-! ## `<headerFooter>` -/

structure HeaderFooter where
  oddHeader : Option Text := none
  oddFooter : Option Text := none
  deriving DecidableEq, Repr

/-- the children an XML reader delivers for character data `t` (nothing for the empty text) -/
def txt (t : Text) : List Node := if t = [] then [] else [Node.text t]

/-- `OddHeader::write_to` / `OddFooter::write_to` -/
def writeOdd (name : String) : Option Text → List Node
  | some t => [elem name [] (txt t)]
  | none => []

/-- `HeaderFooter::write_to` -/
def HeaderFooter.write (h : HeaderFooter) : List Node :=
  if h.oddHeader.isSome || h.oddFooter.isSome then
    [elem "headerFooter" [] (writeOdd "oddHeader" h.oddHeader ++ writeOdd "oddFooter" h.oddFooter)]
  else []

/-- `OddHeader::set_attributes`: every text event sets the value (the last one stays) -/
def readOdd (old : Option Text) (n : Node) : Option Text :=
  n.children.foldl (fun acc k => match k with | .text t => some t | .elem _ _ _ => acc) old

/-- the child loop of `HeaderFooter::set_attributes` -/
def readHfKids : List Node → HeaderFooter → HeaderFooter
  | [], h => h
  | k :: r, h =>
    if k.name = "oddHeader".toList then readHfKids r { h with oddHeader := readOdd h.oddHeader k }
    else if k.name = "oddFooter".toList then readHfKids r { h with oddFooter := readOdd h.oddFooter k }
    else readHfKids r h

def HeaderFooter.read : List Node → HeaderFooter
  | [] => {}
  | n :: _ => readHfKids (elemKids n) {}

/-- an empty text is "no value" after reload; the getters return `""` for both -/
def HeaderFooter.norm (h : HeaderFooter) : HeaderFooter :=
  { oddHeader := match h.oddHeader with | some [] => none | o => o,
    oddFooter := match h.oddFooter with | some [] => none | o => o }

/-- `get_value()` -/
def HeaderFooter.headerText (h : HeaderFooter) : Text := h.oddHeader.getD []
def HeaderFooter.footerText (h : HeaderFooter) : Text := h.oddFooter.getD []

end Umya.AnnotPage
