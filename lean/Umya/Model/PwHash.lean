/-
  C15 — model of the protection-password code of umya-spreadsheet:

    src/helper/crypt.rs      convert_password_to_hash, encrypt_sheet_protection,
                             encrypt_workbook_protection, encrypt_revisions_protection
    src/structs/sheet_protection.rs      the five password-related fields, set_attributes, write_to
    src/structs/workbook_protection.rs   the ten password-related fields, set_attributes, write_to

  Generic over the abstract primitives (`Prims`: SHA-512 and base64 are used).  The random salt
  (`gen_random_16()`) is the parameter `salt`.  The sixteen / three boolean option attributes of the
  two structures (sheet, objects, lockStructure, …) are outside the model.
-/
import Umya.Model.Prims
import Umya.Model.Dec
namespace Umya.PwHash
open Umya.Crypto Umya.Dec

/-- `convert_password_to_hash(password, "SHA-512", salt_value, spin_count)`:
    `key = hash(salt ‖ utf16le(password))`, then `for i in 0..spin { key = hash(key ‖ le32(i)) }`. -/
def convertPasswordToHash (P : Prims) (pw : List Char) (salt : Bytes) (spin : Nat) : Bytes :=
  spinLoop (fun i key => P.sha512 (key ++ le32 i)) spin (P.sha512 (salt ++ utf16le pw))

/-- the five password-related values of one protection kind (`StringValue` / `UInt32Value`:
    `none` = no value) -/
structure PwFields where
  algorithmName : Option (List Char)
  hashValue : Option (List Char)
  saltValue : Option (List Char)
  spinCount : Option Nat
  /-- legacy 16-bit hash attribute (`password`, `workbookPassword`, `revisionsPassword`) -/
  password : Option (List Char)
  deriving DecidableEq, Repr

def PwFields.empty : PwFields := ⟨none, none, none, none, none⟩

def algName : List Char := ['S', 'H', 'A', '-', '5', '1', '2']
def spinCountConst : Nat := 100000

/-- body shared by the three `encrypt_*_protection` functions: four setters + `remove_*_password_raw` -/
def setPasswordFields (P : Prims) (pw : List Char) (salt : Bytes) (_old : PwFields) : PwFields :=
  let key := convertPasswordToHash P pw salt spinCountConst
  { algorithmName := some algName
    hashValue := some (P.b64 key)
    saltValue := some (P.b64 salt)
    spinCount := some (spinCountConst % 4294967296)   -- `key_spin_count as u32`
    password := none }

structure SheetProtection where
  pw : PwFields
  deriving DecidableEq, Repr

structure WorkbookProtection where
  workbook : PwFields
  revisions : PwFields
  deriving DecidableEq, Repr

/-- `SheetProtection::set_password` = `encrypt_sheet_protection` -/
def setSheetPassword (P : Prims) (pw : List Char) (salt : Bytes) (s : SheetProtection) : SheetProtection :=
  { pw := setPasswordFields P pw salt s.pw }

/-- `WorkbookProtection::set_workbook_password` = `encrypt_workbook_protection` -/
def setWorkbookPassword (P : Prims) (pw : List Char) (salt : Bytes) (w : WorkbookProtection) : WorkbookProtection :=
  { w with workbook := setPasswordFields P pw salt w.workbook }

/-- `WorkbookProtection::set_revisions_password` = `encrypt_revisions_protection` -/
def setRevisionsPassword (P : Prims) (pw : List Char) (salt : Bytes) (w : WorkbookProtection) : WorkbookProtection :=
  { w with revisions := setPasswordFields P pw salt w.revisions }

/-! ## Attribute writer (`write_to`) and reader (`set_attributes`) -/

abbrev Attr := List Char × List Char

/-- quick-xml `escape` (applied by `BytesStart::extend_attributes` to every value) -/
def escapeChar (c : Char) : List Char :=
  if c = '<' then "&lt;".toList
  else if c = '>' then "&gt;".toList
  else if c = '&' then "&amp;".toList
  else if c = '\'' then "&apos;".toList
  else if c = '"' then "&quot;".toList
  else [c]

def escape (s : List Char) : List Char := s.flatMap escapeChar

/-- attribute names of one kind, in the order `write_to` pushes them -/
structure Names where
  alg : List Char
  hash : List Char
  salt : List Char
  spin : List Char
  password : List Char

def sheetNames : Names :=
  ⟨"algorithmName".toList, "hashValue".toList, "saltValue".toList, "spinCount".toList, "password".toList⟩
def workbookNames : Names :=
  ⟨"workbookAlgorithmName".toList, "workbookHashValue".toList, "workbookSaltValue".toList,
   "workbookSpinCount".toList, "workbookPassword".toList⟩
def revisionsNames : Names :=
  ⟨"revisionsAlgorithmName".toList, "revisionsHashValue".toList, "revisionsSaltValue".toList,
   "revisionsSpinCount".toList, "revisionsPassword".toList⟩

def optAttr (n : List Char) : Option (List Char) → List Attr
  | some v => [(n, escape v)]
  | none => []

/-- the `if self.x.has_value() { attributes.push(..) }` sequence for one kind; the values are
    those found in the written XML (after quick-xml's escaping) -/
def writeFields (n : Names) (f : PwFields) : List Attr :=
  optAttr n.alg f.algorithmName ++ optAttr n.hash f.hashValue ++ optAttr n.salt f.saltValue ++
  optAttr n.spin (f.spinCount.map decDigits) ++ optAttr n.password f.password

def writeSheet (s : SheetProtection) : List Attr := writeFields sheetNames s.pw
def writeWorkbook (w : WorkbookProtection) : List Attr :=
  writeFields workbookNames w.workbook ++ writeFields revisionsNames w.revisions

/-- `get_attribute(e, key)`: first attribute with that name, raw value (NOT unescaped) -/
def getAttribute (attrs : List Attr) (key : List Char) : Option (List Char) :=
  (attrs.find? (fun a => a.1 == key)).map (·.2)

/-- `set_string_from_xml!` for the five fields of one kind; `none` = panic
    (`UInt32Value::set_value_string` unwraps `parse::<u32>()`) -/
def readFields (n : Names) (attrs : List Attr) : Option PwFields :=
  let spin : Option (Option Nat) :=
    match getAttribute attrs n.spin with
    | none => some none
    | some s => (parseU32 s).map some
  spin.map fun sp =>
    { algorithmName := getAttribute attrs n.alg
      hashValue := getAttribute attrs n.hash
      saltValue := getAttribute attrs n.salt
      spinCount := sp
      password := getAttribute attrs n.password }

def readSheet (attrs : List Attr) : Option SheetProtection :=
  (readFields sheetNames attrs).map fun f => { pw := f }

def readWorkbook (attrs : List Attr) : Option WorkbookProtection :=
  match readFields workbookNames attrs, readFields revisionsNames attrs with
  | some a, some b => some { workbook := a, revisions := b }
  | _, _ => none

end Umya.PwHash
