/-
  quick-xml 0.37.5 `escape`, `partial_escape`, `unescape` (src/escape.rs), on `List Char`,
  and the attribute channel of the library: written with `escape` (`BytesStart::extend_attributes`),
  read back — after the fix in `reader/driver.rs::get_attribute_value` — with `unescape`, falling
  back to the raw text when `unescape` fails.
-/
import Umya.Model.Xml
namespace Umya.XmlEsc

/-- quick-xml `escape`: `< > & ' "` (what the writer did before the carriage-return fix, kept for
    the refutation theorems) -/
def escCharOld (c : Char) : List Char :=
  if c = '<' then "&lt;".toList
  else if c = '>' then "&gt;".toList
  else if c = '&' then "&amp;".toList
  else if c = '\'' then "&apos;".toList
  else if c = '"' then "&quot;".toList
  else [c]

def escapeOld (s : List Char) : List Char := s.flatMap escCharOld

/-- text nodes (`write_text_node`): quick-xml `escape`, then `\r` ↦ `&#13;` -/
def escChar (c : Char) : List Char :=
  if c = '\r' then "&#13;".toList else escCharOld c

def escape (s : List Char) : List Char := s.flatMap escChar

/-- attribute values (`write_start_tag`): quick-xml `escape`, then tab / line feed / carriage return
    as character references -/
def attrEscChar (c : Char) : List Char :=
  if c = '\t' then "&#9;".toList
  else if c = '\n' then "&#10;".toList
  else escChar c

def attrEscape (s : List Char) : List Char := s.flatMap attrEscChar

/-- quick-xml `partial_escape`: `< > &` only -/
def pescCharOld (c : Char) : List Char :=
  if c = '<' then "&lt;".toList
  else if c = '>' then "&gt;".toList
  else if c = '&' then "&amp;".toList
  else [c]

def partialEscapeOld (s : List Char) : List Char := s.flatMap pescCharOld

/-- `write_text_node_conversion`: quick-xml `partial_escape` (`< > &`), then `\r` ↦ `&#13;` -/
def pescChar (c : Char) : List Char :=
  if c = '<' then "&lt;".toList
  else if c = '>' then "&gt;".toList
  else if c = '&' then "&amp;".toList
  else if c = '\r' then "&#13;".toList
  else [c]

def partialEscape (s : List Char) : List Char := s.flatMap pescChar

def hexVal (c : Char) : Option Nat :=
  if '0' ≤ c ∧ c ≤ '9' then some (c.toNat - 48)
  else if 'a' ≤ c ∧ c ≤ 'f' then some (c.toNat - 87)
  else if 'A' ≤ c ∧ c ≤ 'F' then some (c.toNat - 55)
  else none

/-- `u32::from_str_radix` on the digits of a character reference (no sign; overflow = error) -/
def parseRadix (radix : Nat) (ds : List Char) : Option Nat :=
  if ds.isEmpty then none
  else ds.foldl (fun acc c => match acc, hexVal c with
    | some a, some d => if d < radix ∧ a * radix + d < 4294967296 then some (a * radix + d) else none
    | _, _ => none) (some 0)

/-- `parse_number`: `#NNN` / `#xHHH`, rejecting 0 and non-scalar values -/
def parseCharRef (num : List Char) : Option Char :=
  let code := match num with
    | 'x' :: hex => parseRadix 16 hex
    | '+' :: _ => none
    | '-' :: _ => none
    | _ => parseRadix 10 num
  match code with
  | some n => if n = 0 then none else if n.isValidChar then some (Char.ofNat n) else none
  | none => none

/-- the pattern between `&` and `;` -/
def resolve (pat : List Char) : Option (List Char) :=
  match pat with
  | '#' :: num => (parseCharRef num).map (fun c => [c])
  | _ =>
    if pat = "lt".toList then some ['<']
    else if pat = "gt".toList then some ['>']
    else if pat = "amp".toList then some ['&']
    else if pat = "apos".toList then some ['\'']
    else if pat = "quot".toList then some ['"']
    else none

inductive St where
  | out
  | ent (pat : List Char)      -- reversed pattern read so far
  deriving Repr, DecidableEq

/-- `unescape_with`: a `&` must be followed by a `;` before the next `&`; `none` = `Err` -/
def unescGo : St → List Char → Option (List Char)
  | .out, [] => some []
  | .ent _, [] => none
  | .out, c :: r => if c = '&' then unescGo (.ent []) r else (unescGo .out r).map (c :: ·)
  | .ent p, c :: r =>
    if c = ';' then (resolve p.reverse).bind fun v => (unescGo .out r).map (v ++ ·)
    else if c = '&' then none
    else unescGo (.ent (c :: p)) r

def unescape (s : List Char) : Option (List Char) := unescGo .out s

/-- `get_attribute_value`, first half: a literal CR LF becomes one blank, then every literal tab,
    line feed and carriage return becomes a blank (XML 1.0 sections 2.11 and 3.3.3); done on the raw
    value, so `&#9;` `&#10;` `&#13;` are not touched -/
def attrNorm : List Char → List Char
  | [] => []
  | '\r' :: '\n' :: r => ' ' :: attrNorm r
  | c :: r => (if c = '\t' ∨ c = '\n' ∨ c = '\r' then ' ' else c) :: attrNorm r

/-- what `get_attribute` returns for a raw attribute value (after the fixes): white space
    normalised, references resolved, the normalised raw text when `unescape` fails -/
def attrRead (raw : List Char) : List Char := (unescape (attrNorm raw)).getD (attrNorm raw)

/-- what `unescape_text` returns for raw character data (after the fix): a literal CR LF / CR is a
    line feed, then references are resolved; `none` = the `unwrap` panics -/
def textRead (raw : List Char) : Option (List Char) := unescape (Umya.Xml.normEol raw)

/-- what `write_start_tag` puts between the quotes of an attribute -/
def attrWrite (s : List Char) : List Char := attrEscape s

end Umya.XmlEsc
