/-
  quick-xml 0.37.5 as umya-spreadsheet uses it for text content, modelled on `List Char`
  from `quick-xml-0.37.5/src/escape.rs`, `events/mod.rs` (`BytesText::new`), `reader/mod.rs`
  (`InsideText`: `skip_whitespace` when `trim_text_start`), `reader/state.rs` (`emit_text`:
  end trimming when `trim_text_end`) and `utils.rs` (`is_whitespace`).

  * `escape`          = `quick_xml::escape::escape` (`< > & ' "`), used by `BytesText::new`, i.e. by
                        `writer/driver.rs::write_text_node`
  * `partialEscape`   = `quick_xml::escape::partial_escape` (`< > &`), used by
                        `write_text_node_conversion`
  * `unescape`        = `quick_xml::escape::unescape` (predefined entities + character references);
                        `none` = `Err(EscapeError)`, which every caller in umya turns into a panic
                        (`e.unescape().unwrap()`)
  * `textEvent`       = the `Event::Text` (if any) the reader produces for the raw bytes between
                        `>` and the next `<`, under `trim_text(trim)`
  * `readText`        = what the umya loops `Event::Text(e) => s = unescape_text(&e)` leave in
                        `s` (initially empty) for an element with that raw content

  The escapable bytes are ASCII, so working on scalar values instead of UTF-8 bytes changes nothing.
  Tag syntax (`<`, names, attributes, `>`) is not modelled at character level: the model works on
  lexed facts (element, attributes, raw text content), see `Model/CellXml.lean`.
-/
namespace Umya.Xml

abbrev Text := List Char

/-! ## escaping -/

/-- one character through `write_text_node`: quick-xml `escape`, then `\r` ↦ `&#13;`
    (writer/driver.rs after the carriage-return fix) -/
def escChar (c : Char) : Text :=
  if c = '\r' then ['&', '#', '1', '3', ';']
  else if c = '<' then ['&', 'l', 't', ';']
  else if c = '>' then ['&', 'g', 't', ';']
  else if c = '&' then ['&', 'a', 'm', 'p', ';']
  else if c = '\'' then ['&', 'a', 'p', 'o', 's', ';']
  else if c = '"' then ['&', 'q', 'u', 'o', 't', ';']
  else [c]

/-- `quick_xml::escape::escape` followed by the carriage-return replacement -/
def escape (s : Text) : Text := s.flatMap escChar

/-- one character through `write_text_node_conversion`: `partial_escape`, then `\r` ↦ `&#13;` -/
def pescChar (c : Char) : Text :=
  if c = '\r' then ['&', '#', '1', '3', ';']
  else if c = '<' then ['&', 'l', 't', ';']
  else if c = '>' then ['&', 'g', 't', ';']
  else if c = '&' then ['&', 'a', 'm', 'p', ';']
  else [c]

/-- `quick_xml::escape::partial_escape` followed by the carriage-return replacement -/
def partialEscape (s : Text) : Text := s.flatMap pescChar

/-! ## unescaping -/

def radixDigit? (radix : Nat) (c : Char) : Option Nat :=
  let n := c.toNat
  let v : Option Nat :=
    if 48 ≤ n ∧ n ≤ 57 then some (n - 48)
    else if 97 ≤ n ∧ n ≤ 102 then some (n - 87)
    else if 65 ≤ n ∧ n ≤ 70 then some (n - 55)
    else none
  match v with
  | some d => if d < radix then some d else none
  | none => none

/-- `from_str_radix` of escape.rs: no sign, at least one digit, every digit below the radix,
    `u32` overflow is an error -/
def parseRadix (radix : Nat) (cs : Text) : Option Nat :=
  if cs = [] then none
  else cs.foldl (fun acc c =>
    match acc, radixDigit? radix c with
    | some a, some d => if a * radix + d < 4294967296 then some (a * radix + d) else none
    | _, _ => none) (some 0)

/-- `parse_number`: `&#<dec>;` / `&#x<hex>;`; 0 and non-scalar values are errors -/
def parseCharRef (num : Text) : Option Char :=
  let code := match num with
    | 'x' :: hex => parseRadix 16 hex
    | _ => parseRadix 10 num
  match code with
  | none => none
  | some n => if n = 0 then none else if Nat.isValidChar n then some (Char.ofNat n) else none

/-- the text between `&` and `;` → replacement (`resolve_xml_entity`; feature `escape-html` is off) -/
def resolveEntity (p : Text) : Option Text :=
  match p with
  | '#' :: num => (parseCharRef num).map (fun c => [c])
  | _ =>
    if p = ['l', 't'] then some ['<']
    else if p = ['g', 't'] then some ['>']
    else if p = ['a', 'm', 'p'] then some ['&']
    else if p = ['a', 'p', 'o', 's'] then some ['\'']
    else if p = ['q', 'u', 'o', 't'] then some ['"']
    else none

/-- `unescape_with`: scan for `&`; the next `&`/`;` after it must be a `;` (else
    `UnterminatedEntity`); stray `;` outside an entity are ordinary characters.
    First argument: the entity text collected so far (`none` = outside an entity). -/
def unescGo : Option Text → Text → Option Text
  | none, [] => some []
  | some _, [] => none
  | none, c :: cs => if c = '&' then unescGo (some []) cs else (unescGo none cs).map (c :: ·)
  | some p, c :: cs =>
    if c = ';' then
      match resolveEntity p with
      | some v => (unescGo none cs).map (v ++ ·)
      | none => none
    else if c = '&' then none
    else unescGo (some (p ++ [c])) cs

/-- `quick_xml::escape::unescape` / `BytesText::unescape` -/
def unescape (s : Text) : Option Text := unescGo none s

/-! ## text events and trimming -/

/-- `utils::is_whitespace` -/
def isXmlWs (c : Char) : Bool := c = ' ' || c = '\r' || c = '\n' || c = '\t'

def trimStart (s : Text) : Text := s.dropWhile isXmlWs
def trimEnd (s : Text) : Text := (s.reverse.dropWhile isXmlWs).reverse

/-- the `Event::Text` produced for the raw content `raw` (everything up to the next `<`) when the
    reader runs with `trim_text(trim)`; `none` = no text event at all -/
def textEvent (trim : Bool) (raw : Text) : Option Text :=
  if trim then
    (if trimStart raw = [] then none else some (trimEnd (trimStart raw)))
  else
    (if raw = [] then none else some raw)

/-- `reader/driver.rs::unescape_text`, first half: a literal CR LF or CR in character data is a
    line break and is passed on as LF (XML 1.0 section 2.11); done on the raw text, so `&#13;`
    is not touched -/
def normEol : Text → Text
  | [] => []
  | '\r' :: '\n' :: cs => '\n' :: normEol cs
  | c :: cs => (if c = '\r' then '\n' else c) :: normEol cs

/-- `reader/driver.rs::unescape_text`: line ends, then `quick_xml::escape::unescape` -/
def unescapeText (t : Text) : Option Text := unescape (normEol t)

/-- content of a string variable that starts empty and is overwritten by
    `Event::Text(e) => s = unescape_text(&e)`; `none` = the `unwrap` panics -/
def readText (trim : Bool) (raw : Text) : Option Text :=
  match textEvent trim raw with
  | none => some []
  | some t => unescapeText t

/-- the same when the variable already holds `prev` (the cell reader keeps ONE string variable for
    `<v>` and `<is><t>`) -/
def readTextFrom (prev : Text) (trim : Bool) (raw : Text) : Option Text :=
  match textEvent trim raw with
  | none => some prev
  | some t => unescapeText t

/-! ## `char::is_whitespace` (Unicode `White_Space`), used by `Text::write_to` for `xml:space` -/

def isUniWs (c : Char) : Bool :=
  let n := c.toNat
  (9 ≤ n && n ≤ 13) || n == 32 || n == 0x85 || n == 0xA0 || n == 0x1680 ||
  (0x2000 ≤ n && n ≤ 0x200A) || n == 0x2028 || n == 0x2029 || n == 0x202F || n == 0x205F || n == 0x3000

/-- `s.starts_with(char::is_whitespace) || s.ends_with(char::is_whitespace)` -/
def needsPreserve (s : Text) : Bool :=
  (match s with | c :: _ => isUniWs c | [] => false) ||
  (match s.reverse with | c :: _ => isUniWs c | [] => false)

end Umya.Xml
