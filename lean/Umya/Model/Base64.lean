/-
  base64 (RFC 4648 §4, standard alphabet, `=` padding) on `List UInt8` / `List Char`.
  NOT proved; validated by the RFC 4648 §10 vectors in `Umya.PrimsExec.selftest`.
  The decoder is strict (length a multiple of 4, padding only at the end, canonical trailing bits
  not required).
-/
namespace Umya.Base64

def alphabet : Array Char :=
  "ABCDEFGHIJKLMNOPQRSTUVWXYZabcdefghijklmnopqrstuvwxyz0123456789+/".toList.toArray

def enc6 (n : Nat) : Char := alphabet[n % 64]!

def encode : List UInt8 → List Char
  | [] => []
  | [a] =>
    let n := a.toNat
    [enc6 (n / 4), enc6 (n % 4 * 16), '=', '=']
  | [a, b] =>
    let n := a.toNat * 256 + b.toNat
    [enc6 (n / 1024), enc6 (n / 16 % 64), enc6 (n % 16 * 4), '=']
  | a :: b :: c :: rest =>
    let n := a.toNat * 65536 + b.toNat * 256 + c.toNat
    enc6 (n / 262144) :: enc6 (n / 4096 % 64) :: enc6 (n / 64 % 64) :: enc6 (n % 64) :: encode rest

def dec6 (c : Char) : Option Nat :=
  let n := c.toNat
  if 65 ≤ n ∧ n ≤ 90 then some (n - 65)
  else if 97 ≤ n ∧ n ≤ 122 then some (n - 97 + 26)
  else if 48 ≤ n ∧ n ≤ 57 then some (n - 48 + 52)
  else if c = '+' then some 62
  else if c = '/' then some 63
  else none

def decode : List Char → Option (List UInt8)
  | [] => some []
  | [a, b, '=', '='] =>
    match dec6 a, dec6 b with
    | some x, some y => some [UInt8.ofNat ((x * 64 + y) / 16)]
    | _, _ => none
  | [a, b, c, '='] =>
    match dec6 a, dec6 b, dec6 c with
    | some x, some y, some z =>
      let n := (x * 64 + y) * 64 + z
      some [UInt8.ofNat (n / 1024), UInt8.ofNat (n / 4 % 256)]
    | _, _, _ => none
  | a :: b :: c :: d :: rest =>
    match dec6 a, dec6 b, dec6 c, dec6 d, decode rest with
    | some x, some y, some z, some w, some r =>
      let n := ((x * 64 + y) * 64 + z) * 64 + w
      some (UInt8.ofNat (n / 65536) :: UInt8.ofNat (n / 256 % 256) :: UInt8.ofNat (n % 256) :: r)
    | _, _, _, _, _ => none
  | _ => none

end Umya.Base64
