/-
  Model of lazy loading (`reader/xlsx.rs::read_reader(.., false)`, `raw_to_deserialize_by_worksheet`,
  the accessors of `structs/spreadsheet.rs`) and of the per-sheet branch of the writer
  (`writer/xlsx.rs::make_buffer`, `RawWorksheet::write`, `RawRelationships::write_to`,
  `RawFile::write_to`, `WriterManager`), after the fixes
    * raw_worksheet.rs: a copied sheet's own relationships part is written next to the sheet's NEW name,
    * writer/xlsx/table.rs: table numbers skip part names that are already in the package.

  Abstractions.  Part names are structured (`PName`): the numbered families the writer allocates in,
  the sheet parts, "the relationships part of p", and any other name as text.  The driver parses /
  renders them; two names are equal iff their texts are (the parser is canonical).  The bytes of a part
  are an identity (`cid`).  The sheet decoder is a parameter (`Codec.decode`, C03's subject), so is what a
  deserialized sheet registers in the workbook-level tables, and what the serialiser asks the writer
  manager for (`Profile`).
-/
namespace Umya.Lazy

/-! ## part names -/

inductive Fam where
  | drawing | vml | comment | chart | ole | excel | printer | table
  deriving DecidableEq, Repr

inductive PName where
  | sheet (n : Nat)                 -- xl/worksheets/sheet{n}.xml
  | fam (f : Fam) (n : Nat)         -- xl/drawings/drawing{n}.xml, xl/comments{n}.xml, …
  | other (s : List Char)           -- any other part name
  | rels (of : PName)               -- {dir}/_rels/{file}.rels of the part `of`
  deriving DecidableEq, Repr

abbrev Name := List Char            -- sheet titles

/-! ## workbook-level tables: find-or-append -/

def indexOf? (x : Nat) : List Nat → Option Nat
  | [] => none
  | y :: ys => if y = x then some 0 else (indexOf? x ys).map (· + 1)

/-- `SharedStringTable::set_cell` / `Stylesheet::set_style`: find, else append -/
def intern (t : List Nat) (x : Nat) : List Nat :=
  match indexOf? x t with
  | some _ => t
  | none => t ++ [x]

def internAll (t : List Nat) (xs : List Nat) : List Nat := xs.foldl intern t

structure Tables where
  sst : List Nat := []              -- shared strings (identities of the items)
  xfs : List Nat := []              -- cellXfs
  dxfs : List Nat := []             -- differential formats
  deriving DecidableEq, Repr

/-! ## raw sheets -/

/-- `RawRelationship`: one `<Relationship>` with the bytes of its target -/
structure RawRel where
  ext : Bool                        -- TargetMode="External": no part behind it
  file : PName                      -- resolved name of the target part
  cid : Nat                         -- identity of the bytes kept in `raw_file`
  empty : Bool := false             -- zero bytes: `RawFile::write_to` writes nothing
  deriving DecidableEq, Repr

/-- `RawRelationships`: one relationships part -/
structure RawRels where
  name : PName                      -- its name in the file it was read from
  rels : List RawRel
  deriving DecidableEq, Repr

/-- `RawWorksheet`: the sheet XML and the closure of its relationship parts (children first) -/
structure RawSheet where
  file : PName
  cid : Nat
  closure : List RawRels
  deriving DecidableEq, Repr

def RawRels.targets (q : RawRels) : List (Option PName) :=
  q.rels.map (fun r => if r.ext then none else some r.file)

/-! ## deserialized sheets -/

/-- a target of a relationship written for a deserialized sheet that has no relationships of its own -/
inductive Leaf where
  | alloc (f : Fam)                 -- `add_file_at_*`: smallest free index of the family
  | fixed (n : PName)               -- a part with a given name (media): `add_bin`, first writer wins
  | ext                             -- external (hyperlink): no part
  | missing (n : PName)             -- a target the serialiser names but never writes (a serialiser defect, C02's)
  deriving DecidableEq, Repr

/-- a target of the sheet's relationships part -/
inductive Item where
  | leaf (l : Leaf)
  | node (f : Fam) (kids : List Leaf)   -- drawing / vmlDrawing with a relationships part of its own
  deriving DecidableEq, Repr

/-- what the serialiser asks the writer manager for, in the order of the sheet's relationships -/
abbrev Profile := List Item

structure Loaded (C : Type) where
  content : C
  prof : Profile := []

inductive Body (C : Type) where
  | raw (r : RawSheet)
  | loaded (l : Loaded C)

structure Sheet (C : Type) where
  name : Name
  body : Body C

def Sheet.isRaw {C} (s : Sheet C) : Bool :=
  match s.body with
  | .raw _ => true
  | .loaded _ => false

structure Book (C : Type) where
  sheets : List (Sheet C) := []
  tables : Tables := {}

def Book.hasRaw {C} (b : Book C) : Bool := b.sheets.any Sheet.isRaw

/-- everything the model leaves open about sheet content -/
structure Codec (C E : Type) where
  decode : RawSheet → Tables → Loaded C      -- `worksheet::read` + drawing/comment/table/vml readers
  apply : E → Loaded C → Loaded C            -- an edit of a deserialized sheet
  fresh : Loaded C                           -- `Worksheet::default()` as made by `new_sheet`
  texts : C → List Nat                       -- shared strings the sheet registers when written, in order
  styles : C → List Nat                      -- cell styles it registers
  dxfs : C → List Nat                        -- differential formats it registers

/-! ## operations -/

section ops
variable {C E : Type} (cd : Codec C E)

/-- `raw_to_deserialize_by_worksheet` -/
def materialise (T : Tables) (s : Sheet C) : Sheet C :=
  match s.body with
  | .raw r => { s with body := .loaded (cd.decode r T) }
  | .loaded _ => s

def editSheet (T : Tables) (e : E) (s : Sheet C) : Sheet C :=
  match (materialise cd T s).body with
  | .loaded l => { s with body := .loaded (cd.apply e l) }
  | .raw _ => s       -- unreachable: `materialise` never leaves a sheet raw

def modifyAt {α} (f : α → α) : List α → Nat → List α
  | [], _ => []
  | x :: xs, 0 => f x :: xs
  | x :: xs, i + 1 => x :: modifyAt f xs i

def findName (n : Name) : List (Sheet C) → Option Nat
  | [] => none
  | s :: ss => if s.name = n then some 0 else (findName n ss).map (· + 1)

def hasName (n : Name) (l : List (Sheet C)) : Bool := l.any (fun s => s.name = n)

inductive Op (E : Type) where
  | readSheet (i : Nat)                       -- `read_sheet(i)`
  | getMut (i : Nat)                          -- `get_sheet_mut(&i)`
  | byName (n : Name)                         -- `get_sheet_by_name_mut(n)`
  | readAll                                   -- `read_sheet_collection()` / `get_sheet_collection_mut()`
  | edit (i : Nat) (e : E)                    -- `get_sheet_mut(&i)` followed by an edit of that sheet
  | newSheet (n : Name)                       -- `new_sheet(n)`
  | removeSheet (i : Nat)                     -- `remove_sheet(i)`
  | removeByName (n : Name)                   -- `remove_sheet_by_name(n)`
  | setName (i : Nat) (n : Name)              -- `set_sheet_name(i, n)`
  | wbEdit (n : Name) (eSelf eRef : E)        -- `insert_new_row(n, ..)` …: every sheet is deserialized, the named
                                              --   sheet moves its content, every sheet adjusts its references

inductive Reply where
  | ok | none | err | panic
  deriving DecidableEq, Repr

def step (b : Book C) : Op E → Book C × Reply
  | .readSheet i =>
    if i < b.sheets.length then ({ b with sheets := modifyAt (materialise cd b.tables) b.sheets i }, .ok)
    else (b, .panic)                          -- `get_mut(index).unwrap()`
  | .getMut i =>
    if i < b.sheets.length then ({ b with sheets := modifyAt (materialise cd b.tables) b.sheets i }, .ok)
    else (b, .none)
  | .byName n =>
    match findName n b.sheets with
    | some i => ({ b with sheets := modifyAt (materialise cd b.tables) b.sheets i }, .ok)
    | none => (b, .none)
  | .readAll => ({ b with sheets := b.sheets.map (materialise cd b.tables) }, .ok)
  | .edit i e =>
    if i < b.sheets.length then ({ b with sheets := modifyAt (editSheet cd b.tables e) b.sheets i }, .ok)
    else (b, .none)
  | .newSheet n =>
    if hasName n b.sheets then (b, .err)
    else ({ b with sheets := b.sheets ++ [{ name := n, body := .loaded cd.fresh }] }, .ok)
  | .removeSheet i =>
    if i < b.sheets.length then ({ b with sheets := b.sheets.eraseIdx i }, .ok) else (b, .err)
  | .removeByName n =>
    if hasName n b.sheets then ({ b with sheets := b.sheets.filter (fun s => s.name ≠ n) }, .ok) else (b, .err)
  | .setName i n =>
    if hasName n b.sheets then (b, .err)        -- the duplicate check comes first
    else if i < b.sheets.length then ({ b with sheets := modifyAt (fun s => { s with name := n }) b.sheets i }, .ok)
    else (b, .err)
  | .wbEdit n eSelf eRef =>
    ({ b with sheets := b.sheets.map (fun s =>
        if s.name = n then editSheet cd b.tables eRef (editSheet cd b.tables eSelf s)
        else editSheet cd b.tables eRef s) }, .ok)

def run (b : Book C) (ops : List (Op E)) : Book C := ops.foldl (fun b o => (step cd b o).1) b

/-- `read_reader(.., true)`: lazy open followed by `read_sheet_collection` -/
def eagerOf (b : Book C) : Book C := { b with sheets := b.sheets.map (materialise cd b.tables) }

end ops

/-! ## the writer -/

inductive Content (C : Type) where
  | bytes (cid : Nat)                          -- copied verbatim from the file that was read
  | relsOf (targets : List (Option PName))     -- a relationships part (none = external target)
  | ser (m : C)                                -- a deserialized sheet, serialised
  | gen                                        -- another generated part (drawing, comments, table, media …)

/-- `WriterManager`: the parts written so far, in order -/
structure WM (C : Type) where
  parts : List (PName × Content C) := []

def hasPart {C} : List (PName × Content C) → PName → Bool
  | [], _ => false
  | (m, _) :: r, n => if m = n then true else hasPart r n

def WM.has {C} (w : WM C) (n : PName) : Bool := hasPart w.parts n

def lookupPart {C} : List (PName × Content C) → PName → Option (Content C)
  | [], _ => none
  | (m, c) :: r, n => if m = n then some c else lookupPart r n

def WM.lookup {C} (w : WM C) (n : PName) : Option (Content C) := lookupPart w.parts n

/-- `add_writer` / `add_bin`: the first writer of a name wins -/
def WM.add {C} (w : WM C) (n : PName) (c : Content C) : WM C :=
  if w.has n then w else { parts := w.parts ++ [(n, c)] }

/-- largest index of family `f` among the names written -/
def maxIdx {C} (f : Fam) : List (PName × Content C) → Nat
  | [] => 0
  | (.fam g k, _) :: r => if g = f then max k (maxIdx f r) else maxIdx f r
  | _ :: r => maxIdx f r

/-- the `loop { index += 1; if !exists … }` of `add_file_at_*`, with fuel -/
def firstFreeFrom {C} (w : WM C) (f : Fam) : Nat → Nat → Nat
  | 0, i => i
  | fuel + 1, i => if w.has (.fam f i) then firstFreeFrom w f fuel (i + 1) else i

/-- smallest free index ≥ 1; the fuel (largest index in use) is enough: `firstFree_free` -/
def WM.firstFree {C} (w : WM C) (f : Fam) : Nat := firstFreeFrom w f (maxIdx f w.parts) 1

section writer
variable {C : Type}

/-- `RawRelationships::write_to`: nothing for an empty list; else the part (under `target`), then every
    non-empty target under its own name -/
def writeRels (w : WM C) (q : RawRels) (target : PName) : WM C :=
  if q.rels.isEmpty then w
  else
    q.rels.foldl (fun w r => if r.empty then w else w.add r.file (.bytes r.cid))
      (w.add target (.relsOf q.targets))

/-- `RawWorksheet::write` (fixed): the sheet at its position; its own relationships part next to it -/
def writeRaw (w : WM C) (p : Nat) (r : RawSheet) : WM C :=
  r.closure.foldl (fun w q => writeRels w q (if q.name = .rels r.file then .rels (.sheet p) else q.name))
    (w.add (.sheet p) (.bytes r.cid))

/-- `RawWorksheet::write` before the fix: every relationships part under its original name -/
def writeRawOld (w : WM C) (p : Nat) (r : RawSheet) : WM C :=
  r.closure.foldl (fun w q => writeRels w q q.name) (w.add (.sheet p) (.bytes r.cid))

def emitLeaf (w : WM C) : Leaf → WM C × Option PName
  | .alloc f => let i := w.firstFree f; (w.add (.fam f i) .gen, some (.fam f i))
  | .fixed n => (w.add n .gen, some n)
  | .ext => (w, none)
  | .missing n => (w, some n)

def emitLeaves (w : WM C) : List Leaf → WM C × List (Option PName)
  | [] => (w, [])
  | l :: ls =>
    let (w1, t) := emitLeaf w l
    let (w2, ts) := emitLeaves w1 ls
    (w2, t :: ts)

def emitItem (w : WM C) : Item → WM C × Option PName
  | .leaf l => emitLeaf w l
  | .node f kids =>
    let (w1, ts) := emitLeaves w kids           -- charts / images first
    let i := w1.firstFree f
    let w2 := w1.add (.fam f i) .gen            -- then the drawing
    let w3 := if ts.isEmpty then w2 else w2.add (.rels (.fam f i)) (.relsOf ts)   -- then its relationships
    (w3, some (.fam f i))

def emitItems (w : WM C) : List Item → WM C × List (Option PName)
  | [] => (w, [])
  | x :: xs =>
    let (w1, t) := emitItem w x
    let (w2, ts) := emitItems w1 xs
    (w2, t :: ts)

/-- second loop of `make_buffer` for one deserialized sheet: its objects, then `worksheet_rels::write` -/
def emitSheet (w : WM C) (p : Nat) (prof : Profile) : WM C :=
  let (w1, ts) := emitItems w prof
  if ts.isEmpty then w1 else w1.add (.rels (.sheet p)) (.relsOf ts)

/-- one sheet in the first loop: serialised, or copied with its closure -/
def sheetStep (old : Bool) (w : WM C) (p : Nat) (s : Sheet C) : WM C :=
  match s.body with
  | .loaded l => w.add (.sheet p) (.ser l.content)
  | .raw r => if old then writeRawOld w p r else writeRaw w p r

/-- first loop: sheet parts, positions from `p` -/
def loop1 (old : Bool) (w : WM C) : Nat → List (Sheet C) → WM C
  | _, [] => w
  | p, s :: ss => loop1 old (sheetStep old w p s) (p + 1) ss

/-- one sheet in the second loop: objects and relationships of a deserialized sheet -/
def objStep (w : WM C) (p : Nat) (s : Sheet C) : WM C :=
  match s.body with
  | .loaded l => emitSheet w p l.prof
  | .raw _ => w

/-- second loop -/
def loop2 (w : WM C) : Nat → List (Sheet C) → WM C
  | _, [] => w
  | p, s :: ss => loop2 (objStep w p s) (p + 1) ss

structure Saved (C : Type) where
  parts : List (PName × Content C)             -- the parts written by the per-sheet machinery
  names : List Name                            -- workbook.xml: sheet k (1-based) has sheetId k, r:id rIdk → sheet{k}.xml
  tables : Tables                              -- sharedStrings.xml / styles.xml as written

def loadedContents (l : List (Sheet C)) : List C :=
  l.filterMap (fun s => match s.body with | .loaded x => some x.content | .raw _ => none)

variable {E : Type} (cd : Codec C E)

/-- tables as written: private copies; the shared strings start from the loaded table only while a raw
    sheet is left, the stylesheet always starts from the loaded one -/
def saveTables (b : Book C) : Tables :=
  let cs := loadedContents b.sheets
  { sst := internAll (if b.hasRaw then b.tables.sst else []) (cs.flatMap cd.texts)
    xfs := internAll b.tables.xfs (cs.flatMap cd.styles)
    dxfs := internAll b.tables.dxfs (cs.flatMap cd.dxfs) }

def saveWith (old : Bool) (b : Book C) : Saved C :=
  { parts := (loop2 (loop1 old {} 1 b.sheets) 1 b.sheets).parts
    names := b.sheets.map (·.name)
    tables := saveTables cd b }

def save (b : Book C) : Saved C := saveWith cd false b

end writer

/-! ## an independent reader's view of the saved skeleton -/

section reader
variable {C : Type}

/-- every relationship of every relationships part points to a part that is there -/
def closedParts (ps : List (PName × Content C)) : Bool :=
  ps.all (fun p => match p.2 with
    | .relsOf ts => ts.all (fun t => match t with | some n => hasPart ps n | none => true)
    | _ => true)

/-- every relationships part sits next to a part (no `_rels/x.rels` without `x`) -/
def relsHaveSource (ps : List (PName × Content C)) : Bool :=
  ps.all (fun p => match p.1 with | .rels n => hasPart ps n | _ => true)

end reader

end Umya.Lazy
