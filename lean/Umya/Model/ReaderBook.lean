/-
  Model of the library's reader at WORKBOOK level, continuing `Umya/Model/ReaderSheet.lean`, as the code is in the
  worktree:

    * merged ranges at full strength: structs/merge_cells.rs `add_range` = `Range::default()` + `Range::set_range`
      (`Umya.Coord.Range.parse`), and what `get_merge_cells()[i].get_range()` prints (`Range.print`);
    * defined names at full strength: structs/defined_name.rs `set_attributes` = the attributes (`readDefinedName`)
      followed by `set_address` on the text (`Umya.Annot.DefName.setAddress`: `split_str`, `is_address`, `add_address`),
      and what `get_address()` prints (`DefName.text`);
    * the RE-HOMING of defined names, reader/xlsx/workbook.rs, the loop after the event loop: a name with
      `localSheetId` goes to `get_sheet_mut(localSheetId).unwrap()` (panic outside the sheet list); a name without goes
      to the first sheet whose name equals the sheet name of its FIRST area (`get_address_obj().get(0)`,
      `get_sheet_by_name_mut` = `position(|s| s.get_name() == name)`), else it stays in the workbook's list;
    * the part a relationship target names: reader/driver.rs `join_paths` (in `ReaderSheet`), here only the
      predicate on targets under which it is proved equal to the decoder's `resolveTargetL`;
    * table parts: reader/xlsx/table.rs (`name`, `displayName`, `ref` of `<table>`; the `name` of every
      `<tableColumn/>`, a column with an empty name is dropped);
    * the whole workbook: `readBook` puts the per-part readers together the way reader/xlsx.rs does
      (workbook part, its relationships, shared strings, styles, then every sheet through its relationship).

  Core Lean only.
-/
import Umya.Model.ReaderSheet
import Umya.Model.ReaderStyle
import Umya.Model.Annot
namespace Umya.Reader
open Umya.Spec.Xml Umya.Coord
open Umya.Annot (DefName Address)

def resOpt {α : Type} : Res α → Option α
  | .ok a => some a
  | .panic => none

/-! ## merged ranges -/

/-- `MergeCells::set_attributes` with `add_range`: the `ref` of every `<mergeCell/>` (`unwrap`) through
    `Range::set_range` on a default range; `none` = panic -/
def readMergeRanges (ms : List Node) : Option (List Range) :=
  ms.mapM fun m => (m.attr? "ref".toList).bind fun v => resOpt (Range.parse v)

/-- `get_merge_cells().iter().map(|m| m.get_range())` -/
def shownMerges (rs : List Range) : List Text := rs.map Range.print

/-! ## defined names -/

/-- a defined name as `DefinedName::set_attributes` leaves it -/
structure NameB where
  name : Text
  localSheetId : Option Nat
  body : DefName
  deriving Repr, DecidableEq

/-- `DefinedName::set_attributes`: the attributes and the text as `readDefinedName`, then `set_address(value)` -/
def readDefinedNameB (d : Node) : Option NameB :=
  match readDefinedName d with
  | none => none
  | some n =>
    match DefName.setAddress {} n.text with
    | .ok b => some ⟨n.name, n.localSheetId, b⟩
    | .panic => none

def readDefinedNamesB (ds : List Node) : Option (List NameB) := ds.mapM readDefinedNameB

/-- where a name is found after loading: `Spreadsheet::get_defined_names()` or
    `get_sheet(k).get_defined_names()` -/
inductive Home where
  | book
  | sheet (k : Nat)
  deriving Repr, DecidableEq

/-- one turn of the re-homing loop of workbook.rs; `none` = panic (`get_sheet_mut(..).unwrap()`) -/
def homeOf (sheets : List SheetR) (n : NameB) : Option Home :=
  match n.localSheetId with
  | some i => if i < sheets.length then some (.sheet i) else none
  | none =>
    match n.body.areas.head? with
    | some a =>
      match sheets.findIdx? (fun s => decide (s.name = a.sheet)) with
      | some k => some (.sheet k)
      | none => some .book
    | none => some .book

/-- the loop: every name with its home, in document order -/
def rehome (sheets : List SheetR) (names : List NameB) : Option (List (NameB × Home)) :=
  names.mapM fun n => (homeOf sheets n).map fun h => (n, h)

/-- the list a getter shows (`add_defined_names` pushes: document order is kept inside a list) -/
def namesAt (h : Home) (l : List (NameB × Home)) : List NameB := (l.filter (fun p => decide (p.2 = h))).map (·.1)

/-! ## table parts -/

structure TableR where
  name : Text
  displayName : Text
  area : Option (Text × Text)
  columns : List Text
  deriving Repr, DecidableEq

/-- `str::split(':')` into exactly two pieces -/
def splitArea (v : Text) : Option (Text × Text) :=
  match splitColon v with
  | [a, b] => some (a, b)
  | _ => none

/-- reader/xlsx/table.rs on the root element `<table>` of a table part: the attributes of the start tag (the last
    occurrence of an attribute wins in the loop; the tree holds one), every `<tableColumn/>` with a non-empty `name` -/
def readTable (t : Node) : TableR :=
  { name := (t.attr? "name".toList).getD [],
    displayName := (t.attr? "displayName".toList).getD [],
    area := (t.attr? "ref".toList).bind splitArea,
    columns := ((((t.kid? "tableColumns").map (·.kids "tableColumn")).getD []).map
      fun c => (c.attr? "name".toList).getD []).filter (fun n => !n.isEmpty) }

/-! ## decidable tests for the hypotheses of `C03_merges` / `C03_defined_names` (sound: Lemmas/ReaderNames.lean
     `mergeRefOkB_sound`, `nameTextOkB_sound`); the driver counts per file how many `ref` / name texts pass -/

def refB (lo hi : Nat) : Option Ref → Bool
  | some x => decide (lo ≤ x.num) && decide (x.num ≤ hi)
  | none => true

def shapeB (ρ : Range) : Bool :=
  (ρ.startCol.isSome && ρ.startRow.isSome && ρ.endCol.isNone && ρ.endRow.isNone) ||
  (ρ.startCol.isSome && ρ.startRow.isSome && ρ.endCol.isSome && ρ.endRow.isSome) ||
  (ρ.startCol.isNone && ρ.startRow.isSome && ρ.endCol.isNone && ρ.endRow.isSome) ||
  (ρ.startCol.isSome && ρ.startRow.isNone && ρ.endCol.isSome && ρ.endRow.isNone)

/-- a decidable sufficient test for `MergeRefOk` (Lemmas/ReaderNames.lean) (used by the non-vacuity examples and counted per file by the driver):
    the text parses to a range of a printable shape inside the bounds whose print is the text again -/
def mergeRefOkB (v : Text) : Bool :=
  match Range.parse v with
  | .ok ρ => shapeB ρ && refB 1 18278 ρ.startCol && refB 1 18278 ρ.endCol && refB 0 4294967295 ρ.startRow &&
      refB 0 4294967295 ρ.endRow && decide (ρ.print = v)
  | .panic => false

/-- decidable form of `AreaOK` -/
def areaOkB (a : Address) : Bool :=
  !a.sheet.isEmpty && decide (a.sheet.head? ≠ some '\'') && a.sheet.all (fun c => !Umya.Annot.forbidden c) &&
  ((a.range.startCol.isSome && a.range.startRow.isSome && a.range.endCol.isNone && a.range.endRow.isNone) ||
   (a.range.startCol.isSome && a.range.startRow.isSome && a.range.endCol.isSome && a.range.endRow.isSome)) &&
  refB 1 18278 a.range.startCol && refB 1 18278 a.range.endCol && refB 0 4294967295 a.range.startRow &&
  refB 0 4294967295 a.range.endRow

/-- a decidable sufficient test for `NameTextOk` (Lemmas/ReaderNames.lean) (non-vacuity examples; counted per file by the driver): the text is not an
    area list, or `set_address` reads it as areas that are `AreaOK` and `get_address` prints the text again -/
def nameTextOkB (v : Text) : Bool :=
  if (Umya.Annot.splitStr v).all Umya.Annot.isAddress = false then true
  else match DefName.setAddress {} v with
    | .ok d => d.str.isNone && d.areas.all areaOkB && decide (d.text = v)
    | .panic => false


/-! ## the whole workbook -/

/-- one worksheet as the reader leaves it: the cells in document order (`Cells::set_fast`: a later cell at the same position
    replaces an earlier one — `lastWins`), the style of every `<c>` in the same order, merged ranges, hyperlinks -/
structure SheetB where
  sheet : SheetR
  cells : List CellOut
  styles : List StyleR
  merges : List Range
  links : List LinkR
  deriving Repr

/-- the hyperlinks of a sheet part at `path`: through its relationships part (`relsPartOf`) when there is one -/
def sheetLinks (lookup : Text → Option Node) (path : Text) (hs : List Node) : Option (List LinkR) :=
  match (lookup (relsPartOf path)).map readRels with
  | some none => none                           -- a relationships part that cannot be read: panic
  | some (some r) => readHyperlinks (some r) hs
  | none => readHyperlinks none hs

/-- reader/xlsx.rs for one sheet of the list.  `lookup name` stands for `arv.by_name(name)` followed by the XML reader: the
    root element of the part (`none` = no such part).  The sheet's part is the target of its relationship
    (`sheetPart`: `join_paths`, the LAST relationship with the sheet's id); without relationship the sheet stays empty; a
    relationship with the sheet's id — the last or an earlier one — whose part is missing is a panic (`unwrap`).  Then worksheet.rs `read`: the
    `<sheetData>` loop, `<mergeCells>`, `<hyperlinks>` through the relationships part of the sheet (`relsPartOf`).
    `none` = panic. -/
def readSheetB (T : Tr) (lookup : Text → Option Node) (made : List StyleR) (sst : List (Option Text)) (wbRels : List RelR)
    (s : SheetR) : Option SheetB :=
  -- `raw_worksheet.read(&mut arv, rel_target)` for EVERY relationship with the sheet's id: `by_name(path).unwrap()`
  if (wbRels.filter (·.id = s.rid)).any (fun r => (lookup (joinPaths "xl".toList (stripXl r.target))).isNone) then none
  else
  match (sheetPart wbRels s).bind (fun p => (lookup p).map fun r => (p, r)) with
  | none => some ⟨s, [], [], [], []⟩
  | some (path, root) =>
    let rows := ((root.kid? "sheetData").map (·.kids "row")).getD []
    let hs := ((root.kid? "hyperlinks").map (·.kids "hyperlink")).getD []
    let ms := ((root.kid? "mergeCells").map (·.kids "mergeCell")).getD []
    match readRows T sst 0 [] rows, sheetLinks lookup path hs, readMergeRanges ms, (rows.flatMap (·.kids "c")).mapM (cellStyle made) with
    | some os, some ls, some mg, some sts => some ⟨s, os, sts, mg, ls⟩
    | _, _, _, _ => none

structure BookB where
  sheets : List SheetB
  names : List (NameB × Home)
  made : List StyleR
  deriving Repr

/-- reader/xlsx.rs `read_reader`: the workbook part and its relationships under their fixed names (`PKG_WORKBOOK`,
    `PKG_WORKBOOK_RELS`), the shared strings and the styles under theirs (absent = empty), the re-homing of the defined
    names, then every sheet.  `T` = the shared-formula translator, `cf` = the float-text normalisation of the styles reader.
    `none` = panic (or the parts the reader cannot do without are missing). -/
def readBook (T : Tr) (cf : Umya.StyleCodec.Tok → Umya.StyleCodec.Tok) (lookup : Text → Option Node) : Option BookB :=
  match lookup "xl/workbook.xml".toList, lookup "xl/_rels/workbook.xml.rels".toList with
  | some wb, some wr =>
    let sst := match lookup "xl/sharedStrings.xml".toList with
      | some r => readSst r
      | none => []
    match readRels wr, readSheetList (((wb.kid? "sheets").map (·.kids "sheet")).getD []),
          readDefinedNamesB (((wb.kid? "definedNames").map (·.kids "definedName")).getD []) with
    | some wrs, some sl, some dn =>
      match rehome sl dn with
      | none => none
      | some homed =>
        match (match lookup "xl/styles.xml".toList with | some r => readStyleSheet cf r | none => some []) with
        | none => none
        | some made => (sl.mapM (readSheetB T lookup made sst wrs)).map fun sheets => ⟨sheets, homed, made⟩
    | _, _, _ => none
  | _, _ => none

end Umya.Reader
