/-
  Model of the cell value codec of umya-spreadsheet AS FIXED (fix_1 … fix_6 of C01; fix 5: a rich text cached
  under a formula is written as a shared-string item, `t="s"`; fix 6: `Cell::write_to` writes an unresolved lazy
  value as the typed value `guess_typed_data` makes of its text):

  * `structs/cell_raw_value.rs`, `structs/cell_value.rs`: the typed value, `get_value`,
    `get_data_type`, `get_data_type_crate` (after fix 2 / fix 5: a formula's cached number / boolean / error /
    rich text keeps its type, only plain text results are `str`), `guess_typed_data`, the public setters
  * `structs/cell.rs::write_to`: the lazy value resolved first (fix 6, `resolveRaw`), early return for blank
    unstyled cells, the `t=` choice, `<f>`/`<v>`
    payloads (after fix 1: the `e` arm writes the error's own text), the `s` branch registering the
    value in the shared-string table (`SharedStringTable::set_cell` = find-or-append)
  * `structs/cell.rs::set_attributes` + `structs/cell_formula.rs::set_attributes`: the `t`/`v`/`is`/`f`
    match of the sheet reader, which runs with `trim_text(true)` except inside `<t xml:space="preserve">`,
    inside `<v>` of a `t="str"` cell (fix 3) and inside `<f>` (fix 4)
  * `structs/shared_string_item.rs`, `text.rs`, `rich_text.rs`, `text_element.rs`: the shared-string part
    writer / reader (`trim_text(false)`); run properties are an opaque token
  * `writer/xlsx.rs::make_buffer` (string side): one table per save, threaded through the sheets in order.
    The two public writers differ only in the zip compression method (`is_light`).

  XML is represented as lexed facts (`CellX`, `SiX`): element, attributes of interest, RAW (still
  escaped, untrimmed) text content.  Text escaping / unescaping / trimming is `Model/Xml.lean`.
  Numbers are opaque tokens (`Model/Num.lean`).  `none` results are Rust panics.
-/
import Umya.Model.Xml
import Umya.Model.Num
import Umya.Model.InternC01
import Umya.Model.Coord
namespace Umya.CellXml
open Umya.Xml Umya.Num Umya.Coord Umya.Dec

/-! ## values -/

inductive ErrT where
  | div0 | name | na | num | value | ref | null | data
  deriving DecidableEq, Repr, Inhabited

/-- `impl Display for CellErrorType` -/
def ErrT.text : ErrT → Text
  | .div0 => ['#', 'D', 'I', 'V', '/', '0', '!']
  | .na => ['#', 'N', '/', 'A']
  | .name => ['#', 'N', 'A', 'M', 'E', '?']
  | .null => ['#', 'N', 'U', 'L', 'L', '!']
  | .num => ['#', 'N', 'U', 'M', '!']
  | .ref => ['#', 'R', 'E', 'F', '!']
  | .value => ['#', 'V', 'A', 'L', 'U', 'E', '!']
  | .data => ['#', 'D', 'A', 'T', 'A', '!']

def ErrT.all : List ErrT := [.div0, .na, .name, .null, .num, .ref, .value, .data]

/-- `impl FromStr for CellErrorType` -/
def ErrT.ofText? (s : Text) : Option ErrT := ErrT.all.find? (fun e => e.text = s)

/-- one run of a rich text: its text and an opaque token for the run properties (`rPr`) -/
structure Run where
  text : Text
  font : Option Nat := none
  deriving DecidableEq, Repr

/-- `CellRawValue` -/
inductive RawValue (N : Type) where
  | empty
  | str (s : Text)
  | rich (runs : List Run)
  | num (n : N)
  | bool (b : Bool)
  | err (e : ErrT)
  | lazy (s : Text)
  deriving DecidableEq, Repr

/-- a cell: coordinate, typed value, optional formula text, and whether its style is non-empty -/
structure Cell (N : Type) where
  col : Nat
  row : Nat
  raw : RawValue N := .empty
  formula : Option Text := none
  styled : Bool := false
  deriving DecidableEq, Repr

def sTRUE : Text := ['T', 'R', 'U', 'E']
def sFALSE : Text := ['F', 'A', 'L', 'S', 'E']
def tS : Text := ['s']
def tSTR : Text := ['s', 't', 'r']
def tB : Text := ['b']
def tE : Text := ['e']
def tN : Text := ['n']
def tINLINE : Text := ['i', 'n', 'l', 'i', 'n', 'e', 'S', 't', 'r']

def boolText (b : Bool) : Text := if b then sTRUE else sFALSE

/-- `RichText::get_text` -/
def richText (runs : List Run) : Text := runs.flatMap (·.text)

/-- `str::to_uppercase` as far as it can produce an ASCII letter: ASCII lower case, U+017F (ſ → S)
    and U+0131 (ı → I); every other character maps to itself or to something non-ASCII, which cannot
    make the result equal to one of the ASCII literals it is compared with -/
def upChar (c : Char) : Char :=
  if 97 ≤ c.toNat ∧ c.toNat ≤ 122 then Char.ofNat (c.toNat - 32)
  else if c.toNat = 0x17F then 'S'
  else if c.toNat = 0x131 then 'I'
  else c

def upper (s : Text) : Text := s.map upChar

def RawValue.isEmpty {N} : RawValue N → Bool
  | .empty => true
  | _ => false

/-- `CellRawValue::get_data_type` -/
def RawValue.dataType {N} : RawValue N → Text
  | .str _ => tS
  | .rich _ => tS
  | .num _ => tN
  | .bool _ => tB
  | .err _ => tE
  | _ => []

section
variable (F : NumFmt)

/-- `CellRawValue: Display` (= `get_value`) -/
def valueText : RawValue F.Num → Text
  | .str s => s
  | .rich r => richText r
  | .num n => F.fmt n
  | .bool b => boolText b
  | .err e => e.text
  | _ => []

/-- `CellValue::get_data_type_crate` (after fix 2 and fix 5: under a formula a cached number / boolean /
    error / rich text keeps its own type, every other result is `str`), on the value and the optional formula -/
def dataTypeOf (raw : RawValue F.Num) (formula : Option Text) : Text :=
  match formula with
  | some _ =>
    (match raw with
     | .num _ => tN
     | .bool _ => tB
     | .err _ => tE
     | .rich _ => tS
     | _ => tSTR)
  | none => raw.dataType

def dataTypeCrate (c : Cell F.Num) : Text := dataTypeOf F c.raw c.formula

/-- `CellValue::guess_typed_data` -/
def guess (s : Text) : RawValue F.Num :=
  let u := upper s
  if u = [] then .empty
  else if u = sTRUE then .bool true
  else if u = sFALSE then .bool false
  else match ErrT.ofText? u with
    | some e => .err e
    | none =>
      match F.parse s with
      | some n => .num n
      | none => .str s

def RawValue.isLazy {N} : RawValue N → Bool
  | .lazy _ => true
  | _ => false

/-- the value `Cell::write_to` writes (fix 6): a value stored with `set_value_lazy` and not resolved yet is
    converted as `get_value_lazy` would (`guess_typed_data` of its text); every other value is written as it is.
    The cell itself is not changed (`write_to` takes `&self`; it works on a clone). -/
def resolveRaw : RawValue F.Num → RawValue F.Num
  | .lazy s => guess F s
  | r => r

/-- the clone `Cell::write_to` works on: the value resolved, everything else (coordinate, formula, style) kept -/
def Cell.resolved (c : Cell F.Num) : Cell F.Num := { c with raw := resolveRaw F c.raw }

/-! ## the public setters (`cell_value.rs`) -/

def Cell.setValue (c : Cell F.Num) (s : Text) : Cell F.Num := { c with raw := guess F s, formula := none }
def Cell.setValueString (c : Cell F.Num) (s : Text) : Cell F.Num := { c with raw := .str s, formula := none }
def Cell.setValueNumber (c : Cell F.Num) (n : F.Num) : Cell F.Num := { c with raw := .num n, formula := none }
def Cell.setValueBool (c : Cell F.Num) (b : Bool) : Cell F.Num := { c with raw := .bool b, formula := none }
def Cell.setRichText (c : Cell F.Num) (r : List Run) : Cell F.Num := { c with raw := .rich r, formula := none }
def Cell.setBlank (c : Cell F.Num) : Cell F.Num := { c with raw := .empty, formula := none }
/-- `set_error` and `set_formula_result_default` are `set_value_crate`: they guess and keep the formula -/
def Cell.setError (c : Cell F.Num) (s : Text) : Cell F.Num := { c with raw := guess F s }
def Cell.setFormula (c : Cell F.Num) (f : Text) : Cell F.Num := { c with formula := some f }
def Cell.setValueLazy (c : Cell F.Num) (s : Text) : Cell F.Num := { c with raw := .lazy s }
def Cell.setStyled (c : Cell F.Num) : Cell F.Num := { c with styled := true }

/-! ## shared-string items -/

/-- `SharedStringItem` -/
structure Item where
  text : Option Text := none
  rich : Option (List Run) := none
  deriving DecidableEq, Repr

/-- `CellRawValue::get_text` -/
def getText : RawValue F.Num → Option Text
  | .str s => some s
  | .num n => some (F.fmt n)
  | .bool b => some (boolText b)
  | _ => none

def getRich : RawValue F.Num → Option (List Run)
  | .rich r => some r
  | _ => none

/-- the item `SharedStringTable::set_cell` builds from a cell value -/
def itemOf (v : RawValue F.Num) : Item := { text := getText F v, rich := getRich F v }

end

abbrev Table := List Item

/-! ## XML facts -/

/-- the `<v>` child of a `<c>` -/
inductive VNode where
  | absent
  | emptyTag
  | text (raw : Text)
  deriving DecidableEq, Repr

/-- a `<t>` element: `xml:space="preserve"` present?, raw content -/
structure TX where
  preserve : Bool
  raw : Text
  deriving DecidableEq, Repr

/-- a `<c>` element; `f` = raw content of `<f>`; `is` = the `<t>` of an `<is>` child (never written
    by this library, accepted by its reader) -/
structure CellX where
  ref : Text
  t : Text := []
  styled : Bool := false
  f : Option Text := none
  v : VNode := .absent
  is : Option TX := none
  deriving DecidableEq, Repr

structure RunX where
  font : Option Nat
  t : TX
  deriving DecidableEq, Repr

/-- an `<si>` element: optional `<t>`, then `<r>` runs (the constant `<phoneticPr/>` is not shown) -/
structure SiX where
  t : Option TX := none
  runs : List RunX := []
  deriving DecidableEq, Repr

/-! ## writer -/

/-- `Text::write_to` -/
def writeText (s : Text) : TX := { preserve := needsPreserve s, raw := escape s }

/-- `SharedStringItem::write_to` -/
def siOf (it : Item) : SiX :=
  { t := it.text.map writeText,
    runs := match it.rich with
      | some rs => rs.map (fun r => { font := r.font, t := writeText r.text })
      | none => [] }

section
variable (F : NumFmt)

/-- the early return of the body of `write_to`: no value, no formula, no style -/
def blankCore (c : Cell F.Num) : Bool := c.raw.isEmpty && c.formula.isNone && !c.styled

/-- the cells `Cell::write_to` does not write: blank and unstyled once the value is resolved (the test runs on
    the clone whose lazy value was converted: a lazy "" without formula and style is skipped like a blank cell) -/
def blankUnstyled (c : Cell F.Num) : Bool := blankCore F (Cell.resolved F c)

/-- the `t` attribute: written for `s`, `b`, `str`, `e` only -/
def tAttrOf (dt : Text) : Text := if dt = tS ∨ dt = tB ∨ dt = tSTR ∨ dt = tE then dt else []

/-- the `<v>` child of a cell that is not `<c …/>`: `<v/>` for an empty value, otherwise the payload
    chosen by the data type; the `s` branch registers the value in the shared-string table -/
def writeV (tbl : Table) (dt : Text) (raw : RawValue F.Num) : Table × VNode :=
  if raw.isEmpty then (tbl, .emptyTag)
  else if dt = tS then
    let p := Umya.InternC01.intern tbl (itemOf F raw)
    (p.1, .text (escape (decDigits p.2)))
  else if dt = tSTR then (tbl, .text (partialEscape (valueText F raw)))
  else if dt = tB then (tbl, .text (escape (if upper (valueText F raw) = sTRUE then ['1'] else ['0'])))
  else if dt = tE then (tbl, .text (escape (valueText F raw)))
  else (tbl, .text (partialEscape (valueText F raw)))

/-- `Cell::write_to` after its first statement, i.e. on a cell whose value is not an unresolved lazy one.
    Result: `none` = panic (column 0 has no letters); otherwise the table and the `<c>` element written, if any. -/
def writeCore (tbl : Table) (c : Cell F.Num) : Option (Table × Option CellX) :=
  if blankCore F c then some (tbl, none)
  else
    match coordinateFromIndexWithLock? c.col c.row false false with
    | none => none
    | some ref =>
      let dt := dataTypeCrate F c
      if c.raw.isEmpty ∧ c.formula.isNone then
        some (tbl, some { ref := ref, t := tAttrOf dt, styled := c.styled })            -- `<c r= s= />`
      else
        let p := writeV F tbl dt c.raw
        some (p.1, some { ref := ref, t := tAttrOf dt, styled := c.styled, f := c.formula.map partialEscape, v := p.2 })

/-- `Cell::write_to` (fix 6): `if let CellRawValue::Lazy(v) = raw { clone; clone.raw = guess_typed_data(v);
    return clone.write_to(..) }`, then the body `writeCore`.  `guess_typed_data` never returns `Lazy`
    (`Lemmas/CellXml.lean::guess_not_lazy`), so the inner call runs the body: both paths are `writeCore` of the
    resolved cell. -/
def writeTo (tbl : Table) (c : Cell F.Num) : Option (Table × Option CellX) := writeCore F tbl (Cell.resolved F c)

def consOpt {α} : Option α → List α → List α
  | some x, xs => x :: xs
  | none, xs => xs

/-- the cells of one sheet, in the order the row loop hands them to `Cell::write_to` -/
def writeCells (tbl : Table) : List (Cell F.Num) → Option (Table × List CellX)
  | [] => some (tbl, [])
  | c :: cs =>
    match writeTo F tbl c with
    | none => none
    | some (t1, ox) =>
      match writeCells t1 cs with
      | none => none
      | some (t2, xs) => some (t2, consOpt ox xs)

/-- all sheets, in order, on one table -/
def writeSheets (tbl : Table) : List (List (Cell F.Num)) → Option (Table × List (List CellX))
  | [] => some (tbl, [])
  | s :: ss =>
    match writeCells F tbl s with
    | none => none
    | some (t1, xs) =>
      match writeSheets t1 ss with
      | none => none
      | some (t2, xss) => some (t2, xs :: xss)

end

/-- what a saved package holds, as far as C01 is concerned -/
structure BookX where
  sheets : List (List CellX)
  sst : List SiX
  deriving DecidableEq, Repr

/-- `make_buffer` (cell side).  `light` selects `write_writer_light`: it only changes the zip
    compression method of the parts, so nothing here depends on it. -/
def writeBook (F : NumFmt) (_light : Bool) (sheets : List (List (Cell F.Num))) : Option BookX :=
  match writeSheets F [] sheets with
  | none => none
  | some (t, xs) => some { sheets := xs, sst := t.map siOf }

/-! ## reader -/

def mapOpt {α β} (f : α → Option β) : List α → Option (List β)
  | [] => some []
  | a :: as =>
    match f a with
    | none => none
    | some b =>
      match mapOpt f as with
      | none => none
      | some bs => some (b :: bs)

/-- `Text::set_attributes` under the shared-string reader (`trim_text(false)`) -/
def readTX (t : TX) : Option Text := readText false t.raw

/-- the optional `<t>` child of an `<si>` -/
def readOptTX : Option TX → Option (Option Text)
  | none => some none
  | some tx => (readTX tx).map some

/-- `TextElement::set_attributes` -/
def readRun (r : RunX) : Option Run := (readTX r.t).map (fun s => { text := s, font := r.font })

/-- `SharedStringItem::set_attributes` -/
def readSi (x : SiX) : Option Item :=
  (readOptTX x.t).bind fun text =>
  (mapOpt readRun x.runs).bind fun runs =>
  some { text := text, rich := if runs = [] then none else some runs }

def stripPlus : Text → Text
  | '+' :: r => r
  | s => s

/-- `str::parse::<usize>()`: optional `+`, at least one ASCII digit, below 2⁶⁴ -/
def parseUsize (s : Text) : Option Nat :=
  let d := stripPlus s
  if d = [] then none
  else if d.all isDigit then (if parseDec d < 18446744073709551616 then some (parseDec d) else none)
  else none

section
variable (F : NumFmt)

/-- `CellValue::set_shared_string_item`: called while a cell is read; the value is the cached result of
    the formula read just before, which stays -/
def setSharedStringItem (it : Item) (raw : RawValue F.Num) (formula : Option Text) : RawValue F.Num × Option Text :=
  let p : RawValue F.Num × Option Text := match it.text with
    | some s => (.str s, formula)
    | none => (raw, formula)
  match it.rich with
  | some r => (.rich r, formula)
  | none => p

/-- the `End(v)` arm of `Cell::set_attributes` -/
def applyV (sst : Table) (t : Text) (sv : Text) (raw : RawValue F.Num) (formula : Option Text) :
    Option (RawValue F.Num × Option Text) :=
  if t = tSTR then some (.str sv, formula)
  else if t = tS then
    (parseUsize sv).bind fun i => (sst[i]?).bind fun it => some (setSharedStringItem F it raw formula)
  else if t = tB then some (.bool (sv = ['1'] ∨ sv = ['t', 'r', 'u', 'e']), formula)
  else if t = tE ∨ t = [] ∨ t = tN then some (guess F sv, formula)
  else some (raw, formula)

/-- `<f>`: `CellFormula::set_attributes`, text read untrimmed (fix 4) -/
def readF : Option Text → Option (Option Text)
  | none => some none
  | some raw => (readText false raw).map some

/-- `<v>`: trimmed unless `t="str"` (fix 3); an empty-element `<v/>` produces no `End` event -/
def readV (sst : Table) (t : Text) (v : VNode) (formula : Option Text) : Option (RawValue F.Num × Option Text) :=
  match v with
  | .text raw => (readText (decide (t ≠ tSTR)) raw).bind fun sv => applyV F sst t sv .empty formula
  | _ => some (.empty, formula)

/-- the reader's string variable after `<v>` (shared with `<is><t>`) -/
def svAfterV (t : Text) (v : VNode) : Text :=
  match v with
  | .text raw => (match readText (decide (t ≠ tSTR)) raw with | some sv => sv | none => [])
  | _ => []

/-- `<is><t>`: read as a string item (`SharedStringItem::set_attributes` under the worksheet reader:
    trimmed unless `xml:space="preserve"`); always text when `t="inlineStr"`, parsed and dropped otherwise -/
def readIs (t : Text) (is : Option TX) (_prev : Text) (raw : RawValue F.Num) : Option (RawValue F.Num) :=
  match is with
  | none => some raw
  | some tx => (readText (!tx.preserve) tx.raw).bind fun sv => some (if t = tINLINE then .str sv else raw)

/-- `Cell::set_attributes` on one `<c>` (children in schema order `f`, `v`, `is`); a `<c …/>`
    (`f`, `v`, `is` all absent) leaves the value empty, as the `empty_flag` early return does -/
def readCell (sst : Table) (x : CellX) : Option (Cell F.Num) :=
  match indexFromCoordinate x.ref with
  | (some col, some row, some _, some _) =>
    (readF x.f).bind fun formula =>
    (readV F sst x.t x.v formula).bind fun p =>
    (readIs F x.t x.is (svAfterV x.t x.v) p.1).bind fun raw =>
    some { col := col, row := row, raw := raw, formula := p.2, styled := x.styled }
  | _ => none

/-- `reader/xlsx.rs::read_reader(.., true)` (cell side): the shared-string part first, then every sheet -/
def readBook (b : BookX) : Option (List (List (Cell F.Num))) :=
  (mapOpt readSi b.sst).bind fun sst => mapOpt (mapOpt (readCell F sst)) b.sheets

/-- which cells a save keeps, and with which value: `Cell::write_to` resolves a lazy value, then returns early
    for blank unstyled cells -/
def normalize (sheets : List (List (Cell F.Num))) : List (List (Cell F.Num)) :=
  sheets.map (fun s => (s.filter (fun c => !blankUnstyled F c)).map (Cell.resolved F))

end

end Umya.CellXml
