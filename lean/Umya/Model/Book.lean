/-
  Model of structural edits at worksheet and workbook level including the range-shaped
  annotations: merged ranges, comments, conditional-formatting ranges, auto-filter
  (`Worksheet::adjustment_insert/remove_coordinate`, `Range`, `SequenceOfReferences`,
  `Spreadsheet::adjustment_*_with_sheet`), on top of the cell-store model.
-/
import Umya.Model.Sheet
namespace Umya.Book
open Umya.Coord (Res Range Ref)
open Umya.Sheet

/-! ## `Range` (structs/range.rs) under the shift kernels -/

def refIns (r : Option Ref) (root off : Nat) : Option Ref := r.map (fun x => { x with num := adjIns x.num root off })

/-- `Range::adjustment_insert_coordinate` -/
def rangeInsert (ρ : Range) (rc oc rr or_ : Nat) : Range :=
  { startCol := refIns ρ.startCol rc oc, startRow := refIns ρ.startRow rr or_,
    endCol := refIns ρ.endCol rc oc, endRow := refIns ρ.endRow rr or_ }

/-- start corner: clamped to the band's first line when inside the band -/
def refRemStart (r : Option Ref) (root off : Nat) : Res (Option Ref) :=
  match r with
  | none => .ok none
  | some x =>
    if isRem x.num root off then .ok (some { x with num := root })
    else match adjRem x.num root off with
      | .ok n => .ok (some { x with num := n })
      | .panic => .panic

/-- end corner: clamped to the line before the band when inside the band -/
def refRemEnd (r : Option Ref) (root off : Nat) : Res (Option Ref) :=
  match r with
  | none => .ok none
  | some x =>
    if isRem x.num root off then .ok (some { x with num := root - 1 })
    else match adjRem x.num root off with
      | .ok n => .ok (some { x with num := n })
      | .panic => .panic

/-- `Range::adjustment_remove_coordinate` (after the clamp fix) -/
def rangeRemove (ρ : Range) (rc oc rr or_ : Nat) : Res Range :=
  match refRemStart ρ.startCol rc oc, refRemStart ρ.startRow rr or_, refRemEnd ρ.endCol rc oc, refRemEnd ρ.endRow rr or_ with
  | .ok a, .ok b, .ok c, .ok d => .ok { startCol := a, startRow := b, endCol := c, endRow := d }
  | _, _, _, _ => .panic

def axisInside (s e : Option Ref) (root off : Nat) : Bool :=
  match s, e with
  | some s, some e => isRem s.num root off && isRem e.num root off
  | some s, none => isRem s.num root off
  | _, _ => false

/-- `Range::is_remove_coordinate` (after the fix): entirely inside the removed band on an axis -/
def rangeIsRemove (ρ : Range) (rc oc rr or_ : Nat) : Bool :=
  axisInside ρ.startCol ρ.endCol rc oc || axisInside ρ.startRow ρ.endRow rr or_

/-! ## annotations of one sheet -/

structure Comment where
  col : Nat
  row : Nat
  id : Nat
  deriving Repr, DecidableEq

structure CondFmt where
  ranges : List Range
  id : Nat
  deriving Repr, DecidableEq

structure WSheet where
  grid : Sheet := {}
  merges : List Range := []
  comments : List Comment := []
  cfs : List CondFmt := []
  filter : Option Range := none
  deriving Repr, DecidableEq

/-- `Worksheet::adjustment_insert_coordinate` -/
def wsInsert (w : WSheet) (rc oc rr or_ : Nat) : WSheet :=
  let grid := insertAdj w.grid rc oc rr or_
  if oc = 0 ∧ or_ = 0 then { w with grid := grid } else
  { grid := grid,
    merges := w.merges.map (rangeInsert · rc oc rr or_),
    comments := w.comments.map (fun c => { c with col := adjIns c.col rc oc, row := adjIns c.row rr or_ }),
    cfs := w.cfs.map (fun f => { f with ranges := f.ranges.map (rangeInsert · rc oc rr or_) }),
    filter := w.filter.map (rangeInsert · rc oc rr or_) }

/-- `SequenceOfReferences::adjustment_remove_coordinate` (after the fix) -/
def seqRemove (l : List Range) (rc oc rr or_ : Nat) : Res (List Range) :=
  mapRes (rangeRemove · rc oc rr or_) (l.filter (fun ρ => !rangeIsRemove ρ rc oc rr or_))

/-- `SequenceOfReferences::is_remove_coordinate` (after the fix) -/
def seqIsRemove (l : List Range) (rc oc rr or_ : Nat) : Bool :=
  !l.isEmpty && l.all (rangeIsRemove · rc oc rr or_)

/-- `Worksheet::adjustment_remove_coordinate` -/
def wsRemove (w : WSheet) (rc oc rr or_ : Nat) : Res WSheet :=
  match removeAdj w.grid rc oc rr or_ with
  | .panic => .panic
  | .ok grid =>
    if oc = 0 ∧ or_ = 0 then .ok { w with grid := grid } else
    let commentsKept := w.comments.filter (fun c => !(isRem c.col rc oc || isRem c.row rr or_))
    match mapRes (fun (c : Comment) => (adjRem c.col rc oc).bind fun x => (adjRem c.row rr or_).bind fun y =>
            .ok ({ c with col := x, row := y } : Comment)) commentsKept,
          mapRes (fun (f : CondFmt) => (seqRemove f.ranges rc oc rr or_).bind fun rs => .ok ({ f with ranges := rs } : CondFmt))
            (w.cfs.filter (fun f => !seqIsRemove f.ranges rc oc rr or_)),
          mapRes (rangeRemove · rc oc rr or_) (w.merges.filter (fun ρ => !rangeIsRemove ρ rc oc rr or_)),
          (match w.filter with
           | none => Res.ok none
           | some ρ => if rangeIsRemove ρ rc oc rr or_ then Res.ok none
                       else (rangeRemove ρ rc oc rr or_).bind fun x => Res.ok (some x)) with
    | .ok comments, .ok cfs, .ok merges, .ok filter =>
      .ok { grid := grid, merges := merges, comments := comments, cfs := cfs, filter := filter }
    | _, _, _, _ => .panic

/-! ## workbook -/

structure Book where
  sheets : List WSheet := []
  deriving Repr

def modifyNth {α} (l : List α) (i : Nat) (f : α → α) : List α :=
  match l, i with
  | [], _ => []
  | x :: xs, 0 => f x :: xs
  | x :: xs, i + 1 => x :: modifyNth xs i f

/-- `Spreadsheet::insert_new_row/column(sheet_name, …)` (after the fix: only the named sheet's own
    content moves; formula references on all sheets are C08's subject) -/
def bookInsert (b : Book) (i rc oc rr or_ : Nat) : Book :=
  { sheets := modifyNth b.sheets i (wsInsert · rc oc rr or_) }

def bookRemove (b : Book) (i rc oc rr or_ : Nat) : Res Book :=
  match b.sheets[i]? with
  | none => .ok b
  | some w => match wsRemove w rc oc rr or_ with
    | .ok w' => .ok { sheets := modifyNth b.sheets i (fun _ => w') }
    | .panic => .panic

end Umya.Book
