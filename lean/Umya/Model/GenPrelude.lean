/-
  Combinators the translator (`tools/extract.py`) targets: Rust integer/boolean expressions over
  `u32` evaluated in the `Res` monad (`u32` subtraction underflow = panic; addition overflow is not
  modelled, as everywhere in the sheet model; `&&` / `||` short-circuit).
-/
import Umya.Model.Coord
namespace Umya.Gen
open Umya.Coord (Res)

def rAdd (a b : Res Nat) : Res Nat := a.bind fun x => b.bind fun y => .ok (x + y)
def rSub (a b : Res Nat) : Res Nat := a.bind fun x => b.bind fun y => if y ≤ x then .ok (x - y) else .panic
def rGe (a b : Res Nat) : Res Bool := a.bind fun x => b.bind fun y => .ok (decide (x ≥ y))
def rGt (a b : Res Nat) : Res Bool := a.bind fun x => b.bind fun y => .ok (decide (x > y))
def rLe (a b : Res Nat) : Res Bool := a.bind fun x => b.bind fun y => .ok (decide (x ≤ y))
def rLt (a b : Res Nat) : Res Bool := a.bind fun x => b.bind fun y => .ok (decide (x < y))
def rEq (a b : Res Nat) : Res Bool := a.bind fun x => b.bind fun y => .ok (decide (x = y))
def rNe (a b : Res Nat) : Res Bool := a.bind fun x => b.bind fun y => .ok (decide (x ≠ y))
def rAnd (a b : Res Bool) : Res Bool := a.bind fun x => if x then b else .ok false
def rOr (a b : Res Bool) : Res Bool := a.bind fun x => if x then .ok true else b
def rNot (a : Res Bool) : Res Bool := a.bind fun x => .ok (!x)
def rIte {α} (c : Res Bool) (t e : Res α) : Res α := c.bind fun x => if x then t else e

/-! ## targets of `tools/extract_tables.py`: chains of `str::replace` calls -/

/-- one `.replace(pattern, text)` call -/
inductive Step where
  | str (pat : String) (to : String)          -- pattern is a `&str`: left to right, non-overlapping matches
  | chars (pats : List Char) (to : String)    -- pattern is a `char` or `[char; N]`: every such character
  deriving Repr

/-- the quick-xml function a writer helper applies first -/
inductive Base where
  | escape | partialEscape
  deriving Repr, DecidableEq

structure Pipeline where
  base : Base
  steps : List Step
  deriving Repr

/-- `str::replace(&str, &str)`; `skip` = characters of the current match still to be consumed -/
def replaceGo (pat to : List Char) : Nat → List Char → List Char
  | _, [] => []
  | skip + 1, _ :: r => replaceGo pat to skip r
  | 0, c :: r =>
    if pat ≠ [] ∧ pat.isPrefixOf (c :: r) then to ++ replaceGo pat to (pat.length - 1) r
    else c :: replaceGo pat to 0 r

/-- `str::replace(char | [char; N], &str)` -/
def replaceChars (pats : List Char) (to : List Char) (s : List Char) : List Char :=
  s.flatMap (fun c => if pats.contains c then to else [c])

def Step.apply : Step → List Char → List Char
  | .str pat to, s => replaceGo pat.toList to.toList 0 s
  | .chars pats to, s => replaceChars pats to.toList s

def applySteps (steps : List Step) (s : List Char) : List Char := steps.foldl (fun acc st => st.apply acc) s

/-- the tag-level structure of `writer/driver.rs` as read off the source by `tools/extract_tables.py`: which
    quick-xml event each helper hands to `Writer::write_event`, how attribute values and text reach it, and the
    raw writes -/
structure DriverShape where
  startTagWhenEmpty : String      -- `Event::<X>(elem)` in the `if empty_flag` branch of `write_start_tag`
  startTagOtherwise : String      -- … in the `else` branch
  attrValueIsEscaped : Bool       -- `push_attribute((key.as_bytes(), value.as_bytes()))` with `value` = the escape chain
  endTag : String                 -- `Event::<X>(BytesEnd::new(tag_name.into()))` in `write_end_tag`
  textNodeEvent : String          -- `Event::<X>(BytesText::<ctor>(escaped))` in `write_text_node`
  textNodeCtor : String
  conversionVia : String          -- the function `write_text_node_conversion` hands its escaped text to
  noEscapeIsRawWrite : Bool       -- `write_text_node_no_escape` is `writer.get_mut().write(data.into().as_bytes())`
  newLineVia : String             -- the function `write_new_line` calls
  newLineLiteral : String         -- … with this literal
  deriving Repr, DecidableEq

/-- a writer helper: the quick-xml function given for its base, then the replace chain -/
def Pipeline.run (esc pesc : List Char → List Char) (p : Pipeline) (s : List Char) : List Char :=
  applySteps p.steps (match p.base with | .escape => esc s | .partialEscape => pesc s)

/-! ## targets of `tools/extract_fns.py`: the run-time library of the first-order Rust fragment

  A translated function returns `Option α` when it contains an operation that can panic (`none` = the
  Rust panics); checked operations are bound with `Option.bind`.  `i32`/`i64` values are `Int`,
  `u32`/`usize` values are `Nat` (addition / multiplication overflow not modelled, as above), `&str` /
  `String` are `List Char`, `f64` is an abstract type with the operations of `RFloat`. -/

/-- checked `i32` result (the harness builds the crate with overflow checks) -/
def i32c (x : Int) : Option Int := if -2147483648 ≤ x ∧ x ≤ 2147483647 then some x else none

/-- checked `u32` / `usize` subtraction -/
def usub (a b : Nat) : Option Nat := if b ≤ a then some (a - b) else none

/-- `i32::to_string` -/
def rt_i32_to_string (y : Int) : List Char :=
  if y < 0 then '-' :: Umya.Dec.decDigits y.natAbs else Umya.Dec.decDigits y.toNat

/-- `&s[a..b]` of an ASCII string; out of range = panic -/
def rt_slice (s : List Char) (a b : Nat) : Option (List Char) :=
  if a ≤ b ∧ b ≤ s.length then some ((s.drop a).take (b - a)) else none

/-- `str::parse::<i32>().unwrap()`: optional sign, at least one ASCII digit, range check -/
def rt_parse_i32 (cs : List Char) : Option Int :=
  match cs with
  | '-' :: r => if !r.isEmpty && r.all Umya.Dec.isDigit then i32c (-(Umya.Dec.parseDec r : Int)) else none
  | '+' :: r => if !r.isEmpty && r.all Umya.Dec.isDigit then i32c (Umya.Dec.parseDec r : Int) else none
  | _ => if !cs.isEmpty && cs.all Umya.Dec.isDigit then i32c (Umya.Dec.parseDec cs : Int) else none

/-- `[T; N]` indexing; out of bounds = panic -/
def rt_index {α} (l : List α) (i : Nat) : Option α := l[i]?

/-- the `f64` operations the fragment uses -/
class RFloat (F : Type) where
  ofInt : Int → F
  add : F → F → F
  sub : F → F → F
  mul : F → F → F
  div : F → F → F
  floor : F → F
  round : F → F
  lt : F → F → Bool
  /-- `as i64` -/
  toInt : F → Int

/-- chrono's calendar as far as the fragment needs it: the day number of a civil date; a `NaiveDateTime`
    is its second count, a `Duration` a number of seconds, `+` is integer addition (chrono's range check
    is outside the model) -/
structure Chrono where
  dayNo : Int → Int → Int → Int

def Chrono.midnight (C : Chrono) (y m d : Int) : Int := C.dayNo y m d * 86400

/-- `x as i64` for an `f64`: truncation (`RFloat.toInt`), saturating at the bounds of `i64` -/
def rt_f64_as_i64 {F : Type} [RFloat F] (x : F) : Int :=
  let n := RFloat.toInt x
  if n < -9223372036854775808 then -9223372036854775808
  else if 9223372036854775807 < n then 9223372036854775807 else n

/-- checked `i64` result -/
def i64c (x : Int) : Option Int := if -9223372036854775808 ≤ x ∧ x ≤ 9223372036854775807 then some x else none

/-- chrono `TimeDelta::try_seconds` (whole seconds): `Some` iff `|s| ≤ i64::MAX / 1000` -/
def rt_try_seconds (s : Int) : Option Int := if -9223372036854775 ≤ s ∧ s ≤ 9223372036854775 then some s else none

/-- chrono `TimeDelta::try_days` (`unit` = 86400) / `try_hours` (3600) / `try_minutes` (60) / `try_seconds` (1):
    `try_seconds(n.checked_mul(unit)?)`; the value is the length in seconds -/
def rt_try_units (unit n : Int) : Option Int := (i64c (n * unit)).bind rt_try_seconds

/-- chrono `NaiveDateTime::checked_add_signed` on second counts: `Some` iff the sum lies in
    `NaiveDateTime::MIN ..= MAX` = `-262143-01-01T00:00:00 ..= +262142-12-31T23:59:59` -/
def rt_checked_add_signed (C : Chrono) (t d : Int) : Option Int :=
  if C.midnight (-262143) 1 1 ≤ t + d ∧ t + d ≤ C.midnight 262142 12 31 + 86399 then some (t + d) else none

/-! loops and iterator chains: `for x in seq { body }` is a left fold of the (lambda-lifted) body over the sequence, with the
  outer variables the body assigns as the state; iterators are lists; a step that can panic makes the fold / map `Option`-valued -/

/-- `a..b` -/
def rt_range (a b : Nat) : List Nat := List.range' a (b - a)

/-- a `for` loop whose body can panic -/
def rt_foldlM {σ α} (f : σ → α → Option σ) : σ → List α → Option σ
  | s, [] => some s
  | s, a :: l => (f s a).bind fun s' => rt_foldlM f s' l

/-- `Iterator::map` with a closure that can panic (the first panic wins; what consumes the results is irrelevant to that) -/
def rt_mapM {α β} (f : α → Option β) : List α → Option (List β)
  | [] => some []
  | a :: l => (f a).bind fun b => (rt_mapM f l).map (b :: ·)

def rt_enumerate_from {α} : Nat → List α → List (Nat × α)
  | _, [] => []
  | i, a :: l => (i, a) :: rt_enumerate_from (i + 1) l

/-- `Iterator::enumerate` -/
def rt_enumerate {α} (l : List α) : List (Nat × α) := rt_enumerate_from 0 l

/-- `std::iter::successors(Some(first), step)` over unsigned integers, collected: `step x = none` = the closure panics,
    `some none` = the sequence ends after `x`.  The unfold is bounded by fuel `first + 1` (the measure is the value itself);
    running out of fuel is `none` — a theorem that equates a translated function with a total model shows it does not happen. -/
def rt_successors_fuel (step : Nat → Option (Option Nat)) : Nat → Nat → Option (List Nat)
  | 0, _ => none
  | fuel + 1, x => (step x).bind fun nx =>
    match nx with
    | none => some [x]
    | some y => (rt_successors_fuel step fuel y).map (x :: ·)

def rt_successors (step : Nat → Option (Option Nat)) (first : Option Nat) : Option (List Nat) :=
  match first with
  | none => some []
  | some x => rt_successors_fuel step (x + 1) x

/-! `&mut self` methods are translated by state passing; a `HashMap<K, V>` field is the list of its entries in the iteration
  order of the call at hand (unspecified in Rust: a theorem about a translated method holds for EVERY list, hence for every
  order; loops over a map are only translated when they are a search or a running maximum / minimum) -/

/-- `HashMap::insert`: the value of an existing key is replaced in place, a new key is added (at the end of the list; where
    it would come in the next iteration is unspecified) -/
def rt_map_insert {κ ν} [DecidableEq κ] : List (κ × ν) → κ → ν → List (κ × ν)
  | [], k, v => [(k, v)]
  | (k', v') :: m, k, v => if k' = k then (k, v) :: m else (k', v') :: rt_map_insert m k v

/-- `HashMap::get` -/
def rt_map_get {κ ν} [DecidableEq κ] (m : List (κ × ν)) (k : κ) : Option ν := (m.find? (fun p => decide (p.1 = k))).map (·.2)

/-- `HashMap::contains_key` -/
def rt_map_contains {κ ν} [DecidableEq κ] (m : List (κ × ν)) (k : κ) : Bool := m.any (fun p => decide (p.1 = k))

/-- a `for` loop with `return` in its body: the body yields `(some result, state)` to leave the function, `(none, state')` to
    go on; the value is the first result (if any) and the state reached -/
def rt_foldl_ret {σ α ρ} (f : σ → α → Option ρ × σ) : σ → List α → Option ρ × σ
  | s, [] => (none, s)
  | s, a :: l =>
    match f s a with
    | (some r, s') => (some r, s')
    | (none, s') => rt_foldl_ret f s' l

/-- `Iterator::position` -/
def rt_position {α} (p : α → Bool) : List α → Option Nat
  | [] => none
  | a :: l => if p a then some 0 else (rt_position p l).map (· + 1)

/-- `char::from_u32`: `None` for surrogates and beyond U+10FFFF -/
def rt_char_from_u32 (n : Nat) : Option Char := if n.isValidChar then some (Char.ofNat n) else none

/-- `str::to_uppercase` on ASCII text (documented domain of the coordinate model; other characters are left alone here, whereas
    Unicode case mapping may change them and even the length) -/
def rt_to_uppercase (s : List Char) : List Char := s.map Umya.Coord.upcase

/-- `char::is_whitespace` (Unicode `White_Space`) -/
def rt_is_whitespace (c : Char) : Bool :=
  let n := c.toNat
  (9 ≤ n && n ≤ 13) || n == 0x20 || n == 0x85 || n == 0xA0 || n == 0x1680 ||
  (0x2000 ≤ n && n ≤ 0x200A) || n == 0x2028 || n == 0x2029 || n == 0x202F || n == 0x205F || n == 0x3000

/-- `str::trim` -/
def rt_trim (s : List Char) : List Char :=
  (((s.dropWhile rt_is_whitespace).reverse).dropWhile rt_is_whitespace).reverse

/-- `str::repeat` -/
def rt_repeat (s : List Char) (n : Nat) : List Char := (List.replicate n s).flatten

/-- `[String]::join(sep)` -/
def rt_join (sep : List Char) : List (List Char) → List Char
  | [] => []
  | [x] => x
  | x :: y :: r => x ++ sep ++ rt_join sep (y :: r)

/-- `str::replace(&str, &str)` -/
def rt_replace_str (s pat to : List Char) : List Char := replaceGo pat to 0 s

/-- `str::replace(char, &str)` -/
def rt_replace_char (s : List Char) (c : Char) (to : List Char) : List Char := replaceChars [c] to s

/-! byte buffers (`Vec<u8>` / `&[u8]` = `List UInt8`), `while` loops, in-place updates and setter objects: targets of the translation of
  `src/helper/crypt.rs` -/

/-- `&l[a..b]` / `l[a..b].to_vec()` of a slice; out of range = panic -/
def rt_bslice {α} (l : List α) (a b : Nat) : Option (List α) :=
  if a ≤ b ∧ b ≤ l.length then some ((l.drop a).take (b - a)) else none

/-- `l[i] = v` / `std::mem::replace(&mut l[i], v)`; out of bounds = panic -/
def rt_list_set {α} (l : List α) (i : Nat) (v : α) : Option (List α) :=
  if i < l.length then some (l.set i v) else none

/-- unsigned `a / b`, `a % b` with a divisor that is not a literal: by zero = panic -/
def rt_udiv (a b : Nat) : Option Nat := if b = 0 then none else some (a / b)
def rt_umod (a b : Nat) : Option Nat := if b = 0 then none else some (a % b)

/-- `u16::to_le_bytes` -/
def rt_u16_le_bytes (u : Nat) : List UInt8 := [UInt8.ofNat (u % 256), UInt8.ofNat (u / 256 % 256)]

/-- `u32::to_le_bytes` -/
def rt_u32_le_bytes (n : Nat) : List UInt8 :=
  [UInt8.ofNat (n % 256), UInt8.ofNat (n / 256 % 256), UInt8.ofNat (n / 65536 % 256), UInt8.ofNat (n / 16777216 % 256)]

/-- byteorder `LittleEndian::write_u32(buf, v)`: the first four bytes are overwritten; a shorter buffer = panic -/
def rt_write_u32_le (buf : List UInt8) (v : Nat) : Option (List UInt8) :=
  if 4 ≤ buf.length then some (rt_u32_le_bytes v ++ buf.drop 4) else none

/-- byteorder `LittleEndian::read_u32(buf)`; a shorter buffer = panic -/
def rt_read_u32_le : List UInt8 → Option Nat
  | a :: b :: c :: d :: _ => some (a.toNat + 256 * b.toNat + 65536 * c.toNat + 16777216 * d.toNat)
  | _ => none

/-- `str::encode_utf16`: the UTF-16 code units of the text -/
def rt_encode_utf16 (s : List Char) : List Nat :=
  s.flatMap fun c => if c.toNat < 65536 then [c.toNat] else [55296 + (c.toNat - 65536) / 1024, 56320 + (c.toNat - 65536) % 1024]

/-- `str::len`: the length of the UTF-8 encoding -/
def rt_utf8_len (s : List Char) : Nat :=
  (s.map fun c => if c.toNat < 128 then 1 else if c.toNat < 2048 then 2 else if c.toNat < 65536 then 3 else 4).sum

/-- `while cond { body }` over the state `σ`, bounded by fuel (an upper bound on the number of iterations given in the target description);
    `none` = the body panics or the fuel runs out — a theorem that equates a translated function with a model that returns `some` shows the
    fuel suffices there -/
def rt_whileM {σ} (cond : σ → Bool) (body : σ → Option σ) : Nat → σ → Option σ
  | 0, _ => none
  | fuel + 1, s => if cond s then (body s).bind (rt_whileM cond body fuel) else some s

/-- an object whose setters the fragment calls (`SheetProtection`, `WorkbookProtection`): its `StringValue` and `UInt32Value` fields by
    field name (`none` = no value).  Which field a setter writes is read from the struct's own source file by the translator. -/
structure rt_Obj where
  str : String → Option (List Char)
  u32 : String → Option Nat

/-- `self.<f>.set_value(v)` on a `StringValue` field -/
def rt_Obj.setStr (o : rt_Obj) (f : String) (v : List Char) : rt_Obj := { o with str := fun g => if g = f then some v else o.str g }
/-- `self.<f>.set_value(v)` on a `UInt32Value` field -/
def rt_Obj.setU32 (o : rt_Obj) (f : String) (v : Nat) : rt_Obj := { o with u32 := fun g => if g = f then some v else o.u32 g }
/-- `self.<f>.remove_value()` on a `StringValue` field -/
def rt_Obj.removeStr (o : rt_Obj) (f : String) : rt_Obj := { o with str := fun g => if g = f then none else o.str g }
/-- `self.<f>.remove_value()` on a `UInt32Value` field -/
def rt_Obj.removeU32 (o : rt_Obj) (f : String) : rt_Obj := { o with u32 := fun g => if g = f then none else o.u32 g }

end Umya.Gen
