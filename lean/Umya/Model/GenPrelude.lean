/-
  Combinators the translator (`tools/extract.py`) targets: Rust integer/boolean expressions over
  `u32` evaluated in the `Res` monad (`u32` subtraction underflow = panic; addition overflow is not
  modelled, as everywhere in the sheet model; `&&` / `||` short-circuit).
-/
import Umya.Model.Coord
namespace Umya.Gen
open Umya.Coord (Res)

def rAdd (a b : Res Nat) : Res Nat := a.bind fun x => b.bind fun y => .ok (x + y)
def rSub (a b : Res Nat) : Res Nat := a.bind fun x => b.bind fun y => if y ≤ x then .ok (x - y) else .panic
def rGe (a b : Res Nat) : Res Bool := a.bind fun x => b.bind fun y => .ok (decide (x ≥ y))
def rGt (a b : Res Nat) : Res Bool := a.bind fun x => b.bind fun y => .ok (decide (x > y))
def rLe (a b : Res Nat) : Res Bool := a.bind fun x => b.bind fun y => .ok (decide (x ≤ y))
def rLt (a b : Res Nat) : Res Bool := a.bind fun x => b.bind fun y => .ok (decide (x < y))
def rEq (a b : Res Nat) : Res Bool := a.bind fun x => b.bind fun y => .ok (decide (x = y))
def rNe (a b : Res Nat) : Res Bool := a.bind fun x => b.bind fun y => .ok (decide (x ≠ y))
def rAnd (a b : Res Bool) : Res Bool := a.bind fun x => if x then b else .ok false
def rOr (a b : Res Bool) : Res Bool := a.bind fun x => if x then .ok true else b
def rNot (a : Res Bool) : Res Bool := a.bind fun x => .ok (!x)
def rIte {α} (c : Res Bool) (t e : Res α) : Res α := c.bind fun x => if x then t else e

end Umya.Gen
