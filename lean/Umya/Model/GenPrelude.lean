/-
  Combinators the translator (`tools/extract.py`) targets: Rust integer/boolean expressions over
  `u32` evaluated in the `Res` monad (`u32` subtraction underflow = panic; addition overflow is not
  modelled, as everywhere in the sheet model; `&&` / `||` short-circuit).
-/
import Umya.Model.Coord
namespace Umya.Gen
open Umya.Coord (Res)

def rAdd (a b : Res Nat) : Res Nat := a.bind fun x => b.bind fun y => .ok (x + y)
def rSub (a b : Res Nat) : Res Nat := a.bind fun x => b.bind fun y => if y ≤ x then .ok (x - y) else .panic
def rGe (a b : Res Nat) : Res Bool := a.bind fun x => b.bind fun y => .ok (decide (x ≥ y))
def rGt (a b : Res Nat) : Res Bool := a.bind fun x => b.bind fun y => .ok (decide (x > y))
def rLe (a b : Res Nat) : Res Bool := a.bind fun x => b.bind fun y => .ok (decide (x ≤ y))
def rLt (a b : Res Nat) : Res Bool := a.bind fun x => b.bind fun y => .ok (decide (x < y))
def rEq (a b : Res Nat) : Res Bool := a.bind fun x => b.bind fun y => .ok (decide (x = y))
def rNe (a b : Res Nat) : Res Bool := a.bind fun x => b.bind fun y => .ok (decide (x ≠ y))
def rAnd (a b : Res Bool) : Res Bool := a.bind fun x => if x then b else .ok false
def rOr (a b : Res Bool) : Res Bool := a.bind fun x => if x then .ok true else b
def rNot (a : Res Bool) : Res Bool := a.bind fun x => .ok (!x)
def rIte {α} (c : Res Bool) (t e : Res α) : Res α := c.bind fun x => if x then t else e

/-! ## targets of `tools/extract_tables.py`: chains of `str::replace` calls -/

/-- one `.replace(pattern, text)` call -/
inductive Step where
  | str (pat : String) (to : String)          -- pattern is a `&str`: left to right, non-overlapping matches
  | chars (pats : List Char) (to : String)    -- pattern is a `char` or `[char; N]`: every such character
  deriving Repr

/-- the quick-xml function a writer helper applies first -/
inductive Base where
  | escape | partialEscape
  deriving Repr, DecidableEq

structure Pipeline where
  base : Base
  steps : List Step
  deriving Repr

/-- `str::replace(&str, &str)`; `skip` = characters of the current match still to be consumed -/
def replaceGo (pat to : List Char) : Nat → List Char → List Char
  | _, [] => []
  | skip + 1, _ :: r => replaceGo pat to skip r
  | 0, c :: r =>
    if pat ≠ [] ∧ pat.isPrefixOf (c :: r) then to ++ replaceGo pat to (pat.length - 1) r
    else c :: replaceGo pat to 0 r

/-- `str::replace(char | [char; N], &str)` -/
def replaceChars (pats : List Char) (to : List Char) (s : List Char) : List Char :=
  s.flatMap (fun c => if pats.contains c then to else [c])

def Step.apply : Step → List Char → List Char
  | .str pat to, s => replaceGo pat.toList to.toList 0 s
  | .chars pats to, s => replaceChars pats to.toList s

def applySteps (steps : List Step) (s : List Char) : List Char := steps.foldl (fun acc st => st.apply acc) s

/-- the tag-level structure of `writer/driver.rs` as read off the source by `tools/extract_tables.py`: which
    quick-xml event each helper hands to `Writer::write_event`, how attribute values and text reach it, and the
    raw writes -/
structure DriverShape where
  startTagWhenEmpty : String      -- `Event::<X>(elem)` in the `if empty_flag` branch of `write_start_tag`
  startTagOtherwise : String      -- … in the `else` branch
  attrValueIsEscaped : Bool       -- `push_attribute((key.as_bytes(), value.as_bytes()))` with `value` = the escape chain
  endTag : String                 -- `Event::<X>(BytesEnd::new(tag_name.into()))` in `write_end_tag`
  textNodeEvent : String          -- `Event::<X>(BytesText::<ctor>(escaped))` in `write_text_node`
  textNodeCtor : String
  conversionVia : String          -- the function `write_text_node_conversion` hands its escaped text to
  noEscapeIsRawWrite : Bool       -- `write_text_node_no_escape` is `writer.get_mut().write(data.into().as_bytes())`
  newLineVia : String             -- the function `write_new_line` calls
  newLineLiteral : String         -- … with this literal
  deriving Repr, DecidableEq

/-- a writer helper: the quick-xml function given for its base, then the replace chain -/
def Pipeline.run (esc pesc : List Char → List Char) (p : Pipeline) (s : List Char) : List Char :=
  applySteps p.steps (match p.base with | .escape => esc s | .partialEscape => pesc s)

end Umya.Gen
