/-
  Tree-level model of the worksheet writer, `src/writer/xlsx/worksheet.rs`, and of the worksheet
  relationships writer, `src/writer/xlsx/worksheet_rels.rs`: what the two functions write, as the
  element trees an XML 1.0 reader (`Umya/Spec/XmlLex.lean`) hands to the independent decoder
  (`Umya/Spec/Sml.lean::decodeSheet`, `relsOf`).  It continues `Umya/Model/CellNode.lean` (one `<c>`, one
  `<si>`) upwards: `<row>`, `<sheetData>`, `<mergeCells>`, `<hyperlinks>`, the children of `<worksheet>`
  in the order the code writes them, and `<Relationships>`.

  What is modelled, each following the Rust:

  * THE ROW LOOP (`worksheet.rs`, "row loop"): the row table sorted by row number (`RowW` list, in that
    order), the cells in `get_collection_sorted` order; for every row the peek-and-consume loop takes the
    cells whose row number is the row's (`takeRow`); a row without cells is `<row r=… …/>` (no `spans`),
    a row with cells `<row r=… spans="first:last" …>` + `Cell::write_to` for each + `</row>`.  The
    shared-string table is threaded through the cells in that order (`writeRows` = `writeCells` per row).
    A row whose cells all are blank and unstyled has `spans` and no children.
  * `Row::write_to`: attributes `r`, `spans` (unless empty), `ht` (when the height is not 0),
    `customFormat="1"` and `s` (when the stylesheet handed out an index > 0), `hidden="1"`.  NOT modelled:
    `thickBot`, `customHeight`, `x14ac:dyDescent` (the decoder does not read them; the tie compares the
    `<row>` attributes restricted to the modelled ones).  The height is an opaque text (`f64` Display).
  * `<sheetData>`: always written (empty tag when the row table is empty: the same tree).
  * `MergeCells::write_to`: nothing when there is no range, else `<mergeCells count=n>` with one
    `<mergeCell ref=…/>` per range, in collection order.
  * HYPERLINKS: `get_hyperlink_collection_to_hashmap` is a `BTreeMap<String, &Hyperlink>` keyed by the A1
    reference, so both writers walk the links in the byte order of their references (`sortLinks`); the
    sheet part numbers the NON-location links `rId1`, `rId2`, … in the order met (`hlWalk`), the
    relationships part writes one `Relationship Id=rIdK Type=…/hyperlink Target=url TargetMode=External`
    per non-location link with its own counter (`relWalk`).  Both are functions of the SAME link list.
    `location` links carry `location=url`; `tooltip` is written when not empty.  `<hyperlinks>` is written
    iff some cell has a hyperlink.
  * CHILD ORDER of `<worksheet>`: [sheetPr] dimension sheetViews sheetFormatPr [cols] | sheetData |
    [sheetProtection] [autoFilter] | [mergeCells] | phoneticPr | conditionalFormatting* [dataValidations] |
    [hyperlinks] | printOptions pageMargins [pageSetup] headerFooter rowBreaks colBreaks [drawing]
    [legacyDrawing] [tableParts] [oleObjects] [extLst].  The children between the bars that this model does
    not render are an OPAQUE `Frame` (four lists of nodes): the theorems say which properties of them they
    need (`Frame.ok`), the tie evaluates `Frame.ok` on the real parts.
  * The relationships that follow the hyperlink ones (printer settings, drawing, vmlDrawing, tables, ole
    objects, comments) are an opaque list `rest` appended to the hyperlink relationships; the part is written
    iff it has at least one relationship.

  Attribute values are given as the VALUE an XML reader returns: `write_start_tag` escapes with
  `attrEscape`, the reader applies `attrValue`, and `attrValue (attrEscape s) = some s` for every text
  (`C02_attr_channel`; `CellNode.attrOf_eq`).  Namespace prefixes: SpreadsheetML elements are written
  unprefixed, the relationship id attribute as `r:id`.
-/
import Umya.Model.CellNode
namespace Umya.SheetNode
open Umya.Xml Umya.CellXml Umya.CellNode Umya.Dec
open Umya.Spec.Xml (Node Attr)

/-! ## the in-memory sheet, as far as the sheet writer looks at it -/

/-- one entry of the row table (`Row`): number, `ht` text (none when the height is 0), hidden flag and
    the `cellXfs` index the stylesheet hands out for the row's style (0 = the default: nothing written) -/
structure RowW where
  num : Nat
  ht : Option Text := none
  hidden : Bool := false
  xf : Nat := 0
  deriving DecidableEq, Repr, Inhabited

/-- one hyperlink of a cell (`Hyperlink`) with the A1 reference of its cell -/
structure LinkW where
  ref : Text
  url : Text
  location : Bool := false
  tooltip : Text := []
  deriving DecidableEq, Repr, Inhabited

/-- a worksheet as the writer sees it: the row table sorted by number, the cells in
    `get_collection_sorted` order, the merged ranges (their A1 text) and the hyperlinks in `BTreeMap` order -/
structure SheetW (N : Type) where
  rows : List RowW := []
  cells : List (Cell N) := []
  merges : List Text := []
  links : List LinkW := []

/-- the sheets the theorems are about (what the cell store guarantees for every reachable sheet, C10's
    `Coherent`, plus the grid limits): the row table strictly ascending inside 1..1048576, the cells strictly
    ascending by (row, column) with columns inside 1..16384, and every cell's row present in the row table -/
structure SheetW.WF {N : Type} (s : SheetW N) : Prop where
  rowsAsc : s.rows.Pairwise (fun a b => a.num < b.num)
  rowsIn : ∀ r ∈ s.rows, 1 ≤ r.num ∧ r.num ≤ 1048576
  cellsAsc : s.cells.Pairwise (fun a b => a.row < b.row ∨ (a.row = b.row ∧ a.col < b.col))
  cellsIn : ∀ c ∈ s.cells, 1 ≤ c.col ∧ c.col ≤ 16384
  rowKnown : ∀ c ∈ s.cells, c.row ∈ s.rows.map (·.num)

/-- the children of `<worksheet>` this model does not render, and the root's attributes -/
structure Frame where
  attrs : List Attr := []
  pre : List Node := []        -- sheetPr dimension sheetViews sheetFormatPr cols
  mid1 : List Node := []       -- sheetProtection autoFilter
  mid2 : List Node := []       -- conditionalFormatting* dataValidations
  post : List Node := []       -- printOptions pageMargins pageSetup headerFooter rowBreaks colBreaks drawing legacyDrawing oleObjects extLst
  deriving Inhabited

/-! ## names -/

def nRow : Text := ['r', 'o', 'w']
def nSheetData : Text := ['s', 'h', 'e', 'e', 't', 'D', 'a', 't', 'a']
def nMergeCells : Text := ['m', 'e', 'r', 'g', 'e', 'C', 'e', 'l', 'l', 's']
def nMergeCell : Text := ['m', 'e', 'r', 'g', 'e', 'C', 'e', 'l', 'l']
def nHyperlinks : Text := ['h', 'y', 'p', 'e', 'r', 'l', 'i', 'n', 'k', 's']
def nHyperlink : Text := ['h', 'y', 'p', 'e', 'r', 'l', 'i', 'n', 'k']
def nWorksheet : Text := ['w', 'o', 'r', 'k', 's', 'h', 'e', 'e', 't']
def nRelationships : Text := ['R', 'e', 'l', 'a', 't', 'i', 'o', 'n', 's', 'h', 'i', 'p', 's']
def nRelationship : Text := ['R', 'e', 'l', 'a', 't', 'i', 'o', 'n', 's', 'h', 'i', 'p']
def hyperlinkType : Text := ['h', 't', 't', 'p', ':', '/', '/', 's', 'c', 'h', 'e', 'm', 'a', 's', '.', 'o', 'p', 'e', 'n', 'x', 'm', 'l', 'f', 'o', 'r', 'm', 'a', 't', 's', '.', 'o', 'r', 'g', '/', 'o', 'f', 'f', 'i', 'c', 'e', 'D', 'o', 'c', 'u', 'm', 'e', 'n', 't', '/', '2', '0', '0', '6', '/', 'r', 'e', 'l', 'a', 't', 'i', 'o', 'n', 's', 'h', 'i', 'p', 's', '/', 'h', 'y', 'p', 'e', 'r', 'l', 'i', 'n', 'k']
def relNs : Text := ['h', 't', 't', 'p', ':', '/', '/', 's', 'c', 'h', 'e', 'm', 'a', 's', '.', 'o', 'p', 'e', 'n', 'x', 'm', 'l', 'f', 'o', 'r', 'm', 'a', 't', 's', '.', 'o', 'r', 'g', '/', 'p', 'a', 'c', 'k', 'a', 'g', 'e', '/', '2', '0', '0', '6', '/', 'r', 'e', 'l', 'a', 't', 'i', 'o', 'n', 's', 'h', 'i', 'p', 's']

/-- `format!("rId{}", k)` -/
def rIdText (k : Nat) : Text := 'r' :: 'I' :: 'd' :: decDigits k

/-! ## the row loop -/

/-- `while let Some(cell) = cells_iter.peek() { if row != cell.row { break } … next() }` -/
def takeRow {N} (n : Nat) : List (Cell N) → List (Cell N) × List (Cell N)
  | [] => ([], [])
  | c :: cs => if c.row = n then let p := takeRow n cs; (c :: p.1, p.2) else ([], c :: cs)

/-- `for row in &row_dimensions { … }`: every row with the cells handed to `Cell::write_to` under it -/
def rowGroups {N} : List RowW → List (Cell N) → List (RowW × List (Cell N))
  | [], _ => []
  | r :: rs, cells => let p := takeRow r.num cells; (r, p.1) :: rowGroups rs p.2

/-- a written row: the row, the cells of the loop, the `<c>` facts `Cell::write_to` produced -/
structure RowX (N : Type) where
  row : RowW
  cells : List (Cell N)
  xs : List CellX

/-- the table is threaded through the rows in order, through the cells of a row in order -/
def writeRows (F : Umya.Num.NumFmt) (tbl : Table) : List (RowW × List (Cell F.Num)) → Option (Table × List (RowX F.Num))
  | [] => some (tbl, [])
  | (r, cs) :: gs =>
    match writeCells F tbl cs with
    | none => none
    | some (t1, xs) =>
      match writeRows F t1 gs with
      | none => none
      | some (t2, ys) => some (t2, ⟨r, cs, xs⟩ :: ys)

/-! ## trees -/

/-- `format!("{first_num}:{last_num}")` over the cells of the row -/
def spansText {N} (cs : List (Cell N)) : Text :=
  match cs.head?, cs.getLast? with
  | some a, some b => decDigits a.col ++ ':' :: decDigits b.col
  | _, _ => []

/-- `Row::write_to` (the modelled attributes, in the order written) -/
def rowAttrs {N} (r : RowW) (cs : List (Cell N)) : List Attr :=
  ⟨['r'], decDigits r.num⟩ ::
  (if cs.isEmpty then [] else [⟨['s', 'p', 'a', 'n', 's'], spansText cs⟩]) ++
  (match r.ht with | some h => [⟨['h', 't'], h⟩] | none => []) ++
  (if r.xf > 0 then [⟨['c', 'u', 's', 't', 'o', 'm', 'F', 'o', 'r', 'm', 'a', 't'], ['1']⟩] else []) ++
  (if r.hidden then [⟨['h', 'i', 'd', 'd', 'e', 'n'], ['1']⟩] else []) ++
  (if r.xf > 0 then [⟨['s'], decDigits r.xf⟩] else [])

/-- one `<row>`; `xf ref` = the `cellXfs` index of the cell at `ref` -/
def rowNode {N} (xf : Text → Nat) (w : RowX N) : Option Node :=
  (renderCells xf w.xs).map (Node.elem nRow (rowAttrs w.row w.cells))

def sheetDataNode {N} (xf : Text → Nat) (ws : List (RowX N)) : Option Node :=
  (mapOpt (rowNode xf) ws).map (Node.elem nSheetData [])

/-- `MergeCells::write_to` -/
def mergeNodes (merges : List Text) : List Node :=
  if merges.isEmpty then []
  else [Node.elem nMergeCells [⟨['c', 'o', 'u', 'n', 't'], decDigits merges.length⟩]
          (merges.map fun m => Node.elem nMergeCell [⟨['r', 'e', 'f'], m⟩] [])]

/-- order of `BTreeMap<String, _>` keys: bytes of the UTF-8 text; references are ASCII, so code points -/
def textLt : Text → Text → Bool
  | [], [] => false
  | [], _ :: _ => true
  | _ :: _, [] => false
  | a :: as, b :: bs => a.toNat < b.toNat || (a == b && textLt as bs)

def insertLink (l : LinkW) : List LinkW → List LinkW
  | [] => [l]
  | x :: xs => if textLt l.ref x.ref then l :: x :: xs else x :: insertLink l xs

/-- `get_hyperlink_collection_to_hashmap`: the links keyed (hence ordered) by reference -/
def sortLinks (ls : List LinkW) : List LinkW := ls.foldr insertLink []

def tooltipAttr (l : LinkW) : List Attr := if l.tooltip = [] then [] else [⟨['t', 'o', 'o', 'l', 't', 'i', 'p'], l.tooltip⟩]

/-- the `for (coordition, hyperlink) in …` loop of worksheet.rs, `k` = `r_id` -/
def hlWalk : Nat → List LinkW → List Node
  | _, [] => []
  | k, l :: ls =>
    if l.location then
      Node.elem nHyperlink ([⟨['r', 'e', 'f'], l.ref⟩, ⟨['l', 'o', 'c', 'a', 't', 'i', 'o', 'n'], l.url⟩] ++ tooltipAttr l) [] :: hlWalk k ls
    else
      Node.elem nHyperlink ([⟨['r', 'e', 'f'], l.ref⟩, ⟨['r', ':', 'i', 'd'], rIdText k⟩] ++ tooltipAttr l) [] :: hlWalk (k + 1) ls

/-- the value of `r_id` after the hyperlink loop (what page setup, drawing, … continue with) -/
def hlNext : Nat → List LinkW → Nat
  | k, [] => k
  | k, l :: ls => if l.location then hlNext k ls else hlNext (k + 1) ls

def hyperlinkNodes (links : List LinkW) : List Node :=
  if links.isEmpty then [] else [Node.elem nHyperlinks [] (hlWalk 1 links)]

/-- `write_relationship(writer, r_id, HYPERLINK_NS, url, "External")` -/
def relNode (k : Nat) (url : Text) : Node :=
  Node.elem nRelationship
    [⟨['I', 'd'], rIdText k⟩, ⟨['T', 'y', 'p', 'e'], hyperlinkType⟩, ⟨['T', 'a', 'r', 'g', 'e', 't'], url⟩, ⟨['T', 'a', 'r', 'g', 'e', 't', 'M', 'o', 'd', 'e'], ['E', 'x', 't', 'e', 'r', 'n', 'a', 'l']⟩] []

/-- the hyperlink loop of worksheet_rels.rs, `k` = its own `r_id` -/
def relWalk : Nat → List LinkW → List Node
  | _, [] => []
  | k, l :: ls => if l.location then relWalk k ls else relNode k l.url :: relWalk (k + 1) ls

def phoneticPr : Node := Umya.CellNode.phoneticPr

/-- `<worksheet>`: the children in the order worksheet.rs writes them -/
def worksheetNode (fr : Frame) (sd : Node) (merges : List Text) (links : List LinkW) : Node :=
  Node.elem nWorksheet fr.attrs
    (fr.pre ++ [sd] ++ fr.mid1 ++ mergeNodes merges ++ [phoneticPr] ++ fr.mid2 ++ hyperlinkNodes links ++ fr.post)

/-- the root of `xl/worksheets/_rels/sheetN.xml.rels`, when the part is written: the hyperlink
    relationships first, then the others (`rest`, opaque) -/
def relsRoot (links : List LinkW) (rest : List Node) : Option Node :=
  if relWalk 1 links ++ rest = [] then none
  else some (Node.elem nRelationships [⟨['x', 'm', 'l', 'n', 's'], relNs⟩] (relWalk 1 links ++ rest))

/-- `worksheet::write` for the modelled part: the table after the sheet and the `<worksheet>` tree -/
def renderSheet (F : Umya.Num.NumFmt) (xf : Text → Nat) (fr : Frame) (tbl : Table) (s : SheetW F.Num) : Option (Table × Node) :=
  match writeRows F tbl (rowGroups s.rows s.cells) with
  | none => none
  | some (t1, ws) => (sheetDataNode xf ws).map fun sd => (t1, worksheetNode fr sd s.merges s.links)

/-! ## the opaque children: what the theorems need from them -/

def nameIdx (k : Node) : Option Nat :=
  Umya.Spec.Sml.indexIn Umya.Spec.Sml.worksheetOrder (Umya.Spec.Sml.str (Umya.Spec.Xml.localName k.name))

def idxOf (k : Node) : Nat := (nameIdx k).getD 0

/-- an opaque child: an element (no character data between the children of `<worksheet>`) whose local
    name is one of CT_Worksheet's, at schema position `lo..hi` -/
def opaqueOk (lo hi : Nat) (k : Node) : Bool :=
  k.isElem && (match nameIdx k with | some i => lo ≤ i && i ≤ hi | none => false)

/-- in schema order -/
def sortedIdx : List Node → Bool
  | [] => true
  | a :: r => r.all (fun b => idxOf a ≤ idxOf b) && sortedIdx r

def Frame.kids (fr : Frame) : List Node := fr.pre ++ fr.mid1 ++ fr.mid2 ++ fr.post

/-- the frame the theorems cover: `pre` within sheetPr … cols (schema positions 0–4), `mid1` within
    sheetCalcPr … customSheetViews (6–13), `mid2` within conditionalFormatting … dataValidations (16–17),
    `post` within printOptions … webPublishItems and extLst (19–36, 38: everything but `tableParts`), each
    in schema order -/
def Frame.ok (fr : Frame) : Bool :=
  fr.pre.all (opaqueOk 0 4) && sortedIdx fr.pre &&
  fr.mid1.all (opaqueOk 6 13) && sortedIdx fr.mid1 &&
  fr.mid2.all (opaqueOk 16 17) && sortedIdx fr.mid2 &&
  fr.post.all (fun k => opaqueOk 19 36 k || opaqueOk 38 38 k) && sortedIdx fr.post

/-- the `<col>` elements of the frame, as the decoder reads them (§18.3.1.13) -/
def colVsOf (cols : List Node) : List Umya.Spec.Sml.ColV :=
  cols.map fun c =>
    { min := ((c.attr? ['m', 'i', 'n']).bind Umya.Spec.Sml.natOf).getD 0, max := ((c.attr? ['m', 'a', 'x']).bind Umya.Spec.Sml.natOf).getD 0,
      width := c.attr? ['w', 'i', 'd', 't', 'h'], hidden := Umya.Spec.Sml.boolAttr c "hidden",
      style := ((c.attr? ['s', 't', 'y', 'l', 'e']).bind Umya.Spec.Sml.natOf).getD 0 : Umya.Spec.Sml.ColV }

def Frame.colNodes (fr : Frame) : List Node :=
  (((fr.pre.filter (fun c => c.isElem && Umya.Spec.Xml.localName c.name = ['c', 'o', 'l', 's'])).head?).map (·.kids "col")).getD []

/-- the opaque `<cols>`: inside the grid, not inverted, styles inside `cellXfs` (what the decoder checks) -/
def Frame.colsOk (nXf : Nat) (fr : Frame) : Bool :=
  (colVsOf fr.colNodes).all (fun c => 1 ≤ c.min ∧ c.min ≤ c.max ∧ c.max ≤ 16384 ∧ c.style < nXf)

def Frame.dxfIds (fr : Frame) : List Nat :=
  (fr.mid2.filter (fun c => c.isElem && Umya.Spec.Xml.localName c.name = ['c', 'o', 'n', 'd', 'i', 't', 'i', 'o', 'n', 'a', 'l', 'F', 'o', 'r', 'm', 'a', 't', 't', 'i', 'n', 'g'])).flatMap
    (fun cf => (cf.kids "cfRule").filterMap (fun r => (r.attr? ['d', 'x', 'f', 'I', 'd']).bind Umya.Spec.Sml.natOf))

/-- the opaque conditional formats: every `dxfId` inside `dxfs` -/
def Frame.dxfOk (nDxf : Nat) (fr : Frame) : Bool := fr.dxfIds.all (· < nDxf)

/-- the relationship ids of a relationships part's children, as the decoder reads them -/
def relIds (rels : List Node) : List String :=
  (rels.filter (fun c => c.isElem && Umya.Spec.Xml.localName c.name = nRelationship)).map
    fun r => Umya.Spec.Sml.str ((r.attr? ['I', 'd']).getD [])

/-- every `r:id` of an opaque child (`drawing`, `legacyDrawing`, `pageSetup`, …) is the `Id` of a relationship -/
def Frame.ridsOk (ids : List String) (fr : Frame) : Bool :=
  fr.kids.all fun k => match k.attr? ['r', ':', 'i', 'd'] with
    | none => true
    | some rid => ids.contains (Umya.Spec.Sml.str rid)

/-! ## what the sheet means (the view the decoder must arrive at) -/

def linkView (l : LinkW) : Umya.Spec.Sml.Link :=
  { ref := l.ref, external := !l.location, target := l.url, location := none,
    tooltip := if l.tooltip = [] then none else some l.tooltip, display := none }

def rowView (r : RowW) : Umya.Spec.Sml.RowV :=
  { num := r.num, height := r.ht, hidden := r.hidden, style := if r.xf > 0 then some r.xf else none }

/-- the cells an independent reader must find: every cell that is not blank-and-unstyled, in order -/
def cellViews (F : Umya.Num.NumFmt) (xf : Text → Nat) (cs : List (Cell F.Num)) : List Umya.Spec.Sml.CellV :=
  (cs.filter (fun c => !blankUnstyled F c)).map fun c =>
    fileView F (xf (Umya.Coord.coordinateFromIndexWithLock c.col c.row false false)) c

def sheetView (F : Umya.Num.NumFmt) (xf : Text → Nat) (s : SheetW F.Num) : Umya.Spec.Sml.SheetBody :=
  { cells := cellViews F xf s.cells, merges := s.merges, links := s.links.map linkView,
    cols := [], rows := s.rows.map rowView, tables := [], noR := false }   -- `cols`: see `Frame.colNodes`

end Umya.SheetNode
