/-
  C19 — the cell-level decision of `structs/cell.rs: Cell::get_formatted_value`: which cells are text (shown as
  they are) and which are handed to `to_formatted_string`.

  Modelled statement by statement (core Lean only, total):

  * `Raw`               = `structs/cell_raw_value.rs: enum CellRawValue` (String, RichText, Lazy, Numeric, Bool, Error, Empty).
      Payloads as far as `Display` reads them: a RichText by `RichText::get_text()` (the concatenation of its runs),
      a Numeric by the text `f64`'s `Display` prints, an Error by its variant (`structs/error.rs: CellErrorType`);
  * `errDisplay`        = `impl Display for CellErrorType`;
  * `rawDisplay`        = `impl Display for CellRawValue` (Lazy and Empty fall into the `_ => ""` arm);
  * `rawGetNumber`      = `CellRawValue::get_number`;   `rawGetDataType` = `CellRawValue::get_data_type`;
  * `getValue` / `getValueNumber` / `getDataTypeCrate` = the `CellValue` functions of the same names
      (`Cell::get_value` etc. only forward to them);
  * `getFormattedValue` = `Cell::get_formatted_value`; the style's number format is `Option code`
      (`Style::get_number_format()` is `None` for a cell that never got one: then the code is `General`).

  Nothing here can panic (no indexing, no unwrap); `none` = the value / code pair is outside the model of
  `to_formatted_string` (`Umya.NumFmt.toFormattedString`), never a default.
-/
import Umya.Model.NumFmt
namespace Umya.NumFmt

/-- `structs/error.rs: enum CellErrorType`, in declaration order -/
inductive ErrKind
  | div0 | name | na | num | value | ref | null | data
deriving DecidableEq, Repr

/-- `impl Display for CellErrorType` -/
def errDisplay : ErrKind → List Char
  | .div0 => "#DIV/0!".toList
  | .na => "#N/A".toList
  | .name => "#NAME?".toList
  | .null => "#NULL!".toList
  | .num => "#NUM!".toList
  | .ref => "#REF!".toList
  | .value => "#VALUE!".toList
  | .data => "#DATA!".toList

/-- `enum CellRawValue` -/
inductive Raw
  | string (v : List Char)
  | richText (text : List Char)
  | lazy (v : List Char)
  | numeric (text : List Char)
  | bool (b : Bool)
  | error (e : ErrKind)
  | empty
deriving DecidableEq, Repr

/-- `CellValue`: the raw value and whether a formula is present (`formula: Option<Box<CellFormula>>`) -/
structure CellV where
  raw : Raw
  formula : Bool
deriving DecidableEq, Repr

/-- `impl fmt::Display for CellRawValue` -/
def rawDisplay : Raw → List Char
  | .string v => v
  | .richText t => t
  | .numeric n => n
  | .bool b => if b then "TRUE".toList else "FALSE".toList
  | .error e => errDisplay e
  | _ => []

/-- `CellRawValue::get_number` (the number is carried by its Display text) -/
def rawGetNumber : Raw → Option (List Char)
  | .numeric n => some n
  | _ => none

/-- `CellRawValue::get_data_type` -/
def rawGetDataType : Raw → List Char
  | .string _ => ['s']
  | .richText _ => ['s']
  | .numeric _ => ['n']
  | .bool _ => ['b']
  | .error _ => ['e']
  | _ => []

/-- `CellValue::get_value`: `self.raw_value.to_string().into()` -/
def getValue (c : CellV) : List Char := rawDisplay c.raw

/-- `CellValue::get_value_number`: `self.raw_value.get_number()` -/
def getValueNumber (c : CellV) : Option (List Char) := rawGetNumber c.raw

/-- `CellValue::get_data_type_crate` -/
def getDataTypeCrate (c : CellV) : List Char :=
  match c.formula with
  | true =>
    match c.raw with
    | .numeric _ | .bool _ | .error _ | .richText _ => rawGetDataType c.raw
    | _ => ['s', 't', 'r']
  | false => rawGetDataType c.raw

/-- `Cell::get_formatted_value`, statement by statement:
    `let value = self.get_value();`
    `if self.get_value_number().is_none() { return value.to_string(); }`
    `match self.get_style().get_number_format() { Some(f) => to_formatted_string(&value, f.get_format_code()),`
    `                                             None => to_formatted_string(&value, FORMAT_GENERAL) }` -/
def getFormattedValue (c : CellV) (code : Option (List Char)) : Option (List Char) :=
  let value := getValue c
  if (getValueNumber c).isNone then some value
  else
    match code with
    | some f => toFormattedString value f
    | none => toFormattedString value general

/-- the cell reaches `to_formatted_string` (the negation of the early return) -/
def reachesFormatter (c : CellV) : Bool := !(getValueNumber c).isNone

/-- the tag of a raw value, for the comparison with the translated `get_data_type_crate` -/
def rawTagIndex : Raw → Nat
  | .string _ => 0 | .richText _ => 1 | .lazy _ => 2 | .numeric _ => 3 | .bool _ => 4 | .error _ => 5 | .empty => 6

end Umya.NumFmt
