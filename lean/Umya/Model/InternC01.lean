/-
  Find-or-append on a list (`SharedStringTable::set_cell`), generic in the item type.
  `Umya.Sst.intern` (C12, C16) is this function at `List Char`; C01 needs it at shared-string
  *items* (plain text or rich text).  The content hash of the Rust (`AHasher ∘ md5`) is abstracted
  as equality of items (hash injectivity is an assumption recorded in the trusted base).
-/
namespace Umya.InternC01

def indexOf? {α} [DecidableEq α] (x : α) : List α → Option Nat
  | [] => none
  | y :: ys => if y = x then some 0 else (indexOf? x ys).map (· + 1)

/-- find-or-append; returns the table and the index of `x` in it -/
def intern {α} [DecidableEq α] (t : List α) (x : α) : List α × Nat :=
  match indexOf? x t with
  | some i => (t, i)
  | none => (t ++ [x], t.length)

end Umya.InternC01
