/-
  C06 — the conditional-formatting codec at the level of element trees.

  Sources (the worktree after fix_2 / fix_3 / fix_4 of this model's report):
    src/structs/conditional_formatting.rs, conditional_formatting_rule.rs, conditional_format_values.rs,
    conditional_formatting_operator_values.rs, time_period_values.rs, conditional_format_value_object.rs,
    conditional_format_value_object_values.rs, color_scale.rs, data_bar.rs, icon_set.rs, color.rs (write_to /
    set_attributes only), formula.rs, address.rs, differential_formats.rs, int32_value.rs, u_int32_value.rs,
    writer/xlsx/worksheet.rs (blocks in collection order, one shared dxf table), reader/xlsx/worksheet.rs

  Conventions as in `Umya/Model/AnnotDv.lean` (trees carry unescaped text; every field an `Option`; an
  attribute is written iff `has_value()`; `get_attribute` = first attribute of that name).

  Choices, each following the Rust:
  * `<cfRule>` attribute order: type, operator, text, dxfId, priority, percent, bottom, rank, stopIfTrue,
    stdDev, timePeriod, aboveAverage, equalAverage; children in the order colorScale, dataBar, iconSet, formula.
  * `priority` / `stdDev`: `i32::to_string` and `parse::<i32>().unwrap()`; `rank`: `u32`; `dxfId`:
    `parse::<usize>().unwrap()` then `DifferentialFormats::get_style(id)` = `get(id).unwrap()`.  Every `unwrap`
    that can fail is a `Res.panic`.
  * The rule's style: `DifferentialFormats::set_style` builds the differential format of the style (font, fill,
    borders, alignment: the part of a `Style` a dxf carries; `Sty` is that projection, an opaque value with
    decidable equality) and finds-or-appends it in the stylesheet's table BY EQUALITY (fix_4; before: by an md5 of
    field texts concatenated without separators, `internKey`), returning its index.  One table is threaded
    through all rules of all blocks of all sheets in writing order, starting from the table the workbook was
    loaded with.  The reader resolves `dxfId` in the table of the loaded stylesheet.
  * `<formula>`: `Formula::get_address_str` (the text, or `Address::get_address_ptn2`) written with
    `write_text_node`; read (fix_2: untrimmed) with `set_address_str`: a text `is_address` accepts is un-doubled
    and parsed into the address, anything else is kept as text.
  * `<colorScale>` / `<dataBar>` / `<iconSet>` (fix_3: the icon set was written and looked for as `dataBar`): all
    `<cfvo>` children, then all `<color>` children, one element per colour of the collection — also for a colour
    without any attribute (`Color::write_to_color_of_list`, fix 8f9bb711; before, `Color::write_to` wrote nothing
    for it).  A colour's `tint` is an `f64` printed with `to_string` and parsed back with
    `parse::<f64>`; it is carried here as its decimal text (Rust's shortest round-trip printing is in the trusted
    base, as for every float in C01–C06).
  * Readers only look at direct children with the exact (unprefixed) names; anything else is skipped.  The
    `Event::Start`-only arms (`colorScale`, `dataBar`, `iconSet`, `formula` under `cfRule`; `cfvo` / `color` under
    `dataBar` / `iconSet` are `Event::Empty`-only) cannot be told from their empty-element spelling in a tree: the
    model reads both, the code only the spelling this library writes.  Foreign spellings are outside the model.
  * `<conditionalFormatting sqref=…>`: `sqref` always written (empty for no ranges), rules in collection order;
    a block without rules is not written at all (fix bc044095; before, as an empty element the reader skips);
    `sqref=""` reads as no range (fix 13062503).
  Core Lean only.
-/
import Umya.Model.AnnotDv
namespace Umya.AnnotCf
open Umya.Coord Umya.Annot Umya.AnnotDv Umya.Dec
open Umya.Spec.Xml (Node Attr)

abbrev Text := List Char

/-! ## enums -/

inductive CfType where
  | aboveAverage | beginsWith | cellIs | colorScale | containsBlanks | containsErrors | containsText | dataBar
  | duplicateValues | endsWith | expression | iconSet | notContainsBlanks | notContainsErrors | notContainsText
  | timePeriod | top10 | uniqueValues
  deriving Repr, DecidableEq, Inhabited

def CfType.all : List CfType :=
  [.aboveAverage, .beginsWith, .cellIs, .colorScale, .containsBlanks, .containsErrors, .containsText, .dataBar,
   .duplicateValues, .endsWith, .expression, .iconSet, .notContainsBlanks, .notContainsErrors, .notContainsText,
   .timePeriod, .top10, .uniqueValues]

def CfType.toStr : CfType → Text
  | .aboveAverage => "aboveAverage".toList
  | .beginsWith => "beginsWith".toList
  | .cellIs => "cellIs".toList
  | .colorScale => "colorScale".toList
  | .containsBlanks => "containsBlanks".toList
  | .containsErrors => "containsErrors".toList
  | .containsText => "containsText".toList
  | .dataBar => "dataBar".toList
  | .duplicateValues => "duplicateValues".toList
  | .endsWith => "endsWith".toList
  | .expression => "expression".toList
  | .iconSet => "iconSet".toList
  | .notContainsBlanks => "notContainsBlanks".toList
  | .notContainsErrors => "notContainsErrors".toList
  | .notContainsText => "notContainsText".toList
  | .timePeriod => "timePeriod".toList
  | .top10 => "top10".toList
  | .uniqueValues => "uniqueValues".toList

/-- `FromStr`: the first table entry with that text -/
def lookupStr {α} (toStr : α → Text) (all : List α) (t : Text) : Option α := all.find? (fun v => toStr v = t)

def CfType.fromStr (t : Text) : Option CfType := lookupStr CfType.toStr CfType.all t

inductive CfOp where
  | beginsWith | between | containsText | endsWith | equal | greaterThan | greaterThanOrEqual | lessThan
  | lessThanOrEqual | notBetween | notContains | notEqual
  deriving Repr, DecidableEq, Inhabited

def CfOp.all : List CfOp :=
  [.beginsWith, .between, .containsText, .endsWith, .equal, .greaterThan, .greaterThanOrEqual, .lessThan,
   .lessThanOrEqual, .notBetween, .notContains, .notEqual]

def CfOp.toStr : CfOp → Text
  | .beginsWith => "beginsWith".toList
  | .between => "between".toList
  | .containsText => "containsText".toList
  | .endsWith => "endsWith".toList
  | .equal => "equal".toList
  | .greaterThan => "greaterThan".toList
  | .greaterThanOrEqual => "greaterThanOrEqual".toList
  | .lessThan => "lessThan".toList
  | .lessThanOrEqual => "lessThanOrEqual".toList
  | .notBetween => "notBetween".toList
  | .notContains => "notContains".toList
  | .notEqual => "notEqual".toList

def CfOp.fromStr (t : Text) : Option CfOp := lookupStr CfOp.toStr CfOp.all t

inductive TimePeriod where
  | last7Days | lastMonth | lastWeek | nextMonth | nextWeek | thisMonth | thisWeek | today | tomorrow | yesterday
  deriving Repr, DecidableEq, Inhabited

def TimePeriod.all : List TimePeriod :=
  [.last7Days, .lastMonth, .lastWeek, .nextMonth, .nextWeek, .thisMonth, .thisWeek, .today, .tomorrow, .yesterday]

def TimePeriod.toStr : TimePeriod → Text
  | .last7Days => "last7Days".toList
  | .lastMonth => "lastMonth".toList
  | .lastWeek => "lastWeek".toList
  | .nextMonth => "nextMonth".toList
  | .nextWeek => "nextWeek".toList
  | .thisMonth => "thisMonth".toList
  | .thisWeek => "thisWeek".toList
  | .today => "today".toList
  | .tomorrow => "tomorrow".toList
  | .yesterday => "yesterday".toList

def TimePeriod.fromStr (t : Text) : Option TimePeriod := lookupStr TimePeriod.toStr TimePeriod.all t

inductive CfvoType where
  | formula | max | min | number | percent | percentile
  deriving Repr, DecidableEq, Inhabited

def CfvoType.all : List CfvoType := [.formula, .max, .min, .number, .percent, .percentile]

def CfvoType.toStr : CfvoType → Text
  | .formula => "formula".toList
  | .max => "max".toList
  | .min => "min".toList
  | .number => "num".toList
  | .percent => "percent".toList
  | .percentile => "percentile".toList

def CfvoType.fromStr (t : Text) : Option CfvoType := lookupStr CfvoType.toStr CfvoType.all t

/-! ## numbers -/

def stripPlus : Text → Text
  | '+' :: r => r
  | s => s

def parseDigitsBelow (bound : Nat) (d : Text) : Option Nat :=
  if d = [] then none
  else if d.all isDigit then (if parseDec d < bound then some (parseDec d) else none)
  else none

/-- `str::parse::<usize>()` (64-bit): optional `+`, at least one ASCII digit -/
def parseUsize (s : Text) : Option Nat := parseDigitsBelow 18446744073709551616 (stripPlus s)

/-- `str::parse::<u32>()` -/
def parseU32p (s : Text) : Option Nat := parseDigitsBelow 4294967296 (stripPlus s)

/-- `i32::to_string` -/
def i32Str (z : Int) : Text := if z < 0 then '-' :: decDigits z.natAbs else decDigits z.natAbs

/-- `str::parse::<i32>()`: optional sign, at least one ASCII digit, within −2³¹ … 2³¹−1 -/
def parseI32 (s : Text) : Option Int :=
  match s with
  | '-' :: d =>
    match parseDigitsBelow 2147483649 d with
    | some n => some (- Int.ofNat n)
    | none => none
  | _ =>
    match parseDigitsBelow 2147483648 (stripPlus s) with
    | some n => some (Int.ofNat n)
    | none => none

/-- `if let Some(v) = get_attribute(..) { field.set_value_string(v) }` where `set_value_string` unwraps a parse -/
def readNum {α} (parse : Text → Option α) (a : Option Text) : Res (Option α) :=
  match a with
  | none => .ok none
  | some t =>
    match parse t with
    | some v => .ok (some v)
    | none => .panic

/-! ## `<cfvo>`, `<color>`, the three scale-like children -/

structure Cfvo where
  type : Option CfvoType := none
  val : Option Text := none
  deriving Repr, DecidableEq

def cfvoNames : List Text := ["type".toList, "val".toList]

def writeCfvo (x : Cfvo) : Node :=
  .elem "cfvo".toList (render cfvoNames [x.type.map CfvoType.toStr, x.val]) []

def readCfvo (as : List Attr) : Cfvo :=
  { type := readEnum CfvoType.fromStr (getAttr as "type".toList), val := getAttr as "val".toList }

/-- `structs::Color` as far as `write_to` / `set_attributes` go -/
structure Color where
  theme : Option Nat := none
  indexed : Option Nat := none
  argb : Option Text := none
  tint : Option Text := none
  deriving Repr, DecidableEq

def colorNames : List Text := ["theme".toList, "indexed".toList, "rgb".toList, "tint".toList]

/-- `theme`, else `indexed`, else `rgb`; then `tint` -/
def colorValues (c : Color) : List (Option Text) :=
  match c.theme, c.indexed with
  | some t, _ => [some (decDigits t), none, none, c.tint]
  | none, some i => [none, some (decDigits i), none, c.tint]
  | none, none => [none, none, c.argb, c.tint]

/-- `Color::write_to_color_of_list`: the element, with whatever attributes there are (none included) -/
def writeColor (c : Color) : Node := .elem "color".toList (render colorNames (colorValues c)) []

/-- `Color::write_to` (what the scales used before fix 8f9bb711): nothing at all when there is no attribute to write -/
def writeColorOld (c : Color) : List Node :=
  match render colorNames (colorValues c) with
  | [] => []
  | as => [.elem "color".toList as []]

def readColor (as : List Attr) : Res Color :=
  match readNum parseU32p (getAttr as "theme".toList), readNum parseU32p (getAttr as "indexed".toList) with
  | .ok t, .ok i => .ok { theme := t, indexed := i, argb := getAttr as "rgb".toList, tint := getAttr as "tint".toList }
  | _, _ => .panic

structure Scale where
  cfvos : List Cfvo := []
  colors : List Color := []
  deriving Repr, DecidableEq

def writeScale (name : Text) (s : Scale) : Node :=
  .elem name [] (s.cfvos.map writeCfvo ++ s.colors.map writeColor)

/-- before fix 8f9bb711 -/
def writeScaleOld (name : Text) (s : Scale) : Node :=
  .elem name [] (s.cfvos.map writeCfvo ++ s.colors.flatMap writeColorOld)

/-- the event loop of `ColorScale` / `DataBar` / `IconSet::set_attributes` -/
def readScaleKids : List Node → Scale → Res Scale
  | [], s => .ok s
  | .text _ :: r, s => readScaleKids r s
  | .elem n as _ :: r, s =>
    if n = "cfvo".toList then readScaleKids r { s with cfvos := s.cfvos ++ [readCfvo as] }
    else if n = "color".toList then
      match readColor as with
      | .ok c => readScaleKids r { s with colors := s.colors ++ [c] }
      | .panic => .panic
    else readScaleKids r s

/-! ## `<formula>` -/

structure Fml where
  addr : Address := ⟨[], {}⟩
  str : Option Text := none
  deriving Repr, DecidableEq

/-- `Formula::get_address_str` -/
def Fml.text (f : Fml) : Text :=
  match f.str with
  | some t => t
  | none => f.addr.text

/-- `Address::set_address` on the address `a` -/
def setAddress (a : Address) (s : Text) : Res Address :=
  let p := splitAddress s
  match Range.setRange a.range p.2 with
  | .ok ρ => .ok ⟨if p.1 = [] then a.sheet else p.1, ρ⟩
  | .panic => .panic

/-- `Formula::set_address_str` -/
def Fml.setAddressStr (f : Fml) (v : Text) : Res Fml :=
  if isAddress v then
    match setAddress f.addr (undouble v) with
    | .ok a => .ok { f with addr := a }
    | .panic => .panic
  else .ok { addr := ⟨[], {}⟩, str := some v }

def writeFml (f : Fml) : Node := textElem "formula".toList f.text

/-- `Formula::set_attributes`: `set_address_str` for every text event -/
def readFmlKids : List Node → Fml → Res Fml
  | [], f => .ok f
  | .text t :: r, f =>
    match f.setAddressStr t with
    | .ok g => readFmlKids r g
    | .panic => .panic
  | .elem _ _ _ :: r, f => readFmlKids r f

/-! ## `<cfRule>` -/

/-- the part of a `Style` a differential format carries (font, fill, borders, alignment), as an opaque value -/
abbrev Sty := Text

structure Rule where
  type : Option CfType := none
  operator : Option CfOp := none
  text : Option Text := none
  style : Option Sty := none
  priority : Option Int := none
  percent : Option Bool := none
  bottom : Option Bool := none
  rank : Option Nat := none
  stopIfTrue : Option Bool := none
  stdDev : Option Int := none
  timePeriod : Option TimePeriod := none
  aboveAverage : Option Bool := none
  equalAverage : Option Bool := none
  colorScale : Option Scale := none
  dataBar : Option Scale := none
  iconSet : Option Scale := none
  formula : Option Fml := none
  deriving Repr, DecidableEq

def ruleNames : List Text :=
  ["type".toList, "operator".toList, "text".toList, "dxfId".toList, "priority".toList, "percent".toList,
   "bottom".toList, "rank".toList, "stopIfTrue".toList, "stdDev".toList, "timePeriod".toList,
   "aboveAverage".toList, "equalAverage".toList]

/-- find-or-append by equality (`DifferentialFormats::set_style` after fix_4) -/
def internSty : List Sty → Sty → List Sty × Nat
  | [], s => ([s], 0)
  | e :: t, s => if e = s then (e :: t, 0) else let r := internSty t s; (e :: r.1, r.2 + 1)

/-- the table and the `dxfId` after writing a rule's style -/
def dxfOf (tbl : List Sty) : Option Sty → List Sty × Option Nat
  | none => (tbl, none)
  | some s => let r := internSty tbl s; (r.1, some r.2)

def ruleValues (r : Rule) (dxf : Option Nat) : List (Option Text) :=
  [r.type.map CfType.toStr, r.operator.map CfOp.toStr, r.text, dxf.map decDigits, r.priority.map i32Str,
   r.percent.map boolStr, r.bottom.map boolStr, r.rank.map decDigits, r.stopIfTrue.map boolStr,
   r.stdDev.map i32Str, r.timePeriod.map TimePeriod.toStr, r.aboveAverage.map boolStr, r.equalAverage.map boolStr]

def optNode {α} (f : α → Node) : Option α → List Node
  | some a => [f a]
  | none => []

def ruleKids (r : Rule) : List Node :=
  optNode (writeScale "colorScale".toList) r.colorScale ++ optNode (writeScale "dataBar".toList) r.dataBar ++
  optNode (writeScale "iconSet".toList) r.iconSet ++ optNode writeFml r.formula

/-- `ConditionalFormattingRule::write_to` with the dxf table before; the table after, and the element -/
def writeRule (tbl : List Sty) (r : Rule) : List Sty × Node :=
  let d := dxfOf tbl r.style
  (d.1, .elem "cfRule".toList (render ruleNames (ruleValues r d.2)) (ruleKids r))

structure KidsSt where
  colorScale : Option Scale := none
  dataBar : Option Scale := none
  iconSet : Option Scale := none
  formula : Option Fml := none
  deriving Repr, DecidableEq

/-- the event loop over the children of `<cfRule>` -/
def readRuleKids : List Node → KidsSt → Res KidsSt
  | [], st => .ok st
  | .text _ :: r, st => readRuleKids r st
  | .elem n _ kids :: r, st =>
    if n = "colorScale".toList then
      match readScaleKids kids {} with
      | .ok s => readRuleKids r { st with colorScale := some s }
      | .panic => .panic
    else if n = "dataBar".toList then
      match readScaleKids kids {} with
      | .ok s => readRuleKids r { st with dataBar := some s }
      | .panic => .panic
    else if n = "iconSet".toList then
      match readScaleKids kids {} with
      | .ok s => readRuleKids r { st with iconSet := some s }
      | .panic => .panic
    else if n = "formula".toList then
      match readFmlKids kids {} with
      | .ok f => readRuleKids r { st with formula := some f }
      | .panic => .panic
    else readRuleKids r st

/-- `dxfId`: `parse::<usize>().unwrap()`, then `differential_formats.get(id).unwrap()` -/
def readStyle (tbl : List Sty) (a : Option Text) : Res (Option Sty) :=
  match a with
  | none => .ok none
  | some t =>
    match parseUsize t with
    | none => .panic
    | some i =>
      match tbl[i]? with
      | some s => .ok (some s)
      | none => .panic

/-- `ConditionalFormattingRule::set_attributes` on a fresh object, against the loaded dxf table -/
def readRule (tbl : List Sty) (n : Node) : Res Rule :=
  match n with
  | .text _ => .ok {}
  | .elem _ as kids =>
    match readStyle tbl (getAttr as "dxfId".toList), readNum parseI32 (getAttr as "priority".toList),
          readNum parseU32p (getAttr as "rank".toList), readNum parseI32 (getAttr as "stdDev".toList),
          readRuleKids kids {} with
    | .ok sty, .ok pr, .ok rk, .ok sd, .ok k =>
      .ok { type := readEnum CfType.fromStr (getAttr as "type".toList)
            operator := readEnum CfOp.fromStr (getAttr as "operator".toList)
            text := getAttr as "text".toList
            style := sty
            priority := pr
            percent := (getAttr as "percent".toList).map boolOf
            bottom := (getAttr as "bottom".toList).map boolOf
            rank := rk
            stopIfTrue := (getAttr as "stopIfTrue".toList).map boolOf
            stdDev := sd
            timePeriod := readEnum TimePeriod.fromStr (getAttr as "timePeriod".toList)
            aboveAverage := (getAttr as "aboveAverage".toList).map boolOf
            equalAverage := (getAttr as "equalAverage".toList).map boolOf
            colorScale := k.colorScale
            dataBar := k.dataBar
            iconSet := k.iconSet
            formula := k.formula }
    | _, _, _, _, _ => .panic

/-! ## `<conditionalFormatting>` and the collection of a sheet -/

structure Block where
  sqref : List Range := []
  rules : List Rule := []
  deriving Repr, DecidableEq

/-- the rules of one block, threading the dxf table -/
def writeRules : List Sty → List Rule → List Sty × List Node
  | tbl, [] => (tbl, [])
  | tbl, r :: rs =>
    let a := writeRule tbl r
    let b := writeRules a.1 rs
    (b.1, a.2 :: b.2)

/-- the `<conditionalFormatting>` element of a block -/
def blockElem (tbl : List Sty) (b : Block) : Node :=
  .elem "conditionalFormatting".toList [⟨"sqref".toList, sqrefText b.sqref⟩] (writeRules tbl b.rules).2

/-- `ConditionalFormatting::write_to`: nothing for a block without rules (fix bc044095) -/
def writeBlock (tbl : List Sty) (b : Block) : List Sty × List Node :=
  ((writeRules tbl b.rules).1, if b.rules.isEmpty then [] else [blockElem tbl b])

/-- the loop of `writer/xlsx/worksheet.rs` over `get_conditional_formatting_collection()` (and over the sheets:
    the same function on the concatenation of their collections) -/
def writeBlocks : List Sty → List Block → List Sty × List Node
  | tbl, [] => (tbl, [])
  | tbl, b :: bs =>
    let a := writeBlock tbl b
    let r := writeBlocks a.1 bs
    (r.1, a.2 ++ r.2)

/-- the blocks that are written: those with a rule (the `norm` of the round trip) -/
def writtenBlocks (bs : List Block) : List Block := bs.filter fun b => !b.rules.isEmpty

def readRules (tbl : List Sty) : List Node → Res (List Rule)
  | [] => .ok []
  | .text _ :: r => readRules tbl r
  | .elem n as kids :: r =>
    if n = "cfRule".toList then
      match readRule tbl (.elem n as kids) with
      | .panic => .panic
      | .ok x =>
        match readRules tbl r with
        | .ok xs => .ok (x :: xs)
        | .panic => .panic
    else readRules tbl r

/-- `ConditionalFormatting::set_attributes` -/
def readBlock (tbl : List Sty) (n : Node) : Res Block :=
  match n with
  | .text _ => .ok {}
  | .elem _ as kids =>
    match readSqref (getAttr as "sqref".toList), readRules tbl kids with
    | .ok sq, .ok rs => .ok ⟨sq, rs⟩
    | _, _ => .panic

/-- the worksheet reader: one block per `<conditionalFormatting>`, in document order.  The arm sits under
    `Event::Start` only: the empty-element spelling — which is how `write_to` spelled a block without rules before
    fix bc044095 — is skipped (an element without children stands for that spelling here). -/
def readBlocks (tbl : List Sty) : List Node → Res (List Block)
  | [] => .ok []
  | .elem _ _ [] :: r => readBlocks tbl r
  | n :: r =>
    match readBlock tbl n with
    | .panic => .panic
    | .ok b =>
      match readBlocks tbl r with
      | .ok bs => .ok (b :: bs)
      | .panic => .panic

/-! ## the code BEFORE the fixes (kept for the refutations) -/

/-- fix_3: `IconSet::write_to` wrote a `<dataBar>` element (and `set_attributes` waited for `</dataBar>`) -/
def ruleKidsOld (r : Rule) : List Node :=
  optNode (writeScale "colorScale".toList) r.colorScale ++ optNode (writeScale "dataBar".toList) r.dataBar ++
  optNode (writeScale "dataBar".toList) r.iconSet ++ optNode writeFml r.formula

/-- fix_4: the dxf table was searched by `get_hash_code`, an md5 over field texts concatenated without
    separators; `key` stands for that text (md5 itself is taken as injective) -/
def internStyKey {κ} [DecidableEq κ] (key : Sty → κ) : List Sty → Sty → List Sty × Nat
  | [], s => ([s], 0)
  | e :: t, s => if key e = key s then (e :: t, 0) else let r := internStyKey key t s; (e :: r.1, r.2 + 1)

end Umya.AnnotCf
