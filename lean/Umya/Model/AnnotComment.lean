/-
  C06 — comments: text, VML shapes and the join of shapes to comments (by the cell a note shape names),
  at the level of element trees.

  Sources (the worktree as it stands):
    src/writer/xlsx/comment.rs          the `<comments>` part: authors table, `<commentList>`
    src/writer/xlsx/vml_drawing.rs      the `<xml>` VML part: frame, one `v:shape` per comment
    src/reader/xlsx/comment.rs          top-level loop over the comments part
    src/reader/xlsx/vml_drawing.rs      top-level loop over the VML part, `comment_index`
    src/structs/comment.rs              `Comment::set_attributes`, `new_comment`
    src/structs/rich_text.rs, text_element.rs, text.rs
    src/structs/vml/shape.rs, vml/spreadsheet/client_data.rs, anchor.rs, comment_row_target.rs,
    comment_column_target.rs, visible.rs, move_with_cells.rs, resize_with_cells.rs,
    true_false_blank_value.rs, u_int32_value.rs

  LEVEL.  `write…` is the element tree an XML 1.0 reader delivers for what the writers emit; `read…` is
  what the readers make of such a tree.  Attribute values and character data are the DECODED texts; the
  step to the bytes and back is the character channel proved for every text (`C02_text_channel`,
  `C03_text`, restated as `C06_comment_text_channel`).  `<x/>` and `<x></x>` are the same tree.

  ORDER.  Both writers run `for comment in worksheet.get_comments()` over the same `ThinVec<Comment>`:
  insertion order, not sorted, the same in both parts (`writeCommentList`, `shapeElems`).  The VML writer
  sets `x:Row` / `x:Column` of every comment's shape from the comment's own coordinate (fix 26940198,
  `Comment.writtenShape`).  The VML reader (fix b524a98a, `joinGo`) keeps a running `comment_index`, advanced
  for every `v:shape` whose client data has an `x:Column` element, and gives such a shape to the comment on
  the cell its `x:Row` / `x:Column` name: the comment at `comment_index` when that one is on the cell, else the
  first comment on the cell, else (no `x:Row`, or no comment on the cell) the comment at `comment_index`
  (`targetIndex`).  `joinGoPos` is the loop as it was before that fix (position only).

  Choices, each following the Rust:
  * a comment's text is a `RichText` = a list of runs `(text, Option<Font>)`; `set_text_string` makes ONE
    run without properties (`CommentText.plain`); there is no bare `<t>` under `<text>` (the reader
    would not read one: `set_attributes_text` only looks for `<r>`);
  * run properties are OPAQUE: the value stands for the `<rPr>` element `Font::write_to_rpr` emits, kept
    verbatim; that `Font::set_attributes` recovers the font from it is the font codec (C05), not modelled;
  * `Text::write_to`: `xml:space="preserve"` iff the text starts or ends with a `char::is_whitespace`
    character; no text child for the empty text (`write_text_node` of "" produces no event the reader sees);
  * the comments part is read with `trim_text(false)`: `<t>` content comes back untrimmed, the value of a
    `<t>` is the LAST text event inside it, the empty text when there is none;
  * authors: `<author>` resets the value (fix of the first C06 session), text sets it, `</author>` pushes;
    `authorId`: `parse::<usize>().unwrap()`, `authors.get(id).unwrap()`; `ref`: `Coordinate::set_coordinate`
    (all `none`s below are these Rust panics);
  * the VML part is read with `trim_text(true)`: a text event is trimmed of blank / tab / CR / LF at both
    ends and dropped when nothing is left (`lastTrimmed`; done here on the decoded text, which is the same
    thing as long as the file does not spell white space as character references — the writer never does);
  * `x:Row` / `x:Column`: `UInt32Value::set_value_string` = `parse::<u32>().unwrap()`; written with
    `get_value_string` (`0` when the holder has no value: `norm`);
  * `x:Visible` / `x:MoveWithCells` / `x:SizeWithCells`: `TrueFalseBlankValue`; written as an empty element
    when blank, else `True` / `False`; read: `!(eq_ignore_ascii_case("f") || eq_ignore_ascii_case("false"))`;
  * `x:Anchor`: `"{}, {}, {}, {}, {}, {}, {}, {}"`; read: `split(',')`, `trim().parse::<u32>().unwrap_or(0)`,
    missing pieces are 0;
  * `Shape::set_attributes` / `ClientData::set_attributes`: the LAST child of a kind wins; a shape without
    `x:ClientData` keeps the default client data;
  * element names are compared as qualified names, byte for byte (`e.name().into_inner() == b"v:shape"`).

  NOT modelled (projected away by the driver before trees are compared): the other attributes of
  `v:shape` (`type`, `fillcolor`, `o:insetmode`, …), its children `v:fill`, `v:shadow`, `v:path`,
  `v:textbox`, `v:stroke`, `v:imagedata`, the client-data children `x:AutoFill`, `x:CF`, `x:AutoPict`,
  `ObjectType` other than `Note`, OLE-object shapes (written BEFORE the comment shapes, without `x:Column`).
  The tree-level readers look at direct children; an `<r/>` or `<x:Column/>` EMPTY element is skipped by the
  code but read like `<r></r>` here (the library never writes them).
  Core Lean only.
-/
import Umya.Spec.XmlLex
import Umya.Model.Xml
import Umya.Model.Annot
import Umya.Model.AnnotCodec
import Umya.Model.AnnotView
namespace Umya.AnnotComment
open Umya.Spec.Xml (Node Attr)
open Umya.AnnotCodec (getAttr u32Attr splitCh joinCh)
open Umya.AnnotView (Coord)
open Umya.Dec

abbrev Text := List Char

/-! ## decidable equality of trees (`Node` is a nested inductive: no deriving handler) -/

mutual
def nodeDecEq : (a b : Node) → Decidable (a = b)
  | .text s, .text t =>
    if h : s = t then isTrue (by rw [h]) else isFalse (by intro e; cases e; exact h rfl)
  | .elem n as ks, .elem m bs ls =>
    if h1 : n = m then
      if h2 : as = bs then
        match nodesDecEq ks ls with
        | isTrue h3 => isTrue (by rw [h1, h2, h3])
        | isFalse h3 => isFalse (by intro e; cases e; exact h3 rfl)
      else isFalse (by intro e; cases e; exact h2 rfl)
    else isFalse (by intro e; cases e; exact h1 rfl)
  | .text _, .elem _ _ _ => isFalse (by intro e; cases e)
  | .elem _ _ _, .text _ => isFalse (by intro e; cases e)
def nodesDecEq : (a b : List Node) → Decidable (a = b)
  | [], [] => isTrue rfl
  | [], _ :: _ => isFalse (by intro e; cases e)
  | _ :: _, [] => isFalse (by intro e; cases e)
  | a :: r, b :: s =>
    match nodeDecEq a b with
    | isFalse h => isFalse (by intro e; cases e; exact h rfl)
    | isTrue h =>
      match nodesDecEq r s with
      | isTrue h' => isTrue (by rw [h, h'])
      | isFalse h' => isFalse (by intro e; cases e; exact h' rfl)
end

instance : DecidableEq Node := nodeDecEq

/-! ## names -/

def nT : Text := ['t']
def nR : Text := ['r']
def nRPr : Text := "rPr".toList
def nText : Text := "text".toList
def nAuthor : Text := "author".toList
def nAuthors : Text := "authors".toList
def nComment : Text := "comment".toList
def nCommentList : Text := "commentList".toList
def nComments : Text := "comments".toList
def nShape : Text := "v:shape".toList
def nClientData : Text := "x:ClientData".toList
def nMove : Text := "x:MoveWithCells".toList
def nSize : Text := "x:SizeWithCells".toList
def nAnchor : Text := "x:Anchor".toList
def nRow : Text := "x:Row".toList
def nColumn : Text := "x:Column".toList
def nVisible : Text := "x:Visible".toList

/-! ## comment text -/

/-- `TextElement`: the text and the optional run properties (opaque: the `<rPr>` element) -/
structure Run where
  text : Text := []
  rpr : Option Node := none
  deriving DecidableEq, Repr

/-- `RichText` -/
abbrev CommentText := List Run

/-- `RichText::set_text` / `Comment::set_text_string` -/
def CommentText.plain (t : Text) : CommentText := [{ text := t }]

/-- `RichText::get_text`: the concatenation of the run texts -/
def CommentText.flat (t : CommentText) : Text := t.flatMap (·.text)

/-- character data as a child list: nothing for the empty text -/
def txt (t : Text) : List Node := if t = [] then [] else [.text t]

def preserveAttrs (s : Text) : List Attr :=
  if Umya.Xml.needsPreserve s then [⟨"xml:space".toList, "preserve".toList⟩] else []

/-- `Text::write_to` -/
def writeT (s : Text) : Node := .elem nT (preserveAttrs s) (txt s)

def optNode : Option Node → List Node
  | some p => [p]
  | none => []

/-- `TextElement::write_to`: `<r>`, the run properties when there are any, `<t>` -/
def writeRun (r : Run) : Node := .elem nR [] (optNode r.rpr ++ [writeT r.text])

/-- `RichText::write_to_text` -/
def writeText (t : CommentText) : Node := .elem nText [] (t.map writeRun)

/-- the value a text-collecting loop ends with: the last text event among the children, else `acc` -/
def lastText : List Node → Text → Text
  | [], acc => acc
  | .text s :: r, _ => lastText r s
  | .elem _ _ _ :: r, acc => lastText r acc

/-- `TextElement::set_attributes`: the event loop over the children of `<r>` -/
def readRunKids : List Node → Run → Run
  | [], r => r
  | .text _ :: k, r => readRunKids k r
  | .elem n as ks :: k, r =>
    if n = nT then readRunKids k { r with text := lastText ks [] }
    else if n = nRPr then readRunKids k { r with rpr := some (.elem n as ks) }
    else readRunKids k r

/-- `RichText::set_attributes_text`: one run per `<r>`, pushed onto what is there -/
def readTextKids : List Node → CommentText → CommentText
  | [], acc => acc
  | .text _ :: k, acc => readTextKids k acc
  | .elem n _ ks :: k, acc =>
    if n = nR then readTextKids k (acc ++ [readRunKids ks {}]) else readTextKids k acc

def readText (n : Node) : CommentText :=
  match n with
  | .elem _ _ ks => readTextKids ks []
  | .text _ => []

/-! ## VML shapes -/

/-- `vml::spreadsheet::Anchor`: the eight `u32`s as the struct holds them (zero-based lines) -/
structure Anchor where
  leftCol : Nat := 0
  leftOff : Nat := 0
  topRow : Nat := 0
  topOff : Nat := 0
  rightCol : Nat := 0
  rightOff : Nat := 0
  bottomRow : Nat := 0
  bottomOff : Nat := 0
  deriving DecidableEq, Repr

/-- the modelled slice of `vml::Shape` + `ClientData`.  Outer `Option` = the `Option<…>` field of the
    struct, inner `Option` = the `TrueFalseBlankValue` / `UInt32Value` holder -/
structure Shape where
  style : Option Text := none
  moveWithCells : Option (Option Bool) := none
  sizeWithCells : Option (Option Bool) := none
  anchor : Anchor := {}
  row : Option (Option Nat) := none
  col : Option (Option Nat) := none
  visible : Option (Option Bool) := none
  deriving DecidableEq, Repr

/-- `Comment` -/
structure Comment where
  cell : Coord := {}
  author : Text := []
  text : CommentText := []
  shape : Shape := {}
  deriving DecidableEq, Repr

/-! ## the comments part: writer -/

def mainNs : Text := "http://schemas.openxmlformats.org/spreadsheetml/2006/main".toList

/-- `get_author_id`: the position in the table, the empty text when the author is not in it -/
def authorIdText (tbl : List Text) (a : Text) : Text :=
  match Umya.Annot.position a tbl with
  | some i => decDigits i
  | none => []

/-- one `<comment ref authorId><text>…</text></comment>`; `none` = `Coordinate::to_string` asserts -/
def writeComment (tbl : List Text) (c : Comment) : Option Node :=
  c.cell.text?.map fun ref =>
    .elem nComment [⟨"ref".toList, ref⟩, ⟨"authorId".toList, authorIdText tbl c.author⟩] [writeText c.text]

/-- `for comment in worksheet.get_comments()`: list order -/
def writeCommentList (tbl : List Text) : List Comment → Option (List Node)
  | [] => some []
  | c :: r =>
    match writeComment tbl c, writeCommentList tbl r with
    | some n, some ns => some (n :: ns)
    | _, _ => none

def authorElem (a : Text) : Node := .elem nAuthor [] (txt a)

/-- `writer::xlsx::comment::write`; `tbl` is the authors table in the order the hash set yields it -/
def writeComments (tbl : List Text) (cs : List Comment) : Option Node :=
  (writeCommentList tbl cs).map fun l =>
    .elem nComments [⟨"xmlns".toList, mainNs⟩] [.elem nAuthors [] (tbl.map authorElem), .elem nCommentList [] l]

/-! ## the comments part: reader -/

/-- the optional sign `str::parse` accepts for unsigned integers -/
def stripPlus (t : Text) : Text :=
  match t with
  | '+' :: r => r
  | _ => t

/-- `str::parse::<usize>()` on a 64-bit target -/
def usizeAttr (t : Text) : Option Nat :=
  if (stripPlus t).isEmpty then none
  else if (stripPlus t).all isDigit then
    (if parseDec (stripPlus t) < 18446744073709551616 then some (parseDec (stripPlus t)) else none)
  else none

/-- `Comment::set_attributes`, the loop over the children: every `<text>` adds its runs -/
def readCommentKids : List Node → CommentText → CommentText
  | [], acc => acc
  | .text _ :: k, acc => readCommentKids k acc
  | .elem n _ ks :: k, acc =>
    if n = nText then readCommentKids k (readTextKids ks acc) else readCommentKids k acc

/-- `Comment::set_attributes` on `Comment::default()`; `none` = one of the `unwrap`s panics -/
def readComment (authors : List Text) (as : List Attr) (ks : List Node) : Option Comment :=
  match getAttr as "ref".toList, getAttr as "authorId".toList with
  | some ref, some idt =>
    match Coord.parse? ref, usizeAttr idt with
    | some cell, some i =>
      match authors[i]? with
      | some a => some { cell := cell, author := a, text := readCommentKids ks [], shape := {} }
      | none => none
    | _, _ => none
  | _, _ => none

structure RSt where
  authors : List Text := []
  comments : List Comment := []
  deriving DecidableEq, Repr

/- the top-level loop of `reader::xlsx::comment::read`: every `<author>` met so far is in the table,
    every `<comment>` is read against the table as it stands, anything else is walked through -/
mutual
def walk : Node → RSt → Option RSt
  | .text _, st => some st
  | .elem n as ks, st =>
    if n = nAuthor then some { st with authors := st.authors ++ [lastText ks []] }
    else if n = nComment then
      (readComment st.authors as ks).map fun c => { st with comments := st.comments ++ [c] }
    else walkL ks st
def walkL : List Node → RSt → Option RSt
  | [], st => some st
  | k :: r, st =>
    match walk k st with
    | some st' => walkL r st'
    | none => none
end

def readComments (n : Node) : Option (List Comment) := (walk n {}).map (·.comments)

/-! ## the VML part: writer -/

def tfbText (b : Bool) : Text := if b then "True".toList else "False".toList

/-- `Visible::write_to` & co.: nothing / an empty element / `True` or `False` -/
def tfbElem (name : Text) : Option (Option Bool) → List Node
  | none => []
  | some none => [.elem name [] []]
  | some (some b) => [.elem name [] [.text (tfbText b)]]

/-- `CommentRowTarget::write_to` / `CommentColumnTarget::write_to` -/
def u32Elem (name : Text) : Option (Option Nat) → List Node
  | none => []
  | some v => [.elem name [] [.text (decDigits (v.getD 0))]]

def sp (t : Text) : Text := ' ' :: t

/-- `format!("{}, {}, {}, {}, {}, {}, {}, {}", …)` -/
def anchorText (a : Anchor) : Text :=
  joinCh ',' [decDigits a.leftCol, sp (decDigits a.leftOff), sp (decDigits a.topRow), sp (decDigits a.topOff),
    sp (decDigits a.rightCol), sp (decDigits a.rightOff), sp (decDigits a.bottomRow), sp (decDigits a.bottomOff)]

/-- `ClientData::write_to` (the modelled children, in the order they are written) -/
def clientData (s : Shape) : Node :=
  .elem nClientData [⟨"ObjectType".toList, "Note".toList⟩]
    (tfbElem nMove s.moveWithCells ++ tfbElem nSize s.sizeWithCells ++ [.elem nAnchor [] [.text (anchorText s.anchor)]] ++
      u32Elem nRow s.row ++ u32Elem nColumn s.col ++ tfbElem nVisible s.visible)

def shapeId (id : Nat) : Text := "_x0000_s".toList ++ decDigits id

/-- `Shape::write_to` (the modelled attributes and children) -/
def shapeElem (id : Nat) (s : Shape) : Node :=
  .elem nShape (⟨"id".toList, shapeId id⟩ :: (match s.style with | some t => [⟨"style".toList, t⟩] | none => []))
    [clientData s]

/-- the shape `vml_drawing::write` writes for a comment: a clone of the comment's shape whose `x:Row` /
    `x:Column` are set from the comment's own coordinate, zero-based (`saturating_sub(1)`), whatever the
    shape held (nothing, a holder without a value, another cell) -/
def Comment.writtenShape (c : Comment) : Shape :=
  { c.shape with row := some (some (c.cell.row - 1)), col := some (some (c.cell.col - 1)) }

/-- `for comment in worksheet.get_comments() { …; shape.write_to(.., &id, ..); id += 1 }` -/
def shapeElems : Nat → List Comment → List Node
  | _, [] => []
  | id, c :: r => shapeElem id c.writtenShape :: shapeElems (id + 1) r

def el (n : String) (as : List (String × String)) (ks : List Node) : Node :=
  .elem n.toList (as.map fun p => ⟨p.1.toList, p.2.toList⟩) ks

/-- what precedes the shapes: `o:shapelayout` and the `v:shapetype` of notes (no OLE objects) -/
def vmlFrame : List Node :=
  [el "o:shapelayout" [("v:ext", "edit")] [el "o:idmap" [("v:ext", "edit"), ("data", "1")] []],
   el "v:shapetype" [("id", "_x0000_t202"), ("coordsize", "21600,21600"), ("o:spt", "202"), ("path", "m,l,21600r21600,l21600,xe")]
     [el "v:stroke" [("joinstyle", "miter")] [], el "v:path" [("gradientshapeok", "t"), ("o:connecttype", "rect")] []]]

def vmlNs : List Attr :=
  [⟨"xmlns:v".toList, "urn:schemas-microsoft-com:vml".toList⟩, ⟨"xmlns:o".toList, "urn:schemas-microsoft-com:office:office".toList⟩,
   ⟨"xmlns:x".toList, "urn:schemas-microsoft-com:office:excel".toList⟩]

/-- `writer::xlsx::vml_drawing::write` for a sheet with comments and no OLE objects; the first id is 1025 -/
def writeVml (cs : List Comment) : Node := .elem "xml".toList vmlNs (vmlFrame ++ shapeElems 1025 cs)

/-! ## the VML part: reader -/

/-- quick-xml `trim_text(true)` on one text event -/
def trimWs (s : Text) : Text := Umya.Xml.trimEnd (Umya.Xml.trimStart s)

/-- the last text event among the children that survives `trim_text(true)`, trimmed -/
def lastTrimmed : List Node → Option Text → Option Text
  | [], acc => acc
  | .text s :: r, acc => lastTrimmed r (if trimWs s = [] then acc else some (trimWs s))
  | .elem _ _ _ :: r, acc => lastTrimmed r acc

def asciiLower (c : Char) : Char := if 'A' ≤ c ∧ c ≤ 'Z' then Char.ofNat (c.toNat + 32) else c

/-- `str::eq_ignore_ascii_case` -/
def eqIgnoreCase (a b : Text) : Bool := a.map asciiLower = b.map asciiLower

/-- `TrueFalseBlankValue::set_value_string` -/
def tfbRead (t : Text) : Bool := !(eqIgnoreCase t ['f'] || eqIgnoreCase t "false".toList)

/-- `Visible::set_attributes` & co. (either event kind): the holder's value -/
def readTfb (ks : List Node) : Option Bool := (lastTrimmed ks none).map tfbRead

/-- `CommentRowTarget::set_attributes`: outer `none` = `parse::<u32>().unwrap()` panics -/
def readU32 (ks : List Node) : Option (Option Nat) :=
  match lastTrimmed ks none with
  | none => some none
  | some t => (u32Attr t).map some

/-- `str::trim` -/
def rustTrim (s : Text) : Text := ((s.dropWhile Umya.Xml.isUniWs).reverse.dropWhile Umya.Xml.isUniWs).reverse

/-- `Anchor::get_number` -/
def anchorNum (p : Option Text) : Nat :=
  match p with
  | some v => (u32Attr (rustTrim v)).getD 0
  | none => 0

/-- `Anchor::set_attributes` on a default anchor -/
def readAnchor (ks : List Node) : Anchor :=
  match lastTrimmed ks none with
  | none => {}
  | some t =>
    let ps := splitCh ',' t
    { leftCol := anchorNum ps[0]?, leftOff := anchorNum ps[1]?, topRow := anchorNum ps[2]?, topOff := anchorNum ps[3]?,
      rightCol := anchorNum ps[4]?, rightOff := anchorNum ps[5]?, bottomRow := anchorNum ps[6]?, bottomOff := anchorNum ps[7]? }

/-- `ClientData::set_attributes`, the loop over the children; `none` = a panic in `x:Row` / `x:Column` -/
def readClientKids : List Node → Shape → Option Shape
  | [], s => some s
  | .text _ :: k, s => readClientKids k s
  | .elem n _ ks :: k, s =>
    if n = nMove then readClientKids k { s with moveWithCells := some (readTfb ks) }
    else if n = nSize then readClientKids k { s with sizeWithCells := some (readTfb ks) }
    else if n = nAnchor then readClientKids k { s with anchor := readAnchor ks }
    else if n = nRow then
      match readU32 ks with
      | some v => readClientKids k { s with row := some v }
      | none => none
    else if n = nColumn then
      match readU32 ks with
      | some v => readClientKids k { s with col := some v }
      | none => none
    else if n = nVisible then readClientKids k { s with visible := some (readTfb ks) }
    else readClientKids k s

/-- `Shape::set_attributes`, the loop over the children: each `x:ClientData` REPLACES the client data -/
def readShapeKids : List Node → Shape → Option Shape
  | [], s => some s
  | .text _ :: k, s => readShapeKids k s
  | .elem n _ ks :: k, s =>
    if n = nClientData then
      match readClientKids ks {} with
      | some cd => readShapeKids k cd
      | none => none
    else readShapeKids k s

/-- `Shape::set_attributes` on `Shape::default()` -/
def readShape (n : Node) : Option Shape :=
  match n with
  | .elem _ as ks => (readShapeKids ks {}).map fun s => { s with style := getAttr as "style".toList }
  | .text _ => some {}

/- the `v:shape` start tags the top-level loop of `reader::xlsx::vml_drawing::read` sees, in document
    order (a shape's own content is consumed by `Shape::set_attributes`) -/
mutual
def shapeNodes : Node → List Node
  | .text _ => []
  | .elem n as ks => if n = nShape then [.elem n as ks] else shapeNodesL ks
def shapeNodesL : List Node → List Node
  | [] => []
  | k :: r => shapeNodes k ++ shapeNodesL r
end

def readShapes : List Node → Option (List Shape)
  | [] => some []
  | n :: r =>
    match readShape n, readShapes r with
    | some s, some ss => some (s :: ss)
    | _, _ => none

/-- every shape of the part, in document order -/
def readVml (n : Node) : Option (List Shape) := readShapes (shapeNodes n)

/-! ## the join -/

/-- `get_comments_mut().get_mut(i).map(|c| c.set_shape(s))` -/
def setShapeAt : List Comment → Nat → Shape → List Comment
  | [], _, _ => []
  | c :: r, 0, s => { c with shape := s } :: r
  | c :: r, i + 1, s => c :: setShapeAt r i s

/-- the cell a note shape names: `x:Column` / `x:Row` are zero-based; the getters answer 0 for a holder
    without a value; `none` when one of the two elements is missing -/
def Shape.cell? (s : Shape) : Option (Nat × Nat) :=
  match s.col, s.row with
  | some c, some r => some (c.getD 0 + 1, r.getD 0 + 1)
  | _, _ => none

/-- (column, row) of the comment's cell -/
def Comment.pos (c : Comment) : Nat × Nat := (c.cell.col, c.cell.row)

/-- the closure `is_target`: `col_num.checked_sub(1) == Some(x:Column) && row_num.checked_sub(1) == Some(x:Row)`,
    false for a shape without `x:Row` -/
def Shape.names (s : Shape) (k : Nat × Nat) : Bool := decide (s.cell? = some k)

/-- `Iterator::position` -/
def positionOf {α : Type} (p : α → Bool) : List α → Option Nat
  | [] => none
  | a :: r => if p a then some 0 else (positionOf p r).map (· + 1)

/-- the index the shape goes to: `comment_index` when the comment there is on the cell the shape names,
    else `comments.iter().position(is_target).unwrap_or(comment_index)` -/
def targetIndex (cells : List (Nat × Nat)) (i : Nat) (s : Shape) : Nat :=
  match cells[i]? with
  | some k => if s.names k then i else (positionOf s.names cells).getD i
  | none => (positionOf s.names cells).getD i

/-- the loop of `vml_drawing::read` over the shapes: a shape WITH an `x:Column` goes to the comment at
    `targetIndex` and `comment_index` advances; a shape without one belongs to the OLE objects -/
def joinGo : Nat → List Comment → List Shape → List Comment
  | _, cs, [] => cs
  | i, cs, s :: r =>
    if s.col.isSome then joinGo (i + 1) (setShapeAt cs (targetIndex (cs.map Comment.pos) i s) s) r else joinGo i cs r

/-- `vml_drawing::read`: the join of the shapes of the VML part to the comments of the comments part -/
def joinShapes (cs : List Comment) (ss : List Shape) : List Comment := joinGo 0 cs ss

/-- the loop as it was before fix b524a98a: position only -/
def joinGoPos : Nat → List Comment → List Shape → List Comment
  | _, cs, [] => cs
  | i, cs, s :: r => if s.col.isSome then joinGoPos (i + 1) (setShapeAt cs i s) r else joinGoPos i cs r

def joinByPosition (cs : List Comment) (ss : List Shape) : List Comment := joinGoPos 0 cs ss

/-- save and reload of the comments of one sheet (`tbl`: the authors table the writer happened to build) -/
def reload (tbl : List Text) (cs : List Comment) : Option (List Comment) :=
  match writeComments tbl cs with
  | none => none
  | some n =>
    match readComments n, readVml (writeVml cs) with
    | some rc, some ss => some (joinShapes rc ss)
    | _, _ => none

/-! ## normal form and well-formedness -/

/-- a row / column target whose holder has no value is written as `0` (what a reader of the part sees for
    a shape of a loaded file; the writer replaces both targets anyway) -/
def normU32 : Option (Option Nat) → Option (Option Nat)
  | some none => some (some 0)
  | v => v

def Shape.norm (s : Shape) : Shape := { s with row := normU32 s.row, col := normU32 s.col }

/-- what a comment comes back as: its shape names the comment's own cell (`Comment.writtenShape`), everything
    else as it was -/
def Comment.norm (c : Comment) : Comment := { c with shape := c.writtenShape }

def u32Max : Nat := 4294967296

def Anchor.WF (a : Anchor) : Prop :=
  a.leftCol < u32Max ∧ a.leftOff < u32Max ∧ a.topRow < u32Max ∧ a.topOff < u32Max ∧
  a.rightCol < u32Max ∧ a.rightOff < u32Max ∧ a.bottomRow < u32Max ∧ a.bottomOff < u32Max

def optU32WF : Option (Option Nat) → Prop
  | some (some n) => n < u32Max
  | _ => True

/-- the Rust field types (`x:Row` / `x:Column` of the struct may be anything, also absent: the writer sets
    them from the coordinate) -/
def Shape.WF (s : Shape) : Prop := s.anchor.WF ∧ optU32WF s.row ∧ optU32WF s.col

/-- run properties, when present, are an element called `rPr` -/
def Run.WF (r : Run) : Prop :=
  match r.rpr with
  | some (.elem n _ _) => n = nRPr
  | some (.text _) => False
  | none => True

/-- `1 ≤ row`: a cell (`Coord.WF` admits the row 0 of a column reference, which is no cell and which
    `x:Row` cannot name) -/
def Comment.WF (tbl : List Text) (c : Comment) : Prop :=
  c.cell.WF ∧ 1 ≤ c.cell.row ∧ c.author ∈ tbl ∧ (∀ r ∈ c.text, r.WF) ∧ c.shape.WF

/-- the list of comments of a sheet and the authors table written for it -/
def WF (tbl : List Text) (cs : List Comment) : Prop :=
  tbl.length < 18446744073709551616 ∧ ∀ c ∈ cs, c.WF tbl

instance (c : Coord) : Decidable c.WF := by unfold Coord.WF; infer_instance
instance (a : Anchor) : Decidable a.WF := by unfold Anchor.WF; infer_instance
instance (v : Option (Option Nat)) : Decidable (optU32WF v) := by unfold optU32WF; split <;> infer_instance
instance (s : Shape) : Decidable s.WF := by unfold Shape.WF; infer_instance
instance (r : Run) : Decidable r.WF := by unfold Run.WF; split <;> infer_instance
instance (tbl : List Text) (c : Comment) : Decidable (c.WF tbl) := by unfold Comment.WF; infer_instance
instance (tbl : List Text) (cs : List Comment) : Decidable (WF tbl cs) := by unfold WF; infer_instance

/-- the comment on a cell: the first one in list order -/
def lookup (cs : List Comment) (k : Coord) : Option Comment := cs.find? (fun c => c.cell = k)

/-! ## loaded files -/

/-- `validCommentParts`: the note shapes (those with an `x:Column`), in document order, name exactly the
    cells of the comments, in `commentList` order — shapes without `x:Column` (buttons, form controls,
    pictures) may stand anywhere between them.  (What the library itself writes; Excel does not.) -/
def validCommentParts (cs : List Comment) (ss : List Shape) : Prop :=
  (ss.filter (·.col.isSome)).map Shape.cell? = cs.map fun c => some c.pos

instance (cs : List Comment) (ss : List Shape) : Decidable (validCommentParts cs ss) := by
  unfold validCommentParts; infer_instance

/-- the join by cell, as a specification: each comment takes the first note shape that names its cell and
    keeps the shape it has when there is none -/
def joinByCell (cs : List Comment) (ss : List Shape) : List Comment :=
  cs.map fun c =>
    match ss.find? (fun s => s.col.isSome && s.names c.pos) with
    | some s => { c with shape := s }
    | none => c

/-! ## `<autoFilter>` (src/structs/auto_filter.rs, writer/xlsx/worksheet.rs, reader/xlsx/worksheet.rs)

  `AutoFilter` holds ONE field, the `Range`: the element is written empty, `<autoFilter ref="A1:C9"/>`, and read
  through `get_attribute(e, b"ref").unwrap()` + `Worksheet::set_auto_filter` (= `Range::set_range`), both on the
  `Event::Empty` and on the `Event::Start` arm.  Filter columns / criteria / sort state of a loaded file are not
  held by the struct at all (nothing to round-trip; a re-save drops them). -/

def nAutoFilter : Text := "autoFilter".toList

/-- the `<autoFilter>` element the worksheet writer emits for `Some(auto_filter)` -/
def writeAutoFilter (ρ : Umya.Coord.Range) : Node := .elem nAutoFilter [⟨"ref".toList, ρ.print⟩] []

/-- the reader arm: outer `none` = `get_attribute(..).unwrap()` on a missing `ref`; `.panic` = `Range::set_range` panics.
    Children (`<filterColumn>` …) are not looked at. -/
def readAutoFilter (n : Node) : Option (Umya.Coord.Res Umya.Coord.Range) :=
  match n with
  | .elem _ as _ => (getAttr as "ref".toList).map Umya.Coord.Range.parse
  | .text _ => none

end Umya.AnnotComment
