/-
  Model of the library's cell-reading path, as it is in the worktree AFTER the fixes
  (reader/driver.rs get_attribute + get_attribute_value, structs/cell.rs Cell::set_attributes,
  structs/cell_value.rs guess_typed_data / set_shared_string_item, structs/shared_string_item.rs,
  structs/text.rs, structs/cell_formula.rs set_attributes "Shared" branch, structs/columns.rs,
  structs/row.rs Row::set_attributes + structs/coordinate.rs set_coordinate for the positions).

  What is abstracted.  The library reads quick-xml events; the model reads the element tree of
  `Umya.Spec.Xml` (same `Node` type, reused only as a container):
    * an attribute value in the tree stands for what `get_attribute` returns; that this is the XML
      attribute value is theorem `C03_attr` (raw text → value), stated on the raw text;
    * a text child stands for one `Event::Text` after `unescape()`; `trim_text(true)` of the sheet
      reader is modelled by `trimWs` (quick-xml trims the bytes ' ', '\t', '\r', '\n'), and a text that
      is empty after trimming produces no event.  Trimming is switched off inside `<f>` (fix 045f37e),
      inside the `<v>` of a `t="str"` cell (fix 12ac4b7), inside a `<t xml:space="preserve">`, and in
      the whole shared-strings part;
    * "the last event wins" loops (`string_value = …`, `self.set_text(obj)`) are modelled by taking the
      LAST matching child; elements are matched by local name (the library matches the unprefixed
      name only: prefixed SpreadsheetML names are outside the model);
    * character data directly inside `<c>` (the schema allows none; blanks are trimmed away) is outside
      the model: the library would take it for the text of a following empty `<v></v>`;
    * `<v/>`, `<t/>`, `<r/>`, `<is/>` (Empty events, ignored by the library) are not distinguished from
      `<v></v>` … (Start + End events);
    * f64 values are the source text (`Raw.num`), compared as text; a Rust panic is `none`
      (`unwrap` on a parse error or a missing table entry, `u32` overflow in a build with overflow checks).
-/
import Umya.Spec.XmlLex
import Umya.Model.XmlEsc
import Umya.Model.Formula
namespace Umya.Reader
open Umya.Spec.Xml Umya.Coord

/-! ## attributes -/

/-- `get_attribute(e, key)` on the raw attribute list of a start tag: first match, unescaped once,
    the raw text when `unescape` fails -/
def getAttribute (raw : List (Text × Text)) (key : Text) : Option Text :=
  (raw.find? (·.1 = key)).map fun a => Umya.XmlEsc.attrRead a.2

/-! ## values -/

inductive Raw where
  | empty
  | str (s : Text)
  | num (t : Text)          -- Numeric(f64): the text that was parsed
  | bool (b : Bool)
  | err (e : Text)
  deriving Repr, DecidableEq

def errorLits : List Text :=
  ["#DIV/0!".toList, "#N/A".toList, "#NAME?".toList, "#NULL!".toList, "#NUM!".toList, "#REF!".toList,
   "#VALUE!".toList, "#DATA!".toList]

/-- `CellValue::guess_typed_data` (ASCII upper-casing; other case mappings are outside the model) -/
def guessTyped (v : Text) : Raw :=
  let up := v.map upcase
  if v = [] then .empty
  else if up = "TRUE".toList then .bool true
  else if up = "FALSE".toList then .bool false
  else if errorLits.contains up then .err up
  else if Umya.Formula.parseF64Ok v then .num v
  else .str v

def isWs (c : Char) : Bool := c = ' ' || c = '\t' || c = '\r' || c = '\n'

def trimWs (s : Text) : Text := ((s.dropWhile isWs).reverse.dropWhile isWs).reverse

/-- the text events inside an element under `trim_text(trim)`: empty ones are not delivered -/
def textEvents (trim : Bool) (n : Node) : List Text :=
  (n.children.filterMap fun k => match k with
    | .text s => some (if trim then trimWs s else s)
    | .elem _ _ _ => none).filter (· ≠ [])

/-- the value of the `string_value` / `Text.value` variable when the end tag is reached -/
def lastText (trim : Bool) (n : Node) : Text := ((textEvents trim n).getLast?).getD []

def lastKid? (n : Node) (name : String) : Option Node := (n.kids name).getLast?

/-- `Text::set_attributes`: xml:space="preserve" switches trimming off for the element -/
def tText (trim : Bool) (t : Node) : Text :=
  lastText (trim && !(t.attr? "xml:space".toList = some "preserve".toList)) t

/-- `SharedStringItem::set_attributes` + `Cell::set_shared_string_item`: the text of the last `t`
    child, replaced by the joined run texts when there is at least one `r` (phonetic runs `rPh` are
    consumed and dropped); `none` = neither (`<t/>` is an Empty event and sets nothing) -/
def stringItem (trim : Bool) (si : Node) : Option Text :=
  let runs := si.kids "r"
  if !runs.isEmpty then
    some (runs.flatMap fun r => ((lastKid? r "t").map (tText trim)).getD [])
  else (lastKid? si "t").bind fun t => if t.children.isEmpty then none else some (tText trim t)

/-- `str::parse::<usize>()` / `parse::<u32>()`: an optional `+`, then one or more ASCII digits, and the
    value must fit the type (`bound` = 2^64 on the 64-bit targets the crate is built for, 2^32) -/
def stripPlus : Text → Text
  | '+' :: r => r
  | t => t

def parseUInt (bound : Nat) (t : Text) : Option Nat :=
  let ds := stripPlus t
  if ds ≠ [] ∧ ds.all Char.isDigit then
    let n := ds.foldl (fun a c => 10 * a + (c.toNat - 48)) 0
    if n < bound then some n else none
  else none

def usizeBound : Nat := 18446744073709551616
def u32Bound : Nat := 4294967296

def parseUsize (t : Text) : Option Nat := parseUInt usizeBound t
def parseU32 (t : Text) : Option Nat := parseUInt u32Bound t

structure CellR where
  ref : Text                  -- `r` as read; empty = no `r` (the position is implied: `cellPositions`)
  style : Nat
  raw : Raw
  formula : Option Text       -- own text of `f`
  shared : Option Nat         -- the group of an `f t="shared"`
  deriving Repr

/-- the `s` attribute: `v.parse::<usize>().unwrap()`; `none` = panic -/
def styleOf (c : Node) : Option Nat :=
  match c.attr? "s".toList with
  | some v => parseUsize v
  | none => some 0

/-- the `</v>` branch of `Cell::set_attributes` for cell type `t`; `none` = panic
    (`.parse::<usize>().unwrap()`, `.get(index).unwrap()`) -/
def afterV (sst : List (Option Text)) (t : Text) : Option Node → Option Raw
  | none => some .empty
  | some v =>
    if t = "str".toList then some (.str (lastText false v))
    else if t = "s".toList then
      (parseUsize (lastText true v)).bind fun i => match sst[i]? with
        | some (some s) => some (.str s)
        | some none => some .empty
        | none => none
    else if t = "b".toList then some (.bool (lastText true v = ['1'] ∨ lastText true v = "true".toList))
    else if t = "e".toList then some (guessTyped (lastText true v))
    else if t = [] ∨ t = "n".toList then some (guessTyped (lastText true v))
    else some .empty

/-- the attributes of `<f>` that matter here (`CellFormula::set_attributes`): every `si` found is
    parsed (`parse::<u32>().unwrap()`, `none` = panic); the group of a `t="shared"` formula is
    `shared_index.get_value()`, which is 0 when there is no `si` -/
def sharedOf (f : Node) : Option (Option Nat) :=
  let si : Option (Option Nat) := match f.attr? "si".toList with
    | some s => (parseU32 s).map some
    | none => some none
  si.map fun i => if f.attr? "t".toList = some "shared".toList then some (i.getD 0) else none

/-- the formula group of the cell: the last `<f>` read wins (`set_formula_obj`) -/
def groupOf (c : Node) : Option (Option Nat) :=
  match lastKid? c "f" with
  | some fe => sharedOf fe
  | none => some none

/-- the raw value after `</c>`: the `</v>` branch, then the `<is>` branch (after fix f6f54a2: a string
    item, always text, only for `t="inlineStr"`); the order of `<v>` and `<is>` does not matter because
    the `</v>` branch does nothing for `inlineStr`; `sst i` = the text of string item `i` of the table
    (`none` = an item without text; every `si` child of `sst` is an item, `<si/>` included since fix_2) -/
def rawOf (sst : List (Option Text)) (c : Node) : Option Raw :=
  let t := (c.attr? "t".toList).getD []
  (afterV sst t (lastKid? c "v")).map fun r =>
    match lastKid? c "is" with
    | some is_ => if t = "inlineStr".toList then (match stringItem true is_ with | some s => .str s | none => r) else r
    | none => r

/-- `Cell::set_attributes` (`none` = panic) -/
def readCell (sst : List (Option Text)) (c : Node) : Option CellR :=
  match styleOf c, groupOf c, rawOf sst c with
  | some st, some sh, some r =>
    some { ref := (c.attr? "r".toList).getD [], style := st, raw := r,
           formula := (lastKid? c "f").map (lastText false), shared := sh }
  | _, _, _ => none

/-- what the public getters show: `get_data_type`, `get_value` -/
def Raw.kind : Raw → String
  | .empty => "" | .str _ => "s" | .num _ => "n" | .bool _ => "b" | .err _ => "e"

def Raw.text : Raw → Text
  | .empty => [] | .str s => s | .num t => t | .bool b => if b then "TRUE".toList else "FALSE".toList | .err e => e

/-! ## positions of rows and cells (fix 8281a0c): `Row::set_attributes`, `Cell::set_attributes`,
     `Coordinate::set_coordinate` -/

/-- `Coordinate::set_coordinate(ref)`: the four results of `index_from_coordinate` are unwrapped
    (`none` = panic: no column letters, no row digits, or a row number that does not fit `u32`) -/
def setCoordinate (ref : Text) : Option (Nat × Nat) :=
  match Umya.Coord.indexFromCoordinate ref with
  | (some c, some r, some _, some _) => some (c, r)
  | _ => none

/-- (column, row) of the cells of one row: a cell with `r` is where `r` says; a cell without `r` gets
    `coordinate_from_index(last_col_num + 1, row_num)` (the text is parsed again by `set_coordinate`,
    hence a panic beyond column ZZZ); `last_col_num` becomes the column of the cell just read.
    `rs` = what `get_attribute(e, b"r")` gave for each `<c>` -/
def cellPositions (rowNum : Nat) : Nat → List (Option Text) → Option (List (Nat × Nat))
  | _, [] => some []
  | last, r :: rest =>
    let ref := match r with
      | some v => v
      | none => Umya.Coord.coordinateFromIndexWithLock (last + 1) rowNum false false
    match setCoordinate ref with
    | none => none
    | some (col, row) => (cellPositions rowNum col rest).map ((col, row) :: ·)

/-- the number of a `<row>`: `r` parsed as `u32` (unwrap), else `*last_row_num + 1` -/
def rowNumber (last : Nat) (r : Option Text) : Option Nat :=
  match r with
  | some v => parseU32 v
  | none => if last + 1 < u32Bound then some (last + 1) else none

/-- the rows of a `<sheetData>`: (row number, positions of its cells); `last_row_num` starts at 0 -/
def sheetPositions : Nat → List Node → Option (List (Nat × List (Nat × Nat)))
  | _, [] => some []
  | last, row :: rest =>
    match rowNumber last (row.attr? "r".toList) with
    | none => none
    | some n =>
      match cellPositions n 0 ((row.kids "c").map (·.attr? "r".toList)) with
      | none => none
      | some cs => (sheetPositions n rest).map ((n, cs) :: ·)

/-! ## shared formulas: `formula_shared_list` and the "Shared" branch of `CellFormula::set_attributes` -/

structure Anchor where
  si : Nat
  col : Nat
  row : Nat
  text : Text

/-- the formula shown for a cell (`get_text`: `text_view` when set, else `text`).  `tr` is the
    translation `render (adjustment_formula_coordinate (parse_to_tokens "=" ++ text) dc dr)`, passed as
    a parameter so that the statement about the anchoring does not depend on the tokenizer;
    the offsets are `i32` differences of `u32` coordinates ≤ 16384 / 1048576: no underflow -/
def expandShared (tr : Text → Int → Int → Text) (colOf rowOf : Text → Nat) :
    List Anchor → List CellR → List (CellR × Option Text)
  | _, [] => []
  | as, c :: rest =>
    match c.shared with
    | none => (c, c.formula) :: expandShared tr colOf rowOf as rest
    | some si =>
      match as.find? (·.si = si) with
      | none =>
        (c, c.formula) :: expandShared tr colOf rowOf (⟨si, colOf c.ref, rowOf c.ref, c.formula.getD []⟩ :: as) rest
      | some a =>
        let dc : Int := (colOf c.ref : Int) - a.col
        let dr : Int := (rowOf c.ref : Int) - a.row
        (c, some (tr a.text dc dr)) :: expandShared tr colOf rowOf as rest

/-- the translation the code uses (`Umya.Formula.setCoordinate` is `parse` + `adjustFormulaCoordinate` +
    `render`); a tokenizer panic is shown as the untranslated text -/
def codeTranslate (text : Text) (dc dr : Int) : Text :=
  match Umya.Formula.setCoordinate text dc dr with
  | .ok t => t
  | .panic => text

/-! ## `<col min max>`: `Columns::set_attributes` clones the column for every index `min..=max` -/

structure ColSpec (α : Type) where
  min : Nat
  max : Nat
  facts : α

def expandCol {α} (c : ColSpec α) : List (Nat × α) :=
  (List.range' c.min (c.max + 1 - c.min)).map fun i => (i, c.facts)

def expandCols {α} (cs : List (ColSpec α)) : List (Nat × α) := cs.flatMap expandCol

end Umya.Reader
