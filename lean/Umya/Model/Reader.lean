/-
  Model of the library's cell-reading path, as it is in the worktree AFTER the fixes
  (reader/driver.rs get_attribute + get_attribute_value, structs/cell.rs Cell::set_attributes,
  structs/cell_value.rs guess_typed_data / set_shared_string_item, structs/shared_string_item.rs,
  structs/text.rs, structs/cell_formula.rs set_attributes "Shared" branch, structs/columns.rs).

  What is abstracted.  The library reads quick-xml events; the model reads the element tree of
  `Umya.Spec.Xml` (same `Node` type, reused only as a container):
    * an attribute value in the tree stands for what `get_attribute` returns; that this is the XML
      attribute value is theorem `C03_attr` (raw text → value), stated on the raw text;
    * a text child stands for one `Event::Text` after `unescape()`; `trim_text(true)` of the sheet
      reader is modelled by `trimWs` (quick-xml trims the bytes ' ', '\t', '\r', '\n'), and a text that
      is empty after trimming produces no event;
    * "the last event wins" loops (`string_value = …`, `self.set_text(obj)`) are modelled by taking the
      LAST matching child; elements are matched by local name (the library matches the unprefixed
      name only: prefixed SpreadsheetML names are outside the model);
    * `<v/>` (an Empty event, ignored by the library) is not distinguished from `<v></v>`;
    * f64 values are the source text (`Raw.num`), compared as text; a Rust panic is `none`.
-/
import Umya.Spec.XmlLex
import Umya.Model.XmlEsc
import Umya.Model.Formula
namespace Umya.Reader
open Umya.Spec.Xml Umya.Coord

/-! ## attributes -/

/-- `get_attribute(e, key)` on the raw attribute list of a start tag: first match, unescaped once,
    the raw text when `unescape` fails -/
def getAttribute (raw : List (Text × Text)) (key : Text) : Option Text :=
  (raw.find? (·.1 = key)).map fun a => Umya.XmlEsc.attrRead a.2

/-! ## values -/

inductive Raw where
  | empty
  | str (s : Text)
  | num (t : Text)          -- Numeric(f64): the text that was parsed
  | bool (b : Bool)
  | err (e : Text)
  deriving Repr, DecidableEq

def errorLits : List Text :=
  ["#DIV/0!".toList, "#N/A".toList, "#NAME?".toList, "#NULL!".toList, "#NUM!".toList, "#REF!".toList,
   "#VALUE!".toList, "#DATA!".toList]

/-- `CellValue::guess_typed_data` (ASCII upper-casing; other case mappings are outside the model) -/
def guessTyped (v : Text) : Raw :=
  let up := v.map upcase
  if v = [] then .empty
  else if up = "TRUE".toList then .bool true
  else if up = "FALSE".toList then .bool false
  else if errorLits.contains up then .err up
  else if Umya.Formula.parseF64Ok v then .num v
  else .str v

def isWs (c : Char) : Bool := c = ' ' || c = '\t' || c = '\r' || c = '\n'

def trimWs (s : Text) : Text := ((s.dropWhile isWs).reverse.dropWhile isWs).reverse

/-- the text events inside an element under `trim_text(trim)`: empty ones are not delivered -/
def textEvents (trim : Bool) (n : Node) : List Text :=
  (n.children.filterMap fun k => match k with
    | .text s => some (if trim then trimWs s else s)
    | .elem _ _ _ => none).filter (· ≠ [])

/-- the value of the `string_value` / `Text.value` variable when the end tag is reached -/
def lastText (trim : Bool) (n : Node) : Text := ((textEvents trim n).getLast?).getD []

def lastKid? (n : Node) (name : String) : Option Node := (n.kids name).getLast?

/-- `Text::set_attributes`: xml:space="preserve" switches trimming off for the element -/
def tText (trim : Bool) (t : Node) : Text :=
  lastText (trim && !(t.attr? "xml:space".toList = some "preserve".toList)) t

/-- `SharedStringItem::set_attributes` + `Cell::set_shared_string_item`: the text of the last `t`
    child, replaced by the joined run texts when there is at least one `r` (phonetic runs `rPh` are
    consumed and dropped); `none` = neither (`<t/>` is an Empty event and sets nothing) -/
def stringItem (trim : Bool) (si : Node) : Option Text :=
  let runs := si.kids "r"
  if !runs.isEmpty then
    some (runs.flatMap fun r => ((lastKid? r "t").map (tText trim)).getD [])
  else (lastKid? si "t").bind fun t => if t.children.isEmpty then none else some (tText trim t)

/-- `str::parse::<usize>()` (an optional `+`, then digits) -/
def stripPlus : Text → Text
  | '+' :: r => r
  | t => t

def parseUsize (t : Text) : Option Nat :=
  let ds := stripPlus t
  if ds ≠ [] ∧ ds.all Char.isDigit then some (ds.foldl (fun a c => 10 * a + (c.toNat - 48)) 0) else none

structure CellR where
  ref : Text                  -- `r` as read; empty = the coordinate keeps its default (A1)
  style : Nat
  raw : Raw
  formula : Option Text       -- own text of `f`
  shared : Option Nat         -- `si` when `f t="shared"`
  deriving Repr

/-- the `s` attribute: `v.parse::<usize>().unwrap()`; `none` = panic -/
def styleOf (c : Node) : Option Nat :=
  match c.attr? "s".toList with
  | some v => parseUsize v
  | none => some 0

/-- the `</v>` branch of `Cell::set_attributes` for cell type `t`; `none` = panic
    (`.parse::<usize>().unwrap()`, `.get(index).unwrap()`) -/
def afterV (sst : List (Option Text)) (t : Text) : Option Node → Option Raw
  | none => some .empty
  | some v =>
    if t = "str".toList then some (.str (lastText true v))
    else if t = "s".toList then
      (parseUsize (lastText true v)).bind fun i => match sst[i]? with
        | some (some s) => some (.str s)
        | some none => some .empty
        | none => none
    else if t = "b".toList then some (.bool (lastText true v = ['1']))
    else if t = "e".toList then some (guessTyped (lastText true v))
    else if t = [] ∨ t = "n".toList then some (guessTyped (lastText true v))
    else some .empty

/-- `Cell::set_attributes`; `sst i` = the string item `i` of the table (`none` = no text / no item) -/
def readCell (sst : List (Option Text)) (c : Node) : Option CellR :=
  let t := (c.attr? "t".toList).getD []
  let style? : Option Nat := styleOf c
  let f := lastKid? c "f"
  let formula := f.map (lastText true)
  let shared := f.bind fun fe =>
    if fe.attr? "t".toList = some "shared".toList then (fe.attr? "si".toList).bind parseUsize else none
  let afterV : Option Raw := afterV sst t (lastKid? c "v")
  -- the `<is>` branch (after the fix: a string item, always text)
  let raw? : Option Raw := afterV.map fun r =>
    match lastKid? c "is" with
    | some is_ => if t = "inlineStr".toList then (match stringItem true is_ with | some s => .str s | none => r) else r
    | none => r
  match style?, raw? with
  | some st, some r => some { ref := (c.attr? "r".toList).getD [], style := st, raw := r, formula := formula, shared := shared }
  | _, _ => none

/-- what the public getters show: `get_data_type`, `get_value` -/
def Raw.kind : Raw → String
  | .empty => "" | .str _ => "s" | .num _ => "n" | .bool _ => "b" | .err _ => "e"

def Raw.text : Raw → Text
  | .empty => [] | .str s => s | .num t => t | .bool b => if b then "TRUE".toList else "FALSE".toList | .err e => e

/-! ## shared formulas: `formula_shared_list` and the "Shared" branch of `CellFormula::set_attributes` -/

structure Anchor where
  si : Nat
  col : Nat
  row : Nat
  text : Text

/-- the formula shown for a cell (`get_text`: `text_view` when set, else `text`).  `tr` is the
    translation `render (adjustment_formula_coordinate (parse_to_tokens "=" ++ text) dc dr)`, passed as
    a parameter so that the statement about the anchoring does not depend on the tokenizer;
    the offsets are `i32` differences of `u32` coordinates ≤ 16384 / 1048576: no underflow -/
def expandShared (tr : Text → Int → Int → Text) (colOf rowOf : Text → Nat) :
    List Anchor → List CellR → List (CellR × Option Text)
  | _, [] => []
  | as, c :: rest =>
    match c.shared with
    | none => (c, c.formula) :: expandShared tr colOf rowOf as rest
    | some si =>
      match as.find? (·.si = si) with
      | none =>
        (c, c.formula) :: expandShared tr colOf rowOf (⟨si, colOf c.ref, rowOf c.ref, c.formula.getD []⟩ :: as) rest
      | some a =>
        let dc : Int := (colOf c.ref : Int) - a.col
        let dr : Int := (rowOf c.ref : Int) - a.row
        (c, some (tr a.text dc dr)) :: expandShared tr colOf rowOf as rest

/-- the translation the code uses (`Umya.Formula.setCoordinate` is `parse` + `adjustFormulaCoordinate` +
    `render`); a tokenizer panic is shown as the untranslated text -/
def codeTranslate (text : Text) (dc dr : Int) : Text :=
  match Umya.Formula.setCoordinate text dc dr with
  | .ok t => t
  | .panic => text

/-! ## `<col min max>`: `Columns::set_attributes` clones the column for every index `min..=max` -/

structure ColSpec (α : Type) where
  min : Nat
  max : Nat
  facts : α

def expandCol {α} (c : ColSpec α) : List (Nat × α) :=
  (List.range' c.min (c.max + 1 - c.min)).map fun i => (i, c.facts)

def expandCols {α} (cs : List (ColSpec α)) : List (Nat × α) := cs.flatMap expandCol

end Umya.Reader
