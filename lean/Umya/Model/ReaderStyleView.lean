/-
  The facts of a loaded style (`Umya.Reader.StyleR`, Model/ReaderStyle.lean) as the public getters show them,
  expressed in the vocabulary of the independent decoder (`Umya.Spec.Sml.FontV` …): only the VOCABULARY is
  shared (record types of texts, numbers and flags), no function of the decoder is used.  Core Lean only.
-/
import Umya.Model.ReaderStyle
import Umya.Spec.Sml
namespace Umya.Reader
open Umya.Spec.Xml
open Umya.StyleCodec (Tok Font Fill Borders Alignment Protection NumFmt)

/-! ## the facts of a style as the public getters show them, in the vocabulary of the decoder
     (`Umya.Spec.Sml.FontV` …: enumerations by their XML word, flags as `Bool`, absent = `none`) -/
open Umya.Spec.Sml (ColorV FontV FillV EdgeV BorderV AlignV ProtV)

def colorFacts (c : Umya.StyleCodec.Color) : ColorV :=
  { rgb := c.argb, theme := c.theme, indexed := c.indexed, tint := c.tint }

def fontFacts (f : Font) : FontV :=
  { name := f.name, size := f.size, bold := f.bold.getD false, italic := f.italic.getD false,
    strike := f.strike.getD false, underline := (f.underline.getD .none).toStr.toList, color := colorFacts f.color }

def fillFacts (f : Fill) : FillV :=
  match f.pattern with
  | none => {}
  | some p => { pattern := (p.patternType.getD .none).toStr.toList, fg := p.fg.map colorFacts, bg := p.bg.map colorFacts }

def edgeFacts (b : Umya.StyleCodec.Border) : EdgeV :=
  { style := (b.style.getD .none).toStr.toList, color := colorFacts b.color }

def borderFacts (b : Borders) : BorderV :=
  { left := edgeFacts b.left, right := edgeFacts b.right, top := edgeFacts b.top, bottom := edgeFacts b.bottom,
    diagonal := edgeFacts b.diagonal, diagonalUp := b.diagonalUp.getD false, diagonalDown := b.diagonalDown.getD false }

def alignFacts (a : Alignment) : AlignV :=
  { horizontal := a.horizontal.map (·.toStr.toList), vertical := a.vertical.map (·.toStr.toList),
    wrapText := a.wrapText, textRotation := a.textRotation }

def protFacts (p : Protection) : ProtV := { locked := p.locked, hidden := p.hidden }

/-- the effective formatting of a cell: what is compared with the decoder's `XfV` -/
structure StyleFacts where
  numFmtId : Option Nat := none          -- `none`: no number format object (General)
  formatCode : Option Text := none       -- the code of a format defined in `<numFmts>`
  font : Option FontV := none
  fill : Option FillV := none
  border : Option BorderV := none
  alignment : Option AlignV := none
  protection : Option ProtV := none
  deriving DecidableEq, Repr

def styleFacts (s : StyleR) : StyleFacts :=
  { numFmtId := s.numFmt.map (·.id), formatCode := s.numFmt.bind (fun v => if v.builtIn then none else some v.code),
    font := s.font.map fontFacts, fill := s.fill.map fillFacts, border := s.borders.map borderFacts,
    alignment := s.alignment.map alignFacts, protection := s.protection.map protFacts }

/-! ## the decoder's facts in the same shape: `cf` = "parse the float text, print it again" (the library stores font sizes and
     tints as `f64`); the identity on canonical texts -/
open Umya.Spec.Sml (XfV)

def cfColor (cf : Tok → Tok) (c : ColorV) : ColorV := { c with tint := c.tint.map cf }

def cfFont (cf : Tok → Tok) (v : FontV) : FontV := { v with size := v.size.map cf, color := cfColor cf v.color }

def cfFill (cf : Tok → Tok) (v : FillV) : FillV := { v with fg := v.fg.map (cfColor cf), bg := v.bg.map (cfColor cf) }

def cfEdge (cf : Tok → Tok) (v : EdgeV) : EdgeV := { v with color := cfColor cf v.color }

def cfBorder (cf : Tok → Tok) (v : BorderV) : BorderV :=
  { v with left := cfEdge cf v.left, right := cfEdge cf v.right, top := cfEdge cf v.top, bottom := cfEdge cf v.bottom,
           diagonal := cfEdge cf v.diagonal }

/-- the decoder's facts of one xf, in the shape of the reader's `StyleFacts`; the float texts (font size, tints) through `cf` -/
def xfFacts (cf : Tok → Tok) (x : XfV) : StyleFacts :=
  { numFmtId := if x.numFmtApplied then some x.numFmtId else none, formatCode := x.formatCode,
    font := x.font.map (cfFont cf), fill := x.fill.map (cfFill cf), border := x.border.map (cfBorder cf),
    alignment := x.alignment, protection := x.protection }

end Umya.Reader
