/-
  C19 — model of the DISPATCHER of number formatting: `helper/number_format.rs: to_formatted_string`
  (+ `split_format`) and the formatters it calls (`number_formater.rs: format_as_number`,
  `percentage_formater.rs`, `fraction_formater.rs`, `date_formater.rs: format_as_date`), for a value that is a
  number, precise enough for the format codes of the crate's built-in table (`Umya.Gen.builtin_format_codes`).

  Every operation of these paths that can panic is an explicit `Outcome.panic`:
    * `colors[idx]` / `condops[idx]` with `idx ≥ 5` (arrays of five) in `split_format`;
    * (repaired by fix_3: `format.trim_matches('"').parse::<f64>().unwrap()` for a format code that is one quoted
      literal — the code `"N/A"` panicked; now a literal that is not a number is shown as it is);
    * `1000i32.pow(number of scaling commas)` (overflow checks: four commas or more);
    * `(value.abs() % 1f64).to_string().replace("0.", "").parse::<f64>().unwrap()` in `format_as_fraction`;
    * chrono's `format(..).to_string()` on a strftime string with a specifier chrono refuses
      (`strftime = none`: reported as `unmodelled`, because the model of chrono covers only the specifiers the
      replacement tables can produce — the no-panic theorem shows it cannot happen for the built-in codes).
  The other `unwrap`s / indexings of these paths cannot fail and are discharged here, once:
    * `captures(..).unwrap()` after `find(..).is_some()` / `is_match` on the same text; `ite.unwrap()` on the
      groups of `\[(Black|…)\]`, `(#|0)(,+)`, `(0+)(\.?)(0*)`, `\$[^0-9]*`: every group of these patterns takes part
      in every match; `item[0]`, `matches[2]`, `matches.get(3).unwrap()` index inside the 2 / 3 / 4 groups;
    * `value.parse::<f64>().unwrap()` on `split_value` = `f64::to_string` of a finite number;
    * `condvals[i].parse::<f64>().unwrap()` on `"0"` (sections with a condition are `unmodelled`);
    * `converted_sections[0]`: the section splitter always returns at least one piece.

  The regular expressions (fancy_regex) are library code: each one is replaced by a hand-written matcher for
  that specific pattern (`escapeM`, `splitSections`, `colorM`, `condLike`, `underscoreM`, `isDateTimeM`,
  `scaleCommas`, `contains .. "?/?"`, `bracketM`, `numberDecimals`, `currencyPrefix`, `stripLocalePrefix`,
  `lowerOutsideQuotes`).  That these matchers behave like the regexes is NOT proved; it is tied by the `disp`
  correspondence stream (every built-in id × the value stream, full text compared wherever the model
  computes it).  Where the model does not follow the code (conditions `[>100]`, scaling commas, text that needs
  float printing) it answers `unmodelled`, never a guess.

  Floating point: the value enters as its shortest decimal text `v` (`isPlainDecimal`); the three places where
  the code computes with the double are parameters (`Env`): the double itself (date conversion, any
  `FloatOps` instance), the text of `value.abs() % 1` (fraction formatter) and the text of `value * 24` (`[h]`).
-/
import Umya.Model.NumFmt
import Umya.Model.Date
namespace Umya.NumFmtDispatch
open Umya.NumFmt Umya.Dec
open Umya.Date (startsWith replaceAll contains applyReplacements dateReplacements dateReplacements24
  dateReplacements12 lowerAscii FloatOps excelToEpochSecondsChecked ofEpochSeconds strftime)

/-! ## results -/

/-- which formatter produced the text (the path the Rust takes) -/
inductive Branch
  | general | text | date | dateOutOfRange | literal | percent | fraction | fractionWhole | number | numberRaw
deriving DecidableEq, Repr

def Branch.name : Branch → String
  | .general => "general" | .text => "text" | .date => "date" | .dateOutOfRange => "date-out-of-range"
  | .literal => "literal" | .percent => "percent" | .fraction => "fraction" | .fractionWhole => "fraction-whole"
  | .number => "number" | .numberRaw => "number-raw"

/-- `ok b (some t)`: the call returns `t`; `ok b none`: it returns a text the model does not compute (float
    printing); `panic`: the Rust panics; `unmodelled`: outside the modelled fragment -/
inductive Outcome
  | ok (b : Branch) (text : Option (List Char))
  | panic (why : String)
  | unmodelled (why : String)
deriving DecidableEq, Repr

def Outcome.isOk : Outcome → Bool
  | .ok _ _ => true
  | _ => false

inductive Stop
  | panic (why : String)
  | unmodelled (why : String)
deriving DecidableEq, Repr

/-! ## text helpers -/

def countQuotes (s : List Char) : Nat := (s.filter (· == '"')).length

/-- the look-ahead `(?=(?:[^"]|"[^"]*")*$)`: the rest of the text consists of non-quote characters and complete
    quoted literals, i.e. it has an even number of `"` -/
def balanced (s : List Char) : Bool := countQuotes s % 2 == 0

/-- `Regex::replace_all` for a pattern given as a matcher at a position: `m s = some (len, out)` = the pattern
    matches the first `len ≥ 1` characters of `s`, which are replaced by `out`; leftmost, non-overlapping -/
def scanReplace (m : List Char → Option (Nat × List Char)) (s : List Char) : List Char :=
  go s (s.length + 1)
where
  go (s : List Char) (fuel : Nat) : List Char :=
    match fuel, s with
    | 0, _ => s
    | _, [] => []
    | fuel + 1, c :: r =>
      match m (c :: r) with
      | some (len, out) => out ++ go (r.drop (len - 1)) fuel
      | none => c :: go r fuel

/-- `Regex::is_match` / `find(..).is_some()` for a pattern given as a test at a position (no modelled pattern
    matches the empty text) -/
def scanFind (m : List Char → Bool) : List Char → Bool
  | [] => false
  | c :: r => m (c :: r) || scanFind m r

/-- Unicode `White_Space` (what `str::trim` removes) -/
def isWs (c : Char) : Bool :=
  let n := c.toNat
  (9 ≤ n && n ≤ 13) || n == 32 || n == 0x85 || n == 0xA0 || n == 0x1680 || (0x2000 ≤ n && n ≤ 0x200A) ||
  n == 0x2028 || n == 0x2029 || n == 0x202F || n == 0x205F || n == 0x3000

/-- `str::trim` -/
def trimWs (s : List Char) : List Char :=
  ((s.dropWhile isWs).reverse.dropWhile isWs).reverse

/-- `str::split(c)` -/
def splitOnChar (c : Char) (s : List Char) : List (List Char) := go s []
where
  go : List Char → List Char → List (List Char)
    | [], cur => [cur.reverse]
    | x :: r, cur => if x == c then cur.reverse :: go r [] else go r (x :: cur)

/-- pieces of `s` between the (leftmost, non-overlapping) occurrences of the non-empty text `pat` -/
def splitOnStr (pat : List Char) (s : List Char) : List (List Char) := go s [] (s.length + 1)
where
  go (s cur : List Char) (fuel : Nat) : List (List Char) :=
    match fuel, s with
    | 0, _ => [cur.reverse ++ s]
    | _, [] => [cur.reverse]
    | fuel + 1, c :: r =>
      if !pat.isEmpty && startsWith (c :: r) pat then cur.reverse :: go (r.drop (pat.length - 1)) [] fuel
      else go r (c :: cur) fuel

/-- `str::len` (UTF-8 bytes) -/
def utf8Len (s : List Char) : Nat := (s.map Char.utf8Size).sum

/-! ## `to_formatted_string`: the stages before a formatter is chosen -/

/-- `ESCAPE_REGEX` = `(\\\(((.)(?!((AM\/PM)|(A\/P)))|([^ ])))(?=(?:[^"]|"[^"]*")*$)`: a backslash, an opening
    parenthesis (the `\(` of the pattern is a literal parenthesis), one character that is (not a line feed and
    not followed by `AM/PM` / `A/P`) or (not a blank), followed by balanced quotes; replaced by `"$0"` -/
def escapeM (s : List Char) : Option (Nat × List Char) :=
  match s with
  | '\\' :: '(' :: x :: rest =>
    let alt1 := x != '\n' && !(startsWith rest "AM/PM".toList || startsWith rest "A/P".toList)
    let alt2 := x != ' '
    if (alt1 || alt2) && balanced rest then some (3, ['"', '\\', '(', x, '"']) else none
  | _ => none

/-- `split(&SECTION_REGEX, ..)`, `SECTION_REGEX` = `(;)(?=(?:[^"]|"[^"]*")*$)`: pieces between the `;` that are
    followed by balanced quotes; always at least one piece -/
def splitSections (s : List Char) : List (List Char) := go s []
where
  go : List Char → List Char → List (List Char)
    | [], cur => [cur.reverse]
    | c :: r, cur => if c == ';' && balanced r then cur.reverse :: go r [] else go r (c :: cur)

/-- `Color::NAMED_COLORS` -/
def namedColors : List (List Char) :=
  ["Black", "White", "Red", "Green", "Blue", "Yellow", "Magenta", "Cyan"].map String.toList

/-- `\[(Black|White|…)\]` at a position; `replace_all(section, "")` -/
def colorM (s : List Char) : Option (Nat × List Char) :=
  match s with
  | '[' :: r =>
    match namedColors.find? (fun n => startsWith r (n ++ [']'])) with
    | some n => some (n.length + 2, [])
    | none => none
  | _ => none

/-- a superset of the positions where `\[(>|>=|<|<=|=|<>)([+-]?\d+([.]\d+)?)\]` can match (sections with a
    condition are outside the model) -/
def condLike : List Char → Bool
  | '[' :: c :: _ => c == '>' || c == '<' || c == '='
  | _ => false

/-- the `for_each` over the sections in `split_format`: colours removed; `colors[idx]` is an array of five -/
def convertSections : List (List Char) → Nat → Except Stop (List (List Char))
  | [], _ => .ok []
  | sec :: rest, idx =>
    let hasColor := scanFind (fun s => (colorM s).isSome) sec
    if hasColor && decide (5 ≤ idx) then .error (.panic "colors[idx]: index out of bounds")
    else if scanFind condLike sec then .error (.unmodelled "section with a condition")
    else
      match convertSections rest (idx + 1) with
      | .ok r => .ok ((if hasColor then scanReplace colorM sec else sec) :: r)
      | .error e => .error e

/-- sign of the number, read off its shortest decimal text (a non-zero double prints a non-zero digit) -/
inductive SignClass
  | pos | neg | zero
deriving DecidableEq, Repr

def nonzeroDigit (v : List Char) : Bool := v.any (fun c => isDigit c && c != '0')

def signClass (v : List Char) : SignClass :=
  if !nonzeroDigit v then .zero else if v.head? == some '-' then .neg else .pos

/-- `f64::abs` then `to_string` -/
def absText (v : List Char) : List Char :=
  match v with
  | '-' :: r => r
  | _ => v

/-- the `match cnt` of `split_format` without conditions: two sections `value >= 0`; three or four
    `value > 0`, `value < 0`, else; the flag says whether the value became its absolute value -/
def chooseSection (secs : List (List Char)) (sc : SignClass) : Option (List Char × Bool) :=
  match secs with
  | [] => none
  | [a, b] => some (if sc == .neg then b else a, true)
  | [a, b, c] => some (if sc == .pos then a else if sc == .neg then b else c, true)
  | [a, b, c, _] => some (if sc == .pos then a else if sc == .neg then b else c, true)
  | a :: _ => some (a, false)

/-- `Regex::new("_.")`, replaced by a blank -/
def underscoreM : List Char → Option (Nat × List Char)
  | '_' :: x :: _ => if x != '\n' then some (2, [' ']) else none
  | _ => none

/-- `DATE_TIME_REGEX` = `(\[\$[A-Z]*-[0-9A-F]*\])*[hmsdy](?=(?:[^"]|"[^"]*")*$)` at a position (the optional
    prefix does not change whether there is a match) -/
def isDateTimeM : List Char → Bool
  | c :: r => (c == 'h' || c == 'm' || c == 's' || c == 'd' || c == 'y') && balanced r
  | [] => false

/-- `str::trim_matches('"')` -/
def trimQuotes (s : List Char) : List Char :=
  ((s.dropWhile (· == '"')).reverse.dropWhile (· == '"')).reverse

/-! ## `format_as_number` -/

/-- the first match of `SCALE_REGEX` = `(#|0)(,+)`: the number of commas of group 2 -/
def scaleCommas : List Char → Option Nat
  | [] => none
  | c :: r =>
    if (c == '#' || c == '0') && r.head? == some ',' then some (r.takeWhile (· == ',')).length
    else scaleCommas r

/-- `SQUARE_BRACKET_REGEX` = `\[[^\]]+\]` at a position -/
def bracketM : List Char → Option (Nat × List Char)
  | '[' :: r =>
    let inner := r.takeWhile (· != ']')
    if !inner.isEmpty && (r.drop inner.length).head? == some ']' then some (inner.length + 2, []) else none
  | _ => none

/-- `NUMBER_REGEX` = `(0+)(\.?)(0*)`, first match: the length of group 3 (`none`: no `0` in the text) -/
def numberDecimals (m : List Char) : Option Nat :=
  match m.dropWhile (· != '0') with
  | [] => none
  | r =>
    match r.dropWhile (· == '0') with
    | '.' :: z => some (z.takeWhile (· == '0')).length
    | _ => some 0

/-- `\$[^0-9]*`, first match (`[]`: no `$`) -/
def currencyPrefix (f : List Char) : List Char :=
  match f.dropWhile (· != '$') with
  | [] => []
  | d :: r => d :: r.takeWhile (fun c => !isDigit c)

/-! ## `format_as_date`: the strftime string -/

/-- a piece of the strftime string: literal text, or the text of `value * 24` (from `[h]`) -/
inductive Seg
  | lit (l : List Char)
  | hours
deriving DecidableEq, Repr

def isAlnum (c : Char) : Bool :=
  isDigit c || (65 ≤ c.toNat && c.toNat ≤ 90) || (97 ≤ c.toNat && c.toNat ≤ 122)

def isUpper (c : Char) : Bool := 65 ≤ c.toNat && c.toNat ≤ 90
def isHexUpper (c : Char) : Bool := isDigit c || (65 ≤ c.toNat && c.toNat ≤ 70)

/-- `(\[[0-9A-Za-z]*\])*` at the start: what is left after the groups (greedy = the only way, `$` is not
    alphanumeric) -/
def dropBracketGroups (s : List Char) : List Char := go s (s.length + 1)
where
  go (s : List Char) (fuel : Nat) : List Char :=
    match fuel, s with
    | 0, _ => s
    | fuel + 1, '[' :: r =>
      match r.dropWhile isAlnum with
      | ']' :: r' => go r' fuel
      | _ => '[' :: r
    | _, _ => s

/-- `^(\[[0-9A-Za-z]*\])*(\[\$[A-Z]*-[0-9A-F]*\])` replaced by nothing -/
def stripLocalePrefix (f : List Char) : List Char :=
  match dropBracketGroups f with
  | '[' :: '$' :: r =>
    match r.dropWhile isUpper with
    | '-' :: r' =>
      match r'.dropWhile isHexUpper with
      | ']' :: rest => rest
      | _ => f
    | _ => f
  | _ => f

/-- `(?:^|")([^"]*)(?:$|")` with the match lower-cased: the matches are exactly the stretches outside quoted
    literals (with the quotes next to them), so the text outside quotes is lower-cased, quoted text is kept -/
def lowerOutsideQuotes : List Char → Bool → List Char
  | [], _ => []
  | c :: r, inQ =>
    if c == '"' then c :: lowerOutsideQuotes r (!inQ)
    else (if inQ then c else lowerAscii c) :: lowerOutsideQuotes r inQ

/-- text outside quoted literals is ASCII (so that `to_lowercase` is `lowerAscii` there) -/
def asciiOutsideQuotes : List Char → Bool → Bool
  | [], _ => true
  | c :: r, inQ =>
    if c == '"' then asciiOutsideQuotes r (!inQ)
    else (inQ || decide (c.toNat < 128)) && asciiOutsideQuotes r inQ

def intersperseHours : List (List Char) → List Seg
  | [] => []
  | [a] => [.lit a]
  | a :: r => .lit a :: .hours :: intersperseHours r

/-- the loop over `format.split('"')`: blocks with an even counter get the replacement tables; a block with
    `[h]` is pushed with `[h]` replaced by the text of `value * 24` and — as in the code (`continue`) — does not
    advance the counter -/
def dateBlocks : List (List Char) → Nat → List Seg
  | [], _ => []
  | b :: rest, i =>
    if i % 2 == 0 then
      let b1 := applyReplacements dateReplacements b
      if !contains b1 "%P".toList then
        if contains b1 "[h]".toList then
          intersperseHours (splitOnStr "[h]".toList b1) ++ dateBlocks rest i
        else .lit (applyReplacements dateReplacements24 b1) :: dateBlocks rest (i + 1)
      else .lit (applyReplacements dateReplacements12 b1) :: dateBlocks rest (i + 1)
    else .lit b :: dateBlocks rest (i + 1)

/-- the strftime string `format_as_date` hands to chrono, as pieces; the last regex stage (`"(.*)"`) finds
    no quote any more (the blocks were split on `"` and joined with the empty string) -/
def dateSegs (f : List Char) : Except Stop (List Seg) :=
  let f1 := stripLocalePrefix f
  if !balanced f1 then .error (.unmodelled "date format with an unclosed quote")
  else if !asciiOutsideQuotes f1 false then .error (.unmodelled "date format with non-ASCII text outside quotes")
  else .ok (dateBlocks (splitOnChar '"' (lowerOutsideQuotes f1 false)) 0)

def flatten (segs : List Seg) (hours : List Char) : List Char :=
  segs.flatMap (fun s => match s with
    | .lit l => l
    | .hours => hours)

/-! ## the plan: everything that depends on the format code and the sign of the value only -/

inductive Plan
  | general
  | text
  | date (segs : List Seg) (useAbs : Bool)
  | literal (inner : List Char)
  | percent (decimals : Nat) (thousands : Bool) (useAbs : Bool)
  | fraction (pre : List Char) (useAbs : Bool)
  | number (decimals : Option Nat) (thousands : Bool) (pre : List Char) (useAbs : Bool)
  | stop (s : Stop)
deriving DecidableEq, Repr

/-- `format_as_percentage` -/
def percentPlan (f : List Char) (useAbs : Bool) : Plan :=
  let f' := f.filter (· != '%')
  let len := match splitOnChar '.' f' with
    | _ :: b :: _ => utf8Len b
    | _ => 0
  .percent len (contains f' "#,#".toList || contains f' "0,0".toList) useAbs

/-- `format_as_number` up to the point where the value is rendered -/
def numberPlan (f : List Char) (useAbs : Bool) : Plan :=
  let f1 := f.filter (fun c => c != '"' && c != '*')
  let th := contains f1 "#,#".toList || contains f1 "0,0".toList
  let f2 := if th then replaceAll (replaceAll f1 "0,0".toList "00".toList) "#,#".toList "##".toList else f1
  match scaleCommas f2 with
  | some n =>
    if 4 ≤ n then .stop (.panic "1000i32.pow(commas): attempt to multiply with overflow")
    else .stop (.unmodelled "scaling commas")
  | none =>
    if contains f2 "?/?".toList then .fraction (currencyPrefix f2) useAbs
    else
      let f3 := replaceAll f2 ['#'] ['0']
      let f3 := f3.filter (· != '\\')
      let f3 := trimWs (replaceAll f3 "[$-.*]".toList [])
      .number (numberDecimals (scanReplace bracketM f3)) th (currencyPrefix f3) useAbs

def plan (code : List Char) (sc : SignClass) : Plan :=
  if code = general then .general
  else if code = textCode then .text
  else
    match convertSections (splitSections (scanReplace escapeM code)) 0 with
    | .error e => .stop e
    | .ok secs =>
      match chooseSection secs sc with
      | none => .stop (.panic "converted_sections[0]")
      | some (sec, useAbs) =>
        let f := scanReplace underscoreM sec
        if scanFind isDateTimeM f then
          match dateSegs f with
          | .ok segs => .date segs useAbs
          | .error e => .stop e
        else if f.head? == some '"' && f.getLast? == some '"' then .literal (trimQuotes f)
        else if f.getLast? == some '%' then percentPlan f useAbs
        else numberPlan f useAbs

/-! ## running a plan on a value -/

/-- what the code computes with the double itself -/
structure Env (F : Type) where
  /-- the number -/
  val : F
  /-- `f64::abs` of it -/
  absVal : F
  /-- `(value.abs() % 1f64).to_string()` -/
  rem : List Char
  /-- `(value * 24f64).to_string()` -/
  hours : List Char
  /-- the same for the absolute value -/
  hoursAbs : List Char

/-- `str::parse::<usize>()` (64-bit): an optional `+`, at least one ASCII digit, below `2^64` -/
def parsesAsUsize (s : List Char) : Bool :=
  let d := match s with
    | '+' :: r => r
    | _ => s
  !d.isEmpty && d.all isDigit && decide (parseDec d < 18446744073709551616)

/-- `.replace("0.", "").parse::<f64>()`: `none` = `Err` (the `unwrap` panics) -/
def fractionDecimalPart (rem : List Char) : Option (List Char) :=
  let s := replaceAll rem ['0', '.'] []
  if isF64Syntax s then some s else none

def run {F : Type} [FloatOps F] (p : Plan) (v : List Char) (env : Env F) : Outcome :=
  match p with
  | .general => .ok .general (some v)
  | .text => .ok .text (some v)
  | .date segs useAbs =>
    let g := if useAbs then absText v else v
    let sf := flatten segs (if useAbs then env.hoursAbs else env.hours)
    match excelToEpochSecondsChecked (if useAbs then env.absVal else env.val) with
    | none => .ok .dateOutOfRange (some (trimWs g))
    | some t =>
      match strftime (ofEpochSeconds t) sf (sf.length + 1) with
      | some s => .ok .date (some (trimWs s))
      | none => .unmodelled "strftime specifier"
  | .literal inner =>
    -- after fix_3: `match literal.parse::<f64>() { Ok(n) => n.to_string(), Err(_) => literal }`
    if isF64Syntax inner then .ok .literal none
    else .ok .literal (some (trimWs inner))
  | .percent n th useAbs =>
    let g := if useAbs then absText v else v
    .ok .percent (some (trimWs (formatDecimalText g 2 n th ++ ['%'])))
  | .fraction pre useAbs =>
    let g := if useAbs then absText v else v
    if parsesAsUsize g then .ok .fractionWhole (some (trimWs (pre ++ g)))
    else
      match fractionDecimalPart env.rem with
      | some _ => .ok .fraction none
      | none => .panic "format_as_fraction: decimal part .parse::<f64>().unwrap()"
  | .number dec th pre useAbs =>
    let g := if useAbs then absText v else v
    match dec with
    | some n => .ok .number (some (trimWs (pre ++ formatDecimalText g 0 n th)))
    | none => .ok .numberRaw (some (trimWs (pre ++ g)))
  | .stop (.panic w) => .panic w
  | .stop (.unmodelled w) => .unmodelled w

/-- **`to_formatted_string(value, format)`** for a value that is the shortest decimal text of a finite number -/
def dispatch {F : Type} [FloatOps F] (code v : List Char) (env : Env F) : Outcome :=
  if !isPlainDecimal v then .unmodelled "value is not the shortest text of a finite number"
  else run (plan code (signClass v)) v env

/-! ## the explicit hypotheses of the theorems -/

/-- the shape of `f64::to_string` of a number in `[0, 1)`: `0` or `0.D+` -/
def isFracText (r : List Char) : Bool :=
  match r with
  | ['0'] => true
  | '0' :: '.' :: ds => !ds.isEmpty && ds.all isDigit
  | _ => false

/-- all that is needed of the text of `value * 24`: no `%` in it (`f64::to_string` prints digits, `-`, `.`,
    `inf`, `NaN`) -/
def isHoursText (h : List Char) : Bool := h.all (· != '%')

end Umya.NumFmtDispatch
