/-
  The PACKAGE the writer assembles (`make_buffer`, `src/writer/xlsx.rs`) for a workbook whose sheets may carry
  COMMENTS — the package model of `Umya/Model/PackageNode.lean` (n plain sheets) extended by what a sheet with
  comments adds.  Still outside: custom document properties, macros, ribbon, pivot caches, raw sheets, drawings,
  charts, images, OLE objects, printer settings, tables.

  Per sheet, in sheet order, `make_buffer` runs (second loop, "Objects associated with worksheets")

      vml_drawing::write      `has_legacy_drawing()` = `has_comments() || has_ole_objects()`: the VML part
                              `xl/drawings/vmlDrawing{v}.vml`, v = `WriterManager::add_file_at_vml_drawing`
      vml_drawing_rels::write nothing without OLE images
      comment::write          `!get_comments().is_empty()`: `xl/comments{c}.xml`, c = `add_file_at_comment`
      worksheet_rels::write   hyperlink relationships (the non-location ones, `rId1` …), then — no printer settings, no
                              drawing here — `rId{r}` vmlDrawing → `../drawings/vmlDrawing{v}.vml`, — no tables, no OLE
                              objects — `rId{r+1}` comments → `../comments{c}.xml` (no `TargetMode`), r = the counter
                              after the hyperlink loop; the part is written iff it has a relationship

  and `worksheet::write` (first loop) writes `<legacyDrawing r:id="rId{r}"/>` after `colBreaks` / `drawing` with ITS
  counter after ITS hyperlink loop: the same function of the same link list (`hlNext 1 links`).

  NUMBERING.  `add_file_at_vml_drawing` / `add_file_at_comment`: `index = 0; loop { index += 1; if
  !check_file_exist(format!(…{index}…)) { add_writer(…); return index } }` — the smallest index whose file name
  is not yet registered.  The model keeps, per family, the list of NUMBERS already registered (a file name
  `xl/drawings/vmlDrawing{i}.vml` is in `files` iff `i` is in that list: the formats are injective and no other part
  has such a name) and runs the loop on fuel (`firstFreeGo`; `used.length` tests suffice for every list:
  `firstFree_spec`, pigeonhole; on the lists that arise here, `[1, …, c]`, it returns `c + 1`: `firstFree_range`).

  `[Content_Types].xml`: `Default` rels, xml and — `has_extension("vml")` — vml; one `Override` per registered part
  whose name starts with a known prefix: in addition to those of the plain package, `/xl/comments{c}.xml`
  (`COMMENTS_TYPE`).  The VML part matches no prefix (it falls under `Default vml`).

  The trees of the two new parts are those of `Umya/Model/AnnotComment.lean` (`writeVml`, `writeComments`, tied to
  the code by C06's `cmt` requests); the package theorems use only that they are trees.  The order of the parts in
  this list is: the four fixed parts, the sheets, the VML / comments parts, the sheet relationship parts, … (the
  code interleaves vml_k, comments_k, rels_k per sheet; a reader looks a part up by name, the tie compares sets).
  Core Lean only.
-/
import Umya.Model.PackageNode
import Umya.Model.AnnotComment
namespace Umya.PackageNode
open Umya.Xml Umya.CellXml Umya.CellNode Umya.SheetNode Umya.WorkbookNode Umya.Dec
open Umya.Spec.Xml (Node Attr)
open Umya.Spec.Sml (Part Package)
open Umya.AnnotComment (Comment writeVml writeComments)

/-! ## names, types -/

/-- `format!("{}/vmlDrawing{}.vml", PKG_DRAWINGS, index)` -/
def vmlPartL (v : Nat) : List Char :=
  'x' :: 'l' :: '/' :: 'd' :: 'r' :: 'a' :: 'w' :: 'i' :: 'n' :: 'g' :: 's' :: '/' :: 'v' :: 'm' :: 'l' :: 'D' :: 'r' :: 'a' :: 'w' :: 'i' :: 'n' :: 'g' :: (decDigits v ++ ['.', 'v', 'm', 'l'])

/-- `format!("xl/comments{}.xml", index)` -/
def commentsPartL (c : Nat) : List Char :=
  'x' :: 'l' :: '/' :: 'c' :: 'o' :: 'm' :: 'm' :: 'e' :: 'n' :: 't' :: 's' :: (decDigits c ++ ['.', 'x', 'm', 'l'])

/-- `format!("../drawings/vmlDrawing{}.vml", vml_drawing_no)` -/
def vmlTarget (v : Nat) : List Char :=
  '.' :: '.' :: '/' :: 'd' :: 'r' :: 'a' :: 'w' :: 'i' :: 'n' :: 'g' :: 's' :: '/' :: 'v' :: 'm' :: 'l' :: 'D' :: 'r' :: 'a' :: 'w' :: 'i' :: 'n' :: 'g' :: (decDigits v ++ ['.', 'v', 'm', 'l'])

/-- `format!("../comments{}.xml", comment_no)` -/
def commentsTarget (c : Nat) : List Char :=
  '.' :: '.' :: '/' :: 'c' :: 'o' :: 'm' :: 'm' :: 'e' :: 'n' :: 't' :: 's' :: (decDigits c ++ ['.', 'x', 'm', 'l'])

def tVml : List Char := ['h', 't', 't', 'p', ':', '/', '/', 's', 'c', 'h', 'e', 'm', 'a', 's', '.', 'o', 'p', 'e', 'n', 'x', 'm', 'l', 'f', 'o', 'r', 'm', 'a', 't', 's', '.', 'o', 'r', 'g', '/', 'o', 'f', 'f', 'i', 'c', 'e', 'D', 'o', 'c', 'u', 'm', 'e', 'n', 't', '/', '2', '0', '0', '6', '/', 'r', 'e', 'l', 'a', 't', 'i', 'o', 'n', 's', 'h', 'i', 'p', 's', '/', 'v', 'm', 'l', 'D', 'r', 'a', 'w', 'i', 'n', 'g']
def tComments : List Char := ['h', 't', 't', 'p', ':', '/', '/', 's', 'c', 'h', 'e', 'm', 'a', 's', '.', 'o', 'p', 'e', 'n', 'x', 'm', 'l', 'f', 'o', 'r', 'm', 'a', 't', 's', '.', 'o', 'r', 'g', '/', 'o', 'f', 'f', 'i', 'c', 'e', 'D', 'o', 'c', 'u', 'm', 'e', 'n', 't', '/', '2', '0', '0', '6', '/', 'r', 'e', 'l', 'a', 't', 'i', 'o', 'n', 's', 'h', 'i', 'p', 's', '/', 'c', 'o', 'm', 'm', 'e', 'n', 't', 's']
def ctVml : List Char := ['a', 'p', 'p', 'l', 'i', 'c', 'a', 't', 'i', 'o', 'n', '/', 'v', 'n', 'd', '.', 'o', 'p', 'e', 'n', 'x', 'm', 'l', 'f', 'o', 'r', 'm', 'a', 't', 's', '-', 'o', 'f', 'f', 'i', 'c', 'e', 'd', 'o', 'c', 'u', 'm', 'e', 'n', 't', '.', 'v', 'm', 'l', 'D', 'r', 'a', 'w', 'i', 'n', 'g']
def ctComments : List Char := ['a', 'p', 'p', 'l', 'i', 'c', 'a', 't', 'i', 'o', 'n', '/', 'v', 'n', 'd', '.', 'o', 'p', 'e', 'n', 'x', 'm', 'l', 'f', 'o', 'r', 'm', 'a', 't', 's', '-', 'o', 'f', 'f', 'i', 'c', 'e', 'd', 'o', 'c', 'u', 'm', 'e', 'n', 't', '.', 's', 'p', 'r', 'e', 'a', 'd', 's', 'h', 'e', 'e', 't', 'm', 'l', '.', 'c', 'o', 'm', 'm', 'e', 'n', 't', 's', '+', 'x', 'm', 'l']
def nLegacyDrawing : List Char := ['l', 'e', 'g', 'a', 'c', 'y', 'D', 'r', 'a', 'w', 'i', 'n', 'g']

/-! ## the smallest free index -/

/-- `loop { index += 1; if !check_file_exist(path(index)) { return index } }` on fuel, `i` = the index under test -/
def firstFreeGo (used : List Nat) : Nat → Nat → Nat
  | 0, i => i
  | fuel + 1, i => if used.contains i then firstFreeGo used fuel (i + 1) else i

/-- `used` = the numbers whose file is registered; after `used.length` occupied indexes the next one is free -/
def firstFree (used : List Nat) : Nat := firstFreeGo used used.length 1

/-- the numbers handed out to the sheets in order (`flags` = the sheet has comments): the VML number and the comments
    number, each the smallest one free in its family at that moment -/
def numbering : List Nat → List Nat → List Bool → List (Option (Nat × Nat))
  | _, _, [] => []
  | vu, cu, false :: r => none :: numbering vu cu r
  | vu, cu, true :: r => some (firstFree vu, firstFree cu) :: numbering (vu ++ [firstFree vu]) (cu ++ [firstFree cu]) r

/-! ## the sheets -/

/-- one sheet that may carry comments.  `frame.post` holds the opaque children of `<worksheet>` that come BEFORE the
    place of `legacyDrawing` (printOptions … colBreaks, drawing), `postB` those after it (legacyDrawingHF … extLst);
    `authors` is the authors table of the comments part in the order the hash set yields it -/
structure SheetC (N : Type) where
  entry : SheetE
  sheet : SheetW N
  frame : Frame := {}
  postB : List Node := []
  xf : List Char → Nat := fun _ => 0
  comments : List Comment := []
  authors : List (List Char) := []

/-- `has_comments()` -/
def SheetC.has {N} (s : SheetC N) : Bool := !s.comments.isEmpty

/-- `write_start_tag(&mut writer, "legacyDrawing", vec![("r:id", &r_id_str)], true)` -/
def legacyEl (k : Nat) : Node := Node.elem nLegacyDrawing [⟨['r', ':', 'i', 'd'], rIdText k⟩] []

/-- the `legacyDrawing` child: `r_id` is what the hyperlink loop of worksheet.rs left -/
def SheetC.legacy {N} (s : SheetC N) : List Node := if s.has then [legacyEl (hlNext 1 s.sheet.links)] else []

/-- the opaque children WITHOUT `legacyDrawing` -/
def SheetC.frameU {N} (s : SheetC N) : Frame := { s.frame with post := s.frame.post ++ s.postB }

/-- the frame of the written `<worksheet>` -/
def SheetC.frameW {N} (s : SheetC N) : Frame := { s.frame with post := s.frame.post ++ s.legacy ++ s.postB }

/-- as a sheet of the plain model: `legacyDrawing` is one of the children of its frame -/
def SheetC.toP {N} (s : SheetC N) : SheetP N := { entry := s.entry, sheet := s.sheet, frame := s.frameW, xf := s.xf }

structure BookC (N : Type) where
  sheets : List (SheetC N)
  names : List NameE := []
  wbFrame : WbFrame := {}
  app : Node
  core : Node
  theme : Node
  styles : Node

/-- every sheet with the numbers of its VML part and comments part (none without comments) -/
def annotate {N} (ss : List (SheetC N)) : List (SheetC N × Option (Nat × Nat)) :=
  ss.zip (numbering [] [] (ss.map (·.has)))

/-! ## the relationships a sheet with comments adds -/

/-- `rId{k}` vmlDrawing, `rId{k+1}` comments (worksheet_rels.rs, in this order, no `TargetMode`) -/
def cmtRelNodes (k v c : Nat) : List Node := [relEl k tVml (vmlTarget v), relEl (k + 1) tComments (commentsTarget c)]

/-- what follows the hyperlink relationships; the counter continues from the hyperlink loop of worksheet_rels.rs -/
def restOf (links : List LinkW) : Option (Nat × Nat) → List Node
  | none => []
  | some (v, c) => cmtRelNodes (hlNext 1 links) v c

/-- sheet relationship parts for (links, what follows) pairs, `k` = the sheet number -/
def relsPartsG : Nat → List (List LinkW × List Node) → List Part
  | _, [] => []
  | k, (ls, rest) :: r =>
    (match relsRoot ls rest with
     | some rr => [xmlPart (sheetRelsL k) rr]
     | none => []) ++ relsPartsG (k + 1) r

def relsInput {N} (an : List (SheetC N × Option (Nat × Nat))) : List (List LinkW × List Node) :=
  an.map fun p => (p.1.sheet.links, restOf p.1.sheet.links p.2)

/-- the VML parts and the comments parts; `none` = `Coordinate::to_string` of a comment asserts -/
def cmtPartsC {N} : List (SheetC N × Option (Nat × Nat)) → Option (List Part)
  | [] => some []
  | (_, none) :: r => cmtPartsC r
  | (s, some (v, c)) :: r =>
    match writeComments s.authors s.comments, cmtPartsC r with
    | some root, some ps => some (xmlPart (vmlPartL v) (writeVml s.comments) :: xmlPart (commentsPartL c) root :: ps)
    | _, _ => none

def vmlNums {N} (an : List (SheetC N × Option (Nat × Nat))) : List Nat := an.filterMap fun p => p.2.map (·.1)
def cmtNums {N} (an : List (SheetC N × Option (Nat × Nat))) : List Nat := an.filterMap fun p => p.2.map (·.2)

/-! ## `[Content_Types].xml` -/

def commentsOverrides (cs : List Nat) : List Node := cs.map fun c => overrideEl (commentsPartL c) ctComments

def contentTypesNodeC (n : Nat) (hasSst : Bool) (vs cs : List Nat) : Node :=
  Node.elem ['T', 'y', 'p', 'e', 's'] [⟨['x', 'm', 'l', 'n', 's'], ctNs⟩]
    ([defaultEl ['r', 'e', 'l', 's'] ctRels, defaultEl ['x', 'm', 'l'] ctXml] ++
     (if vs.isEmpty then [] else [defaultEl ['v', 'm', 'l'] ctVml]) ++
     [overrideEl nApp ctApp, overrideEl nCore ctCore] ++ commentsOverrides cs ++
     (if hasSst then [overrideEl nSst ctSst] else []) ++
     [overrideEl nStyles ctStyles, overrideEl nTheme ctTheme, overrideEl nWorkbookPart ctWorkbook] ++
     sheetOverrides 1 n)

/-! ## the package -/

def BookC.toP {N} (b : BookC N) : BookP N :=
  { sheets := b.sheets.map (·.toP), names := b.names, wbFrame := b.wbFrame, app := b.app, core := b.core, theme := b.theme, styles := b.styles }

section
variable (F : Umya.Num.NumFmt)

def assembleC (b : BookC F.Num) (hasSst : Bool) (roots : List Node) (cmt : List Part) (sst : List Part) : Package :=
  let n := b.sheets.length
  let an := annotate b.sheets
  [xmlPart nApp b.app, xmlPart nCore b.core, xmlPart nRootRels rootRelsNode, xmlPart nTheme b.theme] ++
  sheetParts 1 roots ++ cmt ++ relsPartsG 1 (relsInput an) ++ sst ++
  [xmlPart nStyles b.styles,
   xmlPart nWorkbookPart (workbookNode b.wbFrame (b.sheets.map (·.entry)) b.names),
   xmlPart nWorkbookRels (workbookRelsNode n (wbRelsRest n hasSst)),
   xmlPart nContentTypes (contentTypesNodeC n hasSst (vmlNums an) (cmtNums an))]

/-- `make_buffer` for workbooks whose sheets may carry comments; the `<worksheet>` trees are those of the plain
    model for the frames that contain the `legacyDrawing` child -/
def writePackageC (b : BookC F.Num) : Option Package :=
  match renderSheetsP F [] (b.sheets.map (·.toP)) with
  | none => none
  | some (tbl, roots) =>
    match cmtPartsC (annotate b.sheets) with
    | none => none
    | some cmt => (sstPartsP tbl).map (assembleC F b (!tbl.isEmpty) roots cmt)

end

/-! ## the skeleton (what the tie compares with the real package) -/

/-- the relationships of a sheet after the hyperlink ones -/
def cmtRelTs (k : Nat) : Option (Nat × Nat) → List RelT
  | none => []
  | some (v, c) => [⟨rIdText k, tVml, vmlTarget v, false⟩, ⟨rIdText (k + 1), tComments, commentsTarget c, false⟩]

def sheetRelsSkelC : Nat → List (List LinkW × Option (Nat × Nat)) → List PartS
  | _, [] => []
  | k, (ls, num) :: r =>
    (if linkRelTs 1 ls ++ cmtRelTs (hlNext 1 ls) num = [] then [] else [⟨sheetRelsL k, some ctRels, linkRelTs 1 ls ++ cmtRelTs (hlNext 1 ls) num⟩]) ++
    sheetRelsSkelC (k + 1) r

def cmtSkel : List (Option (Nat × Nat)) → List PartS
  | [] => []
  | none :: r => cmtSkel r
  | some (v, c) :: r => ⟨vmlPartL v, some ctVml, []⟩ :: ⟨commentsPartL c, some ctComments, []⟩ :: cmtSkel r

/-- the skeleton of the package for `links` = the (sorted) hyperlinks of every sheet, `flags` = which sheets have
    comments, and whether a shared-string part is written -/
def skeletonC (links : List (List LinkW)) (flags : List Bool) (hasSst : Bool) : List PartS :=
  let n := links.length
  let nums := numbering [] [] flags
  [⟨nApp, some ctApp, []⟩, ⟨nCore, some ctCore, []⟩,
   ⟨nRootRels, some ctRels, [⟨rIdText 3, tXprops, nApp, false⟩, ⟨rIdText 2, tCoreprops, nCore, false⟩, ⟨rIdText 1, tOfficeDoc, nWorkbookPart, false⟩]⟩,
   ⟨nTheme, some ctTheme, []⟩] ++
  sheetSkel 1 n ++ cmtSkel nums ++ sheetRelsSkelC 1 (links.zip nums) ++
  (if hasSst then [⟨nSst, some ctSst, []⟩] else []) ++
  [⟨nStyles, some ctStyles, []⟩, ⟨nWorkbookPart, some ctWorkbook, []⟩,
   ⟨nWorkbookRels, some ctRels,
     wsRelTs 1 n ++ [⟨rIdText (n + 1), tStyles, ['s', 't', 'y', 'l', 'e', 's', '.', 'x', 'm', 'l'], false⟩, ⟨rIdText (n + 2), tTheme, ['t', 'h', 'e', 'm', 'e', '/', 't', 'h', 'e', 'm', 'e', '1', '.', 'x', 'm', 'l'], false⟩] ++
     (if hasSst then [⟨rIdText (n + 3), tSharedStrings, ['s', 'h', 'a', 'r', 'e', 'd', 'S', 't', 'r', 'i', 'n', 'g', 's', '.', 'x', 'm', 'l'], false⟩] else [])⟩,
   ⟨nContentTypes, none, []⟩]

end Umya.PackageNode
