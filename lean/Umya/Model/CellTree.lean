/-
  The cell reader of C01 (`Umya/Model/CellXml.lean`: `readCell`, `readSi`, `readBook` — the model of
  `Cell::set_attributes`, `SharedStringItem::set_attributes`, `read_reader(.., true)`, which works on lexed
  FACTS) lifted to the ELEMENT TREES an XML 1.0 reader delivers (`Umya/Spec/XmlLex.lean`: `parse`), so that
  it can be applied to the CHARACTERS of a written part:

      characters ──parse──▶ element tree ──fact view──▶ facts ──C01's reader──▶ cells

  THE FACT VIEW (`cellFact`, `siFact`).  A fact carries the RAW (escaped) content of `<f>`, `<v>`, `<t>`;
  a tree carries the VALUE an XML reader returns for it (references expanded, line ends normalised).  The
  view spells that value with quick-xml's `escape` — the canonical raw text of the value: for every text
  `unescape_text (escape s) = s` (`C01_unescape_text_escape`).  Two consequences, both inherent to reading
  through an XML 1.0 infoset and both stated where the theorems are:
    * `trim_text(true)` of the sheet reader trims the RAW bytes, so a blank written as a character reference
      survives it; on a tree a referenced blank and a literal blank are the same character.  The writers of
      this library never write a blank as a reference except `\r` (`&#13;`), and never into a trimmed element
      (`<v>` of a number, boolean, error, index), so nothing differs on written parts
      (cf. the known finding C03-edge-inline-t-blanks-trimmed for hand-made parts).
    * `<v/>` (Empty event: ignored by `Cell::set_attributes`) and `<v></v>` (Start + End: an empty string)
      are the same tree.  A childless `<v>` is viewed as `<v/>`.  The library writes `<v></v>` only for a
      formula whose cached result is the EMPTY TEXT (`t="str"`): that cell is outside `charsOK`
      (`C01_empty_cached_text_same_tree`).
  Elements are looked up by local name, the LAST matching child wins (the reader's loops overwrite).

  RUN PROPERTIES.  A run's `<rPr>` is an opaque token in C01 (`Run.font`); the tree rendering of
  `Umya/Model/CellNode.lean` keeps only its presence (`<rPr/>`), so the view returns the token `0` for every
  run that has properties: cells read from trees are compared up to `eraseFonts`.  Value text, kind and
  formula text do not depend on the token.
-/
import Umya.Model.CellXml
import Umya.Spec.XmlLex
namespace Umya.CellTree
open Umya.Xml Umya.CellXml Umya.Num
open Umya.Spec.Xml (Node Attr)

/-! ## the fact view of element trees -/

def lastKid (n : Node) (name : String) : Option Node := (n.kids name).getLast?

/-- `<t>`: `xml:space="preserve"` present?, the content spelled canonically -/
def txOf (t : Node) : TX :=
  { preserve := decide (t.attr? ['x', 'm', 'l', ':', 's', 'p', 'a', 'c', 'e'] = some ['p', 'r', 'e', 's', 'e', 'r', 'v', 'e']),
    raw := escape t.ownText }

/-- the `<v>` child: absent, childless (= `<v/>`), or with content -/
def vOf (c : Node) : VNode :=
  match lastKid c "v" with
  | none => .absent
  | some v => if v.children.isEmpty then .emptyTag else .text (escape v.ownText)

def fOf (c : Node) : Option Text := (lastKid c "f").map fun f => escape f.ownText

def isOf (c : Node) : Option TX := ((lastKid c "is").bind (lastKid · "t")).map txOf

/-- a `<c>` element as a fact: `r`, `t`, "has `s`", `<f>`, `<v>`, `<is><t>` -/
def cellFact (c : Node) : CellX :=
  { ref := (c.attr? ['r']).getD [], t := (c.attr? ['t']).getD [], styled := (c.attr? ['s']).isSome,
    f := fOf c, v := vOf c, is := isOf c }

/-- `<r>`: "has `<rPr>`" as the token 0, and its `<t>` (a run without `<t>` has the empty text) -/
def runFact (r : Node) : RunX :=
  { font := if (r.kids "rPr").isEmpty then none else some 0,
    t := match lastKid r "t" with | some t => txOf t | none => { preserve := false, raw := [] } }

/-- `<si>`: its own `<t>` (not those of the runs) and the `<r>` children in order -/
def siFact (si : Node) : SiX := { t := (lastKid si "t").map txOf, runs := (si.kids "r").map runFact }

/-- the `<si>` children of `<sst>`, in document order -/
def sstFacts (root : Node) : List SiX := (root.kids "si").map siFact

/-- the `<c>` elements of a worksheet part in document order: the `<c>` children of the `<row>` children of
    `<sheetData>` -/
def sheetCells (root : Node) : List Node :=
  (((lastKid root "sheetData").map (·.kids "row")).getD []).flatMap (·.kids "c")

def sheetFacts (root : Node) : List CellX := (sheetCells root).map cellFact

/-- the package as facts, from the trees of its parts; no shared-string part = an empty table -/
def bookFacts (sst : Option Node) (sheets : List Node) : BookX :=
  { sheets := sheets.map sheetFacts, sst := match sst with | some r => sstFacts r | none => [] }

/-! ## C01's reader on trees -/

section
variable (F : NumFmt)

/-- `Cell::set_attributes` on a `<c>` element -/
def readCellN (sst : Table) (c : Node) : Option (Cell F.Num) := readCell F sst (cellFact c)

/-- the shared-string part -/
def readSstN (root : Node) : Option Table := mapOpt readSi (sstFacts root)

/-- one worksheet part against a table -/
def readSheetN (sst : Table) (root : Node) : Option (List (Cell F.Num)) := mapOpt (readCellN F sst) (sheetCells root)

/-- `read_reader(.., true)` (cell side) on the trees of the parts -/
def readBookN (sst : Option Node) (sheets : List Node) : Option (List (List (Cell F.Num))) :=
  readBook F (bookFacts sst sheets)

/-- the shared-strings part from its characters; no part = the empty table -/
def readSstChars : Option (List Char) → Option Table
  | none => some []
  | some cs => (Umya.Spec.Xml.parse cs).bind readSstN

/-- … on the CHARACTERS of the parts: each part goes through the XML 1.0 reader first; a part that is not
    well-formed XML (`parse = none`) is an error (`none`) -/
def readSheetChars (sstChars : Option (List Char)) (sheetChars : List Char) : Option (List (Cell F.Num)) :=
  (readSstChars sstChars).bind fun sst =>
  (Umya.Spec.Xml.parse sheetChars).bind fun root => readSheetN F sst root

def parseAll : List (List Char) → Option (List Node)
  | [] => some []
  | cs :: r =>
    match Umya.Spec.Xml.parse cs with
    | none => none
    | some n => (parseAll r).map (n :: ·)

def readBookChars (sstChars : Option (List Char)) (sheetChars : List (List Char)) : Option (List (List (Cell F.Num))) :=
  (match sstChars with
   | none => some none
   | some cs => (Umya.Spec.Xml.parse cs).map some).bind fun sst =>
  (parseAll sheetChars).bind fun roots => readBookN F sst roots

/-! ## comparison up to the run-property token -/

def eraseRun (r : Run) : Run := { r with font := r.font.map fun _ => 0 }

def eraseItem (it : Item) : Item := { it with rich := it.rich.map (·.map eraseRun) }

def eraseRaw : RawValue F.Num → RawValue F.Num
  | .rich rs => .rich (rs.map eraseRun)
  | r => r

def eraseFonts (c : Cell F.Num) : Cell F.Num := { c with raw := eraseRaw F c.raw }

/-! ## the property's vocabulary -/

inductive Kind where
  | blank | text | richText | number | boolean | error | lazyValue
  deriving DecidableEq, Repr

def kindOf : RawValue F.Num → Kind
  | .empty => .blank | .str _ => .text | .rich _ => .richText | .num _ => .number
  | .bool _ => .boolean | .err _ => .error | .lazy _ => .lazyValue

/-- what C01 compares: position, value kind, value text, the number itself, formula text -/
structure Obs where
  col : Nat
  row : Nat
  kind : Kind
  text : Text
  num : Option F.Num
  formula : Option Text

def obsOf (c : Cell F.Num) : Obs F :=
  { col := c.col, row := c.row, kind := kindOf F c.raw, text := valueText F c.raw,
    num := match c.raw with | .num n => some n | _ => none, formula := c.formula }

/-- the values the character-level theorems do not cover: the empty text cached under a formula
    (written `<v></v>`, which no XML reader can tell from `<v/>` = no cached value) -/
def charsCore (raw : RawValue F.Num) (formula : Option Text) : Bool :=
  match raw, formula with
  | .str [], some _ => false
  | _, _ => true

/-- the cells the character-level theorems cover beyond `cellOK`; the test is on the value `Cell::write_to`
    writes (`Cell.resolved`: an unresolved lazy value never resolves to the empty TEXT, so lazy cells all pass) -/
def charsOK (c : Cell F.Num) : Bool := charsCore F (resolveRaw F c.raw) c.formula

end

end Umya.CellTree
