/-
  Explicit, decidable GRAMMARS of the canonical texts of the coordinate / range / address codecs, and the
  re-quoting function `canonArea` / `canonText` (what the library prints for a text it has parsed).

  These are the hypotheses of the parse-then-print theorems of `Umya/Thm/C17Parse.lean` and of
  `C03_defined_names_any_spelling` / `C03_merges_canonical`; the drivers evaluate them so that the coverage of those
  hypotheses is visible per run (`canon.ok` / `canon.outside`, `names-any-ok`, `merges-canon`).

  Core Lean only.
-/
import Umya.Model.Annot
namespace Umya.Coord
open Umya.Dec

/-- an optional leading `$` -/
def stripDollar : List Char → Bool × List Char
  | '$' :: r => (true, r)
  | s => (false, s)

def dollar (b : Bool) : List Char := if b then ['$'] else []

/-- `[A-Z]{1,3}` — the whole text -/
def canonLettersB (ls : List Char) : Bool :=
  decide (1 ≤ ls.length) && decide (ls.length ≤ 3) && ls.all isUpperAZ

/-- `0|[1-9][0-9]*` with a value below 2^32 — the whole text (the shortest decimal text of a `u32`) -/
def canonDigitsB (ds : List Char) : Bool :=
  !ds.isEmpty && ds.all isDigit && (decide (ds = ['0']) || decide (ds.head? ≠ some '0')) &&
    decide (parseDec ds < 4294967296)

/-- `\$?[A-Z]{1,3}` -/
def canonColB (s : List Char) : Bool := canonLettersB (stripDollar s).2

/-- `\$?(0|[1-9][0-9]*)`, value below 2^32 -/
def canonRowB (s : List Char) : Bool := canonDigitsB (stripDollar s).2

/-- `\$?[A-Z]{1,3}\$?(0|[1-9][0-9]*)`, row value below 2^32 — anchored at both ends -/
def canonCellB (s : List Char) : Bool :=
  let r := (stripDollar s).2
  canonLettersB (r.takeWhile isUpperAZ) && canonRowB (r.dropWhile isUpperAZ)

/-- the canonical A1 text of a range of one of the four shapes: `cell`, `cell:cell`, `col:col`, `row:row` -/
def canonRangeB (t : List Char) : Bool :=
  match splitColon t with
  | [a] => canonCellB a
  | [a, b] => (canonCellB a && canonCellB b) || (canonColB a && canonColB b) || (canonRowB a && canonRowB b)
  | _ => false

/-- the two shapes `is_address` accepts: `cell`, `cell:cell` -/
def canonCellRangeB (t : List Char) : Bool :=
  match splitColon t with
  | [a] => canonCellB a
  | [a, b] => canonCellB a && canonCellB b
  | _ => false

/-- `print ∘ parse` of `index_from_coordinate` / `coordinate_from_index_with_lock` (`none`: the parse does not deliver
    both a column and a row, or the printer's assertion `col >= 1` fails) -/
def coordReprint (s : List Char) : Option (List Char) :=
  match indexFromCoordinate s with
  | (some c, some r, some lc, some lr) => coordinateFromIndexWithLock? c r lc lr
  | _ => none

/-- `Range::set_range(t)` on a default range, then `get_range()` -/
def rangeReprint (t : List Char) : Res (List Char) :=
  match Range.parse t with
  | .ok ρ => .ok ρ.print
  | .panic => .panic

/-- `split_address` then `join_address` -/
def addrRejoin (t : List Char) : List Char := joinAddress (splitAddress t).1 (splitAddress t).2

/-- the texts `join_address (split_address t)` gives back unchanged (`C17_address_parse_print`, clauses 1 and 2): no `!`,
    or a non-empty qualifier that is not wrapped in apostrophes -/
def addrPlainB (t : List Char) : Bool :=
  match rsplitBang t with
  | none => true
  | some (q, _) => !q.isEmpty && decide (stripSheetQuote q = q)

/-! ## the library's quoting rule (`Address::get_address_ptn2`) -/

/-- does `get_address_ptn2` put the sheet name in apostrophes?  (white space, `!`, `'`, `"`, any character outside
    `[0-9a-zA-Z]`, or `index_from_coordinate(name) != (None, None, None, None)`) -/
def needsQuote (sheet : List Char) : Bool :=
  sheet.any isWhitespace || sheet.contains '!' || sheet.contains '\'' || sheet.contains '"' ||
    sheet.any (fun c => !isAlnumAscii c) || (indexFromCoordinate sheet != (none, none, none, none))

/-- the qualifier `get_address_ptn2` prints for a sheet name -/
def quoteName (sheet : List Char) : List Char :=
  if needsQuote sheet then '\'' :: (replaceApos sheet ++ ['\'']) else sheet

/-- the exact set of names the library prints WITHOUT apostrophes: `[0-9a-zA-Z]*` not starting with an upper-case letter
    and not starting with a digit run that fits `u32` — i.e. empty, or starting with a lower-case letter, or starting
    with a run of digits whose value is ≥ 2^32 -/
def plainByLibraryB (n : List Char) : Bool :=
  n.all isAlnumAscii &&
    (match n with
     | [] => true
     | c :: _ => isLowerAZ c || (isDigit c && decide (4294967296 ≤ parseDec (n.takeWhile isDigit))))

end Umya.Coord

namespace Umya.Annot
open Umya.Coord Umya.Dec

/-- characters the `split_str` state machine passes through without changing its state -/
def plainB (c : Char) : Bool := !(c = '\'' || c = '(' || c = ')' || c = '"' || c = ',')

/-- decidable form of `LegalSheet`: non-empty, not starting with an apostrophe, none of `: \ ? [ ] / *` -/
def legalSheetB (n : Text) : Bool :=
  !n.isEmpty && decide (n.head? ≠ some '\'') && n.all (fun c => !forbidden c)

/-- a sheet qualifier in canonical spelling: EITHER unquoted — a legal name without `'`, `(`, `)`, `"`, `,` (a superset
    of the names Excel writes without quotes) — OR `'…'` around a legal name with every apostrophe doubled -/
def canonQualB (q : Text) : Bool :=
  match q with
  | '\'' :: r =>
    match r.reverse with
    | '\'' :: m =>
      decide (replaceApos (undouble m.reverse) = m.reverse) && legalSheetB (undouble m.reverse)
    | _ => false
  | _ => legalSheetB q && q.all plainB

/-- the sheet name a qualifier stands for: `replace("''", "'")`, then one pair of apostrophes stripped -/
def nameOfQual (q : Text) : Text := stripSheetQuote (undouble q)

/-- one area `qualifier!cell` / `qualifier!cell:cell` in canonical spelling (quoted or not, `$` or not) -/
def canonAreaB (t : Text) : Bool :=
  match rsplitBang t with
  | some (q, a) => canonQualB q && canonCellRangeB a
  | none => false

/-- THE RE-QUOTING FUNCTION: the qualifier re-spelled by the library's own rule, the cell text untouched -/
def canonArea (t : Text) : Text :=
  match rsplitBang t with
  | some (q, a) => quoteName (nameOfQual q) ++ '!' :: a
  | none => t

/-- a list of canonical areas joined by `,` (the pieces found by the library's own top-level split; the explicit
    check `joinComma l = v` makes the test independent of what that split drops) -/
def canonNameTextB (v : Text) : Bool :=
  let l := splitStr v
  l.all canonAreaB && decide (joinComma l = v)

/-- what `get_address()` shows for a name whose file text is `v`: an area list with every qualifier re-quoted, any
    other text as it stands -/
def canonText (v : Text) : Text :=
  let l := splitStr v
  if l.all isAddress then joinComma (l.map canonArea) else v

/-- the name texts of `C03_defined_names_any_spelling` (decidable) -/
def nameTextAnyB (v : Text) : Bool :=
  ((splitStr v).all isAddress == false) || canonNameTextB v

end Umya.Annot
