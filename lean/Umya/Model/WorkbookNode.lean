/-
  Tree-level model of what `writer/xlsx/workbook.rs`, `workbook_rels.rs` and `content_types.rs` write, as
  far as the independent decoder `Umya.Spec.Sml.decode` reads it: the `<sheets>` list (name, `sheetId`,
  `r:id`, `state`), `<definedNames>`, the worksheet relationships of `xl/_rels/workbook.xml.rels`
  (`rIdK` → `worksheets/sheetK.xml`, K = 1-based position in the sheet collection) and the worksheet
  `Override`s of `[Content_Types].xml`.

  * `workbook.rs`: one `<sheet name=… sheetId=K r:id=rIdK [state=…]/>` per worksheet in collection order,
    K counting from 1 (a removed and re-added sheet gets the number of its position, ids are never reused
    from the sheet itself); `state` is written when the worksheet's state has a value.  `<definedNames>`
    is written iff there is a defined name: the workbook's own names first, then every sheet's, each
    `<definedName name=… [localSheetId=…] [hidden=…]>address</definedName>` with the address written by
    `write_text_node_conversion` (so the reader's text is the address, `C02_text_channel_conversion`; an
    empty address gives an element without text child).  `hidden` is not modelled (the decoder does not read
    it; the tie compares `name` and `localSheetId`).  The other children of `<workbook>` (fileVersion,
    workbookPr, workbookProtection, bookViews before; calcPr, pivotCaches after) are opaque (`WbFrame`).
  * `workbook_rels.rs`: the worksheet relationships first, with ids `rId1`…`rIdN`; then pivot caches,
    styles, theme, shared strings, vbaProject (opaque `rest`).
  * `content_types.rs` / `WriterManager::make_context_type_override`: an `Override` with the worksheet
    content type for every part whose name starts with `/xl/worksheets/sheet`.
-/
import Umya.Model.SheetNode
namespace Umya.WorkbookNode
open Umya.Dec Umya.SheetNode
open Umya.Spec.Xml (Node Attr)

structure SheetE where
  name : List Char
  state : Option (List Char) := none        -- `visible` / `hidden` / `veryHidden` when the state has a value
  deriving DecidableEq, Repr, Inhabited

structure NameE where
  name : List Char
  localSheetId : Option Nat := none
  address : List Char
  deriving DecidableEq, Repr, Inhabited

structure WbFrame where
  attrs : List Attr := []
  pre : List Node := []
  post : List Node := []
  deriving Inhabited

def nSheets : List Char := ['s', 'h', 'e', 'e', 't', 's']
def nSheet : List Char := ['s', 'h', 'e', 'e', 't']
def nDefinedNames : List Char := ['d', 'e', 'f', 'i', 'n', 'e', 'd', 'N', 'a', 'm', 'e', 's']
def nDefinedName : List Char := ['d', 'e', 'f', 'i', 'n', 'e', 'd', 'N', 'a', 'm', 'e']
def nWorkbook : List Char := ['w', 'o', 'r', 'k', 'b', 'o', 'o', 'k']
def worksheetType : List Char := ['h', 't', 't', 'p', ':', '/', '/', 's', 'c', 'h', 'e', 'm', 'a', 's', '.', 'o', 'p', 'e', 'n', 'x', 'm', 'l', 'f', 'o', 'r', 'm', 'a', 't', 's', '.', 'o', 'r', 'g', '/', 'o', 'f', 'f', 'i', 'c', 'e', 'D', 'o', 'c', 'u', 'm', 'e', 'n', 't', '/', '2', '0', '0', '6', '/', 'r', 'e', 'l', 'a', 't', 'i', 'o', 'n', 's', 'h', 'i', 'p', 's', '/', 'w', 'o', 'r', 'k', 's', 'h', 'e', 'e', 't']
def sheetContentType : List Char := ['a', 'p', 'p', 'l', 'i', 'c', 'a', 't', 'i', 'o', 'n', '/', 'v', 'n', 'd', '.', 'o', 'p', 'e', 'n', 'x', 'm', 'l', 'f', 'o', 'r', 'm', 'a', 't', 's', '-', 'o', 'f', 'f', 'i', 'c', 'e', 'd', 'o', 'c', 'u', 'm', 'e', 'n', 't', '.', 's', 'p', 'r', 'e', 'a', 'd', 's', 'h', 'e', 'e', 't', 'm', 'l', '.', 'w', 'o', 'r', 'k', 's', 'h', 'e', 'e', 't', '+', 'x', 'm', 'l']

/-- one `<sheet>` element, `k` = `index` of workbook.rs -/
def sheetEl (k : Nat) (s : SheetE) : Node :=
  Node.elem nSheet
    ([⟨['n', 'a', 'm', 'e'], s.name⟩, ⟨['s', 'h', 'e', 'e', 't', 'I', 'd'], decDigits k⟩, ⟨['r', ':', 'i', 'd'], rIdText k⟩] ++
     (match s.state with | some st => [⟨['s', 't', 'a', 't', 'e'], st⟩] | none => [])) []

/-- the `<sheet>` elements -/
def sheetEls : Nat → List SheetE → List Node
  | _, [] => []
  | k, s :: ss => sheetEl k s :: sheetEls (k + 1) ss

/-- the text child an XML reader delivers for character data written by `write_text_node_conversion` -/
def txt (s : List Char) : List Node := if s = [] then [] else [Node.text s]

def nameEl (d : NameE) : Node :=
  Node.elem nDefinedName
    (⟨['n', 'a', 'm', 'e'], d.name⟩ :: (match d.localSheetId with | some i => [⟨['l', 'o', 'c', 'a', 'l', 'S', 'h', 'e', 'e', 't', 'I', 'd'], decDigits i⟩] | none => []))
    (txt d.address)

def definedNamesNodes (ds : List NameE) : List Node :=
  if ds.isEmpty then [] else [Node.elem nDefinedNames [] (ds.map nameEl)]

def workbookNode (fr : WbFrame) (ss : List SheetE) (ds : List NameE) : Node :=
  Node.elem nWorkbook fr.attrs (fr.pre ++ [Node.elem nSheets [] (sheetEls 1 ss)] ++ definedNamesNodes ds ++ fr.post)

/-- `format!("worksheets/sheet{}.xml", index)` -/
def sheetTarget (k : Nat) : List Char := ['w', 'o', 'r', 'k', 's', 'h', 'e', 'e', 't', 's', '/', 's', 'h', 'e', 'e', 't'] ++ decDigits k ++ ['.', 'x', 'm', 'l']

/-- the worksheet relationships of workbook.xml.rels, `k` = its `index`, for `n` more sheets -/
def wsRels : Nat → Nat → List Node
  | _, 0 => []
  | k, n + 1 =>
    Node.elem nRelationship [⟨['I', 'd'], rIdText k⟩, ⟨['T', 'y', 'p', 'e'], worksheetType⟩, ⟨['T', 'a', 'r', 'g', 'e', 't'], sheetTarget k⟩] [] :: wsRels (k + 1) n

def workbookRelsNode (n : Nat) (rest : List Node) : Node :=
  Node.elem nRelationships [⟨['x', 'm', 'l', 'n', 's'], relNs⟩] (wsRels 1 n ++ rest)

/-- the worksheet `Override`s of `[Content_Types].xml` (one per sheet part; the code emits them in the
    sorted order of the part names, the tie compares them as a set) -/
def sheetOverride (k : Nat) : Node :=
  Node.elem ['O', 'v', 'e', 'r', 'r', 'i', 'd', 'e']
    [⟨['P', 'a', 'r', 't', 'N', 'a', 'm', 'e'], ['/', 'x', 'l', '/', 'w', 'o', 'r', 'k', 's', 'h', 'e', 'e', 't', 's', '/', 's', 'h', 'e', 'e', 't'] ++ decDigits k ++ ['.', 'x', 'm', 'l']⟩, ⟨['C', 'o', 'n', 't', 'e', 'n', 't', 'T', 'y', 'p', 'e'], sheetContentType⟩] []

/-! ## what the workbook part means -/

/-- the sheet list an independent reader must find: name, state (`visible` when absent), relationship id -/
def sheetListView (ss : List SheetE) : List (List Char × String) :=
  ss.map fun s => (s.name, Umya.Spec.Sml.str (s.state.getD ['v', 'i', 's', 'i', 'b', 'l', 'e']))

def nameView (d : NameE) : Umya.Spec.Sml.NameV := { name := d.name, scope := d.localSheetId, text := d.address }

/-- the workbooks the theorems are about: sheet names distinct (compared as the decoder does, by
    `String.toLower`) — `Spreadsheet::new_sheet` / `set_name` refuse a duplicate title -/
def namesDistinct (ss : List SheetE) : Bool :=
  ((ss.map (fun s => (Umya.Spec.Sml.str s.name).toLower)).eraseDups.length = ss.length)

/-- opaque children of `<workbook>`: none is a second `sheets` / `definedNames` -/
def WbFrame.ok (fr : WbFrame) : Bool :=
  (fr.pre ++ fr.post).all fun k =>
    !(k.isElem && (Umya.Spec.Xml.localName k.name = nSheets || Umya.Spec.Xml.localName k.name = nDefinedNames))

end Umya.WorkbookNode
