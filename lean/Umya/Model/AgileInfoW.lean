/-
  C14 — `build_encryption_info` (src/helper/crypt.rs) as a tree of WRITER CALLS of `writer/driver.rs`
  (`Umya/Model/XmlWrite.lean`): the XML declaration, `write_new_line`, then

      write_start_tag("encryption", [xmlns, xmlns:p, xmlns:c], false)
        write_start_tag("keyData", [saltSize … saltValue], true)
        write_start_tag("dataIntegrity", [encryptedHmacKey, encryptedHmacValue], true)
        write_start_tag("keyEncryptors", [], false)
          write_start_tag("keyEncryptor", [uri], false)
            write_start_tag("p:encryptedKey", [spinCount, saltSize … saltValue, encryptedVerifierHashInput,
                                               encryptedVerifierHashValue, encryptedKeyValue], true)
          write_end_tag("keyEncryptor")
        write_end_tag("keyEncryptors")
      write_end_tag("encryption")

  `Umya.Crypt.encryptionInfoXml` (the text the compiled source is proved to write, `C14_info_matches_source`)
  has the attribute values as they are; `write_start_tag` passes them through the attribute escape.  The two
  agree on descriptors whose texts are `plain` (printable ASCII without `& < > " '`), which every descriptor
  `encrypt` makes is (names, decimal numbers, base64): `Umya/Lemmas/AgileInfoW.lean` `renderDoc_infoW`.

  `infoPlain` is the decidable well-formedness predicate of the round-trip theorem (`C14_info_parses`); the
  driver evaluates it on every real descriptor.
-/
import Umya.Model.Crypt
import Umya.Model.XmlWrite
namespace Umya.Crypt
open Umya.Agile
open Umya.XmlWrite (WNode)
open Umya.Spec.Xml (Attr)

/-- printable ASCII without the five characters quick-xml escapes (so also no tab / line feed / carriage return) -/
def plainChar (c : Char) : Bool :=
  32 ≤ c.toNat && c.toNat ≤ 126 && c != '&' && c != '<' && c != '>' && c != '"' && c != '\''

def plain (s : List Char) : Bool := s.all plainChar

def keyDataPlain (k : KeyData) : Bool :=
  plain k.cipherAlgorithm && plain k.cipherChaining && plain k.hashAlgorithm && plain k.saltValue

/-- every text of the descriptor is plain (numbers are not restricted) -/
def infoPlain (i : Info) : Bool :=
  keyDataPlain i.keyData && plain i.encryptedHmacKey && plain i.encryptedHmacValue && keyDataPlain i.key &&
  plain i.encryptedVerifierHashInput && plain i.encryptedVerifierHashValue && plain i.encryptedKeyValue

def toAttrs (l : List (List Char × List Char)) : List Attr := l.map fun p => ⟨p.1, p.2⟩

def encryptedKeyAttrs (i : Info) : List (List Char × List Char) :=
  [("spinCount".toList, Umya.Dec.decDigits i.spinCount)] ++ keyDataAttrs i.key ++
  [("encryptedVerifierHashInput".toList, i.encryptedVerifierHashInput),
   ("encryptedVerifierHashValue".toList, i.encryptedVerifierHashValue),
   ("encryptedKeyValue".toList, i.encryptedKeyValue)]

/-- the writer calls of `build_encryption_info` after the declaration and the new line -/
def infoW (i : Info) : WNode :=
  .elem "encryption".toList
    (toAttrs [("xmlns".toList, encryptionNs), ("xmlns:p".toList, passwordNs), ("xmlns:c".toList, certificateNs)])
    [ .empty "keyData".toList (toAttrs (keyDataAttrs i.keyData)),
      .empty "dataIntegrity".toList
        (toAttrs [("encryptedHmacKey".toList, i.encryptedHmacKey), ("encryptedHmacValue".toList, i.encryptedHmacValue)]),
      .elem "keyEncryptors".toList []
        [ .elem "keyEncryptor".toList (toAttrs [("uri".toList, passwordNs)])
            [ .empty "p:encryptedKey".toList (toAttrs (encryptedKeyAttrs i)) ] ] ]

/-- characters as the bytes of the stream (all of them are ASCII) -/
def charsToBytes (s : List Char) : Umya.Crypto.Bytes := s.map fun c => UInt8.ofNat c.toNat

/-- the stream from the writer-call tree: prefix, then the rendered document -/
def infoStreamW (i : Info) : Umya.Crypto.Bytes :=
  encryptionInfoPrefix ++ charsToBytes (Umya.XmlWrite.renderDoc (infoW i))

end Umya.Crypt
