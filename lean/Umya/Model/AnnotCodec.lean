/-
  Shared pieces of the attribute-level codecs of C06 (`Model/AnnotProt.lean`, `AnnotView.lean`,
  `AnnotPage.lean`): what `write_to` pushes into `attributes: Vec<(&str, &str)>` and what
  `set_attributes` gets back through `get_attribute` / `set_string_from_xml!`.

  LEVEL.  The codecs work on the element tree an XML 1.0 reader delivers (`Umya.Spec.Xml.Node`):
  attribute values and character data are the DECODED texts.  The step from the stored text to the
  written bytes and back (`write_start_tag`: quick-xml `escape` + `&#9; &#10; &#13;`;
  `get_attribute_value`: white-space normalisation + `unescape`; `write_text_node` / `unescape_text`)
  is the character-level channel already proved for every text (`C02_attr_channel`, `C02_text_channel`,
  `C03_attr`, `C03_text`); `Thm/C06View.lean` composes the two.

  Rust sources modelled here: `structs/boolean_value.rs`, `string_value.rs`, `u_int32_value.rs`,
  `double_value.rs`, `enum_value.rs`, `reader/driver.rs::get_attribute`, the macro
  `set_string_from_xml!`.
-/
import Umya.Spec.XmlLex
import Umya.Model.Dec
import Umya.Model.Num
namespace Umya.AnnotCodec
open Umya.Spec.Xml (Node Attr)
open Umya.Dec

abbrev Text := List Char

/-- `reader/driver.rs::get_attribute`: the value of the FIRST attribute with that name -/
def getAttr (as : List Attr) (k : Text) : Option Text :=
  (as.find? (fun a => a.name = k)).map (·.value)

/-- the chain `if self.f.has_value() { attributes.push((k, v)) } …` in `write_to`, in order:
    a field contributes its attribute exactly when it has a text to write -/
def render (fs : List (Text × Option Text)) : List Attr :=
  fs.filterMap (fun p => p.2.map (fun v => Attr.mk p.1 v))

def elem (name : String) (as : List Attr) (kids : List Node) : Node := .elem name.toList as kids

/-- `BooleanValue::get_value_string` -/
def boolStr (b : Bool) : Text := if b then ['1'] else ['0']

/-- `BooleanValue::set_value_string`: `matches!(v, "true" | "1")`; everything else is `false` -/
def boolRead (t : Text) : Bool := t = ['t', 'r', 'u', 'e'] || t = ['1']

/-- `str::parse::<u32>()`: an optional `+`, then at least one ASCII digit, no overflow -/
def u32Attr (t : Text) : Option Nat :=
  match t with
  | '+' :: r => parseU32 r
  | _ => parseU32 t

/-- `set_string_from_xml!` on a `UInt32Value`: nothing when the attribute is absent,
    `parse::<u32>().unwrap()` otherwise.  Outer `none` = the Rust panic. -/
def optU32 : Option Text → Option (Option Nat)
  | none => some none
  | some t => (u32Attr t).map some

/-- `UInt32Value::get_value_string`: the value, `0` when there is none -/
def u32Str (v : Option Nat) : Text := decDigits (v.getD 0)

/-- `set_string_from_xml!` on a `BooleanValue` -/
def optBool (v : Option Text) : Option Bool := v.map boolRead

/-! ## floats: opaque tokens (`Model/Num.lean`) with a distinguished zero -/

/-- a float token type together with the token of `0f64` (what `DoubleValue::get_value` hands out
    when there is no value, and what `unwrap_or_default` yields for unparsable text) -/
structure NumZ where
  F : Umya.Num.NumFmt
  zero : F.Num

/-- `DoubleValue::set_value_string`: `parse::<f64>().unwrap_or_default()` -/
def numRead (Z : NumZ) (t : Text) : Z.F.Num := (Z.F.parse t).getD Z.zero

/-- `DoubleValue::get_value_string`: `Display` of the value, of `0f64` when there is none -/
def numStr (Z : NumZ) (v : Option Z.F.Num) : Text := Z.F.fmt (v.getD Z.zero)

/-- `EnumValue::set_value_string`: a text outside the table leaves the field as it was -/
def enumRead {α} (fromStr : Text → Option α) (old : Option α) (v : Option Text) : Option α :=
  match v with
  | none => old
  | some t => match fromStr t with
    | some e => some e
    | none => old

/-! ## splitting on one character (`str::split(' ')`) and joining (`join(" ")`) -/

def splitCh (d : Char) : List Char → List (List Char)
  | [] => [[]]
  | c :: r =>
    if c = d then [] :: splitCh d r
    else match splitCh d r with
      | h :: t => (c :: h) :: t
      | [] => [[c]]

def joinCh (d : Char) : List (List Char) → List Char
  | [] => []
  | [a] => a
  | a :: b :: r => a ++ d :: joinCh d (b :: r)

/-- `str::contains(&str)` -/
def containsSub : Text → Text → Bool
  | [], needle => needle.isPrefixOf []
  | c :: r, needle => needle.isPrefixOf (c :: r) || containsSub r needle

/-- child elements of a node, text nodes dropped (the readers only look at start / empty tags) -/
def elemKids (n : Node) : List Node := n.children.filter (·.isElem)

end Umya.AnnotCodec
