/-
  C11: the package that is opened lazily, and the reader's side of a raw sheet
  (`reader/xlsx.rs::read_reader(.., false)`, `RawWorksheet::read`, `read_rawrelationships`,
  `RawRelationships::set_attributes`, `RawRelationship::set_attributes`, `RawFile::set_attributes`).

  A package is a list of parts; a part has an identity of its bytes and — when it is read as a relationships
  part — the list of its `<Relationship>` elements with resolved targets.  `openRaw x part` is the `RawWorksheet` the
  reader records for the sheet part `part` of `x`: its bytes and the closure of its relationship parts, children
  first, every relationship with the bytes of its target.  A missing target is an `unwrap` on `Err` (a panic): `none`.
  The recursion of `read_rawrelationships` follows the relationships of every target; it takes fuel (number of parts
  + 1, enough for every acyclic relationship graph; a cyclic one overflows the stack in the code and runs out of
  fuel here).

  `consistent x b` is the package-consistency invariant of a lazily opened workbook: every sheet that is still raw
  holds exactly what the reader records for its part of `x`, the names in its closure are hygienic, and the
  workbook-level tables are the ones of `x`.
-/
import Umya.Model.Lazy
namespace Umya.Lazy

/-- one `<Relationship>` of a relationships part: external, or the resolved name of its target -/
structure PRel where
  ext : Bool
  file : PName
  deriving DecidableEq, Repr

/-- a part of the package that is read -/
structure Part where
  cid : Nat                         -- identity of its bytes
  empty : Bool := false             -- zero bytes
  rels : List PRel := []            -- its `<Relationship>`s when it is read as a relationships part
  deriving DecidableEq, Repr

structure Pkg where
  parts : List (PName × Part) := []
  sheets : List (Name × PName) := []        -- workbook.xml ⋈ workbook.xml.rels: title and sheet part, in order
  tables : Tables := {}

/-- `ZipArchive::by_name` -/
def getPart : List (PName × Part) → PName → Option Part
  | [], _ => none
  | (m, p) :: r, n => if m = n then some p else getPart r n

def Pkg.get? (x : Pkg) (n : PName) : Option Part := getPart x.parts n

def mapOpt {α β} (f : α → Option β) : List α → Option (List β)
  | [] => some []
  | a :: as =>
    match f a, mapOpt f as with
    | some b, some bs => some (b :: bs)
    | _, _ => none

/-- what `RawRelationship::default()` holds for an external relationship: no file, no data -/
def extRel : RawRel := { ext := true, file := .other [], cid := 0, empty := true }

/-- `RawRelationship::set_attributes`: the bytes of the target are read unless the relationship is external -/
def readRel (x : Pkg) (e : PRel) : Option RawRel :=
  if e.ext then some extRel
  else
    match x.get? e.file with
    | some p => some { ext := false, file := e.file, cid := p.cid, empty := p.empty }
    | none => none                  -- `arv.by_name(..).unwrap()`

/-- `RawRelationships::set_attributes`: `some none` = no such part (`false`), `none` = panic -/
def readRelsPart (x : Pkg) (n : PName) : Option (Option RawRels) :=
  match x.get? n with
  | none => some none
  | some p =>
    match mapOpt (readRel x) p.rels with
    | none => none
    | some rs => some (some { name := n, rels := rs })

/-- `RawWorksheet::read_rawrelationships`: the relationship parts of the targets first, then the part itself.
    (For an external relationship the code looks for `/_rels/.rels`, a name no zip entry has.) -/
def readClosure (x : Pkg) : Nat → PName → Option (List RawRels)
  | 0, _ => none
  | fuel + 1, n =>
    match readRelsPart x n with
    | none => none
    | some none => some []
    | some (some q) =>
      match mapOpt (fun r => if r.ext then some [] else readClosure x fuel (.rels r.file)) q.rels with
      | none => none
      | some kids => some (kids.flatten ++ [q])

def Pkg.fuel (x : Pkg) : Nat := x.parts.length + 1

/-- `RawWorksheet::read` -/
def openRaw (x : Pkg) (part : PName) : Option RawSheet :=
  match x.get? part with
  | none => none                    -- `RawFile::set_attributes`: `by_name(..).unwrap()`
  | some p => (readClosure x x.fuel (.rels part)).map (fun cl => { file := part, cid := p.cid, closure := cl })

/-- `read_reader(.., false)`: every sheet raw -/
def lazyOpen {C : Type} (x : Pkg) : Option (Book C) :=
  (mapOpt (fun (e : Name × PName) => (openRaw x e.2).map (fun r => ({ name := e.1, body := .raw r } : Sheet C))) x.sheets).map
    (fun ss => { sheets := ss, tables := x.tables })

/-! ## name hygiene -/

def isSheetName : PName → Bool
  | .sheet _ => true
  | _ => false

def isRelsName : PName → Bool
  | .rels _ => true
  | _ => false

/-- names the writer gives to workbook-level parts, before and after the per-sheet loops -/
def fixedNames : List (List Char) :=
  [['[','C','o','n','t','e','n','t','_','T','y','p','e','s',']','.','x','m','l'],
   ['_','r','e','l','s','/','.','r','e','l','s'],
   ['x','l','/','w','o','r','k','b','o','o','k','.','x','m','l'],
   ['x','l','/','s','t','y','l','e','s','.','x','m','l'],
   ['x','l','/','s','h','a','r','e','d','S','t','r','i','n','g','s','.','x','m','l'],
   ['x','l','/','t','h','e','m','e','/','t','h','e','m','e','1','.','x','m','l'],
   ['x','l','/','v','b','a','P','r','o','j','e','c','t','.','b','i','n'],
   ['d','o','c','P','r','o','p','s','/','a','p','p','.','x','m','l'],
   ['d','o','c','P','r','o','p','s','/','c','o','r','e','.','x','m','l'],
   ['d','o','c','P','r','o','p','s','/','c','u','s','t','o','m','.','x','m','l']]

def reserved : PName → Bool
  | .other s => fixedNames.contains s
  | .rels (.other s) => s = ['x','l','/','w','o','r','k','b','o','o','k','.','x','m','l']
  | _ => false

/-- a part a relationship of a raw closure may point to: not named like a sheet part, a relationships part or a
    workbook-level part -/
def targetOk (n : PName) : Bool := !isSheetName n && !isRelsName n && !reserved n

/-- a relationships part of the closure belongs to the sheet part or to a part some relationship of the closure
    points to -/
def relsNameOk (root : PName) (cl : List RawRels) : PName → Bool
  | .rels m => decide (m = root) || cl.any (fun q => q.rels.any (fun r => !r.ext && decide (r.file = m)))
  | _ => false

def relOk (r : RawRel) : Bool := if r.ext then r.empty else targetOk r.file

def hygienic (r : RawSheet) : Bool :=
  !isRelsName r.file && !reserved r.file &&
  r.closure.all (fun q => relsNameOk r.file r.closure q.name && q.rels.all (fun r' => relOk r' && (r'.ext || decide (r'.file ≠ r.file))))

/-! ## the invariant -/

def rawBodies {C : Type} : List (Sheet C) → List RawSheet
  | [] => []
  | s :: ss =>
    match s.body with
    | .raw r => r :: rawBodies ss
    | .loaded _ => rawBodies ss

/-- the raw sheet `r` is what the reader records for one of the sheet parts of `x` -/
def fromPkg (x : Pkg) (r : RawSheet) : Bool :=
  (x.sheets.map (·.2)).contains r.file && decide (openRaw x r.file = some r) && hygienic r

/-- package consistency of a lazily opened workbook -/
def consistent {C : Type} (x : Pkg) (b : Book C) : Bool :=
  decide (b.tables = x.tables) && (rawBodies b.sheets).all (fromPkg x)

/-- well-formedness of the package that is opened: the closure of every sheet part is hygienic -/
def pkgOk (x : Pkg) : Bool :=
  x.sheets.all (fun e => match openRaw x e.2 with | some r => hygienic r | none => true)

/-! ## what the saved package must hold for a raw sheet, read off `x` -/

/-- the relationships part of the sheet part `f` of `x` as a written part; `none` = `x` has no such part, or an
    empty one (`RawRelationships::write_to` writes nothing for an empty list) -/
def ownExpected {C : Type} (x : Pkg) (f : PName) : Option (Content C) :=
  match readRelsPart x (.rels f) with
  | some (some q) => if q.rels.isEmpty then none else some (.relsOf q.targets)
  | _ => none

/-- what a package reader sees of `x` under a name: a relationships part as its resolved targets (one without
    relationships is like none: `ownExpected`), any other part as its bytes -/
def xLookup {C : Type} (x : Pkg) : PName → Option (Content C)
  | .rels f => ownExpected x f
  | n => (x.get? n).map (fun p => .bytes p.cid)

/-- names of the non-external targets of the closure of a raw sheet -/
def closureTargets (r : RawSheet) : List PName :=
  r.closure.flatMap (fun q => q.rels.filterMap (fun r' => if r'.ext then none else some r'.file))


end Umya.Lazy
