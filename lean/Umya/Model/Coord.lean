/-
  Model of `src/helper/coordinate.rs`, `src/helper/range.rs`, `src/helper/address.rs`,
  and the print/parse parts of `src/structs/{coordinate,range,address,column_reference,
  row_reference}.rs`.

  Text is `List Char`.  A Rust panic is `none` in an `Option`-returning model function whose
  name ends in `?`, or the `.panic` constructor of `Res`.
-/
import Umya.Model.Dec
namespace Umya.Coord
open Umya.Dec

/-- Result of a modelled Rust call that may panic. -/
inductive Res (α : Type) where
  | ok : α → Res α
  | panic : Res α
  deriving Repr, DecidableEq, Inhabited

def Res.bind {α β} (r : Res α) (f : α → Res β) : Res β :=
  match r with | .ok a => f a | .panic => .panic

instance : Monad Res where
  pure := .ok
  bind := Res.bind

/-! ## Columns: bijective base 26 -/

def letter (d : Nat) : Char := Char.ofNat (65 + d % 26)

/-- `index_to_alpha` digits, least significant first, for the 0-based value `v = index-1`.
    `successors(Some(v), |v| match v/26 { 0 => None, n => Some(n-1) })`. -/
def alphaRev (v : Nat) : List Char :=
  if v / 26 = 0 then [letter v] else letter v :: alphaRev (v / 26 - 1)
termination_by v
decreasing_by omega

/-- `index_to_alpha(index)`; the Rust asserts `index >= 1`. -/
def indexToAlpha? (n : Nat) : Option (List Char) :=
  if n ≥ 1 then some (alphaRev (n - 1)).reverse else none

/-- total version used by printers once `n ≥ 1` is known -/
def indexToAlpha (n : Nat) : List Char := (alphaRev (n - 1)).reverse

def isUpperAZ (c : Char) : Bool := c.toNat ≥ 65 && c.toNat ≤ 90
def isLowerAZ (c : Char) : Bool := c.toNat ≥ 97 && c.toNat ≤ 122

/-- ASCII `to_uppercase` (non-ASCII case mapping is outside the model). -/
def upcase (c : Char) : Char := if isLowerAZ c then Char.ofNat (c.toNat - 32) else c

/-- general positional value, any length (the specification the 3-letter table approximates) -/
def alphaToIndexGen (s : List Char) : Nat := s.foldl (fun a c => 26 * a + (c.toNat - 65 + 1)) 0

/-- `alpha_to_index`: upper-case, reversed, `POSITIONAL_CONSTANTS[i] * ((c - 'A') + 1)`.
    Panics when the string has more than 3 characters (index out of bounds) or a character
    below `'A'` (`u32` subtraction overflow in a build with overflow checks). -/
def alphaToIndex (s : List Char) : Res Nat :=
  let u := s.map upcase
  if u.length > 3 then .panic
  else if u.any (fun c => c.toNat < 65) then .panic
  else
    let rec go (cs : List Char) (i : Nat) (acc : Nat) : Nat :=
      match cs with
      | [] => acc
      | c :: cs => go cs (i + 1) (acc + 26 ^ i * (c.toNat - 65 + 1))
    .ok (go u.reverse 0 0)

/-- `column_index_from_string` -/
def columnIndexFromString (s : List Char) : Res Nat :=
  if s = ['0'] then .ok 0 else alphaToIndex s

/-! ## The coordinate regex `((\$)?([A-Z]{1,3}))?((\$)?([0-9]+))?`

  Unanchored, leftmost, greedy, backtracking.  Every group is optional, so the leftmost match
  always starts at offset 0 (possibly empty); group 1 and group 4 are tried greedily in turn and
  neither ever needs to give characters back because what follows is optional. -/

/-- greedy `[A-Z]{0,n}` -/
def takeUpper : Nat → List Char → List Char × List Char
  | 0, s => ([], s)
  | _ + 1, [] => ([], [])
  | n + 1, c :: r =>
    if isUpperAZ c then
      let p := takeUpper n r
      (c :: p.1, p.2)
    else ([], c :: r)

def takeUpTo3Upper (s : List Char) : List Char × List Char := takeUpper 3 s

/-- group 1: returns (lock, letters, rest) when it matches -/
def matchColGroup (s : List Char) : Option (Bool × List Char × List Char) :=
  match s with
  | '$' :: r =>
    let (ls, rest) := takeUpTo3Upper r
    if ls.isEmpty then
      -- `(\$)?` gives the `$` back; `[A-Z]{1,3}` then fails on `$` itself
      none
    else some (true, ls, rest)
  | _ =>
    let (ls, rest) := takeUpTo3Upper s
    if ls.isEmpty then none else some (false, ls, rest)

/-- group 4: returns (lock, digits) when it matches -/
def matchRowGroup (s : List Char) : Option (Bool × List Char) :=
  match s with
  | '$' :: r =>
    let ds := r.takeWhile isDigit
    if ds.isEmpty then none else some (true, ds)
  | _ =>
    let ds := s.takeWhile isDigit
    if ds.isEmpty then none else some (false, ds)

abbrev CellIndex := Option Nat × Option Nat × Option Bool × Option Bool

/-- value of 1–3 upper-case letters (never panics on what the regex hands over) -/
def alphaVal (ls : List Char) : Nat := alphaToIndexGen ls

/-- `index_from_coordinate` -/
def indexFromCoordinate (s : List Char) : CellIndex :=
  let (colPart, rest) :=
    match matchColGroup s with
    | some (lk, ls, rest) => (some (lk, ls), rest)
    | none => (none, s)
  let rowPart := matchRowGroup rest
  let col := colPart.map (fun p => alphaVal p.2)
  let row := rowPart.bind (fun p => parseU32 p.2)
  let colLock := colPart.map (fun p => p.1)
  let rowLock := match row with
    | some _ => rowPart.map (fun p => p.1)
    | none => none
  (col, row, colLock, rowLock)

/-- `coordinate_from_index_with_lock`; asserts `col >= 1` -/
def coordinateFromIndexWithLock? (col row : Nat) (lc lr : Bool) : Option (List Char) :=
  if col ≥ 1 then
    some ((if lc then ['$'] else []) ++ indexToAlpha col ++ (if lr then ['$'] else []) ++ decDigits row)
  else none

def coordinateFromIndexWithLock (col row : Nat) (lc lr : Bool) : List Char :=
  (if lc then ['$'] else []) ++ indexToAlpha col ++ (if lr then ['$'] else []) ++ decDigits row

/-! ## `structs::Range` -/

structure Ref where
  num : Nat
  lock : Bool
  deriving Repr, DecidableEq

structure Range where
  startCol : Option Ref := none
  startRow : Option Ref := none
  endCol : Option Ref := none
  endRow : Option Ref := none
  deriving Repr, DecidableEq

def colRefText (r : Ref) : List Char := (if r.lock then ['$'] else []) ++ indexToAlpha r.num
def rowRefText (r : Ref) : List Char := (if r.lock then ['$'] else []) ++ decDigits r.num

def optText (f : Ref → List Char) : Option Ref → List Char
  | some r => f r
  | none => []

/-- `Range::get_range` -/
def Range.print (ρ : Range) : List Char :=
  let s := optText colRefText ρ.startCol ++ optText rowRefText ρ.startRow
  if ρ.endCol.isSome || ρ.endRow.isSome then
    s ++ [':'] ++ (optText colRefText ρ.endCol ++ optText rowRefText ρ.endRow)
  else s

/-- `str::split(':')` -/
def splitColon (s : List Char) : List (List Char) :=
  let rec go (s : List Char) (cur : List Char) : List (List Char) :=
    match s with
    | [] => [cur.reverse]
    | c :: r => if c = ':' then cur.reverse :: go r [] else go r (c :: cur)
  go s []

def refsOf (ci : CellIndex) : Option Ref × Option Ref :=
  let (c, r, lc, lr) := ci
  (match c, lc with | some n, some l => some ⟨n, l⟩ | _, _ => none,
   match r, lr with | some n, some l => some ⟨n, l⟩ | _, _ => none)

/-- `Range::set_range` on an existing range (fields not mentioned keep their value);
    panics unless the text splits into one or two parts. -/
def Range.setRange (ρ : Range) (s : List Char) : Res Range :=
  match splitColon s with
  | [a] =>
    let (c, r) := refsOf (indexFromCoordinate a)
    .ok { ρ with startCol := c.orElse (fun _ => ρ.startCol), startRow := r.orElse (fun _ => ρ.startRow) }
  | [a, b] =>
    let (c, r) := refsOf (indexFromCoordinate a)
    let (c2, r2) := refsOf (indexFromCoordinate b)
    .ok { startCol := c.orElse (fun _ => ρ.startCol), startRow := r.orElse (fun _ => ρ.startRow),
          endCol := c2.orElse (fun _ => ρ.endCol), endRow := r2.orElse (fun _ => ρ.endRow) }
  | _ => .panic

def Range.parse (s : List Char) : Res Range := Range.setRange {} s

/-- `helper::range::get_start_and_end_point` → `(row_start, row_end, col_start, col_end)` -/
def getStartAndEndPoint (s : List Char) : Res (Nat × Nat × Nat × Nat) :=
  let u := s.map upcase
  match splitColon u with
  | [a] =>
    let (c, r, _, _) := indexFromCoordinate a
    .ok (r.getD 0, r.getD 0, c.getD 0, c.getD 0)
  | [a, b] =>
    let (c, r, _, _) := indexFromCoordinate a
    let (c2, r2, _, _) := indexFromCoordinate b
    if c2.isNone && c.isNone then .panic
    else if r2.isNone && r.isNone then .panic
    else .ok (r.getD 0, (r2.orElse fun _ => r).getD 0, c.getD 0, (c2.orElse fun _ => c).getD 0)
  | _ => .panic

/-! ## `helper::address` -/

/-- `strip_sheet_quote`: removes exactly one pair of surrounding apostrophes -/
def stripSheetQuote (s : List Char) : List Char :=
  match s with
  | '\'' :: r =>
    match r.reverse with
    | '\'' :: m => m.reverse
    | _ => s
  | _ => s

/-- `str::rsplit_once('!')` -/
def rsplitBang (s : List Char) : Option (List Char × List Char) :=
  let r := s.reverse
  let tail := r.takeWhile (· ≠ '!')
  match r.dropWhile (· ≠ '!') with
  | [] => none
  | _ :: hd => some (hd.reverse, tail.reverse)

/-- `split_address` -/
def splitAddress (s : List Char) : List Char × List Char :=
  match rsplitBang s with
  | some (sheet, range) => (stripSheetQuote sheet, range)
  | none => ([], s)

/-- `join_address` -/
def joinAddress (sheet addr : List Char) : List Char :=
  if sheet.isEmpty then addr else sheet ++ ['!'] ++ addr

/-! ## `structs::Coordinate` (src/structs/coordinate.rs) -/

/-- `structs::Coordinate`: a `ColumnReference` and a `RowReference`, each a number and a lock flag
    (`Default`: column 1, row 1, no locks) -/
structure CoordObj where
  col : Ref := ⟨1, false⟩
  row : Ref := ⟨1, false⟩
  deriving Repr, DecidableEq

/-- `Coordinate::set_coordinate(value)`: the four results of `index_from_coordinate(value)` are unwrapped one after the
    other and stored (`set_num`, `set_num`, `set_is_lock`, `set_is_lock`); `none` = one of the `unwrap()`s panics.
    Nothing of the previous state survives a call that returns. -/
def CoordObj.setCoordinate (_old : CoordObj) (t : List Char) : Option CoordObj :=
  match indexFromCoordinate t with
  | (some c, some r, some lc, some lr) => some { col := ⟨c, lc⟩, row := ⟨r, lr⟩ }
  | _ => none

/-- `Coordinate::get_coordinate()` = `coordinate_from_index_with_lock` of the four fields; `none` = its assertion
    `col >= 1` fails -/
def CoordObj.getCoordinate (x : CoordObj) : Option (List Char) :=
  coordinateFromIndexWithLock? x.col.num x.row.num x.col.lock x.row.lock

end Umya.Coord

namespace Umya.Coord
open Umya.Dec

/-- Rust `char::is_whitespace` (Unicode `White_Space`). -/
def isWhitespace (c : Char) : Bool :=
  let n := c.toNat
  (n ≥ 9 && n ≤ 13) || n = 32 || n = 0x85 || n = 0xA0 || n = 0x1680 ||
  (n ≥ 0x2000 && n ≤ 0x200A) || n = 0x2028 || n = 0x2029 || n = 0x202F || n = 0x205F || n = 0x3000

def isAlnumAscii (c : Char) : Bool :=
  isDigit c || isUpperAZ c || isLowerAZ c

def replaceApos (s : List Char) : List Char :=
  s.flatMap (fun c => if c = '\'' then ['\'', '\''] else [c])

/-- `Address::get_address_crate(is_ptn2)` given the sheet name and the already printed range -/
def addressText (sheet rangeText : List Char) (ptn2 : Bool) : List Char :=
  if sheet.isEmpty then rangeText
  else
    let q0 := sheet.any isWhitespace
    let (q, name) :=
      if ptn2 then
        let q1 := q0 || sheet.contains '!'
        let (q2, name) := if sheet.contains '\'' then (true, replaceApos sheet) else (q1, sheet)
        let q3 := q2 || name.contains '"'
        let q4 := q3 || name.any (fun c => !isAlnumAscii c)
        let q5 := q4 || (indexFromCoordinate name != (none, none, none, none))
        (q5, name)
      else (q0, sheet)
    let w : List Char := if q then ['\''] else []
    w ++ name ++ w ++ ['!'] ++ rangeText

end Umya.Coord
