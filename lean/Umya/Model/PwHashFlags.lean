/-
  C15 — hand model of the boolean option setters of the two protection structs:

    src/structs/sheet_protection.rs      set_sheet, set_objects, … set_sort   (sixteen)
    src/structs/workbook_protection.rs   set_lock_revision, set_lock_structure, set_lock_windows

  Each is `self.<field>.set_value(value); self` with `BooleanValue::set_value` = `self.value = Some(value)`: the setter
  stores `some value` in its own field and nothing else.  The records are those of `Umya/Model/AnnotProt.lean` (every
  field an `Option`; the five resp. ten password fields included), so "nothing else" covers the stored verifier.
-/
import Umya.Model.AnnotProt
namespace Umya.AnnotProt

/-- `SheetProtection::set_<flag>(value)` -/
def SheetProtection.setFlag (x : SheetProtection) (k : Flag) (v : Bool) : SheetProtection :=
  { x with flags := fun j => if j = k then some v else x.flags j }

/-- the three `BooleanValue` fields of `WorkbookProtection` -/
inductive BookFlag where
  | lockRevision | lockStructure | lockWindows
  deriving DecidableEq, Repr

def BookFlag.all : List BookFlag := [.lockRevision, .lockStructure, .lockWindows]

/-- `WorkbookProtection::set_lock_revision / set_lock_structure / set_lock_windows (value)` -/
def WorkbookProtection.setFlag (x : WorkbookProtection) (k : BookFlag) (v : Bool) : WorkbookProtection :=
  match k with
  | .lockRevision => { x with lockRevision := some v }
  | .lockStructure => { x with lockStructure := some v }
  | .lockWindows => { x with lockWindows := some v }

def WorkbookProtection.flag (x : WorkbookProtection) : BookFlag → Option Bool
  | .lockRevision => x.lockRevision
  | .lockStructure => x.lockStructure
  | .lockWindows => x.lockWindows

end Umya.AnnotProt
