/-
  The WRITER CALLS (`Umya/Model/XmlWrite.lean::WNode`) that put a written fact into the buffer, i.e. the
  characters of a `<c>` (`Cell::write_to`, `CellFormula::write_to`) and of an `<si>`
  (`SharedStringItem::write_to`, `Text::write_to`, `TextElement::write_to`):

  * a fact carries the RAW text of `<f>`, `<v>`, `<t>` — what `write_text_node` / `write_text_node_conversion`
    hand to the buffer after escaping — so the text is rendered as it is (`WNode.raw`);
  * `<c … />` (`empty_flag`) exactly when the fact has no `<f>`, no `<v>`, no `<is>`; `<v/>` for `VNode.emptyTag`;
    start tag + end tag otherwise (`<f></f>`, `<v></v>`, `<t></t>` for empty content);
  * the `s` attribute value (the `cellXfs` index) and the content of a run's `<rPr>` are parameters: the
    stylesheet and the font codec are not part of this model (C05).
-/
import Umya.Model.CellXml
import Umya.Model.XmlWrite
namespace Umya.CellCharsW
open Umya.CellXml Umya.XmlWrite
open Umya.Spec.Xml (Attr textValue)

def rawW (raw : List Char) : WNode := .raw raw ((textValue raw).getD [])

def cellAttrsW (s : Option (List Char)) (cx : CellX) : List Attr :=
  ⟨['r'], cx.ref⟩ :: (if cx.t = [] then [] else [⟨['t'], cx.t⟩]) ++ (match s with | some v => [⟨['s'], v⟩] | none => [])

def tW (tx : TX) : WNode :=
  .elem ['t'] (if tx.preserve then [⟨['x', 'm', 'l', ':', 's', 'p', 'a', 'c', 'e'], ['p', 'r', 'e', 's', 'e', 'r', 'v', 'e']⟩] else []) [rawW tx.raw]

/-- `Cell::write_to`; `s` = the value of the `s` attribute when the cell is styled -/
def cellW (s : Option (List Char)) (cx : CellX) : WNode :=
  if cx.f.isNone ∧ cx.v = .absent ∧ cx.is.isNone then .empty ['c'] (cellAttrsW s cx)
  else
    .elem ['c'] (cellAttrsW s cx)
      ((match cx.f with | some r => [.elem ['f'] [] [rawW r]] | none => []) ++
       (match cx.v with
        | .absent => []
        | .emptyTag => [.empty ['v'] []]
        | .text r => [.elem ['v'] [] [rawW r]]) ++
       (match cx.is with | some tx => [.elem ['i', 's'] [] [tW tx]] | none => []))

def phoneticPrW : WNode := .empty ['p', 'h', 'o', 'n', 'e', 't', 'i', 'c', 'P', 'r'] [⟨['f', 'o', 'n', 't', 'I', 'd'], ['1']⟩]

/-- `TextElement::write_to`; `rpr` = the writer calls of the run's `<rPr>` -/
def runW (rpr : WNode) (r : RunX) : WNode :=
  .elem ['r'] [] ((match r.font with | some _ => [rpr] | none => []) ++ [tW r.t])

def zipRuns : List WNode → List RunX → List WNode
  | _, [] => []
  | [], r :: rs => runW (.empty ['r', 'P', 'r'] []) r :: zipRuns [] rs
  | p :: ps, r :: rs => runW p r :: zipRuns ps rs

/-- `SharedStringItem::write_to`; `rprs` = the `<rPr>` of each run, in order -/
def siW (rprs : List WNode) (x : SiX) : WNode :=
  .elem ['s', 'i'] [] ((match x.t with | some tx => [tW tx] | none => []) ++ zipRuns rprs x.runs ++ [phoneticPrW])

end Umya.CellCharsW
