/-
  C14 — model of the agile-encryption writer of umya-spreadsheet, `src/helper/crypt.rs`:
  `encrypt`, `crypt_package` (encrypt direction), `create_iv`, `crypt`, `convert_password_to_key`,
  `hash`, `hmac`, `build_encryption_info`, and of the three entry points of `src/writer/xlsx.rs`
  (`write_with_password`, `write_with_password_light`, `set_password`), which all hand a byte
  buffer to `encrypt`.

  Generic over the abstract primitives `P : Prims`.  The five random draws (`gen_random_32/16/64`)
  are the parameter `ρ : Randoms`.  A Rust panic (`unwrap` on an `Err`, slice out of range) is `none`.
  The CFB container written by the `cfb` crate is outside the model: the model's output is the
  content of the two streams `EncryptionInfo` and `EncryptedPackage`.
-/
import Umya.Model.Prims
import Umya.Model.AgileInfo
import Umya.Model.Dec
namespace Umya.Crypt
open Umya.Crypto Umya.Agile Umya.Dec

def blkHmacKey : Bytes := [0x5f, 0xb2, 0xad, 0x01, 0x0c, 0xb9, 0xe1, 0xf6]
def blkHmacValue : Bytes := [0xa0, 0x67, 0x7f, 0x02, 0xb2, 0x2c, 0x84, 0x33]
def blkKey : Bytes := [0x14, 0x6e, 0x0b, 0xe7, 0xab, 0xac, 0xd0, 0xd6]
def blkVerifierInput : Bytes := [0xfe, 0xa7, 0xd2, 0x76, 0x3b, 0x4b, 0x9e, 0x79]
def blkVerifierValue : Bytes := [0xd7, 0xaa, 0x0f, 0x6d, 0x30, 0x61, 0x34, 0x4e]

def chunkSize : Nat := 4096

/-- the `match len.cmp(n)` of `create_iv` / `convert_password_to_key`:
    shorter → copied into a buffer of `n` bytes 0x36; longer → first `n` bytes; equal → unchanged -/
def fit (n : Nat) (x : Bytes) : Bytes :=
  if x.length < n then x ++ List.replicate (n - x.length) 0x36 else x.take n

/-- `create_iv(hash_algorithm = "SHA512", salt_value, block_size, block_key)` -/
def createIv (P : Prims) (salt : Bytes) (blockSize : Nat) (blockKey : Bytes) : Bytes :=
  fit blockSize (P.sha512 (salt ++ blockKey))

/-- `crypt(..)`: copies the input into a 4096-byte stack buffer (slice panic beyond that), accepts
    only 256-bit keys (`Err` → the callers `unwrap`), `new_from_slices(key, iv).unwrap()` (IV must
    be one block), `encrypt_padded_mut::<NoPadding>(..).unwrap()` (input must be block aligned). -/
def crypt (P : Prims) (key iv input : Bytes) : Option Bytes :=
  if input.length > 4096 then none
  else if key.length * 8 ≠ 256 then none
  else if iv.length ≠ 16 then none
  else if input.length % 16 ≠ 0 then none
  else some (P.aesCbcEnc key iv input)

/-- zero padding of a chunk to the 16-byte block size -/
def padChunk (c : Bytes) : Bytes :=
  if c.length % 16 > 0 then c ++ List.replicate (16 - c.length % 16) 0 else c

/-- the `while end < input.len()` loop: consecutive slices of 4096 bytes, the last one shorter -/
def chunks (xs : Bytes) : List Bytes :=
  if xs.length = 0 then [] else xs.take chunkSize :: chunks (xs.drop chunkSize)
termination_by xs.length
decreasing_by simp [List.length_drop, chunkSize]; omega

/-- body of the loop for chunk number `i, i+1, …`: pad, IV from `le32 i`, encrypt -/
def cryptChunks (P : Prims) (salt key : Bytes) : Nat → List Bytes → Option (List Bytes)
  | _, [] => some []
  | i, c :: cs =>
    match crypt P key (createIv P salt 16 (le32 i)) (padChunk c) with
    | none => none
    | some o =>
      match cryptChunks P salt key (i + 1) cs with
      | none => none
      | some os => some (o :: os)

/-- `crypt_package(&true, "AES", "ChainingModeCBC", "SHA512", &16, salt, key, input)`:
    encrypted chunks, preceded by `create_uint32_le_buffer(input.len() as u32, Some(8))` -/
def cryptPackage (P : Prims) (salt key input : Bytes) : Option Bytes :=
  match cryptChunks P salt key 0 (chunks input) with
  | none => none
  | some os => some (le32 input.length ++ [0, 0, 0, 0] ++ os.flatten)

/-- `convert_password_to_key(password, "SHA512", salt, spin, key_bits, block_key)`:
    `key = H(salt ‖ utf16le pw)`; `for i in 0..spin { key = H(le32 i ‖ key) }`; `key = H(key ‖ block_key)`;
    cut / 0x36-padded to `key_bits / 8` -/
def convertPasswordToKey (P : Prims) (pw : List Char) (salt : Bytes) (spin keyBits : Nat) (blockKey : Bytes) : Bytes :=
  let h0 := P.sha512 (salt ++ utf16le pw)
  let hn := spinLoop (fun i key => P.sha512 (le32 i ++ key)) spin h0
  fit (keyBits / 8) (P.sha512 (hn ++ blockKey))

/-- the random draws of one `encrypt` call, in the order they are made -/
structure Randoms where
  packageKey : Bytes      -- gen_random_32
  packageSalt : Bytes     -- gen_random_16
  keySalt : Bytes         -- gen_random_16
  hmacKey : Bytes         -- gen_random_64
  verifierInput : Bytes   -- gen_random_16
  deriving DecidableEq, Repr

def Randoms.wellFormed (ρ : Randoms) : Prop :=
  ρ.packageKey.length = 32 ∧ ρ.packageSalt.length = 16 ∧ ρ.keySalt.length = 16 ∧
  ρ.hmacKey.length = 64 ∧ ρ.verifierInput.length = 16

def aes : List Char := ['A', 'E', 'S']
def cbc : List Char := ['C', 'h', 'a', 'i', 'n', 'i', 'n', 'g', 'M', 'o', 'd', 'e', 'C', 'B', 'C']
def sha512Name : List Char := ['S', 'H', 'A', '5', '1', '2']

/-- `encrypt(filepath, data, password)` up to the two stream contents, with the spin count as a
    parameter (`encrypt` below fixes it to 100000 as the code does).
    Result: the descriptor handed to `build_encryption_info` and the `EncryptedPackage` stream. -/
def encryptWith (P : Prims) (spin : Nat) (data : Bytes) (pw : List Char) (ρ : Randoms) : Option (Info × Bytes) :=
  match cryptPackage P ρ.packageSalt ρ.packageKey data with
  | none => none
  | some encryptedPackage =>
  match crypt P ρ.packageKey (createIv P ρ.packageSalt 16 blkHmacKey) ρ.hmacKey with
  | none => none
  | some encryptedHmacKey =>
  match crypt P ρ.packageKey (createIv P ρ.packageSalt 16 blkHmacValue) (P.hmac ρ.hmacKey encryptedPackage) with
  | none => none
  | some encryptedHmacValue =>
  match crypt P (convertPasswordToKey P pw ρ.keySalt spin 256 blkKey) ρ.keySalt ρ.packageKey with
  | none => none
  | some encryptedKeyValue =>
  match crypt P (convertPasswordToKey P pw ρ.keySalt spin 256 blkVerifierInput) ρ.keySalt ρ.verifierInput with
  | none => none
  | some encryptedVerifierHashInput =>
  match crypt P (convertPasswordToKey P pw ρ.keySalt spin 256 blkVerifierValue) ρ.keySalt (P.sha512 ρ.verifierInput) with
  | none => none
  | some encryptedVerifierHashValue =>
    some ({ keyData := { saltSize := ρ.packageSalt.length, blockSize := 16, keyBits := ρ.packageKey.length * 8,
                         hashSize := 64, cipherAlgorithm := aes, cipherChaining := cbc,
                         hashAlgorithm := sha512Name, saltValue := P.b64 ρ.packageSalt }
            encryptedHmacKey := P.b64 encryptedHmacKey
            encryptedHmacValue := P.b64 encryptedHmacValue
            spinCount := spin
            key := { saltSize := ρ.keySalt.length, blockSize := 16, keyBits := 256, hashSize := 64,
                     cipherAlgorithm := aes, cipherChaining := cbc, hashAlgorithm := sha512Name,
                     saltValue := P.b64 ρ.keySalt }
            encryptedVerifierHashInput := P.b64 encryptedVerifierHashInput
            encryptedVerifierHashValue := P.b64 encryptedVerifierHashValue
            encryptedKeyValue := P.b64 encryptedKeyValue },
          encryptedPackage)

/-- `encrypt` as written: `key_spin_count = 100000` -/
def encrypt (P : Prims) (data : Bytes) (pw : List Char) (ρ : Randoms) : Option (Info × Bytes) :=
  encryptWith P 100000 data pw ρ

/-! ## `build_encryption_info`: the bytes of the `EncryptionInfo` stream -/

def attrText (a : List Char × List Char) : List Char :=
  [' '] ++ a.1 ++ "=\"".toList ++ a.2 ++ ['"']

def startTag (name : List Char) (attrs : List (List Char × List Char)) (empty : Bool) : List Char :=
  ['<'] ++ name ++ attrs.flatMap attrText ++ (if empty then ['/', '>'] else ['>'])

def endTag (name : List Char) : List Char := "</".toList ++ name ++ ['>']

def keyDataAttrs (k : KeyData) : List (List Char × List Char) :=
  [("saltSize".toList, decDigits k.saltSize), ("blockSize".toList, decDigits k.blockSize),
   ("keyBits".toList, decDigits k.keyBits), ("hashSize".toList, decDigits k.hashSize),
   ("cipherAlgorithm".toList, k.cipherAlgorithm), ("cipherChaining".toList, k.cipherChaining),
   ("hashAlgorithm".toList, k.hashAlgorithm), ("saltValue".toList, k.saltValue)]

def encryptionNs : List Char := "http://schemas.microsoft.com/office/2006/encryption".toList
def passwordNs : List Char := "http://schemas.microsoft.com/office/2006/keyEncryptor/password".toList
def certificateNs : List Char := "http://schemas.microsoft.com/office/2006/keyEncryptor/certificate".toList

/-- the XML text (all values here are ASCII without XML-special characters, so quick-xml's
    escaping is the identity on them) -/
def encryptionInfoXml (i : Info) : List Char :=
  "<?xml version=\"1.0\" encoding=\"UTF-8\" standalone=\"yes\"?>\r\n".toList ++
  startTag "encryption".toList
    [("xmlns".toList, encryptionNs), ("xmlns:p".toList, passwordNs), ("xmlns:c".toList, certificateNs)] false ++
  startTag "keyData".toList (keyDataAttrs i.keyData) true ++
  startTag "dataIntegrity".toList
    [("encryptedHmacKey".toList, i.encryptedHmacKey), ("encryptedHmacValue".toList, i.encryptedHmacValue)] true ++
  startTag "keyEncryptors".toList [] false ++
  startTag "keyEncryptor".toList [("uri".toList, passwordNs)] false ++
  startTag "p:encryptedKey".toList
    ([("spinCount".toList, decDigits i.spinCount)] ++ keyDataAttrs i.key ++
     [("encryptedVerifierHashInput".toList, i.encryptedVerifierHashInput),
      ("encryptedVerifierHashValue".toList, i.encryptedVerifierHashValue),
      ("encryptedKeyValue".toList, i.encryptedKeyValue)]) true ++
  endTag "keyEncryptor".toList ++ endTag "keyEncryptors".toList ++ endTag "encryption".toList

def encryptionInfoPrefix : Bytes := [0x04, 0x00, 0x04, 0x00, 0x40, 0x00, 0x00, 0x00]

/-- `build_encryption_info(..)`: version 4.4, flags 0x40, then the XML (ASCII) -/
def buildEncryptionInfo (i : Info) : Bytes :=
  encryptionInfoPrefix ++ (encryptionInfoXml i).map fun c => UInt8.ofNat c.toNat

end Umya.Crypt
