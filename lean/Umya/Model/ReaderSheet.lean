/-
  Model of the library's reader ABOVE the cell level, as the code is in the worktree:

    * the `<sheetData>` loop: reader/xlsx/worksheet.rs `read` (`b"row"` arms, `last_row_num`,
      `formula_shared_list`), structs/row.rs `Row::set_attributes` (`last_col_num`, the `<c>` loop),
      structs/cell.rs `Cell::set_attributes` (position, then the children; every `<f>` child builds a fresh
      `CellFormula`), structs/cell_formula.rs `CellFormula::set_attributes`, "Shared" branch
      (`formula_shared_list.get(si)`: found = child, `text_view` := the stored tokens moved by the distance
      to the stored cell; not found = this cell becomes the anchor of `si`, whatever its text);
    * the shared-strings part: structs/shared_string_table.rs `set_attributes` (every `<si>` / `<si/>`
      occupies an index, fix a64a0eb);
    * hyperlinks: reader/xlsx/worksheet.rs `get_hyperlink` + structs/raw/raw_relationships.rs
      `get_relationship_by_rid`;
    * merged ranges: structs/merge_cells.rs `set_attributes`;
    * the workbook part: reader/xlsx/workbook.rs `read` (sheet list, defined names),
      reader/xlsx/workbook_rels.rs `read`.

  Built from the cell-level model `Umya.Model.Reader` (`readCell`, `setCoordinate`, `rowNumber`, `sharedOf`, …).
  Conventions as there: the model reads the element tree of `Umya.Spec.Xml`; an attribute value in the tree
  stands for what `get_attribute` returns (theorem `C03_attr`); a Rust panic is `none`.

  What is abstracted in the sheet loop.
    * `formula_shared_list` is a `HashMap<u32, (String, Vec<FormulaToken>)>` that is only read with `get` and
      written with `insert` for a key that is absent: an association list with `find?` / cons is the same map.
      The stored value is the anchor's reference TEXT and its TOKENS; the model stores the (column, row) that
      `index_from_coordinate` gives for that text (the same four-way unwrap as `set_coordinate`, which the
      anchor cell has passed) and the formula TEXT, and tokenizes again at each child (the tokenizer is a pure
      function; a tokenizer panic happens at the anchor in the code, so the model checks `parseOk` there).
    * the translator is a parameter (`Tr`): `codeTr` is the code's (`parse_to_tokens`,
      `adjustment_formula_coordinate`, `render` of `Umya.Model.Formula`); the theorems hold for every `Tr`.
    * the cell store (`cells.set_fast`: a map keyed by position, last write wins) is not modelled: the model
      yields the cells in document order (`lastWins` gives the final map as a list).
    * `worksheet.rs` reacts to `<row>` anywhere in the part; the model is given the `<row>` children of
      `<sheetData>` (rows elsewhere are not schema-valid).
-/
import Umya.Model.Reader
namespace Umya.Reader
open Umya.Spec.Xml Umya.Coord

/-! ## the translator of shared formulas -/

/-- what the "Shared" branch needs of helper/formula.rs: `parseOk text` = `parse_to_tokens("=" + text)` does
    not panic; `tr text dc dr` = `render(adjustment_formula_coordinate(parse_to_tokens("=" + text), dc, dr))`,
    `none` = panic -/
structure Tr where
  parseOk : Text → Bool
  tr : Text → Int → Int → Option Text

/-- the code's translator -/
def codeTr : Tr where
  parseOk m := match Umya.Formula.parse ('=' :: m) with | .ok _ => true | .panic => false
  tr m dc dr :=
    match Umya.Formula.parse ('=' :: m) with
    | .panic => none
    | .ok toks =>
      match Umya.Formula.adjustFormulaCoordinate toks dc dr with
      | .panic => none
      | .ok toks' => some (Umya.Formula.render toks')

/-! ## one `<f>`, one `<c>`, one `<row>`, the `<sheetData>` -/

/-- `CellFormula::set_attributes` for one `<f>` of the cell at `(col, row)`: the new state of
    `formula_shared_list` and the `text_view` it sets (`none` inside = not set); outer `none` = panic
    (`si` not a `u32`, tokenizer / translation panic) -/
def fStep (T : Tr) (col row : Nat) (as : List Anchor) (f : Node) : Option (List Anchor × Option Text) :=
  match sharedOf f with
  | none => none
  | some none => some (as, none)
  | some (some si) =>
    match as.find? (·.si = si) with
    | some a =>
      (T.tr a.text ((col : Int) - a.col) ((row : Int) - a.row)).map fun v => (as, some v)
    | none =>
      if T.parseOk (lastText false f) then some (⟨si, col, row, lastText false f⟩ :: as, none) else none

/-- every `<f>` child in document order: each builds a fresh `CellFormula` (`set_formula_obj` replaces the
    one before), so the `text_view` that stays is the last one's; the list is threaded through all of them -/
def fSteps (T : Tr) (col row : Nat) : List Anchor → List Node → Option (List Anchor × Option Text)
  | as, [] => some (as, none)
  | as, [f] => fStep T col row as f
  | as, f :: g :: rest =>
    match fStep T col row as f with
    | none => none
    | some (as', _) => fSteps T col row as' (g :: rest)

/-- a cell as the reader leaves it: position, the cell-level facts, and what `get_formula()` shows
    (`CellFormula::get_text`: `text_view` when set, else `text`; `none` = no formula object) -/
structure CellOut where
  col : Nat
  row : Nat
  cell : CellR
  formula : Option Text
  deriving Repr

/-- the `cell_reference` of `Cell::set_attributes`: `r` when present, else
    `coordinate_from_index(implied_position)` with `implied_position = (last_col_num + 1, row_num)` -/
def cellRefText (rowNum lastCol : Nat) (c : Node) : Text :=
  match c.attr? "r".toList with
  | some v => v
  | none => coordinateFromIndexWithLock (lastCol + 1) rowNum false false

/-- `Cell::set_attributes` for the `<c>` that follows a cell in column `lastCol` of row `rowNum`
    (`implied_position = (last_col_num + 1, row_num)`); `none` = panic -/
def readCellAt (T : Tr) (sst : List (Option Text)) (rowNum lastCol : Nat) (as : List Anchor) (c : Node) :
    Option (CellOut × List Anchor) :=
  match setCoordinate (cellRefText rowNum lastCol c) with
  | none => none
  | some (col, row) =>
    match readCell sst c with
    | none => none
    | some r =>
      match fSteps T col row as (c.kids "f") with
      | none => none
      | some (as', view) =>
        some ({ col := col, row := row, cell := r,
                formula := match view with | some v => some v | none => r.formula }, as')

/-- the `<c>` loop of `Row::set_attributes`; `last_col_num` becomes the column of the cell just read -/
def readCells (T : Tr) (sst : List (Option Text)) (rowNum : Nat) :
    Nat → List Anchor → List Node → Option (List CellOut × List Anchor)
  | _, as, [] => some ([], as)
  | last, as, c :: rest =>
    match readCellAt T sst rowNum last as c with
    | none => none
    | some (o, as') =>
      match readCells T sst rowNum o.col as' rest with
      | none => none
      | some (os, as'') => some (o :: os, as'')

/-- the `b"row"` arms of worksheet.rs `read`: `last_row_num` and `formula_shared_list` live across rows -/
def readRows (T : Tr) (sst : List (Option Text)) : Nat → List Anchor → List Node → Option (List CellOut)
  | _, _, [] => some []
  | last, as, row :: rest =>
    match rowNumber last (row.attr? "r".toList) with
    | none => none
    | some n =>
      match readCells T sst n 0 as (row.kids "c") with
      | none => none
      | some (os, as') => (readRows T sst n as' rest).map (os ++ ·)

/-- the cells of a `<sheetData>` whose `<row>` children are `rows`, in document order, with the code's
    translator; `last_row_num = 0`, `formula_shared_list` empty -/
def readSheetData (sst : List (Option Text)) (rows : List Node) : Option (List CellOut) :=
  readRows codeTr sst 0 [] rows

/-- `Cells::set_fast` for every cell in turn: a later cell at the same position replaces the earlier one
    (the result in document order of the surviving cells) -/
def lastWins : List CellOut → List CellOut
  | [] => []
  | o :: rest => if rest.any (fun p => p.col = o.col ∧ p.row = o.row) then lastWins rest else o :: lastWins rest

/-! ## the shared-strings part -/

/-- `SharedStringTable::set_attributes`: every `<si>` child of `<sst>` — start/end or empty-element form —
    is one item, in document order (`n += 1` in both arms); the item's text as `stringItem` reads it with
    the part's `trim_text(false)` -/
def readSst (sst : Node) : List (Option Text) := (sst.kids "si").map (stringItem false)

/-! ## relationships, hyperlinks, merged ranges -/

structure RelR where
  id : Text
  type : Text
  target : Text
  deriving Repr, DecidableEq

/-- `RawRelationships::set_attributes`: every `<Relationship>` with `Id`, `Type`, `Target` as read
    (`get_attribute(..).unwrap()`; `none` = panic) -/
def readRels (root : Node) : Option (List RelR) :=
  (root.kids "Relationship").mapM fun r =>
    match r.attr? "Id".toList, r.attr? "Type".toList, r.attr? "Target".toList with
    | some i, some t, some g => some ⟨i, t, g⟩
    | _, _, _ => none

structure LinkR where
  ref : Text
  url : Text
  location : Bool
  tooltip : Text
  deriving Repr, DecidableEq

/-- `get_hyperlink`: `location` first (url := it, flag set), then `r:id` (url := the target of the FIRST
    relationship with that id; the flag stays as it is); `none` = panic (no relationships part, no such id) -/
def readHyperlink (rels : Option (List RelR)) (h : Node) : Option LinkR :=
  let ref := (h.attr? "ref".toList).getD []
  let tip := (h.attr? "tooltip".toList).getD []
  let l0 : LinkR := match h.attr? "location".toList with
    | some v => ⟨ref, v, true, tip⟩
    | none => ⟨ref, [], false, tip⟩
  match h.attr? "r:id".toList with
  | none => some l0
  | some rid =>
    match rels with
    | none => none
    | some rs => (rs.find? (·.id = rid)).map fun r => { l0 with url := r.target }

def readHyperlinks (rels : Option (List RelR)) (hs : List Node) : Option (List LinkR) := hs.mapM (readHyperlink rels)

/-- `MergeCells::set_attributes`: the `ref` of every `<mergeCell/>` (`unwrap`: `none` = panic) -/
def readMerges (ms : List Node) : Option (List Text) := ms.mapM fun m => m.attr? "ref".toList

/-! ## the workbook part -/

structure SheetR where
  name : Text
  sheetId : Text
  rid : Text
  state : Option Text
  deriving Repr, DecidableEq

/-- the `b"sheet"` arm of reader/xlsx/workbook.rs: `name`, `sheetId`, `r:id` unwrapped -/
def readSheetList (sheets : List Node) : Option (List SheetR) :=
  sheets.mapM fun s =>
    match s.attr? "name".toList, s.attr? "sheetId".toList, s.attr? "r:id".toList with
    | some n, some i, some r => some ⟨n, i, r, s.attr? "state".toList⟩
    | _, _, _ => none

/-- workbook_rels.rs: a target that starts with `/xl/` loses that prefix -/
def stripXl (t : Text) : Text :=
  match t with
  | '/' :: 'x' :: 'l' :: '/' :: r => r
  | _ => t

/-- `normalize_path` on `/`-separated segments: `.` and empty segments dropped, `..` pops -/
def normSegs : List Text → List Text → List Text
  | acc, [] => acc
  | acc, s :: rest =>
    if s = [] ∨ s = ['.'] then normSegs acc rest
    else if s = ['.', '.'] then normSegs acc.dropLast rest
    else normSegs (acc ++ [s]) rest

def splitSlash (t : Text) : List Text :=
  (t.foldr (fun c (acc : List Text) => if c = '/' then [] :: acc else match acc with
    | [] => [[c]]
    | h :: r => (c :: h) :: r) [[]])

def joinSlash : List Text → Text
  | [] => []
  | [a] => a
  | a :: b :: r => a ++ '/' :: joinSlash (b :: r)

/-- reader/driver.rs `join_paths(base, target)`: an absolute target stands for itself -/
def joinPaths (base target : Text) : Text :=
  match target with
  | '/' :: t => joinSlash (normSegs [] (splitSlash t))
  | _ => joinSlash (normSegs [] (splitSlash (base ++ '/' :: target)))

/-- the relationship a sheet is read through.  reader/xlsx.rs loops over ALL relationships of the workbook part and,
    for EVERY one whose id is the sheet's `r:id`, reads that part into a fresh `RawWorksheet` and stores it in the sheet
    (`set_raw_data_of_worksheet`), overwriting what an earlier relationship with the same id left: the LAST one wins.
    (OPC requires unique ids; with unique ids first = last.  With a duplicated id the code also opens the parts of the
    earlier ones — `by_name(..).unwrap()` — and panics when one of them is missing: NOT modelled, see the props file.) -/
def sheetRel (wbRels : List RelR) (s : SheetR) : Option RelR :=
  (wbRels.filter (·.id = s.rid)).getLast?

/-- the part a sheet is read from (`RawFile::set_attributes(arv, "xl", target)` of the relationship `sheetRel`);
    `none` = the sheet is left unread -/
def sheetPart (wbRels : List RelR) (s : SheetR) : Option Text :=
  (sheetRel wbRels s).map fun r => joinPaths "xl".toList (stripXl r.target)

/-- the relationships part of a part (`RawFile::get_path` + `make_rel_name`):
    `dir/_rels/file.rels` -/
def relsPartOf (part : Text) : Text :=
  let segs := splitSlash part
  joinSlash (segs.dropLast ++ ["_rels".toList, (segs.getLast?.getD []) ++ ".rels".toList])

structure NameR where
  name : Text
  localSheetId : Option Nat
  text : Text
  deriving Repr, DecidableEq

/-- `DefinedName::set_attributes`: `name`, `localSheetId` (`parse::<u32>().unwrap()`), the text content
    (`trim_text(true)` of the workbook part); `none` = panic -/
def readDefinedName (d : Node) : Option NameR :=
  match d.attr? "localSheetId".toList with
  | some v => (parseU32 v).map fun i => ⟨(d.attr? "name".toList).getD [], some i, lastText true d⟩
  | none => some ⟨(d.attr? "name".toList).getD [], none, lastText true d⟩

def readDefinedNames (ds : List Node) : Option (List NameR) := ds.mapM readDefinedName

end Umya.Reader
