/-
  Find-or-append ("interning") on a list, as done by every table of the style sheet
  (`Fonts::set_style`, `Fills::set_style`, `BordersCrate::set_style`, `NumberingFormats::set_style`)
  and by the shared-string table:

      let mut id = 0;
      for e in &self.table { if <e matches x> { return id; } id += 1; }
      self.table.push(x.clone()); id

  `internBy m t x` is that loop for an arbitrary match predicate `m x e`.
  * `internEq`  — the predicate is `e = x`            (the tables AFTER fix_1: `font == v`)
  * `internKey` — the predicate is `key e = key x`    (the tables BEFORE the fix: md5 of a
                   concatenation of the field texts; still used for number formats, key = md5 of the code)

  Lemmas: earlier indices stay valid (the old table is a prefix of the new one), the returned index
  is in range and denotes a matching entry (`= x` for `internEq`; for `internKey` under injectivity of
  the key), idempotence, and no-merge for whole insertion sequences (`internAll`).
  Core Lean only.
-/
namespace Umya.Interning

variable {α : Type}

/-- index of the first element satisfying `p` (the `for … { if … return id; id += 1 }` loop) -/
def find (p : α → Bool) : List α → Option Nat
  | [] => none
  | a :: l => if p a then some 0 else (find p l).map (· + 1)

/-- find-or-append with match predicate `m x e` ("entry `e` matches the value `x` looked for") -/
def internBy (m : α → α → Bool) (t : List α) (x : α) : List α × Nat :=
  match find (m x) t with
  | some i => (t, i)
  | none => (t ++ [x], t.length)

/-- look-up by equality of the components (`font == v`) -/
def internEq [DecidableEq α] (t : List α) (x : α) : List α × Nat :=
  internBy (fun x e => decide (e = x)) t x

/-- look-up by equality of a key (`e.get_hash_code() == x.get_hash_code()`) -/
def internKey {κ : Type} [DecidableEq κ] (key : α → κ) (t : List α) (x : α) : List α × Nat :=
  internBy (fun x e => decide (key e = key x)) t x

/-- intern a whole sequence, left to right; returns the final table and the index given to each element -/
def internAll (m : α → α → Bool) : List α → List α → List α × List Nat
  | t, [] => (t, [])
  | t, x :: xs =>
    let r := internBy m t x
    let r' := internAll m r.1 xs
    (r'.1, r.2 :: r'.2)

/-! ### `find` -/

theorem find_some {p : α → Bool} : ∀ {l : List α} {i : Nat}, find p l = some i →
    ∃ a, l[i]? = some a ∧ p a = true
  | [], i, h => by simp [find] at h
  | a :: l, i, h => by
    unfold find at h
    by_cases hp : p a = true
    · simp [hp] at h; subst h; exact ⟨a, by simp, hp⟩
    · simp [hp] at h
      obtain ⟨j, hj, rfl⟩ := h
      obtain ⟨b, hb, hpb⟩ := find_some hj
      exact ⟨b, by simpa using hb, hpb⟩

theorem find_none {p : α → Bool} : ∀ {l : List α}, find p l = none → ∀ a ∈ l, p a = false
  | [], _, a, ha => by simp at ha
  | b :: l, h, a, ha => by
    unfold find at h
    by_cases hp : p b = true
    · simp [hp] at h
    · simp [hp] at h
      rcases List.mem_cons.mp ha with rfl | ha'
      · simpa using hp
      · exact find_none h a ha'

theorem find_append_of_some {p : α → Bool} : ∀ {l : List α} {i : Nat} (l' : List α),
    find p l = some i → find p (l ++ l') = some i
  | [], i, _, h => by simp [find] at h
  | a :: l, i, l', h => by
    unfold find at h
    by_cases hp : p a = true
    · simp [hp] at h; subst h; simp [find, hp]
    · simp [hp] at h
      obtain ⟨j, hj, rfl⟩ := h
      simp [find, hp, find_append_of_some l' hj]

theorem find_append_of_none {p : α → Bool} : ∀ {l : List α} (x : α),
    find p l = none → p x = true → find p (l ++ [x]) = some l.length
  | [], x, _, hx => by simp [find, hx]
  | a :: l, x, h, hx => by
    unfold find at h
    by_cases hp : p a = true
    · simp [hp] at h
    · simp [hp] at h
      simp [find, hp, find_append_of_none x h hx]

/-! ### one insertion -/

section one
variable (m : α → α → Bool) (t : List α) (x : α)

/-- the old table is a prefix of the new one: every earlier index keeps its meaning -/
theorem internBy_prefix : ∃ l, (internBy m t x).1 = t ++ l ∧ l.length ≤ 1 := by
  unfold internBy
  cases find (m x) t with
  | some i => exact ⟨[], by simp, by simp⟩
  | none => exact ⟨[x], rfl, by simp⟩

theorem internBy_get_old {i : Nat} (h : i < t.length) : (internBy m t x).1[i]? = t[i]? := by
  obtain ⟨l, hl, _⟩ := internBy_prefix m t x
  rw [hl, List.getElem?_append_left h]

theorem internBy_length_le : t.length ≤ (internBy m t x).1.length := by
  obtain ⟨l, hl, _⟩ := internBy_prefix m t x
  rw [hl]; simp

/-- the returned index denotes an entry of the new table which is `x` itself or an older entry that matches `x` -/
theorem internBy_get : ∃ e, (internBy m t x).1[(internBy m t x).2]? = some e ∧ (e = x ∨ m x e = true) := by
  unfold internBy
  cases h : find (m x) t with
  | some i =>
    obtain ⟨a, ha, hp⟩ := find_some h
    exact ⟨a, ha, Or.inr hp⟩
  | none => exact ⟨x, by simp, Or.inl rfl⟩

theorem internBy_lt : (internBy m t x).2 < (internBy m t x).1.length := by
  obtain ⟨e, he, _⟩ := internBy_get m t x
  exact (List.getElem?_eq_some_iff.mp he).1

/-- a table that already contains a match is not changed -/
theorem internBy_of_find {i : Nat} (h : find (m x) t = some i) : internBy m t x = (t, i) := by
  simp [internBy, h]

/-- idempotence: interning the same value again returns the same index and does not grow the table
    (needs only that a value matches itself) -/
theorem internBy_idem (hrefl : m x x = true) :
    internBy m (internBy m t x).1 x = internBy m t x := by
  cases h : find (m x) t with
  | some i => simp [internBy, h]
  | none =>
    have h2 := find_append_of_none (p := m x) x h hrefl
    simp [internBy, h, h2]

theorem internBy_idem_length (hrefl : m x x = true) :
    (internBy m (internBy m t x).1 x).1.length = (internBy m t x).1.length := by
  rw [internBy_idem m t x hrefl]

end one

/-! ### equality-based look-up (the tables after the fix): unconditional -/

section eq
variable [DecidableEq α] (t : List α) (x : α)

theorem internEq_get : (internEq t x).1[(internEq t x).2]? = some x := by
  obtain ⟨e, he, h⟩ := internBy_get (fun x e => decide (e = x)) t x
  rcases h with rfl | h
  · exact he
  · have : e = x := by simpa using h
    subst this; exact he

theorem internEq_get_old {i : Nat} (h : i < t.length) : (internEq t x).1[i]? = t[i]? :=
  internBy_get_old _ t x h

theorem internEq_idem : internEq (internEq t x).1 x = internEq t x :=
  internBy_idem _ t x (by simp)

/-- no-merge, two values: whatever the table, interning `x` then `y ≠ x` gives two different indices -/
theorem internEq_no_merge (y : α) (hxy : x ≠ y) :
    (internEq t x).2 ≠ (internEq (internEq t x).1 y).2 := by
  intro h
  have hx := internEq_get t x
  have hy := internEq_get (internEq t x).1 y
  have hlt := internBy_lt (fun x e => decide (e = x)) t x
  have hold := internEq_get_old (internEq t x).1 y (i := (internEq t x).2) hlt
  rw [← h, hold, hx] at hy
  exact hxy (Option.some.inj hy)

end eq

/-! ### key-based look-up: correct exactly when the key is injective -/

section key
variable {κ : Type} [DecidableEq κ] (key : α → κ) (t : List α) (x : α)

theorem internKey_get_key : ∃ e, (internKey key t x).1[(internKey key t x).2]? = some e ∧ key e = key x := by
  obtain ⟨e, he, h⟩ := internBy_get (fun x e => decide (key e = key x)) t x
  refine ⟨e, he, ?_⟩
  rcases h with rfl | h
  · rfl
  · simpa using h

theorem internKey_get (hinj : ∀ a b, key a = key b → a = b) :
    (internKey key t x).1[(internKey key t x).2]? = some x := by
  obtain ⟨e, he, hk⟩ := internKey_get_key key t x
  rw [he, hinj e x hk]

theorem internKey_idem : internKey key (internKey key t x).1 x = internKey key t x :=
  internBy_idem _ t x (by simp)

theorem internKey_no_merge (hinj : ∀ a b, key a = key b → a = b) (y : α) (hxy : x ≠ y) :
    (internKey key t x).2 ≠ (internKey key (internKey key t x).1 y).2 := by
  intro h
  have hx := internKey_get key t x hinj
  have hy := internKey_get key (internKey key t x).1 y hinj
  have hlt : (internKey key t x).2 < (internKey key t x).1.length :=
    internBy_lt (fun x e => decide (key e = key x)) t x
  have hold : (internKey key (internKey key t x).1 y).1[(internKey key t x).2]? = (internKey key t x).1[(internKey key t x).2]? :=
    internBy_get_old (fun x e => decide (key e = key x)) (internKey key t x).1 y hlt
  rw [← h, hold, hx] at hy
  exact hxy (Option.some.inj hy)

/-- without injectivity the key-based table merges: a different value with the same key is not added,
    it is given the index of an entry that was already there -/
theorem internKey_merges (y : α) (hk : key x = key y) :
    (internKey key (internKey key t x).1 y).1 = (internKey key t x).1 ∧
    (internKey key (internKey key t x).1 y).2 < (internKey key t x).1.length := by
  obtain ⟨e, he, hke⟩ := internKey_get_key key t x
  have hmem : e ∈ (internKey key t x).1 := List.mem_of_getElem? he
  cases hf : find (fun e => decide (key e = key y)) (internKey key t x).1 with
  | some i =>
    have h2 : internKey key (internKey key t x).1 y = ((internKey key t x).1, i) :=
      internBy_of_find (fun x e => decide (key e = key x)) _ _ hf
    rw [h2]
    obtain ⟨a, ha, _⟩ := find_some hf
    exact ⟨rfl, (List.getElem?_eq_some_iff.mp ha).1⟩
  | none =>
    have := find_none hf e hmem
    simp [hke, hk] at this

end key

/-! ### whole insertion sequences -/

section all
variable (m : α → α → Bool)

theorem internAll_length : ∀ (xs t : List α), (internAll m t xs).2.length = xs.length
  | [], _ => rfl
  | x :: xs, t => by simp [internAll, internAll_length xs]

theorem internAll_prefix : ∀ (xs t : List α), ∃ l, (internAll m t xs).1 = t ++ l
  | [], t => ⟨[], by simp [internAll]⟩
  | x :: xs, t => by
    obtain ⟨l1, h1, _⟩ := internBy_prefix m t x
    obtain ⟨l2, h2⟩ := internAll_prefix xs (internBy m t x).1
    refine ⟨l1 ++ l2, ?_⟩
    simp only [internAll]
    rw [h2, h1, List.append_assoc]

theorem internAll_get_old (xs t : List α) {i : Nat} (h : i < t.length) :
    (internAll m t xs).1[i]? = t[i]? := by
  obtain ⟨l, hl⟩ := internAll_prefix m xs t
  rw [hl, List.getElem?_append_left h]

/-- after any sequence of insertions every element is found, through the index it was given,
    as itself or as an older matching entry -/
theorem internAll_get : ∀ (xs t : List α) (k : Nat) (x : α), xs[k]? = some x →
    ∃ i e, (internAll m t xs).2[k]? = some i ∧ (internAll m t xs).1[i]? = some e ∧ (e = x ∨ m x e = true)
  | [], _, k, x, h => by simp at h
  | y :: ys, t, 0, x, h => by
    have hx : y = x := by simpa using h
    subst hx
    obtain ⟨e, he, hm⟩ := internBy_get m t y
    refine ⟨(internBy m t y).2, e, by simp [internAll], ?_, hm⟩
    have hlt := internBy_lt m t y
    simp only [internAll]
    rw [internAll_get_old m ys _ hlt]; exact he
  | y :: ys, t, k + 1, x, h => by
    have h' : ys[k]? = some x := by simpa using h
    obtain ⟨i, e, hi, he, hm⟩ := internAll_get ys (internBy m t y).1 k x h'
    exact ⟨i, e, by simpa [internAll] using hi, by simpa [internAll] using he, hm⟩

end all

/-- no-merge for any order of insertion and any table size (equality-based look-up):
    two positions of the sequence that hold different values were given different indices -/
theorem internAll_no_merge [DecidableEq α] (t xs : List α) (k l : Nat) (x y : α)
    (hk : xs[k]? = some x) (hl : xs[l]? = some y) (hxy : x ≠ y) :
    (internAll (fun x e => decide (e = x)) t xs).2[k]? ≠ (internAll (fun x e => decide (e = x)) t xs).2[l]? := by
  obtain ⟨i, e, hi, he, hm⟩ := internAll_get (fun x e => decide (e = x)) xs t k x hk
  obtain ⟨j, f, hj, hf, hn⟩ := internAll_get (fun x e => decide (e = x)) xs t l y hl
  have hex : e = x := by rcases hm with h | h; exact h; simpa using h
  have hfy : f = y := by rcases hn with h | h; exact h; simpa using h
  intro hEq
  rw [hi, hj] at hEq
  have : i = j := Option.some.inj hEq
  subst this
  rw [he] at hf
  exact hxy (by rw [← hex, ← hfy]; exact Option.some.inj hf)

end Umya.Interning
