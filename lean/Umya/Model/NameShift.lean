/-
  Model of how defined names follow row / column edits, AS FIXED by 1629c1f (fan-out) and the
  deleted-target repair (a name all of whose areas were deleted becomes `#REF!`):

  * `structs::Range` `adjustment_insert_coordinate` / `adjustment_remove_coordinate` /
    `is_remove_coordinate` (each corner part through the helper kernels of `helper/coordinate.rs`,
    the models of which are `Formula.insertCoordinate` / `removeCoordinate` / `isRemoveCoordinate`);
  * `structs::Address` and `structs::DefinedName` `…_with_sheet`: an address is touched iff its own
    sheet name equals the name of the EDITED sheet;
  * the fan-out: `Worksheet::adjustment_{insert,remove}_coordinate_with_sheet(sheet_name, ..)` runs
    over the names stored on the sheet with the edited sheet's name (before the fix the un-named
    `Worksheet::adjustment_*_coordinate` ran over them with the storing sheet's own title), and
    `Spreadsheet::adjustment_*_coordinate_with_sheet` runs over the workbook-level names and calls
    every sheet (before the fix workbook-level names were never adjusted).

  Core Lean only.  A Rust panic (u32 overflow / underflow in the kernels) is `.panic`.
-/
import Umya.Model.Annot
import Umya.Model.Formula
namespace Umya.NameShift
open Umya.Coord Umya.Annot Umya.Formula

/-! ## `structs::Range` -/

/-- `ColumnReference / RowReference::adjustment_insert_value` -/
def insRef (r : Ref) (root off : Nat) : Res Ref :=
  match insertCoordinate r.num root off with
  | .ok n => .ok { r with num := n }
  | .panic => .panic

def optR (f : Ref → Res Ref) : Option Ref → Res (Option Ref)
  | none => .ok none
  | some r => match f r with | .ok x => .ok (some x) | .panic => .panic

/-- `Range::adjustment_insert_coordinate` (start col, start row, end col, end row, in this order) -/
def rangeInsert (ρ : Range) (rc oc rr orr : Nat) : Res Range :=
  (optR (fun r => insRef r rc oc) ρ.startCol).bind fun sc =>
  (optR (fun r => insRef r rr orr) ρ.startRow).bind fun sr =>
  (optR (fun r => insRef r rc oc) ρ.endCol).bind fun ec =>
  (optR (fun r => insRef r rr orr) ρ.endRow).bind fun er => .ok ⟨sc, sr, ec, er⟩

/-- one corner part of `Range::adjustment_remove_coordinate`: a part inside the removed band is
    clamped to the band's edge (`root` for a start part, `root - 1` for an end part), every
    other part is shifted -/
def remRef (isStart : Bool) (r : Ref) (root off : Nat) : Res Ref :=
  match isRemoveCoordinate r.num root off with
  | .panic => .panic
  | .ok true => .ok { r with num := if isStart then root else root - 1 }
  | .ok false =>
    match removeCoordinate r.num root off with
    | .ok n => .ok { r with num := n }
    | .panic => .panic

/-- `Range::adjustment_remove_coordinate` -/
def rangeRemove (ρ : Range) (rc oc rr orr : Nat) : Res Range :=
  (optR (fun r => remRef true r rc oc) ρ.startCol).bind fun sc =>
  (optR (fun r => remRef true r rr orr) ρ.startRow).bind fun sr =>
  (optR (fun r => remRef false r rc oc) ρ.endCol).bind fun ec =>
  (optR (fun r => remRef false r rr orr) ρ.endRow).bind fun er => .ok ⟨sc, sr, ec, er⟩

/-- "lies entirely inside the removed band" on one axis; `&&` evaluates the end part only when
    the start part is inside -/
def axisInside (s e : Option Ref) (root off : Nat) : Res Bool :=
  match s, e with
  | some s, some e =>
    (isRemoveCoordinate s.num root off).bind fun b =>
      if b then isRemoveCoordinate e.num root off else .ok false
  | some s, none => isRemoveCoordinate s.num root off
  | _, _ => .ok false

/-- `Range::is_remove_coordinate` (both axes are evaluated, then `||`) -/
def rangeIsRemove (ρ : Range) (rc oc rr orr : Nat) : Res Bool :=
  (axisInside ρ.startCol ρ.endCol rc oc).bind fun c =>
  (axisInside ρ.startRow ρ.endRow rr orr).bind fun r => .ok (c || r)

/-! ## `structs::Address`: touched iff its sheet is the edited sheet -/

def addrInsert (a : Address) (edited : Text) (rc oc rr orr : Nat) : Res Address :=
  if a.sheet = edited then (rangeInsert a.range rc oc rr orr).bind fun ρ => .ok { a with range := ρ }
  else .ok a

def addrRemove (a : Address) (edited : Text) (rc oc rr orr : Nat) : Res Address :=
  if a.sheet = edited then (rangeRemove a.range rc oc rr orr).bind fun ρ => .ok { a with range := ρ }
  else .ok a

def addrIsRemove (a : Address) (edited : Text) (rc oc rr orr : Nat) : Res Bool :=
  if a.sheet = edited then rangeIsRemove a.range rc oc rr orr else .ok false

/-! ## `structs::DefinedName` -/

/-- `Vec::retain(|x| !pred(x))` with a predicate that may panic -/
def rejectRes {α} (p : α → Res Bool) : List α → Res (List α)
  | [] => .ok []
  | a :: rest =>
    match p a with
    | .panic => .panic
    | .ok b =>
      match rejectRes p rest with
      | .panic => .panic
      | .ok r => .ok (if b then r else a :: r)

def nameInsert (d : DefName) (edited : Text) (rc oc rr orr : Nat) : Res DefName :=
  (mapRes (fun a => addrInsert a edited rc oc rr orr) d.areas).bind fun as => .ok { d with areas := as }

def refError : Text := ['#', 'R', 'E', 'F', '!']

/-- the areas that were deleted are dropped, the others adjusted; when every area of the name was
    deleted the name becomes the text `#REF!` (`set_string_value`; fix of C08-defined-name-deleted-target) -/
def nameRemove (d : DefName) (edited : Text) (rc oc rr orr : Nat) : Res DefName :=
  (rejectRes (fun a => addrIsRemove a edited rc oc rr orr) d.areas).bind fun kept =>
  if !d.areas.isEmpty && kept.isEmpty then .ok { areas := [], str := some refError }
  else (mapRes (fun a => addrRemove a edited rc oc rr orr) kept).bind fun as => .ok { d with areas := as }

/-- `DefinedName::is_remove_coordinate_with_sheet`: a name with neither text nor areas -/
def nameIsRemove (d : DefName) : Bool := d.str.isNone && d.areas.isEmpty

/-! ## the fan-out -/

/-- the names stored on one sheet: `Worksheet::adjustment_insert_coordinate_with_sheet` -/
def namesInsert (l : List DefName) (edited : Text) (rc oc rr orr : Nat) : Res (List DefName) :=
  if oc = 0 && orr = 0 then .ok l else mapRes (fun d => nameInsert d edited rc oc rr orr) l

/-- `Worksheet::adjustment_remove_coordinate_with_sheet`: names that are already empty are dropped,
    then every name is adjusted -/
def namesRemove (l : List DefName) (edited : Text) (rc oc rr orr : Nat) : Res (List DefName) :=
  if oc = 0 && orr = 0 then .ok l
  else mapRes (fun d => nameRemove d edited rc oc rr orr) (l.filter (fun d => !nameIsRemove d))

/-- a workbook as far as defined names go: the workbook-level names and, per sheet, its title and
    the names stored on it -/
structure Book where
  wbNames : List DefName
  sheets : List (Text × List DefName)
  deriving Repr, DecidableEq

/-- `Spreadsheet::adjustment_insert_coordinate_with_sheet(edited, ..)` on the names -/
def bookInsert (b : Book) (edited : Text) (rc oc rr orr : Nat) : Res Book :=
  (mapRes (fun d => nameInsert d edited rc oc rr orr) b.wbNames).bind fun w =>
  (mapRes (fun (s : Text × List DefName) =>
      (namesInsert s.2 edited rc oc rr orr).bind fun ns => .ok (s.1, ns)) b.sheets).bind fun ss =>
  .ok ⟨w, ss⟩

/-- `Spreadsheet::adjustment_remove_coordinate_with_sheet(edited, ..)` on the names -/
def bookRemove (b : Book) (edited : Text) (rc oc rr orr : Nat) : Res Book :=
  (mapRes (fun d => nameRemove d edited rc oc rr orr) b.wbNames).bind fun w =>
  (mapRes (fun (s : Text × List DefName) =>
      (namesRemove s.2 edited rc oc rr orr).bind fun ns => .ok (s.1, ns)) b.sheets).bind fun ss =>
  .ok ⟨w, ss⟩

/-- sheet-level entry points: `Worksheet::insert_new_row` .. on the edited sheet itself uses its
    own title, `.._from_other_sheet(edited, ..)` on another sheet the edited sheet's name -/
def sheetEdit (e : Edit) (names : List DefName) (edited : Text) (rc oc rr orr : Nat) : Res (List DefName) :=
  match e with
  | .insert => namesInsert names edited rc oc rr orr
  | .remove => namesRemove names edited rc oc rr orr

end Umya.NameShift
