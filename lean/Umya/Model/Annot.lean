/-
  C06 — models of the string-level codecs that carry the annotations of a workbook, as written by
  the code in the worktree (after the C06 fixes):

  * defined names: `DefinedName::get_address` (join of `Address::get_address_ptn2` with ",") and
    `DefinedName::set_address` (`split_str` state machine, `is_address` regex as a hand-written
    matcher, `add_address` un-doubling `''`, `split_address`, `Range::set_range`);
    src/structs/defined_name.rs, src/structs/address.rs, src/helper/address.rs
  * merged ranges / auto filter: `ref` attribute = `Range::get_range`, read by `Range::set_range`
  * hyperlinks: the sheet part's `<hyperlink>` walk and the relationships part's walk over the
    same ordered collection, and the reader's join of the two; src/writer/xlsx/worksheet.rs,
    worksheet_rels.rs, src/reader/xlsx/worksheet.rs (`get_hyperlink`)
  * comments: authors table, `authorId` = position, and the comments reader;
    src/writer/xlsx/comment.rs, src/reader/xlsx/comment.rs, `Comment::set_attributes`
  * sheet list: `name` attribute through `attrWrite` / `attrRead`

  Text is `List Char`; a Rust panic is `Res.panic`.  Core Lean only.
-/
import Umya.Model.Coord
import Umya.Model.XmlEsc
namespace Umya.Annot
open Umya.Coord Umya.Dec Umya.XmlEsc

abbrev Text := List Char

/-! ## addresses -/

structure Address where
  sheet : Text
  range : Range
  deriving Repr, DecidableEq

/-- `Address::get_address_ptn2` -/
def Address.text (a : Address) : Text := addressText a.sheet a.range.print true

/-- `str::replace("''", "'")`: non-overlapping pairs, left to right -/
def undouble : Text → Text
  | [] => []
  | [c] => [c]
  | c :: d :: r => if c = '\'' ∧ d = '\'' then '\'' :: undouble r else c :: undouble (d :: r)

/-- `Address::set_address` on a default `Address` -/
def Address.parse (s : Text) : Res Address :=
  let p := splitAddress s
  match Range.parse p.2 with
  | .ok ρ => .ok ⟨p.1, ρ⟩
  | .panic => .panic

/-! ## `is_address`: `^([^\:\\\?\[\]\/\*]+\!)?(\$?[A-Z]{1,3}\$?[0-9]+)(\:\$?[A-Z]{1,3}\$?[0-9]+)?$`

  The cell pattern contains no `!`, so when the text contains a `!` group 1 must end at the LAST
  one; group 1 may itself contain `!`.  Letters and digits are matched greedily and never have to
  give anything back (what follows cannot start with a letter / digit). -/

def forbidden (c : Char) : Bool :=
  c = ':' || c = '\\' || c = '?' || c = '[' || c = ']' || c = '/' || c = '*'

/-- `\$?[0-9]+` at the start of `s`; the rest -/
def matchRowRest (s : Text) : Option Text :=
  let r := match s with
    | '$' :: r => r
    | _ => s
  if (r.takeWhile isDigit).isEmpty then none else some (r.dropWhile isDigit)

/-- `\$?[A-Z]{1,3}\$?[0-9]+` at the start of `s`; the rest -/
def matchCell (s : Text) : Option Text :=
  match matchColGroup s with
  | some (_, _, rest) => matchRowRest rest
  | none => none

def matchCellRange (s : Text) : Bool :=
  match matchCell s with
  | none => false
  | some [] => true
  | some (c :: r) => c = ':' && matchCell r = some []

def isAddress (s : Text) : Bool :=
  match rsplitBang s with
  | some (pre, suf) => !pre.isEmpty && pre.all (fun c => !forbidden c) && matchCellRange suf
  | none => matchCellRange s

/-! ## `DefinedName::split_str` (after the fix: inside apostrophes every character is literal) -/

structure SplitSt where
  s : Bool := false          -- is_pass_s: inside '…'
  d : Bool := false          -- is_pass_d: inside "…"
  b : Int := 0               -- is_pass_b: parenthesis depth
  cur : Text := []           -- `string`, reversed
  res : List Text := []      -- `result`, reversed
  deriving Repr, DecidableEq

def splitStep (st : SplitSt) (c : Char) : SplitSt :=
  if c = '\'' then { st with s := !st.s, cur := c :: st.cur }
  else if st.s then { st with cur := c :: st.cur }
  else if c = '(' then { st with b := st.b + 1, cur := c :: st.cur }
  else if c = ')' then { st with b := st.b - 1, cur := c :: st.cur }
  else if c = '"' then { st with d := !st.d, cur := if st.b ≠ 0 then c :: st.cur else st.cur }
  else if c = ',' then
    if !st.d && st.b == 0 then { st with cur := [], res := st.cur.reverse :: st.res }
    else { st with cur := c :: st.cur }
  else { st with cur := c :: st.cur }

def splitFinish (st : SplitSt) : List Text :=
  (if st.cur.isEmpty then st.res else st.cur.reverse :: st.res).reverse

def splitStr (v : Text) : List Text := splitFinish (v.foldl splitStep {})

/-! ## `DefinedName` -/

structure DefName where
  areas : List Address := []
  str : Option Text := none
  deriving Repr, DecidableEq

def joinComma : List Text → Text
  | [] => []
  | [a] => a
  | a :: b :: r => a ++ ',' :: joinComma (b :: r)

/-- `DefinedName::get_address` -/
def DefName.text (d : DefName) : Text :=
  match d.str with
  | some t => t
  | none => joinComma (d.areas.map Address.text)

/-- `DefinedName::add_address` for each piece, in order -/
def addAll : List Address → List Text → Res (List Address)
  | acc, [] => .ok acc
  | acc, v :: vs =>
    match Address.parse (undouble v) with
    | .ok a => addAll (acc ++ [a]) vs
    | .panic => .panic

/-- `DefinedName::set_address` -/
def DefName.setAddress (d : DefName) (v : Text) : Res DefName :=
  let l := splitStr v
  if l.all isAddress then
    match addAll d.areas l with
    | .ok as => .ok { d with areas := as }
    | .panic => .panic
  else .ok { areas := [], str := some v }

/-! the code BEFORE fix_5 (kept only for the refutations `C06_defined_name_unfixed_*_fails`) -/

def splitStepOld (st : SplitSt) (c : Char) : SplitSt :=
  if c = '(' then { st with b := st.b + 1, cur := c :: st.cur }
  else if c = ')' then { st with b := st.b - 1, cur := c :: st.cur }
  else if c = '\'' then { st with s := !st.s, cur := c :: st.cur }
  else if c = '"' then { st with d := !st.d, cur := if st.s || st.b ≠ 0 then c :: st.cur else st.cur }
  else if c = ',' then
    if !st.s && !st.d && st.b == 0 then { st with cur := [], res := st.cur.reverse :: st.res }
    else { st with cur := c :: st.cur }
  else { st with cur := c :: st.cur }

def splitStrOld (v : Text) : List Text := splitFinish (v.foldl splitStepOld {})

/-- old `set_address`: every piece on its own — an address is pushed, anything else replaces
    the whole content by that piece -/
def setAddressOldGo : DefName → List Text → Res DefName
  | d, [] => .ok d
  | d, v :: vs =>
    if isAddress v then
      match Address.parse (undouble v) with
      | .ok a => setAddressOldGo { d with areas := d.areas ++ [a] } vs
      | .panic => .panic
    else setAddressOldGo { areas := [], str := some v } vs

def DefName.setAddressOld (d : DefName) (v : Text) : Res DefName := setAddressOldGo d (splitStrOld v)

/-- quick-xml `trim_text(true)`: leading / trailing ` \t\r\n` of a text event are dropped -/
def isXmlBlank (c : Char) : Bool := c = ' ' || c = '\t' || c = '\r' || c = '\n'
def trimXml (s : Text) : Text := ((s.dropWhile isXmlBlank).reverse.dropWhile isXmlBlank).reverse

/-- what `DefinedName::write_to` puts between the tags -/
def dnWrite (d : DefName) : Text := partialEscape d.text

/-- `DefinedName::set_attributes` on the raw character data between the tags (an empty or
    all-blank text produces no text event: the value stays empty) -/
def dnRead (raw : Text) : Res DefName :=
  let t := trimXml raw
  match unescape t with
  | some v => DefName.setAddress {} v
  | none => .panic

/-! ## merged ranges, auto filter -/

def rangeWrite (ρ : Range) : Text := attrWrite ρ.print
def rangeRead (raw : Text) : Res Range := Range.parse (attrRead raw)

/-! ## hyperlinks -/

structure Link where
  coord : Text
  external : Bool            -- `!location`
  target : Text              -- url or location text
  tooltip : Text
  deriving Repr, DecidableEq

/-- one `<hyperlink>` element as written: ref, r:id number, raw location, raw tooltip -/
structure HlElem where
  ref : Text
  rid : Option Nat
  location : Option Text
  tooltip : Option Text
  deriving Repr, DecidableEq

/-- the sheet part's walk: external links get rId k, k+1, … in the order met -/
def sheetWalk : List Link → Nat → List HlElem
  | [], _ => []
  | l :: ls, k =>
    let tip := if l.tooltip.isEmpty then none else some (attrWrite l.tooltip)
    if l.external then ⟨attrWrite l.coord, some k, none, tip⟩ :: sheetWalk ls (k + 1)
    else ⟨attrWrite l.coord, none, some (attrWrite l.target), tip⟩ :: sheetWalk ls k

/-- the relationships part's walk: one `Relationship Id="rIdK" Target=…` per external link -/
def relsWalk : List Link → Nat → List (Nat × Text)
  | [], _ => []
  | l :: ls, k => if l.external then (k, attrWrite l.target) :: relsWalk ls (k + 1) else relsWalk ls k

def lookupRel (k : Nat) : List (Nat × Text) → Option Text
  | [] => none
  | (j, t) :: r => if j = k then some t else lookupRel k r

/-- `get_hyperlink`: `location` first, then `r:id` (which panics when the relationship is missing) -/
def readElem (rels : List (Nat × Text)) (e : HlElem) : Res Link :=
  let tip := match e.tooltip with
    | some t => attrRead t
    | none => []
  match e.rid with
  | some k =>
    match lookupRel k rels with
    | some t => .ok ⟨attrRead e.ref, true, attrRead t, tip⟩
    | none => .panic
  | none =>
    match e.location with
    | some t => .ok ⟨attrRead e.ref, false, attrRead t, tip⟩
    | none => .ok ⟨attrRead e.ref, true, [], tip⟩

def readElems (rels : List (Nat × Text)) : List HlElem → Res (List Link)
  | [] => .ok []
  | e :: es =>
    match readElem rels e, readElems rels es with
    | .ok l, .ok ls => .ok (l :: ls)
    | _, _ => .panic

/-- save + reload of the hyperlinks of a sheet, given in the order of the (one) walk -/
def reloadLinks (ls : List Link) (k0 : Nat) : Res (List Link) :=
  readElems (relsWalk ls k0) (sheetWalk ls k0)

/-- order of `BTreeMap<String, _>` on the coordinate text: code-point lexicographic -/
def textLt : Text → Text → Bool
  | [], [] => false
  | [], _ :: _ => true
  | _ :: _, [] => false
  | a :: as, b :: bs => a.toNat < b.toNat || (a = b && textLt as bs)

def insertLink (x : Link) : List Link → List Link
  | [] => [x]
  | y :: ys => if textLt x.coord y.coord then x :: y :: ys else y :: insertLink x ys

def walkOrder (ls : List Link) : List Link := ls.foldr insertLink []

/-! ## comments -/

structure Cmt where
  cell : Text
  author : Text
  deriving Repr, DecidableEq

/-- `get_author_id`: position of the author in the table -/
def position (a : Text) : List Text → Option Nat
  | [] => none
  | x :: r => if a = x then some 0 else (position a r).map (· + 1)

/-- the events the comments reader sees for the authors table the writer produced
    (an empty text node is not written at all, so an empty author is `<author></author>`) -/
inductive Ev where
  | startAuthor
  | text (raw : Text)
  | endAuthor
  | emptyAuthor
  deriving Repr, DecidableEq

def authorEvents (a : Text) : List Ev :=
  if a.isEmpty then [.startAuthor, .endAuthor] else [.startAuthor, .text (escape a), .endAuthor]

/-- the reader's loop over the authors table; `reset` = the fix (the text is cleared at
    `<author>`); `value` starts as the last text event seen before the table -/
def readAuthorsGo (reset : Bool) : Text → List Text → List Ev → Res (List Text)
  | _, acc, [] => .ok acc
  | v, acc, .startAuthor :: r => readAuthorsGo reset (if reset then [] else v) acc r
  | v, acc, .text raw :: r =>
    match unescape raw with
    | some t => readAuthorsGo reset t acc r
    | none => let _ := v; .panic
  | v, acc, .endAuthor :: r => readAuthorsGo reset v (acc ++ [v]) r
  | v, acc, .emptyAuthor :: r => readAuthorsGo reset v (acc ++ [[]]) r

/-- text after the XML declaration: `write_new_line` -/
def declNewline : Text := ['\r', '\n']

def readAuthors (reset : Bool) (tbl : List Text) : Res (List Text) :=
  readAuthorsGo reset declNewline [] (tbl.flatMap authorEvents)

/-- `<comment ref authorId>` as written: the id is `None → ""` when the author is not in the table -/
def writeCmt (tbl : List Text) (c : Cmt) : Text × Option Nat := (attrWrite c.cell, position c.author tbl)

/-- `Comment::set_attributes`: `authorId.parse::<usize>().unwrap()`, `authors.get(id).unwrap()` -/
def readCmt (authors : List Text) (w : Text × Option Nat) : Res Cmt :=
  match w.2 with
  | none => .panic
  | some i =>
    match authors[i]? with
    | some a => .ok ⟨attrRead w.1, a⟩
    | none => .panic

def readCmts (authors : List Text) : List (Text × Option Nat) → Res (List Cmt)
  | [] => .ok []
  | w :: ws =>
    match readCmt authors w, readCmts authors ws with
    | .ok c, .ok cs => .ok (c :: cs)
    | _, _ => .panic

/-- save + reload of the comments of a sheet; `tbl` is the authors table in whatever order the
    writer's hash set produced -/
def reloadComments (reset : Bool) (tbl : List Text) (cs : List Cmt) : Res (List Cmt) :=
  match readAuthors reset tbl with
  | .ok authors => readCmts authors (cs.map (writeCmt tbl))
  | .panic => .panic

/-! ## sheet list -/

structure SheetEntry where
  name : Text
  state : Text        -- "visible" / "hidden" / "veryHidden"
  deriving Repr, DecidableEq

def sheetWrite (s : SheetEntry) : Text × Text := (attrWrite s.name, attrWrite s.state)
def sheetRead (w : Text × Text) : SheetEntry := ⟨attrRead w.1, attrRead w.2⟩
def sheetListReload (l : List SheetEntry) : List SheetEntry := (l.map sheetWrite).map sheetRead

end Umya.Annot
