import Umya.Model.AnnotNames
/-! helper lemmas for Umya/Thm/C06Names.lean -/
namespace Umya.AnnotNames

theorem indexOf_lt (t : Text) : ∀ (l : List Text) (k : Nat), indexOf t l = some k → k < l.length
  | [], k, h => by simp [indexOf] at h
  | x :: r, k, h => by
    unfold indexOf at h
    split at h
    · injection h with h; subst h; simp
    · cases hr : indexOf t r with
      | none => rw [hr] at h; simp at h
      | some j =>
        rw [hr] at h; simp at h; subst h
        have := indexOf_lt t r j hr
        simp; omega

theorem homes_length (tg : DN → Option Nat) (ds : List DN) : ∀ (ts : List Text) (k : Nat), (homes tg ds k ts).length = ts.length
  | [], _ => rfl
  | _ :: r, k => by simp [homes, homes_length tg ds r (k + 1)]

/-- a name whose destination lies before position k does not show in the homes from k on -/
theorem homes_append_other (tg : DN → Option Nat) (ds : List DN) (d : DN) :
    ∀ (ts : List Text) (k : Nat), (∀ m, tg d = some m → m < k) → homes tg (ds ++ [d]) k ts = homes tg ds k ts
  | [], _, _ => rfl
  | t :: r, k, h => by
    have hk : ¬ tg d = some k := fun e => Nat.lt_irrefl _ (h k e)
    simp only [homes, List.filter_append, List.filter_cons, List.filter_nil, hk, decide_false, Bool.false_eq_true, if_false, List.append_nil]
    rw [homes_append_other tg ds d r (k + 1) (fun m e => Nat.lt_succ_of_lt (h m e))]

theorem addAt_homes (tg : DN → Option Nat) (ds : List DN) (d : DN) :
    ∀ (ts : List Text) (k j : Nat), tg d = some (k + j) → j < ts.length →
      addAt j d (homes tg ds k ts) = homes tg (ds ++ [d]) k ts
  | [], _, _, _, h => by simp at h
  | t :: r, k, 0, e, _ => by
    have e' : tg d = some k := by simpa using e
    simp only [homes, addAt, List.filter_append, List.filter_cons, List.filter_nil, e', decide_true, if_true]
    rw [homes_append_other tg ds d r (k + 1) (fun m em => by rw [e'] at em; injection em with em; omega)]
  | t :: r, k, j + 1, e, h => by
    have hk : ¬ tg d = some k := by rw [e]; intro c; injection c with c; omega
    simp only [homes, addAt, List.filter_append, List.filter_cons, List.filter_nil, hk, decide_false, Bool.false_eq_true, if_false, List.append_nil]
    rw [addAt_homes tg ds d r (k + 1) j (by rw [e]; congr 1; omega) (by simpa using h)]

theorem homes_append_none (tg : DN → Option Nat) (ds : List DN) (d : DN) (h : tg d = none) (ts : List Text) (k : Nat) :
    homes tg (ds ++ [d]) k ts = homes tg ds k ts :=
  homes_append_other tg ds d ts k (fun m e => by rw [h] at e; cases e)

/-- the reader's loop from the re-homed prefix -/
theorem readFrom_rehome (titles : List Text) :
    ∀ (r ds : List DN), (∀ d ∈ r, ∀ k, d.lsid = some k → k < titles.length) →
      readFrom titles (rehome titles ds) r = some (rehome titles (ds ++ r))
  | [], ds, _ => by simp [readFrom]
  | d :: r, ds, h => by
    have hl : (rehome titles ds).sheets.length = titles.length := by simp [rehome, homes_length]
    have step : place titles (rehome titles ds) d = some (rehome titles (ds ++ [d])) := by
      unfold place
      cases hlsid : d.lsid with
      | some k =>
        have hk := h d (List.mem_cons_self) k hlsid
        have tg : target titles d = some (0 + k) := by simp [target, hlsid]
        have tgn : ¬ target titles d = none := by rw [tg]; simp
        simp only [hl, hk, if_true]
        simp only [rehome, List.filter_append, List.filter_cons, List.filter_nil, tgn, decide_false, Bool.false_eq_true, if_false, List.append_nil]
        rw [addAt_homes (target titles) ds d titles 0 k tg hk]
      | none =>
        cases hf : d.first with
        | none =>
          have tg : target titles d = none := by simp [target, hlsid, byName, hf]
          simp only [rehome, List.filter_append, List.filter_cons, List.filter_nil, tg, decide_true, if_true]
          rw [homes_append_none (target titles) ds d tg]
        | some t =>
          cases hi : indexOf t titles with
          | none =>
            have tg : target titles d = none := by simp [target, hlsid, byName, hf, hi]
            simp only [hi, rehome, List.filter_append, List.filter_cons, List.filter_nil, tg, decide_true, if_true]
            rw [homes_append_none (target titles) ds d tg]
          | some k =>
            have hk := indexOf_lt t titles k hi
            have tg : target titles d = some (0 + k) := by simp [target, hlsid, byName, hf, hi]
            have tgn : ¬ target titles d = none := by rw [tg]; simp
            simp only [hi, hl, hk, if_true]
            simp only [rehome, List.filter_append, List.filter_cons, List.filter_nil, tgn, decide_false, Bool.false_eq_true, if_false, List.append_nil]
            rw [addAt_homes (target titles) ds d titles 0 k tg hk]
    simp only [readFrom, step]
    rw [readFrom_rehome titles r (ds ++ [d]) (fun x hx => h x (List.mem_cons_of_mem _ hx))]
    simp

theorem emptyBook_eq (titles : List Text) : emptyBook titles = rehome titles [] := by
  have : ∀ (ts : List Text) (k : Nat), ts.map (fun t => (⟨t, []⟩ : Sheet)) = homes (target titles) [] k ts := by
    intro ts; induction ts with
    | nil => intro k; rfl
    | cons t r ih => intro k; simp [homes, ih (k + 1)]
  simp [emptyBook, rehome, this titles 0]

/-! the written list of a stable book, filtered by destination, is the book -/

theorem flat_target_ge (tg : DN → Option Nat) : ∀ (ss : List Sheet) (k : Nat), StableFrom tg k ss →
    ∀ d ∈ flat ss, ∃ m, tg d = some m ∧ k ≤ m
  | [], _, _, d, hd => by simp [flat] at hd
  | s :: r, k, hs, d, hd => by
    simp only [flat, List.map_cons, List.flatten_cons, List.mem_append] at hd
    rcases hd with hd | hd
    · exact ⟨k, hs.1 d hd, Nat.le_refl _⟩
    · obtain ⟨m, hm, hle⟩ := flat_target_ge tg r (k + 1) hs.2 d hd
      exact ⟨m, hm, by omega⟩

theorem flat_target_lt (tg : DN → Option Nat) : ∀ (ss : List Sheet) (k : Nat), StableFrom tg k ss →
    ∀ d ∈ flat ss, ∃ m, tg d = some m ∧ m < k + ss.length
  | [], _, _, d, hd => by simp [flat] at hd
  | s :: r, k, hs, d, hd => by
    simp only [flat, List.map_cons, List.flatten_cons, List.mem_append] at hd
    rcases hd with hd | hd
    · exact ⟨k, hs.1 d hd, by simp⟩
    · obtain ⟨m, hm, hle⟩ := flat_target_lt tg r (k + 1) hs.2 d hd
      exact ⟨m, hm, by simp; omega⟩

theorem filter_all_false {α} (p : α → Bool) (l : List α) (h : ∀ x ∈ l, p x = false) : l.filter p = [] := by
  simpa [List.filter_eq_nil_iff] using h

theorem filter_all_true {α} (p : α → Bool) (l : List α) (h : ∀ x ∈ l, p x = true) : l.filter p = l := by
  simpa [List.filter_eq_self] using h

theorem homes_flat (tg : DN → Option Nat) : ∀ (ss : List Sheet) (k : Nat) (pre : List DN),
    (∀ d ∈ pre, ∀ m, tg d = some m → m < k) → StableFrom tg k ss →
    homes tg (pre ++ flat ss) k (ss.map (·.title)) = ss
  | [], _, _, _, _ => rfl
  | s :: r, k, pre, hpre, hs => by
    have h1 : pre.filter (fun d => decide (tg d = some k)) = [] :=
      filter_all_false _ _ (fun d hd => by
        simp only [decide_eq_false_iff_not]; intro e; exact Nat.lt_irrefl _ (hpre d hd k e))
    have h2 : s.names.filter (fun d => decide (tg d = some k)) = s.names :=
      filter_all_true _ _ (fun d hd => by simp [hs.1 d hd])
    have h3 : (flat r).filter (fun d => decide (tg d = some k)) = [] :=
      filter_all_false _ _ (fun d hd => by
        obtain ⟨m, hm, hle⟩ := flat_target_ge tg r (k + 1) hs.2 d hd
        simp only [decide_eq_false_iff_not]; rw [hm]; intro e; injection e with e; omega)
    have ih := homes_flat tg r (k + 1) (pre ++ s.names) (by
      intro d hd m hm
      rcases List.mem_append.mp hd with hd | hd
      · exact Nat.lt_succ_of_lt (hpre d hd m hm)
      · rw [hs.1 d hd] at hm; injection hm with hm; omega) hs.2
    have hf : flat (s :: r) = s.names ++ flat r := by simp [flat]
    simp only [List.map_cons, homes, hf, List.filter_append, h1, h2, h3, List.nil_append, List.append_nil]
    rw [← List.append_assoc, ih]

/-! removing a sheet -/
theorem indexOf_eraseIdx_none (t : Text) : ∀ (l : List Text) (i : Nat), indexOf t l = none → indexOf t (l.eraseIdx i) = none
  | [], _, _ => by simp [indexOf]
  | x :: r, 0, h => by
    unfold indexOf at h; split at h
    · cases h
    · simp only [List.eraseIdx_cons_zero]
      cases hr : indexOf t r with
      | none => rfl
      | some j => rw [hr] at h; simp at h
  | x :: r, i + 1, h => by
    unfold indexOf at h; split at h
    · cases h
    · rename_i hx
      have hr : indexOf t r = none := by
        cases hr : indexOf t r with
        | none => rfl
        | some j => rw [hr] at h; simp at h
      simp [List.eraseIdx_cons_succ, indexOf, hx, indexOf_eraseIdx_none t r i hr]

theorem indexOf_eraseIdx_lt (t : Text) : ∀ (l : List Text) (i k : Nat), indexOf t l = some k → k < i →
    indexOf t (l.eraseIdx i) = some k
  | [], _, _, h, _ => by simp [indexOf] at h
  | x :: r, 0, k, _, hk => by omega
  | x :: r, i + 1, k, h, hk => by
    unfold indexOf at h; split at h
    · rename_i hx; injection h with h; subst h; simp [List.eraseIdx_cons_succ, indexOf, hx]
    · rename_i hx
      cases hr : indexOf t r with
      | none => rw [hr] at h; simp at h
      | some j =>
        rw [hr] at h; simp at h; subst h
        simp [List.eraseIdx_cons_succ, indexOf, hx, indexOf_eraseIdx_lt t r i j hr (by omega)]

theorem indexOf_eraseIdx_gt (t : Text) : ∀ (l : List Text) (i k : Nat), indexOf t l = some k → i < k →
    indexOf t (l.eraseIdx i) = some (k - 1)
  | [], _, _, h, _ => by simp [indexOf] at h
  | x :: r, 0, k, h, hk => by
    unfold indexOf at h; split at h
    · injection h with h; omega
    · cases hr : indexOf t r with
      | none => rw [hr] at h; simp at h
      | some j => rw [hr] at h; simp at h; subst h; simp [hr]
  | x :: r, i + 1, k, h, hk => by
    unfold indexOf at h; split at h
    · injection h with h; omega
    · rename_i hx
      cases hr : indexOf t r with
      | none => rw [hr] at h; simp at h
      | some j =>
        rw [hr] at h; simp at h; subst h
        have := indexOf_eraseIdx_gt t r i j hr (by omega)
        simp only [List.eraseIdx_cons_succ, indexOf, hx, if_false, this, Option.map_some]
        congr 1; omega

theorem map_title_eraseIdx : ∀ (l : List Sheet) (i : Nat), (l.eraseIdx i).map (·.title) = (l.map (·.title)).eraseIdx i
  | [], _ => rfl
  | _ :: _, 0 => rfl
  | s :: r, i + 1 => by simp [List.eraseIdx_cons_succ, map_title_eraseIdx r i]

/-- a name whose destination is position k ≠ i: after the removal of sheet i (ids shifted, titles
    erased) its destination is the new position of that sheet -/
theorem target_fixOne (titles : List Text) (i k : Nat) (d : DN) (h : target titles d = some k) (hk : k ≠ i) :
    target (titles.eraseIdx i) (fixOne i d) = some (if k < i then k else k - 1) := by
  unfold target at h
  cases hl : d.lsid with
  | some j =>
    rw [hl] at h; injection h with h; subst h
    by_cases hij : i < j
    · simp [fixOne, hl, hij, target]; omega
    · have : j < i := by omega
      simp [fixOne, hl, hij, target, this]
  | none =>
    rw [hl] at h
    have hfx : fixOne i d = d := by simp [fixOne, hl]
    rw [hfx]; unfold target; rw [hl]
    unfold byName at h ⊢
    cases hf : d.first with
    | none => rw [hf] at h; cases h
    | some t =>
      rw [hf] at h
      by_cases hki : k < i
      · simp [hki, indexOf_eraseIdx_lt t titles i k h hki]
      · simp [hki, indexOf_eraseIdx_gt t titles i k h (by omega)]

theorem keep_of_target (titles : List Text) (i k : Nat) (d : DN) (h : target titles d = some k) (hk : k ≠ i) :
    d.lsid ≠ some i := by
  intro e; simp [target, e] at h; omega

theorem mem_fixIds (i : Nat) (l : List DN) (x : DN) (h : x ∈ fixIds i l) : ∃ d ∈ l, d.lsid ≠ some i ∧ x = fixOne i d := by
  simp only [fixIds, List.mem_map, List.mem_filter, decide_eq_true_eq] at h
  obtain ⟨d, ⟨hd, hne⟩, rfl⟩ := h
  exact ⟨d, hd, hne, rfl⟩

theorem stableFrom_shift (T : List Text) (i : Nat) :
    ∀ (ss : List Sheet) (k : Nat), i ≤ k → StableFrom (target T) (k + 1) ss →
      StableFrom (target (T.eraseIdx i)) k (ss.map (fixSheet i))
  | [], _, _, _ => trivial
  | s :: r, k, hk, hs =>
    ⟨fun x hx => by
       obtain ⟨d, hd, _, rfl⟩ := mem_fixIds i s.names x hx
       have := target_fixOne T i (k + 1) d (hs.1 d hd) (by omega)
       rw [this]; have : ¬ k + 1 < i := by omega
       simp [this],
     stableFrom_shift T i r (k + 1) (by omega) hs.2⟩

theorem stableFrom_erase (T : List Text) (i : Nat) :
    ∀ (ss : List Sheet) (k j : Nat), i = k + j → StableFrom (target T) k ss →
      StableFrom (target (T.eraseIdx i)) k ((ss.eraseIdx j).map (fixSheet i))
  | [], _, _, _, _ => by simp [StableFrom]
  | s :: r, k, 0, e, hs => by
    simp only [List.eraseIdx_cons_zero]
    exact stableFrom_shift T i r k (by omega) hs.2
  | s :: r, k, j + 1, e, hs => by
    simp only [List.eraseIdx_cons_succ, List.map_cons]
    exact ⟨fun x hx => by
             obtain ⟨d, hd, _, rfl⟩ := mem_fixIds i s.names x hx
             have := target_fixOne T i k d (hs.1 d hd) (by omega)
             rw [this]; have : k < i := by omega
             simp [this],
           stableFrom_erase T i r (k + 1) j (by omega) hs.2⟩

end Umya.AnnotNames
