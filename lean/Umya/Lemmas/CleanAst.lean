/-
  Printed ASTs are accepted by the independent scanner `Spec.Clean`.
-/
import Umya.Spec.Refs
import Umya.Lemmas.Coord
namespace Umya.Spec
open Umya.Coord Umya.Dec

theorem scanFrom_append (a b : List Char) (sc : Scan) :
    scanFrom sc (a ++ b) = match scanFrom sc a with | some s => scanFrom s b | none => none := by
  induction a generalizing sc with
  | nil => rfl
  | cons c r ih =>
    simp only [List.cons_append, scanFrom]
    cases scanStep sc c with
    | none => rfl
    | some s' => exact ih s'

theorem plain_normal (d : List Br) (c : Char) (h : isPlainChar c = true) :
    scanNormal d c = some ⟨.normal, d⟩ := by
  simp only [isPlainChar, Bool.not_eq_true', Bool.or_eq_false_iff, decide_eq_false_iff_not] at h
  obtain ⟨⟨⟨⟨⟨⟨⟨⟨⟨h1, h2⟩, h3⟩, h4⟩, h5⟩, h6⟩, h7⟩, h8⟩, h9⟩, h10⟩ := h
  simp [scanNormal, h1, h2, h3, h4, h5, h6, h7, h8, h9, h10]

theorem plain_step (m : SMode) (d : List Br) (c : Char) (hm : closedMode m = true) (h : isPlainChar c = true) :
    scanStep ⟨m, d⟩ c = some ⟨.normal, d⟩ := by
  have hq : c ≠ '"' ∧ c ≠ '\'' := by
    simp only [isPlainChar, Bool.not_eq_true', Bool.or_eq_false_iff, decide_eq_false_iff_not] at h
    exact ⟨h.1.1.1.1.1.1.1.1.1, h.1.1.1.1.1.1.1.1.2⟩
  cases m <;> simp [closedMode] at hm <;> simp [scanStep, hq.1, hq.2, plain_normal d c h]

/-- plain text keeps the scanner outside literals, at the same depth -/
theorem plain_text (t : List Char) (m : SMode) (d : List Br) (hm : closedMode m = true)
    (h : plainText t = true) : ∃ m', scanFrom ⟨m, d⟩ t = some ⟨m', d⟩ ∧ closedMode m' = true := by
  induction t generalizing m with
  | nil => exact ⟨m, rfl, hm⟩
  | cons c r ih =>
    simp only [plainText, List.all_cons, Bool.and_eq_true] at h
    simp only [scanFrom, plain_step m d c hm h.1]
    exact ih .normal rfl h.2

/-! ### string literals and quoted names -/

theorem scan_dbl (s : List Char) (d : List Br) : scanFrom ⟨.str, d⟩ (dbl s) = some ⟨.str, d⟩ := by
  induction s with
  | nil => rfl
  | cons c r ih =>
    by_cases hc : c = '"'
    · subst hc
      have : dbl ('"' :: r) = '"' :: '"' :: dbl r := by simp [dbl]
      rw [this]
      simp only [scanFrom, scanStep, if_true]
      exact ih
    · have : dbl (c :: r) = c :: dbl r := by simp [dbl, hc]
      rw [this]
      simp only [scanFrom, scanStep, hc, if_false]
      exact ih

theorem scan_str (s : List Char) (d : List Br) :
    scanFrom ⟨.normal, d⟩ ('"' :: (dbl s ++ ['"'])) = some ⟨.strQ, d⟩ := by
  have h1 : scanStep ⟨.normal, d⟩ '"' = some ⟨.str, d⟩ := by simp [scanStep, scanNormal]
  simp only [scanFrom, h1]
  rw [scanFrom_append, scan_dbl]
  simp [scanFrom, scanStep]

theorem scan_apos (s : List Char) (d : List Br) : scanFrom ⟨.path, d⟩ (replaceApos s) = some ⟨.path, d⟩ := by
  induction s with
  | nil => rfl
  | cons c r ih =>
    by_cases hc : c = '\''
    · subst hc
      have : replaceApos ('\'' :: r) = '\'' :: '\'' :: replaceApos r := by simp [replaceApos]
      rw [this]
      simp only [scanFrom, scanStep, if_true]
      exact ih
    · have : replaceApos (c :: r) = c :: replaceApos r := by simp [replaceApos, hc]
      rw [this]
      simp only [scanFrom, scanStep, hc, if_false]
      exact ih

theorem scan_quoted_qual (name : List Char) (d : List Br) :
    scanFrom ⟨.normal, d⟩ ('\'' :: (replaceApos name ++ ['\'', '!'])) = some ⟨.normal, d⟩ := by
  have h1 : scanStep ⟨.normal, d⟩ '\'' = some ⟨.path, d⟩ := by simp [scanStep, scanNormal]
  simp only [scanFrom, h1]
  rw [scanFrom_append, scan_apos]
  simp [scanFrom, scanStep, scanNormal]

theorem scan_err (e : ErrLit) (d : List Br) : scanFrom ⟨.normal, d⟩ e.text = some ⟨.normal, d⟩ := by
  cases e <;> rfl

/-! ### references -/

theorem plain_of_upper (c : Char) (h : isUpperAZ c = true) : isPlainChar c = true := by
  have := (isUpperAZ_iff c).1 h
  simp only [isPlainChar, Bool.not_eq_true', Bool.or_eq_false_iff, decide_eq_false_iff_not]
  refine ⟨⟨⟨⟨⟨⟨⟨⟨⟨?_, ?_⟩, ?_⟩, ?_⟩, ?_⟩, ?_⟩, ?_⟩, ?_⟩, ?_⟩, ?_⟩ <;> (intro e; subst e; simp at this)

theorem plain_of_digit (c : Char) (h : isDigit c = true) : isPlainChar c = true := by
  simp only [isDigit, Bool.and_eq_true, decide_eq_true_eq] at h
  simp only [isPlainChar, Bool.not_eq_true', Bool.or_eq_false_iff, decide_eq_false_iff_not]
  refine ⟨⟨⟨⟨⟨⟨⟨⟨⟨?_, ?_⟩, ?_⟩, ?_⟩, ?_⟩, ?_⟩, ?_⟩, ?_⟩, ?_⟩, ?_⟩ <;> (intro e; subst e; simp at h)

theorem plain_col (x : Ref) : plainText (colRefText x) = true := by
  simp only [plainText, colRefText, List.all_append, Bool.and_eq_true]
  constructor
  · split <;> simp [isPlainChar]
  · rw [List.all_eq_true]; intro c hc
    exact plain_of_upper c (List.all_eq_true.1 (indexToAlpha_upper x.num) c hc)

theorem plain_row (x : Ref) : plainText (rowRefText x) = true := by
  simp only [plainText, rowRefText, List.all_append, Bool.and_eq_true]
  constructor
  · split <;> simp [isPlainChar]
  · rw [List.all_eq_true]; intro c hc
    exact plain_of_digit c (List.all_eq_true.1 (decDigits_all_digit x.num) c hc)

theorem plain_append (a b : List Char) (ha : plainText a = true) (hb : plainText b = true) :
    plainText (a ++ b) = true := by
  simp only [plainText, List.all_append, Bool.and_eq_true] at *
  exact ⟨ha, hb⟩

theorem plain_corner (k : Corner) : plainText k.text = true := by
  obtain ⟨c, r⟩ := k
  apply plain_append
  · cases c with
    | none => rfl
    | some x => exact plain_col x
  · cases r with
    | none => rfl
    | some x => exact plain_row x

theorem plain_area (a : Area) : plainText a.text = true := by
  cases a with
  | one k => exact plain_corner k
  | two a b =>
    apply plain_append _ _ (plain_corner a)
    have : (':' :: b.text) = [':'] ++ b.text := rfl
    rw [this]
    exact plain_append _ _ (by decide) (plain_corner b)

theorem scan_ref (r : CRef) (d : List Br)
    (hq : ∀ q, r.sheet = some q → q.quoted = false → plainText q.name = true) :
    ∃ m', scanFrom ⟨.normal, d⟩ r.text = some ⟨m', d⟩ ∧ closedMode m' = true := by
  obtain ⟨sheet, area⟩ := r
  cases sheet with
  | none => exact plain_text _ .normal d rfl (plain_area area)
  | some q =>
    obtain ⟨name, quoted⟩ := q
    cases quoted with
    | false =>
      have hn := hq ⟨name, false⟩ rfl rfl
      have : (CRef.text ⟨some ⟨name, false⟩, area⟩) = (name ++ ['!']) ++ area.text := by
        simp [CRef.text, Qual.text]
      rw [this]
      exact plain_text _ .normal d rfl (plain_append _ _ (plain_append _ _ hn (by decide)) (plain_area area))
    | true =>
      have : (CRef.text ⟨some ⟨name, true⟩, area⟩) = ('\'' :: (replaceApos name ++ ['\'', '!'])) ++ area.text := by
        simp [CRef.text, Qual.text]
      rw [this, scanFrom_append, scan_quoted_qual]
      exact plain_text _ .normal d rfl (plain_area area)

/-! ### composite expressions -/

def Good (d : List Br) (t : List Char) : Prop :=
  ∃ m, scanFrom ⟨.normal, d⟩ t = some ⟨m, d⟩ ∧ closedMode m = true

theorem open_step (m : SMode) (d : List Br) (hm : closedMode m = true) :
    scanStep ⟨m, d⟩ '(' = some ⟨.normal, .paren :: d⟩ := by
  cases m <;> simp [closedMode] at hm <;> simp [scanStep, scanNormal]

theorem close_step (m : SMode) (d : List Br) (hm : closedMode m = true) :
    scanStep ⟨m, .paren :: d⟩ ')' = some ⟨.normal, d⟩ := by
  cases m <;> simp [closedMode] at hm <;> simp [scanStep, scanNormal]

theorem comma_step (m : SMode) (d : List Br) (hm : closedMode m = true) :
    scanStep ⟨m, .paren :: d⟩ ',' = some ⟨.normal, .paren :: d⟩ := by
  cases m <;> simp [closedMode] at hm <;> simp [scanStep, scanNormal]

/-- `a`, a plain separator character, `b` -/
theorem good_sep (d : List Br) (a b : List Char) (c : Char) (hc : isPlainChar c = true)
    (ha : Good d a) (hb : Good d b) : Good d (a ++ c :: b) := by
  obtain ⟨m, h1, h2⟩ := ha
  unfold Good
  rw [scanFrom_append, h1]
  simp only [scanFrom, plain_step m d c h2 hc]
  exact hb

theorem good_prefix (d : List Br) (b : List Char) (c : Char) (hc : isPlainChar c = true) (hb : Good d b) :
    Good d (c :: b) := by
  have := good_sep d [] b c hc ⟨.normal, rfl, rfl⟩ hb
  simpa using this

theorem good_suffix (d : List Br) (a : List Char) (c : Char) (hc : isPlainChar c = true) (ha : Good d a) :
    Good d (a ++ [c]) :=
  good_sep d a [] c hc ha ⟨.normal, rfl, rfl⟩

theorem good_plain_prefix (d : List Br) (t b : List Char) (ht : plainText t = true) (hb : Good d b) :
    Good d (t ++ b) := by
  induction t with
  | nil => exact hb
  | cons c r ih =>
    simp only [plainText, List.all_cons, Bool.and_eq_true] at ht
    exact good_prefix d _ c ht.1 (ih ht.2)

/-- `( inner )` where `inner` is good one level deeper -/
theorem good_parens (d : List Br) (inner : List Char) (hi : Good (.paren :: d) inner) :
    ∀ m, closedMode m = true →
      ∃ m', scanFrom ⟨m, d⟩ ('(' :: (inner ++ [')'])) = some ⟨m', d⟩ ∧ closedMode m' = true := by
  intro m hm
  obtain ⟨mi, h1, h2⟩ := hi
  simp only [scanFrom, open_step m d hm]
  rw [scanFrom_append, h1]
  simp only [scanFrom, close_step mi d h2]
  exact ⟨.normal, rfl, rfl⟩

theorem binop_text (op : BinOp) : ∃ c rest, op.text = c :: rest ∧ isPlainChar c = true ∧ plainText rest = true := by
  cases op <;> exact ⟨_, _, rfl, by decide, by decide⟩

/-! ### array constants -/

theorem lbrace_step (m : SMode) (d : List Br) (hm : closedMode m = true) :
    scanStep ⟨m, d⟩ '{' = some ⟨.normal, .brace :: d⟩ := by
  cases m <;> simp [closedMode] at hm <;> simp [scanStep, scanNormal]

theorem rbrace_step (m : SMode) (d : List Br) (hm : closedMode m = true) :
    scanStep ⟨m, .brace :: d⟩ '}' = some ⟨.normal, d⟩ := by
  cases m <;> simp [closedMode] at hm <;> simp [scanStep, scanNormal]

theorem semi_step (m : SMode) (d : List Br) (hm : closedMode m = true) :
    scanStep ⟨m, .brace :: d⟩ ';' = some ⟨.normal, .brace :: d⟩ := by
  cases m <;> simp [closedMode] at hm <;> simp [scanStep, scanNormal]

theorem comma_step' (m : SMode) (b : Br) (d : List Br) (hm : closedMode m = true) :
    scanStep ⟨m, b :: d⟩ ',' = some ⟨.normal, b :: d⟩ := by
  cases m <;> simp [closedMode] at hm <;> simp [scanStep, scanNormal]

theorem scan_const (c : Const) (h : c.Lexical) (d : List Br) : Good d c.print := by
  cases c with
  | num neg t =>
    cases neg with
    | false =>
      have : Good d t := plain_text t .normal d rfl h
      simpa [Const.print] using this
    | true =>
      have := good_prefix d t '-' (by decide) (plain_text t .normal d rfl h)
      simpa [Const.print] using this
  | str s => exact ⟨.strQ, scan_str s d, rfl⟩
  | bool b => cases b <;> exact ⟨.normal, rfl, rfl⟩
  | err e => exact ⟨.normal, scan_err e d, rfl⟩

theorem scan_row (r : List Const) (h : ∀ c ∈ r, c.Lexical) (d : List Br) : Good (.brace :: d) (printRow r) := by
  induction r with
  | nil => exact ⟨.normal, rfl, rfl⟩
  | cons c rest ih =>
    have hc := scan_const c (h c (List.mem_cons_self ..)) (.brace :: d)
    cases rest with
    | nil => simpa [printRow] using hc
    | cons c2 rest2 =>
      have hr := ih (fun x hx => h x (List.mem_cons_of_mem _ hx))
      obtain ⟨m, hm1, hm2⟩ := hc
      unfold Good
      simp only [printRow]
      rw [scanFrom_append, hm1]
      simp only [scanFrom, comma_step' m .brace d hm2]
      exact hr

theorem scan_rows (rows : List (List Const)) (h : ∀ r ∈ rows, ∀ c ∈ r, c.Lexical) (d : List Br) :
    Good (.brace :: d) (printRows rows) := by
  induction rows with
  | nil => exact ⟨.normal, rfl, rfl⟩
  | cons r rest ih =>
    have hr := scan_row r (h r (List.mem_cons_self ..)) d
    cases rest with
    | nil => simpa [printRows] using hr
    | cons r2 rest2 =>
      have hrest := ih (fun x hx => h x (List.mem_cons_of_mem _ hx))
      obtain ⟨m, hm1, hm2⟩ := hr
      unfold Good
      simp only [printRows]
      rw [scanFrom_append, hm1]
      simp only [scanFrom, semi_step m d hm2]
      exact hrest

/-- `{ rows }` -/
theorem scan_array (rows : List (List Const)) (h : ∀ r ∈ rows, ∀ c ∈ r, c.Lexical) (d : List Br) :
    Good d ('{' :: (printRows rows ++ ['}'])) := by
  obtain ⟨mi, h1, h2⟩ := scan_rows rows h d
  unfold Good
  simp only [scanFrom, lbrace_step .normal d rfl]
  rw [scanFrom_append, h1]
  simp only [scanFrom, rbrace_step mi d h2]
  exact ⟨.normal, rfl, rfl⟩

mutual
  theorem scan_expr (e : Expr) (h : e.Lexical) (d : List Br) : Good d e.print := by
    match e, h with
    | .num t, h => exact plain_text t .normal d rfl h
    | .str s, _ => exact ⟨.strQ, scan_str s d, rfl⟩
    | .bool b, _ => cases b <;> exact ⟨.normal, rfl, rfl⟩
    | .err e, _ => exact ⟨.normal, scan_err e d, rfl⟩
    | .name n, h => exact plain_text n .normal d rfl h
    | .ref r, h => exact scan_ref r d h.2
    | .opaque _, h => exact absurd h (by simp [Expr.Lexical])
    | .array rows, h => exact scan_array rows h d
    | .neg e, h => exact good_prefix d _ '-' (by decide) (scan_expr e h d)
    | .pos e, h => exact good_prefix d _ '+' (by decide) (scan_expr e h d)
    | .pct e, h => exact good_suffix d _ '%' (by decide) (scan_expr e h d)
    | .bin op a b, h =>
      obtain ⟨c, rest, hop, hc, hrest⟩ := binop_text op
      have hb := scan_expr b h.2 d
      have ha := scan_expr a h.1 d
      have := good_sep d a.print (rest ++ b.print) c hc ha (good_plain_prefix d rest b.print hrest hb)
      simpa [Expr.print, hop] using this
    | .isect a b, h => exact good_sep d _ _ ' ' (by decide) (scan_expr a h.1 d) (scan_expr b h.2 d)
    | .union es, h => exact good_parens d _ (scan_args es h d) .normal rfl
    | .paren e, h => exact good_parens d _ (scan_expr e h (.paren :: d)) .normal rfl
    | .call f as, h =>
      obtain ⟨m, h1, h2⟩ := plain_text f .normal d rfl h.1
      have := good_parens d _ (scan_args as h.2 d) m h2
      unfold Good
      simp only [Expr.print]
      rw [scanFrom_append, h1]
      exact this
  theorem scan_args (as : Args) (h : as.Lexical) (d : List Br) : Good (.paren :: d) as.print := by
    match as, h with
    | .nil, _ => exact ⟨.normal, rfl, rfl⟩
    | .cons e .nil, h => simpa [Args.print] using scan_expr e h.1 (.paren :: d)
    | .cons e (.cons e2 r), h =>
      have h1 := scan_expr e h.1 (.paren :: d)
      have h2 := scan_args (.cons e2 r) h.2 d
      obtain ⟨m, hm1, hm2⟩ := h1
      unfold Good
      simp only [Args.print]
      rw [scanFrom_append, hm1]
      simp only [scanFrom, comma_step m d hm2]
      exact h2
    | .cons e (.skip r), h =>
      have h1 := scan_expr e h.1 (.paren :: d)
      have h2 := scan_args (.skip r) h.2 d
      obtain ⟨m, hm1, hm2⟩ := h1
      unfold Good
      simp only [Args.print]
      rw [scanFrom_append, hm1]
      simp only [scanFrom, comma_step m d hm2]
      exact h2
    | .skip .nil, _ => exact ⟨.normal, rfl, rfl⟩
    | .skip (.cons e2 r), h =>
      have h2 := scan_args (.cons e2 r) h d
      unfold Good
      simp only [Args.print, scanFrom, comma_step .normal d rfl]
      exact h2
    | .skip (.skip r), h =>
      have h2 := scan_args (.skip r) h d
      unfold Good
      simp only [Args.print, scanFrom, comma_step .normal d rfl]
      exact h2
end

end Umya.Spec
