/-
  The reader's normal form (`Umya.XmlWrite.normNode`) is the identity on trees without empty or adjacent
  text nodes (`isNF`), and the default writer-call tree of an element tree (`ofNode`) erases to that tree.
-/
import Umya.Lemmas.XmlWriteParse
namespace Umya.XmlWrite
open Umya.Spec.Xml

theorem pushText_fresh (acc : List Node) (s : List Char) (h : startsText acc = false) : pushText acc s = .text s :: acc := by
  cases acc with
  | nil => rfl
  | cons x xs => cases x <;> simp_all [pushText, startsText]

theorem normKidsAcc_nf : ∀ (ks acc : List Node), isNFKids ks = true → (startsText ks = true → startsText acc = false) →
    normKidsAcc acc ks = ks.reverse ++ acc
  | [], acc, _, _ => by simp [normKidsAcc]
  | .text s :: r, acc, h, ha => by
    simp only [isNFKids, Bool.and_eq_true, Bool.not_eq_true', List.isEmpty_eq_false_iff] at h
    obtain ⟨⟨h1, h2⟩, h3⟩ := h
    have hacc := ha (by simp [startsText])
    have hr : startsText r = false := h2
    simp only [normKidsAcc, pushP, h1, if_false]
    rw [pushText_fresh acc s hacc, normKidsAcc_nf r _ h3 (by simp [hr])]
    simp
  | .elem n as ks :: r, acc, h, _ => by
    simp only [isNFKids, Bool.and_eq_true] at h
    simp only [normKidsAcc]
    rw [normKidsAcc_nf ks [] h.1 (by simp [startsText]), normKidsAcc_nf r _ h.2 (by simp [startsText])]
    simp

theorem normKids_nf (ks : List Node) (h : isNFKids ks = true) : normKids ks = ks := by
  simp [normKids, normKidsAcc_nf ks [] h (by simp [startsText])]

theorem normNode_nf (t : Node) (h : isNF t = true) : normNode t = t := by
  cases t with
  | elem n as ks => simp only [isNF] at h; simp [normNode, normKids_nf ks h]
  | text s => rfl

/-! ## default writer calls for an element tree -/

theorem eraseKids_mkElem (sc : Bool) (n : List Char) (as : List Attr) (ws rest : List WNode) :
    eraseKids (mkElem sc n as ws :: rest) = .elem n as (eraseKids ws) :: eraseKids rest := by
  cases ws <;> cases sc <;> simp [mkElem, eraseKids]

theorem wfKids_mkElem (sc : Bool) (n : List Char) (as : List Attr) (ws rest : List WNode) :
    wfKids (mkElem sc n as ws :: rest) = (wfName n && wfAttrs as && wfKids ws && wfKids rest) := by
  cases ws <;> cases sc <;> simp [mkElem, wfKids]

theorem erase_mkElem (sc : Bool) (n : List Char) (as : List Attr) (ws : List WNode) :
    erase (mkElem sc n as ws) = .elem n as (eraseKids ws) := by
  cases ws <;> cases sc <;> simp [mkElem, erase, eraseKids]

theorem isElemW_mkElem (sc : Bool) (n : List Char) (as : List Attr) (ws : List WNode) : isElemW (mkElem sc n as ws) = true := by
  cases ws <;> cases sc <;> simp [mkElem, isElemW]

theorem eraseKids_ofKids (sc : Bool) : ∀ ks : List Node, eraseKids (ofKids sc ks) = ks
  | [] => by simp [ofKids, eraseKids]
  | .text s :: r => by simp [ofKids, eraseKids, eraseKids_ofKids sc r]
  | .elem n as ks :: r => by
    simp only [ofKids]
    rw [eraseKids_mkElem, eraseKids_ofKids sc ks, eraseKids_ofKids sc r]

theorem wfKids_ofKids (sc : Bool) : ∀ ks : List Node, wfNodes ks = true → wfKids (ofKids sc ks) = true
  | [], _ => by simp [ofKids, wfKids]
  | .text s :: r, h => by
    simp only [wfNodes, Bool.and_eq_true] at h
    simp [ofKids, wfKids, h.1, wfKids_ofKids sc r h.2]
  | .elem n as ks :: r, h => by
    simp only [wfNodes, Bool.and_eq_true] at h
    simp only [ofKids]
    rw [wfKids_mkElem]
    simp [h.1.1.1, h.1.1.2, wfKids_ofKids sc ks h.1.2, wfKids_ofKids sc r h.2]

theorem parse_render_tree (sc : Bool) (n : List Char) (as : List Attr) (ks : List Node)
    (h : wfNodes [.elem n as ks] = true) :
    parse (renderDoc (ofNode sc (.elem n as ks))) = some (normNode (.elem n as ks)) := by
  have hwf : WF (ofNode sc (.elem n as ks)) = true := by
    have := wfKids_ofKids sc [.elem n as ks] h
    simpa [ofKids, WF, ofNode] using this
  rw [parse_renderDoc _ (by simp [ofNode, isElemW_mkElem]) hwf]
  simp [ofNode, erase_mkElem, eraseKids_ofKids]

end Umya.XmlWrite
