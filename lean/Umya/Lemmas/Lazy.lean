/-
  Lemmas for C11 (Model/Lazy.lean): materialisation commutes with every operation; the tables only
  grow; the writer manager only ever appends (first writer wins), so names stay unique, parts that are
  there stay there with their content, and relationship parts stay resolved.
-/
import Umya.Model.Lazy
namespace Umya.Lazy

/-! ## materialisation -/

section view
variable {C E : Type} (cd : Codec C E)

theorem materialise_name (T : Tables) (s : Sheet C) : (materialise cd T s).name = s.name := by
  unfold materialise; cases s.body <;> rfl

theorem materialise_notRaw (T : Tables) (s : Sheet C) : (materialise cd T s).isRaw = false := by
  unfold materialise Sheet.isRaw
  cases h : s.body <;> simp [h]

theorem materialise_of_notRaw (T : Tables) (s : Sheet C) (h : s.isRaw = false) : materialise cd T s = s := by
  unfold materialise
  unfold Sheet.isRaw at h
  cases hb : s.body <;> simp [hb] at h ⊢

theorem materialise_idem (T : Tables) (s : Sheet C) :
    materialise cd T (materialise cd T s) = materialise cd T s :=
  materialise_of_notRaw cd T _ (materialise_notRaw cd T s)

theorem editSheet_name (T : Tables) (e : E) (s : Sheet C) : (editSheet cd T e s).name = s.name := by
  unfold editSheet; split <;> rfl

theorem editSheet_notRaw (T : Tables) (e : E) (s : Sheet C) : (editSheet cd T e s).isRaw = false := by
  have h := materialise_notRaw cd T s
  unfold editSheet
  cases hb : (materialise cd T s).body with
  | loaded l => simp [Sheet.isRaw]
  | raw r => simp [Sheet.isRaw, hb] at h

theorem editSheet_materialise (T : Tables) (e : E) (s : Sheet C) :
    editSheet cd T e (materialise cd T s) = editSheet cd T e s := by
  unfold editSheet
  rw [materialise_idem]
  unfold materialise
  cases hb : s.body <;> simp

theorem materialise_editSheet (T : Tables) (e : E) (s : Sheet C) :
    materialise cd T (editSheet cd T e s) = editSheet cd T e s :=
  materialise_of_notRaw cd T _ (editSheet_notRaw cd T e s)

theorem map_modifyAt {α β} (f : α → β) (g : α → α) (g' : β → β) (h : ∀ x, f (g x) = g' (f x)) :
    ∀ (l : List α) (i : Nat), (modifyAt g l i).map f = modifyAt g' (l.map f) i
  | [], _ => rfl
  | x :: xs, 0 => by simp [modifyAt, h]
  | x :: xs, i + 1 => by simp [modifyAt, map_modifyAt f g g' h xs i]

theorem modifyAt_length {α} (f : α → α) : ∀ (l : List α) (i : Nat), (modifyAt f l i).length = l.length
  | [], _ => rfl
  | _ :: _, 0 => rfl
  | _ :: xs, i + 1 => by simp [modifyAt, modifyAt_length f xs i]

theorem modifyAt_getElem? {α} (f : α → α) : ∀ (l : List α) (i j : Nat),
    (modifyAt f l i)[j]? = if i = j then (l[j]?).map f else l[j]?
  | [], _, _ => by simp [modifyAt]
  | x :: xs, 0, 0 => by simp [modifyAt]
  | x :: xs, 0, j + 1 => by simp [modifyAt]
  | x :: xs, i + 1, 0 => by simp [modifyAt]
  | x :: xs, i + 1, j + 1 => by simp [modifyAt, modifyAt_getElem? f xs i j]

theorem findName_map (f : Sheet C → Sheet C) (hf : ∀ s, (f s).name = s.name) (n : Name) :
    ∀ l : List (Sheet C), findName n (l.map f) = findName n l
  | [] => rfl
  | s :: ss => by simp [findName, hf, findName_map f hf n ss]

theorem hasName_map (f : Sheet C → Sheet C) (hf : ∀ s, (f s).name = s.name) (n : Name) (l : List (Sheet C)) :
    hasName n (l.map f) = hasName n l := by
  unfold hasName
  induction l with
  | nil => rfl
  | cons s ss ih => simp [hf, ih]

theorem eraseIdx_map {α β} (f : α → β) : ∀ (l : List α) (i : Nat), (l.eraseIdx i).map f = (l.map f).eraseIdx i
  | [], _ => rfl
  | _ :: _, 0 => rfl
  | x :: xs, i + 1 => by simp [List.eraseIdx, eraseIdx_map f xs i]

theorem filter_name_map (f : Sheet C → Sheet C) (hf : ∀ s, (f s).name = s.name) (n : Name) (l : List (Sheet C)) :
    (l.filter (fun s => s.name ≠ n)).map f = (l.map f).filter (fun s => s.name ≠ n) := by
  induction l with
  | nil => rfl
  | cons s ss ih =>
    simp only [ne_eq, decide_not] at ih
    by_cases h : s.name = n <;> simp [h, hf, ih]

theorem step_tables (b : Book C) (op : Op E) : (step cd b op).1.tables = b.tables := by
  cases op <;> simp only [step] <;> (repeat' split) <;> rfl

theorem run_tables (b : Book C) (ops : List (Op E)) : (run cd b ops).tables = b.tables := by
  induction ops generalizing b with
  | nil => rfl
  | cons o os ih => simp only [run, List.foldl_cons] at ih ⊢; rw [ih, step_tables]

theorem eagerOf_tables (b : Book C) : (eagerOf cd b).tables = b.tables := rfl

/-- one step commutes with "deserialize everything": same reply, and the eager workbook's next state is
    the lazy workbook's next state with everything deserialized -/
theorem step_eagerOf (b : Book C) (op : Op E) :
    (step cd (eagerOf cd b) op).2 = (step cd b op).2 ∧
    (step cd (eagerOf cd b) op).1 = eagerOf cd (step cd b op).1 := by
  have hn := materialise_name cd b.tables
  have hm : ∀ x, materialise cd b.tables (materialise cd b.tables x) = materialise cd b.tables (materialise cd b.tables x) := fun _ => rfl
  have hmm := map_modifyAt (materialise cd b.tables) (materialise cd b.tables) (materialise cd b.tables) hm
  cases op with
  | readSheet i =>
    by_cases h : i < b.sheets.length
    · simp [step, eagerOf, h, hmm]
    · simp [step, eagerOf, h]
  | getMut i =>
    by_cases h : i < b.sheets.length
    · simp [step, eagerOf, h, hmm]
    · simp [step, eagerOf, h]
  | byName n =>
    cases h : findName n b.sheets with
    | none => simp [step, eagerOf, findName_map _ hn, h]
    | some i => simp [step, eagerOf, findName_map _ hn, h, hmm]
  | readAll => simp [step, eagerOf]
  | edit i e =>
    have h2 : ∀ x, materialise cd b.tables (editSheet cd b.tables e x) = editSheet cd b.tables e (materialise cd b.tables x) := by
      intro x; rw [materialise_editSheet, editSheet_materialise]
    by_cases h : i < b.sheets.length
    · simp [step, eagerOf, h, map_modifyAt (materialise cd b.tables) (editSheet cd b.tables e) (editSheet cd b.tables e) h2]
    · simp [step, eagerOf, h]
  | newSheet n =>
    by_cases h : hasName n b.sheets = true
    · simp [step, eagerOf, hasName_map _ hn, h]
    · simp [step, eagerOf, hasName_map _ hn, h, materialise]
  | removeSheet i =>
    by_cases h : i < b.sheets.length
    · simp [step, eagerOf, h, eraseIdx_map]
    · simp [step, eagerOf, h]
  | removeByName n =>
    by_cases h : hasName n b.sheets = true
    · simp only [step, eagerOf, hasName_map _ hn, h, if_true, filter_name_map _ hn]
      exact ⟨trivial, trivial⟩
    · simp [step, eagerOf, hasName_map _ hn, h]
  | setName i n =>
    have h3 : ∀ x : Sheet C, materialise cd b.tables { x with name := n } = { materialise cd b.tables x with name := n } := by
      intro x; cases x with | mk nm body => cases body <;> rfl
    by_cases h : hasName n b.sheets = true
    · simp [step, eagerOf, hasName_map _ hn, h]
    · by_cases h' : i < b.sheets.length
      · simp [step, eagerOf, hasName_map _ hn, h, h', map_modifyAt (materialise cd b.tables) (fun s => { s with name := n }) (fun s => { s with name := n }) h3]
      · simp [step, eagerOf, hasName_map _ hn, h, h']
  | wbEdit n e1 e2 =>
    refine ⟨rfl, ?_⟩
    simp only [step, eagerOf, List.map_map]
    congr 1
    apply List.map_congr_left
    intro s _
    simp only [Function.comp, hn]
    split
    · rw [materialise_editSheet, editSheet_materialise]
    · rw [materialise_editSheet, editSheet_materialise]

theorem run_eagerOf (b : Book C) (ops : List (Op E)) :
    run cd (eagerOf cd b) ops = eagerOf cd (run cd b ops) := by
  induction ops generalizing b with
  | nil => rfl
  | cons o os ih =>
    simp only [run, List.foldl_cons] at ih ⊢
    rw [(step_eagerOf cd b o).2, ih]

end view

/-! ## tables -/

theorem intern_prefix (t : List Nat) (x : Nat) : t <+: intern t x := by
  unfold intern; split
  · exact List.prefix_refl _
  · exact List.prefix_append _ _

theorem internAll_prefix (t : List Nat) (xs : List Nat) : t <+: internAll t xs := by
  unfold internAll
  induction xs generalizing t with
  | nil => exact List.prefix_refl _
  | cons x xs ih => exact List.IsPrefix.trans (intern_prefix t x) (ih (intern t x))

theorem prefix_getElem? {α} {t t' : List α} (h : t <+: t') (i : Nat) (x : α) (hi : t[i]? = some x) : t'[i]? = some x := by
  obtain ⟨e, rfl⟩ := h
  rw [List.getElem?_append_left]
  · exact hi
  · exact (List.getElem?_eq_some_iff.mp hi).1

/-! ## the writer manager -/

section wm
variable {C : Type}

theorem hasPart_iff (ps : List (PName × Content C)) (n : PName) : hasPart ps n = true ↔ n ∈ ps.map (·.1) := by
  induction ps with
  | nil => simp [hasPart]
  | cons x xs ih =>
    obtain ⟨m, c⟩ := x
    by_cases h : m = n
    · simp [hasPart, h]
    · simp only [hasPart, h, if_false, ih, List.map_cons, List.mem_cons]
      constructor
      · exact fun hh => Or.inr hh
      · rintro (hh | hh)
        · exact absurd hh.symm h
        · exact hh

theorem hasPart_append (ps qs : List (PName × Content C)) (n : PName) :
    hasPart (ps ++ qs) n = (hasPart ps n || hasPart qs n) := by
  induction ps with
  | nil => simp [hasPart]
  | cons x xs ih =>
    obtain ⟨m, c⟩ := x
    by_cases h : m = n <;> simp [hasPart, h, ih]

theorem lookupPart_append_left (ps qs : List (PName × Content C)) (n : PName) (h : hasPart ps n = true) :
    lookupPart (ps ++ qs) n = lookupPart ps n := by
  induction ps with
  | nil => simp [hasPart] at h
  | cons x xs ih =>
    obtain ⟨m, c⟩ := x
    by_cases hm : m = n
    · simp [lookupPart, hm]
    · simp only [hasPart, hm, if_false] at h
      simp [lookupPart, hm, ih h]

theorem lookupPart_append_right (ps qs : List (PName × Content C)) (n : PName) (h : hasPart ps n = false) :
    lookupPart (ps ++ qs) n = lookupPart qs n := by
  induction ps with
  | nil => rfl
  | cons x xs ih =>
    obtain ⟨m, c⟩ := x
    by_cases hm : m = n
    · simp [hasPart, hm] at h
    · simp only [hasPart, hm, if_false] at h
      simp [lookupPart, hm, ih h]

theorem add_has_self (w : WM C) (n : PName) (c : Content C) : (w.add n c).has n = true := by
  unfold WM.add
  by_cases h : w.has n = true
  · simp [h]
  · simp only [h]
    simp [WM.has, hasPart_append, hasPart]

theorem add_has_mono (w : WM C) (n m : PName) (c : Content C) (h : w.has m = true) : (w.add n c).has m = true := by
  unfold WM.add
  by_cases hn : w.has n = true
  · simp [hn, h]
  · simp only [hn]
    unfold WM.has at h ⊢
    simp [hasPart_append, h]

theorem add_has_iff (w : WM C) (n m : PName) (c : Content C) : (w.add n c).has m = true ↔ (w.has m = true ∨ m = n) := by
  constructor
  · intro h
    unfold WM.add at h
    by_cases hn : w.has n = true
    · simp only [hn, if_true] at h; exact Or.inl h
    · simp only [hn] at h
      unfold WM.has at h ⊢
      simp only [Bool.false_eq_true, if_false, hasPart_append, Bool.or_eq_true] at h
      rcases h with h | h
      · exact Or.inl h
      · right
        by_cases e : n = m
        · exact e.symm
        · simp [hasPart, e] at h
  · rintro (h | rfl)
    · exact add_has_mono w n m c h
    · exact add_has_self w m c

theorem add_lookup_of_has (w : WM C) (n m : PName) (c : Content C) (h : w.has m = true) :
    (w.add n c).lookup m = w.lookup m := by
  unfold WM.add
  by_cases hn : w.has n = true
  · simp [hn]
  · simp only [hn]
    exact lookupPart_append_left _ _ _ h

theorem add_lookup_new (w : WM C) (n : PName) (c : Content C) (h : w.has n = false) :
    (w.add n c).lookup n = some c := by
  unfold WM.add
  simp only [h, Bool.false_eq_true, if_false]
  unfold WM.lookup
  rw [lookupPart_append_right _ _ _ h]
  simp [lookupPart]

/-- `b` arises from `a` by `add`s of names that satisfy `P` -/
inductive Ext (P : PName → Prop) : WM C → WM C → Prop where
  | refl (w : WM C) : Ext P w w
  | add {a b : WM C} (n : PName) (c : Content C) : P n → Ext P a b → Ext P a (b.add n c)

theorem Ext.trans {P : PName → Prop} {a b c : WM C} (h1 : Ext P a b) (h2 : Ext P b c) : Ext P a c := by
  induction h2 with
  | refl => exact h1
  | add n c hp _ ih => exact Ext.add n c hp ih

theorem Ext.single {P : PName → Prop} (w : WM C) (n : PName) (c : Content C) (h : P n) : Ext P w (w.add n c) :=
  Ext.add n c h (Ext.refl w)

theorem Ext.mono {P Q : PName → Prop} {a b : WM C} (hpq : ∀ n, P n → Q n) (h : Ext P a b) : Ext Q a b := by
  induction h with
  | refl => exact Ext.refl _
  | add n c hp _ ih => exact Ext.add n c (hpq n hp) ih

theorem Ext.has_mono {P : PName → Prop} {a b : WM C} (h : Ext P a b) (m : PName) (hm : a.has m = true) : b.has m = true := by
  induction h with
  | refl => exact hm
  | add n c _ _ ih => exact add_has_mono _ n m c ih

theorem Ext.lookup_stable {P : PName → Prop} {a b : WM C} (h : Ext P a b) (m : PName) (hm : a.has m = true) :
    b.lookup m = a.lookup m := by
  induction h with
  | refl => rfl
  | add n c _ h' ih => rw [add_lookup_of_has _ n m c (h'.has_mono m hm), ih]

theorem Ext.new_name {P : PName → Prop} {a b : WM C} (h : Ext P a b) (m : PName) (hm : b.has m = true) :
    a.has m = true ∨ P m := by
  induction h with
  | refl => exact Or.inl hm
  | add n c hp _ ih =>
    rcases (add_has_iff _ n m c).mp hm with h1 | rfl
    · exact ih h1
    · exact Or.inr hp

def NoDupNames (w : WM C) : Prop := (w.parts.map (·.1)).Nodup

theorem add_nodup (w : WM C) (n : PName) (c : Content C) (h : NoDupNames w) : NoDupNames (w.add n c) := by
  unfold WM.add
  by_cases hn : w.has n = true
  · simp [hn, h]
  · simp only [hn]
    unfold NoDupNames at h ⊢
    simp only [Bool.false_eq_true, if_false, List.map_append, List.map_cons, List.map_nil]
    rw [List.nodup_append]
    refine ⟨h, by simp, ?_⟩
    intro a ha b hb
    simp only [List.mem_singleton] at hb
    subst hb
    intro e; subst e
    exact hn ((hasPart_iff _ _).mpr ha)

theorem Ext.nodup {P : PName → Prop} {a b : WM C} (h : Ext P a b) (ha : NoDupNames a) : NoDupNames b := by
  induction h with
  | refl => exact ha
  | add n c _ _ ih => exact add_nodup _ n c ih

/-! ### every writer function only adds -/

def NotSheet (n : PName) : Prop := ∀ k, n ≠ .sheet k

theorem foldl_ext {α} {P : PName → Prop} (f : WM C → α → WM C) (l : List α)
    (hf : ∀ w x, x ∈ l → Ext P w (f w x)) (w : WM C) : Ext P w (l.foldl f w) := by
  induction l generalizing w with
  | nil => exact Ext.refl w
  | cons x xs ih =>
    simp only [List.foldl_cons]
    exact (hf w x (List.mem_cons_self ..)).trans (ih (fun w y hy => hf w y (List.mem_cons_of_mem _ hy)) _)

/-- names of the closure of a raw sheet: its relationship parts and their targets -/
def RawSheet.names (r : RawSheet) : List PName := r.closure.flatMap (fun q => q.name :: q.rels.map (·.file))

theorem writeRels_ext (P : PName → Prop) (w : WM C) (q : RawRels) (tgt : PName) (ht : P tgt)
    (hq : ∀ r ∈ q.rels, P r.file) : Ext P w (writeRels w q tgt) := by
  unfold writeRels
  split
  · exact Ext.refl w
  · refine (Ext.single w tgt _ ht).trans (foldl_ext _ _ ?_ _)
    intro w r hr
    split
    · exact Ext.refl w
    · exact Ext.single w _ _ (hq r hr)

theorem writeRaw_ext (P : PName → Prop) (w : WM C) (p : Nat) (r : RawSheet) (hs : P (.sheet p)) (hr : P (.rels (.sheet p)))
    (hn : ∀ n ∈ r.names, P n) : Ext P w (writeRaw w p r) := by
  unfold writeRaw
  refine (Ext.single w _ _ hs).trans (foldl_ext _ _ ?_ _)
  intro w q hq
  apply writeRels_ext
  · split
    · exact hr
    · exact hn _ (by unfold RawSheet.names; exact List.mem_flatMap.mpr ⟨q, hq, List.mem_cons_self ..⟩)
  · intro x hx
    exact hn _ (by
      unfold RawSheet.names
      exact List.mem_flatMap.mpr ⟨q, hq, List.mem_cons_of_mem _ (List.mem_map.mpr ⟨x, hx, rfl⟩)⟩)

theorem writeRawOld_ext (P : PName → Prop) (w : WM C) (p : Nat) (r : RawSheet) (hs : P (.sheet p))
    (hn : ∀ n ∈ r.names, P n) : Ext P w (writeRawOld w p r) := by
  unfold writeRawOld
  refine (Ext.single w _ _ hs).trans (foldl_ext _ _ ?_ _)
  intro w q hq
  apply writeRels_ext
  · exact hn _ (by unfold RawSheet.names; exact List.mem_flatMap.mpr ⟨q, hq, List.mem_cons_self ..⟩)
  · intro x hx
    exact hn _ (by
      unfold RawSheet.names
      exact List.mem_flatMap.mpr ⟨q, hq, List.mem_cons_of_mem _ (List.mem_map.mpr ⟨x, hx, rfl⟩)⟩)

/-- the fixed names a profile mentions -/
def leafNames : List Leaf → List PName
  | [] => []
  | .fixed n :: r => n :: leafNames r
  | _ :: r => leafNames r

def profNames : Profile → List PName
  | [] => []
  | .leaf (.fixed n) :: r => n :: profNames r
  | .leaf _ :: r => profNames r
  | .node _ kids :: r => leafNames kids ++ profNames r

theorem emitLeaf_ext (P : PName → Prop) (hf : ∀ f i, P (.fam f i)) (w : WM C) (l : Leaf)
    (hl : ∀ n, l = .fixed n → P n) : Ext P w (emitLeaf w l).1 := by
  cases l with
  | alloc f => exact Ext.single w _ _ (hf f _)
  | fixed n => exact Ext.single w _ _ (hl n rfl)
  | ext => exact Ext.refl w
  | missing n => exact Ext.refl w

theorem emitLeaves_ext (P : PName → Prop) (hf : ∀ f i, P (.fam f i)) (ls : List Leaf) (w : WM C)
    (hl : ∀ n ∈ leafNames ls, P n) : Ext P w (emitLeaves w ls).1 := by
  induction ls generalizing w with
  | nil => exact Ext.refl w
  | cons l ls ih =>
    simp only [emitLeaves]
    refine (emitLeaf_ext P hf w l ?_).trans (ih _ ?_)
    · intro n e; subst e; exact hl n (by simp [leafNames])
    · intro n hn; apply hl
      cases l <;> simp [leafNames, hn]

theorem emitItem_ext (P : PName → Prop) (hf : ∀ f i, P (.fam f i)) (hr : ∀ f i, P (.rels (.fam f i))) (w : WM C) (x : Item)
    (hl : ∀ n ∈ profNames [x], P n) : Ext P w (emitItem w x).1 := by
  cases x with
  | leaf l =>
    apply emitLeaf_ext P hf
    intro n e; subst e; exact hl n (by simp [profNames])
  | node f kids =>
    simp only [emitItem]
    refine (emitLeaves_ext P hf kids w (fun n hn => hl n (by simp [profNames, hn]))).trans ?_
    split
    · exact Ext.single _ _ _ (hf f _)
    · exact (Ext.single _ _ _ (hf f _)).trans (Ext.single _ _ _ (hr f _))

theorem profNames_cons (x : Item) (xs : Profile) (n : PName) :
    n ∈ profNames (x :: xs) ↔ n ∈ profNames [x] ∨ n ∈ profNames xs := by
  cases x with
  | leaf l => cases l <;> simp [profNames]
  | node f kids => simp [profNames]

theorem emitItems_ext (P : PName → Prop) (hf : ∀ f i, P (.fam f i)) (hr : ∀ f i, P (.rels (.fam f i))) (xs : Profile) (w : WM C)
    (hl : ∀ n ∈ profNames xs, P n) : Ext P w (emitItems w xs).1 := by
  induction xs generalizing w with
  | nil => exact Ext.refl w
  | cons x xs ih =>
    simp only [emitItems]
    refine (emitItem_ext P hf hr w x (fun n hn => hl n ((profNames_cons x xs n).mpr (Or.inl hn)))).trans (ih _ ?_)
    intro n hn; exact hl n ((profNames_cons x xs n).mpr (Or.inr hn))

theorem emitSheet_ext (P : PName → Prop) (hf : ∀ f i, P (.fam f i)) (hr : ∀ f i, P (.rels (.fam f i))) (w : WM C) (p : Nat)
    (prof : Profile) (hs : P (.rels (.sheet p))) (hl : ∀ n ∈ profNames prof, P n) : Ext P w (emitSheet w p prof) := by
  unfold emitSheet
  simp only
  split
  · exact emitItems_ext P hf hr prof w hl
  · exact (emitItems_ext P hf hr prof w hl).trans (Ext.single _ _ _ hs)

theorem sheetStep_ext (old : Bool) (w : WM C) (p : Nat) (s : Sheet C) : Ext (fun _ => True) w (sheetStep old w p s) := by
  unfold sheetStep
  cases s.body with
  | loaded l => exact Ext.single _ _ _ trivial
  | raw r =>
    simp only
    split
    · exact writeRawOld_ext _ _ _ _ trivial (fun _ _ => trivial)
    · exact writeRaw_ext _ _ _ _ trivial trivial (fun _ _ => trivial)

theorem loop1_ext (old : Bool) (ss : List (Sheet C)) (p : Nat) (w : WM C) :
    Ext (fun _ => True) w (loop1 old w p ss) := by
  induction ss generalizing p w with
  | nil => exact Ext.refl w
  | cons s ss ih =>
    simp only [loop1]
    exact (sheetStep_ext old w p s).trans (ih _ _)

theorem objStep_ext (w : WM C) (p : Nat) (s : Sheet C) : Ext (fun _ => True) w (objStep w p s) := by
  unfold objStep
  cases s.body with
  | loaded l => exact emitSheet_ext _ (fun _ _ => trivial) (fun _ _ => trivial) _ _ _ trivial (fun _ _ => trivial)
  | raw r => exact Ext.refl _

theorem loop2_ext (ss : List (Sheet C)) (p : Nat) (w : WM C) : Ext (fun _ => True) w (loop2 w p ss) := by
  induction ss generalizing p w with
  | nil => exact Ext.refl w
  | cons s ss ih =>
    simp only [loop2]
    exact (objStep_ext w p s).trans (ih _ _)

/-! ### every position gets exactly its sheet part -/

def expectedSheet (s : Sheet C) : Content C :=
  match s.body with
  | .loaded l => .ser l.content
  | .raw r => .bytes r.cid

/-- no part of the closure of a raw sheet is itself named like a sheet part -/
def RawOk (r : RawSheet) : Prop := ∀ n ∈ r.names, NotSheet n

def RawsOk (ss : List (Sheet C)) : Prop := ∀ s ∈ ss, ∀ r, s.body = .raw r → RawOk r

theorem writeRaw_from (P : PName → Prop) (w : WM C) (p : Nat) (r : RawSheet) (hr : P (.rels (.sheet p)))
    (hn : ∀ n ∈ r.names, P n) : Ext P (w.add (.sheet p) (.bytes r.cid)) (writeRaw w p r) := by
  unfold writeRaw
  refine foldl_ext _ _ ?_ _
  intro w q hq
  apply writeRels_ext
  · split
    · exact hr
    · exact hn _ (by unfold RawSheet.names; exact List.mem_flatMap.mpr ⟨q, hq, List.mem_cons_self ..⟩)
  · intro x hx
    exact hn _ (by
      unfold RawSheet.names
      exact List.mem_flatMap.mpr ⟨q, hq, List.mem_cons_of_mem _ (List.mem_map.mpr ⟨x, hx, rfl⟩)⟩)

theorem has_false_of_not {w : WM C} {n : PName} (h : ¬ w.has n = true) : w.has n = false := by
  cases hh : w.has n <;> simp_all

theorem loop1_sheets (ss : List (Sheet C)) (p : Nat) (w : WM C) (hok : RawsOk ss)
    (hw : ∀ k, p ≤ k → w.has (.sheet k) = false) :
    (∀ j s, ss[j]? = some s → (loop1 false w p ss).lookup (.sheet (p + j)) = some (expectedSheet s)) ∧
    (∀ k, p + ss.length ≤ k → (loop1 false w p ss).has (.sheet k) = false) := by
  induction ss generalizing p w with
  | nil =>
    refine ⟨by simp, ?_⟩
    intro k hk; exact hw k (by simpa using hk)
  | cons s ss ih =>
    simp only [loop1]
    -- the step at position p
    have hstep : (sheetStep false w p s).lookup (.sheet p) = some (expectedSheet s) ∧
        (sheetStep false w p s).has (.sheet p) = true ∧
        (∀ k, p + 1 ≤ k → (sheetStep false w p s).has (.sheet k) = false) := by
      unfold sheetStep
      cases hb : s.body with
      | loaded l =>
        refine ⟨?_, add_has_self _ _ _, ?_⟩
        · simp only [expectedSheet, hb]; exact add_lookup_new _ _ _ (hw p (Nat.le_refl _))
        · intro k hk
          apply has_false_of_not
          intro hh
          rcases (add_has_iff _ _ _ _).mp hh with h1 | h1
          · rw [hw k (by omega)] at h1; exact absurd h1 (by simp)
          · injection h1 with h1; omega
      | raw r =>
        simp only [Bool.false_eq_true, if_false]
        have hrok : RawOk r := hok s (List.mem_cons_self ..) r hb
        have hext := writeRaw_from (fun n => n = .rels (.sheet p) ∨ n ∈ r.names) w p r (Or.inl rfl) (fun n hn => Or.inr hn)
        have h0 : (w.add (.sheet p) (.bytes r.cid)).has (.sheet p) = true := add_has_self _ _ _
        refine ⟨?_, hext.has_mono _ h0, ?_⟩
        · rw [hext.lookup_stable _ h0]
          simp only [expectedSheet, hb]; exact add_lookup_new _ _ _ (hw p (Nat.le_refl _))
        · intro k hk
          apply has_false_of_not
          intro hh
          rcases hext.new_name _ hh with h1 | h1 | h1
          · rcases (add_has_iff _ _ _ _).mp h1 with h2 | h2
            · rw [hw k (by omega)] at h2; exact absurd h2 (by simp)
            · injection h2 with h2; omega
          · exact absurd h1 (by simp)
          · exact hrok _ h1 k rfl
    generalize sheetStep false w p s = w' at hstep ⊢
    obtain ⟨hl, hh, hrest⟩ := hstep
    have hok' : RawsOk ss := fun s' hs' => hok s' (List.mem_cons_of_mem _ hs')
    obtain ⟨ih1, ih2⟩ := ih (p + 1) w' hok' hrest
    refine ⟨?_, ?_⟩
    · intro j s' hj
      cases j with
      | zero =>
        simp only [List.getElem?_cons_zero, Option.some.injEq] at hj
        subst hj
        show (loop1 false w' (p + 1) ss).lookup (PName.sheet p) = some (expectedSheet s)
        rw [(loop1_ext false ss (p + 1) w').lookup_stable _ hh, hl]
      | succ j =>
        simp only [List.getElem?_cons_succ] at hj
        have := ih1 j s' hj
        rwa [show p + 1 + j = p + (j + 1) by omega] at this
    · intro k hk
      exact ih2 k (by simp only [List.length_cons] at hk; omega)

end wm

end Umya.Lazy
