/-
  The pass-1 character machine: observation function and its one-step invariant.
-/
import Umya.Model.Formula
namespace Umya.Formula
open Umya.Coord Umya.Dec

/-- source text of a pass-1 token (blank tokens are one blank) -/
def render1Tok (t : Tok) : List Char := if t.ty = .whitespace then [' '] else renderTok t
def render1 (l : List Tok) : List Char := l.flatMap render1Tok

/-- the part of the consumed input that is not yet in a token -/
def pending (st : LexSt) : List Char :=
  match st.mode with
  | .str => '"' :: dblQuote st.value
  | .strQ => '"' :: (dblQuote st.value ++ ['"'])
  | .pathQ => st.value ++ ['\'']
  | .cmp a => st.value ++ [a]
  | _ => st.value

/-- observation: everything consumed so far, as the tokens would render it -/
def out (st : LexSt) : List Char := render1 st.toks ++ pending st

/-- what popping `t` off the stack renders: `)` for a function or a subexpression, `}` for the
    `ARRAY` pseudo function of an array constant, nothing for an `ARRAYROW` -/
def closeText (t : Tok) : List Char := renderTok ⟨[], t.ty, .stop, t.arr⟩

/-- what a character contributes when it is looked at with all mode flags off: itself, except
    the three characters that pop the stack — they contribute what the popped tokens render to
    (`)` on an array row / `;` or `}` on a function: not what was written; excluded by `Spec.Clean`) -/
def emitNormal (stack : List Tok) (c : Char) : List Char :=
  if c = ';' then (match stack with | t :: _ => closeText t | [] => []) ++ [';']
  else if c = '}' then
    (match stack with | t :: u :: _ => closeText t ++ closeText u | [t] => closeText t | [] => [])
  else if c = ')' then (match stack with | t :: _ => closeText t | [] => [])
  else [c]

/-- what a consumed character contributes to the observation, by the mode it is consumed in -/
def emit (st : LexSt) (c : Char) : List Char :=
  match st.mode with
  | .dead => []
  | .normal => emitNormal st.stack c
  | .skipBlank => if c = ' ' then [] else emitNormal st.stack c
  | .cmp a => if isMultiCmp a c then [c] else emitNormal st.stack c
  | .strQ => if c = '"' then [c] else emitNormal st.stack c
  | .pathQ => if c = '\'' then [c] else emitNormal st.stack c
  | _ => [c]

def Inv (st : LexSt) : Prop :=
  (∀ a, st.mode = .cmp a → st.value = []) ∧
  (∀ t ∈ st.stack, t.ty = .function ∨ t.ty = .subexpression)

theorem render1_append (a b : List Tok) : render1 (a ++ b) = render1 a ++ render1 b := by
  simp [render1]

@[simp] theorem render1_nil : render1 [] = [] := rfl
@[simp] theorem render1_cons (t : Tok) (l : List Tok) : render1 (t :: l) = render1Tok t ++ render1 l := by
  simp [render1]
theorem render1_single (t : Tok) : render1 [t] = render1Tok t := by simp [render1]

theorem dblQuote_append (a b : List Char) : dblQuote (a ++ b) = dblQuote a ++ dblQuote b := by
  simp [dblQuote]

/-! ### state updates -/

@[simp] theorem flush_value (st : LexSt) (ty : TT) : (st.flush ty).value = [] := by
  unfold LexSt.flush; split <;> simp_all

@[simp] theorem flush_stack (st : LexSt) (ty : TT) : (st.flush ty).stack = st.stack := by
  unfold LexSt.flush; split <;> simp

@[simp] theorem flush_mode (st : LexSt) (ty : TT) : (st.flush ty).mode = st.mode := by
  unfold LexSt.flush; split <;> simp

theorem render1Tok_plain (v : List Char) (ty : TT) (h : ty = .unknown ∨ ty = .operand) :
    render1Tok ⟨v, ty, .nothing, .none⟩ = v := by
  rcases h with h | h <;> subst h <;> simp [render1Tok, renderTok]

theorem flush_render (st : LexSt) (ty : TT) (h : ty = .unknown ∨ ty = .operand) :
    render1 (st.flush ty).toks = render1 st.toks ++ st.value := by
  unfold LexSt.flush
  split
  · rename_i hv; simp [hv]
  · simp [render1_append, render1_single, render1Tok_plain _ _ h]

@[simp] theorem push_toks (st : LexSt) (t : Tok) : (st.push t).toks = st.toks ++ [t] := rfl
@[simp] theorem push_stack (st : LexSt) (t : Tok) : (st.push t).stack = st.stack := rfl
@[simp] theorem push_value (st : LexSt) (t : Tok) : (st.push t).value = st.value := rfl
@[simp] theorem push_mode (st : LexSt) (t : Tok) : (st.push t).mode = st.mode := rfl
@[simp] theorem open_toks (st : LexSt) (t : Tok) : (st.open_ t).toks = st.toks ++ [t] := rfl
@[simp] theorem open_stack (st : LexSt) (t : Tok) : (st.open_ t).stack = t :: st.stack := rfl
@[simp] theorem open_value (st : LexSt) (t : Tok) : (st.open_ t).value = st.value := rfl
@[simp] theorem open_mode (st : LexSt) (t : Tok) : (st.open_ t).mode = st.mode := rfl

/-- `close` on a non-empty stack renders what the popped token closes with -/
theorem close_spec (st : LexSt) (hs : ∀ t ∈ st.stack, t.ty = .function ∨ t.ty = .subexpression)
    (hnd : st.close.mode ≠ .dead) (hm : st.mode ≠ .dead) :
    ∃ t rest, st.stack = t :: rest ∧ st.close.stack = rest ∧ st.close.value = st.value ∧
      st.close.mode = st.mode ∧ render1 st.close.toks = render1 st.toks ++ closeText t := by
  unfold LexSt.close at hnd ⊢
  cases hst : st.stack with
  | nil => simp [hst] at hnd
  | cons t rest =>
    refine ⟨t, rest, rfl, by simp, by simp, by simp, ?_⟩
    have := hs t (by simp [hst])
    rcases this with h | h <;> simp [render1_append, render1_single, render1Tok, closeText, h]

/-! ### one step in normal mode -/

theorem emitNormal_plain (stack : List Tok) (c : Char) (h2 : c ≠ ';') (h3 : c ≠ '}') (h4 : c ≠ ')') :
    emitNormal stack c = [c] := by
  simp [emitNormal, h2, h3, h4]

/-- the per-character equations of `stepNormal` -/
theorem sn_dq (st : LexSt) : stepNormal st '"' = { st.flush .unknown with mode := .str } := by
  simp [stepNormal]
theorem sn_sq (st : LexSt) : stepNormal st '\'' = { st.flush .unknown with value := ['\''], mode := .path } := by
  simp [stepNormal]
theorem sn_lb (st : LexSt) : stepNormal st '[' = { st with value := st.value ++ ['['], mode := .range } := by
  simp [stepNormal]
theorem sn_hash (st : LexSt) : stepNormal st '#' = { st.flush .unknown with value := ['#'], mode := .error } := by
  simp [stepNormal]
theorem sn_lbrace (st : LexSt) : stepNormal st '{' = ((st.flush .unknown).open_ arrayTok).open_ arrayRowTok := by
  simp [stepNormal]
theorem sn_semi (st : LexSt) : stepNormal st ';' =
    (if ((st.flush .operand).close).mode = .dead then (st.flush .operand).close
     else (((st.flush .operand).close).push ⟨[','], .argument, .nothing, .row⟩).open_ arrayRowTok) := by
  simp [stepNormal]
theorem sn_rbrace (st : LexSt) : stepNormal st '}' =
    (if ((st.flush .operand).close).mode = .dead then (st.flush .operand).close
     else ((st.flush .operand).close).close) := by
  simp [stepNormal]
theorem sn_blank (st : LexSt) : stepNormal st ' ' =
    { (st.flush .operand).push ⟨[], .whitespace, .nothing, .none⟩ with mode := .skipBlank } := by
  simp [stepNormal]
theorem sn_lt (st : LexSt) : stepNormal st '<' = { st.flush .operand with mode := .cmp '<' } := by
  simp [stepNormal]
theorem sn_gt (st : LexSt) : stepNormal st '>' = { st.flush .operand with mode := .cmp '>' } := by
  simp [stepNormal]
theorem sn_pct (st : LexSt) : stepNormal st '%' = (st.flush .operand).push ⟨['%'], .opPostfix, .nothing, .none⟩ := by
  simp [stepNormal, isInfixChar]
theorem sn_lp (st : LexSt) : stepNormal st '(' =
    (if st.value = [] then st.open_ ⟨[], .subexpression, .start, .none⟩
     else { st with value := [] }.open_ ⟨st.value, .function, .start, .none⟩) := by
  simp [stepNormal, isInfixChar]
theorem sn_comma (st : LexSt) : stepNormal st ',' =
    (match (st.flush .operand).stack with
     | [] => { st.flush .operand with mode := .dead }
     | t :: rest =>
       if t.ty = .function then
         { st.flush .operand with stack := ⟨[], t.ty, .stop, t.arr⟩ :: rest }.push ⟨[','], .opInfix, .union, .none⟩
       else { st.flush .operand with stack := ⟨[], t.ty, .stop, t.arr⟩ :: rest }.push ⟨[','], .argument, .nothing, .none⟩) := by
  simp [stepNormal, isInfixChar]
  cases st.stack with
  | nil => rfl
  | cons t rest => by_cases h : t.ty = .function <;> simp [h]
theorem sn_rp (st : LexSt) : stepNormal st ')' = (st.flush .operand).close := by
  simp [stepNormal, isInfixChar]

/-- the other infix characters `+ - * / ^ & =` -/
def isPlainInfix (c : Char) : Bool :=
  c = '+' || c = '-' || c = '*' || c = '/' || c = '^' || c = '&' || c = '='

theorem sn_infix (st : LexSt) (c : Char) (h : isPlainInfix c = true) :
    stepNormal st c = (st.flush .operand).push ⟨[c], .opInfix, .nothing, .none⟩ := by
  simp only [isPlainInfix, Bool.or_eq_true, decide_eq_true_eq] at h
  rcases h with (((((h | h) | h) | h) | h) | h) | h <;> subst h <;> simp [stepNormal, isInfixChar]

def isSpecial (c : Char) : Bool :=
  c = '"' || c = '\'' || c = '[' || c = '#' || c = '{' || c = ';' || c = '}' || c = ' ' ||
  c = '<' || c = '>' || isPlainInfix c || c = '%' || c = '(' || c = ',' || c = ')'

theorem sn_other (st : LexSt) (c : Char) (h : isSpecial c = false) :
    stepNormal st c = { st with value := st.value ++ [c] } := by
  simp only [isSpecial, isPlainInfix, Bool.or_eq_false_iff, decide_eq_false_iff_not] at h
  obtain ⟨⟨⟨⟨⟨⟨⟨⟨⟨⟨⟨⟨⟨⟨h1, h2⟩, h3⟩, h4⟩, h5⟩, h6⟩, h7⟩, h8⟩, h9⟩, h10⟩, ⟨⟨⟨⟨⟨⟨i1, i2⟩, i3⟩, i4⟩, i5⟩, i6⟩, i7⟩⟩, h12⟩, h13⟩, h14⟩, h15⟩ := h
  simp [stepNormal, isInfixChar, h1, h2, h3, h4, h5, h6, h7, h8, h9, h10, i1, i2, i3, i4, i5, i6, i7, h12, h13, h14, h15]

section
variable (st : LexSt) (hm : st.mode = .normal) (hi : Inv st)
include hm hi

theorem so_dq : out (stepNormal st '"') = out st ++ emitNormal st.stack '"' ∧ Inv (stepNormal st '"') := by
  rw [sn_dq]
  refine ⟨?_, ?_, ?_⟩
  · simp [out, pending, hm, flush_render st .unknown (Or.inl rfl), dblQuote, emitNormal]
  · intro a ha; simp at ha
  · simpa using hi.2

theorem so_sq : out (stepNormal st '\'') = out st ++ emitNormal st.stack '\'' ∧ Inv (stepNormal st '\'') := by
  rw [sn_sq]
  refine ⟨?_, ?_, ?_⟩
  · simp [out, pending, hm, flush_render st .unknown (Or.inl rfl), emitNormal]
  · intro a ha; simp at ha
  · simpa using hi.2

theorem so_lb : out (stepNormal st '[') = out st ++ emitNormal st.stack '[' ∧ Inv (stepNormal st '[') := by
  rw [sn_lb]
  refine ⟨?_, ?_, ?_⟩
  · simp [out, pending, hm, emitNormal]
  · intro a ha; simp at ha
  · simpa using hi.2

theorem so_hash : out (stepNormal st '#') = out st ++ emitNormal st.stack '#' ∧ Inv (stepNormal st '#') := by
  rw [sn_hash]
  refine ⟨?_, ?_, ?_⟩
  · simp [out, pending, hm, flush_render st .unknown (Or.inl rfl), emitNormal]
  · intro a ha; simp at ha
  · simpa using hi.2

theorem so_lbrace : out (stepNormal st '{') = out st ++ emitNormal st.stack '{' ∧ Inv (stepNormal st '{') := by
  rw [sn_lbrace]
  refine ⟨?_, ?_, ?_⟩
  · simp [out, pending, hm, flush_render st .unknown (Or.inl rfl), render1_append, render1_single,
      render1Tok, renderTok, arrayTok, arrayRowTok, emitNormal]
  · intro a ha; simp [hm] at ha
  · intro t ht
    simp at ht
    rcases ht with h | h | h
    · subst h; left; rfl
    · subst h; left; rfl
    · exact hi.2 t h

theorem so_blank : out (stepNormal st ' ') = out st ++ emitNormal st.stack ' ' ∧ Inv (stepNormal st ' ') := by
  rw [sn_blank]
  refine ⟨?_, ?_, ?_⟩
  · simp [out, pending, hm, flush_render st .operand (Or.inr rfl), render1_append, render1_single,
      render1Tok, emitNormal]
  · intro a ha; simp at ha
  · simpa using hi.2

theorem so_lt : out (stepNormal st '<') = out st ++ emitNormal st.stack '<' ∧ Inv (stepNormal st '<') := by
  rw [sn_lt]
  refine ⟨?_, ?_, ?_⟩
  · simp [out, pending, hm, flush_render st .operand (Or.inr rfl), emitNormal]
  · intro a _; simp
  · simpa using hi.2

theorem so_gt : out (stepNormal st '>') = out st ++ emitNormal st.stack '>' ∧ Inv (stepNormal st '>') := by
  rw [sn_gt]
  refine ⟨?_, ?_, ?_⟩
  · simp [out, pending, hm, flush_render st .operand (Or.inr rfl), emitNormal]
  · intro a _; simp
  · simpa using hi.2

theorem so_pct : out (stepNormal st '%') = out st ++ emitNormal st.stack '%' ∧ Inv (stepNormal st '%') := by
  rw [sn_pct]
  refine ⟨?_, ?_, ?_⟩
  · simp [out, pending, hm, flush_render st .operand (Or.inr rfl), render1_append, render1_single,
      render1Tok, renderTok, emitNormal]
  · intro a ha; simp [hm] at ha
  · simpa using hi.2

theorem so_infix (c : Char) (h : isPlainInfix c = true) :
    out (stepNormal st c) = out st ++ emitNormal st.stack c ∧ Inv (stepNormal st c) := by
  rw [sn_infix st c h]
  have hc : emitNormal st.stack c = [c] := by
    simp only [isPlainInfix, Bool.or_eq_true, decide_eq_true_eq] at h
    rcases h with (((((h | h) | h) | h) | h) | h) | h <;> subst h <;> simp [emitNormal]
  refine ⟨?_, ?_, ?_⟩
  · simp [out, pending, hm, flush_render st .operand (Or.inr rfl), render1_append, render1_single,
      render1Tok, renderTok, hc]
  · intro a ha; simp [hm] at ha
  · simpa using hi.2

theorem so_lp : out (stepNormal st '(') = out st ++ emitNormal st.stack '(' ∧ Inv (stepNormal st '(') := by
  rw [sn_lp]
  by_cases hv : st.value = []
  · simp only [hv, if_true]
    refine ⟨?_, ?_, ?_⟩
    · simp [out, pending, hm, hv, render1_append, render1_single, render1Tok, renderTok, emitNormal]
    · intro a ha; simp [hm] at ha
    · intro t ht; simp at ht
      rcases ht with h | h
      · subst h; right; rfl
      · exact hi.2 t h
  · simp only [hv, if_false]
    refine ⟨?_, ?_, ?_⟩
    · simp [out, pending, hm, render1_append, render1_single, render1Tok, renderTok, emitNormal]
    · intro a ha; simp [hm] at ha
    · intro t ht; simp at ht
      rcases ht with h | h
      · subst h; left; rfl
      · exact hi.2 t h

theorem so_other (c : Char) (h : isSpecial c = false) :
    out (stepNormal st c) = out st ++ emitNormal st.stack c ∧ Inv (stepNormal st c) := by
  rw [sn_other st c h]
  have hc : emitNormal st.stack c = [c] := by
    simp only [isSpecial, Bool.or_eq_false_iff, decide_eq_false_iff_not] at h
    apply emitNormal_plain <;> simp_all
  refine ⟨?_, ?_, ?_⟩
  · simp [out, pending, hm, hc]
  · intro a ha; simp [hm] at ha
  · simpa using hi.2

theorem so_rp (hnd : (stepNormal st ')').mode ≠ .dead) :
    out (stepNormal st ')') = out st ++ emitNormal st.stack ')' ∧ Inv (stepNormal st ')') := by
  rw [sn_rp] at hnd ⊢
  obtain ⟨t, rest, hst, hcs, hcv, hcm, hcr⟩ :=
    close_spec (st.flush .operand) (by simpa using hi.2) hnd (by simp [hm])
  have hst' : st.stack = t :: rest := by simpa using hst
  refine ⟨?_, ?_, ?_⟩
  · simp [out, pending, hcm, hm, hcv, hcr, flush_render st .operand (Or.inr rfl), emitNormal, hst']
  · intro a ha; simp [hcm, hm] at ha
  · intro t' ht'
    rw [hcs] at ht'
    exact hi.2 t' (by rw [hst']; exact List.mem_cons_of_mem _ ht')

theorem so_comma (hnd : (stepNormal st ',').mode ≠ .dead) :
    out (stepNormal st ',') = out st ++ emitNormal st.stack ',' ∧ Inv (stepNormal st ',') := by
  rw [sn_comma] at hnd ⊢
  cases hst : st.stack with
  | nil => simp [hst] at hnd
  | cons t rest =>
    have hstack : ∀ t' ∈ (⟨[], t.ty, .stop, t.arr⟩ : Tok) :: rest, t'.ty = .function ∨ t'.ty = .subexpression := by
      intro t' ht'
      simp at ht'
      rcases ht' with h | h
      · subst h; exact hi.2 t (by simp [hst])
      · exact hi.2 t' (by rw [hst]; exact List.mem_cons_of_mem _ h)
    simp only [flush_stack, hst]
    by_cases hf : t.ty = .function
    · simp only [hf, if_true]
      refine ⟨?_, ?_, ?_⟩
      · simp [out, pending, hm, flush_render st .operand (Or.inr rfl), render1_append, render1_single,
          render1Tok, renderTok, emitNormal]
      · intro a ha; simp [hm] at ha
      · simpa [hf] using hstack
    · simp only [hf, if_false]
      refine ⟨?_, ?_, ?_⟩
      · simp [out, pending, hm, flush_render st .operand (Or.inr rfl), render1_append, render1_single,
          render1Tok, renderTok, emitNormal]
      · intro a ha; simp [hm] at ha
      · simpa using hstack

theorem so_semi (hnd : (stepNormal st ';').mode ≠ .dead) :
    out (stepNormal st ';') = out st ++ emitNormal st.stack ';' ∧ Inv (stepNormal st ';') := by
  rw [sn_semi] at hnd ⊢
  by_cases hd : ((st.flush .operand).close).mode = .dead
  · simp [hd] at hnd
  · simp only [hd, if_false] at hnd ⊢
    obtain ⟨t, rest, hst, hcs, hcv, hcm, hcr⟩ :=
      close_spec (st.flush .operand) (by simpa using hi.2) hd (by simp [hm])
    have hst' : st.stack = t :: rest := by simpa using hst
    refine ⟨?_, ?_, ?_⟩
    · simp [out, pending, hcm, hm, hcv, hcr, flush_render st .operand (Or.inr rfl), render1_append,
        render1Tok, renderTok, arrayRowTok, emitNormal, hst']
    · intro a ha; simp [hcm, hm] at ha
    · intro t' ht'
      simp [hcs] at ht'
      rcases ht' with h | h
      · subst h; left; rfl
      · exact hi.2 t' (by simp at hst; rw [hst]; exact List.mem_cons_of_mem _ h)

theorem so_rbrace (hnd : (stepNormal st '}').mode ≠ .dead) :
    out (stepNormal st '}') = out st ++ emitNormal st.stack '}' ∧ Inv (stepNormal st '}') := by
  rw [sn_rbrace] at hnd ⊢
  by_cases hd : ((st.flush .operand).close).mode = .dead
  · simp [hd] at hnd
  · simp only [hd, if_false] at hnd ⊢
    obtain ⟨t, rest, hst, hcs, hcv, hcm, hcr⟩ :=
      close_spec (st.flush .operand) (by simpa using hi.2) hd (by simp [hm])
    have hs1 : ∀ t' ∈ ((st.flush .operand).close).stack, t'.ty = .function ∨ t'.ty = .subexpression := by
      intro t' ht'; rw [hcs] at ht'
      exact hi.2 t' (by simp at hst; rw [hst]; exact List.mem_cons_of_mem _ ht')
    obtain ⟨t2, rest2, hst2, hcs2, hcv2, hcm2, hcr2⟩ :=
      close_spec ((st.flush .operand).close) hs1 hnd (by simp [hcm, hm])
    have hst' : st.stack = t :: t2 :: rest2 := by
      have : st.stack = t :: rest := by simpa using hst
      rw [this, ← hcs, hst2]
    refine ⟨?_, ?_, ?_⟩
    · simp [out, pending, hcm2, hcm, hm, hcv2, hcv, hcr2, hcr, flush_render st .operand (Or.inr rfl), emitNormal, hst']
    · intro a ha; simp [hcm2, hcm, hm] at ha
    · intro t' ht'
      rw [hcs2] at ht'
      exact hs1 t' (by rw [hst2]; exact List.mem_cons_of_mem _ ht')

/-- one iteration with all mode flags off: the observation grows by what the character emits -/
theorem stepNormal_out (c : Char) (hnd : (stepNormal st c).mode ≠ .dead) :
    out (stepNormal st c) = out st ++ emitNormal st.stack c ∧ Inv (stepNormal st c) := by
  by_cases hsp : isSpecial c = false
  · exact so_other st hm hi c hsp
  · have : isSpecial c = true := by
      cases h : isSpecial c
      · exact absurd h hsp
      · rfl
    simp only [isSpecial, Bool.or_eq_true, decide_eq_true_eq] at this
    rcases this with (((((((((((((h | h) | h) | h) | h) | h) | h) | h) | h) | h) | h) | h) | h) | h) | h
    · subst h; exact so_dq st hm hi
    · subst h; exact so_sq st hm hi
    · subst h; exact so_lb st hm hi
    · subst h; exact so_hash st hm hi
    · subst h; exact so_lbrace st hm hi
    · subst h; exact so_semi st hm hi hnd
    · subst h; exact so_rbrace st hm hi hnd
    · subst h; exact so_blank st hm hi
    · subst h; exact so_lt st hm hi
    · subst h; exact so_gt st hm hi
    · exact so_infix st hm hi c h
    · subst h; exact so_pct st hm hi
    · subst h; exact so_lp st hm hi
    · subst h; exact so_comma st hm hi hnd
    · subst h; exact so_rp st hm hi hnd

end
/-! ### one step in any mode -/

theorem dbl_single (c : Char) (h : c ≠ '"') : dblQuote [c] = [c] := by simp [dblQuote, h]

theorem inv_of_mode (st st' : LexSt) (hi : Inv st) (hs : st'.stack = st.stack)
    (hmode : ∀ a, st'.mode ≠ .cmp a) : Inv st' := by
  refine ⟨fun a ha => absurd ha (hmode a), ?_⟩
  rw [hs]; exact hi.2

theorem step_out (st : LexSt) (c : Char) (hi : Inv st) (hnd : (step st c).mode ≠ .dead) :
    out (step st c) = out st ++ emit st c ∧ Inv (step st c) := by
  cases hm : st.mode with
  | dead => simp [step, hm] at hnd
  | normal =>
    have e : step st c = stepNormal st c := by simp [step, hm]
    rw [e] at hnd ⊢
    simpa [emit, hm] using stepNormal_out st hm hi c hnd
  | skipBlank =>
    by_cases hc : c = ' '
    · subst hc
      have e : step st ' ' = st := by simp [step, hm]
      rw [e]; simp [emit, hm, hi]
    · have e : step st c = stepNormal { st with mode := .normal } c := by simp [step, hm, hc]
      rw [e] at hnd ⊢
      have hi' : Inv { st with mode := .normal } := ⟨by intro a ha; simp at ha, hi.2⟩
      have := stepNormal_out { st with mode := .normal } rfl hi' c hnd
      have ho : out { st with mode := .normal } = out st := by simp [out, pending, hm]
      rw [ho] at this
      simpa [emit, hm, hc] using this
  | cmp a =>
    have hv : st.value = [] := hi.1 a hm
    by_cases hmc : isMultiCmp a c = true
    · have e : step st c = { st.push ⟨[a, c], .opInfix, .logical, .none⟩ with mode := .normal } := by
        simp [step, hm, hmc]
      rw [e]
      refine ⟨?_, ?_⟩
      · simp [out, pending, hm, hv, render1_append, render1Tok, renderTok, emit, hmc]
      · exact inv_of_mode st _ hi rfl (by intro b; simp)
    · have e : step st c = stepNormal { st.push ⟨[a], .opInfix, .nothing, .none⟩ with mode := .normal } c := by
        simp [step, hm, hmc]
      rw [e] at hnd ⊢
      have hi' : Inv { st.push ⟨[a], .opInfix, .nothing, .none⟩ with mode := .normal } :=
        ⟨by intro b hb; simp at hb, hi.2⟩
      have := stepNormal_out _ rfl hi' c hnd
      have ho : out { st.push ⟨[a], .opInfix, .nothing, .none⟩ with mode := .normal } = out st := by
        simp [out, pending, hm, hv, render1_append, render1Tok, renderTok]
      rw [ho] at this
      simpa [emit, hm, hmc] using this
  | str =>
    by_cases hc : c = '"'
    · subst hc
      have e : step st '"' = { st with mode := .strQ } := by simp [step, hm]
      rw [e]
      exact ⟨by simp [out, pending, hm, emit], inv_of_mode st _ hi rfl (by intro b; simp)⟩
    · have e : step st c = { st with value := st.value ++ [c] } := by simp [step, hm, hc]
      rw [e]
      refine ⟨by simp [out, pending, hm, emit, dblQuote_append, dbl_single c hc], ?_⟩
      exact inv_of_mode st _ hi rfl (by intro b; simp [hm])
  | strQ =>
    by_cases hc : c = '"'
    · subst hc
      have e : step st '"' = { st with value := st.value ++ ['"'], mode := .str } := by simp [step, hm]
      rw [e]
      exact ⟨by simp [out, pending, hm, emit, dblQuote_append, dblQuote],
        inv_of_mode st _ hi rfl (by intro b; simp)⟩
    · have e : step st c = stepNormal
          { st with toks := st.toks ++ [⟨st.value, .operand, .text, .none⟩], value := [], mode := .normal } c := by
        simp [step, hm, hc]
      rw [e] at hnd ⊢
      have hi' : Inv { st with toks := st.toks ++ [⟨st.value, .operand, .text, .none⟩], value := [], mode := .normal } :=
        ⟨by intro b hb; simp at hb, hi.2⟩
      have := stepNormal_out _ rfl hi' c hnd
      have ho : out { st with toks := st.toks ++ [⟨st.value, .operand, .text, .none⟩], value := [], mode := .normal }
          = out st := by
        simp [out, pending, hm, render1_append, render1Tok, renderTok]
      rw [ho] at this
      simpa [emit, hm, hc] using this
  | path =>
    by_cases hc : c = '\''
    · subst hc
      have e : step st '\'' = { st with mode := .pathQ } := by simp [step, hm]
      rw [e]
      exact ⟨by simp [out, pending, hm, emit], inv_of_mode st _ hi rfl (by intro b; simp)⟩
    · have e : step st c = { st with value := st.value ++ [c] } := by simp [step, hm, hc]
      rw [e]
      exact ⟨by simp [out, pending, hm, emit], inv_of_mode st _ hi rfl (by intro b; simp [hm])⟩
  | pathQ =>
    by_cases hc : c = '\''
    · subst hc
      have e : step st '\'' = { st with value := st.value ++ ['\'', '\''], mode := .path } := by
        simp [step, hm]
      rw [e]
      exact ⟨by simp [out, pending, hm, emit], inv_of_mode st _ hi rfl (by intro b; simp)⟩
    · have e : step st c = stepNormal { st with value := st.value ++ ['\''], mode := .normal } c := by
        simp [step, hm, hc]
      rw [e] at hnd ⊢
      have hi' : Inv { st with value := st.value ++ ['\''], mode := .normal } :=
        ⟨by intro b hb; simp at hb, hi.2⟩
      have := stepNormal_out _ rfl hi' c hnd
      have ho : out { st with value := st.value ++ ['\''], mode := .normal } = out st := by
        simp [out, pending, hm]
      rw [ho] at this
      simpa [emit, hm, hc] using this
  | range =>
    have e : step st c = { st with value := st.value ++ [c], mode := if c = ']' then .normal else .range } := by
      simp [step, hm]
    rw [e]
    refine ⟨?_, inv_of_mode st _ hi rfl (by intro b; split <;> simp)⟩
    by_cases hc : c = ']' <;> simp [out, pending, hc, emit, hm]
  | error =>
    by_cases hv : st.value ++ [c] ∈ errors
    · have e : step st c = { st with toks := st.toks ++ [⟨st.value ++ [c], .operand, .error, .none⟩], value := [], mode := .normal } := by
        simp [step, hm, hv]
      rw [e]
      exact ⟨by simp [out, pending, hm, emit, render1_append, render1Tok, renderTok],
        inv_of_mode st _ hi rfl (by intro b; simp)⟩
    · have e : step st c = { st with value := st.value ++ [c] } := by simp [step, hm, hv]
      rw [e]
      exact ⟨by simp [out, pending, hm, emit], inv_of_mode st _ hi rfl (by intro b; simp [hm])⟩

/-! ### the whole fold -/

/-- what the consumed characters contribute, threading the machine's own mode -/
def echo (st : LexSt) : List Char → List Char
  | [] => []
  | c :: r => emit st c ++ echo (step st c) r

theorem step_dead (st : LexSt) (c : Char) (h : st.mode = .dead) : (step st c).mode = .dead := by
  simp [step, h]

theorem foldl_dead (s : List Char) (st : LexSt) (h : st.mode = .dead) : (s.foldl step st).mode = .dead := by
  induction s generalizing st with
  | nil => exact h
  | cons c r ih => exact ih _ (step_dead st c h)

theorem lex_out (s : List Char) (st : LexSt) (hi : Inv st) (hnd : (s.foldl step st).mode ≠ .dead) :
    out (s.foldl step st) = out st ++ echo st s ∧ Inv (s.foldl step st) := by
  induction s generalizing st with
  | nil => simp [echo, hi]
  | cons c r ih =>
    simp only [List.foldl_cons] at hnd ⊢
    have h1 : (step st c).mode ≠ .dead := fun h => hnd (foldl_dead r _ h)
    obtain ⟨ho, hi'⟩ := step_out st c hi h1
    obtain ⟨ho2, hi2⟩ := ih (step st c) hi' hnd
    exact ⟨by rw [ho2, ho, echo, List.append_assoc], hi2⟩

/-! ### end of input -/

theorem finish_render (st : LexSt) (hi : Inv st) (hm : st.mode ≠ .str) :
    render1 (finish st).toks = out st := by
  unfold finish
  cases hmode : st.mode with
  | str => exact absurd hmode hm
  | strQ =>
    simp [out, pending, hmode, render1_append, render1Tok, renderTok]
  | pathQ =>
    simp [out, pending, hmode, render1_append, render1Tok, renderTok]
  | cmp a =>
    have hv := hi.1 a hmode
    simp [out, pending, hmode, hv, render1_append, render1Tok, renderTok]
  | normal =>
    by_cases hv : st.value = [] <;> simp [out, pending, hmode, hv, render1_append, render1Tok, renderTok]
  | skipBlank =>
    by_cases hv : st.value = [] <;> simp [out, pending, hmode, hv, render1_append, render1Tok, renderTok]
  | path =>
    by_cases hv : st.value = [] <;> simp [out, pending, hmode, hv, render1_append, render1Tok, renderTok]
  | range =>
    by_cases hv : st.value = [] <;> simp [out, pending, hmode, hv, render1_append, render1Tok, renderTok]
  | error =>
    by_cases hv : st.value = [] <;> simp [out, pending, hmode, hv, render1_append, render1Tok, renderTok]
  | dead =>
    by_cases hv : st.value = [] <;> simp [out, pending, hmode, hv, render1_append, render1Tok, renderTok]

theorem inv_init : Inv {} := ⟨by intro a ha; simp at ha, by intro t ht; simp at ht⟩

/-! ### blank erasure -/

/-- `b` is `a` with some blanks deleted -/
inductive BlankErasure : List Char → List Char → Prop where
  | nil : BlankErasure [] []
  | keep (c : Char) {a b : List Char} : BlankErasure a b → BlankErasure (c :: a) (c :: b)
  | drop {a b : List Char} : BlankErasure a b → BlankErasure (' ' :: a) b

theorem BlankErasure.refl (a : List Char) : BlankErasure a a := by
  induction a with
  | nil => exact .nil
  | cons c r ih => exact .keep c ih

theorem BlankErasure.trans {a b c : List Char} (h1 : BlankErasure a b) (h2 : BlankErasure b c) :
    BlankErasure a c := by
  induction h1 generalizing c with
  | nil => exact h2
  | keep x _ ih =>
    cases h2 with
    | keep _ h => exact .keep x (ih h)
    | drop h => exact .drop (ih h)
  | drop _ ih => exact .drop (ih h2)

theorem BlankErasure.append {a b c d : List Char} (h1 : BlankErasure a b) (h2 : BlankErasure c d) :
    BlankErasure (a ++ c) (b ++ d) := by
  induction h1 with
  | nil => exact h2
  | keep x _ ih => exact .keep x ih
  | drop _ ih => exact .drop ih

end Umya.Formula
