/-
  Scalar and colour lemmas for the concrete style codecs (Umya/Model/StyleCodec.lean).
-/
import Umya.Model.StyleCodec
namespace Umya.StyleCodec
open Umya.Spec.Xml (Node Attr)
open Umya.Dec

theorem foldOpt_append {α β : Type} (step : α → β → Option α) (l₁ l₂ : List β) (a : α) :
    foldOpt step (l₁ ++ l₂) a = (foldOpt step l₁ a).bind (foldOpt step l₂) := by
  induction l₁ generalizing a with
  | nil => simp [foldOpt]
  | cons b r ih =>
    simp only [List.cons_append, foldOpt]
    cases step a b with
    | none => simp
    | some a' => simpa using ih a'

@[simp] theorem foldOpt_nil {α β : Type} (step : α → β → Option α) (a : α) : foldOpt step [] a = some a := rfl
@[simp] theorem foldOpt_single {α β : Type} (step : α → β → Option α) (b : β) (a : α) :
    foldOpt step [b] a = step a b := by
  simp [foldOpt]

/-! ### numbers -/

theorem decDigits_head (n : Nat) : ∃ c r, decDigits n = c :: r ∧ isDigit c = true := by
  have hne := decDigits_ne_nil n
  have hall := decDigits_all_digit n
  cases h : decDigits n with
  | nil => exact absurd h hne
  | cons c r =>
    rw [h] at hall
    simp only [List.all_cons, Bool.and_eq_true] at hall
    exact ⟨c, r, rfl, hall.1⟩

theorem isDigit_ne_plus {c : Char} (h : isDigit c = true) : c ≠ '+' := by
  intro hc; subst hc; revert h; decide
theorem isDigit_ne_minus {c : Char} (h : isDigit c = true) : c ≠ '-' := by
  intro hc; subst hc; revert h; decide

theorem u32Of_decDigits (n : Nat) (h : u32Range n) : u32Of (decDigits n) = some n := by
  obtain ⟨c, r, hd, hc⟩ := decDigits_head n
  have h1 := parseU32_decDigits n h
  rw [hd] at h1 ⊢
  unfold u32Of
  split
  · rename_i heq
    simp only [List.cons.injEq] at heq
    exact absurd heq.1 (isDigit_ne_plus hc)
  · exact h1

theorem natBelow_decDigits (b n : Nat) (h : n < b) : natBelow b (decDigits n) = some n := by
  unfold natBelow
  have hne := decDigits_ne_nil n
  have : (decDigits n).isEmpty = false := by
    cases hd : decDigits n with
    | nil => exact absurd hd hne
    | cons _ _ => rfl
  simp [this, decDigits_all_digit, parseDec_decDigits, h]

theorem i32Of_i32Str (z : Int) (h : i32Range z) : i32Of (i32Str z) = some z := by
  unfold i32Range at h
  cases z with
  | ofNat n =>
    obtain ⟨c, r, hd, hc⟩ := decDigits_head n
    have hn : n < 2147483648 := by
      have := h.2
      simp only [Int.ofNat_eq_natCast] at this
      omega
    have h1 := natBelow_decDigits 2147483648 n hn
    simp only [i32Str]
    rw [hd] at h1 ⊢
    unfold i32Of
    split
    · rename_i heq
      simp only [List.cons.injEq] at heq
      exact absurd heq.1 (isDigit_ne_minus hc)
    · rename_i heq
      simp only [List.cons.injEq] at heq
      exact absurd heq.1 (isDigit_ne_plus hc)
    · simp [h1]
  | negSucc n =>
    have hn : n + 1 < 2147483649 := by
      have := h.1
      simp only [Int.negSucc_eq] at this
      omega
    simp only [i32Str, i32Of, natBelow_decDigits _ _ hn, Option.map_some]
    rfl

@[simp] theorem boolOf_boolStr (b : Bool) : boolOf (boolStr b) = b := by cases b <;> decide

/-! ### enum tables: `from_str (get_value_string v) = Ok v` for every constructor -/

theorem Underline.fromStr_toStr (v : Underline) : Underline.fromStr v.toStr.toList = some v := by cases v <;> decide
theorem FontScheme.fromStr_toStr (v : FontScheme) : FontScheme.fromStr v.toStr.toList = some v := by cases v <;> decide
theorem VertRun.fromStr_toStr (v : VertRun) : VertRun.fromStr v.toStr.toList = some v := by cases v <;> decide
theorem Pattern.fromStr_toStr (v : Pattern) : Pattern.fromStr v.toStr.toList = some v := by cases v <;> decide
theorem BorderStyle.fromStr_toStr (v : BorderStyle) : BorderStyle.fromStr v.toStr.toList = some v := by cases v <;> decide
theorem HAlign.fromStr_toStr (v : HAlign) : HAlign.fromStr v.toStr.toList = some v := by cases v <;> decide
theorem VAlign.fromStr_toStr (v : VAlign) : VAlign.fromStr v.toStr.toList = some v := by cases v <;> decide

/-! ### attribute look-up on written attribute lists -/

@[simp] theorem getAttr_nil (k : String) : getAttr [] k = none := rfl

theorem getAttr_cons (a : Attr) (as : List Attr) (k : String) :
    getAttr (a :: as) k = if a.name = k.toList then some a.value else getAttr as k := by
  unfold getAttr
  by_cases h : a.name = k.toList <;> simp [List.find?, h]

theorem getAttr_append (as bs : List Attr) (k : String) :
    getAttr (as ++ bs) k = (getAttr as k).orElse (fun _ => getAttr bs k) := by
  induction as with
  | nil => simp
  | cons a as ih =>
    simp only [List.cons_append, getAttr_cons]
    by_cases h : a.name = k.toList <;> simp [h, ih]

/-! ### colour -/

theorem Color.read_attrs (cf : Tok → Tok) (c : Color) (h : c.Range cf) :
    Color.readInto cf {} c.attrs = some c.norm := by
  obtain ⟨indexed, theme, argb, tint⟩ := c
  obtain ⟨hi, ht, hf⟩ := h
  simp only at hi ht hf
  cases theme with
  | some t =>
    have h1 := u32Of_decDigits t (ht t rfl)
    cases tint with
    | none => simp [Color.attrs, Color.readInto, Color.attrStep, mkAttr, h1, Color.norm]
    | some f => simp [Color.attrs, Color.readInto, foldOpt, Color.attrStep, mkAttr, h1, Color.norm, hf f rfl]
  | none =>
    cases indexed with
    | some i =>
      have h1 := u32Of_decDigits i (hi i rfl)
      cases tint with
      | none => simp [Color.attrs, Color.readInto, Color.attrStep, mkAttr, h1, Color.norm]
      | some f => simp [Color.attrs, Color.readInto, foldOpt, Color.attrStep, mkAttr, h1, Color.norm, hf f rfl]
    | none =>
      cases argb <;> cases tint <;>
        simp_all [Color.attrs, Color.readInto, foldOpt, Color.attrStep, mkAttr, Color.norm]

theorem Color.norm_idem (c : Color) : c.norm.norm = c.norm := by
  obtain ⟨indexed, theme, argb, tint⟩ := c
  cases theme <;> cases indexed <;> simp [Color.norm]

theorem Color.norm_of_oneForm (c : Color) (h : c.OneForm = true) : c.norm = c := by
  obtain ⟨indexed, theme, argb, tint⟩ := c
  cases theme <;> cases indexed <;> cases argb <;> simp_all [Color.norm, Color.OneForm]

theorem Color.norm_range (cf : Tok → Tok) (c : Color) (h : c.Range cf) : c.norm.Range cf := by
  obtain ⟨indexed, theme, argb, tint⟩ := c
  obtain ⟨hi, ht, hf⟩ := h
  cases theme <;> cases indexed <;> simp_all [Color.norm, Color.Range]

theorem Color.norm_oneForm (c : Color) : c.norm.OneForm = true := by
  obtain ⟨indexed, theme, argb, tint⟩ := c
  cases theme <;> cases indexed <;> cases argb <;> simp [Color.norm, Color.OneForm]

theorem Color.attrs_norm (c : Color) : c.norm.attrs = c.attrs := by
  obtain ⟨indexed, theme, argb, tint⟩ := c
  cases theme <;> cases indexed <;> cases argb <;> simp [Color.norm, Color.attrs]

/-- `Color::write_to`, then `set_attributes` into a fresh colour (absent element = the colour stays `Color::default()`) -/
def Color.readKids (cf : Tok → Tok) (l : List Node) : Option Color :=
  match l with
  | [] => some {}
  | n :: _ => Color.read cf n

theorem Color.attrs_empty_norm (c : Color) (h : c.attrs = []) : c.norm = {} := by
  obtain ⟨indexed, theme, argb, tint⟩ := c
  cases theme <;> cases indexed <;> cases argb <;> cases tint <;> simp_all [Color.norm, Color.attrs]

end Umya.StyleCodec
