/-
  The OPC path rules of `Umya/Spec/Sml.lean` on the names of the VML and comments parts
  (`xl/drawings/vmlDrawing{v}.vml`, `xl/comments{c}.xml`) and on the relationship targets that lead to them from a
  sheet part (`../drawings/vmlDrawing{v}.vml`, `../comments{c}.xml`), for every number; the smallest-free-index rule.
-/
import Umya.Model.PackageNodeCmt
import Umya.Lemmas.PackagePath
namespace Umya.PackageNode
open Umya.Dec Umya.SheetNode Umya.WorkbookNode
open Umya.Spec.Sml

/-! ## names are distinct -/

theorem vmlPartL_inj (j k : Nat) (h : vmlPartL j = vmlPartL k) : j = k := by
  simp only [vmlPartL, List.cons.injEq, true_and] at h
  exact decDigits_inj j k (List.append_cancel_right h)

theorem commentsPartL_inj (j k : Nat) (h : commentsPartL j = commentsPartL k) : j = k := by
  simp only [commentsPartL, List.cons.injEq, true_and] at h
  exact decDigits_inj j k (List.append_cancel_right h)

theorem vml_ne_comments (j k : Nat) : vmlPartL j ≠ commentsPartL k := by
  intro h; simp [vmlPartL, commentsPartL] at h

theorem sheetPart_ne_vml (j k : Nat) : sheetPartL j ≠ vmlPartL k := by
  intro h; simp [sheetPartL, vmlPartL] at h

theorem sheetPart_ne_comments (j k : Nat) : sheetPartL j ≠ commentsPartL k := by
  intro h; simp [sheetPartL, commentsPartL] at h

theorem sheetRels_ne_vml (j k : Nat) : sheetRelsL j ≠ vmlPartL k := by
  intro h; simp [sheetRelsL, vmlPartL] at h

theorem sheetRels_ne_comments (j k : Nat) : sheetRelsL j ≠ commentsPartL k := by
  intro h; simp [sheetRelsL, commentsPartL] at h

/-! ## splitting -/

theorem segsOf_vmlPart (v : Nat) :
    segsOf (vmlPartL v) = [['x', 'l'], ['d', 'r', 'a', 'w', 'i', 'n', 'g', 's'], 'v' :: 'm' :: 'l' :: 'D' :: 'r' :: 'a' :: 'w' :: 'i' :: 'n' :: 'g' :: (decDigits v ++ ['.', 'v', 'm', 'l'])] := by
  have ht := splitGo_slash_tail v ['.', 'v', 'm', 'l'] (by decide)
  simp [segsOf, splitOnChar, vmlPartL, splitGo_cons_ne, splitGo_cons_eq, ht]

theorem segsOf_vmlTarget (v : Nat) :
    segsOf (vmlTarget v) = [['.', '.'], ['d', 'r', 'a', 'w', 'i', 'n', 'g', 's'], 'v' :: 'm' :: 'l' :: 'D' :: 'r' :: 'a' :: 'w' :: 'i' :: 'n' :: 'g' :: (decDigits v ++ ['.', 'v', 'm', 'l'])] := by
  have ht := splitGo_slash_tail v ['.', 'v', 'm', 'l'] (by decide)
  simp [segsOf, splitOnChar, vmlTarget, splitGo_cons_ne, splitGo_cons_eq, ht]

theorem segsOf_commentsTarget (c : Nat) :
    segsOf (commentsTarget c) = [['.', '.'], 'c' :: 'o' :: 'm' :: 'm' :: 'e' :: 'n' :: 't' :: 's' :: (decDigits c ++ ['.', 'x', 'm', 'l'])] := by
  have ht := splitGo_slash_tail c ['.', 'x', 'm', 'l'] (by decide)
  simp [segsOf, splitOnChar, commentsTarget, splitGo_cons_ne, splitGo_cons_eq, ht]

/-- `../drawings/vmlDrawing{v}.vml` relative to `xl/worksheets/sheet{k}.xml` is `xl/drawings/vmlDrawing{v}.vml` -/
theorem resolve_vmlTarget (k v : Nat) : resolveTargetL (sheetPartL k) (vmlTarget v) = vmlPartL v := by
  have hh : (vmlTarget v).head? ≠ some '/' := by simp [vmlTarget]
  unfold resolveTargetL
  rw [if_neg hh, segsOf_sheetPart, segsOf_vmlTarget]
  simp [resolveSegs, joinSegs, List.intercalate, vmlPartL]

/-- `../comments{c}.xml` relative to `xl/worksheets/sheet{k}.xml` is `xl/comments{c}.xml` -/
theorem resolve_commentsTarget (k c : Nat) : resolveTargetL (sheetPartL k) (commentsTarget c) = commentsPartL c := by
  have hh : (commentsTarget c).head? ≠ some '/' := by simp [commentsTarget]
  unfold resolveTargetL
  rw [if_neg hh, segsOf_sheetPart, segsOf_commentsTarget]
  simp [resolveSegs, joinSegs, List.intercalate, commentsPartL]

theorem resolve_sheet (k : Nat) (t r : List Char) (h : resolveTargetL (sheetPartL k) t = r) :
    resolveTarget (String.ofList (sheetPartL k)) (str t) = String.ofList r := by
  rw [resolveTarget, str, String.toList_ofList, String.toList_ofList, h]

/-! ## neither is a relationships part; extensions -/

theorem not_rels_of_last (pre : List Char) (c : Char) (hc : c ≠ 's') : isRelsNameL (pre ++ [c]) = false := by
  rw [isRelsNameL, Bool.eq_false_iff]
  intro h
  obtain ⟨t, ht⟩ := List.isSuffixOf_iff_suffix.1 h
  have h1 := congrArg List.reverse ht
  simp only [List.reverse_append, List.reverse_cons, List.reverse_nil, List.nil_append, List.cons_append, List.cons.injEq] at h1
  exact hc h1.1.symm

theorem isRels_vmlPart (v : Nat) : isRelsNameL (vmlPartL v) = false := by
  have : vmlPartL v = ('x' :: 'l' :: '/' :: 'd' :: 'r' :: 'a' :: 'w' :: 'i' :: 'n' :: 'g' :: 's' :: '/' :: 'v' :: 'm' :: 'l' :: 'D' :: 'r' :: 'a' :: 'w' :: 'i' :: 'n' :: 'g' :: (decDigits v ++ ['.', 'v', 'm'])) ++ ['l'] := by
    simp [vmlPartL]
  rw [this]; exact not_rels_of_last _ 'l' (by decide)

theorem isRels_commentsPart (c : Nat) : isRelsNameL (commentsPartL c) = false := by
  have : commentsPartL c = ('x' :: 'l' :: '/' :: 'c' :: 'o' :: 'm' :: 'm' :: 'e' :: 'n' :: 't' :: 's' :: (decDigits c ++ ['.', 'x', 'm'])) ++ ['l'] := by
    simp [commentsPartL]
  rw [this]; exact not_rels_of_last _ 'l' (by decide)

/-- the extension of a VML part is `vml` -/
theorem ext_vmlPart (v : Nat) : extOfL (vmlPartL v) = ['v', 'm', 'l'] := by
  have ht : splitGo '.' (decDigits v ++ ['.', 'v', 'm', 'l']) = (decDigits v, [['v', 'm', 'l']]) := by
    rw [splitGo_append _ _ _ (dot_notin v)]
    simp [splitGo]
  simp [extOfL, splitOnChar, vmlPartL, splitGo_cons_ne, ht]

/-! ## the smallest free index on `[1, …, c]` -/

theorem firstFreeGo_range (c : Nat) : ∀ (fuel i : Nat), 1 ≤ i → i ≤ c + 1 → c + 1 ≤ i + fuel →
    firstFreeGo (List.range' 1 c) fuel i = c + 1 := by
  intro fuel
  induction fuel with
  | zero => intro i _ h2 h3; simp only [firstFreeGo]; omega
  | succ f ih =>
    intro i h1 h2 h3
    simp only [firstFreeGo]
    by_cases hi : i ≤ c
    · have : (List.range' 1 c).contains i = true := by
        simp only [List.contains_eq_mem, List.mem_range'_1, decide_eq_true_eq]; omega
      rw [if_pos this]
      exact ih (i + 1) (by omega) (by omega) (by omega)
    · have : (List.range' 1 c).contains i = false := by
        simp only [List.contains_eq_mem, List.mem_range'_1, decide_eq_false_iff_not]; omega
      rw [this]; simp only [Bool.false_eq_true, if_false]; omega

/-- with `1 … c` registered the loop returns `c + 1` -/
theorem firstFree_range (c : Nat) : firstFree (List.range' 1 c) = c + 1 := by
  unfold firstFree
  exact firstFreeGo_range c _ 1 (by omega) (by omega) (by simp; omega)

/-- a list that contains `1 … m` has at least `m` elements -/
theorem pigeon : ∀ (m : Nat) (used : List Nat), (∀ j, 1 ≤ j → j ≤ m → j ∈ used) → m ≤ used.length := by
  intro m
  induction m with
  | zero => intro _ _; omega
  | succ m ih =>
    intro used h
    have hm : m + 1 ∈ used := h (m + 1) (by omega) (by omega)
    have h2 := ih (used.erase (m + 1)) (fun j h1 h2 => (List.mem_erase_of_ne (by omega)).2 (h j h1 (by omega)))
    rw [List.length_erase_of_mem hm] at h2
    have h3 : 0 < used.length := List.length_pos_of_mem hm
    omega

theorem firstFreeGo_spec (used : List Nat) : ∀ (fuel i : Nat),
    i ≤ firstFreeGo used fuel i ∧ (∀ j, i ≤ j → j < firstFreeGo used fuel i → j ∈ used) ∧
    (firstFreeGo used fuel i ∉ used ∨ firstFreeGo used fuel i = i + fuel) := by
  intro fuel
  induction fuel with
  | zero => intro i; simp only [firstFreeGo]; exact ⟨Nat.le_refl i, fun j h1 h2 => by omega, Or.inr rfl⟩
  | succ f ih =>
    intro i
    simp only [firstFreeGo]
    by_cases hi : used.contains i = true
    · rw [if_pos hi]
      obtain ⟨h1, h2, h3⟩ := ih (i + 1)
      refine ⟨by omega, ?_, ?_⟩
      · intro j hj1 hj2
        by_cases hji : j = i
        · subst hji; simpa using hi
        · exact h2 j (by omega) hj2
      · rcases h3 with h3 | h3
        · exact Or.inl h3
        · exact Or.inr (by omega)
    · rw [if_neg hi]
      exact ⟨Nat.le_refl i, fun j h1 h2 => by omega, Or.inl (by simpa using hi)⟩

/-- THE LOOP TERMINATES WITH THE SMALLEST FREE INDEX, for every set of registered numbers: `used.length` tests are
    enough (pigeonhole), the result is not registered and every smaller index ≥ 1 is -/
theorem firstFree_spec (used : List Nat) :
    1 ≤ firstFree used ∧ firstFree used ∉ used ∧ ∀ j, 1 ≤ j → j < firstFree used → j ∈ used := by
  obtain ⟨h1, h2, h3⟩ := firstFreeGo_spec used used.length 1
  refine ⟨h1, ?_, h2⟩
  rcases h3 with h3 | h3
  · exact h3
  · intro hmem
    have := pigeon (used.length + 1) used (by
      intro j j1 j2
      by_cases hj : j = used.length + 1
      · rw [hj]; unfold firstFree at hmem; rw [h3] at hmem; rwa [Nat.add_comm] at hmem
      · exact h2 j j1 (by unfold firstFree at *; omega))
    omega

theorem range'_snoc (c : Nat) : List.range' 1 c ++ [c + 1] = List.range' 1 (c + 1) := by
  rw [show c + 1 = c + 1 from rfl, List.range'_concat]
  simp; omega

/-- THE NUMBERS.  Starting with `1 … c` registered in both families, the sheets with comments get, in order, the
    pairs `(c+1, c+1)`, `(c+2, c+2)`, … -/
def numSpec : Nat → List Bool → List (Option (Nat × Nat))
  | _, [] => []
  | c, false :: r => none :: numSpec c r
  | c, true :: r => some (c + 1, c + 1) :: numSpec (c + 1) r

theorem numbering_spec (flags : List Bool) : ∀ c, numbering (List.range' 1 c) (List.range' 1 c) flags = numSpec c flags := by
  induction flags with
  | nil => intro _; rfl
  | cons f r ih =>
    intro c
    cases f with
    | false => simp only [numbering, numSpec, ih]
    | true => simp only [numbering, numSpec, firstFree_range, range'_snoc, ih]

theorem numbering_nil (flags : List Bool) : numbering [] [] flags = numSpec 0 flags := numbering_spec flags 0

theorem numSpec_length (flags : List Bool) : ∀ c, (numSpec c flags).length = flags.length := by
  induction flags with
  | nil => intro _; rfl
  | cons f r ih => intro c; cases f <;> simp [numSpec, ih]

/-- every number handed out from state `c` is above `c`, both numbers of a pair are equal -/
theorem numSpec_mem (flags : List Bool) : ∀ c v w, some (v, w) ∈ numSpec c flags → c < v ∧ v = w := by
  induction flags with
  | nil => intro c v w h; simp [numSpec] at h
  | cons f r ih =>
    intro c v w h
    cases f with
    | false =>
      simp only [numSpec, List.mem_cons] at h
      rcases h with h | h
      · cases h
      · exact ih c v w h
    | true =>
      simp only [numSpec, List.mem_cons, Option.some.injEq, Prod.mk.injEq] at h
      rcases h with ⟨rfl, rfl⟩ | h
      · exact ⟨by omega, rfl⟩
      · have := ih (c + 1) v w h; exact ⟨by omega, this.2⟩

/-- the pairs handed out are pairwise different in both components: every sheet with comments has its own parts -/
theorem numSpec_pairwise (flags : List Bool) : ∀ c, (numSpec c flags).Pairwise
    (fun a b => ∀ v w v' w', a = some (v, w) → b = some (v', w') → v ≠ v' ∧ w ≠ w') := by
  induction flags with
  | nil => intro _; exact List.Pairwise.nil
  | cons f r ih =>
    intro c
    cases f with
    | false =>
      simp only [numSpec]
      exact List.Pairwise.cons (fun b _ v w v' w' h _ => by cases h) (ih c)
    | true =>
      simp only [numSpec]
      refine List.Pairwise.cons ?_ (ih (c + 1))
      intro b hb v w v' w' h h'
      cases h
      subst h'
      have := numSpec_mem r (c + 1) v' w' hb
      omega

end Umya.PackageNode
