/-
  What `decode` needs from the package of `Umya/Model/PackageNode.lean` besides the sheets: the main
  relationship, the shared-string table and the style sizes it finds through workbook.xml.rels, `activeTab`.
-/
import Umya.Lemmas.PackageNodeRels
namespace Umya.PackageNode
open Umya.Xml Umya.CellXml Umya.CellNode Umya.SheetNode Umya.WorkbookNode Umya.Dec
open Umya.Spec.Xml (Node Attr localName)
open Umya.Spec.Sml

/-- the sizes the decoder reads from the (opaque) styles part -/
def nXfOf (styles : Node) : Nat := ((styles.kid? "cellXfs").map (fun x => (x.kids "xf").length)).getD 1
def nDxfOf (styles : Node) : Nat := ((styles.kid? "dxfs").map (fun x => (x.kids "dxf").length)).getD 0

/-- `activeTab` as the decoder reads it from the opaque children of `<workbook>` (`bookViews` is one of them) -/
def _root_.Umya.WorkbookNode.WbFrame.active (fr : WbFrame) : Nat := dActive (Node.elem nWorkbook fr.attrs (fr.pre ++ fr.post))

theorem ends_ws_sst : (str worksheetType).endsWith "/sharedStrings" = false := by decide +kernel
theorem ends_ws_styles : (str worksheetType).endsWith "/styles" = false := by decide +kernel
theorem ends_styles_sst : (str tStyles).endsWith "/sharedStrings" = false := by decide +kernel
theorem ends_styles_styles : (str tStyles).endsWith "/styles" = true := by decide +kernel
theorem ends_theme_sst : (str tTheme).endsWith "/sharedStrings" = false := by decide +kernel
theorem ends_sst_sst : (str tSharedStrings).endsWith "/sharedStrings" = true := by decide +kernel
theorem ends_xprops : (str tXprops).endsWith "/officeDocument" = false := by decide +kernel
theorem ends_coreprops : (str tCoreprops).endsWith "/officeDocument" = false := by decide +kernel
theorem ends_office : (str tOfficeDoc).endsWith "/officeDocument" = true := by decide +kernel

theorem wsRecs_find_none (p : Rel → Bool) (hp : ∀ k, p { id := str (rIdText k), type := str worksheetType, target := str (sheetTarget k), external := false } = false)
    (n : Nat) : ∀ k, (wsRecs k n).find? p = none := by
  induction n with
  | zero => intro _; rfl
  | succ n ih => intro k; rw [wsRecs, List.find?_cons, hp k, ih]

theorem resolve_root_workbook : resolveTarget "" (str nWorkbookPart) = String.ofList nWorkbookPart := by
  have : "".toList = [] := rfl
  rw [resolveTarget, this, str, String.toList_ofList]; exact congrArg _ (by decide)

theorem resolve_wb (t r : List Char) (h : resolveTargetL nWorkbookPart t = r) : resolveTarget (String.ofList nWorkbookPart) (str t) = String.ofList r := by
  rw [resolveTarget, str, String.toList_ofList, String.toList_ofList, h]

theorem resolve_root (t r : List Char) (h : resolveTargetL [] t = r) : resolveTarget "" (str t) = String.ofList r := by
  have : "".toList = [] := rfl
  rw [resolveTarget, this, str, String.toList_ofList, h]

section
variable (F : Umya.Num.NumFmt)

theorem mainRel (b : BookP F.Num) (hs : Bool) (roots : List Node) (tbl : Table) (sst : List Part) (hsst : SstShape tbl sst) :
    (relsOf (assemble F b hs roots sst) "").find? (fun r => r.type.endsWith "/officeDocument") = some (relRec 1 tOfficeDoc nWorkbookPart) := by
  rw [relsOf_root F b hs roots tbl sst hsst]
  simp only [List.find?_cons, relRec, ends_xprops, ends_coreprops, ends_office]

theorem dStylesRoot_pkg (b : BookP F.Num) (hs : Bool) (roots : List Node) (tbl : Table) (sst : List Part) (hsst : SstShape tbl sst) :
    dStylesRoot (assemble F b hs roots sst) (String.ofList nWorkbookPart) = some b.styles := by
  unfold dStylesRoot
  rw [relsOf_wb F b hs roots tbl sst hsst, List.find?_append, wsRecs_find_none _ (fun k => by simp only [ends_ws_styles]) _ 1]
  simp only [Option.none_or, wbRestRecs, List.cons_append, List.find?_cons, relRec, ends_styles_styles, Option.map_some, Option.bind_some]
  rw [resolve_wb tStylesTarget nStyles (by decide)]
  show ((assemble F b hs roots sst).part? (String.ofList nStyles)).bind (·.xml) = _
  rw [part_styles F b hs roots tbl sst hsst]; rfl

theorem dNXf_pkg (b : BookP F.Num) (hs : Bool) (roots : List Node) (tbl : Table) (sst : List Part) (hsst : SstShape tbl sst) :
    dNXf (assemble F b hs roots sst) (String.ofList nWorkbookPart) = nXfOf b.styles ∧
    dNDxf (assemble F b hs roots sst) (String.ofList nWorkbookPart) = nDxfOf b.styles := by
  unfold dNXf dNDxf
  rw [dStylesRoot_pkg F b hs roots tbl sst hsst]
  exact ⟨rfl, rfl⟩

/-- the shared strings the decoder finds are the texts of the final table -/
theorem dSst_pkg (b : BookP F.Num) (roots : List Node) (tbl : Table) (sst : List Part) (hsst : SstShape tbl sst) :
    dSst (assemble F b (!tbl.isEmpty) roots sst) (String.ofList nWorkbookPart) = tbl.map itemText := by
  unfold dSst
  rw [relsOf_wb F b _ roots tbl sst hsst, List.find?_append, wsRecs_find_none _ (fun k => by simp only [ends_ws_sst]) _ 1]
  cases hsst with
  | absent h =>
    subst h
    simp only [Option.none_or, wbRestRecs, List.isEmpty_nil, Bool.not_true, Bool.false_eq_true, if_false, List.append_nil,
      List.find?_cons, relRec, ends_styles_sst, ends_theme_sst, List.find?_nil, Option.map_none, List.map_nil]
  | present root hne hroot =>
    have he : (!tbl.isEmpty) = true := by cases tbl with | nil => exact absurd rfl hne | cons _ _ => rfl
    simp only [he, Option.none_or, wbRestRecs, if_true, List.cons_append, List.nil_append,
      List.find?_cons, relRec, ends_styles_sst, ends_theme_sst, ends_sst_sst, Option.map_some]
    rw [resolve_wb tSstTarget nSst (by decide)]
    unfold sharedStrings
    rw [part_sst F b true roots tbl _ (.present root hne hroot)]
    obtain ⟨root', h1, h2⟩ := sstNode_texts tbl
    rw [hroot] at h1
    cases h1
    simpa [xmlPart] using h2

end

/-! ### `activeTab` -/

theorem kidsL_workbook_other (fr : WbFrame) (ss : List SheetE) (ds : List NameE) (nm : List Char) (h1 : nm ≠ nSheets) (h2 : nm ≠ nDefinedNames) :
    kidsL (workbookNode fr ss ds) nm = kidsL (Node.elem nWorkbook fr.attrs (fr.pre ++ fr.post)) nm := by
  have hs : isKid nm (Node.elem nSheets [] (sheetEls 1 ss)) = false := by
    rw [isKid_elem]
    have : localName nSheets = nSheets := by decide
    rw [this]; exact decide_eq_false (fun e => h1 e.symm)
  have hd : (definedNamesNodes ds).filter (isKid nm) = [] := by
    unfold definedNamesNodes
    split
    · rfl
    · have : isKid nm (Node.elem nDefinedNames [] (ds.map nameEl)) = false := by
        rw [isKid_elem]
        have : localName nDefinedNames = nDefinedNames := by decide
        rw [this]; exact decide_eq_false (fun e => h2 e.symm)
      simp [List.filter_cons, this]
  simp only [kidsL, workbookNode, Node.children, List.filter_append, List.filter_cons, hs, hd, Bool.false_eq_true, if_false,
    List.filter_nil, List.append_nil]

theorem dActive_workbook (fr : WbFrame) (ss : List SheetE) (ds : List NameE) : dActive (workbookNode fr ss ds) = fr.active := by
  have e : "bookViews".toList = ['b', 'o', 'o', 'k', 'V', 'i', 'e', 'w', 's'] := rfl
  have : (workbookNode fr ss ds).kid? "bookViews" = (Node.elem nWorkbook fr.attrs (fr.pre ++ fr.post)).kid? "bookViews" := by
    unfold Node.kid?
    rw [kids_eq, kids_eq, e]
    exact congrArg List.head? (kidsL_workbook_other fr ss ds _ (by decide) (by decide))
  unfold WbFrame.active dActive
  rw [this]

end Umya.PackageNode
