/-
  **(b)** the whole-sheet cell writer of `Umya/Model/SheetNode.lean` (`writeRows`: the shared-string table
  threaded through the rows of the row loop) IS C01's `writeCells` on the cells of the sheet:
  `writeRows_eq_writeCells` for any grouping, `renderSheet_cells` for a well-formed sheet (where the row loop
  hands over every cell, in order: `rowGroups_all`).
-/
import Umya.Lemmas.SheetNodeLoop
namespace Umya.SheetNode
open Umya.Xml Umya.CellXml Umya.CellNode

section
variable (F : Umya.Num.NumFmt)

theorem consOpt_append {α} (o : Option α) (a b : List α) : consOpt o a ++ b = consOpt o (a ++ b) := by
  cases o <;> rfl

/-- `writeCells` on a concatenation: the table is threaded from the first list into the second -/
theorem writeCells_append (a b : List (Cell F.Num)) : ∀ tbl : Table,
    writeCells F tbl (a ++ b) =
      match writeCells F tbl a with
      | none => none
      | some (t1, xs) =>
        match writeCells F t1 b with
        | none => none
        | some (t2, ys) => some (t2, xs ++ ys) := by
  induction a with
  | nil =>
    intro tbl
    simp only [List.nil_append, writeCells]
    cases writeCells F tbl b with
    | none => rfl
    | some p => rfl
  | cons c cs ih =>
    intro tbl
    simp only [List.cons_append, writeCells]
    cases hw : writeTo F tbl c with
    | none => rfl
    | some p =>
      obtain ⟨t1, ox⟩ := p
      simp only [ih t1]
      cases h1 : writeCells F t1 cs with
      | none => rfl
      | some q =>
        obtain ⟨t2, xs⟩ := q
        simp only
        cases h2 : writeCells F t2 b with
        | none => rfl
        | some r => simp [consOpt_append]

/-- **(b)** the row loop's writer is `writeCells` on the concatenated cells: same final table, and the `<c>`
    facts of the rows, concatenated, are the facts `writeCells` produces -/
theorem writeRows_eq_writeCells : ∀ (gs : List (RowW × List (Cell F.Num))) (tbl t : Table) (ws : List (RowX F.Num)),
    writeRows F tbl gs = some (t, ws) →
    writeCells F tbl (gs.flatMap (·.2)) = some (t, ws.flatMap (·.xs)) ∧ ws.map (fun w => (w.row, w.cells)) = gs := by
  intro gs
  induction gs with
  | nil => intro tbl t ws h; simp only [writeRows] at h; cases h; exact ⟨rfl, rfl⟩
  | cons g gs ih =>
    intro tbl t ws h
    obtain ⟨r, cs⟩ := g
    simp only [writeRows] at h
    cases h1 : writeCells F tbl cs with
    | none => rw [h1] at h; cases h
    | some p =>
      obtain ⟨t1, xs⟩ := p
      rw [h1] at h
      simp only at h
      cases h2 : writeRows F t1 gs with
      | none => rw [h2] at h; cases h
      | some q =>
        obtain ⟨t2, ys⟩ := q
        rw [h2] at h
        cases h
        obtain ⟨i1, i2⟩ := ih t1 t ys h2
        refine ⟨?_, by simp [i2]⟩
        simp only [List.flatMap_cons]
        rw [writeCells_append, h1]
        simp only [i1]

/-- and conversely: when `writeCells` succeeds on the concatenation, the row loop's writer succeeds -/
theorem writeRows_of_writeCells : ∀ (gs : List (RowW × List (Cell F.Num))) (tbl t : Table) (xs : List CellX),
    writeCells F tbl (gs.flatMap (·.2)) = some (t, xs) →
    ∃ ws, writeRows F tbl gs = some (t, ws) ∧ ws.flatMap (·.xs) = xs := by
  intro gs
  induction gs with
  | nil => intro tbl t xs h; simp only [List.flatMap_nil, writeCells] at h; cases h; exact ⟨[], rfl, rfl⟩
  | cons g gs ih =>
    intro tbl t xs h
    obtain ⟨r, cs⟩ := g
    simp only [List.flatMap_cons] at h
    rw [writeCells_append] at h
    cases h1 : writeCells F tbl cs with
    | none => rw [h1] at h; cases h
    | some p =>
      obtain ⟨t1, x1⟩ := p
      rw [h1] at h
      simp only at h
      cases h2 : writeCells F t1 (gs.flatMap (·.2)) with
      | none => rw [h2] at h; cases h
      | some q =>
        obtain ⟨t2, x2⟩ := q
        rw [h2] at h
        cases h
        obtain ⟨ws, hw, hx⟩ := ih t1 t x2 h2
        exact ⟨⟨r, cs, x1⟩ :: ws, by simp [writeRows, h1, hw], by simp [hx]⟩

/-- for a well-formed sheet the cells handed to `Cell::write_to` by the row loop are all the cells, in order -/
theorem rowGroups_cells (s : SheetW F.Num) (hwf : s.WF) : (rowGroups s.rows s.cells).flatMap (·.2) = s.cells := by
  apply rowGroups_all s.rows s.cells hwf.rowsAsc _ hwf.rowKnown
  exact hwf.cellsAsc.imp (fun h => by omega)

end
end Umya.SheetNode
