/-
  The lexer simulates the independent scanner `Spec.scan`: on scanned-clean input the stack is
  never popped when empty (no panic), and the modes correspond.
-/
import Umya.Lemmas.Lex
import Umya.Spec.Refs
namespace Umya.Formula
open Umya.Coord Umya.Dec

def SimMode (m : Spec.SMode) (st : LexSt) : Prop :=
  match m with
  | .normal => st.mode = .normal ∨ st.mode = .skipBlank ∨ ∃ a, st.mode = .cmp a
  | .str => st.mode = .str
  | .strQ => st.mode = .strQ
  | .path => st.mode = .path
  | .pathQ => st.mode = .pathQ
  | .bracket => st.mode = .range
  | .err acc => st.mode = .error ∧ st.value = acc

/-- the scanner's open brackets against the tokenizer's stack: a parenthesis is one unmarked
    function / subexpression token, a brace is an `ARRAYROW` token on top of an `ARRAY` token -/
inductive StackSim : List Spec.Br → List Tok → Prop where
  | nil : StackSim [] []
  | paren {bs : List Spec.Br} {ts : List Tok} (t : Tok) : t.arr = .none →
      (t.ty = .function ∨ t.ty = .subexpression) → StackSim bs ts → StackSim (.paren :: bs) (t :: ts)
  | brace {bs : List Spec.Br} {ts : List Tok} (r a : Tok) : r.arr = .row → r.ty = .function →
      a.arr = .array → StackSim bs ts → StackSim (.brace :: bs) (r :: a :: ts)

def Sim (sc : Spec.Scan) (st : LexSt) : Prop := SimMode sc.mode st ∧ StackSim sc.stack st.stack

theorem errors_eq : errors = Spec.errTexts := rfl

theorem close_cons (st : LexSt) (t : Tok) (rest : List Tok) (h : st.stack = t :: rest) :
    st.close.mode = st.mode ∧ st.close.stack = rest ∧ st.close.value = st.value := by
  unfold LexSt.close
  simp [h]

theorem stackSim_ne_nil {d : List Spec.Br} {ts : List Tok} (h : StackSim d ts) (hd : d ≠ []) : ts ≠ [] := by
  cases h with
  | nil => exact absurd rfl hd
  | paren => simp
  | brace => simp

/-- the `,` handler replaces the top of the stack by a token of the same type and mark -/
theorem stackSim_retop {d : List Spec.Br} {t : Tok} {rest : List Tok} (h : StackSim d (t :: rest)) :
    StackSim d ((⟨[], t.ty, .stop, t.arr⟩ : Tok) :: rest) := by
  cases h with
  | paren _ h1 h2 h3 => exact .paren _ h1 h2 h3
  | brace _ a h1 h2 h3 h4 => exact .brace _ a h1 h2 h3 h4

theorem stackSim_brace_inv {bs : List Spec.Br} {l : List Tok} (h : StackSim (.brace :: bs) l) :
    ∃ r a ts, l = r :: a :: ts ∧ r.arr = .row ∧ r.ty = .function ∧ a.arr = .array ∧ StackSim bs ts := by
  cases h with
  | brace r a h1 h2 h3 h4 => exact ⟨r, a, _, rfl, h1, h2, h3, h4⟩

theorem stackSim_paren_inv {bs : List Spec.Br} {l : List Tok} (h : StackSim (.paren :: bs) l) :
    ∃ t ts, l = t :: ts ∧ t.arr = .none ∧ (t.ty = .function ∨ t.ty = .subexpression) ∧ StackSim bs ts := by
  cases h with
  | paren t h1 h2 h3 => exact ⟨t, _, rfl, h1, h2, h3⟩

/-- one character with all mode flags off -/
theorem stepNormal_sim (st : LexSt) (hm : st.mode = .normal) (d : List Spec.Br) (hst : StackSim d st.stack)
    (c : Char) (sc' : Spec.Scan)
    (h : Spec.scanNormal d c = some sc') : Sim sc' (stepNormal st c) := by
  unfold Spec.scanNormal at h
  by_cases c1 : c = '"'
  · subst c1; simp at h; subst h; rw [sn_dq]; exact ⟨by simp [SimMode], by simpa using hst⟩
  simp only [c1, if_false] at h
  by_cases c2 : c = '\''
  · subst c2; simp at h; subst h; rw [sn_sq]; exact ⟨by simp [SimMode], by simpa using hst⟩
  simp only [c2, if_false] at h
  by_cases c3 : c = '['
  · subst c3; simp at h; subst h; rw [sn_lb]; exact ⟨by simp [SimMode], by simpa using hst⟩
  simp only [c3, if_false] at h
  by_cases c4 : c = '#'
  · subst c4; simp at h; subst h; rw [sn_hash]; exact ⟨by simp [SimMode], by simpa using hst⟩
  simp only [c4, if_false] at h
  by_cases c5a : c = '{'
  · subst c5a; simp at h; subst h; rw [sn_lbrace]
    refine ⟨by simp [SimMode, hm], ?_⟩
    simp only [open_stack, flush_stack]
    exact .brace _ _ rfl rfl rfl hst
  simp only [c5a, if_false] at h
  by_cases c5b : c = ';'
  · subst c5b
    simp only [if_true] at h
    cases d with
    | nil => simp at h
    | cons b bs =>
    cases b with
    | paren => simp at h
    | brace =>
      obtain ⟨r, a, ts, hs, h1, h2, h3, h4⟩ := stackSim_brace_inv hst
      simp at h; subst h
      rw [sn_semi]
      obtain ⟨k1, k2, _⟩ := close_cons (st.flush .operand) r (a :: ts) (by simpa using hs)
      have hnd : ¬ (st.flush .operand).close.mode = .dead := by rw [k1]; simp [hm]
      simp only [hnd, if_false]
      refine ⟨by simp [SimMode, k1, hm], ?_⟩
      simp only [open_stack, push_stack, k2]
      exact .brace _ _ rfl rfl h3 h4
  simp only [c5b, if_false] at h
  by_cases c5c : c = '}'
  · subst c5c
    simp only [if_true] at h
    cases d with
    | nil => simp at h
    | cons b bs =>
    cases b with
    | paren => simp at h
    | brace =>
      obtain ⟨r, a, ts, hs, h1, h2, h3, h4⟩ := stackSim_brace_inv hst
      simp at h; subst h
      rw [sn_rbrace]
      obtain ⟨k1, k2, _⟩ := close_cons (st.flush .operand) r (a :: ts) (by simpa using hs)
      have hnd : ¬ (st.flush .operand).close.mode = .dead := by rw [k1]; simp [hm]
      simp only [hnd, if_false]
      obtain ⟨m1, m2, _⟩ := close_cons ((st.flush .operand).close) a ts k2
      exact ⟨by simp [SimMode, m1, k1, hm], by rw [m2]; exact h4⟩
  simp only [c5c, if_false] at h
  by_cases c6 : c = '('
  · subst c6; simp at h; subst h; rw [sn_lp]
    by_cases hv : st.value = []
    · simp only [hv, if_true]
      exact ⟨by simp [SimMode, hm], by simpa using StackSim.paren _ rfl (Or.inr rfl) hst⟩
    · simp only [hv, if_false]
      exact ⟨by simp [SimMode, hm], by simpa using StackSim.paren _ rfl (Or.inl rfl) hst⟩
  simp only [c6, if_false] at h
  by_cases c7 : c = ')'
  · subst c7
    simp only [if_true] at h
    cases d with
    | nil => simp at h
    | cons b bs =>
    cases b with
    | brace => simp at h
    | paren =>
      obtain ⟨t, ts, hs, h1, h2, h3⟩ := stackSim_paren_inv hst
      simp at h; subst h
      rw [sn_rp]
      obtain ⟨k1, k2, _⟩ := close_cons (st.flush .operand) t ts (by simpa using hs)
      exact ⟨by simp [SimMode, k1, hm], by rw [k2]; exact h3⟩
  simp only [c7, if_false] at h
  by_cases c8 : c = ','
  · subst c8
    simp only [if_true] at h
    by_cases hd : d = []
    · simp [hd] at h
    · simp only [hd, if_false] at h
      injection h with h; subst h
      rw [sn_comma]
      cases hs : st.stack with
      | nil => exact absurd hs (stackSim_ne_nil hst hd)
      | cons t rest =>
        simp only [flush_stack, hs]
        rw [hs] at hst
        have hre := stackSim_retop hst
        by_cases hf : t.ty = .function
        · simp only [hf, if_true]; rw [hf] at hre
          exact ⟨by simp [SimMode, hm], by simpa using hre⟩
        · simp only [hf, if_false]
          exact ⟨by simp [SimMode, hm], by simpa using hre⟩
  simp only [c8, if_false] at h
  injection h with h; subst h
  -- the remaining characters: blank, comparators, infix, percent, plain
  by_cases c9 : c = ' '
  · subst c9; rw [sn_blank]; exact ⟨by simp [SimMode], by simpa using hst⟩
  by_cases c10 : c = '<'
  · subst c10; rw [sn_lt]; exact ⟨by simp [SimMode], by simpa using hst⟩
  by_cases c11 : c = '>'
  · subst c11; rw [sn_gt]; exact ⟨by simp [SimMode], by simpa using hst⟩
  by_cases c12 : isPlainInfix c = true
  · rw [sn_infix st c c12]; exact ⟨by simp [SimMode, hm], by simpa using hst⟩
  by_cases c13 : c = '%'
  · subst c13; rw [sn_pct]; exact ⟨by simp [SimMode, hm], by simpa using hst⟩
  have hsp : isSpecial c = false := by
    simp [isSpecial, c1, c2, c3, c4, c5a, c5b, c5c, c6, c7, c8, c9, c10, c11, c12, c13]
  rw [sn_other st c hsp]
  exact ⟨by simp [SimMode, hm], by simpa using hst⟩

theorem sim_not_dead (sc : Spec.Scan) (st : LexSt) (h : Sim sc st) : st.mode ≠ .dead := by
  intro hd
  obtain ⟨hm, _⟩ := h
  cases hsm : sc.mode <;> simp [SimMode, hsm, hd] at hm

theorem step_sim (sc : Spec.Scan) (st : LexSt) (hs : Sim sc st) (c : Char) (sc' : Spec.Scan)
    (h : Spec.scanStep sc c = some sc') : Sim sc' (step st c) := by
  obtain ⟨hm, hd⟩ := hs
  unfold Spec.scanStep at h
  cases hsm : sc.mode with
  | normal =>
    simp only [hsm] at h hm
    simp only [SimMode] at hm
    rcases hm with hm | hm | ⟨a, hm⟩
    · have e : step st c = stepNormal st c := by simp [step, hm]
      rw [e]; exact stepNormal_sim st hm _ hd c sc' h
    · by_cases hc : c = ' '
      · subst hc
        have e : step st ' ' = st := by simp [step, hm]
        rw [e]
        simp [Spec.scanNormal] at h; subst h
        exact ⟨by simp [SimMode, hm], hd⟩
      · have e : step st c = stepNormal { st with mode := .normal } c := by simp [step, hm, hc]
        rw [e]; exact stepNormal_sim { st with mode := .normal } rfl _ hd c sc' h
    · by_cases hmc : isMultiCmp a c = true
      · have e : step st c = { st.push ⟨[a, c], .opInfix, .logical, .none⟩ with mode := .normal } := by
          simp [step, hm, hmc]
        rw [e]
        have hc : c = '=' ∨ c = '>' := by
          simp only [isMultiCmp, Bool.or_eq_true, Bool.and_eq_true, decide_eq_true_eq] at hmc
          rcases hmc with (h | h) | h
          · exact Or.inl h.2
          · exact Or.inl h.2
          · exact Or.inr h.2
        rcases hc with hc | hc <;> subst hc <;> simp [Spec.scanNormal] at h <;> subst h <;>
          exact ⟨by simp [SimMode], by simpa using hd⟩
      · have e : step st c = stepNormal { st.push ⟨[a], .opInfix, .nothing, .none⟩ with mode := .normal } c := by
          simp [step, hm, hmc]
        rw [e]
        exact stepNormal_sim { st.push ⟨[a], .opInfix, .nothing, .none⟩ with mode := .normal } rfl _ hd c sc' h
  | str =>
    simp only [hsm] at h hm
    simp only [SimMode] at hm
    injection h with h; subst h
    by_cases hc : c = '"'
    · subst hc; exact ⟨by simp [SimMode, step, hm], by simp [step, hm, hd]⟩
    · exact ⟨by simp [SimMode, step, hm, hc], by simp [step, hm, hc, hd]⟩
  | strQ =>
    simp only [hsm] at h hm
    simp only [SimMode] at hm
    by_cases hc : c = '"'
    · subst hc
      simp at h; subst h
      exact ⟨by simp [SimMode, step, hm], by simp [step, hm, hd]⟩
    · simp only [hc, if_false] at h
      have e : step st c = stepNormal
          { st with toks := st.toks ++ [⟨st.value, .operand, .text, .none⟩], value := [], mode := .normal } c := by
        simp [step, hm, hc]
      rw [e]
      exact stepNormal_sim
        { st with toks := st.toks ++ [⟨st.value, .operand, .text, .none⟩], value := [], mode := .normal } rfl _ hd c sc' h
  | path =>
    simp only [hsm] at h hm
    simp only [SimMode] at hm
    injection h with h; subst h
    by_cases hc : c = '\''
    · subst hc; exact ⟨by simp [SimMode, step, hm], by simp [step, hm, hd]⟩
    · exact ⟨by simp [SimMode, step, hm, hc], by simp [step, hm, hc, hd]⟩
  | pathQ =>
    simp only [hsm] at h hm
    simp only [SimMode] at hm
    by_cases hc : c = '\''
    · subst hc
      simp at h; subst h
      exact ⟨by simp [SimMode, step, hm], by simp [step, hm, hd]⟩
    · simp only [hc, if_false] at h
      have e : step st c = stepNormal { st with value := st.value ++ ['\''], mode := .normal } c := by
        simp [step, hm, hc]
      rw [e]
      exact stepNormal_sim { st with value := st.value ++ ['\''], mode := .normal } rfl _ hd c sc' h
  | bracket =>
    simp only [hsm] at h hm
    simp only [SimMode] at hm
    injection h with h; subst h
    by_cases hc : c = ']'
    · subst hc; exact ⟨by simp [SimMode, step, hm], by simp [step, hm, hd]⟩
    · exact ⟨by simp [SimMode, step, hm, hc], by simp [step, hm, hc, hd]⟩
  | err acc =>
    simp only [hsm] at h hm
    simp only [SimMode] at hm
    obtain ⟨hm, hv⟩ := hm
    injection h with h; subst h
    subst hv
    by_cases hc : st.value ++ [c] ∈ Spec.errTexts
    · have hc' : st.value ++ [c] ∈ errors := by rw [errors_eq]; exact hc
      exact ⟨by simp [SimMode, step, hm, hc, hc'], by simp [step, hm, hc', hd]⟩
    · have hc' : ¬ st.value ++ [c] ∈ errors := by rw [errors_eq]; exact hc
      exact ⟨by simp [SimMode, step, hm, hc, hc'], by simp [step, hm, hc', hd]⟩

theorem scan_sim (s : List Char) (sc : Spec.Scan) (st : LexSt) (hs : Sim sc st) (r : Spec.Scan)
    (h : Spec.scanFrom sc s = some r) : Sim r (s.foldl step st) := by
  induction s generalizing sc st with
  | nil => simp [Spec.scanFrom] at h; subst h; exact hs
  | cons c rest ih =>
    simp only [Spec.scanFrom] at h
    cases hstep : Spec.scanStep sc c with
    | none => simp [hstep] at h
    | some sc' =>
      simp only [hstep] at h
      exact ih sc' (step st c) (step_sim sc st hs c sc' hstep) h

theorem sim_init : Sim ⟨.normal, []⟩ {} := ⟨Or.inl rfl, .nil⟩

/-! ### pass 3 never panics on lexer output -/

/-- infix tokens made by pass 1 have a non-empty text and are never intersections -/
def okTok (t : Tok) : Prop := t.ty = .opInfix → (t.val ≠ [] ∧ t.sub ≠ .intersection)
def AllOk (l : List Tok) : Prop := ∀ t ∈ l, okTok t

theorem allOk_append (l : List Tok) (t : Tok) (h : AllOk l) (ht : okTok t) : AllOk (l ++ [t]) := by
  intro x hx
  simp at hx
  rcases hx with hx | hx
  · exact h x hx
  · subst hx; exact ht

theorem allOk_flush (st : LexSt) (ty : TT) (hty : ty ≠ .opInfix) (h : AllOk st.toks) :
    AllOk (st.flush ty).toks := by
  unfold LexSt.flush
  split
  · exact h
  · exact allOk_append _ _ h (by intro h1; exact absurd h1 hty)

theorem allOk_close (st : LexSt) (hs : ∀ t ∈ st.stack, t.ty = .function ∨ t.ty = .subexpression)
    (h : AllOk st.toks) : AllOk st.close.toks := by
  unfold LexSt.close
  cases hst : st.stack with
  | nil => exact h
  | cons t rest =>
    apply allOk_append _ _ h
    intro h1
    have := hs t (by simp [hst])
    simp at h1
    rcases this with h2 | h2 <;> rw [h2] at h1 <;> cases h1

theorem close_stack_inv (st : LexSt) (hs : ∀ t ∈ st.stack, t.ty = .function ∨ t.ty = .subexpression) :
    ∀ t ∈ st.close.stack, t.ty = .function ∨ t.ty = .subexpression := by
  unfold LexSt.close
  cases hst : st.stack with
  | nil => simpa [hst] using hs
  | cons t rest =>
    intro x hx
    exact hs x (by rw [hst]; exact List.mem_cons_of_mem _ hx)

theorem stepNormal_allOk (st : LexSt) (hs : ∀ t ∈ st.stack, t.ty = .function ∨ t.ty = .subexpression)
    (h : AllOk st.toks) (c : Char) : AllOk (stepNormal st c).toks := by
  have fu := allOk_flush st .unknown (by decide) h
  have fo := allOk_flush st .operand (by decide) h
  have hsf : ∀ t ∈ (st.flush .operand).stack, t.ty = .function ∨ t.ty = .subexpression := by simpa using hs
  by_cases hsp : isSpecial c = false
  · rw [sn_other st c hsp]; exact h
  · have : isSpecial c = true := by
      cases h : isSpecial c
      · exact absurd h hsp
      · rfl
    simp only [isSpecial, Bool.or_eq_true, decide_eq_true_eq] at this
    rcases this with (((((((((((((hc | hc) | hc) | hc) | hc) | hc) | hc) | hc) | hc) | hc) | hc) | hc) | hc) | hc) | hc
    · subst hc; rw [sn_dq]; exact fu
    · subst hc; rw [sn_sq]; exact fu
    · subst hc; rw [sn_lb]; exact h
    · subst hc; rw [sn_hash]; exact fu
    · subst hc; rw [sn_lbrace]
      exact allOk_append _ _ (allOk_append _ _ fu (by intro h1; cases h1)) (by intro h1; cases h1)
    · subst hc; rw [sn_semi]
      split
      · exact allOk_close _ hsf fo
      · exact allOk_append _ _ (allOk_append _ _ (allOk_close _ hsf fo) (by intro h1; cases h1))
          (by intro h1; cases h1)
    · subst hc; rw [sn_rbrace]
      split
      · exact allOk_close _ hsf fo
      · exact allOk_close _ (close_stack_inv _ hsf) (allOk_close _ hsf fo)
    · subst hc; rw [sn_blank]; exact allOk_append _ _ fo (by intro h1; cases h1)
    · subst hc; rw [sn_lt]; exact fo
    · subst hc; rw [sn_gt]; exact fo
    · rw [sn_infix st c hc]; exact allOk_append _ _ fo (by intro _; exact ⟨by simp, by simp⟩)
    · subst hc; rw [sn_pct]; exact allOk_append _ _ fo (by intro h1; cases h1)
    · subst hc; rw [sn_lp]
      split
      · exact allOk_append _ _ h (by intro h1; cases h1)
      · exact allOk_append _ _ h (by intro h1; cases h1)
    · subst hc; rw [sn_comma]
      cases hst : (st.flush .operand).stack with
      | nil => exact fo
      | cons t rest =>
        simp only
        split
        · exact allOk_append _ _ fo (by intro _; exact ⟨by simp, by simp⟩)
        · exact allOk_append _ _ fo (by intro h1; cases h1)
    · subst hc; rw [sn_rp]; exact allOk_close _ hsf fo

theorem step_allOk (st : LexSt) (hi : Inv st) (h : AllOk st.toks) (c : Char) : AllOk (step st c).toks := by
  have hs := hi.2
  cases hm : st.mode with
  | dead => simpa [step, hm] using h
  | normal =>
    have e : step st c = stepNormal st c := by simp [step, hm]
    rw [e]; exact stepNormal_allOk st hs h c
  | skipBlank =>
    by_cases hc : c = ' '
    · have e : step st c = st := by simp [step, hm, hc]
      rw [e]; exact h
    · have e : step st c = stepNormal { st with mode := .normal } c := by simp [step, hm, hc]
      rw [e]; exact stepNormal_allOk { st with mode := .normal } hs h c
  | cmp a =>
    by_cases hmc : isMultiCmp a c = true
    · have e : step st c = { st.push ⟨[a, c], .opInfix, .logical, .none⟩ with mode := .normal } := by
        simp [step, hm, hmc]
      rw [e]; exact allOk_append _ _ h (by intro _; exact ⟨by simp, by simp⟩)
    · have e : step st c = stepNormal { st.push ⟨[a], .opInfix, .nothing, .none⟩ with mode := .normal } c := by
        simp [step, hm, hmc]
      rw [e]
      exact stepNormal_allOk { st.push ⟨[a], .opInfix, .nothing, .none⟩ with mode := .normal } hs
        (allOk_append st.toks ⟨[a], .opInfix, .nothing, .none⟩ h (by intro _; exact ⟨by simp, by simp⟩)) c
  | str =>
    by_cases hc : c = '"' <;> simpa [step, hm, hc] using h
  | strQ =>
    by_cases hc : c = '"'
    · simpa [step, hm, hc] using h
    · have e : step st c = stepNormal
          { st with toks := st.toks ++ [⟨st.value, .operand, .text, .none⟩], value := [], mode := .normal } c := by
        simp [step, hm, hc]
      rw [e]
      exact stepNormal_allOk
        { st with toks := st.toks ++ [⟨st.value, .operand, .text, .none⟩], value := [], mode := .normal } hs
        (allOk_append st.toks ⟨st.value, .operand, .text, .none⟩ h (by intro h1; cases h1)) c
  | path =>
    by_cases hc : c = '\'' <;> simpa [step, hm, hc] using h
  | pathQ =>
    by_cases hc : c = '\''
    · simpa [step, hm, hc] using h
    · have e : step st c = stepNormal { st with value := st.value ++ ['\''], mode := .normal } c := by
        simp [step, hm, hc]
      rw [e]; exact stepNormal_allOk { st with value := st.value ++ ['\''], mode := .normal } hs h c
  | range => simpa [step, hm] using h
  | error =>
    by_cases hv : st.value ++ [c] ∈ errors
    · have e : step st c = { st with toks := st.toks ++ [⟨st.value ++ [c], .operand, .error, .none⟩], value := [], mode := .normal } := by
        simp [step, hm, hv]
      rw [e]; exact allOk_append _ _ h (by intro h1; cases h1)
    · simpa [step, hm, hv] using h

theorem lex_allOk (s : List Char) (st : LexSt) (hi : Inv st) (h : AllOk st.toks)
    (hnd : (s.foldl step st).mode ≠ .dead) : AllOk (s.foldl step st).toks := by
  induction s generalizing st with
  | nil => exact h
  | cons c r ih =>
    simp only [List.foldl_cons] at hnd ⊢
    have h1 : (step st c).mode ≠ .dead := fun hd => hnd (foldl_dead r _ hd)
    exact ih (step st c) (step_out st c hi h1).2 (step_allOk st hi h c) hnd

theorem finish_allOk (st : LexSt) (h : AllOk st.toks) : AllOk (finish st).toks := by
  have tail : ∀ s1 : LexSt, AllOk s1.toks →
      AllOk (if s1.value = [] then s1 else { s1 with toks := s1.toks ++ [⟨s1.value, .operand, .nothing, .none⟩] }).toks := by
    intro s1 h1
    split
    · exact h1
    · exact allOk_append _ _ h1 (by intro h2; cases h2)
  unfold finish
  apply tail
  split
  · exact allOk_append st.toks ⟨st.value, .operand, .text, .none⟩ h (by intro h1; cases h1)
  · exact h
  · exact allOk_append st.toks _ h (by intro _; exact ⟨by simp, by simp⟩)
  · exact h

/-! ### array marks sit only on pseudo-function tokens and row separators -/

/-- only the pseudo-function tokens and the row separator of an array constant carry a mark:
    infix operators and operands made by pass 1 never do -/
def plainTok (t : Tok) : Prop := (t.ty = .opInfix ∨ t.ty = .operand) → t.arr = .none
def AllPlain (l : List Tok) : Prop := ∀ t ∈ l, plainTok t

theorem allPlain_append (l : List Tok) (t : Tok) (h : AllPlain l) (ht : plainTok t) : AllPlain (l ++ [t]) := by
  intro x hx
  simp at hx
  rcases hx with hx | hx
  · exact h x hx
  · subst hx; exact ht

theorem allPlain_flush (st : LexSt) (ty : TT) (hty : ty ≠ .opInfix) (h : AllPlain st.toks) :
    AllPlain (st.flush ty).toks := by
  unfold LexSt.flush
  split
  · exact h
  · exact allPlain_append _ _ h (by intro _; rfl)

theorem allPlain_close (st : LexSt) (hs : ∀ t ∈ st.stack, t.ty = .function ∨ t.ty = .subexpression)
    (h : AllPlain st.toks) : AllPlain st.close.toks := by
  unfold LexSt.close
  cases hst : st.stack with
  | nil => exact h
  | cons t rest =>
    apply allPlain_append _ _ h
    intro h1
    have := hs t (by simp [hst])
    simp at h1
    rcases this with h2 | h2 <;> rw [h2] at h1 <;> rcases h1 with h1 | h1 <;> cases h1

theorem stepNormal_allPlain (st : LexSt) (hs : ∀ t ∈ st.stack, t.ty = .function ∨ t.ty = .subexpression)
    (h : AllPlain st.toks) (c : Char) : AllPlain (stepNormal st c).toks := by
  have fu := allPlain_flush st .unknown (by decide) h
  have fo := allPlain_flush st .operand (by decide) h
  have hsf : ∀ t ∈ (st.flush .operand).stack, t.ty = .function ∨ t.ty = .subexpression := by simpa using hs
  by_cases hsp : isSpecial c = false
  · rw [sn_other st c hsp]; exact h
  · have : isSpecial c = true := by
      cases h : isSpecial c
      · exact absurd h hsp
      · rfl
    simp only [isSpecial, Bool.or_eq_true, decide_eq_true_eq] at this
    rcases this with (((((((((((((hc | hc) | hc) | hc) | hc) | hc) | hc) | hc) | hc) | hc) | hc) | hc) | hc) | hc) | hc
    · subst hc; rw [sn_dq]; exact fu
    · subst hc; rw [sn_sq]; exact fu
    · subst hc; rw [sn_lb]; exact h
    · subst hc; rw [sn_hash]; exact fu
    · subst hc; rw [sn_lbrace]
      exact allPlain_append _ _ (allPlain_append _ _ fu (by first | (intro _; rfl) | (intro h; rcases h with h | h <;> cases h))) (by first | (intro _; rfl) | (intro h; rcases h with h | h <;> cases h))
    · subst hc; rw [sn_semi]
      split
      · exact allPlain_close _ hsf fo
      · exact allPlain_append _ _ (allPlain_append _ _ (allPlain_close _ hsf fo) (by first | (intro _; rfl) | (intro h; rcases h with h | h <;> cases h)))
          (by first | (intro _; rfl) | (intro h; rcases h with h | h <;> cases h))
    · subst hc; rw [sn_rbrace]
      split
      · exact allPlain_close _ hsf fo
      · exact allPlain_close _ (close_stack_inv _ hsf) (allPlain_close _ hsf fo)
    · subst hc; rw [sn_blank]; exact allPlain_append _ _ fo (by first | (intro _; rfl) | (intro h; rcases h with h | h <;> cases h))
    · subst hc; rw [sn_lt]; exact fo
    · subst hc; rw [sn_gt]; exact fo
    · rw [sn_infix st c hc]; exact allPlain_append _ _ fo (by intro _; rfl)
    · subst hc; rw [sn_pct]; exact allPlain_append _ _ fo (by first | (intro _; rfl) | (intro h; rcases h with h | h <;> cases h))
    · subst hc; rw [sn_lp]
      split
      · exact allPlain_append _ _ h (by first | (intro _; rfl) | (intro h; rcases h with h | h <;> cases h))
      · exact allPlain_append _ _ h (by first | (intro _; rfl) | (intro h; rcases h with h | h <;> cases h))
    · subst hc; rw [sn_comma]
      cases hst : (st.flush .operand).stack with
      | nil => exact fo
      | cons t rest =>
        simp only
        split
        · exact allPlain_append _ _ fo (by intro _; rfl)
        · exact allPlain_append _ _ fo (by first | (intro _; rfl) | (intro h; rcases h with h | h <;> cases h))
    · subst hc; rw [sn_rp]; exact allPlain_close _ hsf fo

theorem step_allPlain (st : LexSt) (hi : Inv st) (h : AllPlain st.toks) (c : Char) : AllPlain (step st c).toks := by
  have hs := hi.2
  cases hm : st.mode with
  | dead => simpa [step, hm] using h
  | normal =>
    have e : step st c = stepNormal st c := by simp [step, hm]
    rw [e]; exact stepNormal_allPlain st hs h c
  | skipBlank =>
    by_cases hc : c = ' '
    · have e : step st c = st := by simp [step, hm, hc]
      rw [e]; exact h
    · have e : step st c = stepNormal { st with mode := .normal } c := by simp [step, hm, hc]
      rw [e]; exact stepNormal_allPlain { st with mode := .normal } hs h c
  | cmp a =>
    by_cases hmc : isMultiCmp a c = true
    · have e : step st c = { st.push ⟨[a, c], .opInfix, .logical, .none⟩ with mode := .normal } := by
        simp [step, hm, hmc]
      rw [e]; exact allPlain_append _ _ h (by intro _; rfl)
    · have e : step st c = stepNormal { st.push ⟨[a], .opInfix, .nothing, .none⟩ with mode := .normal } c := by
        simp [step, hm, hmc]
      rw [e]
      exact stepNormal_allPlain { st.push ⟨[a], .opInfix, .nothing, .none⟩ with mode := .normal } hs
        (allPlain_append st.toks ⟨[a], .opInfix, .nothing, .none⟩ h (by intro _; rfl)) c
  | str =>
    by_cases hc : c = '"' <;> simpa [step, hm, hc] using h
  | strQ =>
    by_cases hc : c = '"'
    · simpa [step, hm, hc] using h
    · have e : step st c = stepNormal
          { st with toks := st.toks ++ [⟨st.value, .operand, .text, .none⟩], value := [], mode := .normal } c := by
        simp [step, hm, hc]
      rw [e]
      exact stepNormal_allPlain
        { st with toks := st.toks ++ [⟨st.value, .operand, .text, .none⟩], value := [], mode := .normal } hs
        (allPlain_append st.toks ⟨st.value, .operand, .text, .none⟩ h (by first | (intro _; rfl) | (intro h; rcases h with h | h <;> cases h))) c
  | path =>
    by_cases hc : c = '\'' <;> simpa [step, hm, hc] using h
  | pathQ =>
    by_cases hc : c = '\''
    · simpa [step, hm, hc] using h
    · have e : step st c = stepNormal { st with value := st.value ++ ['\''], mode := .normal } c := by
        simp [step, hm, hc]
      rw [e]; exact stepNormal_allPlain { st with value := st.value ++ ['\''], mode := .normal } hs h c
  | range => simpa [step, hm] using h
  | error =>
    by_cases hv : st.value ++ [c] ∈ errors
    · have e : step st c = { st with toks := st.toks ++ [⟨st.value ++ [c], .operand, .error, .none⟩], value := [], mode := .normal } := by
        simp [step, hm, hv]
      rw [e]; exact allPlain_append _ _ h (by first | (intro _; rfl) | (intro h; rcases h with h | h <;> cases h))
    · simpa [step, hm, hv] using h

theorem lex_allPlain (s : List Char) (st : LexSt) (hi : Inv st) (h : AllPlain st.toks)
    (hnd : (s.foldl step st).mode ≠ .dead) : AllPlain (s.foldl step st).toks := by
  induction s generalizing st with
  | nil => exact h
  | cons c r ih =>
    simp only [List.foldl_cons] at hnd ⊢
    have h1 : (step st c).mode ≠ .dead := fun hd => hnd (foldl_dead r _ hd)
    exact ih (step st c) (step_out st c hi h1).2 (step_allPlain st hi h c) hnd

theorem finish_allPlain (st : LexSt) (h : AllPlain st.toks) : AllPlain (finish st).toks := by
  have tail : ∀ s1 : LexSt, AllPlain s1.toks →
      AllPlain (if s1.value = [] then s1 else { s1 with toks := s1.toks ++ [⟨s1.value, .operand, .nothing, .none⟩] }).toks := by
    intro s1 h1
    split
    · exact h1
    · exact allPlain_append _ _ h1 (by intro _; rfl)
  unfold finish
  apply tail
  split
  · exact allPlain_append st.toks ⟨st.value, .operand, .text, .none⟩ h (by first | (intro _; rfl) | (intro h; rcases h with h | h <;> cases h))
  · exact h
  · exact allPlain_append st.toks _ h (by intro _; rfl)
  · exact h


/-! ### on scanned-clean input the echo only loses blanks -/

theorem closeText_row (r : Tok) (h1 : r.arr = .row) (h2 : r.ty = .function) : closeText r = [] := by
  simp [closeText, renderTok, h1, h2]

theorem closeText_array (a : Tok) (h : a.arr = .array) : closeText a = ['}'] := by
  simp [closeText, renderTok, h]

theorem closeText_paren (t : Tok) (h1 : t.arr = .none) (h2 : t.ty = .function ∨ t.ty = .subexpression) :
    closeText t = [')'] := by
  rcases h2 with h2 | h2 <;> simp [closeText, renderTok, h1, h2]

/-- when the scanner accepts the character, it contributes itself: `)` closes a parenthesis,
    `;` and `}` stand directly inside a brace -/
theorem scanNormal_emit (d : List Spec.Br) (stack : List Tok) (hst : StackSim d stack) (c : Char)
    (sc' : Spec.Scan) (h : Spec.scanNormal d c = some sc') : emitNormal stack c = [c] := by
  unfold Spec.scanNormal at h
  by_cases c5b : c = ';'
  · subst c5b
    cases d with
    | nil => simp at h
    | cons b bs =>
    cases b with
    | paren => simp at h
    | brace =>
      obtain ⟨r, a, ts, hs, h1, h2, h3, h4⟩ := stackSim_brace_inv hst
      subst hs
      simp [emitNormal, closeText_row r h1 h2]
  by_cases c5c : c = '}'
  · subst c5c
    cases d with
    | nil => simp at h
    | cons b bs =>
    cases b with
    | paren => simp at h
    | brace =>
      obtain ⟨r, a, ts, hs, h1, h2, h3, h4⟩ := stackSim_brace_inv hst
      subst hs
      simp [emitNormal, closeText_row r h1 h2, closeText_array a h3]
  by_cases c7 : c = ')'
  · subst c7
    cases d with
    | nil => simp at h
    | cons b bs =>
    cases b with
    | brace => simp at h
    | paren =>
      obtain ⟨t, ts, hs, h1, h2, h3⟩ := stackSim_paren_inv hst
      subst hs
      simp [emitNormal, closeText_paren t h1 h2]
  exact emitNormal_plain stack c c5b c5c c7

theorem emit_sim (sc : Spec.Scan) (st : LexSt) (hs : Sim sc st) (c : Char) (sc' : Spec.Scan)
    (h : Spec.scanStep sc c = some sc') :
    emit st c = [c] ∨ (c = ' ' ∧ emit st c = []) := by
  obtain ⟨hm, hd⟩ := hs
  unfold Spec.scanStep at h
  cases hsm : sc.mode with
  | normal =>
    simp only [hsm] at h hm
    have hp := scanNormal_emit _ _ hd c sc' h
    simp only [SimMode] at hm
    rcases hm with hm | hm | ⟨a, hm⟩
    · left; simp [emit, hm, hp]
    · by_cases hc : c = ' '
      · right; simp [emit, hm, hc]
      · left; simp [emit, hm, hc, hp]
    · left; by_cases hmc : isMultiCmp a c = true <;> simp [emit, hm, hmc, hp]
  | str => simp only [hsm, SimMode] at hm; left; simp [emit, hm]
  | strQ =>
    simp only [hsm, SimMode] at hm h
    by_cases hc : c = '"'
    · left; simp [emit, hm, hc]
    · simp only [hc, if_false] at h
      left; simp [emit, hm, hc, scanNormal_emit _ _ hd c sc' h]
  | path => simp only [hsm, SimMode] at hm; left; simp [emit, hm]
  | pathQ =>
    simp only [hsm, SimMode] at hm h
    by_cases hc : c = '\''
    · left; simp [emit, hm, hc]
    · simp only [hc, if_false] at h
      left; simp [emit, hm, hc, scanNormal_emit _ _ hd c sc' h]
  | bracket => simp only [hsm, SimMode] at hm; left; simp [emit, hm]
  | err acc => simp only [hsm, SimMode] at hm; left; simp [emit, hm.1]

theorem echo_erasure_clean (s : List Char) (sc : Spec.Scan) (st : LexSt) (hs : Sim sc st) (r : Spec.Scan)
    (h : Spec.scanFrom sc s = some r) : BlankErasure s (echo st s) := by
  induction s generalizing sc st with
  | nil => exact .nil
  | cons c rest ih =>
    simp only [Spec.scanFrom] at h
    cases hstep : Spec.scanStep sc c with
    | none => simp [hstep] at h
    | some sc' =>
      simp only [hstep] at h
      have := ih sc' (step st c) (step_sim sc st hs c sc' hstep) h
      rcases emit_sim sc st hs c sc' hstep with h1 | ⟨h1, h2⟩
      · rw [echo, h1]; exact .keep c this
      · subst h1; rw [echo, h2]; exact .drop this

end Umya.Formula
