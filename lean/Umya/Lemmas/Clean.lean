/-
  The lexer simulates the independent scanner `Spec.scan`: on scanned-clean input the stack is
  never popped when empty (no panic), and the modes correspond.
-/
import Umya.Lemmas.Lex
import Umya.Spec.Refs
namespace Umya.Formula
open Umya.Coord Umya.Dec

def SimMode (m : Spec.SMode) (st : LexSt) : Prop :=
  match m with
  | .normal => st.mode = .normal ∨ st.mode = .skipBlank ∨ ∃ a, st.mode = .cmp a
  | .str => st.mode = .str
  | .strQ => st.mode = .strQ
  | .path => st.mode = .path
  | .pathQ => st.mode = .pathQ
  | .bracket => st.mode = .range
  | .err acc => st.mode = .error ∧ st.value = acc

def Sim (sc : Spec.Scan) (st : LexSt) : Prop := SimMode sc.mode st ∧ sc.depth = st.stack.length

theorem errors_eq : errors = Spec.errTexts := rfl

theorem close_len (st : LexSt) (h : st.stack ≠ []) :
    st.close.mode = st.mode ∧ st.close.stack.length + 1 = st.stack.length ∧ st.close.value = st.value := by
  unfold LexSt.close
  cases hs : st.stack with
  | nil => exact absurd hs h
  | cons t rest => simp

/-- one character with all mode flags off -/
theorem stepNormal_sim (st : LexSt) (hm : st.mode = .normal) (c : Char) (sc' : Spec.Scan)
    (h : Spec.scanNormal st.stack.length c = some sc') : Sim sc' (stepNormal st c) := by
  unfold Spec.scanNormal at h
  by_cases c1 : c = '"'
  · subst c1; simp at h; subst h; rw [sn_dq]; exact ⟨by simp [SimMode], by simp⟩
  simp only [c1, if_false] at h
  by_cases c2 : c = '\''
  · subst c2; simp at h; subst h; rw [sn_sq]; exact ⟨by simp [SimMode], by simp⟩
  simp only [c2, if_false] at h
  by_cases c3 : c = '['
  · subst c3; simp at h; subst h; rw [sn_lb]; exact ⟨by simp [SimMode], by simp⟩
  simp only [c3, if_false] at h
  by_cases c4 : c = '#'
  · subst c4; simp at h; subst h; rw [sn_hash]; exact ⟨by simp [SimMode], by simp⟩
  simp only [c4, if_false] at h
  by_cases c5 : (c = '{' || c = ';' || c = '}') = true
  · simp [c5] at h
  simp only [c5, if_false] at h
  simp only [Bool.or_eq_true, decide_eq_true_eq, not_or] at c5
  by_cases c6 : c = '('
  · subst c6; simp at h; subst h; rw [sn_lp]
    by_cases hv : st.value = [] <;> simp [hv, Sim, SimMode, hm]
  simp only [c6, if_false] at h
  by_cases c7 : c = ')'
  · subst c7
    simp only [if_true] at h
    by_cases hd : st.stack.length = 0
    · simp [hd] at h
    · simp only [hd, if_false] at h
      injection h with h; subst h
      rw [sn_rp]
      have hne : (st.flush .operand).stack ≠ [] := by
        simp only [flush_stack]; intro e; simp [e] at hd
      obtain ⟨h1, h2, _⟩ := close_len (st.flush .operand) hne
      refine ⟨by simp [SimMode, h1, hm], ?_⟩
      simp only [flush_stack] at h2
      simp; omega
  simp only [c7, if_false] at h
  by_cases c8 : c = ','
  · subst c8
    simp only [if_true] at h
    by_cases hd : st.stack.length = 0
    · simp [hd] at h
    · simp only [hd, if_false] at h
      injection h with h; subst h
      rw [sn_comma]
      cases hst : st.stack with
      | nil => simp [hst] at hd
      | cons t rest =>
        simp only [flush_stack, hst]
        by_cases hf : t.ty = .function <;> simp [hf, Sim, SimMode, hm]
  simp only [c8, if_false] at h
  injection h with h; subst h
  -- the remaining characters: blank, comparators, infix, percent, plain
  by_cases c9 : c = ' '
  · subst c9; rw [sn_blank]; exact ⟨by simp [SimMode], by simp⟩
  by_cases c10 : c = '<'
  · subst c10; rw [sn_lt]; exact ⟨by simp [SimMode], by simp⟩
  by_cases c11 : c = '>'
  · subst c11; rw [sn_gt]; exact ⟨by simp [SimMode], by simp⟩
  by_cases c12 : isPlainInfix c = true
  · rw [sn_infix st c c12]; exact ⟨by simp [SimMode, hm], by simp⟩
  by_cases c13 : c = '%'
  · subst c13; rw [sn_pct]; exact ⟨by simp [SimMode, hm], by simp⟩
  have hsp : isSpecial c = false := by
    simp [isSpecial, c1, c2, c3, c4, c5.1.1, c5.1.2, c5.2, c6, c7, c8, c9, c10, c11, c12, c13]
  rw [sn_other st c hsp]
  exact ⟨by simp [SimMode, hm], by simp⟩

theorem sim_not_dead (sc : Spec.Scan) (st : LexSt) (h : Sim sc st) : st.mode ≠ .dead := by
  intro hd
  obtain ⟨hm, _⟩ := h
  cases hsm : sc.mode <;> simp [SimMode, hsm, hd] at hm

theorem step_sim (sc : Spec.Scan) (st : LexSt) (hs : Sim sc st) (c : Char) (sc' : Spec.Scan)
    (h : Spec.scanStep sc c = some sc') : Sim sc' (step st c) := by
  obtain ⟨hm, hd⟩ := hs
  unfold Spec.scanStep at h
  cases hsm : sc.mode with
  | normal =>
    simp only [hsm] at h hm
    rw [hd] at h
    simp only [SimMode] at hm
    rcases hm with hm | hm | ⟨a, hm⟩
    · have e : step st c = stepNormal st c := by simp [step, hm]
      rw [e]; exact stepNormal_sim st hm c sc' h
    · by_cases hc : c = ' '
      · subst hc
        have e : step st ' ' = st := by simp [step, hm]
        rw [e]
        simp [Spec.scanNormal] at h; subst h
        exact ⟨by simp [SimMode, hm], rfl⟩
      · have e : step st c = stepNormal { st with mode := .normal } c := by simp [step, hm, hc]
        rw [e]; exact stepNormal_sim { st with mode := .normal } rfl c sc' h
    · by_cases hmc : isMultiCmp a c = true
      · have e : step st c = { st.push ⟨[a, c], .opInfix, .logical⟩ with mode := .normal } := by
          simp [step, hm, hmc]
        rw [e]
        have hc : c = '=' ∨ c = '>' := by
          simp only [isMultiCmp, Bool.or_eq_true, Bool.and_eq_true, decide_eq_true_eq] at hmc
          rcases hmc with (h | h) | h
          · exact Or.inl h.2
          · exact Or.inl h.2
          · exact Or.inr h.2
        rcases hc with hc | hc <;> subst hc <;> simp [Spec.scanNormal] at h <;> subst h <;>
          exact ⟨by simp [SimMode], by simp⟩
      · have e : step st c = stepNormal { st.push ⟨[a], .opInfix, .nothing⟩ with mode := .normal } c := by
          simp [step, hm, hmc]
        rw [e]
        exact stepNormal_sim { st.push ⟨[a], .opInfix, .nothing⟩ with mode := .normal } rfl c sc' h
  | str =>
    simp only [hsm] at h hm
    simp only [SimMode] at hm
    injection h with h; subst h
    by_cases hc : c = '"'
    · subst hc; exact ⟨by simp [SimMode, step, hm], by simp [step, hm, hd]⟩
    · exact ⟨by simp [SimMode, step, hm, hc], by simp [step, hm, hc, hd]⟩
  | strQ =>
    simp only [hsm] at h hm
    simp only [SimMode] at hm
    by_cases hc : c = '"'
    · subst hc
      simp at h; subst h
      exact ⟨by simp [SimMode, step, hm], by simp [step, hm, hd]⟩
    · simp only [hc, if_false] at h
      have e : step st c = stepNormal
          { st with toks := st.toks ++ [⟨st.value, .operand, .text⟩], value := [], mode := .normal } c := by
        simp [step, hm, hc]
      rw [e]
      rw [hd] at h
      exact stepNormal_sim _ rfl c sc' h
  | path =>
    simp only [hsm] at h hm
    simp only [SimMode] at hm
    injection h with h; subst h
    by_cases hc : c = '\''
    · subst hc; exact ⟨by simp [SimMode, step, hm], by simp [step, hm, hd]⟩
    · exact ⟨by simp [SimMode, step, hm, hc], by simp [step, hm, hc, hd]⟩
  | pathQ =>
    simp only [hsm] at h hm
    simp only [SimMode] at hm
    by_cases hc : c = '\''
    · subst hc
      simp at h; subst h
      exact ⟨by simp [SimMode, step, hm], by simp [step, hm, hd]⟩
    · simp only [hc, if_false] at h
      have e : step st c = stepNormal { st with value := st.value ++ ['\''], mode := .normal } c := by
        simp [step, hm, hc]
      rw [e]
      rw [hd] at h
      exact stepNormal_sim _ rfl c sc' h
  | bracket =>
    simp only [hsm] at h hm
    simp only [SimMode] at hm
    injection h with h; subst h
    by_cases hc : c = ']'
    · subst hc; exact ⟨by simp [SimMode, step, hm], by simp [step, hm, hd]⟩
    · exact ⟨by simp [SimMode, step, hm, hc], by simp [step, hm, hc, hd]⟩
  | err acc =>
    simp only [hsm] at h hm
    simp only [SimMode] at hm
    obtain ⟨hm, hv⟩ := hm
    injection h with h; subst h
    subst hv
    by_cases hc : st.value ++ [c] ∈ Spec.errTexts
    · have hc' : st.value ++ [c] ∈ errors := by rw [errors_eq]; exact hc
      exact ⟨by simp [SimMode, step, hm, hc, hc'], by simp [step, hm, hc', hd]⟩
    · have hc' : ¬ st.value ++ [c] ∈ errors := by rw [errors_eq]; exact hc
      exact ⟨by simp [SimMode, step, hm, hc, hc'], by simp [step, hm, hc', hd]⟩

theorem scan_sim (s : List Char) (sc : Spec.Scan) (st : LexSt) (hs : Sim sc st) (r : Spec.Scan)
    (h : Spec.scanFrom sc s = some r) : Sim r (s.foldl step st) := by
  induction s generalizing sc st with
  | nil => simp [Spec.scanFrom] at h; subst h; exact hs
  | cons c rest ih =>
    simp only [Spec.scanFrom] at h
    cases hstep : Spec.scanStep sc c with
    | none => simp [hstep] at h
    | some sc' =>
      simp only [hstep] at h
      exact ih sc' (step st c) (step_sim sc st hs c sc' hstep) h

theorem sim_init : Sim ⟨.normal, 0⟩ {} := ⟨Or.inl rfl, rfl⟩

/-! ### pass 3 never panics on lexer output -/

/-- infix tokens made by pass 1 have a non-empty text and are never intersections -/
def okTok (t : Tok) : Prop := t.ty = .opInfix → (t.val ≠ [] ∧ t.sub ≠ .intersection)
def AllOk (l : List Tok) : Prop := ∀ t ∈ l, okTok t

theorem allOk_append (l : List Tok) (t : Tok) (h : AllOk l) (ht : okTok t) : AllOk (l ++ [t]) := by
  intro x hx
  simp at hx
  rcases hx with hx | hx
  · exact h x hx
  · subst hx; exact ht

theorem allOk_flush (st : LexSt) (ty : TT) (hty : ty ≠ .opInfix) (h : AllOk st.toks) :
    AllOk (st.flush ty).toks := by
  unfold LexSt.flush
  split
  · exact h
  · exact allOk_append _ _ h (by intro h1; exact absurd h1 hty)

theorem allOk_close (st : LexSt) (hs : ∀ t ∈ st.stack, t.ty = .function ∨ t.ty = .subexpression)
    (h : AllOk st.toks) : AllOk st.close.toks := by
  unfold LexSt.close
  cases hst : st.stack with
  | nil => exact h
  | cons t rest =>
    apply allOk_append _ _ h
    intro h1
    have := hs t (by simp [hst])
    simp at h1
    rcases this with h2 | h2 <;> rw [h2] at h1 <;> cases h1

theorem close_stack_inv (st : LexSt) (hs : ∀ t ∈ st.stack, t.ty = .function ∨ t.ty = .subexpression) :
    ∀ t ∈ st.close.stack, t.ty = .function ∨ t.ty = .subexpression := by
  unfold LexSt.close
  cases hst : st.stack with
  | nil => simpa [hst] using hs
  | cons t rest =>
    intro x hx
    exact hs x (by rw [hst]; exact List.mem_cons_of_mem _ hx)

theorem stepNormal_allOk (st : LexSt) (hs : ∀ t ∈ st.stack, t.ty = .function ∨ t.ty = .subexpression)
    (h : AllOk st.toks) (c : Char) : AllOk (stepNormal st c).toks := by
  have fu := allOk_flush st .unknown (by decide) h
  have fo := allOk_flush st .operand (by decide) h
  have hsf : ∀ t ∈ (st.flush .operand).stack, t.ty = .function ∨ t.ty = .subexpression := by simpa using hs
  by_cases hsp : isSpecial c = false
  · rw [sn_other st c hsp]; exact h
  · have : isSpecial c = true := by
      cases h : isSpecial c
      · exact absurd h hsp
      · rfl
    simp only [isSpecial, Bool.or_eq_true, decide_eq_true_eq] at this
    rcases this with (((((((((((((hc | hc) | hc) | hc) | hc) | hc) | hc) | hc) | hc) | hc) | hc) | hc) | hc) | hc) | hc
    · subst hc; rw [sn_dq]; exact fu
    · subst hc; rw [sn_sq]; exact fu
    · subst hc; rw [sn_lb]; exact h
    · subst hc; rw [sn_hash]; exact fu
    · subst hc; rw [sn_lbrace]
      exact allOk_append _ _ (allOk_append _ _ fu (by intro h1; cases h1)) (by intro h1; cases h1)
    · subst hc; rw [sn_semi]
      split
      · exact allOk_close _ hsf fo
      · exact allOk_append _ _ (allOk_append _ _ (allOk_close _ hsf fo) (by intro h1; cases h1))
          (by intro h1; cases h1)
    · subst hc; rw [sn_rbrace]
      split
      · exact allOk_close _ hsf fo
      · exact allOk_close _ (close_stack_inv _ hsf) (allOk_close _ hsf fo)
    · subst hc; rw [sn_blank]; exact allOk_append _ _ fo (by intro h1; cases h1)
    · subst hc; rw [sn_lt]; exact fo
    · subst hc; rw [sn_gt]; exact fo
    · rw [sn_infix st c hc]; exact allOk_append _ _ fo (by intro _; exact ⟨by simp, by simp⟩)
    · subst hc; rw [sn_pct]; exact allOk_append _ _ fo (by intro h1; cases h1)
    · subst hc; rw [sn_lp]
      split
      · exact allOk_append _ _ h (by intro h1; cases h1)
      · exact allOk_append _ _ h (by intro h1; cases h1)
    · subst hc; rw [sn_comma]
      cases hst : (st.flush .operand).stack with
      | nil => exact fo
      | cons t rest =>
        simp only
        split
        · exact allOk_append _ _ fo (by intro _; exact ⟨by simp, by simp⟩)
        · exact allOk_append _ _ fo (by intro h1; cases h1)
    · subst hc; rw [sn_rp]; exact allOk_close _ hsf fo

theorem step_allOk (st : LexSt) (hi : Inv st) (h : AllOk st.toks) (c : Char) : AllOk (step st c).toks := by
  have hs := hi.2
  cases hm : st.mode with
  | dead => simpa [step, hm] using h
  | normal =>
    have e : step st c = stepNormal st c := by simp [step, hm]
    rw [e]; exact stepNormal_allOk st hs h c
  | skipBlank =>
    by_cases hc : c = ' '
    · have e : step st c = st := by simp [step, hm, hc]
      rw [e]; exact h
    · have e : step st c = stepNormal { st with mode := .normal } c := by simp [step, hm, hc]
      rw [e]; exact stepNormal_allOk { st with mode := .normal } hs h c
  | cmp a =>
    by_cases hmc : isMultiCmp a c = true
    · have e : step st c = { st.push ⟨[a, c], .opInfix, .logical⟩ with mode := .normal } := by
        simp [step, hm, hmc]
      rw [e]; exact allOk_append _ _ h (by intro _; exact ⟨by simp, by simp⟩)
    · have e : step st c = stepNormal { st.push ⟨[a], .opInfix, .nothing⟩ with mode := .normal } c := by
        simp [step, hm, hmc]
      rw [e]
      exact stepNormal_allOk { st.push ⟨[a], .opInfix, .nothing⟩ with mode := .normal } hs
        (allOk_append st.toks ⟨[a], .opInfix, .nothing⟩ h (by intro _; exact ⟨by simp, by simp⟩)) c
  | str =>
    by_cases hc : c = '"' <;> simpa [step, hm, hc] using h
  | strQ =>
    by_cases hc : c = '"'
    · simpa [step, hm, hc] using h
    · have e : step st c = stepNormal
          { st with toks := st.toks ++ [⟨st.value, .operand, .text⟩], value := [], mode := .normal } c := by
        simp [step, hm, hc]
      rw [e]
      exact stepNormal_allOk
        { st with toks := st.toks ++ [⟨st.value, .operand, .text⟩], value := [], mode := .normal } hs
        (allOk_append st.toks ⟨st.value, .operand, .text⟩ h (by intro h1; cases h1)) c
  | path =>
    by_cases hc : c = '\'' <;> simpa [step, hm, hc] using h
  | pathQ =>
    by_cases hc : c = '\''
    · simpa [step, hm, hc] using h
    · have e : step st c = stepNormal { st with value := st.value ++ ['\''], mode := .normal } c := by
        simp [step, hm, hc]
      rw [e]; exact stepNormal_allOk { st with value := st.value ++ ['\''], mode := .normal } hs h c
  | range => simpa [step, hm] using h
  | error =>
    by_cases hv : st.value ++ [c] ∈ errors
    · have e : step st c = { st with toks := st.toks ++ [⟨st.value ++ [c], .operand, .error⟩], value := [], mode := .normal } := by
        simp [step, hm, hv]
      rw [e]; exact allOk_append _ _ h (by intro h1; cases h1)
    · simpa [step, hm, hv] using h

theorem lex_allOk (s : List Char) (st : LexSt) (hi : Inv st) (h : AllOk st.toks)
    (hnd : (s.foldl step st).mode ≠ .dead) : AllOk (s.foldl step st).toks := by
  induction s generalizing st with
  | nil => exact h
  | cons c r ih =>
    simp only [List.foldl_cons] at hnd ⊢
    have h1 : (step st c).mode ≠ .dead := fun hd => hnd (foldl_dead r _ hd)
    exact ih (step st c) (step_out st c hi h1).2 (step_allOk st hi h c) hnd

theorem finish_allOk (st : LexSt) (h : AllOk st.toks) : AllOk (finish st).toks := by
  have tail : ∀ s1 : LexSt, AllOk s1.toks →
      AllOk (if s1.value = [] then s1 else { s1 with toks := s1.toks ++ [⟨s1.value, .operand, .nothing⟩] }).toks := by
    intro s1 h1
    split
    · exact h1
    · exact allOk_append _ _ h1 (by intro h2; cases h2)
  unfold finish
  apply tail
  split
  · exact allOk_append st.toks ⟨st.value, .operand, .text⟩ h (by intro h1; cases h1)
  · exact h
  · exact allOk_append st.toks _ h (by intro _; exact ⟨by simp, by simp⟩)
  · exact h

/-! ### on scanned-clean input the echo only loses blanks -/

theorem scanNormal_noBrace (d : Nat) (c : Char) (sc' : Spec.Scan) (h : Spec.scanNormal d c = some sc') :
    emitNormal c = [c] := by
  unfold Spec.scanNormal at h
  by_cases hb : (c = '{' || c = ';' || c = '}') = true
  · have c1 : c ≠ '"' := by
      intro e; subst e; simp at hb
    have c2 : c ≠ '\'' := by intro e; subst e; simp at hb
    have c3 : c ≠ '[' := by intro e; subst e; simp at hb
    have c4 : c ≠ '#' := by intro e; subst e; simp at hb
    simp [c1, c2, c3, c4, hb] at h
  · simp only [Bool.or_eq_true, decide_eq_true_eq, not_or] at hb
    exact emitNormal_plain c hb.1.1 hb.1.2 hb.2

theorem emit_sim (sc : Spec.Scan) (st : LexSt) (hs : Sim sc st) (c : Char) (sc' : Spec.Scan)
    (h : Spec.scanStep sc c = some sc') :
    emit st.mode c = [c] ∨ (c = ' ' ∧ emit st.mode c = []) := by
  obtain ⟨hm, _⟩ := hs
  unfold Spec.scanStep at h
  cases hsm : sc.mode with
  | normal =>
    simp only [hsm] at h hm
    have hp := scanNormal_noBrace _ c sc' h
    simp only [SimMode] at hm
    rcases hm with hm | hm | ⟨a, hm⟩
    · left; simp [emit, hm, hp]
    · by_cases hc : c = ' '
      · right; simp [emit, hm, hc]
      · left; simp [emit, hm, hc, hp]
    · left; by_cases hmc : isMultiCmp a c = true <;> simp [emit, hm, hmc, hp]
  | str => simp only [hsm, SimMode] at hm; left; simp [emit, hm]
  | strQ =>
    simp only [hsm, SimMode] at hm h
    by_cases hc : c = '"'
    · left; simp [emit, hm, hc]
    · simp only [hc, if_false] at h
      left; simp [emit, hm, hc, scanNormal_noBrace _ c sc' h]
  | path => simp only [hsm, SimMode] at hm; left; simp [emit, hm]
  | pathQ =>
    simp only [hsm, SimMode] at hm h
    by_cases hc : c = '\''
    · left; simp [emit, hm, hc]
    · simp only [hc, if_false] at h
      left; simp [emit, hm, hc, scanNormal_noBrace _ c sc' h]
  | bracket => simp only [hsm, SimMode] at hm; left; simp [emit, hm]
  | err acc => simp only [hsm, SimMode] at hm; left; simp [emit, hm.1]

theorem echo_erasure_clean (s : List Char) (sc : Spec.Scan) (st : LexSt) (hs : Sim sc st) (r : Spec.Scan)
    (h : Spec.scanFrom sc s = some r) : BlankErasure s (echo st s) := by
  induction s generalizing sc st with
  | nil => exact .nil
  | cons c rest ih =>
    simp only [Spec.scanFrom] at h
    cases hstep : Spec.scanStep sc c with
    | none => simp [hstep] at h
    | some sc' =>
      simp only [hstep] at h
      have := ih sc' (step st c) (step_sim sc st hs c sc' hstep) h
      rcases emit_sim sc st hs c sc' hstep with h1 | ⟨h1, h2⟩
      · rw [echo, h1]; exact .keep c this
      · subst h1; rw [echo, h2]; exact .drop this

end Umya.Formula
