/-
  Helper lemmas for C03, style resolution: `get_style_by_cell_format` / `make_style` against the decoder's `styleTable`.
-/
import Umya.Lemmas.ReaderStyle4
namespace Umya.Reader.Lemmas
open Umya.Reader Umya.Spec.Xml Umya.Spec.Sml
open Umya.StyleCodec


/-! ## look-ups -/

theorem find?_reverse_unique {α : Type} (p : α → Bool) (l : List α) (h : (l.filter p).length ≤ 1) :
    l.reverse.find? p = l.find? p := by
  rw [← List.head?_filter, ← List.head?_filter, List.filter_reverse]
  cases hf : l.filter p with
  | nil => rfl
  | cons x r =>
    cases r with
    | nil => rfl
    | cons y r' => rw [hf] at h; simp at h

theorem filter_key_le_one (l : List (Nat × Text)) (id : Nat) (h : (l.map (·.1)).Nodup) :
    (l.filter (fun p => decide (p.1 = id))).length ≤ 1 := by
  induction l with
  | nil => simp
  | cons a r ih =>
    simp only [List.map_cons, List.nodup_cons] at h
    by_cases ha : a.1 = id
    · have : r.filter (fun p => decide (p.1 = id)) = [] := by
        rw [List.filter_eq_nil_iff]
        intro x hx hxid
        simp only [decide_eq_true_eq] at hxid
        exact h.1 (List.mem_map.mpr ⟨x, hx, by rw [hxid, ha]⟩)
      simp [List.filter_cons, ha, this]
    · simp only [List.filter_cons, ha, decide_false, Bool.false_eq_true, if_false]
      exact ih h.2

theorem filterMap_of_map_some {α β : Type} (f : α → Option β) :
    ∀ (l : List α) (ys : List β), l.map f = ys.map some → l.filterMap f = ys := by
  intro l
  induction l with
  | nil => intro ys h; cases ys with | nil => rfl | cons _ _ => simp at h
  | cons a r ih =>
    intro ys h
    cases ys with
    | nil => simp at h
    | cons y ys' =>
      simp only [List.map_cons, List.cons.injEq] at h
      simp only [List.filterMap_cons, h.1, ih ys' h.2]

/-- the number-format look-up: `HashMap::get` after the inserts = the decoder's `find?` in `<numFmts>` + the built-ins -/
theorem nfLookup_agrees (customs : List NumFmt) (nfs : List (Nat × Text))
    (hnf : customs.map (fun v => (v.id, v.code)) = nfs) (hnd : (nfs.map (·.1)).Nodup) (id : Nat)
    (hk : (nfs.any (fun p => decide (p.1 = id)) || (Umya.Style.builtin id).isSome) = true) :
    ∃ v, nfLookup customs id = some v ∧ v.id = id ∧
      (if v.builtIn then none else some v.code) = (nfs.find? (fun p => decide (p.1 = id))).map (·.2) := by
  have hu : (customs.filter (fun c => decide (c.id = id))).length ≤ 1 := by
    have := filter_key_le_one nfs id hnd
    rw [← hnf, List.filter_map, List.length_map] at this
    exact this
  have hfind : nfs.find? (fun p => decide (p.1 = id)) =
      (customs.find? (fun c => decide (c.id = id))).map (fun v => (v.id, v.code)) := by
    rw [← hnf, List.find?_map]; rfl
  unfold nfLookup
  rw [find?_reverse_unique _ _ hu, hfind]
  cases hc : customs.find? (fun c => decide (c.id = id)) with
  | some c => exact ⟨_, rfl, rfl, rfl⟩
  | none =>
    have hany : nfs.any (fun p => decide (p.1 = id)) = false := by
      rw [hc] at hfind
      simp only [Option.map_none] at hfind
      rw [List.any_eq_false]
      intro p hp hpid
      exact (List.find?_eq_none.mp hfind p hp) hpid
    rw [hany, Bool.false_or] at hk
    obtain ⟨code, hcode⟩ := Option.isSome_iff_exists.mp hk
    refine ⟨{ id := id, code := code, builtIn := true }, ?_, rfl, rfl⟩
    simp only [Umya.Style.NumFmt.ofId, hcode, Option.map_some]

/-! ## one xf -/

/-- the record `make_style` uses as `def_cell_format` carries no `apply*` flag (its alignment / protection child is
    not looked at any more) -/
def Neutral (d : XfR) : Prop :=
  d.applyNumFmt = none ∧ d.applyFont = none ∧ d.applyFill = none ∧ d.applyBorder = none ∧ d.applyAlignment = none ∧
  d.applyProtection = none

/-- ids inside their tables where the component is applied; an applied number-format id is defined in `<numFmts>`
    or is one of the built-in ids (the library's table, regenerated from the source) -/
def xfInRange (nfs : List (Nat × Text)) (nFonts nFills nBorders : Nat) (xn : Node) : Bool :=
  (!applied xn "applyFont" || decide (((xn.attr? "fontId".toList).bind natOf).getD 0 < nFonts)) &&
  (!applied xn "applyFill" || decide (((xn.attr? "fillId".toList).bind natOf).getD 0 < nFills)) &&
  (!applied xn "applyBorder" || decide (((xn.attr? "borderId".toList).bind natOf).getD 0 < nBorders)) &&
  (!applied xn "applyNumberFormat" ||
    (nfs.any (fun p => decide (p.1 = ((xn.attr? "numFmtId".toList).bind natOf).getD 0)) ||
     (Umya.Style.builtin (((xn.attr? "numFmtId".toList).bind natOf).getD 0)).isSome))

theorem pick_agrees {α γ : Type} (l : List α) (m : List Node) (f : α → γ) (g : Node → γ) (h : l.map f = m.map g)
    (flag : Option Bool) (ap : Bool) (hflag : flag.getD true = ap) (i : Nat) (hr : (!ap || decide (i < m.length)) = true) :
    ∃ o, Umya.Style.pick flag l i = some o ∧ o.map f = (if ap then m[i]? else none).map g := by
  unfold Umya.Style.pick
  rw [hflag]
  cases ap with
  | false => exact ⟨none, rfl, rfl⟩
  | true =>
    simp only [Bool.not_true, Bool.false_or, decide_eq_true_eq] at hr
    have hb : m[i]? = some m[i] := List.getElem?_eq_getElem hr
    obtain ⟨a, ha, hfa⟩ := getElem?_of_map_eq l m f g h i _ hb
    refine ⟨some a, by simp [ha], ?_⟩
    simp only [if_true, hb, Option.map_some, hfa]

structure TablesAgree (cf : Tok → Tok) (t : StyleTables) (nfs : List (Nat × Text)) (fontNs fillNs borderNs : List Node) : Prop where
  fonts : t.fonts.map fontFacts = fontNs.map (fun n => cfFont cf (fontV n))
  fills : t.fills.map fillFacts = fillNs.map (fun n => cfFill cf (fillV n))
  borders : t.borders.map borderFacts = borderNs.map (fun n => cfBorder cf (borderV n))
  numFmts : t.numFmts.map (fun v => (v.id, v.code)) = nfs
  nodup : (nfs.map (·.1)).Nodup

/-- **one xf**: `get_style_by_cell_format` with a neutral `def_cell_format` yields the decoder's `xfV` -/
theorem resolve_agrees (cf : Tok → Tok) (t : StyleTables) (nfs : List (Nat × Text)) (fontNs fillNs borderNs : List Node)
    (ht : TablesAgree cf t nfs fontNs fillNs borderNs) (d x : XfR) (xn : Node) (hd : Neutral d) (hx : XfAgrees x xn)
    (hr : xfInRange nfs fontNs.length fillNs.length borderNs.length xn = true) :
    ∃ s, resolveXf t d x = some s ∧ styleFacts s = xfFacts cf (xfV nfs fontNs fillNs borderNs xn) := by
  obtain ⟨d1, d2, d3, d4, d5, d6⟩ := hd
  simp only [xfInRange, Bool.and_eq_true] at hr
  obtain ⟨⟨⟨r1, r2⟩, r3⟩, r4⟩ := hr
  rw [← hx.fontId] at r1; rw [← hx.fillId] at r2; rw [← hx.borderId] at r3; rw [← hx.numFmtId] at r4
  obtain ⟨fo, hfo, hfov⟩ := pick_agrees t.fonts fontNs fontFacts _ ht.fonts x.applyFont _ hx.aFont x.fontId r1
  obtain ⟨fi, hfi, hfiv⟩ := pick_agrees t.fills fillNs fillFacts _ ht.fills x.applyFill _ hx.aFill x.fillId r2
  obtain ⟨bo, hbo, hbov⟩ := pick_agrees t.borders borderNs borderFacts _ ht.borders x.applyBorder _ hx.aBorder x.borderId r3
  have fl : ∀ o : Option Bool, flagOf none o = o := fun o => by cases o <;> rfl
  unfold resolveXf
  simp only [d1, d2, d3, d4, d5, d6, fl, hfo, hfi, hbo]
  refine ⟨_, rfl, ?_⟩
  simp only [styleFacts, xfFacts, xfV, hx.aNumFmt, hx.aAlignment, hx.aProtection, ← hx.fontId, ← hx.fillId,
    ← hx.borderId, ← hx.numFmtId, hfov, hfiv, hbov]
  have hA : (if applied xn "applyAlignment" = true then x.alignment else none).map alignFacts =
      if applied xn "applyAlignment" = true then (xn.kid? "alignment").map alignV else none := by
    cases applied xn "applyAlignment" <;> simp [hx.alignment]
  have hP : (if applied xn "applyProtection" = true then x.protection else none).map protFacts =
      if applied xn "applyProtection" = true then (xn.kid? "protection").map protV else none := by
    cases applied xn "applyProtection" <;> simp [hx.protection]
  rw [hA, hP]
  cases hap : applied xn "applyNumberFormat" with
  | false => simp [Option.map_map]; exact ⟨rfl, rfl, rfl⟩
  | true =>
    rw [hap] at r4
    simp only [Bool.not_true, Bool.false_or] at r4
    obtain ⟨v, hv, hvid, hvc⟩ := nfLookup_agrees t.numFmts nfs ht.numFmts ht.nodup x.numFmtId r4
    simp only [if_true, hv, Option.map_some, Option.bind_some, hvid, hvc, Option.map_map]
    rfl

end Umya.Reader.Lemmas
