/-
  Helper lemmas for C19 (date/time built-in format codes, after fix d30eec7):
  * the checked conversion `excelToEpochSecondsChecked` returns, where it returns, the value of the
    unguarded computation `excelToEpochSeconds` (the one the C18 theorems are about), inside chrono's range;
  * `strftime` returns a text for every strftime string made of literals and modelled specifiers,
    for every date-time whose month is in 1..12 (`ofEpochSeconds` only produces such).
-/
import Umya.Model.Date
import Umya.Lemmas.Calendar
namespace Umya.Lemmas.DateFmt
open Umya.Date Umya.Dec Umya.Spec.Calendar Umya.Lemmas.Calendar Umya.Date.FloatOps

/-! ## the checked conversion -/

theorem tryUnits_some (unit n s : Int) (hu : 0 < unit) (h : tryUnits unit (clampI64 n) = some s) :
    s = n * unit ∧ -9223372036854775 ≤ s ∧ s ≤ 9223372036854775 := by
  unfold tryUnits i64? trySeconds at h
  unfold clampI64 at h
  split at h
  · -- clamped below: the product cannot pass the bound
    split at h
    · simp only [Option.bind_some] at h
      split at h
      · rename_i hb; omega
      · cases h
    · cases h
  · split at h
    · split at h
      · simp only [Option.bind_some] at h
        split at h
        · rename_i hb; omega
        · cases h
      · cases h
    · split at h
      · simp only [Option.bind_some] at h
        split at h
        · rename_i hb
          cases h
          exact ⟨rfl, hb.1, hb.2⟩
        · cases h
      · cases h

theorem checkedAddSigned_some (t d r : Int) (h : checkedAddSigned t d = some r) :
    r = t + d ∧ chronoMinSec ≤ r ∧ r ≤ chronoMaxSec := by
  unfold checkedAddSigned at h
  split at h
  · rename_i hb; cases h; exact ⟨rfl, hb.1, hb.2⟩
  · cases h

/-- Where `excel_to_date_time_object_checked` returns a value, it is the value of the unguarded sum
    `base + days + hours + minutes + seconds` (`excelToEpochSeconds`, the function of the C18 theorems),
    and it lies in chrono's range. -/
theorem checked_agrees {F : Type} [FloatOps F] (ts : F) (t : Int)
    (h : excelToEpochSecondsChecked ts = some t) :
    t = excelToEpochSeconds ts ∧ chronoMinSec ≤ t ∧ t ≤ chronoMaxSec := by
  unfold excelToEpochSecondsChecked at h
  simp only [bind, Option.bind_eq_some_iff] at h
  obtain ⟨d, hd, t1, ht1, hh, hhh, t2, ht2, mi, hmi, t3, ht3, s, hs, h⟩ := h
  obtain ⟨e1, _, _⟩ := tryUnits_some _ _ _ (by decide) hd
  obtain ⟨e2, _, _⟩ := tryUnits_some _ _ _ (by decide) hhh
  obtain ⟨e3, _, _⟩ := tryUnits_some _ _ _ (by decide) hmi
  obtain ⟨e4, _, _⟩ := tryUnits_some _ _ _ (by decide) hs
  obtain ⟨a1, _, _⟩ := checkedAddSigned_some _ _ _ ht1
  obtain ⟨a2, _, _⟩ := checkedAddSigned_some _ _ _ ht2
  obtain ⟨a3, _, _⟩ := checkedAddSigned_some _ _ _ ht3
  obtain ⟨a4, b4, c4⟩ := checkedAddSigned_some _ _ _ h
  refine ⟨?_, b4, c4⟩
  unfold excelToEpochSeconds splitSeconds
  simp only []
  omega

/-! ## `strftime` is total on well-formed strings -/

def dashOk (c : Char) : Bool := c == 'm' || c == 'd' || c == 'H' || c == 'I'

def plainOk (c : Char) : Bool :=
  c == 'Y' || c == 'y' || c == 'm' || c == 'd' || c == 'H' || c == 'I' || c == 'M' || c == 'S' ||
  c == 'B' || c == 'b' || c == 'A' || c == 'a' || c == 'P'

/-- the strftime string consists of literals and modelled specifiers, and the fuel suffices
    (same recursion as `strftime`) -/
def sfOk : List Char → Nat → Bool
  | [], _ => true
  | _, 0 => false
  | '%' :: '-' :: c :: r, fuel + 1 => dashOk c && sfOk r fuel
  | '%' :: c :: r, fuel + 1 => plainOk c && sfOk r fuel
  | ['%'], _ => false
  | _ :: r, fuel + 1 => sfOk r fuel

theorem nameAt_some (l : List String) (i : Int) (h0 : 0 ≤ i) (h1 : i.toNat < l.length) :
    ∃ s, nameAt l i = some s := by
  unfold nameAt
  rw [if_pos h0, List.getElem?_eq_getElem h1]
  exact ⟨_, rfl⟩

theorem specDash_some (dt : DateTime) (c : Char) (h : dashOk c = true) : ∃ s, specDash dt c = some s := by
  unfold specDash
  repeat' split
  all_goals first | exact ⟨_, rfl⟩ | skip
  rename_i h1 h2 h3 h4
  simp [dashOk, h1, h2, h3, h4] at h

theorem specPlain_some (dt : DateTime) (hm : 1 ≤ dt.month ∧ dt.month ≤ 12) (c : Char)
    (h : plainOk c = true) : ∃ s, specPlain dt c = some s := by
  have hmo : ∃ s, nameAt monthNames (dt.month - 1) = some s :=
    nameAt_some _ _ (by omega) (by simp only [monthNames, List.length_cons, List.length_nil]; omega)
  have hda : ∃ s, nameAt dayNames ((dt.dayNo + 4) % 7) = some s :=
    nameAt_some _ _ (by omega) (by simp only [dayNames, List.length_cons, List.length_nil]; omega)
  obtain ⟨mo, hmo⟩ := hmo
  obtain ⟨da, hda⟩ := hda
  simp only [plainOk, Bool.or_eq_true, beq_iff_eq] at h
  rcases h with (((((((((((( h | h) | h) | h) | h) | h) | h) | h) | h) | h) | h) | h) | h) <;> subst h <;>
    simp [specPlain, hmo, hda]

theorem strftime_some (dt : DateTime) (hm : 1 ≤ dt.month ∧ dt.month ≤ 12) :
    ∀ (sf : List Char) (fuel : Nat), sfOk sf fuel = true → ∃ s, strftime dt sf fuel = some s := by
  intro sf fuel
  fun_induction sfOk sf fuel with
  | case1 => intro _; exact ⟨[], by simp [strftime]⟩
  | case2 sf hne => intro h; cases h
  | case3 c r fuel ih =>
    intro h
    simp only [Bool.and_eq_true] at h
    obtain ⟨a, ha⟩ := specDash_some dt c h.1
    obtain ⟨b, hb⟩ := ih h.2
    exact ⟨a ++ b, by simp [strftime, ha, hb]⟩
  | case4 c r fuel hnd ih =>
    intro h
    simp only [Bool.and_eq_true] at h
    obtain ⟨a, ha⟩ := specPlain_some dt hm c h.1
    obtain ⟨b, hb⟩ := ih h.2
    have hc : c ≠ '-' := by
      intro e; subst e; exact absurd h.1 (by decide)
    exact ⟨a ++ b, by simp [strftime, ha, hb]⟩
  | case5 => intro h; cases h
  | case6 c r fuel h1 h2 h3 ih =>
    intro h
    obtain ⟨b, hb⟩ := ih h
    have hc : c ≠ '%' := by
      intro e; subst e
      cases r with
      | nil => exact h3 rfl rfl
      | cons c' r' => exact h2 c' r' rfl rfl
    exact ⟨c :: b, by simp [strftime, hb]⟩

theorem ofEpochSeconds_month (t : Int) :
    1 ≤ (ofEpochSeconds t).month ∧ (ofEpochSeconds t).month ≤ 12 := by
  have h := civilFromDays_valid (t / 86400)
  unfold ValidDate at h
  unfold ofEpochSeconds
  exact ⟨h.1, h.2.1⟩

end Umya.Lemmas.DateFmt
