/-
  A character outside production [2] `Char` of XML 1.0 that reaches the buffer unescaped makes the part
  ill-formed for the independent XML 1.0 reader: `parse` returns `none`.
-/
import Umya.Lemmas.XmlWriteLex
import Umya.Lemmas.CellBridge
namespace Umya.CellTree
open Umya.XmlWrite Umya.XmlEsc
open Umya.Spec.Xml (Node Attr Token parse lex lexGo flushText isXmlChar Mode)

theorem lexGo_bad_char (c : Char) (r : List Char) (hc : isXmlChar c = false) : lexGo (.text []) (c :: r) = none := by
  rw [lexGo]
  simp [hc]

theorem flushText_none (acc : List Char) : flushText acc none = none := by
  unfold flushText
  split
  · rfl
  · split <;> simp_all

/-- `<t>` + `write_text_node([c])` + `</t>` for a character `c` that is not an XML `Char` and that `escape` leaves
    alone: the characters written are not a well-formed XML 1.0 document -/
theorem parse_nonxml (c : Char) (hc : isXmlChar c = false) (hesc : escape [c] = [c]) :
    parse (renderDoc (.elem ['t'] [] [.text [c]])) = none := by
  have h : lex (renderDoc (.elem ['t'] [] [.text [c]])) = none := by
    unfold lex
    simp only [renderDoc, renderNode, renderKids, writeTextNode, writeEvent, hesc, writeNewLine, writeTextNodeNoEscape,
      newLineLit, List.append_nil, List.cons_append, List.nil_append]
    rw [lex_decl]
    rw [Umya.CellNode.lexGo_text_step [] '\r' _ (by decide) (by decide),
      Umya.CellNode.lexGo_text_step ['\r'] '\n' _ (by decide) (by decide),
      lex_startTag ['t'] [] false (by decide) (by decide)]
    rw [lexGo_bad_char c _ hc]
    simp [flushText_none]
  unfold parse
  rw [h]
  rfl

end Umya.CellTree
