/-
  Refinement of the concrete structural edits to the reference grid (cells).
-/
import Umya.Lemmas.Observers
import Umya.Spec.Grid
import Umya.Model.Book
namespace Umya.Sheet
open Umya.Coord (Res)

/-- the abstraction: what content (value token, style token) sits at (row, col) -/
def content (s : Sheet) : Umya.Spec.Grid.Grid (Nat × Nat) :=
  fun r c => (lookup (r, c) s.cells).map (fun x => (x.val, x.sty))

theorem lookup_map_inj (f : Key → Key) (g : CellM → CellM) (hf : ∀ a b, f a = f b → a = b)
    (l : List (Key × CellM)) (k : Key) :
    lookup (f k) (l.map (fun p => (f p.1, g p.2))) = (lookup k l).map g := by
  induction l with
  | nil => rfl
  | cons p r ih =>
    obtain ⟨k', c'⟩ := p
    simp only [List.map_cons, lookup]
    by_cases e : k' = k
    · subst e; simp
    · have : f k' ≠ f k := fun h => e (hf _ _ h)
      simp [e, this, ih]

theorem lookup_map_notin (f : Key → Key) (g : CellM → CellM) (l : List (Key × CellM)) (k : Key)
    (h : ∀ a, f a ≠ k) : lookup k (l.map (fun p => (f p.1, g p.2))) = none := by
  induction l with
  | nil => rfl
  | cons p r ih =>
    obtain ⟨k', c'⟩ := p
    simp only [List.map_cons, lookup]
    simp [h k', ih]

theorem lookup_filter_key (P : Key → Bool) (l : List (Key × CellM)) (k : Key) :
    lookup k (l.filter (fun p => P p.1)) = if P k then lookup k l else none := by
  induction l with
  | nil => simp [lookup]
  | cons p r ih =>
    obtain ⟨k', c'⟩ := p
    simp only [List.filter_cons]
    by_cases hp : P k' = true
    · simp only [hp, if_true, lookup]
      by_cases e : k' = k
      · subst e; simp [hp]
      · simp [e, ih]
    · simp only [hp, Bool.false_eq_true, if_false, lookup]
      by_cases e : k' = k
      · subst e; simp [hp, ih]
      · simp [e, ih]

/-- under coherence, the cells with their keys replaced by the cells' own coordinates are the same list -/
theorem cells_keyed_by_coord (s : Sheet) (h : Coherent s) (F : Key → CellM → Key × CellM) :
    s.cells.map (fun p => F (p.2.row, p.2.col) p.2) = s.cells.map (fun p => F p.1 p.2) := by
  apply List.map_congr_left
  intro p hp
  have := h.coord p hp
  rw [this.1, this.2]

/-! ### insert -/

theorem insertAdj_cells (s : Sheet) (h : Coherent s) (rc oc rr or_ : Nat) (hne : ¬ (oc = 0 ∧ or_ = 0)) :
    (insertAdj s rc oc rr or_).cells =
      s.cells.map (fun p => ((adjIns p.1.1 rr or_, adjIns p.1.2 rc oc),
        ({ p.2 with col := adjIns p.2.col rc oc, row := adjIns p.2.row rr or_ } : CellM))) := by
  unfold insertAdj
  simp only [hne, if_false, rebuild, List.map_map]
  apply List.map_congr_left
  intro p hp
  have := h.coord p hp
  simp [Function.comp, this.1, this.2]

theorem content_insertRows (s : Sheet) (h : Coherent s) (p n : Nat) (hn : n ≠ 0) :
    content (insertAdj s 0 0 p n) = Umya.Spec.Grid.insertRows (content s) p n := by
  funext r c
  have hne : ¬ ((0 : Nat) = 0 ∧ n = 0) := by omega
  simp only [content, insertAdj_cells s h 0 0 p n hne, Umya.Spec.Grid.insertRows]
  let f : Key → Key := fun k => (adjIns k.1 p n, adjIns k.2 0 0)
  let g : CellM → CellM := fun x => { x with col := adjIns x.col 0 0, row := adjIns x.row p n }
  have hf : ∀ a b, f a = f b → a = b := by
    intro a b hab
    simp only [f, Prod.mk.injEq] at hab
    exact Prod.ext (adjIns_inj _ _ _ _ hab.1) (adjIns_inj _ _ _ _ hab.2)
  have hmap : s.cells.map (fun q => ((adjIns q.1.1 p n, adjIns q.1.2 0 0),
        ({ q.2 with col := adjIns q.2.col 0 0, row := adjIns q.2.row p n } : CellM)))
      = s.cells.map (fun q => (f q.1, g q.2)) := rfl
  rw [hmap]
  by_cases h1 : r < p
  · have e : (r, c) = f (r, c) := by simp [f, adjIns]; omega
    rw [if_pos h1]
    conv => lhs; rw [e]
    rw [lookup_map_inj f g hf]
    cases lookup (r, c) s.cells <;> simp [g]
  · rw [if_neg h1]
    by_cases h2 : r < p + n
    · rw [if_pos h2]
      rw [lookup_map_notin f g]
      · rfl
      · intro a e
        simp only [f, Prod.mk.injEq, adjIns] at e
        have := e.1
        split at this <;> omega
    · rw [if_neg h2]
      have e : (r, c) = f (r - n, c) := by
        simp only [f, adjIns, Prod.mk.injEq]
        constructor
        · have : r - n ≥ p ∧ n ≠ 0 := ⟨by omega, hn⟩
          rw [if_pos this]; omega
        · simp
      conv => lhs; rw [e]
      rw [lookup_map_inj f g hf]
      cases lookup (r - n, c) s.cells <;> simp [g]

theorem content_insertCols (s : Sheet) (h : Coherent s) (p n : Nat) (hn : n ≠ 0) :
    content (insertAdj s p n 0 0) = Umya.Spec.Grid.insertCols (content s) p n := by
  funext r c
  have hne : ¬ (n = 0 ∧ (0 : Nat) = 0) := by omega
  simp only [content, insertAdj_cells s h p n 0 0 hne, Umya.Spec.Grid.insertCols]
  let f : Key → Key := fun k => (adjIns k.1 0 0, adjIns k.2 p n)
  let g : CellM → CellM := fun x => { x with col := adjIns x.col p n, row := adjIns x.row 0 0 }
  have hf : ∀ a b, f a = f b → a = b := by
    intro a b hab
    simp only [f, Prod.mk.injEq] at hab
    exact Prod.ext (adjIns_inj _ _ _ _ hab.1) (adjIns_inj _ _ _ _ hab.2)
  have hmap : s.cells.map (fun q => ((adjIns q.1.1 0 0, adjIns q.1.2 p n),
        ({ q.2 with col := adjIns q.2.col p n, row := adjIns q.2.row 0 0 } : CellM)))
      = s.cells.map (fun q => (f q.1, g q.2)) := rfl
  rw [hmap]
  by_cases h1 : c < p
  · have e : (r, c) = f (r, c) := by simp [f, adjIns]; omega
    rw [if_pos h1]
    conv => lhs; rw [e]
    rw [lookup_map_inj f g hf]
    cases lookup (r, c) s.cells <;> simp [g]
  · rw [if_neg h1]
    by_cases h2 : c < p + n
    · rw [if_pos h2]
      rw [lookup_map_notin f g]
      · rfl
      · intro a e
        simp only [f, Prod.mk.injEq, adjIns] at e
        have := e.2
        split at this <;> omega
    · rw [if_neg h2]
      have e : (r, c) = f (r, c - n) := by
        simp only [f, adjIns, Prod.mk.injEq]
        constructor
        · simp
        · have : c - n ≥ p ∧ n ≠ 0 := ⟨by omega, hn⟩
          rw [if_pos this]; omega
      conv => lhs; rw [e]
      rw [lookup_map_inj f g hf]
      cases lookup (r, c - n) s.cells <;> simp [g]

end Umya.Sheet
