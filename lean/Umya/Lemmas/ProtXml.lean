/-
  C15 — helper lemmas for lifting the protection records' save / reload to the characters of the part:
  the attribute list `render fs` of a field table is well formed for the XML writer (`wfAttrs`) when the attribute names
  are Names, pairwise distinct, and the texts consist of XML characters.
-/
import Umya.Lemmas.AnnotProt
import Umya.Lemmas.XmlDocChild
namespace Umya.AnnotCodec
open Umya.Spec.Xml (Node Attr isXmlChar)
open Umya.XmlWrite (wfAttrs wfName allXml)
open Umya.Dec

theorem render_names_sublist : ∀ fs : List (Text × Option Text), ((render fs).map (·.name)).Sublist (fs.map (·.1))
  | [] => List.Sublist.slnil
  | (k, none) :: r => by
    simpa [render] using (render_names_sublist r).cons k
  | (k, some v) :: r => by
    simpa [render] using (render_names_sublist r).cons_cons k

theorem wfAttrs_render (fs : List (Text × Option Text)) (hn : ∀ p ∈ fs, wfName p.1 = true)
    (hd : (fs.map (·.1)).Nodup) (hv : ∀ p ∈ fs, ∀ v, p.2 = some v → allXml v = true) : wfAttrs (render fs) = true := by
  simp only [wfAttrs, Bool.and_eq_true, decide_eq_true_eq, List.all_eq_true]
  refine ⟨?_, (render_names_sublist fs).nodup hd⟩
  intro a ha
  simp only [render, List.mem_filterMap] at ha
  obtain ⟨p, hp, hpa⟩ := ha
  cases hv2 : p.2 with
  | none => simp [hv2] at hpa
  | some v =>
    simp only [hv2, Option.map_some, Option.some.injEq] at hpa
    subst hpa
    exact ⟨hn p hp, hv p hp v hv2⟩

theorem allXml_decDigits (n : Nat) : allXml (decDigits n) = true := by
  have h := decDigits_all_digit n
  simp only [allXml, List.all_eq_true] at h ⊢
  intro c hc
  have := h c hc
  simp only [isDigit, Bool.and_eq_true, decide_eq_true_eq, ge_iff_le] at this
  simp only [isXmlChar, Bool.or_eq_true, Bool.and_eq_true, decide_eq_true_eq]
  omega

theorem allXml_boolStr (b : Bool) : allXml (boolStr b) = true := by cases b <;> decide

/-- no attribute of that name is written when the field has no value -/
theorem render_no_attr (fs : List (Text × Option Text)) (hnd : (fs.map (·.1)).Nodup) (k : Text)
    (h : (k, none) ∈ fs) : ∀ a ∈ render fs, a.name ≠ k := by
  have hg := getAttr_render fs hnd h
  intro a ha hk
  simp only [getAttr, Option.map_eq_none_iff, List.find?_eq_none] at hg
  have := hg a ha
  simp [hk] at this

end Umya.AnnotCodec
