import Umya.Model.Annot
import Umya.Lemmas.XmlEsc
import Umya.Lemmas.Coord
namespace Umya.Annot
open Umya.Coord Umya.Dec Umya.XmlEsc

/-! ### comments -/

theorem readAuthorsGo_author (a v : Text) (acc : List Text) (rest : List Ev) :
    readAuthorsGo true v acc (authorEvents a ++ rest) = readAuthorsGo true a (acc ++ [a]) rest := by
  unfold authorEvents
  cases a with
  | nil => simp [readAuthorsGo]
  | cons c s =>
    simp only [List.isEmpty_cons, Bool.false_eq_true, if_false, List.cons_append, List.nil_append, readAuthorsGo]
    rw [unescape_escape (c :: s)]

theorem readAuthorsGo_fixed (tbl : List Text) (v : Text) (acc : List Text) :
    readAuthorsGo true v acc (tbl.flatMap authorEvents) = .ok (acc ++ tbl) := by
  induction tbl generalizing v acc with
  | nil => simp [readAuthorsGo]
  | cons a r ih =>
    rw [List.flatMap_cons, readAuthorsGo_author, ih]; simp

theorem readAuthors_fixed (tbl : List Text) : readAuthors true tbl = .ok tbl := by
  simp [readAuthors, readAuthorsGo_fixed]

theorem position_get (a : Text) (tbl : List Text) (h : a ∈ tbl) :
    ∃ i, position a tbl = some i ∧ tbl[i]? = some a := by
  induction tbl with
  | nil => simp at h
  | cons x r ih =>
    by_cases hx : a = x
    · exact ⟨0, by simp [position, hx], by simp [hx]⟩
    · have hr : a ∈ r := by
        rcases List.mem_cons.1 h with e | e
        · exact absurd e hx
        · exact e
      obtain ⟨i, h1, h2⟩ := ih hr
      exact ⟨i + 1, by simp [position, hx, h1], by simpa using h2⟩

theorem readCmts_written (tbl : List Text) (cs : List Cmt) (h : ∀ c ∈ cs, c.author ∈ tbl) :
    readCmts tbl (cs.map (writeCmt tbl)) = .ok cs := by
  induction cs with
  | nil => rfl
  | cons c r ih =>
    obtain ⟨i, h1, h2⟩ := position_get c.author tbl (h c (by simp))
    have ihr := ih (fun c' hc' => h c' (List.mem_cons_of_mem _ hc'))
    simp only [List.map_cons, readCmts, ihr]
    simp [readCmt, writeCmt, h1, h2, attrRead_attrWrite]

/-! ### hyperlinks -/

theorem readElems_skip (xs : List Link) (k j : Nat) (t : Text) (R : List (Nat × Text)) (hj : j < k) :
    readElems ((j, t) :: R) (sheetWalk xs k) = readElems R (sheetWalk xs k) := by
  induction xs generalizing k with
  | nil => rfl
  | cons x xs ih =>
    simp only [sheetWalk]
    split
    · simp only [readElems, readElem, lookupRel]
      rw [if_neg (by omega), ih (k + 1) (by omega)]
    · simp only [readElems, readElem]
      rw [ih k hj]

theorem reloadLinks_id (ls : List Link) (k0 : Nat) : reloadLinks ls k0 = .ok ls := by
  unfold reloadLinks
  induction ls generalizing k0 with
  | nil => rfl
  | cons x xs ih =>
    obtain ⟨coord, ext, target, tip⟩ := x
    cases ext with
    | true =>
      simp only [sheetWalk, relsWalk, if_true, readElems]
      rw [readElems_skip xs (k0 + 1) k0 _ _ (by omega), ih (k0 + 1)]
      cases tip with
      | nil => simp [readElem, lookupRel, attrRead_attrWrite]
      | cons c r => simp [readElem, lookupRel, attrRead_attrWrite]
    | false =>
      simp only [sheetWalk, relsWalk, Bool.false_eq_true, if_false, readElems]
      rw [ih k0]
      cases tip with
      | nil => simp [readElem, attrRead_attrWrite]
      | cons c r => simp [readElem, attrRead_attrWrite]

theorem insertLink_perm (x : Link) (l : List Link) : (insertLink x l).Perm (x :: l) := by
  induction l with
  | nil => exact List.Perm.refl _
  | cons y ys ih =>
    simp only [insertLink]
    split
    · exact List.Perm.refl _
    · exact ((List.Perm.cons y ih).trans (List.Perm.swap x y ys))

theorem walkOrder_perm (ls : List Link) : (walkOrder ls).Perm ls := by
  induction ls with
  | nil => exact List.Perm.refl _
  | cons x xs ih =>
    simp only [walkOrder, List.foldr_cons]
    exact (insertLink_perm x _).trans (List.Perm.cons x ih)

end Umya.Annot

namespace Umya.Annot
open Umya.Coord Umya.Dec Umya.XmlEsc

/-! ### un-doubling of apostrophes: `str::replace("''", "'")` after `replace("'", "''")` -/

theorem replaceApos_cons (c : Char) (r : Text) :
    replaceApos (c :: r) = (if c = '\'' then ['\'', '\''] else [c]) ++ replaceApos r := by
  unfold replaceApos; rw [List.flatMap_cons]

theorem undouble_cons_ne (c : Char) (X : Text) (h : c ≠ '\'') : undouble (c :: X) = c :: undouble X := by
  cases X with
  | nil => simp [undouble]
  | cons d r => simp [undouble, h]

theorem undouble_apos_single (X : Text) (h : X.head? ≠ some '\'') :
    undouble ('\'' :: X) = '\'' :: undouble X := by
  cases X with
  | nil => simp [undouble]
  | cons d r =>
    have : d ≠ '\'' := by simpa using h
    simp [undouble, this]

theorem undouble_double (s t : Text) : undouble (replaceApos s ++ t) = s ++ undouble t := by
  induction s with
  | nil => simp [replaceApos]
  | cons c r ih =>
    rw [replaceApos_cons]
    by_cases hc : c = '\''
    · subst hc
      simp only [if_true, List.cons_append, List.nil_append, undouble, and_self]
      rw [ih]
    · simp only [hc, if_false, List.cons_append, List.nil_append]
      rw [undouble_cons_ne _ _ hc, ih]

theorem undouble_id (t : Text) (h : '\'' ∉ t) : undouble t = t := by
  induction t with
  | nil => rfl
  | cons c r ih =>
    have hc : c ≠ '\'' := by intro e; subst e; simp at h
    rw [undouble_cons_ne _ _ hc, ih (fun e => h (List.mem_cons_of_mem _ e))]

/-! ### `split_str` -/

def Plain (c : Char) : Prop := c ≠ '\'' ∧ c ≠ '(' ∧ c ≠ ')' ∧ c ≠ '"' ∧ c ≠ ','

theorem splitStep_plain (st : SplitSt) (c : Char) (h : Plain c) :
    splitStep st c = ⟨st.s, st.d, st.b, c :: st.cur, st.res⟩ := by
  obtain ⟨h1, h2, h3, h4, h5⟩ := h
  cases hs : st.s <;> simp [splitStep, h1, h2, h3, h4, h5, hs]

theorem splitStep_inq (st : SplitSt) (c : Char) (hs : st.s = true) (hc : c ≠ '\'') :
    splitStep st c = ⟨true, st.d, st.b, c :: st.cur, st.res⟩ := by
  simp [splitStep, hc, hs]

theorem splitStep_apos (st : SplitSt) :
    splitStep st '\'' = ⟨!st.s, st.d, st.b, '\'' :: st.cur, st.res⟩ := by
  simp [splitStep]

theorem fold_plain (l : Text) (st : SplitSt) (h : ∀ c ∈ l, Plain c) :
    l.foldl splitStep st = ⟨st.s, st.d, st.b, l.reverse ++ st.cur, st.res⟩ := by
  induction l generalizing st with
  | nil => simp
  | cons c r ih =>
    rw [List.foldl_cons, splitStep_plain _ _ (h c (by simp)), ih _ (fun c hc => h c (List.mem_cons_of_mem _ hc))]
    simp

theorem fold_quoted (n : Text) (st : SplitSt) (hs : st.s = true) :
    (replaceApos n).foldl splitStep st = ⟨true, st.d, st.b, (replaceApos n).reverse ++ st.cur, st.res⟩ := by
  induction n generalizing st with
  | nil => simp [replaceApos, ← hs]
  | cons c r ih =>
    rw [replaceApos_cons, List.foldl_append]
    by_cases hc : c = '\''
    · subst hc
      simp only [if_true, List.foldl_cons, List.foldl_nil, splitStep_apos, hs, Bool.not_true, Bool.not_false]
      rw [ih _ rfl]; simp
    · simp only [hc, if_false, List.foldl_cons, List.foldl_nil]
      rw [splitStep_inq _ _ hs hc, ih _ rfl]; simp

/-- a piece of text that leaves the quote / parenthesis state alone and is kept whole -/
def Neutral (t : Text) : Prop :=
  ∀ st : SplitSt, st.s = false → t.foldl splitStep st = ⟨false, st.d, st.b, t.reverse ++ st.cur, st.res⟩

theorem neutral_plain (l : Text) (h : ∀ c ∈ l, Plain c) : Neutral l := by
  intro st hs; rw [fold_plain l st h, hs]

theorem neutral_append (a b : Text) (ha : Neutral a) (hb : Neutral b) : Neutral (a ++ b) := by
  intro st hs
  rw [List.foldl_append, ha st hs, hb _ rfl]; simp

theorem neutral_quoted (n : Text) : Neutral ('\'' :: (replaceApos n ++ ['\''])) := by
  intro st hs
  rw [List.foldl_cons, splitStep_apos, List.foldl_append, fold_quoted n _ (by simp [hs])]
  simp [splitStep_apos]

theorem split_join (ts : List Text) (hne : ts ≠ []) (hN : ∀ t ∈ ts, Neutral t ∧ t ≠ []) (res : List Text) :
    splitFinish ((joinComma ts).foldl splitStep ⟨false, false, 0, [], res⟩) = res.reverse ++ ts := by
  induction ts generalizing res with
  | nil => exact absurd rfl hne
  | cons a r ih =>
    obtain ⟨hNa, hane⟩ := hN a (by simp)
    cases r with
    | nil =>
      simp only [joinComma]
      rw [hNa _ rfl]
      simp [splitFinish, hane]
    | cons b r' =>
      simp only [joinComma]
      rw [List.foldl_append, hNa _ rfl, List.foldl_cons]
      have hstep : splitStep ⟨false, false, 0, a.reverse ++ [], res⟩ ',' = ⟨false, false, 0, [], a :: res⟩ := by
        simp [splitStep]
      rw [hstep, ih (by simp) (fun t ht => hN t (List.mem_cons_of_mem _ ht)) (a :: res)]
      simp

theorem splitStr_join (ts : List Text) (hne : ts ≠ []) (hN : ∀ t ∈ ts, Neutral t ∧ t ≠ []) :
    splitStr (joinComma ts) = ts := by
  have := split_join ts hne hN []
  simpa [splitStr] using this

end Umya.Annot

namespace Umya.Annot
open Umya.Coord Umya.Dec Umya.XmlEsc

/-! ### the characters of a printed range -/

def RangeChar (c : Char) : Prop := isUpperAZ c = true ∨ isDigit c = true ∨ c = '$' ∨ c = ':'

theorem colRefText_chars (x : Ref) : ∀ c ∈ colRefText x, RangeChar c := by
  intro c hc
  simp only [colRefText, List.mem_append] at hc
  rcases hc with h | h
  · split at h
    · simp at h; exact Or.inr (Or.inr (Or.inl h))
    · simp at h
  · exact Or.inl (List.all_eq_true.1 (indexToAlpha_upper x.num) _ h)

theorem rowRefText_chars (x : Ref) : ∀ c ∈ rowRefText x, RangeChar c := by
  intro c hc
  simp only [rowRefText, List.mem_append] at hc
  rcases hc with h | h
  · split at h
    · simp at h; exact Or.inr (Or.inr (Or.inl h))
    · simp at h
  · exact Or.inr (Or.inl (List.all_eq_true.1 (decDigits_all_digit x.num) _ h))

theorem coordText_chars (c r : Option Ref) : ∀ ch ∈ optText colRefText c ++ optText rowRefText r, RangeChar ch := by
  intro ch h
  simp only [List.mem_append] at h
  rcases h with h | h
  · cases c with
    | none => simp [optText] at h
    | some x => exact colRefText_chars x ch h
  · cases r with
    | none => simp [optText] at h
    | some x => exact rowRefText_chars x ch h

theorem print_chars (ρ : Range) : ∀ c ∈ ρ.print, RangeChar c := by
  intro c hc
  unfold Range.print at hc
  simp only at hc
  split at hc
  · simp only [List.mem_append, List.mem_singleton] at hc
    rcases hc with (h | h) | h
    · exact coordText_chars _ _ c (List.mem_append.2 h)
    · exact Or.inr (Or.inr (Or.inr h))
    · exact coordText_chars _ _ c (List.mem_append.2 h)
  · exact coordText_chars _ _ c hc

theorem rangeChar_plain (c : Char) (h : RangeChar c) : Plain c := by
  rcases h with h | h | h | h
  · refine ⟨?_, ?_, ?_, ?_, ?_⟩ <;> (intro e; subst e; simp [isUpperAZ] at h)
  · refine ⟨?_, ?_, ?_, ?_, ?_⟩ <;> (intro e; subst e; simp [isDigit] at h)
  · subst h; refine ⟨?_, ?_, ?_, ?_, ?_⟩ <;> decide
  · subst h; refine ⟨?_, ?_, ?_, ?_, ?_⟩ <;> decide

theorem rangeChar_ne_bang (c : Char) (h : RangeChar c) : c ≠ '!' := by
  rcases h with h | h | h | h
  · intro e; subst e; simp [isUpperAZ] at h
  · intro e; subst e; simp [isDigit] at h
  · subst h; decide
  · subst h; decide

theorem alnum_plain (c : Char) (h : isAlnumAscii c = true) : Plain c := by
  refine ⟨?_, ?_, ?_, ?_, ?_⟩ <;> (intro e; subst e; simp [isAlnumAscii, isDigit, isUpperAZ, isLowerAZ] at h)

theorem alnum_ne_apos (c : Char) (h : isAlnumAscii c = true) : c ≠ '\'' := (alnum_plain c h).1

/-! ### the two forms of `get_address_ptn2` -/

theorem replaceApos_noApos (s : Text) (h : s.contains '\'' = false) : replaceApos s = s := by
  induction s with
  | nil => rfl
  | cons c r ih =>
    have hc : c ≠ '\'' := by intro e; subst e; simp at h
    have hr : r.contains '\'' = false := by
      simp only [List.contains_cons, Bool.or_eq_false_iff] at h; exact h.2
    rw [replaceApos_cons, ih hr]; simp [hc]

/-- either the bare name (then it is alphanumeric) or the apostrophe-quoted, doubled name -/
theorem addressText_forms (sheet rng : Text) (hne : sheet ≠ []) :
    (addressText sheet rng true = sheet ++ '!' :: rng ∧ sheet.all isAlnumAscii = true) ∨
    addressText sheet rng true = '\'' :: (replaceApos sheet ++ '\'' :: '!' :: rng) := by
  have he : sheet.isEmpty = false := by cases sheet <;> simp_all
  unfold addressText
  simp only [he, Bool.false_eq_true, if_false, if_true]
  cases hap : sheet.contains '\''
  · simp only [Bool.false_eq_true, if_false]
    generalize hq : (sheet.any isWhitespace || sheet.contains '!' || sheet.contains '"' ||
      (sheet.any fun c => !isAlnumAscii c) || indexFromCoordinate sheet != (none, none, none, none)) = q
    cases q
    · left
      simp only [Bool.or_eq_false_iff] at hq
      refine ⟨by simp, ?_⟩
      have h4 := hq.1.2
      rw [List.all_eq_true]
      intro c hc
      have := List.any_eq_false.1 h4 c hc
      simpa using this
    · right
      rw [replaceApos_noApos sheet hap]; simp
  · right
    simp

end Umya.Annot
