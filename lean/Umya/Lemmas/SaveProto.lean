/-
  C13 — lemmas about the protocol language of `Model/SaveProto.lean`:

  * `exec_norm`: the operational semantics of a program equals the interpretation of its normal form
    (the decision tree obtained by symbolic execution), for every program, environment and machine state;
  * `evalE_tmpE`: the source's temp-name expression evaluates to the model's `tmpOf` for every path with an extension;
  * the interpretation of the hand model's protocol terms IS `savePath` / `savePw` / `setPw` / `writeWriter`.
-/
import Umya.Model.SaveProto
import Umya.Lemmas.Fs
namespace Umya.SaveProto
open Umya.Fs

/-! ### programs and their normal forms -/

theorem interpT_mkCall (c : Ctx) (op : Op) (a b : Tree) (m : M) :
    interpT c (mkCall op a b) m = interpT c (.call op a b) m := by
  unfold mkCall
  split
  · next h =>
    subst h
    simp only [interpT]
    cases step c op m with
    | none => rfl
    | some x => obtain ⟨m', r⟩ := x; cases r <;> rfl
  · rfl

/-- **soundness of the normal form**: running a program = interpreting its decision tree -/
theorem exec_norm (c : Ctx) (p : Prog) : ∀ (e : List (Nat × Bool)) (m : M),
    exec c p e m = interpT c (norm p e) m := by
  induction p with
  | ret v =>
    intro e m
    simp only [exec, norm]
    cases lookup e v with
    | none => rfl
    | some b => cases b <;> rfl
  | retOk => intro e m; rfl
  | retErr => intro e m; rfl
  | panic => intro e m; rfl
  | act op k ih =>
    intro e m
    simp only [exec, norm, interpT]
    cases step c op m with
    | none => rfl
    | some x => exact ih e x.1
  | set v op k ih =>
    intro e m
    simp only [exec, norm, interpT_mkCall, interpT]
    cases step c op m with
    | none => rfl
    | some x =>
      obtain ⟨m', r⟩ := x
      cases r
      · exact ih _ m'
      · exact ih _ m'
  | const v b k ih => intro e m; exact ih _ m
  | branch op a b iha ihb =>
    intro e m
    simp only [exec, norm, interpT_mkCall, interpT]
    cases step c op m with
    | none => rfl
    | some x =>
      obtain ⟨m', r⟩ := x
      cases r
      · exact ihb e m'
      · exact iha e m'
  | test v a b iha ihb =>
    intro e m
    simp only [exec, norm]
    cases lookup e v with
    | none => rfl
    | some r =>
      cases r
      · exact ihb e m
      · exact iha e m

/-! ### the temp name -/

theorem splitRev_spec : ∀ (r acc pre ext : List Char),
    splitRev r acc = some (pre, ext) → r.reverse ++ acc = pre ++ '.' :: ext := by
  intro r
  induction r with
  | nil => intro acc pre ext h; simp [splitRev] at h
  | cons c r ih =>
    intro acc pre ext h
    unfold splitRev at h
    split at h
    · exact absurd h (by simp)
    · split at h
      · next hc =>
        subst hc
        cases r with
        | nil => simp at h
        | cons d r' =>
          simp only at h
          split at h
          · exact absurd h (by simp)
          · split at h
            · exact absurd h (by simp)
            · simp only [Option.some.injEq, Prod.mk.injEq] at h
              obtain ⟨h1, h2⟩ := h
              subst h1; subst h2
              simp
      · have := ih (c :: acc) pre ext h
        simpa using this

/-- `Path::extension` = `some ext` means the path is `pre.ext` -/
theorem splitExt_spec (p : Path) (pre ext : List Char) (h : splitExt p = some (pre, ext)) :
    p = pre ++ '.' :: ext := by
  have := splitRev_spec p.reverse [] pre ext h
  simpa using this

/-- the temp-name computation of the source, `path.with_extension(format!("{}{}", extension, "tmp"))`
    with `extension = path.extension().unwrap().to_str().unwrap()`, yields the model's `<dest>tmp` -/
theorem evalE_tmpE (fs0 : Fs) (dest src : Path) (pre ext : List Char)
    (h : splitExt dest = some (pre, ext)) :
    evalE fs0 dest src (tmpE .dest) = some (tmpOf dest) := by
  have hd := splitExt_spec dest pre ext h
  simp only [tmpE, evalE, h, withExtension]
  have hne : ext ++ ['t', 'm', 'p'] ≠ [] := by simp
  simp only [hne, if_false, tmpOf]
  rw [hd]; simp

/-! ### the hand model's protocol terms are the hand model's protocols -/

theorem writeChunks_append (φ : Fault) (h : Path) : ∀ (a b : List Bytes) (st : St),
    writeChunks φ h (a ++ b) st =
      (match writeChunks φ h a st with
       | (st', .ok) => writeChunks φ h b st'
       | x => x) := by
  intro a
  induction a with
  | nil => intro b st; simp [writeChunks]
  | cons x a ih =>
    intro b st
    simp only [List.cons_append, writeChunks]
    rcases hw : writeAll φ h x.length x st with ⟨st', r⟩
    cases r <;> simp [ih]

theorem finish_err (φ : Fault) (dest : Path) (st : St) (r : R) (hr : r ≠ .ok) :
    finish φ dest st r = ((sysRemove φ (tmpOf dest) st).1, r) := by
  cases r <;> first | exact absurd rfl hr | rfl

theorem okErr_of_ne {r : R} (hr : r ≠ .ok) : okErr r = .err := by
  cases r <;> first | exact absurd rfl hr | rfl

theorem isOk_iff (r : R) : isOk r = true ↔ r = .ok := by cases r <;> simp [isOk]

theorem interpT_cleanupT (c : Ctx) (m : M) (pre ext : List Char)
    (hx : splitExt c.dest = some (pre, ext)) :
    interpT c (cleanupT .dest) m = some ((sysRemove c.φ (tmpOf c.dest) m.st).1, .err) := by
  simp only [cleanupT, interpT, step, evalE_tmpE c.fs0 c.dest c.src pre ext hx]

/-- the tail of every path save: `finish` with the result so far `ok` -/
theorem interpT_finishT (c : Ctx) (m : M) (pre ext : List Char)
    (hx : splitExt c.dest = some (pre, ext)) :
    interpT c (finishT .dest) m =
      some ((finish c.φ c.dest m.st .ok).1, okErr (finish c.φ c.dest m.st .ok).2) := by
  simp only [finishT, interpT, step, evalE_tmpE c.fs0 c.dest c.src pre ext hx, evalE]
  rcases hr : sysRename c.φ (tmpOf c.dest) c.dest m.st with ⟨s, r⟩
  cases r <;>
    simp [finish, hr, isOk, okErr, interpT_cleanupT c _ pre ext hx]

/-- what the error path yields, in the model's words -/
theorem interpT_cleanupT_finish (c : Ctx) (m : M) (pre ext : List Char)
    (hx : splitExt c.dest = some (pre, ext)) (r : R) (hr : r ≠ .ok) :
    interpT c (cleanupT .dest) m =
      some ((finish c.φ c.dest m.st r).1, okErr (finish c.φ c.dest m.st r).2) := by
  rw [interpT_cleanupT c m pre ext hx, finish_err _ _ _ _ hr, okErr_of_ne hr]

/-! one node at a time, on explicit machine records -/

theorem interpT_call (c : Ctx) (op : Op) (a b : Tree) (m : M) :
    interpT c (.call op a b) m =
      (match step c op m with
       | some (m', true) => interpT c a m'
       | some (m', false) => interpT c b m'
       | none => none) := by
  simp only [interpT]
  cases step c op m with
  | none => rfl
  | some x => obtain ⟨m', r⟩ := x; cases r <;> rfl

theorem interpT_act (c : Ctx) (op : Op) (k : Tree) (m : M) :
    interpT c (.act op k) m =
      (match step c op m with
       | some (m', _) => interpT c k m'
       | none => none) := by
  simp only [interpT]
  cases step c op m with
  | none => rfl
  | some x => rfl

theorem step_create (c : Ctx) (st : St) (rd pkg : Option Bytes) (p : E) (q : Path)
    (he : evalE c.fs0 c.dest c.src p = some q) :
    step c (.create p) ⟨st, none, none, rd, pkg⟩ =
      (match sysCreate c.φ q st with
       | (st1, none) => some (⟨st1, none, none, rd, pkg⟩, false)
       | (st1, some h) => some (⟨st1, some h, none, rd, pkg⟩, true)) := by
  simp only [step, he]
  rcases sysCreate c.φ q st with ⟨st1, _ | h⟩ <;> rfl

theorem step_bufNew (c : Ctx) (st : St) (h : Path) (rd pkg : Option Bytes) :
    step c (.bufNew 8192) ⟨st, some h, none, rd, pkg⟩ = some (⟨st, some h, some ⟨h, []⟩, rd, pkg⟩, true) := by
  simp [step, cap]

theorem step_compute_ok (c : Ctx) (f : Bool) (hc : f = false ∨ c.cok = true) (st : St) (fl : Option Path)
    (bw : Option BufW) (rd pkg : Option Bytes) :
    step c (.compute f) ⟨st, fl, bw, rd, pkg⟩ = some (⟨st, fl, bw, rd, some c.data⟩, true) := by
  rcases hc with hc | hc <;> simp [step, hc]

theorem step_writeAll_bw (c : Ctx) (st : St) (fl : Option Path) (b : BufW) (rd : Option Bytes) (d : Bytes) :
    step c .writeAll ⟨st, fl, some b, rd, some d⟩ =
      some (⟨(bufWriteAll c.φ b d st).2.1, fl, some (bufWriteAll c.φ b d st).1, rd, some d⟩,
            isOk (bufWriteAll c.φ b d st).2.2) := by
  simp only [step]

theorem step_flush_bw (c : Ctx) (st : St) (fl : Option Path) (b : BufW) (rd pkg : Option Bytes) :
    step c .flush ⟨st, fl, some b, rd, pkg⟩ =
      some (⟨(bufFlush c.φ b st).2.1, fl, some (bufFlush c.φ b st).1, rd, pkg⟩, isOk (bufFlush c.φ b st).2.2) := by
  simp only [step]

theorem step_drop_bw (c : Ctx) (st : St) (fl : Option Path) (b : BufW) (rd pkg : Option Bytes) :
    step c .drop ⟨st, fl, some b, rd, pkg⟩ = some (⟨bufDrop c.φ b st, none, none, rd, pkg⟩, true) := by
  simp only [step]

/-- `drop(writer)` then the tail, in the model's words: `finish` on the state after `bufDrop` -/
theorem interpT_drop_finish (c : Ctx) (st : St) (fl : Option Path) (b : BufW) (rd pkg : Option Bytes)
    (pre ext : List Char) (hx : splitExt c.dest = some (pre, ext)) (r : R) :
    interpT c (.act .drop (if r = .ok then finishT .dest else cleanupT .dest)) ⟨st, fl, some b, rd, pkg⟩ =
      some ((finish c.φ c.dest (bufDrop c.φ b st) r).1, okErr (finish c.φ c.dest (bufDrop c.φ b st) r).2) := by
  rw [interpT_act, step_drop_bw]
  by_cases hr : r = .ok
  · subst hr; exact interpT_finishT c _ pre ext hx
  · rw [if_neg hr]; exact interpT_cleanupT_finish c _ pre ext hx r hr

/-- the part of the path saves after the creation of the temp file, shared by xlsx and csv:
    `write_all`?, flush if ok, drop, rename if ok / remove on error = `writeTmp` then `finish` -/
theorem interpT_write_flush_finish (c : Ctx) (st : St) (h : Path) (rd : Option Bytes)
    (pre ext : List Char) (hx : splitExt c.dest = some (pre, ext)) :
    interpT c
      (.call .writeAll
        (.call .flush (.act .drop (finishT .dest)) (.act .drop (cleanupT .dest)))
        (.act .drop (cleanupT .dest)))
      ⟨st, some h, some ⟨h, []⟩, rd, some c.data⟩ =
      some ((finish c.φ c.dest (writeTmp c.φ h c.data st).1 (writeTmp c.φ h c.data st).2).1,
            okErr (finish c.φ c.dest (writeTmp c.φ h c.data st).1 (writeTmp c.φ h c.data st).2).2) := by
  rw [interpT_call, step_writeAll_bw]
  unfold writeTmp
  rcases hw : bufWriteAll c.φ ⟨h, []⟩ c.data st with ⟨bw1, st2, r⟩
  by_cases hr : r = .ok
  · subst hr
    show interpT c (.call .flush _ _) _ = _
    rw [interpT_call, step_flush_bw]
    rcases hf : bufFlush c.φ bw1 st2 with ⟨bw2, st3, r2⟩
    by_cases hr2 : r2 = .ok
    · subst hr2
      have := interpT_drop_finish c st3 (some h) bw2 rd (some c.data) pre ext hx .ok
      simpa [hf, isOk] using this
    · have := interpT_drop_finish c st3 (some h) bw2 rd (some c.data) pre ext hx r2
      rw [if_neg hr2] at this
      have hb : isOk r2 = false := by cases r2 <;> first | exact absurd rfl hr2 | rfl
      simpa [hf, hb] using this
  · have := interpT_drop_finish c st2 (some h) bw1 rd (some c.data) pre ext hx r
    rw [if_neg hr] at this
    have hb : isOk r = false := by cases r <;> first | exact absurd rfl hr | rfl
    have e : (match r with
        | R.ok => bufFlush c.φ bw1 st2
        | r => (bw1, st2, r)) = (bw1, st2, r) := by cases r <;> first | exact absurd rfl hr | rfl
    simpa [hb, e] using this

/-- **`savePathT` is `savePath`** (`xlsx::write`, `write_light`), for every fault plan, output and file system -/
theorem interpT_savePathT (c : Ctx) (st : St) (pre ext : List Char) (hc : c.cok = true)
    (hx : splitExt c.dest = some (pre, ext)) :
    interpT c savePathT (M.init st) =
      some ((savePath c.φ c.data c.dest st).1, okErr (savePath c.φ c.data c.dest st).2) := by
  have he := evalE_tmpE c.fs0 c.dest c.src pre ext hx
  unfold savePathT savePath M.init
  rw [interpT_call, step_create c st none none _ _ he]
  rcases hcr : sysCreate c.φ (tmpOf c.dest) st with ⟨st1, _ | h⟩
  · rfl
  · show interpT c (.act (.bufNew 8192) _) _ = _
    rw [interpT_act, step_bufNew]
    show interpT c (.call (.compute true) _ _) _ = _
    rw [interpT_call, step_compute_ok c true (Or.inr hc)]
    exact interpT_write_flush_finish c st1 h none pre ext hx

/-- **`savePathCsvT` is `savePath`** (`csv::write`) -/
theorem interpT_savePathCsvT (c : Ctx) (st : St) (pre ext : List Char)
    (hx : splitExt c.dest = some (pre, ext)) :
    interpT c savePathCsvT (M.init st) =
      some ((savePath c.φ c.data c.dest st).1, okErr (savePath c.φ c.data c.dest st).2) := by
  have he := evalE_tmpE c.fs0 c.dest c.src pre ext hx
  unfold savePathCsvT savePath M.init
  rw [interpT_call, step_create c st none none _ _ he]
  rcases hcr : sysCreate c.φ (tmpOf c.dest) st with ⟨st1, _ | h⟩
  · rfl
  · show interpT c (.act (.bufNew 8192) _) _ = _
    rw [interpT_act, step_bufNew]
    show interpT c (.act (.compute false) _) _ = _
    rw [interpT_act, step_compute_ok c false (Or.inl rfl)]
    exact interpT_write_flush_finish c st1 h none pre ext hx

/-! ### password saves -/

theorem step_cfbCreate (c : Ctx) (st : St) (bw : Option BufW) (rd : Option Bytes) (d : Bytes) (p : E) (q : Path)
    (he : evalE c.fs0 c.dest c.src p = some q) :
    step c (.cfbCreate p) ⟨st, none, bw, rd, some d⟩ =
      (match sysCreate c.φ q st with
       | (st1, none) => some (⟨st1, none, bw, rd, some d⟩, false)
       | (st1, some h) =>
         some (⟨(writeChunks c.φ h (c.enc1 d) st1).1, some h, bw, rd, some d⟩, isOk (writeChunks c.φ h (c.enc1 d) st1).2)) := by
  simp only [step, he]
  rcases sysCreate c.φ q st with ⟨st1, _ | h⟩ <;> rfl

theorem step_cfbWrite (c : Ctx) (st : St) (h : Path) (bw : Option BufW) (rd : Option Bytes) (d : Bytes) :
    step c .cfbWrite ⟨st, some h, bw, rd, some d⟩ =
      some (⟨(writeChunks c.φ h (c.enc2 d) st).1, none, bw, rd, some d⟩, isOk (writeChunks c.φ h (c.enc2 d) st).2) := by
  simp only [step]

/-- `encryptT` is the part of `savePw` after the buffer exists; the container writer's `write_all` sequence is
    `cfb::create`'s followed by `write_compound_file`'s -/
theorem interpT_encryptT (c : Ctx) (st : St) (rd : Option Bytes) (d : Bytes) (pre ext : List Char)
    (hx : splitExt c.dest = some (pre, ext)) :
    interpT c encryptT ⟨st, none, none, rd, some d⟩ =
      some ((savePw c.φ (c.enc1 d ++ c.enc2 d) c.dest st).1,
            okErr (savePw c.φ (c.enc1 d ++ c.enc2 d) c.dest st).2) := by
  have he := evalE_tmpE c.fs0 c.dest c.src pre ext hx
  unfold encryptT savePw
  rw [interpT_call, step_cfbCreate c st none rd d _ _ he]
  rcases hcr : sysCreate c.φ (tmpOf c.dest) st with ⟨st1, _ | h⟩
  · exact interpT_cleanupT_finish c _ pre ext hx .err (by decide)
  · dsimp only
    rw [writeChunks_append]
    rcases hw1 : writeChunks c.φ h (c.enc1 d) st1 with ⟨s1, r1⟩
    by_cases hr1 : r1 = .ok
    · subst hr1
      dsimp only [isOk]
      show interpT c (.call .cfbWrite _ _) _ = _
      rw [interpT_call, step_cfbWrite]
      rcases hw2 : writeChunks c.φ h (c.enc2 d) s1 with ⟨s2, r2⟩
      by_cases hr2 : r2 = .ok
      · subst hr2; exact interpT_finishT c _ pre ext hx
      · have hb : isOk r2 = false := by cases r2 <;> first | exact absurd rfl hr2 | rfl
        simp only [hb]
        exact interpT_cleanupT_finish c _ pre ext hx r2 hr2
    · have hb : isOk r1 = false := by cases r1 <;> first | exact absurd rfl hr1 | rfl
      have e : (match ((s1, r1) : St × R) with
          | (st', R.ok) => writeChunks c.φ h (c.enc2 d) st'
          | x => x) = (s1, r1) := by cases r1 <;> first | exact absurd rfl hr1 | rfl
      simp only [hb, e]
      exact interpT_cleanupT_finish c _ pre ext hx r1 hr1

/-- **`savePwT` is `savePw`** (`write_with_password`, `write_with_password_light`) -/
theorem interpT_savePwT (c : Ctx) (st : St) (pre ext : List Char) (hc : c.cok = true)
    (hx : splitExt c.dest = some (pre, ext)) :
    interpT c savePwT (M.init st) =
      some ((savePw c.φ (c.enc1 c.data ++ c.enc2 c.data) c.dest st).1,
            okErr (savePw c.φ (c.enc1 c.data ++ c.enc2 c.data) c.dest st).2) := by
  unfold savePwT M.init
  rw [interpT_call, step_compute_ok c true (Or.inr hc)]
  exact interpT_encryptT c st none c.data pre ext hx

/-- **`setPwT` is `setPw`** (`set_password`), the encoder being `fun b => enc1 b ++ enc2 b` -/
theorem interpT_setPwT (c : Ctx) (st : St) (pre ext : List Char)
    (hx : splitExt c.dest = some (pre, ext)) :
    interpT c setPwT (M.init st) =
      some ((setPw c.φ (fun b => c.enc1 b ++ c.enc2 b) c.src c.dest st).1,
            okErr (setPw c.φ (fun b => c.enc1 b ++ c.enc2 b) c.src c.dest st).2) := by
  unfold setPwT setPw M.init
  rw [interpT_call]
  simp only [step, evalE]
  cases hcn : content st.cur c.src with
  | none => rfl
  | some b =>
    show interpT c (.call .readAll _ _) _ = _
    rw [interpT_call]
    simp only [step]
    exact interpT_encryptT c st (some b) b pre ext hx

/-! ### caller-supplied writer -/

theorem step_writeAll_file (c : Ctx) (st : St) (h : Path) (rd : Option Bytes) (d : Bytes) :
    step c .writeAll ⟨st, some h, none, rd, some d⟩ =
      some (⟨(writeAll c.φ h d.length d st).1, some h, none, rd, some d⟩, isOk (writeAll c.φ h d.length d st).2) := by
  simp only [step]

/-- **`writeWriterT` is `writeWriter`** (`xlsx::write_writer`, `write_writer_light`): the final state is the sink's
    state after one `write_all` of the complete output -/
theorem interpT_writeWriterT (c : Ctx) (hc : c.cok = true) :
    interpT c writeWriterT M.sink =
      some ((writeAll c.φ sinkPath c.data.length c.data (St.init [(sinkPath, .file [])])).1,
            okErr (writeAll c.φ sinkPath c.data.length c.data (St.init [(sinkPath, .file [])])).2) := by
  unfold writeWriterT M.sink
  rw [interpT_call, step_compute_ok c true (Or.inr hc)]
  show interpT c (.call .writeAll _ _) _ = _
  rw [interpT_call, step_writeAll_file]
  rcases hw : writeAll c.φ sinkPath c.data.length c.data (St.init [(sinkPath, .file [])]) with ⟨s, r⟩
  cases r <;> rfl

/-- **`writeWriterCsvT` is `writeWriter`** (`csv::write_writer`) -/
theorem interpT_writeWriterCsvT (c : Ctx) :
    interpT c writeWriterCsvT M.sink =
      some ((writeAll c.φ sinkPath c.data.length c.data (St.init [(sinkPath, .file [])])).1,
            okErr (writeAll c.φ sinkPath c.data.length c.data (St.init [(sinkPath, .file [])])).2) := by
  unfold writeWriterCsvT M.sink
  rw [interpT_act, step_compute_ok c false (Or.inl rfl)]
  show interpT c (.call .writeAll _ _) _ = _
  rw [interpT_call, step_writeAll_file]
  rcases hw : writeAll c.φ sinkPath c.data.length c.data (St.init [(sinkPath, .file [])]) with ⟨s, r⟩
  cases r <;> rfl

/-! ### `make_buffer` fails (an in-memory error: no parameter of `savePath` / `savePw`) -/

theorem step_compute_fail (c : Ctx) (hc : c.cok = false) (m : M) :
    step c (.compute true) m = some (m, false) := by
  simp [step, hc]

/-- `xlsx::write`, `write_light` when `make_buffer` fails: the (empty) temp file is created and removed again,
    nothing else happens, the result is the error -/
theorem interpT_savePathT_compute_fail (c : Ctx) (st : St) (pre ext : List Char) (hc : c.cok = false)
    (hx : splitExt c.dest = some (pre, ext)) :
    interpT c savePathT (M.init st) =
      some (match sysCreate c.φ (tmpOf c.dest) st with
            | (st1, none) => (st1, .err)
            | (st1, some _) => ((sysRemove c.φ (tmpOf c.dest) st1).1, .err)) := by
  have he := evalE_tmpE c.fs0 c.dest c.src pre ext hx
  unfold savePathT M.init
  rw [interpT_call, step_create c st none none _ _ he]
  rcases hcr : sysCreate c.φ (tmpOf c.dest) st with ⟨st1, _ | h⟩
  · rfl
  · show interpT c (.act (.bufNew 8192) _) _ = _
    rw [interpT_act, step_bufNew]
    show interpT c (.call (.compute true) _ _) _ = _
    rw [interpT_call, step_compute_fail c hc]
    show interpT c (.act .drop _) _ = _
    rw [interpT_act, step_drop_bw, bufDrop_empty]
    exact interpT_cleanupT c _ pre ext hx

/-- `write_with_password(_light)` when `make_buffer` fails: no system call at all -/
theorem interpT_savePwT_compute_fail (c : Ctx) (st : St) (hc : c.cok = false) :
    interpT c savePwT (M.init st) = some (st, .err) := by
  unfold savePwT M.init
  rw [interpT_call, step_compute_fail c hc]
  rfl

/-- the model's `SinkOut` as a view of the final machine state -/
def sinkView (x : St × R) : SinkOut :=
  ⟨x.2, (match get x.1.cur sinkPath with | some (.file b) => some b | _ => none), x.1.calls⟩

theorem writeWriter_eq_sinkView (φ : Fault) (data : Bytes) :
    writeWriter φ data = sinkView (writeAll φ sinkPath data.length data (St.init [(sinkPath, .file [])])) := rfl

end Umya.SaveProto
