/-
  Lemmas about the comment model (`Model/AnnotComment.lean`): the text codec, the comments part, the VML
  shapes, the order of both writers and the positional join.
-/
import Umya.Model.AnnotComment
import Umya.Lemmas.Annot
import Umya.Lemmas.AnnotCodec
import Umya.Lemmas.AnnotView
namespace Umya.AnnotComment
open Umya.Spec.Xml (Node Attr)
open Umya.AnnotCodec (getAttr u32Attr splitCh joinCh)
open Umya.AnnotView (Coord)
open Umya.Dec

/-! ## text -/

theorem lastText_txt (s : Text) : lastText (txt s) [] = s := by
  unfold txt
  by_cases h : s = []
  · simp [h, lastText]
  · simp [h, lastText]

theorem readRunKids_write (r : Run) (h : r.WF) :
    readRunKids (optNode r.rpr ++ [writeT r.text]) {} = r := by
  obtain ⟨t, p⟩ := r
  cases p with
  | none => simp [optNode, readRunKids, writeT, nT, lastText_txt]
  | some p =>
    cases p with
    | text s => simp [Run.WF] at h
    | elem n as ks =>
      simp only [Run.WF] at h
      subst h
      simp [optNode, readRunKids, writeT, nT, nRPr, lastText_txt]

theorem readTextKids_write (t : CommentText) (h : ∀ r ∈ t, r.WF) (acc : CommentText) :
    readTextKids (t.map writeRun) acc = acc ++ t := by
  induction t generalizing acc with
  | nil => simp [readTextKids]
  | cons r rest ih =>
    have hr := h r (by simp)
    have ih' := ih (fun x hx => h x (List.mem_cons_of_mem _ hx))
    simp only [List.map_cons, writeRun, readTextKids, nR, if_true]
    rw [readRunKids_write r hr, ih']
    simp

theorem readText_writeText (t : CommentText) (h : ∀ r ∈ t, r.WF) : readText (writeText t) = t := by
  simp [readText, writeText, readTextKids_write t h]

/-! ## the comments part -/

theorem decDigits_head_digit (n : Nat) : ∃ c r, decDigits n = c :: r ∧ isDigit c = true := by
  have h1 := decDigits_ne_nil n
  have h2 := decDigits_all_digit n
  cases hd : decDigits n with
  | nil => exact absurd hd h1
  | cons c r =>
    rw [hd] at h2
    simp only [List.all_cons, Bool.and_eq_true] at h2
    exact ⟨c, r, rfl, h2.1⟩

theorem usizeAttr_decDigits (n : Nat) (h : n < 18446744073709551616) : usizeAttr (decDigits n) = some n := by
  obtain ⟨c, r, hd, hc⟩ := decDigits_head_digit n
  have hne : c ≠ '+' := by
    intro e; subst e; simp [isDigit] at hc
  have hds : stripPlus (decDigits n) = decDigits n := by
    rw [hd]
    unfold stripPlus
    split
    · rename_i heq; simp at heq; exact absurd heq.1 hne
    · rfl
  have h1 : (decDigits n).isEmpty = false := by rw [hd]; rfl
  simp [usizeAttr, hds, h1, decDigits_all_digit, parseDec_decDigits, h]

/-- the comment the comments reader hands over: the shape is still `Shape::default()` -/
def strip (c : Comment) : Comment := { c with shape := {} }

theorem readCommentKids_write (t : CommentText) (h : ∀ r ∈ t, r.WF) : readCommentKids [writeText t] [] = t := by
  simp [readCommentKids, writeText, nText, readTextKids_write t h]

theorem readComment_write (tbl : List Text) (hl : tbl.length < 18446744073709551616) (c : Comment) (h : c.WF tbl) :
    ∃ as ks, writeComment tbl c = some (.elem nComment as ks) ∧ readComment tbl as ks = some (strip c) := by
  obtain ⟨hc, _, ha, ht, _⟩ := h
  obtain ⟨h1, h2⟩ := Umya.AnnotView.Coord.text_parse c.cell hc
  obtain ⟨i, hp, hg⟩ := Umya.Annot.position_get c.author tbl ha
  have hi : i < tbl.length := by
    rcases Nat.lt_or_ge i tbl.length with h | h
    · exact h
    · rw [List.getElem?_eq_none h] at hg; simp at hg
  refine ⟨[⟨"ref".toList, Umya.Coord.coordinateFromIndexWithLock c.cell.col c.cell.row c.cell.lockCol c.cell.lockRow⟩,
    ⟨"authorId".toList, authorIdText tbl c.author⟩], [writeText c.text], by simp [writeComment, h1], ?_⟩
  simp only [readComment, getAttr, List.find?_cons, authorIdText, hp]
  simp [h2, usizeAttr_decDigits i (by omega), hg, readCommentKids_write c.text ht, strip]

theorem walkL_authors (tbl : List Text) (st : RSt) :
    walkL (tbl.map authorElem) st = some { st with authors := st.authors ++ tbl } := by
  induction tbl generalizing st with
  | nil => simp [walkL]
  | cons a r ih =>
    simp only [List.map_cons, walkL, authorElem, walk, nAuthor, if_true, lastText_txt]
    rw [ih]
    simp

theorem walkL_comments (tbl : List Text) (hl : tbl.length < 18446744073709551616) (cs : List Comment)
    (h : ∀ c ∈ cs, c.WF tbl) (acc : List Comment) :
    ∃ l, writeCommentList tbl cs = some l ∧
      walkL l { authors := tbl, comments := acc } = some { authors := tbl, comments := acc ++ cs.map strip } := by
  induction cs generalizing acc with
  | nil => exact ⟨[], rfl, by simp [walkL]⟩
  | cons c r ih =>
    obtain ⟨as, ks, hw, hr⟩ := readComment_write tbl hl c (h c (by simp))
    obtain ⟨l, hl', hwalk⟩ := ih (fun x hx => h x (List.mem_cons_of_mem _ hx)) (acc ++ [strip c])
    refine ⟨.elem nComment as ks :: l, by simp [writeCommentList, hw, hl'], ?_⟩
    have hne : ¬ (nComment = nAuthor) := by decide
    simp only [walkL, walk, hne, if_false, if_true, hr, Option.map_some]
    rw [hwalk]
    simp

theorem readComments_write (tbl : List Text) (cs : List Comment) (h : WF tbl cs) :
    ∃ n, writeComments tbl cs = some n ∧ readComments n = some (cs.map strip) := by
  obtain ⟨hl, hc⟩ := h
  obtain ⟨l, h1, h2⟩ := walkL_comments tbl hl cs hc []
  refine ⟨.elem nComments [⟨"xmlns".toList, mainNs⟩] [.elem nAuthors [] (tbl.map authorElem), .elem nCommentList [] l],
    by simp [writeComments, h1], ?_⟩
  have e1 : ¬ (nComments = nAuthor) := by decide
  have e2 : ¬ (nComments = nComment) := by decide
  have e3 : ¬ (nAuthors = nAuthor) := by decide
  have e4 : ¬ (nAuthors = nComment) := by decide
  have e5 : ¬ (nCommentList = nAuthor) := by decide
  have e6 : ¬ (nCommentList = nComment) := by decide
  have ha := walkL_authors tbl {}
  simp only [readComments, walk, walkL, e1, e2, e3, e4, e5, e6, if_false, ha]
  simp at h2
  simp [h2]

/-- the order of the comments part: the i-th `<comment>` element is the i-th comment of the list -/
theorem writeCommentList_order (tbl : List Text) (cs : List Comment) (l : List Node) (h : writeCommentList tbl cs = some l) (i : Nat) :
    l[i]? = (cs[i]?).bind (writeComment tbl) := by
  induction cs generalizing l i with
  | nil => simp [writeCommentList] at h; subst h; simp
  | cons c r ih =>
    simp only [writeCommentList] at h
    cases hc : writeComment tbl c with
    | none => simp [hc] at h
    | some n =>
      cases hr : writeCommentList tbl r with
      | none => simp [hc, hr] at h
      | some ns =>
        simp [hc, hr] at h
        subst h
        cases i with
        | zero => simp [hc]
        | succ j => simpa using ih ns hr j

/-! ## VML: texts that `trim_text(true)` leaves alone -/

theorem digit_not_xmlws (c : Char) (h : isDigit c = true) : Umya.Xml.isXmlWs c = false := by
  simp only [Umya.Xml.isXmlWs, Bool.or_eq_false_iff, decide_eq_false_iff_not]
  refine ⟨⟨⟨?_, ?_⟩, ?_⟩, ?_⟩ <;> (intro e; subst e; exact absurd h (by decide))

theorem digit_not_uniws (c : Char) (h : isDigit c = true) : Umya.Xml.isUniWs c = false := by
  simp only [isDigit, ge_iff_le, Bool.and_eq_true, decide_eq_true_eq] at h
  simp only [Umya.Xml.isUniWs, Bool.or_eq_false_iff, Bool.and_eq_false_iff, decide_eq_false_iff_not, beq_eq_false_iff_ne]
  omega

theorem trimWs_of_ends (s : Text) (c : Char) (r : Text) (i : Text) (d : Char) (h1 : s = c :: r) (h2 : s = i ++ [d])
    (hc : Umya.Xml.isXmlWs c = false) (hd : Umya.Xml.isXmlWs d = false) : trimWs s = s := by
  have e1 : Umya.Xml.trimStart s = s := by rw [h1]; simp [Umya.Xml.trimStart, List.dropWhile_cons, hc]
  have e2 : Umya.Xml.trimEnd s = s := by rw [h2]; simp [Umya.Xml.trimEnd, List.dropWhile_cons, hd]
  simp [trimWs, e1, e2]

theorem rustTrim_of_ends (s : Text) (c : Char) (r : Text) (i : Text) (d : Char) (h1 : s = c :: r) (h2 : s = i ++ [d])
    (hc : Umya.Xml.isUniWs c = false) (hd : Umya.Xml.isUniWs d = false) : rustTrim s = s := by
  have e1 : s.dropWhile Umya.Xml.isUniWs = s := by rw [h1]; simp [List.dropWhile_cons, hc]
  unfold rustTrim
  rw [e1, h2]
  simp [List.dropWhile_cons, hd]

theorem decDigits_ends (n : Nat) :
    ∃ c r i d, decDigits n = c :: r ∧ decDigits n = i ++ [d] ∧ isDigit c = true ∧ isDigit d = true := by
  obtain ⟨c, r, hd, hc⟩ := decDigits_head_digit n
  have h2 := decDigits_all_digit n
  rcases List.eq_nil_or_concat (decDigits n) with h | ⟨i, d, h⟩
  · exact absurd h (decDigits_ne_nil n)
  · rw [List.concat_eq_append] at h
    refine ⟨c, r, i, d, hd, h, hc, ?_⟩
    rw [h] at h2
    simp only [List.all_append, List.all_cons, List.all_nil, Bool.and_true, Bool.and_eq_true] at h2
    exact h2.2

theorem trimWs_decDigits (n : Nat) : trimWs (decDigits n) = decDigits n := by
  obtain ⟨c, r, i, d, h1, h2, hc, hd⟩ := decDigits_ends n
  exact trimWs_of_ends _ c r i d h1 h2 (digit_not_xmlws c hc) (digit_not_xmlws d hd)

theorem rustTrim_decDigits (n : Nat) : rustTrim (decDigits n) = decDigits n := by
  obtain ⟨c, r, i, d, h1, h2, hc, hd⟩ := decDigits_ends n
  exact rustTrim_of_ends _ c r i d h1 h2 (digit_not_uniws c hc) (digit_not_uniws d hd)

theorem rustTrim_sp (n : Nat) : rustTrim (sp (decDigits n)) = decDigits n := by
  have h := rustTrim_decDigits n
  obtain ⟨c, r, hd, hc⟩ := decDigits_head_digit n
  have hc' := digit_not_uniws c hc
  unfold rustTrim sp at *
  have e : (' ' :: decDigits n).dropWhile Umya.Xml.isUniWs = (decDigits n).dropWhile Umya.Xml.isUniWs := by
    have : Umya.Xml.isUniWs ' ' = true := by decide
    simp [List.dropWhile_cons, this]
  rw [e]; exact h

theorem lastTrimmed_single (t : Text) (h1 : trimWs t = t) (h2 : t ≠ []) : lastTrimmed [.text t] none = some t := by
  simp [lastTrimmed, h1, h2]

theorem anchorNum_dec (n : Nat) (h : n < u32Max) : anchorNum (some (decDigits n)) = n := by
  simp [anchorNum, rustTrim_decDigits, Umya.AnnotCodec.u32Attr_decDigits n h]

theorem anchorNum_sp (n : Nat) (h : n < u32Max) : anchorNum (some (sp (decDigits n))) = n := by
  simp [anchorNum, rustTrim_sp, Umya.AnnotCodec.u32Attr_decDigits n h]

theorem comma_not_in_digits (n : Nat) : ',' ∉ decDigits n := by
  intro h
  have h2 := decDigits_all_digit n
  rw [List.all_eq_true] at h2
  exact absurd (h2 _ h) (by decide)

theorem comma_not_in_sp (n : Nat) : ',' ∉ sp (decDigits n) := by
  intro h
  rcases List.mem_cons.1 h with e | e
  · exact absurd e (by decide)
  · exact comma_not_in_digits n e

theorem anchorText_ends (a : Anchor) :
    ∃ c r i d, anchorText a = c :: r ∧ anchorText a = i ++ [d] ∧ isDigit c = true ∧ isDigit d = true := by
  obtain ⟨c, r, _, _, h1, _, hc, _⟩ := decDigits_ends a.leftCol
  obtain ⟨_, _, i, d, _, h2, _, hd⟩ := decDigits_ends a.bottomOff
  have e1 : anchorText a = c :: (r ++ ',' :: (sp (decDigits a.leftOff) ++ ',' :: (sp (decDigits a.topRow) ++ ',' :: (sp (decDigits a.topOff) ++ ',' ::
      (sp (decDigits a.rightCol) ++ ',' :: (sp (decDigits a.rightOff) ++ ',' :: (sp (decDigits a.bottomRow) ++ ',' :: sp (decDigits a.bottomOff)))))))) := by
    simp only [anchorText, joinCh, h1, List.cons_append]
  have e2 : anchorText a = (decDigits a.leftCol ++ ',' :: (sp (decDigits a.leftOff) ++ ',' :: (sp (decDigits a.topRow) ++ ',' :: (sp (decDigits a.topOff) ++ ',' ::
      (sp (decDigits a.rightCol) ++ ',' :: (sp (decDigits a.rightOff) ++ ',' :: (sp (decDigits a.bottomRow) ++ ',' :: ' ' :: i))))))) ++ [d] := by
    simp only [anchorText, joinCh, sp, h2, List.append_assoc, List.cons_append]
  exact ⟨c, _, _, d, e1, e2, hc, hd⟩

theorem readAnchor_write (a : Anchor) (h : a.WF) : readAnchor [.text (anchorText a)] = a := by
  obtain ⟨c, r, i, d, h1, h2, hc, hd⟩ := anchorText_ends a
  have ht := trimWs_of_ends _ c r i d h1 h2 (digit_not_xmlws c hc) (digit_not_xmlws d hd)
  have hne : anchorText a ≠ [] := by rw [h1]; simp
  have hsplit : splitCh ',' (anchorText a) = [decDigits a.leftCol, sp (decDigits a.leftOff), sp (decDigits a.topRow), sp (decDigits a.topOff),
      sp (decDigits a.rightCol), sp (decDigits a.rightOff), sp (decDigits a.bottomRow), sp (decDigits a.bottomOff)] := by
    unfold anchorText
    apply Umya.AnnotCodec.splitCh_joinCh
    · simp
    · intro p hp
      simp only [List.mem_cons, List.mem_nil_iff, or_false] at hp
      rcases hp with e | e | e | e | e | e | e | e <;> subst e <;> first | exact comma_not_in_digits _ | exact comma_not_in_sp _
  obtain ⟨h0, h1', h2', h3, h4, h5, h6, h7⟩ := h
  unfold readAnchor
  rw [lastTrimmed_single _ ht hne]
  simp only [hsplit]
  simp [anchorNum_dec _ h0, anchorNum_sp _ h1', anchorNum_sp _ h2', anchorNum_sp _ h3, anchorNum_sp _ h4, anchorNum_sp _ h5,
    anchorNum_sp _ h6, anchorNum_sp _ h7]

theorem readTfb_nil : readTfb [] = none := rfl

theorem readTfb_text (b : Bool) : readTfb [.text (tfbText b)] = some b := by
  cases b <;> decide

theorem readU32_dec (n : Nat) (h : n < u32Max) : readU32 [.text (decDigits n)] = some (some n) := by
  unfold readU32
  rw [lastTrimmed_single _ (trimWs_decDigits n) (decDigits_ne_nil n)]
  simp [Umya.AnnotCodec.u32Attr_decDigits n h]

/-! ## VML: client data and shapes -/

theorem ne_nSize_nMove : (nSize = nMove) = False := eq_false (by decide)
theorem ne_nAnchor_nMove : (nAnchor = nMove) = False := eq_false (by decide)
theorem ne_nAnchor_nSize : (nAnchor = nSize) = False := eq_false (by decide)
theorem ne_nRow_nMove : (nRow = nMove) = False := eq_false (by decide)
theorem ne_nRow_nSize : (nRow = nSize) = False := eq_false (by decide)
theorem ne_nRow_nAnchor : (nRow = nAnchor) = False := eq_false (by decide)
theorem ne_nColumn_nMove : (nColumn = nMove) = False := eq_false (by decide)
theorem ne_nColumn_nSize : (nColumn = nSize) = False := eq_false (by decide)
theorem ne_nColumn_nAnchor : (nColumn = nAnchor) = False := eq_false (by decide)
theorem ne_nColumn_nRow : (nColumn = nRow) = False := eq_false (by decide)
theorem ne_nVisible_nMove : (nVisible = nMove) = False := eq_false (by decide)
theorem ne_nVisible_nSize : (nVisible = nSize) = False := eq_false (by decide)
theorem ne_nVisible_nAnchor : (nVisible = nAnchor) = False := eq_false (by decide)
theorem ne_nVisible_nRow : (nVisible = nRow) = False := eq_false (by decide)
theorem ne_nVisible_nColumn : (nVisible = nColumn) = False := eq_false (by decide)

theorem readClientKids_append (a b : List Node) (s : Shape) :
    readClientKids (a ++ b) s = (readClientKids a s).bind (readClientKids b) := by
  induction a generalizing s with
  | nil => simp [readClientKids]
  | cons k r ih =>
    cases k with
    | text t => simpa [readClientKids] using ih s
    | elem n as ks =>
      simp only [List.cons_append, readClientKids]
      by_cases h1 : n = nMove
      · simp only [if_pos h1]; exact ih _
      · simp only [if_neg h1]
        by_cases h2 : n = nSize
        · simp only [if_pos h2]; exact ih _
        · simp only [if_neg h2]
          by_cases h3 : n = nAnchor
          · simp only [if_pos h3]; exact ih _
          · simp only [if_neg h3]
            by_cases h4 : n = nRow
            · simp only [if_pos h4]; cases readU32 ks <;> simp [ih]
            · simp only [if_neg h4]
              by_cases h5 : n = nColumn
              · simp only [if_pos h5]; cases readU32 ks <;> simp [ih]
              · simp only [if_neg h5]
                by_cases h6 : n = nVisible
                · simp only [if_pos h6]; exact ih _
                · simp only [if_neg h6]; exact ih _

def setMove (v : Option (Option Bool)) (s : Shape) : Shape := match v with | none => s | some x => { s with moveWithCells := some x }
def setSize (v : Option (Option Bool)) (s : Shape) : Shape := match v with | none => s | some x => { s with sizeWithCells := some x }
def setVisible (v : Option (Option Bool)) (s : Shape) : Shape := match v with | none => s | some x => { s with visible := some x }
def setRow (v : Option (Option Nat)) (s : Shape) : Shape := match v with | none => s | some x => { s with row := some (some (x.getD 0)) }
def setCol (v : Option (Option Nat)) (s : Shape) : Shape := match v with | none => s | some x => { s with col := some (some (x.getD 0)) }

theorem rck_move (v : Option (Option Bool)) (s : Shape) : readClientKids (tfbElem nMove v) s = some (setMove v s) := by
  rcases v with _ | _ | b <;> simp [tfbElem, readClientKids, setMove, readTfb_nil, readTfb_text]

theorem rck_size (v : Option (Option Bool)) (s : Shape) : readClientKids (tfbElem nSize v) s = some (setSize v s) := by
  rcases v with _ | _ | b <;> simp [tfbElem, readClientKids, setSize, readTfb_nil, readTfb_text, ne_nSize_nMove]

theorem rck_visible (v : Option (Option Bool)) (s : Shape) : readClientKids (tfbElem nVisible v) s = some (setVisible v s) := by
  rcases v with _ | _ | b <;>
    simp [tfbElem, readClientKids, setVisible, readTfb_nil, readTfb_text, ne_nVisible_nMove, ne_nVisible_nSize, ne_nVisible_nAnchor,
      ne_nVisible_nRow, ne_nVisible_nColumn]

theorem rck_anchor (a : Anchor) (h : a.WF) (s : Shape) :
    readClientKids [.elem nAnchor [] [.text (anchorText a)]] s = some { s with anchor := a } := by
  simp [readClientKids, ne_nAnchor_nMove, ne_nAnchor_nSize, readAnchor_write a h]

theorem rck_row (v : Option (Option Nat)) (h : optU32WF v) (s : Shape) : readClientKids (u32Elem nRow v) s = some (setRow v s) := by
  rcases v with _ | _ | n
  · simp [u32Elem, readClientKids, setRow]
  · simp [u32Elem, readClientKids, setRow, ne_nRow_nMove, ne_nRow_nSize, ne_nRow_nAnchor, readU32_dec 0 (by decide)]
  · simp [u32Elem, readClientKids, setRow, ne_nRow_nMove, ne_nRow_nSize, ne_nRow_nAnchor, readU32_dec n h]

theorem rck_col (v : Option (Option Nat)) (h : optU32WF v) (s : Shape) : readClientKids (u32Elem nColumn v) s = some (setCol v s) := by
  rcases v with _ | _ | n
  · simp [u32Elem, readClientKids, setCol]
  · simp [u32Elem, readClientKids, setCol, ne_nColumn_nMove, ne_nColumn_nSize, ne_nColumn_nAnchor, ne_nColumn_nRow, readU32_dec 0 (by decide)]
  · simp [u32Elem, readClientKids, setCol, ne_nColumn_nMove, ne_nColumn_nSize, ne_nColumn_nAnchor, ne_nColumn_nRow, readU32_dec n h]

theorem readClient_write (s : Shape) (h : s.WF) :
    readClientKids (tfbElem nMove s.moveWithCells ++ tfbElem nSize s.sizeWithCells ++ [.elem nAnchor [] [.text (anchorText s.anchor)]] ++
      u32Elem nRow s.row ++ u32Elem nColumn s.col ++ tfbElem nVisible s.visible) {} = some { s.norm with style := none } := by
  obtain ⟨ha, hr, hc⟩ := h
  simp only [readClientKids_append, rck_move, rck_size, rck_anchor _ ha, rck_row _ hr, rck_col _ hc, rck_visible, Option.bind_some]
  obtain ⟨st, mv, sz, an, rw, cl, vs⟩ := s
  rcases mv with _ | mv <;> rcases sz with _ | sz <;> rcases rw with _ | _ | rw <;> rcases cl with _ | _ | cl <;> rcases vs with _ | vs <;> rfl

theorem readShape_write (id : Nat) (s : Shape) (h : s.WF) : readShape (shapeElem id s) = some s.norm := by
  have hc := readClient_write s h
  simp only [shapeElem, readShape, readShapeKids, clientData, if_true, hc, Option.map_some]
  obtain ⟨st, mv, sz, an, rw, cl, vs⟩ := s
  cases st <;> simp [Shape.norm, getAttr]

theorem shape_norm_col_isSome (s : Shape) (h : s.col.isSome = true) : s.norm.col.isSome = true := by
  obtain ⟨st, mv, sz, an, rw, cl, vs⟩ := s
  rcases cl with _ | _ | cl <;> simp_all [Shape.norm, normU32]

/-! ## VML: order of the shapes -/

theorem shapeNodesL_append (a b : List Node) : shapeNodesL (a ++ b) = shapeNodesL a ++ shapeNodesL b := by
  induction a with
  | nil => simp [shapeNodesL]
  | cons k r ih => simp [shapeNodesL, ih]

theorem shapeNodesL_shapeElems (id : Nat) (cs : List Comment) : shapeNodesL (shapeElems id cs) = shapeElems id cs := by
  induction cs generalizing id with
  | nil => simp [shapeElems, shapeNodesL]
  | cons c r ih => simp [shapeElems, shapeNodesL, shapeNodes, shapeElem, ih]

theorem shapeNodes_writeVml (cs : List Comment) : shapeNodes (writeVml cs) = shapeElems 1025 cs := by
  have e : ¬ ("xml".toList = nShape) := by decide
  have f : shapeNodesL vmlFrame = [] := by decide
  simp only [writeVml, shapeNodes, e, if_false, shapeNodesL_append, f, List.nil_append, shapeNodesL_shapeElems]

/-- the order of the VML part: the i-th `v:shape` element is the (written) shape of the i-th comment of the list -/
theorem shapeElems_order (id : Nat) (cs : List Comment) (i : Nat) :
    (shapeElems id cs)[i]? = (cs[i]?).map fun c => shapeElem (id + i) c.writtenShape := by
  induction cs generalizing id i with
  | nil => simp [shapeElems]
  | cons c r ih =>
    cases i with
    | zero => simp [shapeElems]
    | succ j =>
      simp only [shapeElems, List.getElem?_cons_succ]
      rw [ih (id + 1) j]
      have : id + 1 + j = id + (j + 1) := by omega
      rw [this]

theorem writtenShape_norm (c : Comment) : c.writtenShape.norm = c.writtenShape := rfl

theorem writtenShape_WF (c : Comment) (hc : c.cell.WF) (hs : c.shape.WF) : c.writtenShape.WF := by
  obtain ⟨h1, h2, h3⟩ := hc
  refine ⟨hs.1, ?_, ?_⟩
  · show c.cell.row - 1 < u32Max
    unfold u32Max; omega
  · show c.cell.col - 1 < u32Max
    unfold u32Max; omega

theorem readShapes_shapeElems (id : Nat) (cs : List Comment) (h : ∀ c ∈ cs, c.writtenShape.WF) :
    readShapes (shapeElems id cs) = some (cs.map Comment.writtenShape) := by
  induction cs generalizing id with
  | nil => rfl
  | cons c r ih =>
    simp [shapeElems, readShapes, readShape_write id c.writtenShape (h c (by simp)), writtenShape_norm,
      ih (id + 1) (fun x hx => h x (List.mem_cons_of_mem _ hx))]

theorem readVml_write (cs : List Comment) (h : ∀ c ∈ cs, c.writtenShape.WF) :
    readVml (writeVml cs) = some (cs.map Comment.writtenShape) := by
  rw [readVml, shapeNodes_writeVml, readShapes_shapeElems 1025 cs h]

/-! ## the join: the loop before fix b524a98a (position only) -/

/-- the pairing the positional loop computes: comments and note shapes side by side; comments beyond the
    last shape keep the shape they have, shapes beyond the last comment are dropped -/
def zipShapes : List Comment → List Shape → List Comment
  | c :: cs, s :: ss => { c with shape := s } :: zipShapes cs ss
  | cs, [] => cs
  | [], _ => []

theorem setShapeAt_append (pre : List Comment) (c : Comment) (r : List Comment) (s : Shape) :
    setShapeAt (pre ++ c :: r) pre.length s = pre ++ { c with shape := s } :: r := by
  induction pre with
  | nil => rfl
  | cons p q ih => simp [setShapeAt, ih]

theorem setShapeAt_ge (cs : List Comment) (i : Nat) (s : Shape) (h : cs.length ≤ i) : setShapeAt cs i s = cs := by
  induction cs generalizing i with
  | nil => rfl
  | cons c r ih =>
    cases i with
    | zero => simp at h
    | succ j => simp [setShapeAt, ih j (by simpa using h)]

theorem joinGoPos_ge (cs : List Comment) (i : Nat) (ss : List Shape) (h : cs.length ≤ i) : joinGoPos i cs ss = cs := by
  induction ss generalizing i with
  | nil => rfl
  | cons s r ih =>
    simp only [joinGoPos]
    split
    · rw [setShapeAt_ge cs i s h]; exact ih (i + 1) (by omega)
    · exact ih i h

theorem zipShapes_nil_left (ss : List Shape) : zipShapes [] ss = [] := by cases ss <;> rfl

/-- the positional loop is a zip: for ANY comments and ANY shapes it pairs the comments with the note shapes
    (those that have an `x:Column`) in document order -/
theorem joinGoPos_zip (pre cs : List Comment) (ss : List Shape) :
    joinGoPos pre.length (pre ++ cs) ss = pre ++ zipShapes cs (ss.filter fun s => s.col.isSome) := by
  induction ss generalizing pre cs with
  | nil => cases cs <;> simp [joinGoPos, zipShapes]
  | cons s r ih =>
    simp only [joinGoPos, List.filter_cons]
    by_cases hs : s.col.isSome = true
    · simp only [hs, if_true]
      cases cs with
      | nil =>
        rw [setShapeAt_ge _ _ _ (by simp), joinGoPos_ge _ _ _ (by simp)]
        simp [zipShapes]
      | cons c q =>
        rw [setShapeAt_append]
        have := ih (pre ++ [{ c with shape := s }]) q
        simp only [List.length_append, List.length_cons, List.length_nil, List.append_assoc, List.cons_append, List.nil_append] at this
        rw [this]
        simp [zipShapes]
    · simp only [hs, if_false]
      exact ih pre cs

theorem joinByPosition_zip (cs : List Comment) (ss : List Shape) :
    joinByPosition cs ss = zipShapes cs (ss.filter fun s => s.col.isSome) := by
  simpa [joinByPosition] using joinGoPos_zip [] cs ss

theorem zipShapes_written (cs : List Comment) :
    zipShapes (cs.map strip) (cs.map Comment.writtenShape) = cs.map Comment.norm := by
  induction cs with
  | nil => rfl
  | cons c r ih => simp only [List.map_cons, zipShapes, ih]; rfl

theorem zipShapes_cells (cs : List Comment) (ss : List Shape) : (zipShapes cs ss).map (·.cell) = cs.map (·.cell) := by
  induction cs generalizing ss with
  | nil => simp [zipShapes_nil_left]
  | cons c r ih => cases ss <;> simp [zipShapes, ih]

/-! ## the join: the reader as it is (by the cell a note shape names) -/

theorem setShapeAt_pos (cs : List Comment) (i : Nat) (s : Shape) :
    (setShapeAt cs i s).map Comment.pos = cs.map Comment.pos := by
  induction cs generalizing i with
  | nil => rfl
  | cons c r ih =>
    cases i with
    | zero => rfl
    | succ j => simp only [setShapeAt, List.map_cons, ih j]

theorem setShapeAt_cell (cs : List Comment) (i : Nat) (s : Shape) :
    (setShapeAt cs i s).map (·.cell) = cs.map (·.cell) := by
  induction cs generalizing i with
  | nil => rfl
  | cons c r ih =>
    cases i with
    | zero => rfl
    | succ j => simp only [setShapeAt, List.map_cons, ih j]

theorem joinGo_cell (cs : List Comment) (i : Nat) (ss : List Shape) : (joinGo i cs ss).map (·.cell) = cs.map (·.cell) := by
  induction ss generalizing i cs with
  | nil => rfl
  | cons s r ih =>
    simp only [joinGo]
    split
    · rw [ih, setShapeAt_cell]
    · exact ih cs i

/-- every note shape goes to the comment at its own position (`comment_index`) -/
def aligned (cells : List (Nat × Nat)) : Nat → List Shape → Prop
  | _, [] => True
  | i, s :: r => if s.col.isSome then targetIndex cells i s = i ∧ aligned cells (i + 1) r else aligned cells i r

/-- when every note shape goes to the comment at its own position, the loop is the positional loop -/
theorem joinGo_eq_pos (cs : List Comment) (i : Nat) (ss : List Shape) (h : aligned (cs.map Comment.pos) i ss) :
    joinGo i cs ss = joinGoPos i cs ss := by
  induction ss generalizing i cs with
  | nil => rfl
  | cons s r ih =>
    simp only [joinGo, joinGoPos]
    simp only [aligned] at h
    by_cases hs : s.col.isSome = true
    · simp only [hs, if_true] at h ⊢
      rw [h.1]
      exact ih _ _ (by rw [setShapeAt_pos]; exact h.2)
    · simp only [hs] at h ⊢
      exact ih _ _ h

theorem positionOf_none {α : Type} (p : α → Bool) (l : List α) (h : ∀ a ∈ l, p a = false) : positionOf p l = none := by
  induction l with
  | nil => rfl
  | cons a r ih =>
    simp only [positionOf, h a (by simp)]
    simp [ih (fun x hx => h x (List.mem_cons_of_mem _ hx))]

theorem positionOf_some {α : Type} (p : α → Bool) (l : List α) (a : α) (ha : a ∈ l) (hp : p a = true) :
    ∃ j b, positionOf p l = some j ∧ l[j]? = some b ∧ p b = true := by
  induction l with
  | nil => simp at ha
  | cons x r ih =>
    by_cases hx : p x = true
    · exact ⟨0, x, by simp [positionOf, hx], rfl, hx⟩
    · have har : a ∈ r := by
        rcases List.mem_cons.1 ha with e | e
        · subst e; exact absurd hp hx
        · exact e
      obtain ⟨j, b, h1, h2, h3⟩ := ih har
      exact ⟨j + 1, b, by simp [positionOf, hx, h1], by simpa using h2, h3⟩

/-- a shape that names no comment's cell (no `x:Row`, or a cell without a comment) goes to `comment_index` -/
theorem targetIndex_fallback (cells : List (Nat × Nat)) (i : Nat) (s : Shape) (h : ∀ k ∈ cells, s.names k = false) :
    targetIndex cells i s = i := by
  unfold targetIndex
  rw [positionOf_none _ _ h]
  split
  · split <;> rfl
  · rfl

/-- a shape that names the cell of the comment at `comment_index` goes there -/
theorem targetIndex_here (cells : List (Nat × Nat)) (i : Nat) (s : Shape) (k : Nat × Nat) (h : cells[i]? = some k)
    (hn : s.names k = true) : targetIndex cells i s = i := by
  simp [targetIndex, h, hn]

/-- a shape that names the cell of some comment goes to a comment on that cell -/
theorem targetIndex_spec (cells : List (Nat × Nat)) (i : Nat) (s : Shape) (k : Nat × Nat) (hk : k ∈ cells)
    (hn : s.names k = true) : ∃ b, cells[targetIndex cells i s]? = some b ∧ s.names b = true := by
  obtain ⟨j, b, h1, h2, h3⟩ := positionOf_some s.names cells k hk hn
  unfold targetIndex
  split
  · rename_i k' hk'
    split
    · rename_i hh; exact ⟨k', hk', hh⟩
    · rw [h1]; exact ⟨b, h2, h3⟩
  · rw [h1]; exact ⟨b, h2, h3⟩

theorem names_inj (s : Shape) (a b : Nat × Nat) (ha : s.names a = true) (hb : s.names b = true) : a = b := by
  simp only [Shape.names, decide_eq_true_eq] at ha hb
  rw [ha] at hb
  exact Option.some.inj hb

theorem aligned_of_valid (cells : List (Nat × Nat)) (ss : List Shape) (i : Nat)
    (h : (ss.filter (·.col.isSome)).map Shape.cell? = (cells.drop i).map some) : aligned cells i ss := by
  induction ss generalizing i with
  | nil => trivial
  | cons s r ih =>
    simp only [aligned]
    by_cases hs : s.col.isSome = true
    · simp only [hs, if_true]
      simp only [List.filter_cons, hs, if_true, List.map_cons] at h
      cases hd : cells.drop i with
      | nil => rw [hd] at h; simp at h
      | cons k q =>
        rw [hd] at h
        simp only [List.map_cons, List.cons.injEq] at h
        have hk : cells[i]? = some k := by
          have := List.getElem?_drop (xs := cells) (i := i) (j := 0)
          rw [hd] at this
          simpa using this.symm
        have hq : cells.drop (i + 1) = q := by
          have : (cells.drop i).drop 1 = q := by rw [hd]; rfl
          rw [← this, List.drop_drop]
        refine ⟨targetIndex_here cells i s k hk (by simp [Shape.names, h.1]), ih (i + 1) ?_⟩
        rw [hq]; exact h.2
    · simp only [hs]
      simp only [List.filter_cons, hs] at h
      exact ih i h

/-- the shape put on the comments of the cell it names -/
def putShape (s : Shape) (x : Comment) : Comment := if s.names x.pos then { x with shape := s } else x

theorem putShape_pos (s : Shape) (x : Comment) : (putShape s x).pos = x.pos := by
  unfold putShape; split <;> rfl

theorem map_putShape_none (s : Shape) (r : List Comment) (h : ∀ y ∈ r, s.names y.pos = false) : r.map (putShape s) = r := by
  induction r with
  | nil => rfl
  | cons y q ih =>
    simp only [List.map_cons, putShape, h y (by simp)]
    rw [show q.map (putShape s) = q from ih (fun z hz => h z (List.mem_cons_of_mem _ hz))]
    rfl

/-- under distinct cells, setting the shape of the one comment on the cell the shape names is a map -/
theorem setShapeAt_unique (cs : List Comment) (hd : (cs.map Comment.pos).Nodup) (j : Nat) (c : Comment) (s : Shape)
    (hj : cs[j]? = some c) (hp : s.names c.pos = true) : setShapeAt cs j s = cs.map (putShape s) := by
  induction cs generalizing j with
  | nil => rfl
  | cons x r ih =>
    simp only [List.map_cons, List.nodup_cons] at hd
    cases j with
    | zero =>
      simp only [List.getElem?_cons_zero, Option.some.injEq] at hj
      subst hj
      have hr : r.map (putShape s) = r := by
        apply map_putShape_none
        intro y hy
        cases hn : s.names y.pos with
        | false => rfl
        | true =>
          exact absurd (List.mem_map.2 ⟨y, hy, names_inj s _ _ hn hp⟩) hd.1
      simp only [setShapeAt, List.map_cons, hr, putShape, hp, if_true]
    | succ j' =>
      simp only [List.getElem?_cons_succ] at hj
      have hx : s.names x.pos = false := by
        cases hn : s.names x.pos with
        | false => rfl
        | true =>
          have hm : c ∈ r := List.mem_of_getElem? hj
          exact absurd (List.mem_map.2 ⟨c, hm, names_inj s _ _ hp hn⟩) hd.1
      simp only [setShapeAt, List.map_cons, ih hd.2 j' hj, putShape, hx]
      rfl

/-- what `joinByCell` does to one comment -/
def byCell (ss : List Shape) (c : Comment) : Comment :=
  match ss.find? (fun s => s.col.isSome && s.names c.pos) with
  | some s => { c with shape := s }
  | none => c

theorem joinByCell_eq (cs : List Comment) (ss : List Shape) : joinByCell cs ss = cs.map (byCell ss) := rfl

theorem byCell_skip (s : Shape) (r : List Shape) (c : Comment) (h : (s.col.isSome && s.names c.pos) = false) :
    byCell (s :: r) c = byCell r c := by
  simp only [byCell, List.find?_cons, h]

/-- **the loop is the join by cell** when the comments are on distinct cells, every note shape names the cell of
    a comment and no two note shapes name the same cell -/
theorem joinGo_byCell (cells : List (Nat × Nat)) (hd : cells.Nodup) (ss : List Shape) (cs : List Comment) (i : Nat)
    (hc : cs.map Comment.pos = cells)
    (h2 : ∀ s ∈ ss, s.col.isSome = true → ∃ k ∈ cells, s.names k = true)
    (h3 : ((ss.filter (·.col.isSome)).map Shape.cell?).Nodup) :
    joinGo i cs ss = cs.map (byCell ss) := by
  induction ss generalizing cs i with
  | nil =>
    have e : byCell ([] : List Shape) = id := by funext c; rfl
    simp [joinGo, e]
  | cons s r ih =>
    simp only [joinGo]
    by_cases hs : s.col.isSome = true
    · simp only [hs, if_true]
      simp only [List.filter_cons, hs, if_true, List.map_cons, List.nodup_cons] at h3
      obtain ⟨k, hk, hn⟩ := h2 s (by simp) hs
      obtain ⟨b, hb1, hb2⟩ := targetIndex_spec cells i s k hk hn
      rw [hc]
      have hj : ∃ c, cs[targetIndex cells i s]? = some c ∧ c.pos = b := by
        generalize targetIndex cells i s = t at hb1
        have hb1' : (cs.map Comment.pos)[t]? = some b := by rw [hc]; exact hb1
        rw [List.getElem?_map] at hb1'
        cases hg : cs[t]? with
        | none => rw [hg] at hb1'; simp at hb1'
        | some c => rw [hg] at hb1'; exact ⟨c, rfl, by simpa using hb1'⟩
      obtain ⟨c, hj1, hj2⟩ := hj
      rw [setShapeAt_unique cs (by rw [hc]; exact hd) _ c s hj1 (by rw [hj2]; exact hb2)]
      have hc' : (cs.map (putShape s)).map Comment.pos = cells := by
        rw [List.map_map, ← hc]
        apply List.map_congr_left
        intro x _
        exact putShape_pos s x
      rw [ih (cs.map (putShape s)) (i + 1) hc' (fun s' hs' => h2 s' (List.mem_cons_of_mem _ hs')) h3.2, List.map_map]
      apply List.map_congr_left
      intro x _
      simp only [Function.comp]
      cases hx : s.names x.pos with
      | true =>
        have hnone : r.find? (fun s' => s'.col.isSome && s'.names x.pos) = none := by
          apply List.find?_eq_none.2
          intro s' hs' hp
          simp only [Bool.and_eq_true] at hp
          apply h3.1
          refine List.mem_map.2 ⟨s', List.mem_filter.2 ⟨hs', hp.1⟩, ?_⟩
          have e1 := hp.2
          simp only [Shape.names, decide_eq_true_eq] at e1 hx
          rw [e1, hx]
        have hp : (putShape s x).pos = x.pos := putShape_pos s x
        simp only [byCell, hp, hnone, List.find?_cons, hs, hx, Bool.and_self]
        simp only [putShape, hx, if_true]
      | false =>
        rw [byCell_skip s r x (by simp [hx])]
        simp only [putShape, hx]
        rfl
    · simp only [hs]
      simp only [List.filter_cons, hs] at h3
      rw [ih cs i hc (fun s' hs' => h2 s' (List.mem_cons_of_mem _ hs')) (by simpa using h3)]
      apply List.map_congr_left
      intro x _
      rw [byCell_skip s r x (by simp [hs])]

/-! ## what the writer writes is in commentList order -/

theorem writtenShape_cell (c : Comment) (h1 : 1 ≤ c.cell.col) (h2 : 1 ≤ c.cell.row) : c.writtenShape.cell? = some c.pos := by
  have e1 : c.cell.col - 1 + 1 = c.cell.col := by omega
  have e2 : c.cell.row - 1 + 1 = c.cell.row := by omega
  simp only [Comment.writtenShape, Shape.cell?, Option.getD_some, Comment.pos, e1, e2]

theorem written_valid (cs : List Comment) (h : ∀ c ∈ cs, 1 ≤ c.cell.col ∧ 1 ≤ c.cell.row) :
    validCommentParts (cs.map strip) (cs.map Comment.writtenShape) := by
  unfold validCommentParts
  induction cs with
  | nil => rfl
  | cons c r ih =>
    have hc : c.writtenShape.col.isSome = true := rfl
    have := ih (fun x hx => h x (List.mem_cons_of_mem _ hx))
    simp only [List.map_cons, List.filter_cons, hc, if_true, this, writtenShape_cell c (h c (by simp)).1 (h c (by simp)).2]
    rfl

theorem written_all_notes (cs : List Comment) :
    (cs.map Comment.writtenShape).filter (fun s => s.col.isSome) = cs.map Comment.writtenShape := by
  apply List.filter_eq_self.2
  intro s hs
  obtain ⟨c, _, e⟩ := List.mem_map.1 hs
  subst e
  rfl

/-- under `validCommentParts` the loop is the zip of the comments with the note shapes -/
theorem joinShapes_valid (cs : List Comment) (ss : List Shape) (h : validCommentParts cs ss) :
    joinShapes cs ss = zipShapes cs (ss.filter fun s => s.col.isSome) := by
  unfold validCommentParts at h
  have ha : aligned (cs.map Comment.pos) 0 ss := by
    apply aligned_of_valid
    rw [h, List.drop_zero, List.map_map]
    rfl
  rw [joinShapes, joinGo_eq_pos _ _ _ ha]
  exact joinByPosition_zip cs ss

/-- when no note shape names the cell of a comment the loop is the zip of the comments with the note shapes -/
theorem joinShapes_fallback (cs : List Comment) (ss : List Shape)
    (h : ∀ s ∈ ss, ∀ c ∈ cs, s.names c.pos = false) :
    joinShapes cs ss = zipShapes cs (ss.filter fun s => s.col.isSome) := by
  have ha : ∀ (ss : List Shape) (i : Nat), (∀ s ∈ ss, ∀ c ∈ cs, s.names c.pos = false) → aligned (cs.map Comment.pos) i ss := by
    intro ss
    induction ss with
    | nil => intro _ _; trivial
    | cons s r ih =>
      intro i hh
      simp only [aligned]
      split
      · refine ⟨targetIndex_fallback _ i s ?_, ih (i + 1) (fun s' hs' => hh s' (List.mem_cons_of_mem _ hs'))⟩
        intro k hk
        obtain ⟨c, hc, e⟩ := List.mem_map.1 hk
        subst e
        exact hh s (by simp) c hc
      · exact ih i (fun s' hs' => hh s' (List.mem_cons_of_mem _ hs'))
  rw [joinShapes, joinGo_eq_pos _ _ _ (ha ss 0 h)]
  exact joinByPosition_zip cs ss

theorem nodup_map_some {α : Type} (l : List α) (h : l.Nodup) : (l.map some).Nodup := by
  induction l with
  | nil => simp
  | cons a r ih =>
    simp only [List.nodup_cons, List.map_cons] at h ⊢
    refine ⟨?_, ih h.2⟩
    intro hm
    obtain ⟨b, hb, e⟩ := List.mem_map.1 hm
    exact h.1 (Option.some.inj e ▸ hb)

end Umya.AnnotComment
