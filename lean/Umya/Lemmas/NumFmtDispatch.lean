/-
  Helper lemmas for C19 (dispatcher of number formatting, `Umya/Model/NumFmtDispatch.lean`):
  * a fuel-free well-formedness test for strftime strings, closed under concatenation, and what it gives for
    the pieces (`Seg`) of the strftime string of a date plan whatever the text of `value * 24` is;
  * `str::trim` is the identity on the texts the number / percentage renderers produce;
  * the fraction formatter's `replace("0.", "")` then `parse::<f64>()` on the text of a number in `[0, 1)`;
  * `run_isOk`: a plan that passes the decidable test `planOk` yields a text for every value.
-/
import Umya.Model.NumFmtDispatch
import Umya.Lemmas.DateFmt
import Umya.Lemmas.NumFmt
namespace Umya.Lemmas.NumFmtDispatch
open Umya.NumFmtDispatch Umya.NumFmt Umya.Dec Umya.Date Umya.Lemmas.DateFmt Umya.Spec

/-! ## strftime strings -/

/-- well-formed strftime string: literals and the modelled specifiers (`sfOk` of `Lemmas/DateFmt` without
    fuel and without overlapping patterns) -/
def sfOkF : List Char → Bool
  | [] => true
  | c :: r =>
    if c = '%' then
      match r with
      | [] => false
      | d :: r2 =>
        if d = '-' then
          match r2 with
          | [] => false
          | e :: r3 => dashOk e && sfOkF r3
        else plainOk d && sfOkF r2
    else sfOkF r

theorem strftime_someF (dt : DateTime) (hm : 1 ≤ dt.month ∧ dt.month ≤ 12) :
    ∀ (sf : List Char), sfOkF sf = true → ∀ fuel, sf.length < fuel → ∃ s, strftime dt sf fuel = some s := by
  intro sf
  fun_induction sfOkF sf with
  | case1 => intro _ fuel _; exact ⟨[], by simp [strftime]⟩
  | case2 => intro h; cases h
  | case3 => intro h; cases h
  | case4 e r3 ih =>
    intro h fuel hf
    simp only [Bool.and_eq_true] at h
    simp only [List.length_cons] at hf
    obtain ⟨k, rfl⟩ : ∃ k, fuel = k + 1 := ⟨fuel - 1, by omega⟩
    obtain ⟨a, ha⟩ := specDash_some dt e h.1
    obtain ⟨b, hb⟩ := ih h.2 k (by omega)
    exact ⟨a ++ b, by simp [strftime, ha, hb]⟩
  | case5 d r2 hd ih =>
    intro h fuel hf
    simp only [Bool.and_eq_true] at h
    simp only [List.length_cons] at hf
    obtain ⟨k, rfl⟩ : ∃ k, fuel = k + 1 := ⟨fuel - 1, by omega⟩
    obtain ⟨a, ha⟩ := specPlain_some dt hm d h.1
    obtain ⟨b, hb⟩ := ih h.2 k (by omega)
    exact ⟨a ++ b, by simp [strftime, ha, hb, hd]⟩
  | case6 c r hc ih =>
    intro h fuel hf
    simp only [List.length_cons] at hf
    obtain ⟨k, rfl⟩ : ∃ k, fuel = k + 1 := ⟨fuel - 1, by omega⟩
    obtain ⟨b, hb⟩ := ih h k (by omega)
    exact ⟨c :: b, by simp [strftime, hb, hc]⟩

theorem sfOkF_append : ∀ (a : List Char), sfOkF a = true → ∀ b, sfOkF b = true → sfOkF (a ++ b) = true := by
  intro a
  fun_induction sfOkF a with
  | case1 => intro _ b hb; simpa using hb
  | case2 => intro h; cases h
  | case3 => intro h; cases h
  | case4 e r3 ih =>
    intro h b hb
    simp only [Bool.and_eq_true] at h
    show sfOkF ('%' :: '-' :: e :: (r3 ++ b)) = true
    rw [sfOkF.eq_def]
    simp [h.1, ih h.2 b hb]
  | case5 d r2 hd ih =>
    intro h b hb
    simp only [Bool.and_eq_true] at h
    show sfOkF ('%' :: d :: (r2 ++ b)) = true
    rw [sfOkF.eq_def]
    simp [hd, h.1, ih h.2 b hb]
  | case6 c r hc ih =>
    intro h b hb
    show sfOkF (c :: (r ++ b)) = true
    rw [sfOkF.eq_def]
    simp [hc, ih h b hb]

theorem sfOkF_literal : ∀ (h : List Char), isHoursText h = true → sfOkF h = true := by
  intro h
  induction h with
  | nil => intro _; rfl
  | cons c r ih =>
    intro hh
    simp only [isHoursText, List.all_cons, Bool.and_eq_true, bne_iff_ne, ne_eq] at hh
    have := ih (by simpa [isHoursText] using hh.2)
    rw [sfOkF.eq_def]
    simp [hh.1, this]

/-- every literal piece is a well-formed strftime string on its own -/
def segsOk (segs : List Seg) : Bool :=
  segs.all (fun s => match s with
    | .lit l => sfOkF l
    | .hours => true)

theorem flatten_ok (segs : List Seg) (h : List Char) (hs : segsOk segs = true) (hh : isHoursText h = true) :
    sfOkF (flatten segs h) = true := by
  induction segs with
  | nil => rfl
  | cons s r ih =>
    simp only [segsOk, List.all_cons, Bool.and_eq_true] at hs
    have hr := ih (by simpa [segsOk] using hs.2)
    simp only [flatten, List.flatMap_cons]
    cases s with
    | lit l => exact sfOkF_append l hs.1 _ hr
    | hours => exact sfOkF_append h (sfOkF_literal h hh) _ hr

/-! ## `trim` -/

theorem dropWhile_isWs_id (s : List Char) (h : ∀ c, s.head? = some c → isWs c = false) :
    s.dropWhile isWs = s := by
  cases s with
  | nil => rfl
  | cons c r => simp [List.dropWhile, h c rfl]

/-- `trim` changes nothing when the first and the last character are not white space -/
theorem trimWs_id (s : List Char) (h1 : ∀ c, s.head? = some c → isWs c = false)
    (h2 : ∀ c, s.getLast? = some c → isWs c = false) : trimWs s = s := by
  unfold trimWs
  rw [dropWhile_isWs_id s h1, dropWhile_isWs_id s.reverse (by simpa using h2), List.reverse_reverse]

/-- the characters of a rendered number -/
def numCh (c : Char) : Bool := isDigit c || c == ',' || c == '-' || c == '.' || c == '%'

theorem numCh_not_ws (c : Char) (h : numCh c = true) : isWs c = false := by
  simp only [numCh, Bool.or_eq_true, beq_iff_eq] at h
  rcases h with (((h | h) | h) | h) | h
  · simp only [isDigit, Bool.and_eq_true, decide_eq_true_eq] at h
    simp only [isWs, Bool.or_eq_false_iff, Bool.and_eq_false_iff, decide_eq_false_iff_not, beq_eq_false_iff_ne]
    omega
  all_goals (subst h; decide)

theorem trimWs_numCh (s : List Char) (h : s.all numCh = true) : trimWs s = s := by
  rw [List.all_eq_true] at h
  apply trimWs_id
  · intro c hc
    exact numCh_not_ws c (h c (List.mem_of_mem_head? hc))
  · intro c hc
    exact numCh_not_ws c (h c (List.mem_of_getLast? hc))

theorem groupNat_numCh (m : Nat) : (groupNat m).all numCh = true := by
  have := groupNat_all m
  rw [List.all_eq_true] at this ⊢
  intro c hc
  have h := this c hc
  simp only [Bool.or_eq_true, beq_iff_eq] at h
  rcases h with h | h <;> simp [numCh, h]

theorem digits_numCh (l : List Char) (h : l.all isDigit = true) : l.all numCh = true := by
  rw [List.all_eq_true] at h ⊢
  intro c hc
  simp [numCh, h c hc]

theorem render_numCh (sgn : Bool) (R n : Nat) (th : Bool) : (render sgn R n th).all numCh = true := by
  unfold render intText
  simp only [List.all_append, Bool.and_eq_true]
  refine ⟨⟨?_, ?_⟩, ?_⟩
  · cases sgn <;> decide
  · cases th
    · simpa using digits_numCh _ (decDigits_all_digit _)
    · simpa using groupNat_numCh _
  · split
    · rfl
    · simp only [List.all_cons, Bool.and_eq_true]
      exact ⟨by decide, digits_numCh _ (padLeft_all_digit _ _)⟩

theorem formatDecimal_numCh (t : DecText) (shift n : Nat) (th : Bool) :
    (formatDecimal t shift n th).all numCh = true := by
  rw [formatDecimal_eq]; exact render_numCh _ _ _ _

/-- `trim` keeps a rendered number (and a rendered percentage) -/
theorem trimWs_formatDecimal (t : DecText) (shift n : Nat) (th : Bool) :
    trimWs (formatDecimal t shift n th) = formatDecimal t shift n th :=
  trimWs_numCh _ (formatDecimal_numCh t shift n th)

theorem trimWs_formatDecimal_pct (t : DecText) (shift n : Nat) (th : Bool) :
    trimWs (formatDecimal t shift n th ++ ['%']) = formatDecimal t shift n th ++ ['%'] := by
  apply trimWs_numCh
  simp only [List.all_append, Bool.and_eq_true]
  exact ⟨formatDecimal_numCh t shift n th, by decide⟩

theorem trimWs_digits (l : List Char) (h : l.all isDigit = true) : trimWs l = l :=
  trimWs_numCh l (digits_numCh l h)

/-! ## the fraction formatter's decimal part -/

theorem replaceAll_go_digits (rep : List Char) :
    ∀ (fuel : Nat) (ds : List Char), ds.all isDigit = true → replaceAll.go ['0', '.'] rep ds fuel = ds := by
  intro fuel
  induction fuel with
  | zero => intro ds _; cases ds <;> rfl
  | succ f ih =>
    intro ds h
    cases ds with
    | nil => rfl
    | cons c r =>
      simp only [List.all_cons, Bool.and_eq_true] at h
      have hsw : startsWith (c :: r) ['0', '.'] = false := by
        cases r with
        | nil => simp [startsWith]
        | cons d r' =>
          have hd : isDigit d = true := by
            have := h.2; simp only [List.all_cons, Bool.and_eq_true] at this; exact this.1
          have : d ≠ '.' := by intro e; subst e; exact absurd hd (by decide)
          simp [startsWith, this]
      simp only [replaceAll.go, hsw, Bool.and_false, Bool.false_eq_true, if_false]
      rw [ih r h.2]

theorem asciiLower_digit (c : Char) (h : isDigit c = true) : asciiLower c = c := by
  simp only [isDigit, Bool.and_eq_true, decide_eq_true_eq] at h
  unfold asciiLower
  rw [if_neg (by omega)]

theorem takeWhile_all {p : Char → Bool} : ∀ (l : List Char), l.all p = true → l.takeWhile p = l := by
  intro l
  induction l with
  | nil => intro _; rfl
  | cons c r ih =>
    intro h
    simp only [List.all_cons, Bool.and_eq_true] at h
    rw [List.takeWhile_cons_of_pos h.1, ih h.2]

theorem dropWhile_all {p : Char → Bool} : ∀ (l : List Char), l.all p = true → l.dropWhile p = [] := by
  intro l
  induction l with
  | nil => intro _; rfl
  | cons c r ih =>
    intro h
    simp only [List.all_cons, Bool.and_eq_true] at h
    rw [List.dropWhile_cons_of_pos h.1, ih h.2]

/-- Rust parses a non-empty string of ASCII digits as `f64` -/
theorem isF64Syntax_digits (ds : List Char) (hne : ds ≠ []) (h : ds.all isDigit = true) :
    isF64Syntax ds = true := by
  cases ds with
  | nil => exact absurd rfl hne
  | cons c r =>
    have hall := h
    simp only [List.all_cons, Bool.and_eq_true] at h
    have hc := h.1
    have hplus : c ≠ '+' := by intro e; subst e; exact absurd hc (by decide)
    have hminus : c ≠ '-' := by intro e; subst e; exact absurd hc (by decide)
    have hi : c ≠ 'i' := by intro e; subst e; exact absurd hc (by decide)
    have hn : c ≠ 'n' := by intro e; subst e; exact absurd hc (by decide)
    have hs : stripSign (c :: r) = c :: r := by
      unfold stripSign
      split
      · rename_i heq; cases heq; exact absurd rfl hplus
      · rename_i heq; cases heq; exact absurd rfl hminus
      · rfl
    have hlow : ∀ (x : Char) (w : List Char), (x = 'i' ∨ x = 'n') → (c :: r).map asciiLower ≠ x :: w := by
      intro x w hx e
      simp only [List.map_cons, List.cons.injEq, asciiLower_digit c hc] at e
      rcases hx with hx | hx
      · exact hi (e.1.trans hx)
      · exact hn (e.1.trans hx)
    have htw : (c :: r).takeWhile isDigit = c :: r := takeWhile_all _ hall
    have hdw : (c :: r).dropWhile isDigit = [] := dropWhile_all _ hall
    unfold isF64Syntax
    simp only [hs]
    rw [if_neg]
    · simp only [htw, hdw]
      simp
    · intro hor
      rcases hor with e | e | e
      · exact hlow 'i' _ (Or.inl rfl) e
      · exact hlow 'i' _ (Or.inl rfl) e
      · exact hlow 'n' _ (Or.inr rfl) e

/-- the text of a number in `[0, 1)` with `0.` removed parses as `f64` -/
theorem fractionDecimalPart_some (rem : List Char) (h : isFracText rem = true) :
    ∃ s, fractionDecimalPart rem = some s := by
  unfold isFracText at h
  split at h
  · exact ⟨['0'], by decide⟩
  · rename_i ds
    simp only [Bool.and_eq_true, Bool.not_eq_true', List.isEmpty_eq_false_iff] at h
    have hgo : replaceAll ('0' :: '.' :: ds) ['0', '.'] [] = ds := by
      unfold replaceAll
      simp only [List.length_cons, replaceAll.go]
      simp [startsWith, replaceAll_go_digits [] _ ds h.2]
    unfold fractionDecimalPart
    simp only [hgo, isF64Syntax_digits ds h.1 h.2, if_true]
    exact ⟨_, rfl⟩
  · cases h

/-! ## plans -/

/-- decidable test on a plan: none of its steps can panic or leave the model -/
def planOk : Plan → Bool
  | .date segs _ => segsOk segs
  | .stop _ => false
  | _ => true

theorem date_isOk {F : Type} [FloatOps F] (segs : List Seg) (g h : List Char) (ts : F)
    (hs : segsOk segs = true) (hh : isHoursText h = true) :
    ∃ b t, (match excelToEpochSecondsChecked ts with
      | none => Outcome.ok .dateOutOfRange (some (trimWs g))
      | some t =>
        match strftime (ofEpochSeconds t) (flatten segs h) ((flatten segs h).length + 1) with
        | some s => Outcome.ok .date (some (trimWs s))
        | none => Outcome.unmodelled "strftime specifier") = .ok b t := by
  cases excelToEpochSecondsChecked ts with
  | none => exact ⟨_, _, rfl⟩
  | some t =>
    have hok := flatten_ok segs h hs hh
    obtain ⟨s, hs'⟩ := strftime_someF (ofEpochSeconds t) (ofEpochSeconds_month t) _ hok
      ((flatten segs h).length + 1) (by omega)
    refine ⟨.date, some (trimWs s), ?_⟩
    simp [hs']

/-- **A plan that passes `planOk` returns a text for every value** (and every double, remainder text of the
    shape `0` / `0.D+`, hours text without `%`). -/
theorem run_isOk {F : Type} [FloatOps F] (p : Plan) (v : List Char) (env : Env F) (hp : planOk p = true)
    (hr : isFracText env.rem = true) (hh : isHoursText env.hours = true) (hha : isHoursText env.hoursAbs = true) :
    ∃ b t, run p v env = .ok b t := by
  cases p with
  | general => exact ⟨_, _, rfl⟩
  | text => exact ⟨_, _, rfl⟩
  | date segs useAbs =>
    simp only [planOk] at hp
    unfold run
    cases useAbs
    · exact date_isOk segs v env.hours env.val hp hh
    · exact date_isOk segs (absText v) env.hoursAbs env.absVal hp hha
  | literal inner =>
    by_cases hf : isF64Syntax inner = true
    · exact ⟨.literal, none, by simp only [run, hf, if_true]⟩
    · exact ⟨.literal, some (trimWs inner), by simp only [run, hf]; rfl⟩
  | percent n th useAbs => exact ⟨_, _, rfl⟩
  | fraction pre useAbs =>
    obtain ⟨s, hs⟩ := fractionDecimalPart_some env.rem hr
    unfold run
    simp only [hs]
    by_cases hq : parsesAsUsize (if useAbs = true then absText v else v) = true
    · refine ⟨.fractionWhole, some (trimWs (pre ++ if useAbs = true then absText v else v)), ?_⟩
      simp only [hq, if_true]
    · exact ⟨.fraction, none, by simp only [hq]; rfl⟩
  | number dec th pre useAbs =>
    cases dec with
    | none => exact ⟨_, _, rfl⟩
    | some n => exact ⟨_, _, rfl⟩
  | stop s => simp [planOk] at hp

/-! ## from a plan to the renderer -/

theorem dispatch_of_plan_number {F : Type} [FloatOps F] (code v : List Char) (env : Env F) (t : DecText)
    (n : Nat) (th : Bool) (hv : isPlainDecimal v = true) (ht : parseDecText v = some t)
    (hpl : plan code (signClass v) = .number (some n) th [] false) :
    dispatch code v env = .ok .number (some (formatFixed t n th)) := by
  unfold dispatch
  simp only [hv, Bool.not_true, Bool.false_eq_true, if_false, hpl, run, List.nil_append, formatDecimalText, ht,
    trimWs_formatDecimal, formatFixed]

theorem dispatch_of_plan_percent {F : Type} [FloatOps F] (code v : List Char) (env : Env F) (t : DecText)
    (n : Nat) (th : Bool) (hv : isPlainDecimal v = true) (ht : parseDecText v = some t)
    (hpl : plan code (signClass v) = .percent n th false) :
    dispatch code v env = .ok .percent (some (formatPercent t n th)) := by
  unfold dispatch
  simp only [hv, Bool.not_true, Bool.false_eq_true, if_false, hpl, run, formatDecimalText, ht,
    trimWs_formatDecimal_pct, formatPercent]

theorem render_ne_nil (sgn : Bool) (R n : Nat) (th : Bool) : render sgn R n th ≠ [] := by
  unfold render intText
  intro h
  simp only [List.append_eq_nil_iff] at h
  cases th
  · exact decDigits_ne_nil _ (by simpa using h.1.2)
  · have hf := groupNat_filter (R / 10 ^ n)
    have hg : groupNat (R / 10 ^ n) = [] := by simpa using h.1.2
    rw [hg] at hf
    exact decDigits_ne_nil _ hf.symm

theorem formatDecimal_ne_nil (t : DecText) (shift n : Nat) (th : Bool) : formatDecimal t shift n th ≠ [] := by
  rw [formatDecimal_eq]
  exact render_ne_nil _ _ _ _

theorem trimWs_prefixed (pre : List Char) (t : DecText) (n : Nat) (th : Bool)
    (hpre : ∀ c, pre.head? = some c → isWs c = false) :
    trimWs (pre ++ formatDecimal t 0 n th) = pre ++ formatDecimal t 0 n th := by
  have hne := formatDecimal_ne_nil t 0 n th
  have hall := List.all_eq_true.mp (formatDecimal_numCh t 0 n th)
  apply trimWs_id
  · intro c hc
    rw [List.head?_append] at hc
    cases hp : pre.head? with
    | none =>
      rw [hp] at hc
      exact numCh_not_ws c (hall c (List.mem_of_mem_head? (by simpa using hc)))
    | some d =>
      rw [hp] at hc
      have : d = c := by simpa using hc
      subst this
      exact hpre d hp
  · intro c hc
    rw [List.getLast?_append] at hc
    cases hl : (formatDecimal t 0 n th).getLast? with
    | none => exact absurd (List.getLast?_eq_none_iff.mp hl) hne
    | some d =>
      rw [hl] at hc
      have : d = c := by simpa using hc
      subst this
      exact numCh_not_ws d (hall d (List.mem_of_getLast? hl))

end Umya.Lemmas.NumFmtDispatch
