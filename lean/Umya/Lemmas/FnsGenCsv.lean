/-
  (T) translator, part 3 — `src/writer/csv.rs::write_writer`: the per-field pipeline of the column loop
  (trim → wrap with doubling / conditional quoting) and the per-row output (`join(",")`, `"\r\n"`) as compiled from
  the source on this run are the hand model's `renderField` / `renderRow` (`Umya/Model/Csv.lean`).
  Representation: the source handles `wrap_with_char` as a string; the model covers the empty string (`none`) and
  one-character strings (`some q`): `wrapText`.
-/
import Umya.Lemmas.FnsGen
import Umya.Model.Csv
namespace Umya.Gen
open Umya.Csv
set_option linter.unusedSimpArgs false

def wrapText : Option Char → List Char
  | none => []
  | some q => [q]

theorem rt_trim_eq (s : List Char) : rt_trim s = trim s := rfl

theorem rt_join_eq (sep : List Char) (l : List (List Char)) : rt_join sep l = join sep l := by
  fun_induction join sep l with
  | case1 => rfl
  | case2 x => rfl
  | case3 x y r ih => simp [rt_join, ih]

theorem replace_str_one (q : Char) (to v : List Char) :
    rt_replace_str v [q] to = v.flatMap (fun c => if c = q then to else [c]) := by
  unfold rt_replace_str
  induction v with
  | nil => rfl
  | cons c r ih =>
    by_cases h : c = q
    · subst h; simp [replaceGo, List.isPrefixOf, ih]
    · have h' : ¬ q = c := fun e => h e.symm
      simp [replaceGo, List.isPrefixOf, ih, h, h']

theorem replace_char_one (q : Char) (to v : List Char) :
    rt_replace_char v q to = v.flatMap (fun c => if c = q then to else [c]) := by
  unfold rt_replace_char replaceChars
  congr 1; funext c
  by_cases h : c = q
  · subst h; simp
  · have h' : ¬ q = c := fun e => h e.symm
    simp [h, h']

theorem rt_repeat_two (s : List Char) : rt_repeat s 2 = s ++ s := by simp [rt_repeat, List.replicate]

/-- the quoting test, whatever the order of the alternatives of the `matches!` (or a chain of `==`) in the source -/
theorem any_quote (v : List Char) (f : Char → Bool) (h : ∀ c, f c = (c == ',' || c == '"' || c == '\r' || c == '\n')) :
    List.any v f = needsQuote v := by
  unfold needsQuote; congr 1; funext c; exact h c

/-- discharges the side condition of `any_quote`: a Boolean combination of comparisons of one character with literals -/
macro "char_cases" : tactic => `(tactic|
  (intro (c : Char)        -- fails cleanly on any other side goal `simp` hands to the discharger
   by_cases h1 : c = ','
   · subst h1; decide
   by_cases h2 : c = '"'
   · subst h2; decide
   by_cases h3 : c = '\r'
   · subst h3; decide
   by_cases h4 : c = '\n'
   · subst h4; decide
   have e1 : (c == ',') = false := beq_eq_false_iff_ne.2 h1
   have e2 : (c == '"') = false := beq_eq_false_iff_ne.2 h2
   have e3 : (c == '\r') = false := beq_eq_false_iff_ne.2 h3
   have e4 : (c == '\n') = false := beq_eq_false_iff_ne.2 h4
   simp [e1, e2, e3, e4]))

/-- the field pipeline: the quoting test brought to the model's `needsQuote`, then the option record taken apart -/
macro "csv_field_eq" : tactic => `(tactic|
  ((try simp (disch := char_cases) only [any_quote])
   (try simp only [Nat.add_comm 1])))

/-- the column loop's statements between the fetch of the value and `row_vec.push(value)` = `renderField` -/
theorem gen_csv_field (o : Opts) (v : Text) : csv_field o.trim (wrapText o.wrap) v = renderField o v := by
  unfold csv_field renderField fieldValue quoted escape
  csv_field_eq
  cases hw : o.wrap with
  | none =>
    cases ht : o.trim <;>
      simp [wrapText, rt_trim_eq, replace_char_one, replace_str_one, rt_repeat_two] <;>
      (repeat' split) <;> simp_all
  | some q =>
    cases ht : o.trim <;>
      simp [wrapText, rt_trim_eq, replace_char_one, replace_str_one, rt_repeat_two]

/-- what one iteration of the row loop appends after the column loop = `join(",")` followed by CR LF -/
theorem gen_csv_row (o : Opts) (row : List Text) : csv_row (row.map (renderField o)) = renderRow o row := by
  unfold csv_row renderRow
  simp [rt_join_eq]

/-! ## the double loop as a whole (`csv_text`): `for` loops are left folds of the lifted bodies -/

theorem foldl_push {α β} (f : α → β) (l : List α) (init : List β) :
    List.foldl (fun st x => st ++ [f x]) init l = init ++ l.map f := by
  induction l generalizing init with
  | nil => simp
  | cons a l ih => simp [ih]

theorem foldl_append {α β} (h : α → List β) (l : List α) (init : List β) :
    List.foldl (fun st x => st ++ h x) init l = init ++ l.flatMap h := by
  induction l generalizing init with
  | nil => simp
  | cons a l ih => simp [ih]

/-- `worksheet.get_cell((column, row))` + `get_value()` on the model's grid -/
def gridCell (g : Grid) : Nat × Nat → Option Text := fun p => g.lookup (p.2, p.1)

/-- the body of the column loop: fetch (a missing cell is the empty text), the field pipeline, `row_vec.push(value)` -/
theorem gen_csv_column_body (g : Grid) (o : Opts) (row : Nat) (rv : List Text) (col : Nat) :
    csv_text_loop_0_loop_0 o.trim (gridCell g) (wrapText o.wrap) row rv col =
      rv ++ [renderField o (g.get (row + 1) (col + 1))] := by
  unfold csv_text_loop_0_loop_0 renderField fieldValue quoted escape Grid.get gridCell
  csv_field_eq
  cases hl : List.lookup (row + 1, col + 1) g <;> cases hw : o.wrap with
  | none =>
    cases ht : o.trim <;>
      simp [wrapText, rt_trim_eq, replace_char_one, replace_str_one, rt_repeat_two] <;>
      (repeat' split) <;> simp_all
  | some q =>
    cases ht : o.trim <;>
      simp [wrapText, rt_trim_eq, replace_char_one, replace_str_one, rt_repeat_two]

/-- the body of the row loop: the column loop from an empty `row_vec`, then `join(",")` and CR LF appended to `data` -/
theorem gen_csv_row_body (g : Grid) (o : Opts) (mc : Nat) (data : Text) (row : Nat) :
    csv_text_loop_0 o.trim (gridCell g) (wrapText o.wrap) mc data row =
      data ++ renderRow o ((List.range mc).map fun col => g.get (row + 1) (col + 1)) := by
  unfold csv_text_loop_0 renderRow
  simp only [gen_csv_column_body, foldl_push, rt_join_eq, List.nil_append, List.map_map, Function.comp_def, List.append_assoc] <;>
    (try simp)

/-- the string `data` built by `write_writer` as it is in the source — both loops, the fetch of every cell, the field
    pipeline, `join`, the line terminator — is the model's text, for every grid, every option record of the modelled
    fragment and every pair of bounds -/
theorem gen_csv_text (g : Grid) (o : Opts) (mc mr : Nat) :
    csv_text o.trim (gridCell g) (wrapText o.wrap) mc mr =
      (List.range mr).flatMap fun row => renderRow o ((List.range mc).map fun col => g.get (row + 1) (col + 1)) := by
  unfold csv_text
  simp only [gen_csv_row_body, foldl_append, List.nil_append] <;> (try simp)

end Umya.Gen
