import Umya.Model.XmlEsc
namespace Umya.XmlEsc

theorem unescGo_escCharOld (c : Char) (rest : List Char) :
    unescGo .out (escCharOld c ++ rest) = (unescGo .out rest).map (c :: ·) := by
  unfold escCharOld
  split
  · rename_i h; subst h; simp [unescGo, resolve]
  · split
    · rename_i h; subst h; simp [unescGo, resolve]
    · split
      · rename_i h; subst h; simp [unescGo, resolve]
      · split
        · rename_i h; subst h; simp [unescGo, resolve]
        · split
          · rename_i h; subst h; simp [unescGo, resolve]
          · rename_i h1 h2 h3 h4 h5
            simp [unescGo, h3]

theorem resolve_cr : resolve "#13".toList = some ['\r'] := by decide
theorem resolve_lf : resolve "#10".toList = some ['\n'] := by decide
theorem resolve_tab : resolve "#9".toList = some ['\t'] := by decide

theorem unescGo_cr (rest : List Char) : unescGo .out ("&#13;".toList ++ rest) = (unescGo .out rest).map ('\r' :: ·) := by
  have := resolve_cr
  simp [unescGo] at this ⊢
  simp [this]

theorem unescGo_lf (rest : List Char) : unescGo .out ("&#10;".toList ++ rest) = (unescGo .out rest).map ('\n' :: ·) := by
  have := resolve_lf
  simp [unescGo] at this ⊢
  simp [this]

theorem unescGo_tab (rest : List Char) : unescGo .out ("&#9;".toList ++ rest) = (unescGo .out rest).map ('\t' :: ·) := by
  have := resolve_tab
  simp [unescGo] at this ⊢
  simp [this]

theorem unescGo_escChar (c : Char) (rest : List Char) :
    unescGo .out (escChar c ++ rest) = (unescGo .out rest).map (c :: ·) := by
  unfold escChar
  split
  · rename_i h; subst h; exact unescGo_cr rest
  · exact unescGo_escCharOld c rest

theorem unescGo_attrEscChar (c : Char) (rest : List Char) :
    unescGo .out (attrEscChar c ++ rest) = (unescGo .out rest).map (c :: ·) := by
  unfold attrEscChar
  split
  · rename_i h; subst h; exact unescGo_tab rest
  · split
    · rename_i h; subst h; exact unescGo_lf rest
    · exact unescGo_escChar c rest

theorem unescGo_pescChar (c : Char) (rest : List Char) :
    unescGo .out (pescChar c ++ rest) = (unescGo .out rest).map (c :: ·) := by
  unfold pescChar
  split
  · rename_i h; subst h; simp [unescGo, resolve]
  · split
    · rename_i h; subst h; simp [unescGo, resolve]
    · split
      · rename_i h; subst h; simp [unescGo, resolve]
      · split
        · rename_i h; subst h; exact unescGo_cr rest
        · rename_i h1 h2 h3 h4
          simp [unescGo, h3]

theorem unescape_escape (s : List Char) : unescape (escape s) = some s := by
  unfold unescape escape
  induction s with
  | nil => rfl
  | cons c r ih => rw [List.flatMap_cons, unescGo_escChar, ih]; rfl

theorem unescape_attrEscape (s : List Char) : unescape (attrEscape s) = some s := by
  unfold unescape attrEscape
  induction s with
  | nil => rfl
  | cons c r ih => rw [List.flatMap_cons, unescGo_attrEscChar, ih]; rfl

theorem unescape_partialEscape (s : List Char) : unescape (partialEscape s) = some s := by
  unfold unescape partialEscape
  induction s with
  | nil => rfl
  | cons c r ih => rw [List.flatMap_cons, unescGo_pescChar, ih]; rfl


theorem escCharOld_safe (d : Char) : ∀ c ∈ escCharOld d, c ≠ '<' ∧ c ≠ '"' ∧ c ≠ '\'' ∧ c ≠ '>' := by
  intro c hd
  unfold escCharOld at hd
  split at hd
  · simp at hd; rcases hd with h | h | h | h <;> subst h <;> decide
  · split at hd
    · simp at hd; rcases hd with h | h | h | h <;> subst h <;> decide
    · split at hd
      · simp at hd; rcases hd with h | h | h | h | h <;> subst h <;> decide
      · split at hd
        · simp at hd; rcases hd with h | h | h | h | h | h <;> subst h <;> decide
        · split at hd
          · simp at hd; rcases hd with h | h | h | h | h | h <;> subst h <;> decide
          · simp at hd; subst hd
            rename_i h1 h2 h3 h4 h5
            exact ⟨h1, h5, h4, h2⟩

theorem escCharOld_ws (d c : Char) (h : c ∈ escCharOld d) (hc : c = '\r' ∨ c = '\n' ∨ c = '\t') : c = d := by
  unfold escCharOld at h
  split at h
  · exfalso; simp at h; rcases h with e | e | e | e <;> subst e <;> (rcases hc with x | x | x <;> exact absurd x (by decide))
  · split at h
    · exfalso; simp at h; rcases h with e | e | e | e <;> subst e <;> (rcases hc with x | x | x <;> exact absurd x (by decide))
    · split at h
      · exfalso; simp at h; rcases h with e | e | e | e | e <;> subst e <;> (rcases hc with x | x | x <;> exact absurd x (by decide))
      · split at h
        · exfalso; simp at h; rcases h with e | e | e | e | e | e <;> subst e <;> (rcases hc with x | x | x <;> exact absurd x (by decide))
        · split at h
          · exfalso; simp at h; rcases h with e | e | e | e | e | e <;> subst e <;> (rcases hc with x | x | x <;> exact absurd x (by decide))
          · simpa using h

/-- the escaped text contains none of the characters that would end or break an attribute
    value or a text node, and no literal white space that a reader would normalise -/
theorem attrEscape_safe (s : List Char) :
    ∀ c ∈ attrEscape s, c ≠ '<' ∧ c ≠ '"' ∧ c ≠ '\'' ∧ c ≠ '>' ∧ c ≠ '\r' ∧ c ≠ '\n' ∧ c ≠ '\t' := by
  intro c hc
  simp only [attrEscape, List.mem_flatMap] at hc
  obtain ⟨d, _, hd⟩ := hc
  unfold attrEscChar at hd
  split at hd
  · simp at hd; rcases hd with h | h | h | h <;> subst h <;> decide
  · split at hd
    · simp at hd; rcases hd with h | h | h | h | h <;> subst h <;> decide
    · rename_i ht hn
      unfold escChar at hd
      split at hd
      · simp at hd; rcases hd with h | h | h | h | h <;> subst h <;> decide
      · rename_i hr
        have h4 := escCharOld_safe d c hd
        refine ⟨h4.1, h4.2.1, h4.2.2.1, h4.2.2.2, ?_, ?_, ?_⟩
        · intro e; exact hr ((escCharOld_ws d c hd (Or.inl e)).symm.trans e)
        · intro e; exact hn ((escCharOld_ws d c hd (Or.inr (Or.inl e))).symm.trans e)
        · intro e; exact ht ((escCharOld_ws d c hd (Or.inr (Or.inr e))).symm.trans e)

/-- the reader's white-space normalisation leaves a value without literal tab / LF / CR alone -/
theorem attrNorm_of_no_ws (s : List Char) (h : ∀ c ∈ s, c ≠ '\r' ∧ c ≠ '\n' ∧ c ≠ '\t') :
    attrNorm s = s := by
  fun_induction attrNorm s with
  | case1 => rfl
  | case2 r _ => exact absurd rfl (h '\r' (by simp)).1
  | case3 c r _ ih =>
    have hc := h c (by simp)
    have : ¬ (c = '\t' ∨ c = '\n' ∨ c = '\r') := by
      rintro (e | e | e)
      · exact hc.2.2 e
      · exact hc.2.1 e
      · exact hc.1 e
    rw [if_neg this, ih (fun d hd => h d (by simp [hd]))]

theorem attrNorm_attrEscape (s : List Char) : attrNorm (attrEscape s) = attrEscape s :=
  attrNorm_of_no_ws _ (fun c hc => by
    have := attrEscape_safe s c hc
    exact ⟨this.2.2.2.2.1, this.2.2.2.2.2.1, this.2.2.2.2.2.2⟩)

/-- exactly one escape on write and one unescape on read: every attribute text survives
    (the writer emits no literal tab / LF / CR, so the reader's normalisation is the identity) -/
theorem attrRead_attrWrite (s : List Char) : attrRead (attrWrite s) = s := by
  simp [attrRead, attrWrite, attrNorm_attrEscape, unescape_attrEscape]

end Umya.XmlEsc
