import Umya.Model.XmlEsc
namespace Umya.XmlEsc

theorem unescGo_escChar (c : Char) (rest : List Char) :
    unescGo .out (escChar c ++ rest) = (unescGo .out rest).map (c :: ·) := by
  unfold escChar
  split
  · rename_i h; subst h; simp [unescGo, resolve]
  · split
    · rename_i h; subst h; simp [unescGo, resolve]
    · split
      · rename_i h; subst h; simp [unescGo, resolve]
      · split
        · rename_i h; subst h; simp [unescGo, resolve]
        · split
          · rename_i h; subst h; simp [unescGo, resolve]
          · rename_i h1 h2 h3 h4 h5
            simp [unescGo, h3]

theorem unescGo_pescChar (c : Char) (rest : List Char) :
    unescGo .out (pescChar c ++ rest) = (unescGo .out rest).map (c :: ·) := by
  unfold pescChar
  split
  · rename_i h; subst h; simp [unescGo, resolve]
  · split
    · rename_i h; subst h; simp [unescGo, resolve]
    · split
      · rename_i h; subst h; simp [unescGo, resolve]
      · rename_i h1 h2 h3
        simp [unescGo, h3]

theorem unescape_escape (s : List Char) : unescape (escape s) = some s := by
  unfold unescape escape
  induction s with
  | nil => rfl
  | cons c r ih =>
    rw [List.flatMap_cons, unescGo_escChar, ih]; rfl

theorem unescape_partialEscape (s : List Char) : unescape (partialEscape s) = some s := by
  unfold unescape partialEscape
  induction s with
  | nil => rfl
  | cons c r ih =>
    rw [List.flatMap_cons, unescGo_pescChar, ih]; rfl

/-- exactly one escape on write and one unescape on read: every attribute text survives -/
theorem attrRead_attrWrite (s : List Char) : attrRead (attrWrite s) = s := by
  simp [attrRead, attrWrite, unescape_escape]

/-- the escaped text contains none of the characters that would end or break an attribute
    value or a text node -/
theorem escape_safe (s : List Char) : ∀ c ∈ escape s, c ≠ '<' ∧ c ≠ '"' ∧ c ≠ '\'' ∧ c ≠ '>' := by
  intro c hc
  simp only [escape, List.mem_flatMap] at hc
  obtain ⟨d, _, hd⟩ := hc
  unfold escChar at hd
  split at hd
  · simp at hd; rcases hd with h | h | h | h <;> subst h <;> decide
  · split at hd
    · simp at hd; rcases hd with h | h | h | h <;> subst h <;> decide
    · split at hd
      · simp at hd; rcases hd with h | h | h | h | h <;> subst h <;> decide
      · split at hd
        · simp at hd; rcases hd with h | h | h | h | h | h <;> subst h <;> decide
        · split at hd
          · simp at hd; rcases hd with h | h | h | h | h | h <;> subst h <;> decide
          · simp at hd; subst hd
            rename_i h1 h2 h3 h4 h5
            exact ⟨h1, h5, h4, h2⟩

end Umya.XmlEsc
