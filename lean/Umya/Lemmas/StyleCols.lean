/-
  `Columns::write_to` merges adjacent equal columns into one `<col min max>`; the reader expands
  `min..=max` again.  The expansion of the merged list is the list itself.
-/
import Umya.Model.Style
namespace Umya.Style

variable {σ : Type}

theorem bit_inj {a b : Bool} (h : bit a = bit b) : a = b := by
  cases a <;> cases b <;> simp [bit] at h ⊢

/-- the concatenated key of a column IS injective: the two flags are one character each, so the
    width text is whatever precedes them -/
theorem Col.keyText_inj {c d : Col σ} (h : c.keyText = d.keyText) :
    c.width = d.width ∧ c.hidden = d.hidden ∧ c.bestFit = d.bestFit := by
  unfold Col.keyText at h
  obtain ⟨h1, h2⟩ := List.append_inj' h rfl
  obtain ⟨h3, h4⟩ := List.append_inj' h1 rfl
  exact ⟨h3, bit_inj (by simpa using h4), bit_inj (by simpa using h2)⟩

theorem sameRun_eq [DecidableEq σ] {key : Tok → Tok} (hkey : ∀ a b, key a = key b → a = b) {obj c : Col σ} {max : Nat}
    (h : sameRun key obj c max = true) : c = { obj with num := max + 1 } := by
  unfold sameRun at h
  simp only [Bool.and_eq_true, beq_iff_eq] at h
  obtain ⟨⟨hn, hk⟩, hs⟩ := h
  obtain ⟨hw, hh, hb⟩ := Col.keyText_inj (hkey _ _ hk)
  cases c; cases obj
  simp_all

theorem expand_cons (r : ColRun σ) (rs : List (ColRun σ)) : expand (r :: rs) = expandRun r ++ expand rs := by
  simp [expand]

theorem mergeGo_expand [DecidableEq σ] {key : Tok → Tok} (hkey : ∀ a b, key a = key b → a = b) :
    ∀ (cs : List (Col σ)) (obj : Col σ) (min max : Nat), min ≤ max →
      expand (mergeGo key obj min max cs) =
        (List.range' min (max + 1 - min)).map (fun i => { obj with num := i }) ++ cs
  | [], obj, min, max, _ => by simp [mergeGo, expand, expandRun]
  | c :: cs, obj, min, max, hle => by
    unfold mergeGo
    by_cases hs : sameRun key obj c max = true
    · simp only [hs, if_true]
      rw [mergeGo_expand hkey cs obj min (max + 1) (by omega)]
      have hc := sameRun_eq hkey hs
      have hlen : max + 1 + 1 - min = (max + 1 - min) + 1 := by omega
      rw [hlen, List.range'_concat, List.map_append, List.append_assoc]
      congr 1
      have h2 : min + (max + 1 - min) = max + 1 := by omega
      simp [h2, hc]
    · have hs' : sameRun key obj c max = false := by simpa using hs
      simp only [hs', Bool.false_eq_true, if_false]
      rw [expand_cons, mergeGo_expand hkey cs c c.num c.num (Nat.le_refl _)]
      have : c.num + 1 - c.num = 1 := by omega
      simp [expandRun, this]

/-- expanding the merged runs gives back the column list, for ANY list (the merge only ever joins a
    column to the run that ends just before it and has the same width / hidden / bestFit / style) -/
theorem expand_mergeCols [DecidableEq σ] {key : Tok → Tok} (hkey : ∀ a b, key a = key b → a = b) (l : List (Col σ)) :
    expand (mergeCols key l) = l := by
  cases l with
  | nil => simp [mergeCols, expand]
  | cons c cs =>
    unfold mergeCols
    rw [mergeGo_expand hkey cs c c.num c.num (Nat.le_refl _)]
    have : c.num + 1 - c.num = 1 := by omega
    simp [this]

end Umya.Style
