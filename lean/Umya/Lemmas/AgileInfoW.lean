/-
  C14 — the writer-call tree of `build_encryption_info` (`Umya/Model/AgileInfoW.lean` `infoW`) renders, character
  for character, to the text of the hand model (`Umya.Crypt.encryptionInfoXml`, which `C14_info_matches_source`
  ties to the compiled source) for every descriptor whose texts are `plain` (`infoPlain`): the attribute escape
  of `write_start_tag` is the identity on plain text.
-/
import Umya.Model.AgileInfoW
namespace Umya.Crypt
open Umya.Agile Umya.XmlWrite Umya.XmlEsc Umya.Dec
open Umya.Spec.Xml (Attr)

theorem attrEscChar_plain (c : Char) (h : plainChar c = true) : attrEscChar c = [c] := by
  simp only [plainChar, Bool.and_eq_true, decide_eq_true_eq, bne_iff_ne, ne_eq] at h
  obtain ⟨⟨⟨⟨⟨⟨h1, h2⟩, h3⟩, h4⟩, h5⟩, h6⟩, h7⟩ := h
  have ht : c ≠ '\t' := by rintro rfl; revert h1; decide
  have hn : c ≠ '\n' := by rintro rfl; revert h1; decide
  have hr : c ≠ '\r' := by rintro rfl; revert h1; decide
  simp [attrEscChar, escChar, escCharOld, ht, hn, hr, h3, h4, h5, h6, h7]

theorem attrEscape_plain (s : List Char) (h : plain s = true) : attrEscape s = s := by
  induction s with
  | nil => rfl
  | cons c r ih =>
    simp only [plain, List.all_cons, Bool.and_eq_true] at h
    simp only [attrEscape, List.flatMap_cons] at ih ⊢
    rw [attrEscChar_plain c h.1, ih h.2]; rfl

theorem renderAttr_plain (n v : List Char) (h : plain v = true) : renderAttr ⟨n, v⟩ = attrText (n, v) := by
  simp [renderAttr, attrText, attrEscape_plain v h]


theorem plainChar_of_isDigit (c : Char) (h : isDigit c = true) : plainChar c = true := by
  simp only [isDigit, Bool.and_eq_true, decide_eq_true_eq, ge_iff_le] at h
  have e : ∀ d : Char, c = d → c.toNat = d.toNat := fun d h => by rw [h]
  simp only [plainChar, Bool.and_eq_true, decide_eq_true_eq, bne_iff_ne, ne_eq]
  refine ⟨⟨⟨⟨⟨⟨by omega, by omega⟩, ?_⟩, ?_⟩, ?_⟩, ?_⟩, ?_⟩ <;> intro hc <;> have := e _ hc <;> simp at this <;> omega

theorem plain_decDigits (n : Nat) : plain (decDigits n) = true := by
  have h := decDigits_all_digit n
  simp only [plain, List.all_eq_true] at h ⊢
  exact fun c hc => plainChar_of_isDigit c (h c hc)

/-- attribute lists whose values are plain render as the model's unescaped `attrText`s -/
theorem renderAttrs_plain (l : List (List Char × List Char)) (h : ∀ p ∈ l, plain p.2 = true) :
    renderAttrs (toAttrs l) = l.flatMap attrText := by
  induction l with
  | nil => rfl
  | cons p r ih =>
    have h1 := h p (List.mem_cons_self ..)
    have h2 : ∀ q ∈ r, plain q.2 = true := fun q hq => h q (List.mem_cons_of_mem _ hq)
    simp only [renderAttrs, toAttrs, List.map_cons, List.flatMap_cons] at ih ⊢
    rw [ih h2, renderAttr_plain p.1 p.2 h1]

theorem writeStartTag_plain (n : List Char) (l : List (List Char × List Char)) (e : Bool)
    (h : ∀ p ∈ l, plain p.2 = true) : writeStartTag n (toAttrs l) e = startTag n l e := by
  rw [writeStartTag, renderAttrs_plain l h]
  cases e <;> simp [startKind, writeEvent, startTag]

theorem writeEndTag_eq (n : List Char) : writeEndTag n = endTag n := by
  simp [writeEndTag, writeEvent, endTag]

theorem keyDataAttrs_plain (k : KeyData) (h : keyDataPlain k = true) : ∀ p ∈ keyDataAttrs k, plain p.2 = true := by
  simp only [keyDataPlain, Bool.and_eq_true] at h
  obtain ⟨⟨⟨h1, h2⟩, h3⟩, h4⟩ := h
  intro p hp
  simp only [keyDataAttrs, List.mem_cons, List.not_mem_nil, or_false] at hp
  rcases hp with rfl | rfl | rfl | rfl | rfl | rfl | rfl | rfl <;> first | exact plain_decDigits _ | assumption

theorem ns_plain : plain encryptionNs = true ∧ plain passwordNs = true ∧ plain certificateNs = true := by decide


theorem encryptedKeyAttrs_plain (i : Info) (h : infoPlain i = true) : ∀ p ∈ encryptedKeyAttrs i, plain p.2 = true := by
  simp only [infoPlain, Bool.and_eq_true] at h
  obtain ⟨⟨⟨⟨⟨⟨h1, h2⟩, h3⟩, h4⟩, h5⟩, h6⟩, h7⟩ := h
  intro p hp
  simp only [encryptedKeyAttrs, List.mem_append, List.mem_cons, List.not_mem_nil, or_false] at hp
  rcases hp with (rfl | hp) | rfl | rfl | rfl
  · exact plain_decDigits _
  · exact keyDataAttrs_plain _ h4 p hp
  all_goals assumption

theorem decl_eq : writeDecl ++ writeNewLine = "<?xml version=\"1.0\" encoding=\"UTF-8\" standalone=\"yes\"?>\r\n".toList := by
  decide

/-- **the writer-call tree renders to the model's text** -/
theorem renderDoc_infoW (i : Info) (h : infoPlain i = true) : renderDoc (infoW i) = encryptionInfoXml i := by
  have hp := h
  simp only [infoPlain, Bool.and_eq_true] at hp
  obtain ⟨⟨⟨⟨⟨⟨h1, h2⟩, h3⟩, h4⟩, h5⟩, h6⟩, h7⟩ := hp
  have e1 := writeStartTag_plain "encryption".toList
    [("xmlns".toList, encryptionNs), ("xmlns:p".toList, passwordNs), ("xmlns:c".toList, certificateNs)] false
    (by intro p hp; simp only [List.mem_cons, List.not_mem_nil, or_false] at hp
        rcases hp with rfl | rfl | rfl
        · exact ns_plain.1
        · exact ns_plain.2.1
        · exact ns_plain.2.2)
  have e2 := writeStartTag_plain "keyData".toList (keyDataAttrs i.keyData) true (keyDataAttrs_plain _ h1)
  have e3 := writeStartTag_plain "dataIntegrity".toList
    [("encryptedHmacKey".toList, i.encryptedHmacKey), ("encryptedHmacValue".toList, i.encryptedHmacValue)] true
    (by intro p hp; simp only [List.mem_cons, List.not_mem_nil, or_false] at hp
        rcases hp with rfl | rfl <;> assumption)
  have e4 := writeStartTag_plain "keyEncryptors".toList [] false (by intro p hp; cases hp)
  have e5 := writeStartTag_plain "keyEncryptor".toList [("uri".toList, passwordNs)] false
    (by intro p hp; simp only [List.mem_cons, List.not_mem_nil, or_false] at hp; subst hp; exact ns_plain.2.1)
  have e6 := writeStartTag_plain "p:encryptedKey".toList (encryptedKeyAttrs i) true (encryptedKeyAttrs_plain i h)
  have e4' : writeStartTag "keyEncryptors".toList [] false = startTag "keyEncryptors".toList [] false := e4
  unfold encryptionInfoXml
  rw [← decl_eq, ← e1, ← e2, ← e3, ← e4', ← e5]
  have e6' : startTag "p:encryptedKey".toList
    ([("spinCount".toList, decDigits i.spinCount)] ++ keyDataAttrs i.key ++
     [("encryptedVerifierHashInput".toList, i.encryptedVerifierHashInput),
      ("encryptedVerifierHashValue".toList, i.encryptedVerifierHashValue),
      ("encryptedKeyValue".toList, i.encryptedKeyValue)]) true = writeStartTag "p:encryptedKey".toList (toAttrs (encryptedKeyAttrs i)) true := e6.symm
  rw [e6', ← writeEndTag_eq, ← writeEndTag_eq, ← writeEndTag_eq]
  simp only [renderDoc, renderNode, renderKids, infoW, List.append_assoc, List.append_nil]


end Umya.Crypt
