/-
  The relationships of the package of `Umya/Model/PackageNodeCmt.lean` as the decoder reads them (`relsOf`): the
  package and workbook relationships as in the plain package; a sheet's relationships = its hyperlink relationships
  followed, when it has comments, by the vmlDrawing and comments relationships with the next two ids.
-/
import Umya.Lemmas.PackageNodeCmtCT
import Umya.Lemmas.PackageNodeRels
namespace Umya.PackageNode
open Umya.Xml Umya.CellXml Umya.CellNode Umya.SheetNode Umya.WorkbookNode Umya.Dec
open Umya.Spec.Xml (Node Attr localName)
open Umya.Spec.Sml

/-- the records of the relationships after the hyperlink ones, `k` = the counter after the hyperlink loop -/
def cmtRecs (k : Nat) : Option (Nat × Nat) → List Rel
  | none => []
  | some (v, c) => [relRec k tVml (vmlTarget v), relRec (k + 1) tComments (commentsTarget c)]

theorem restOf_recs (links : List LinkW) (num : Option (Nat × Nat)) :
    ((restOf links num).filter (isKid nRelationship)).map relOf = cmtRecs (hlNext 1 links) num := by
  cases num with
  | none => rfl
  | some vc =>
    obtain ⟨v, c⟩ := vc
    simp [restOf, cmtRelNodes, cmtRecs, List.filter_cons, isKid_relEl, relOf_relEl]

/-! ### the two counters agree -/

theorem hlNext_ge (ls : List LinkW) : ∀ k, k ≤ hlNext k ls := by
  induction ls with
  | nil => intro k; exact Nat.le_refl k
  | cons l ls ih =>
    intro k
    simp only [hlNext]
    split
    · exact ih k
    · exact Nat.le_trans (Nat.le_succ k) (ih (k + 1))

/-- the ids of the hyperlink relationships are `rIdk … rId(hlNext − 1)`: the counter of worksheet_rels.rs after its
    hyperlink loop is the counter of worksheet.rs after its hyperlink loop -/
theorem relRecs_ids_next (ls : List LinkW) : ∀ k, (relRecs k ls).map (·.id) = (List.range' k (hlNext k ls - k)).map (fun i => str (rIdText i)) := by
  induction ls with
  | nil => intro k; simp [relRecs, hlNext]
  | cons l ls ih =>
    intro k
    simp only [relRecs, hlNext]
    split
    · exact ih k
    · have hge := hlNext_ge ls (k + 1)
      have : hlNext (k + 1) ls - k = (hlNext (k + 1) ls - (k + 1)) + 1 := by omega
      rw [this, List.range'_succ, List.map_cons, List.map_cons, ih (k + 1)]

theorem sheet_ids (ls : List LinkW) (num : Option (Nat × Nat)) :
    ∃ m, (relRecs 1 ls ++ cmtRecs (hlNext 1 ls) num).map (·.id) = (List.range' 1 m).map (fun i => str (rIdText i)) := by
  have hge := hlNext_ge ls 1
  cases num with
  | none => exact ⟨hlNext 1 ls - 1, by simp [cmtRecs, relRecs_ids_next]⟩
  | some vc =>
    obtain ⟨v, c⟩ := vc
    refine ⟨(hlNext 1 ls - 1) + 2, ?_⟩
    have : List.range' 1 ((hlNext 1 ls - 1) + 2) = List.range' 1 (hlNext 1 ls - 1) ++ [hlNext 1 ls, hlNext 1 ls + 1] := by
      rw [show (hlNext 1 ls - 1) + 2 = (hlNext 1 ls - 1) + (1 + 1) by omega, ← List.range'_append_1]
      simp [List.range'_succ]; omega
    rw [this]
    simp [cmtRecs, relRec, relRecs_ids_next]

/-- the relationship found under `rId(hlNext)` is the vmlDrawing one: no hyperlink relationship has that id -/
theorem find_vml_rec (ls : List LinkW) (v c : Nat) :
    (relRecs 1 ls ++ cmtRecs (hlNext 1 ls) (some (v, c))).find? (fun (r : Rel) => r.id = str (rIdText (hlNext 1 ls))) =
      some (relRec (hlNext 1 ls) tVml (vmlTarget v)) := by
  have hge := hlNext_ge ls 1
  have hnone : (relRecs 1 ls).find? (fun (r : Rel) => r.id = str (rIdText (hlNext 1 ls))) = none := by
    apply List.find?_eq_none.2
    intro r hr
    have hid : r.id ∈ (relRecs 1 ls).map (·.id) := List.mem_map.2 ⟨r, hr, rfl⟩
    rw [relRecs_ids_next] at hid
    obtain ⟨i, hi, he⟩ := List.mem_map.1 hid
    have hi' := List.mem_range'_1.1 hi
    simp only [decide_eq_true_eq]
    intro e
    have := rIdText_inj i (hlNext 1 ls) (he.trans e)
    omega
  rw [List.find?_append, hnone, Option.none_or]
  simp [cmtRecs, relRec]

section
variable {F : Umya.Num.NumFmt}
variable {b : BookC F.Num} {cmt : List Part} {tbl : Table} {sst : List Part} (hb : Built F b cmt tbl sst) (hs : Bool) (roots : List Node)
include hb

/-- `_rels/.rels` as read -/
theorem relsOfC_root :
    relsOf (assembleC F b hs roots cmt sst) "" = [relRec 3 tXprops nApp, relRec 2 tCoreprops nCore, relRec 1 tOfficeDoc nWorkbookPart] := by
  unfold relsOf
  rw [relsName_root, partC_rootRels hb hs roots]
  show ((rootRelsNode.children).filter (isKid nRelationship)).map relOf = _
  simp only [rootRelsNode, Node.children, List.filter_cons, isKid_relEl, if_true, List.filter_nil,
    List.map_cons, List.map_nil, relOf_relEl]

/-- `xl/_rels/workbook.xml.rels` as read -/
theorem relsOfC_wb :
    relsOf (assembleC F b hs roots cmt sst) (String.ofList nWorkbookPart) = wsRecs 1 b.sheets.length ++ wbRestRecs b.sheets.length hs := by
  rw [relsOf_workbook _ _ b.sheets.length (wbRelsRest b.sheets.length hs)
    (by rw [relsName_workbook, partC_workbookRels hb hs roots]; rfl), wbRelsRest_recs]

/-- `xl/worksheets/_rels/sheetK.xml.rels` as read (nothing when the part is not written) -/
theorem relsOfC_sheet (k : Nat) (hk : 1 ≤ k) (s : SheetC F.Num) (num : Option (Nat × Nat)) (hsk : (annotate b.sheets)[k - 1]? = some (s, num)) :
    ((assembleC F b hs roots cmt sst).part? (relsNameOf (String.ofList (sheetPartL k)))).bind (·.xml) = relsRoot s.sheet.links (restOf s.sheet.links num) ∧
    relsOf (assembleC F b hs roots cmt sst) (String.ofList (sheetPartL k)) = relRecs 1 s.sheet.links ++ cmtRecs (hlNext 1 s.sheet.links) num := by
  have h1 : ((assembleC F b hs roots cmt sst).part? (relsNameOf (String.ofList (sheetPartL k)))).bind (·.xml) = relsRoot s.sheet.links (restOf s.sheet.links num) := by
    rw [relsName_sheet, partC_sheetRels hb hs roots k hk]
    unfold relsInput
    rw [List.getElem?_map, hsk]
    cases hrr : relsRoot s.sheet.links (restOf s.sheet.links num) <;> simp [xmlPart, hrr]
  refine ⟨h1, ?_⟩
  rw [relsOf_rendered _ _ s.sheet.links _ h1, relsView_eq, restOf_recs]

end
end Umya.PackageNode
