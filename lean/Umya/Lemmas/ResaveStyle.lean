/-
  Closure of the `Range` / `WF` predicates of the style codecs under their normal forms: what makes the
  SECOND generation fall under the round-trip theorems of `Umya/Thm/C05Codec.lean` again.
  (Colour, font, pattern fill and borders have theirs in `Lemmas/StyleCodec*.lean`; here: gradient stops and fills,
  fills, rows, and the "setter form" predicates.)
-/
import Umya.Lemmas.StyleCodecFill
import Umya.Lemmas.StyleCodecBorder
import Umya.Lemmas.StyleCodecFont
import Umya.Lemmas.StyleCodecMisc
namespace Umya.StyleCodec

theorem GradientStop.norm_range (cf : Tok → Tok) (hz : cf zeroTok = zeroTok) (s : GradientStop) (h : s.Range cf) :
    s.norm.Range cf := by
  refine ⟨?_, Color.norm_range cf _ h.2⟩
  intro t ht
  simp only [GradientStop.norm, Option.some.injEq] at ht
  subst ht
  cases hp : s.position with
  | none => simpa using hz
  | some p => simpa using h.1 p hp

theorem GradientFill.norm_range (cf : Tok → Tok) (hz : cf zeroTok = zeroTok) (g : GradientFill) (h : g.Range cf) :
    g.norm.Range cf := by
  refine ⟨?_, ?_⟩
  · intro t ht
    simp only [GradientFill.norm, Option.some.injEq] at ht
    subst ht
    cases hd : g.degree with
    | none => simpa using hz
    | some d => simpa using h.1 d hd
  · intro s hs
    simp only [GradientFill.norm, List.mem_map] at hs
    obtain ⟨s0, hs0, rfl⟩ := hs
    exact GradientStop.norm_range cf hz s0 (h.2 s0 hs0)

theorem Fill.norm_range (cf : Tok → Tok) (hz : cf zeroTok = zeroTok) (f : Fill) (h : f.Range cf) : f.norm.Range cf := by
  obtain ⟨pat, grad⟩ := f
  obtain ⟨hp, hg⟩ := h
  cases grad with
  | some g =>
    refine ⟨fun p hp' => by simp [Fill.norm] at hp', fun g' hg' => ?_⟩
    simp only [Fill.norm, Option.some.injEq] at hg'
    subst hg'
    exact GradientFill.norm_range cf hz g (hg g rfl)
  | none =>
    refine ⟨fun p hp' => ?_, fun g' hg' => by simp [Fill.norm] at hg'⟩
    simp only [Fill.norm, Option.map_eq_some_iff] at hp'
    obtain ⟨q, hq, rfl⟩ := hp'
    exact PatternFill.norm_range cf q (hp q hq)

theorem optOneForm_norm (o : Option Color) : optOneForm (normOptColor o) = true := by
  cases o with
  | none => rfl
  | some c =>
    simp only [normOptColor]
    split
    · rfl
    · exact Color.norm_oneForm c

theorem Fill.norm_WF (f : Fill) : f.norm.WF = true := by
  obtain ⟨pat, grad⟩ := f
  cases grad with
  | some g =>
    simp only [Fill.norm, Fill.WF, GradientFill.norm, List.all_map, Bool.true_and, Option.isNone_none, Bool.and_true,
      List.all_eq_true]
    intro s _
    exact Color.norm_oneForm s.color
  | none =>
    cases pat with
    | none => rfl
    | some p =>
      simp [Fill.norm, Fill.WF, PatternFill.norm, PatternFill.OneForm, optOneForm_norm]

theorem Row.norm_range (cf : Tok → Tok) (r : Row) (h : r.Range cf) : r.norm.Range cf := by
  obtain ⟨h1, h2, h3⟩ := h
  refine ⟨h1, ?_, h3⟩
  intro t ht
  cases hh : r.height with
  | none => simp [Row.norm, hh] at ht
  | some h0 =>
    simp only [Row.norm, hh] at ht
    split at ht
    · cases ht
    · cases ht; exact h2 _ hh

theorem Font.norm_oneForm (f : Font) : f.norm.color.OneForm = true := Color.norm_oneForm f.color

end Umya.StyleCodec
