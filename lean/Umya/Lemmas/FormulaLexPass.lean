/-
  Lexer correctness on printed expressions: passes 2 and 3 on the pass-1 tokens of an expression,
  and the final token list `tokensOf`.  Helper lemmas for `Umya/Thm/C09Lex.lean`.
-/
import Umya.Lemmas.FormulaLexExpr
namespace Umya.Formula
open Umya.Coord Umya.Dec Umya.Spec

/-! ### the token list of an expression (what `parse_to_tokens` is expected to return) -/

def opSub : BinOp → ST
  | .add | .sub | .mul | .div | .pow => .math
  | .cat => .concatenation
  | _ => .logical

def op3 (op : BinOp) : Tok := ⟨op.text, .opInfix, opSub op, .none⟩
def subStart : Tok := ⟨[], .subexpression, .start, .none⟩
def subStop : Tok := ⟨[], .subexpression, .stop, .none⟩
def fnStart (f : List Char) : Tok := ⟨f, .function, .start, .none⟩
def fnStop : Tok := ⟨[], .function, .stop, .none⟩
def pctTok : Tok := ⟨['%'], .opPostfix, .nothing, .none⟩
def signTok (c : Char) : Tok := ⟨[c], .opInfix, .nothing, .none⟩
def prefixTok (c : Char) : Tok := ⟨[c], .opPrefix, .nothing, .none⟩
def stopOf (k : TT) : Tok := ⟨[], k, .stop, .none⟩

mutual
  /-- the tokens of an expression: one operand token per leaf (numbers Number, strings Text with
      the quotes removed and doubled quotes halved, booleans Logical, error literals Error, names
      and references Range), prefix / infix / postfix operator tokens with their subtypes, Start /
      Stop tokens for parentheses and calls, a Union-infix `,` between the arguments of a call and
      an Argument `,` inside plain parentheses.  (Intersections and array constants: outside the
      fragment of `LexOk`; the value given here for them is not claimed to be what the lexer returns.) -/
  def tokensOf : Expr → List Tok
    | .num t => [⟨t, .operand, .number, .none⟩]
    | .str s => [⟨s, .operand, .text, .none⟩]
    | .bool b => [⟨boolText b, .operand, .logical, .none⟩]
    | .err e => [⟨e.text, .operand, .error, .none⟩]
    | .name n => [⟨n, .operand, .range, .none⟩]
    | .ref r => [refTok r]
    | .opaque t => [⟨t, .operand, .range, .none⟩]
    | .array _ => []
    | .neg e => prefixTok '-' :: tokensOf e
    | .pos e => prefixTok '+' :: tokensOf e
    | .pct e => tokensOf e ++ [pctTok]
    | .bin op a b => tokensOf a ++ op3 op :: tokensOf b
    | .isect a b => tokensOf a ++ ⟨[], .opInfix, .intersection, .none⟩ :: tokensOf b
    | .union es => subStart :: (tokensOfA .subexpression es ++ [subStop])
    | .paren e => subStart :: (tokensOf e ++ [subStop])
    | .call f as => fnStart f :: (tokensOfA .function as ++ [fnStop])
  def tokensOfA (k : TT) : Args → List Tok
    | .nil => []
    | .cons e .nil => tokensOf e
    | .cons e rest => tokensOf e ++ sepTok k :: tokensOfA k rest
    | .skip .nil => []
    | .skip rest => sepTok k :: tokensOfA k rest
end

/-! ### unfolding `toks1` -/

theorem toks1_val (v : List Char) (hv : v ≠ []) : (Pend.val v).toks = [⟨v, .operand, .nothing, .none⟩] := by
  simp [Pend.toks, hv]

theorem toks1_neg (e : Expr) : toks1 (.neg e) = signTok '-' :: toks1 e := by simp [toks1, preE, pendE, signTok]
theorem toks1_pos (e : Expr) : toks1 (.pos e) = signTok '+' :: toks1 e := by simp [toks1, preE, pendE, signTok]
theorem toks1_pct (e : Expr) : toks1 (.pct e) = toks1 e ++ [pctTok] := by
  simp [toks1, preE, pendE, Pend.toks, pctTok]
theorem toks1_bin (op : BinOp) (a b : Expr) : toks1 (.bin op a b) = toks1 a ++ op1 op :: toks1 b := by
  simp [toks1, preE, pendE, List.append_assoc]
theorem toks1_paren (e : Expr) : toks1 (.paren e) = subStart :: (toks1 e ++ [subStop]) := by
  simp [toks1, preE, pendE, Pend.toks, subStart, subStop, List.append_assoc]
theorem toks1_union (es : Args) : toks1 (.union es) = subStart :: (toks1A .subexpression es ++ [subStop]) := by
  simp [toks1, toks1A, preE, pendE, Pend.toks, subStart, subStop, List.append_assoc]
theorem toks1_call (f : List Char) (as : Args) :
    toks1 (.call f as) = fnStart f :: (toks1A .function as ++ [fnStop]) := by
  simp [toks1, toks1A, preE, pendE, Pend.toks, fnStart, fnStop, List.append_assoc]

/-! ### pass 3 token by token -/

def pre3 (a : List Tok) : Res (List Tok) → Res (List Tok)
  | .ok l => .ok (a ++ l)
  | .panic => .panic

theorem pre3_pre3 (a b : List Tok) (r : Res (List Tok)) : pre3 a (pre3 b r) = pre3 (a ++ b) r := by
  cases r <;> simp [pre3]

theorem pass3Go_cons_ok (prev : Option Tok) (t t' : Tok) (rest : List Tok) (h : pass3Tok prev t = .ok t') :
    pass3Go prev (t :: rest) = pre3 [t'] (pass3Go (some t) rest) := by
  simp only [pass3Go, h]
  cases pass3Go (some t) rest <;> simp [pre3]

def NotVE (prev : Option Tok) : Prop := ∀ p, prev = some p → isValueEnd p = false

theorem p3_num (prev : Option Tok) (v : List Char) (h : parseF64Ok v = true) :
    pass3Tok prev ⟨v, .operand, .nothing, .none⟩ = .ok ⟨v, .operand, .number, .none⟩ := by
  simp [pass3Tok, h]

theorem p3_range (prev : Option Tok) (v : List Char) (h : isRangeText v = true) :
    pass3Tok prev ⟨v, .operand, .nothing, .none⟩ = .ok ⟨v, .operand, .range, .none⟩ := by
  simp only [isRangeText, Bool.and_eq_true, Bool.not_eq_true'] at h
  simp [pass3Tok, h.1.1, h.1.2, h.2]

theorem p3_bool (prev : Option Tok) (b : Bool) :
    pass3Tok prev ⟨boolText b, .operand, .nothing, .none⟩ = .ok ⟨boolText b, .operand, .logical, .none⟩ := by
  have h1 : parseF64Ok ['T', 'R', 'U', 'E'] = false := by decide
  have h2 : parseF64Ok ['F', 'A', 'L', 'S', 'E'] = false := by decide
  have h3 : eqUpper ['T', 'R', 'U', 'E'] "TRUE" = true := by decide
  have h4 : eqUpper ['F', 'A', 'L', 'S', 'E'] "FALSE" = true := by decide
  cases b <;> simp [pass3Tok, boolText, h1, h2, h3, h4]

theorem p3_text (prev : Option Tok) (v : List Char) :
    pass3Tok prev ⟨v, .operand, .text, .none⟩ = .ok ⟨v, .operand, .text, .none⟩ := by simp [pass3Tok]

theorem p3_error (prev : Option Tok) (v : List Char) :
    pass3Tok prev ⟨v, .operand, .error, .none⟩ = .ok ⟨v, .operand, .error, .none⟩ := by simp [pass3Tok]

theorem p3_sign (prev : Option Tok) (hp : NotVE prev) (c : Char) (hc : c = '-' ∨ c = '+') :
    pass3Tok prev (signTok c) = .ok (prefixTok c) := by
  cases prev with
  | none => rcases hc with h | h <;> subst h <;> simp [pass3Tok, signTok, prefixTok]
  | some p =>
    have := hp p rfl
    rcases hc with h | h <;> subst h <;> simp [pass3Tok, signTok, prefixTok, this]

theorem p3_op (l : Tok) (hl : isValueEnd l = true) (op : BinOp) :
    pass3Tok (some l) (op1 op) = .ok (op3 op) := by
  cases op <;> simp [pass3Tok, op1, op3, opSub, BinOp.text, hl]

theorem p3_pct (prev : Option Tok) : pass3Tok prev pctTok = .ok pctTok := by simp [pass3Tok, pctTok]
theorem p3_subStart (prev : Option Tok) : pass3Tok prev subStart = .ok subStart := by simp [pass3Tok, subStart]
theorem p3_stop (prev : Option Tok) (k : TT) (hk : k = .function ∨ k = .subexpression) :
    pass3Tok prev (stopOf k) = .ok (stopOf k) := by
  rcases hk with h | h <;> subst h <;> simp [pass3Tok, stopOf]
theorem p3_subStop (prev : Option Tok) : pass3Tok prev subStop = .ok subStop := by simp [pass3Tok, subStop]
theorem p3_fnStop (prev : Option Tok) : pass3Tok prev fnStop = .ok fnStop := by simp [pass3Tok, fnStop]
theorem p3_sep (prev : Option Tok) (k : TT) : pass3Tok prev (sepTok k) = .ok (sepTok k) := by
  by_cases h : k = .function <;> simp [pass3Tok, sepTok, h]
theorem p3_fnStart (prev : Option Tok) (f : List Char) (h : f.head? ≠ some '@') :
    pass3Tok prev (fnStart f) = .ok (fnStart f) := by
  cases f with
  | nil => simp [pass3Tok, fnStart]
  | cons c r =>
    have : c ≠ '@' := by intro e; subst e; simp at h
    simp only [pass3Tok, fnStart]
    simp
    split
    · rename_i r' heq; injection heq with h1 _; exact absurd h1 this
    · rfl

theorem notVE_sep (k : TT) : NotVE (some (sepTok k)) := by
  intro p hp; injection hp with hp; subst hp
  by_cases h : k = .function <;> simp [isValueEnd, sepTok, h]

/-! ### pass 3 on the pass-1 tokens of an expression -/

mutual
  theorem p3_expr (e : Expr) (h : LexOk e) (prev : Option Tok) (hp : NotVE prev) (rest : List Tok) :
      ∃ l, isValueEnd l = true ∧
        pass3Go prev (toks1 e ++ rest) = pre3 (tokensOf e) (pass3Go (some l) rest) := by
    match e, h with
    | .num t, h =>
      refine ⟨⟨t, .operand, .nothing, .none⟩, by simp [isValueEnd], ?_⟩
      simp only [toks1, preE, pendE, toks1_val t h.1, List.nil_append, List.cons_append, tokensOf]
      exact pass3Go_cons_ok _ _ _ _ (p3_num prev t h.2.2)
    | .str s, _ =>
      refine ⟨⟨s, .operand, .text, .none⟩, by simp [isValueEnd], ?_⟩
      simp only [toks1, preE, pendE, Pend.toks, List.nil_append, List.cons_append, tokensOf]
      exact pass3Go_cons_ok _ _ _ _ (p3_text prev s)
    | .bool b, _ =>
      refine ⟨⟨boolText b, .operand, .nothing, .none⟩, by simp [isValueEnd], ?_⟩
      have hb : boolText b ≠ [] := by cases b <;> simp [boolText]
      simp only [toks1, preE, pendE, toks1_val _ hb, List.nil_append, List.cons_append, tokensOf]
      exact pass3Go_cons_ok _ _ _ _ (p3_bool prev b)
    | .err e, _ =>
      refine ⟨⟨e.text, .operand, .error, .none⟩, by simp [isValueEnd], ?_⟩
      simp only [toks1, preE, pendE, Pend.toks, List.append_nil, List.cons_append, List.nil_append, tokensOf]
      exact pass3Go_cons_ok _ _ _ _ (p3_error prev e.text)
    | .name n, h =>
      refine ⟨⟨n, .operand, .nothing, .none⟩, by simp [isValueEnd], ?_⟩
      simp only [toks1, preE, pendE, toks1_val n h.1, List.nil_append, List.cons_append, tokensOf]
      exact pass3Go_cons_ok _ _ _ _ (p3_range prev n h.2.2)
    | .ref r, h =>
      refine ⟨⟨r.text, .operand, .nothing, .none⟩, by simp [isValueEnd], ?_⟩
      have hr : r.text ≠ [] := by
        have := h.1.1; simp [CRef.text, this]
      simp only [toks1, preE, pendE, toks1_val _ hr, List.nil_append, List.cons_append, tokensOf, refTok]
      exact pass3Go_cons_ok _ _ _ _ (p3_range prev r.text h.2)
    | .opaque _, h => exact absurd h (by simp [LexOk])
    | .array _, h => exact absurd h (by simp [LexOk])
    | .isect _ _, h => exact absurd h (by simp [LexOk])
    | .neg e, h =>
      obtain ⟨l, hl, hr⟩ := p3_expr e h (some (signTok '-')) (by intro p hp; injection hp with hp; subst hp; simp [isValueEnd, signTok]) rest
      refine ⟨l, hl, ?_⟩
      rw [toks1_neg, List.cons_append, pass3Go_cons_ok _ _ _ _ (p3_sign prev hp '-' (Or.inl rfl)), hr, pre3_pre3]
      simp [tokensOf]
    | .pos e, h =>
      obtain ⟨l, hl, hr⟩ := p3_expr e h (some (signTok '+')) (by intro p hp; injection hp with hp; subst hp; simp [isValueEnd, signTok]) rest
      refine ⟨l, hl, ?_⟩
      rw [toks1_pos, List.cons_append, pass3Go_cons_ok _ _ _ _ (p3_sign prev hp '+' (Or.inr rfl)), hr, pre3_pre3]
      simp [tokensOf]
    | .pct e, h =>
      obtain ⟨l, _, hr⟩ := p3_expr e h prev hp (pctTok :: rest)
      refine ⟨pctTok, by simp [isValueEnd, pctTok], ?_⟩
      rw [toks1_pct, List.append_assoc, List.singleton_append, hr, pass3Go_cons_ok _ _ _ _ (p3_pct _), pre3_pre3]
      simp [tokensOf]
    | .bin op a b, h =>
      obtain ⟨l, hl, hr⟩ := p3_expr a h.1 prev hp (op1 op :: (toks1 b ++ rest))
      obtain ⟨l2, hl2, hr2⟩ := p3_expr b h.2 (some (op1 op))
        (by intro p hp; injection hp with hp; subst hp; cases op <;> simp [isValueEnd, op1]) rest
      refine ⟨l2, hl2, ?_⟩
      rw [toks1_bin, List.append_assoc, List.cons_append, hr, pass3Go_cons_ok _ _ _ _ (p3_op l hl op), hr2,
        pre3_pre3, pre3_pre3]
      simp [tokensOf]
    | .paren e, h =>
      obtain ⟨l, _, hr⟩ := p3_expr e h (some subStart)
        (by intro p hp; injection hp with hp; subst hp; simp [isValueEnd, subStart]) (subStop :: rest)
      refine ⟨subStop, by simp [isValueEnd, subStop], ?_⟩
      rw [toks1_paren, List.cons_append, List.append_assoc, List.singleton_append,
        pass3Go_cons_ok _ _ _ _ (p3_subStart prev), hr,
        pass3Go_cons_ok _ _ _ _ (p3_subStop _), pre3_pre3, pre3_pre3]
      simp [tokensOf, subStop]
    | .union es, h =>
      obtain ⟨l, hr⟩ := p3_args es h .subexpression (some subStart)
        (by intro p hp; injection hp with hp; subst hp; simp [isValueEnd, subStart]) (subStop :: rest)
      refine ⟨subStop, by simp [isValueEnd, subStop], ?_⟩
      rw [toks1_union, List.cons_append, List.append_assoc, List.singleton_append,
        pass3Go_cons_ok _ _ _ _ (p3_subStart prev), hr,
        pass3Go_cons_ok _ _ _ _ (p3_subStop _), pre3_pre3, pre3_pre3]
      simp [tokensOf, subStop]
    | .call f as, h =>
      obtain ⟨l, hr⟩ := p3_args as h.2 .function (some (fnStart f))
        (by intro p hp; injection hp with hp; subst hp; simp [isValueEnd, fnStart]) (fnStop :: rest)
      refine ⟨fnStop, by simp [isValueEnd, fnStop], ?_⟩
      rw [toks1_call, List.cons_append, List.append_assoc, List.singleton_append,
        pass3Go_cons_ok _ _ _ _ (p3_fnStart prev f h.1.2.2), hr,
        pass3Go_cons_ok _ _ _ _ (p3_fnStop _), pre3_pre3, pre3_pre3]
      simp [tokensOf, fnStop]
  theorem p3_args (as : Args) (h : LexOkA as) (k : TT) (prev : Option Tok) (hp : NotVE prev)
      (rest : List Tok) :
      ∃ l, pass3Go prev (toks1A k as ++ rest) = pre3 (tokensOfA k as) (pass3Go l rest) := by
    match as, h with
    | .nil, _ =>
      refine ⟨prev, ?_⟩
      cases hh : pass3Go prev rest <;> simp [toks1A, preA, pendA, Pend.toks, tokensOfA, pre3, hh]
    | .cons e .nil, h =>
      obtain ⟨l, _, hr⟩ := p3_expr e h.1 prev hp rest
      exact ⟨some l, by simpa [toks1A, preA, pendA, tokensOfA, toks1] using hr⟩
    | .cons e (.cons e2 r), h =>
      obtain ⟨l, _, hr⟩ := p3_expr e h.1 prev hp (sepTok k :: (toks1A k (.cons e2 r) ++ rest))
      obtain ⟨l2, hr2⟩ := p3_args (.cons e2 r) h.2 k (some (sepTok k)) (notVE_sep k) rest
      refine ⟨l2, ?_⟩
      have ht : toks1A k (.cons e (.cons e2 r)) = toks1 e ++ sepTok k :: toks1A k (.cons e2 r) := by
        simp [toks1A, preA, pendA, toks1, List.append_assoc]
      rw [ht, List.append_assoc, List.cons_append, hr, pass3Go_cons_ok _ _ _ _ (p3_sep _ k), hr2,
        pre3_pre3, pre3_pre3]
      simp [tokensOfA]
    | .cons e (.skip r), h =>
      obtain ⟨l, _, hr⟩ := p3_expr e h.1 prev hp (sepTok k :: (toks1A k (.skip r) ++ rest))
      obtain ⟨l2, hr2⟩ := p3_args (.skip r) h.2 k (some (sepTok k)) (notVE_sep k) rest
      refine ⟨l2, ?_⟩
      have ht : toks1A k (.cons e (.skip r)) = toks1 e ++ sepTok k :: toks1A k (.skip r) := by
        simp [toks1A, preA, pendA, toks1, List.append_assoc]
      rw [ht, List.append_assoc, List.cons_append, hr, pass3Go_cons_ok _ _ _ _ (p3_sep _ k), hr2,
        pre3_pre3, pre3_pre3]
      simp [tokensOfA]
    | .skip .nil, _ =>
      refine ⟨prev, ?_⟩
      cases hh : pass3Go prev rest <;> simp [toks1A, preA, pendA, Pend.toks, tokensOfA, pre3, hh]
    | .skip (.cons e2 r), h =>
      obtain ⟨l2, hr2⟩ := p3_args (.cons e2 r) h k (some (sepTok k)) (notVE_sep k) rest
      refine ⟨l2, ?_⟩
      have ht : toks1A k (.skip (.cons e2 r)) = sepTok k :: toks1A k (.cons e2 r) := by
        simp [toks1A, preA, pendA]
      rw [ht, List.cons_append, pass3Go_cons_ok _ _ _ _ (p3_sep _ k), hr2, pre3_pre3]
      simp [tokensOfA]
    | .skip (.skip r), h =>
      obtain ⟨l2, hr2⟩ := p3_args (.skip r) h k (some (sepTok k)) (notVE_sep k) rest
      refine ⟨l2, ?_⟩
      have ht : toks1A k (.skip (.skip r)) = sepTok k :: toks1A k (.skip r) := by
        simp [toks1A, preA, pendA]
      rw [ht, List.cons_append, pass3Go_cons_ok _ _ _ _ (p3_sep _ k), hr2, pre3_pre3]
      simp [tokensOfA]
end

/-! ### pass 2: no blank tokens, nothing to do -/

def NoWs (l : List Tok) : Prop := ∀ t ∈ l, t.ty ≠ .whitespace

theorem noWs_nil : NoWs [] := by intro t ht; cases ht
theorem noWs_cons (t : Tok) (l : List Tok) (h : t.ty ≠ .whitespace) (hl : NoWs l) : NoWs (t :: l) := by
  intro x hx; rcases List.mem_cons.1 hx with h1 | h1
  · subst h1; exact h
  · exact hl x h1
theorem noWs_append (a b : List Tok) (ha : NoWs a) (hb : NoWs b) : NoWs (a ++ b) := by
  intro x hx; rcases List.mem_append.1 hx with h1 | h1
  · exact ha x h1
  · exact hb x h1

theorem noWs_pend (p : Pend) : NoWs p.toks := by
  cases p with
  | none => exact noWs_nil
  | val v => simp only [Pend.toks]; split
             · exact noWs_nil
             · exact noWs_cons _ _ (by simp) noWs_nil
  | str v => exact noWs_cons _ _ (by simp) noWs_nil

theorem sep_ty (k : TT) : (sepTok k).ty ≠ .whitespace := by
  by_cases h : k = .function <;> simp [sepTok, h]

theorem op1_ty (op : BinOp) : (op1 op).ty ≠ .whitespace := by cases op <;> simp [op1]

mutual
  theorem noWs_pre (e : Expr) : NoWs (preE e) := by
    match e with
    | .num _ => exact noWs_nil
    | .str _ => exact noWs_nil
    | .bool _ => exact noWs_nil
    | .err _ => exact noWs_cons _ _ (by simp) noWs_nil
    | .name _ => exact noWs_nil
    | .ref _ => exact noWs_nil
    | .opaque _ => exact noWs_nil
    | .array _ => exact noWs_nil
    | .neg e => exact noWs_cons _ _ (by simp) (noWs_pre e)
    | .pos e => exact noWs_cons _ _ (by simp) (noWs_pre e)
    | .pct e =>
      exact noWs_append _ _ (noWs_append _ _ (noWs_pre e) (noWs_pend _)) (noWs_cons _ _ (by simp) noWs_nil)
    | .bin op a b =>
      exact noWs_append _ _ (noWs_append _ _ (noWs_pre a) (noWs_pend _)) (noWs_cons _ _ (op1_ty op) (noWs_pre b))
    | .isect a b => exact noWs_append _ _ (noWs_append _ _ (noWs_pre a) (noWs_pend _)) (noWs_pre b)
    | .union es =>
      exact noWs_cons _ _ (by simp) (noWs_append _ _ (noWs_append _ _ (noWs_preA .subexpression es) (noWs_pend _))
        (noWs_cons _ _ (by simp) noWs_nil))
    | .paren e =>
      exact noWs_cons _ _ (by simp) (noWs_append _ _ (noWs_append _ _ (noWs_pre e) (noWs_pend _))
        (noWs_cons _ _ (by simp) noWs_nil))
    | .call f as =>
      exact noWs_cons _ _ (by simp) (noWs_append _ _ (noWs_append _ _ (noWs_preA .function as) (noWs_pend _))
        (noWs_cons _ _ (by simp) noWs_nil))
  theorem noWs_preA (k : TT) (as : Args) : NoWs (preA k as) := by
    match as with
    | .nil => exact noWs_nil
    | .cons e .nil => simpa [preA] using noWs_pre e
    | .cons e (.cons e2 r) =>
      simp only [preA]
      exact noWs_append _ _ (noWs_append _ _ (noWs_pre e) (noWs_pend _)) (noWs_cons _ _ (sep_ty k) (noWs_preA k (.cons e2 r)))
    | .cons e (.skip r) =>
      simp only [preA]
      exact noWs_append _ _ (noWs_append _ _ (noWs_pre e) (noWs_pend _)) (noWs_cons _ _ (sep_ty k) (noWs_preA k (.skip r)))
    | .skip .nil => exact noWs_nil
    | .skip (.cons e2 r) => simp only [preA]; exact noWs_cons _ _ (sep_ty k) (noWs_preA k (.cons e2 r))
    | .skip (.skip r) => simp only [preA]; exact noWs_cons _ _ (sep_ty k) (noWs_preA k (.skip r))
end

theorem noWs_toks1 (e : Expr) : NoWs (toks1 e) := noWs_append _ _ (noWs_pre e) (noWs_pend _)

theorem pass2Go_noWs (l : List Tok) (h : NoWs l) (prev : Option Tok) (lv : List Char) :
    pass2Go prev lv l = l := by
  induction l generalizing prev with
  | nil => rfl
  | cons t rest ih =>
    have ht := h t (List.mem_cons_self ..)
    simp only [pass2Go, ht, ne_eq, not_false_eq_true, if_true]
    rw [ih (fun x hx => h x (List.mem_cons_of_mem _ hx))]

/-! ### `lex1` on a printed expression -/

theorem finish_pend (p : Pend) (T : List Tok) : (finish (p.st T [])).toks = T ++ p.toks := by
  cases p with
  | none => simp [finish, Pend.st, Pend.toks]
  | val v => by_cases hv : v = [] <;> simp [finish, Pend.st, Pend.toks, hv]
  | str v => simp [finish, Pend.st, Pend.toks]

theorem pend_not_dead (p : Pend) (T S : List Tok) : (p.st T S).mode ≠ .dead := by
  cases p <;> simp [Pend.st]

theorem lex1_print (e : Expr) (h : LexOk e) : ∃ lv, lex1 e.print = .ok (toks1 e, lv) := by
  have hl := lex_expr e h {} [] [] (startable_fresh [] [])
  refine ⟨(finish (lexRun e.print)).value, ?_⟩
  have hr : lexRun e.print = (pendE e).st (preE e) [] := by simpa [lexRun] using hl
  unfold lex1
  simp only [hr, pend_not_dead, if_false]
  rw [finish_pend]
  rfl

theorem binop_text_ne (op : BinOp) : op.text ≠ [] := by cases op <;> simp [BinOp.text]

theorem print_ne (e : Expr) (h : LexOk e) : e.print ≠ [] := by
  match e, h with
  | .num t, h => exact h.1
  | .str s, _ => simp [Expr.print]
  | .bool b, _ => cases b <;> simp [Expr.print]
  | .err e, _ => cases e <;> simp [Expr.print, ErrLit.text]
  | .name n, h => exact h.1
  | .ref r, h => have := h.1.1; simp [Expr.print, CRef.text, this]
  | .opaque _, h => exact absurd h (by simp [LexOk])
  | .array _, h => exact absurd h (by simp [LexOk])
  | .isect _ _, h => exact absurd h (by simp [LexOk])
  | .neg e, _ => simp [Expr.print]
  | .pos e, _ => simp [Expr.print]
  | .pct e, _ => simp [Expr.print]
  | .bin op a b, _ => simp [Expr.print, binop_text_ne op]
  | .paren e, _ => simp [Expr.print]
  | .union es, _ => simp [Expr.print]
  | .call f as, _ => simp [Expr.print]

/-- `parse_to_tokens("=" + print e)` is the token list of `e` -/
theorem parse_print (e : Expr) (h : LexOk e) : parse ('=' :: e.print) = .ok (tokensOf e) := by
  obtain ⟨lv, hl⟩ := lex1_print e h
  obtain ⟨l, _, hp⟩ := p3_expr e h none (by intro p hp; cases hp) []
  cases hpr : e.print with
  | nil => exact absurd hpr (print_ne e h)
  | cons c r =>
    rw [hpr] at hl
    simp only [parse, hl, pass2, pass3, pass2Go_noWs _ (noWs_toks1 e)]
    simpa [pass3Go, pre3] using hp

end Umya.Formula
