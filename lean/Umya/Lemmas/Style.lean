/-
  The invariant of the style sheet model and its preservation by `setStyle`:
  every index handed out so far, read back after save + reload, shows the effective formatting of
  the style it was handed out for (`RT`), and later insertions only append to the tables (`Ext`).
-/
import Umya.Lemmas.StyleNf
namespace Umya.Style
open Umya.Interning

/-- index `i` of `ss`, read back after save + reload, shows the effective formatting of `s` -/
def RT (cs : Codecs) (ss : Sheet) (i : Nat) (s : Style) : Prop :=
  ∃ x st e, ss.xfs[i]? = some x ∧
    (nfAt cs ss.numFmts x.numFmtId).isSome = true ∧
    rebuild (reloadTables cs ss) (Xf.norm cs x) = some st ∧ eff cs ss st = some e ∧ eff cs ss s = some e

/-- `ss'` is `ss` with entries appended to the tables; number-format ids keep their meaning -/
structure Ext (cs : Codecs) (ss ss' : Sheet) : Prop where
  fonts : ∃ l, ss'.fonts = ss.fonts ++ l
  fills : ∃ l, ss'.fills = ss.fills ++ l
  borders : ∃ l, ss'.borders = ss.borders ++ l
  xfs : ∃ l, ss'.xfs = ss.xfs ++ l
  made : ∃ l, ss'.made = ss.made ++ l
  nf : ∀ id v, nfAt cs ss.numFmts id = some v → nfAt cs ss'.numFmts id = some v

theorem Ext.refl (cs : Codecs) (ss : Sheet) : Ext cs ss ss :=
  ⟨⟨[], by simp⟩, ⟨[], by simp⟩, ⟨[], by simp⟩, ⟨[], by simp⟩, ⟨[], by simp⟩, fun _ _ h => h⟩

theorem Ext.trans {cs : Codecs} {a b c : Sheet} (h1 : Ext cs a b) (h2 : Ext cs b c) : Ext cs a c := by
  obtain ⟨l1, e1⟩ := h1.fonts; obtain ⟨m1, f1⟩ := h2.fonts
  obtain ⟨l2, e2⟩ := h1.fills; obtain ⟨m2, f2⟩ := h2.fills
  obtain ⟨l3, e3⟩ := h1.borders; obtain ⟨m3, f3⟩ := h2.borders
  obtain ⟨l4, e4⟩ := h1.xfs; obtain ⟨m4, f4⟩ := h2.xfs
  obtain ⟨l5, e5⟩ := h1.made; obtain ⟨m5, f5⟩ := h2.made
  exact ⟨⟨l1 ++ m1, by rw [f1, e1, List.append_assoc]⟩, ⟨l2 ++ m2, by rw [f2, e2, List.append_assoc]⟩,
         ⟨l3 ++ m3, by rw [f3, e3, List.append_assoc]⟩, ⟨l4 ++ m4, by rw [f4, e4, List.append_assoc]⟩,
         ⟨l5 ++ m5, by rw [f5, e5, List.append_assoc]⟩, fun id v h => h2.nf id v (h1.nf id v h)⟩

structure Inv (cs : Codecs) (ss : Sheet) : Prop where
  len : ss.made.length = ss.xfs.length
  f0 : 0 < ss.fonts.length
  fi0 : 0 < ss.fills.length
  b0 : 0 < ss.borders.length
  nf : NfInv ss.numFmts
  rt : ∀ i s, ss.made[i]? = some s → RT cs ss i s
  rt0 : RT cs ss 0 {}

/-! ### stability under extension -/

theorem pick_ext {α : Type} {a : Option Bool} {t : List α} {id : Nat} {r : Option α} (l : List α)
    (h : pick a t id = some r) : pick a (t ++ l) id = some r := by
  unfold pick at h ⊢
  by_cases ha : a.getD true = true
  · simp only [ha, if_true] at h ⊢
    cases hg : t[id]? with
    | none => simp [hg] at h
    | some v =>
      have hlt := (List.getElem?_eq_some_iff.mp hg).1
      rw [List.getElem?_append_left hlt, hg]
      simpa [hg] using h
  · simpa [ha] using h

theorem head_append {α : Type} {t : List α} (l : List α) (h : 0 < t.length) : (t ++ l)[0]? = t[0]? :=
  List.getElem?_append_left h

theorem eff_ext {cs : Codecs} {ss ss' : Sheet} (he : Ext cs ss ss') (f0 : 0 < ss.fonts.length)
    (fi0 : 0 < ss.fills.length) (b0 : 0 < ss.borders.length) (s : Style) : eff cs ss' s = eff cs ss s := by
  obtain ⟨l1, e1⟩ := he.fonts; obtain ⟨l2, e2⟩ := he.fills; obtain ⟨l3, e3⟩ := he.borders
  unfold eff
  rw [e1, e2, e3, head_append l1 f0, head_append l2 fi0, head_append l3 b0]

theorem rebuild_ext {cs : Codecs} {ss ss' : Sheet} (he : Ext cs ss ss') {x : Xf} {st : Style}
    (hres : (nfAt cs ss.numFmts x.numFmtId).isSome = true)
    (h : rebuild (reloadTables cs ss) x = some st) : rebuild (reloadTables cs ss') x = some st := by
  obtain ⟨l1, e1⟩ := he.fonts; obtain ⟨l2, e2⟩ := he.fills; obtain ⟨l3, e3⟩ := he.borders
  unfold rebuild at h ⊢
  simp only [reloadTables] at h ⊢
  cases hfo : pick x.applyFont (ss.fonts.map cs.font.norm) x.fontId with
  | none => simp [hfo] at h
  | some fo =>
    cases hfi : pick x.applyFill (ss.fills.map cs.fill.norm) x.fillId with
    | none => simp [hfo, hfi] at h
    | some fi =>
      cases hbo : pick x.applyBorder (ss.borders.map cs.borders.norm) x.borderId with
      | none => simp [hfo, hfi, hbo] at h
      | some bo =>
        have h1 := pick_ext (l1.map cs.font.norm) hfo
        have h2 := pick_ext (l2.map cs.fill.norm) hfi
        have h3 := pick_ext (l3.map cs.borders.norm) hbo
        rw [e1, e2, e3, List.map_append, List.map_append, List.map_append, h1, h2, h3]
        simp only [hfo, hfi, hbo] at h
        rw [← h]
        obtain ⟨v, hv⟩ := Option.isSome_iff_exists.mp hres
        have hv' := he.nf _ _ hv
        simp only [assoc_reload, hv, hv']

theorem RT_ext {cs : Codecs} {ss ss' : Sheet} (he : Ext cs ss ss') (f0 : 0 < ss.fonts.length)
    (fi0 : 0 < ss.fills.length) (b0 : 0 < ss.borders.length) {i : Nat} {s : Style}
    (h : RT cs ss i s) : RT cs ss' i s := by
  obtain ⟨x, st, e, hx, hres, hr, h1, h2⟩ := h
  obtain ⟨l, el⟩ := he.xfs
  have hlt := (List.getElem?_eq_some_iff.mp hx).1
  refine ⟨x, st, e, ?_, ?_, rebuild_ext he hres hr, ?_, ?_⟩
  · rw [el, List.getElem?_append_left hlt, hx]
  · obtain ⟨v, hv⟩ := Option.isSome_iff_exists.mp hres
    rw [he.nf _ _ hv]; rfl
  · rw [eff_ext he f0 fi0 b0]; exact h1
  · rw [eff_ext he f0 fi0 b0]; exact h2

/-! ### a new entry -/

theorem flag_getD (b : Bool) : (flag b).getD true = true := by
  cases b <;> simp [flag]

/-- interning one optional component: the table only grows at the end, entry 0 stays, and the id
    stored in the `<xf>` reads back (through `pick`) as the component, or as entry 0 when absent -/
theorem internOpt_pick {α : Type} [DecidableEq α] (t : List α) (o : Option α) (ht : 0 < t.length) (f : α → α) :
    ∃ a0 l, t[0]? = some a0 ∧ (internOpt t o).1 = t ++ l ∧
      pick (flag o.isSome) ((internOpt t o).1.map f) (internOpt t o).2 = some (some (f (o.getD a0))) := by
  have hne : t ≠ [] := by intro h; simp [h] at ht
  obtain ⟨a0, t', rfl⟩ := List.exists_cons_of_ne_nil hne
  cases o with
  | none =>
    refine ⟨a0, [], by simp, by simp [internOpt], ?_⟩
    simp [internOpt, pick, flag]
  | some v =>
    obtain ⟨l, hl, _⟩ := internBy_prefix (fun x e => decide (e = x)) (a0 :: t') v
    have hg := internEq_get (a0 :: t') v
    refine ⟨a0, l, by simp, hl, ?_⟩
    simp only [internOpt, pick, flag, Option.isSome_some, if_true, Option.getD_some]
    rw [List.getElem?_map, hg]
    rfl

theorem nfSetStyle_builtin (key : Tok → Tok) (t : List (Nat × NumFmt)) (v : NumFmt) (hb : v.builtIn = true) :
    nfSetStyle key t (some v) = (t, v.id) := by
  simp [nfSetStyle, hb]

theorem nfSetStyle_found (key : Tok → Tok) (t : List (Nat × NumFmt)) (v : NumFmt) (hb : v.builtIn = false)
    (p : Nat × NumFmt) (hf : t.find? (fun p => key p.2.code == key v.code) = some p) :
    nfSetStyle key t (some v) = (t, p.1) := by
  simp [nfSetStyle, hb, hf]

theorem nfSetStyle_new (key : Tok → Tok) (t : List (Nat × NumFmt)) (v : NumFmt) (hb : v.builtIn = false)
    (hf : t.find? (fun p => key p.2.code == key v.code) = none) :
    nfSetStyle key t (some v) = (t ++ [(maxId t + 1, { v with id := maxId t + 1 })], maxId t + 1) := by
  simp [nfSetStyle, hb, hf]

theorem nf_new {cs : Codecs} {key : Tok → Tok} (hkey : ∀ a b, key a = key b → a = b)
    {t : List (Nat × NumFmt)} (h : NfInv t) (o : Option NumFmt) (hwf : ∀ v, o = some v → v.WF) :
    NfInv (nfSetStyle key t o).1 ∧
    (∀ id v, nfAt cs t id = some v → nfAt cs (nfSetStyle key t o).1 id = some v) ∧
    ∃ v', nfAt cs (nfSetStyle key t o).1 (nfSetStyle key t o).2 = some v' ∧
      cs.code.norm v'.code = cs.code.norm ((o.map (·.code)).getD general) := by
  cases o with
  | none =>
    refine ⟨h, fun _ _ hh => hh, ?_⟩
    have hb : builtin 0 = some general := by decide
    exact ⟨_, nfAt_builtin cs h hb, rfl⟩
  | some v =>
    by_cases hbi : v.builtIn = true
    · rw [nfSetStyle_builtin key t v hbi]
      refine ⟨h, fun _ _ hh => hh, ?_⟩
      exact ⟨_, nfAt_builtin cs h (hwf v rfl hbi), rfl⟩
    · have hbf : v.builtIn = false := by simpa using hbi
      cases hf : t.find? (fun p => key p.2.code == key v.code) with
      | some p =>
        rw [nfSetStyle_found key t v hbf p hf]
        refine ⟨h, fun _ _ hh => hh, ?_⟩
        have hp := List.mem_of_find?_eq_some hf
        have hc : p.2.code = v.code := hkey _ _ (by simpa using List.find?_some hf)
        by_cases hpb : p.2.builtIn = true
        · refine ⟨_, nfAt_builtin cs h (h.bi p hp hpb), ?_⟩
          simp [hc]
        · have hpf : p.2.builtIn = false := by simpa using hpb
          refine ⟨_, nfAt_custom cs h hp hpf, ?_⟩
          simp [hc, cs.code.idem]
      | none =>
        rw [nfSetStyle_new key t v hbf hf]
        have hge := maxId_ge t
        refine ⟨NfInv_append h v hbf, ?_, ?_⟩
        · intro id w hw
          show nfAt cs (t ++ [(maxId t + 1, { v with id := maxId t + 1 })]) id = some w
          rw [nfAt_append cs t v hbf id]
          by_cases hid : id = maxId t + 1
          · exfalso
            subst hid
            unfold nfAt at hw
            have hnone : (customs t).find? (fun p => p.1 == maxId t + 1) = none := by
              rw [List.find?_eq_none]
              intro p hp hkk
              have h1 : p.1 = maxId t + 1 := by simpa using hkk
              have := hge.2 p (mem_customs.mp hp).1
              omega
            have hb : builtin (maxId t + 1) = none := builtin_none_of_ge (by omega)
            simp [hnone, hb] at hw
          · simp [hid, hw]
        · refine ⟨{ id := maxId t + 1, code := cs.code.norm v.code, builtIn := false }, ?_, ?_⟩
          · show nfAt cs (t ++ [(maxId t + 1, { v with id := maxId t + 1 })]) (maxId t + 1) = _
            rw [nfAt_append cs t v hbf]; simp
          · simp [cs.code.idem]

/-- the effective formatting, given the three entries 0 -/
def effWith (cs : Codecs) (f0 : Font) (fi0 : Fill) (b0 : Borders) (s : Style) : Eff :=
  { font := cs.font.norm (s.font.getD f0),
    fill := cs.fill.norm (s.fill.getD fi0),
    borders := cs.borders.norm (s.borders.getD b0),
    alignment := s.alignment.map cs.alignment.norm,
    code := cs.code.norm ((s.numFmt.map (·.code)).getD general),
    protection := s.protection.map cs.protection.norm }

theorem eff_of_heads {cs : Codecs} {ss : Sheet} {f0 : Font} {fi0 : Fill} {b0 : Borders}
    (h1 : ss.fonts[0]? = some f0) (h2 : ss.fills[0]? = some fi0) (h3 : ss.borders[0]? = some b0) (s : Style) :
    eff cs ss s = some (effWith cs f0 fi0 b0 s) := by
  simp [eff, effWith, h1, h2, h3]

/-- the `<xf>` built by the append branch of `setStyle` -/
def newXf (key : Tok → Tok) (ss : Sheet) (s : Style) : Xf :=
  { numFmtId := (nfSetStyle key ss.numFmts s.numFmt).2, fontId := (internOpt ss.fonts s.font).2,
    fillId := (internOpt ss.fills s.fill).2, borderId := (internOpt ss.borders s.borders).2,
    applyNumFmt := flag s.numFmt.isSome, applyFont := flag s.font.isSome,
    applyFill := flag s.fill.isSome, applyBorder := flag s.borders.isSome,
    applyAlignment := flag s.alignment.isSome, applyProtection := flag s.protection.isSome,
    alignment := s.alignment, protection := s.protection }

/-- the sheet produced by the append branch of `setStyle` -/
def pushed (key : Tok → Tok) (ss : Sheet) (s : Style) : Sheet :=
  { numFmts := (nfSetStyle key ss.numFmts s.numFmt).1, fonts := (internOpt ss.fonts s.font).1,
    fills := (internOpt ss.fills s.fill).1, borders := (internOpt ss.borders s.borders).1,
    xfs := ss.xfs ++ [newXf key ss s], made := ss.made ++ [s] }

/-- what the new `<xf>` reads back as -/
def newSt (cs : Codecs) (f0 : Font) (fi0 : Fill) (b0 : Borders) (v' : NumFmt) (s : Style) : Style :=
  { font := some (cs.font.norm (s.font.getD f0)),
    fill := some (cs.fill.norm (s.fill.getD fi0)),
    borders := some (cs.borders.norm (s.borders.getD b0)),
    alignment := s.alignment.map cs.alignment.norm,
    numFmt := some v', formatId := some 0,
    protection := s.protection.map cs.protection.norm }

theorem setStyle_cases (key : Tok → Tok) (ss : Sheet) (s : Style) :
    (s = {} ∧ setStyle key ss s = (ss, 0)) ∨
    (∃ i, find (fun m => decide (s = m)) ss.made = some i ∧ setStyle key ss s = (ss, i)) ∨
    (s ≠ {} ∧ find (fun m => decide (s = m)) ss.made = none ∧ setStyle key ss s = (pushed key ss s, ss.made.length)) := by
  unfold setStyle
  by_cases h0 : s = {}
  · left; exact ⟨h0, by simp [h0]⟩
  · right
    cases hf : find (fun m => decide (s = m)) ss.made with
    | some i => left; exact ⟨i, rfl, by simp [h0]⟩
    | none => right; exact ⟨h0, rfl, by simp [h0, pushed, newXf]⟩

theorem pushed_ext {cs : Codecs} {key : Tok → Tok} (hkey : ∀ a b, key a = key b → a = b)
    {ss : Sheet} (h : Inv cs ss) {s : Style} (hs : s.WF) : Ext cs ss (pushed key ss s) := by
  obtain ⟨_, l1, _, e1, _⟩ := internOpt_pick ss.fonts s.font h.f0 id
  obtain ⟨_, l2, _, e2, _⟩ := internOpt_pick ss.fills s.fill h.fi0 id
  obtain ⟨_, l3, _, e3, _⟩ := internOpt_pick ss.borders s.borders h.b0 id
  exact ⟨⟨l1, e1⟩, ⟨l2, e2⟩, ⟨l3, e3⟩, ⟨_, rfl⟩, ⟨_, rfl⟩, (nf_new (cs := cs) hkey h.nf s.numFmt hs).2.1⟩

theorem pushed_rt {cs : Codecs} {key : Tok → Tok} (hkey : ∀ a b, key a = key b → a = b)
    {ss : Sheet} (h : Inv cs ss) {s : Style} (hs : s.WF) : RT cs (pushed key ss s) ss.xfs.length s := by
  obtain ⟨f0, l1, hf0, e1, p1⟩ := internOpt_pick ss.fonts s.font h.f0 cs.font.norm
  obtain ⟨fi0, l2, hfi0, e2, p2⟩ := internOpt_pick ss.fills s.fill h.fi0 cs.fill.norm
  obtain ⟨b0, l3, hb0, e3, p3⟩ := internOpt_pick ss.borders s.borders h.b0 cs.borders.norm
  obtain ⟨_, _, v', hv', hcode⟩ := nf_new (cs := cs) hkey h.nf s.numFmt hs
  have g1 : (pushed key ss s).fonts[0]? = some f0 := by
    show (internOpt ss.fonts s.font).1[0]? = some f0
    rw [e1, head_append l1 h.f0, hf0]
  have g2 : (pushed key ss s).fills[0]? = some fi0 := by
    show (internOpt ss.fills s.fill).1[0]? = some fi0
    rw [e2, head_append l2 h.fi0, hfi0]
  have g3 : (pushed key ss s).borders[0]? = some b0 := by
    show (internOpt ss.borders s.borders).1[0]? = some b0
    rw [e3, head_append l3 h.b0, hb0]
  refine ⟨newXf key ss s, newSt cs f0 fi0 b0 v' s, effWith cs f0 fi0 b0 s, by simp [pushed], ?_, ?_, ?_,
    eff_of_heads g1 g2 g3 s⟩
  · show (nfAt cs (nfSetStyle key ss.numFmts s.numFmt).1 (nfSetStyle key ss.numFmts s.numFmt).2).isSome = true
    rw [hv']; rfl
  · unfold rebuild
    simp only [reloadTables, Xf.norm, pushed, newXf, p1, p2, p3, flag_getD, if_true, assoc_reload, hv', newSt]
  · rw [eff_of_heads g1 g2 g3]
    simp only [effWith, newSt, Option.getD_some, Option.map_some, Option.some.injEq, Eff.mk.injEq]
    refine ⟨cs.font.idem _, cs.fill.idem _, cs.borders.idem _, ?_, hcode, ?_⟩
    · cases s.alignment <;> simp [cs.alignment.idem]
    · cases s.protection <;> simp [cs.protection.idem]

theorem pushed_inv {cs : Codecs} {key : Tok → Tok} (hkey : ∀ a b, key a = key b → a = b)
    {ss : Sheet} (h : Inv cs ss) {s : Style} (hs : s.WF) : Inv cs (pushed key ss s) := by
  have he := pushed_ext hkey h hs
  have hnew := pushed_rt hkey h hs
  obtain ⟨l1, e1⟩ := he.fonts; obtain ⟨l2, e2⟩ := he.fills; obtain ⟨l3, e3⟩ := he.borders
  refine ⟨by simp [pushed, h.len], by rw [e1]; simp; have := h.f0; omega, by rw [e2]; simp; have := h.fi0; omega,
          by rw [e3]; simp; have := h.b0; omega, (nf_new (cs := cs) hkey h.nf s.numFmt hs).1, ?_, RT_ext he h.f0 h.fi0 h.b0 h.rt0⟩
  intro i t hi
  have hm : (pushed key ss s).made = ss.made ++ [s] := rfl
  rw [hm] at hi
  by_cases hlt : i < ss.made.length
  · rw [List.getElem?_append_left hlt] at hi
    exact RT_ext he h.f0 h.fi0 h.b0 (h.rt i t hi)
  · have hi' := hi
    rw [List.getElem?_append_right (by omega)] at hi'
    have hi0 : i - ss.made.length = 0 := by
      cases hd : i - ss.made.length with
      | zero => rfl
      | succ n => simp [hd] at hi'
    have hieq : i = ss.xfs.length := by rw [← h.len]; omega
    rw [hi0] at hi'
    have hts : s = t := by simpa using hi'
    subst hts; subst hieq
    exact hnew

/-- the step lemma: `setStyle` preserves the invariant, only extends the tables, and the index it
    returns reads back as the style that was set -/
theorem setStyle_step {cs : Codecs} {key : Tok → Tok} (hkey : ∀ a b, key a = key b → a = b)
    {ss : Sheet} (h : Inv cs ss) {s : Style} (hs : s.WF) :
    Inv cs (setStyle key ss s).1 ∧ Ext cs ss (setStyle key ss s).1 ∧
    RT cs (setStyle key ss s).1 (setStyle key ss s).2 s := by
  rcases setStyle_cases key ss s with ⟨h0, e⟩ | ⟨i, hf, e⟩ | ⟨_, _, e⟩
  · rw [e]; subst h0; exact ⟨h, Ext.refl cs ss, h.rt0⟩
  · rw [e]
    obtain ⟨a, ha, hp⟩ := find_some hf
    have : s = a := by simpa using hp
    subst this
    exact ⟨h, Ext.refl cs ss, h.rt i s ha⟩
  · rw [e]
    refine ⟨pushed_inv hkey h hs, pushed_ext hkey h hs, ?_⟩
    rw [h.len]
    exact pushed_rt hkey h hs

/-! ### the style sheet of `new_file()` satisfies the invariant -/

def xfA : Xf := { applyFont := some true, applyFill := some true, applyBorder := some true }
def xfB : Xf := { fillId := 1, applyFont := some true, applyFill := some true, applyBorder := some true }
def initExplicit : Sheet :=
  { numFmts := [], fonts := [defaultFont], fills := [defaultFill, defaultFill2], borders := [{}],
    xfs := [xfA, xfB], made := [defaultStyle, defaultStyle2] }

theorem init_explicit (key : Tok → Tok) : initSheet key = initExplicit := rfl

theorem builtin_zero : builtin 0 = some general := by decide

theorem nfAt_nil_zero (cs : Codecs) : nfAt cs [] 0 = some { id := 0, code := general, builtIn := true } :=
  nfAt_builtin cs NfInv_nil builtin_zero

theorem init_rt0 (cs : Codecs) (s : Style) (hs : s = {} ∨ s = defaultStyle) : RT cs initExplicit 0 s := by
  refine ⟨xfA, newSt cs defaultFont defaultFill {} { id := 0, code := general, builtIn := true } s,
    effWith cs defaultFont defaultFill {} s, rfl, ?_, ?_, ?_, ?_⟩
  · show (nfAt cs [] 0).isSome = true
    rw [nfAt_nil_zero]; rfl
  · unfold rebuild
    have h0 : nfAt cs [] 0 = some { id := 0, code := general, builtIn := true } := nfAt_nil_zero cs
    rcases hs with rfl | rfl <;>
      simp [reloadTables, Xf.norm, initExplicit, xfA, pick, assoc_reload, h0, newSt, defaultStyle]
  · rw [eff_of_heads (f0 := defaultFont) (fi0 := defaultFill) (b0 := {}) rfl rfl rfl]
    rcases hs with rfl | rfl <;>
      simp [effWith, newSt, cs.font.idem, cs.fill.idem, cs.borders.idem, defaultStyle]
  · exact eff_of_heads (f0 := defaultFont) (fi0 := defaultFill) (b0 := {}) rfl rfl rfl s

theorem init_rt1 (cs : Codecs) : RT cs initExplicit 1 defaultStyle2 := by
  refine ⟨xfB, newSt cs defaultFont defaultFill {} { id := 0, code := general, builtIn := true } defaultStyle2,
    effWith cs defaultFont defaultFill {} defaultStyle2, rfl, ?_, ?_, ?_, ?_⟩
  · show (nfAt cs [] 0).isSome = true
    rw [nfAt_nil_zero]; rfl
  · unfold rebuild
    have h0 : nfAt cs [] 0 = some { id := 0, code := general, builtIn := true } := nfAt_nil_zero cs
    simp [reloadTables, Xf.norm, initExplicit, xfB, pick, assoc_reload, h0, newSt, defaultStyle2]
  · rw [eff_of_heads (f0 := defaultFont) (fi0 := defaultFill) (b0 := {}) rfl rfl rfl]
    simp [effWith, newSt, cs.font.idem, cs.fill.idem, cs.borders.idem, defaultStyle2]
  · exact eff_of_heads (f0 := defaultFont) (fi0 := defaultFill) (b0 := {}) rfl rfl rfl _

theorem init_inv (cs : Codecs) (key : Tok → Tok) : Inv cs (initSheet key) := by
  rw [init_explicit]
  refine ⟨rfl, by decide, by decide, by decide, NfInv_nil, ?_, init_rt0 cs {} (Or.inl rfl)⟩
  intro i s hi
  match i, hi with
  | 0, hi =>
    have : s = defaultStyle := by simpa [initExplicit] using hi.symm
    subst this; exact init_rt0 cs _ (Or.inr rfl)
  | 1, hi =>
    have : s = defaultStyle2 := by simpa [initExplicit] using hi.symm
    subst this; exact init_rt1 cs
  | n + 2, hi => simp [initExplicit] at hi

/-! ### whole insertion sequences -/

theorem setAll_spec {cs : Codecs} {key : Tok → Tok} (hkey : ∀ a b, key a = key b → a = b) :
    ∀ (l : List Style) (ss : Sheet), Inv cs ss → (∀ s ∈ l, s.WF) →
      Inv cs (setAll key ss l).1 ∧ Ext cs ss (setAll key ss l).1 ∧
      ∀ (k : Nat) (s : Style), l[k]? = some s → ∃ i, (setAll key ss l).2[k]? = some i ∧ RT cs (setAll key ss l).1 i s
  | [], ss, h, _ => ⟨h, Ext.refl cs ss, fun k s hk => by simp at hk⟩
  | a :: l, ss, h, hwf => by
    obtain ⟨h1, e1, r1⟩ := setStyle_step hkey h (hwf a (by simp))
    obtain ⟨h2, e2, r2⟩ := setAll_spec hkey l (setStyle key ss a).1 h1 (fun s hs => hwf s (by simp [hs]))
    refine ⟨h2, Ext.trans e1 e2, ?_⟩
    intro k s hk
    cases k with
    | zero =>
      have : a = s := by simpa using hk
      subst this
      exact ⟨(setStyle key ss a).2, by simp [setAll], RT_ext e2 h1.f0 h1.fi0 h1.b0 r1⟩
    | succ k =>
      have hk' : l[k]? = some s := by simpa using hk
      obtain ⟨i, hi, hr⟩ := r2 k s hk'
      exact ⟨i, by simpa [setAll] using hi, hr⟩

/-- the formatting an index reads back as is a function of the index -/
theorem RT_unique {cs : Codecs} {ss : Sheet} {i : Nat} {s t : Style} (h1 : RT cs ss i s) (h2 : RT cs ss i t) :
    eff cs ss s = eff cs ss t := by
  obtain ⟨x, st, e, hx, _, hr, he, hs⟩ := h1
  obtain ⟨x', st', e', hx', _, hr', he', ht⟩ := h2
  rw [hx] at hx'; cases hx'
  rw [hr] at hr'; cases hr'
  rw [hs, ht, ← he, ← he']

theorem RT_styleAt {cs : Codecs} {ss : Sheet} {i : Nat} {s : Style} (h : RT cs ss i s) :
    ∃ st e, styleAt cs ss i = some st ∧ eff cs ss st = some e ∧ eff cs ss s = some e := by
  obtain ⟨x, st, e, hx, _, hr, he, hs⟩ := h
  exact ⟨st, e, by simp [styleAt, hx, hr], he, hs⟩

/-! ### no growth -/

theorem setStyle_idem (key : Tok → Tok) (ss : Sheet) (s : Style) :
    setStyle key (setStyle key ss s).1 s = setStyle key ss s := by
  rcases setStyle_cases key ss s with ⟨_, e⟩ | ⟨i, _, e⟩ | ⟨h0, hf, e⟩
  · rw [e]; exact e
  · rw [e]; exact e
  · rw [e]
    have hf2 : find (fun m => decide (s = m)) (pushed key ss s).made = some ss.made.length :=
      find_append_of_none (p := fun m => decide (s = m)) s hf (by simp)
    unfold setStyle
    simp [h0, hf2]

theorem setStyle_of_mem (key : Tok → Tok) (ss : Sheet) (s : Style) (hm : s ∈ ss.made) :
    (setStyle key ss s).1 = ss := by
  rcases setStyle_cases key ss s with ⟨_, e⟩ | ⟨i, _, e⟩ | ⟨_, hf, _⟩
  · rw [e]
  · rw [e]
  · have := find_none hf s hm
    simp at this

end Umya.Style
