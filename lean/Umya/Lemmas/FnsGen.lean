/-
  (T) translator, part 3: proof infrastructure for the definitions compiled from the Rust source on
  every run by tools/extract_fns.py (`Umya/Model/Gen/Fns.lean`).

  The equality proofs (`Umya/Lemmas/FnsGen*.lean`, one file per area so that a broken obligation only
  affects the properties that rest on it) are written against whatever the compiler produced on this
  run.  They do not compare syntax: both sides are brought to a normal form of `Option` programs
  (`opt_norm`: checked operations become guards `guardO P x`, binds are right-nested, maps pushed to
  the leaves) and compared node by node (`opt_eq`): conditionals by case split with contradictory
  branches closed by `omega`, guards by `omega` on the equivalence of the guard conditions (so the order
  in which overflow checks happen is irrelevant), values by congruence + `omega`.  A renamed local, a
  swapped `if` with negated condition or a commuted sum still proves; a changed constant, operator or
  branch does not.
-/
import Umya.Model.Gen.Fns
namespace Umya.Gen

/-- `if P then x else none`, kept folded so that `split` only sees the program's own conditionals -/
def guardO {α} (P : Prop) [Decidable P] (x : Option α) : Option α := if P then x else none

theorem guardO_congr {α} {P Q : Prop} [Decidable P] [Decidable Q] {x y : Option α}
    (hpq : P ↔ Q) (hxy : P → x = y) : guardO P x = guardO Q y := by
  unfold guardO
  by_cases hp : P
  · have hq : Q := hpq.1 hp
    simp [hp, hq, hxy hp]
  · have hq : ¬ Q := fun h => hp (hpq.2 h)
    simp [hp, hq]

theorem guardO_guardO {α} (P Q : Prop) [Decidable P] [Decidable Q] (x : Option α) :
    guardO P (guardO Q x) = guardO (P ∧ Q) x := by
  unfold guardO; by_cases hp : P <;> by_cases hq : Q <;> simp [hp, hq]

theorem guardO_bind {α β} (P : Prop) [Decidable P] (x : Option α) (f : α → Option β) :
    (guardO P x).bind f = guardO P (x.bind f) := by
  unfold guardO; by_cases hp : P <;> simp [hp]

theorem guardO_map {α β} (P : Prop) [Decidable P] (x : Option α) (f : α → β) :
    (guardO P x).map f = guardO P (x.map f) := by
  unfold guardO; by_cases hp : P <;> simp [hp]

theorem guardO_true {α} (P : Prop) [Decidable P] (x : Option α) (h : P) : guardO P x = x := by
  simp [guardO, h]

theorem guardO_false {α} (P : Prop) [Decidable P] (x : Option α) (h : ¬ P) : guardO P x = none := by
  simp [guardO, h]

theorem i32c_bind {β} (x : Int) (f : Int → Option β) :
    (i32c x).bind f = guardO (-2147483648 ≤ x ∧ x ≤ 2147483647) (f x) := by
  unfold i32c guardO; split <;> simp

theorem i32c_eq (x : Int) : i32c x = guardO (-2147483648 ≤ x ∧ x ≤ 2147483647) (some x) := rfl

theorem usub_bind {β} (a b : Nat) (f : Nat → Option β) : (usub a b).bind f = guardO (b ≤ a) (f (a - b)) := by
  unfold usub guardO; split <;> simp

theorem usub_eq (a b : Nat) : usub a b = guardO (b ≤ a) (some (a - b)) := rfl

theorem bind_congr' {α β} {o : Option α} {f g : α → Option β} (h : ∀ a, f a = g a) : o.bind f = o.bind g := by
  cases o <;> simp [h]

theorem some_congr' {α} {a b : α} (h : a = b) : some a = some b := by rw [h]

/-- `i32 / k` for a positive literal `k`, in the terms `omega` understands -/
theorem tdiv_pos_lit (a k : Int) (_hk : 0 < k) : a.tdiv k = if 0 ≤ a then a / k else -((-a) / k) := by
  split
  · exact Int.tdiv_eq_ediv_of_nonneg ‹_›
  · have : a = -(-a) := by omega
    rw [this, Int.neg_tdiv, Int.tdiv_eq_ediv_of_nonneg (by omega)]; simp

/-- linear integer arithmetic with truncating division by positive literals: `omega` with the divisions as atoms;
    if that fails, after sorting sums and products (so that `a * 3` and `3 * a` under a division are one atom);
    if that fails too, with the truncating divisions expanded into floor divisions by cases on the sign -/
macro "arith" : tactic => `(tactic| first
  | omega
  | (simp only [Int.mul_comm, Int.mul_left_comm, Int.add_comm, Int.add_left_comm, Nat.mul_comm, Nat.mul_left_comm,
      Nat.add_comm, Nat.add_left_comm] at *; omega)
  | (simp (disch := decide) only [tdiv_pos_lit] at *; omega))

syntax "arith_congr" : tactic
macro_rules | `(tactic| arith_congr) => `(tactic| first | rfl | arith | (congr 1 <;> arith_congr))

end Umya.Gen
