/-
  (T) translator, part 3: proof infrastructure for the definitions compiled from the Rust source on
  every run by tools/extract_fns.py (`Umya/Model/Gen/Fns.lean`).

  The equality proofs (`Umya/Lemmas/FnsGen*.lean`, one file per area so that a broken obligation only
  affects the properties that rest on it) are written against whatever the compiler produced on this
  run.  They do not compare syntax: both sides are brought to a normal form of `Option` programs
  (`opt_norm`: checked operations and slices become guards `guardO P x`, binds are right-nested and pushed
  through conditionals, maps pushed to the leaves); then EVERY conditional of both sides is split, every bind
  of an opaque option (a parse, an extern) is turned into a `match` and split too — wherever it stands, so the
  order of independent statements is irrelevant — and the leaves are compared (`opt_leaf`): guards by `omega`
  on the equivalence of the guard conditions (so the order in which overflow checks happen is irrelevant),
  values by congruence + `omega`, excluded paths by `omega` on the path conditions.  A renamed local, a
  swapped `if` with negated condition or a commuted sum still proves; a changed constant, operator or
  branch does not.
-/
import Umya.Model.Gen.Fns
import Umya.Lemmas.GenTactics
namespace Umya.Gen

/-- `if P then x else none`, kept folded so that `split` only sees the program's own conditionals -/
def guardO {α} (P : Prop) [Decidable P] (x : Option α) : Option α := if P then x else none

theorem guardO_congr {α} {P Q : Prop} [Decidable P] [Decidable Q] {x y : Option α}
    (hpq : P ↔ Q) (hxy : P → x = y) : guardO P x = guardO Q y := by
  unfold guardO
  by_cases hp : P
  · have hq : Q := hpq.1 hp
    simp [hp, hq, hxy hp]
  · have hq : ¬ Q := fun h => hp (hpq.2 h)
    simp [hp, hq]

theorem guardO_guardO {α} (P Q : Prop) [Decidable P] [Decidable Q] (x : Option α) :
    guardO P (guardO Q x) = guardO (P ∧ Q) x := by
  unfold guardO; by_cases hp : P <;> by_cases hq : Q <;> simp [hp, hq]

theorem guardO_bind {α β} (P : Prop) [Decidable P] (x : Option α) (f : α → Option β) :
    (guardO P x).bind f = guardO P (x.bind f) := by
  unfold guardO; by_cases hp : P <;> simp [hp]

theorem guardO_map {α β} (P : Prop) [Decidable P] (x : Option α) (f : α → β) :
    (guardO P x).map f = guardO P (x.map f) := by
  unfold guardO; by_cases hp : P <;> simp [hp]

theorem guardO_true {α} (P : Prop) [Decidable P] (x : Option α) (h : P) : guardO P x = x := by
  simp [guardO, h]

theorem guardO_false {α} (P : Prop) [Decidable P] (x : Option α) (h : ¬ P) : guardO P x = none := by
  simp [guardO, h]

theorem i32c_bind {β} (x : Int) (f : Int → Option β) :
    (i32c x).bind f = guardO (-2147483648 ≤ x ∧ x ≤ 2147483647) (f x) := by
  unfold i32c guardO; split <;> simp

theorem i32c_eq (x : Int) : i32c x = guardO (-2147483648 ≤ x ∧ x ≤ 2147483647) (some x) := rfl

theorem usub_bind {β} (a b : Nat) (f : Nat → Option β) : (usub a b).bind f = guardO (b ≤ a) (f (a - b)) := by
  unfold usub guardO; split <;> simp

theorem usub_eq (a b : Nat) : usub a b = guardO (b ≤ a) (some (a - b)) := rfl

theorem bind_congr' {α β} {o : Option α} {f g : α → Option β} (h : ∀ a, f a = g a) : o.bind f = o.bind g := by
  cases o <;> simp [h]

theorem some_congr' {α} {a b : α} (h : a = b) : some a = some b := by rw [h]

/-- `i32 / k` for a positive literal `k`, in the terms `omega` understands -/
theorem tdiv_pos_lit (a k : Int) (_hk : 0 < k) : a.tdiv k = if 0 ≤ a then a / k else -((-a) / k) := by
  split
  · exact Int.tdiv_eq_ediv_of_nonneg ‹_›
  · have : a = -(-a) := by omega
    rw [this, Int.neg_tdiv, Int.tdiv_eq_ediv_of_nonneg (by omega)]; simp

theorem guardO_none {α} (P : Prop) [Decidable P] : guardO P (none : Option α) = none := by
  unfold guardO; split <;> rfl

theorem guardO_eq_some_iff {α} (P : Prop) [Decidable P] (a b : α) : guardO P (some a) = some b ↔ P ∧ a = b := by
  unfold guardO; by_cases h : P <;> simp [h]

theorem guardO_eq_none_iff {α} (P : Prop) [Decidable P] (a : α) : guardO P (some a) = none ↔ ¬ P := by
  unfold guardO; by_cases h : P <;> simp [h]

/-- a bind of an opaque option (an extern, a parse) as a `match`, so that `split` can take it apart wherever it stands -/
theorem bind_as_match {α β} (o : Option α) (f : α → Option β) :
    o.bind f = match o with | none => none | some a => f a := by cases o <;> rfl

theorem ite_bind' {α β} (c : Prop) [Decidable c] (a b : Option α) (f : α → Option β) :
    (if c then a else b).bind f = if c then a.bind f else b.bind f := by split <;> rfl

theorem ite_map' {α β} (c : Prop) [Decidable c] (a b : Option α) (f : α → β) :
    (if c then a else b).map f = if c then a.map f else b.map f := by split <;> rfl

/-- linear integer arithmetic with truncating division by positive literals: `omega` with the divisions as atoms;
    if that fails, with the literals of products and sums moved to canonical places (`Lemmas/GenTactics.lean`) (so that `a * 3` and `3 * a` under a
    division are one atom; terminating, no AC rewriting); if that fails too, with the truncating divisions expanded into
    floor divisions by cases on the sign -/
macro "arith" : tactic => `(tactic| first
  | omega
  | (simp only [mulLitLeft, addLitRight] at *; omega)
  | (simp (disch := decide) only [tdiv_pos_lit] at *; omega)
  | (simp only [mulLitLeft, addLitRight] at *; simp (disch := decide) only [tdiv_pos_lit] at *; omega))

syntax "arith_congr" : tactic
macro_rules | `(tactic| arith_congr) => `(tactic| first | rfl | arith | (congr 1 <;> arith_congr))

/-- small `Option` / `Nat` programs: checked subtraction as a plain conditional, binds pushed through conditionals,
    Boolean conditions (of the goal and of the hypotheses) as propositions -/
macro "fn_norm" : tactic => `(tactic| simp only [usub, i32c, ite_bind', ite_map', Option.bind_some, Option.bind_none, Option.map_some,
    Option.map_none, Option.bind_assoc, Bool.or_eq_true, Bool.and_eq_true, Bool.or_eq_false_iff, Bool.and_eq_false_iff, Bool.not_eq_true',
    Bool.not_eq_false', Bool.not_eq_true, Bool.not_eq_false, Bool.not_not, decide_eq_true_eq, decide_eq_false_iff_not, beq_iff_eq,
    bne_iff_ne, ne_eq, Bool.true_eq_false, Bool.false_eq_true, eq_self, not_true_eq_false, not_false_eq_true, if_true, if_false,
    ite_true, ite_false, ↓reduceIte] at *)

/-- shape-independent equality of small programs: split EVERY conditional / match of both sides (normalising on the way),
    close contradictory paths by `omega` on the path conditions and matching paths by `simp` + `omega` -/
macro "fn_eq" : tactic => `(tactic|
  ((try fn_norm)
   repeat' (split <;> (try fn_norm))
   all_goals (first
     | rfl
     | omega
     | (exfalso; omega)
     | (simp only [Option.some.injEq, reduceCtorEq] at * <;> omega)
     | (simp_all <;> omega)
     | simp_all)))

/-- a leaf of an `Option` program in guard normal form (`guardO P (some v)`, `some v`, `none` on either side): the guard
    conditions are equivalent, the values equal; or one side is guarded by a condition the path excludes -/
macro "opt_leaf" : tactic => `(tactic| first
  | rfl
  | omega
  | (exfalso; omega)
  | (apply guardO_congr (by arith); intro _; first | rfl | (apply some_congr'; arith_congr))
  | (apply some_congr'; arith_congr)
  | (rw [guardO_false _ _ (by omega)])
  | (symm; rw [guardO_false _ _ (by omega)])
  | (unfold guardO; split <;> first | rfl | (exfalso; arith) | (apply some_congr'; arith_congr) | (split <;> first | rfl | (exfalso; arith) | (apply some_congr'; arith_congr))))

end Umya.Gen
