/-
  C03 at workbook level: defined names whose text is an area list in ANY canonical spelling (quoted or unquoted
  qualifiers, `$` or not), merged ranges by the explicit grammar `canonRangeB`.  Builds on the parse-then-print lemmas
  (`Umya/Lemmas/CoordParse*.lean`).
-/
import Umya.Lemmas.ReaderNames
import Umya.Thm.C17Parse
namespace Umya.Reader.Lemmas
open Umya.Reader Umya.Spec.Xml Umya.Spec.Sml Umya.Coord
open Umya.Annot (DefName Address splitStr isAddress AreaOK canonText canonNameTextB nameTextAnyB canonAreaB joinComma)

/-! ## merged ranges -/

/-- `MergeRefOk` IS the explicit grammar -/
theorem mergeRefOk_iff (v : Text) : MergeRefOk v ↔ canonRangeB v = true := by
  constructor
  · rintro ⟨ρ, hs, hb, rfl⟩
    exact canonRange_print ρ hs hb
  · intro h
    obtain ⟨ρ, hs, hb, e⟩ := canonRange_spec v h
    exact ⟨ρ, hs, hb, e⟩

/-! ## defined names -/

/-- what `set_address` makes of a name text of the wider grammar, and what `get_address` then prints -/
theorem setAddress_any (v : Text) (h : nameTextAnyB v = true) :
    ∃ b, DefName.setAddress {} v = .ok b ∧ b.text = canonText v ∧
      DefName.setAddress {} (canonText v) = .ok b ∧ canonText (canonText v) = canonText v := by
  simp only [nameTextAnyB, Bool.or_eq_true, beq_iff_eq] at h
  by_cases h0 : (splitStr v).all isAddress = false
  · have hc : canonText v = v := by simp [canonText, h0]
    obtain ⟨h1, h2⟩ := Umya.Thm.C06.C06_defined_name_text_kept v h0
    exact ⟨_, h1, by rw [hc]; exact h2, by rw [hc]; exact h1, by rw [hc, hc]⟩
  · have h1 : canonNameTextB v = true := by
      rcases h with h | h
      · exact absurd h h0
      · exact h
    obtain ⟨ts, hts, rfl⟩ := Umya.Annot.canonNameText_spec v h1
    cases ts with
    | nil => exact ⟨{ areas := [] }, by decide, by decide, by decide, by decide⟩
    | cons t r =>
      obtain ⟨as, has, hset, htext, _, _⟩ := Umya.Annot.setAddress_canon (t :: r) (by simp) hts
      have hc := Umya.Annot.canonText_join (t :: r) (by simp) hts
      refine ⟨{ areas := as }, hset, by rw [hc]; exact htext, ?_, ?_⟩
      · rw [hc, ← htext]
        exact Umya.Thm.C06.C06_defined_name_roundtrip as has
      · rw [hc, ← htext]
        exact Umya.Annot.canonText_text as has

/-- the hypothesis of `C03_defined_names` is inside the wider one, and `canonText` is the identity there -/
theorem nameTextOk_any (v : Text) (h : NameTextOk v) : nameTextAnyB v = true ∧ canonText v = v := by
  rcases h with h | ⟨as, has, rfl⟩
  · exact ⟨by simp [nameTextAnyB, h], by simp [canonText, h]⟩
  · exact ⟨by simp [nameTextAnyB, Umya.Annot.canonNameText_text as has], Umya.Annot.canonText_text as has⟩

theorem definedNameB_agrees_any (d : Node) (h : validDefinedName d = true) (ht : nameTextAnyB d.ownText = true) :
    ∃ n, readDefinedNameB d = some n ∧ n.name = (specName d).name ∧ n.localSheetId = (specName d).scope ∧
      n.body.text = canonText (specName d).text := by
  obtain ⟨b, hb, hbt, _, _⟩ := setAddress_any _ ht
  refine ⟨⟨(specName d).name, (specName d).scope, b⟩, ?_, rfl, rfl, ?_⟩
  · unfold readDefinedNameB
    rw [definedName_agrees d h]
    have : (specName d).text = d.ownText := rfl
    simp only [this, hb]
  · exact hbt

end Umya.Reader.Lemmas
