/-
  (T) translator, part 3 — `src/helper/coordinate.rs`: the format strings of `coordinate_from_index[_with_lock]`,
  the `"0"` special case of `column_index_from_string`, the constants and the per-character term of `alpha_to_index`,
  and the `successors` step / digit of `index_to_alpha`, as compiled from the source on this run, are the hand
  model's (`Umya/Model/Coord.lean`).  The iterator chains themselves (`to_uppercase().chars().rev().enumerate()
  .map(..).sum()`, `successors(..).map(..).collect().rev()`) and `string_from_column_index` are NOT translated: the
  compiled functions take `string_from_column_index` / `alpha_to_index` as parameters, instantiated here with the model.
-/
import Umya.Lemmas.FnsGen
import Umya.Model.Coord
namespace Umya.Gen
open Umya.Coord Umya.Dec
set_option linter.unusedSimpArgs false

def resToOpt {α} : Res α → Option α
  | .ok a => some a
  | .panic => none

theorem gen_coordinate_from_index_with_lock (col row : Nat) (lc lr : Bool) :
    coordinate_from_index_with_lock indexToAlpha? col row lc lr = coordinateFromIndexWithLock? col row lc lr := by
  unfold coordinate_from_index_with_lock coordinateFromIndexWithLock? indexToAlpha? indexToAlpha
  by_cases h : col ≥ 1 <;> cases lc <;> cases lr <;> simp [h]

theorem gen_coordinate_from_index (col row : Nat) :
    coordinate_from_index indexToAlpha? col row = coordinateFromIndexWithLock? col row false false := by
  unfold coordinate_from_index coordinateFromIndexWithLock? indexToAlpha? indexToAlpha
  by_cases h : col ≥ 1 <;> simp [h]

theorem gen_column_index_from_string (s : List Char) :
    column_index_from_string (fun t => resToOpt (alphaToIndex t)) s = resToOpt (columnIndexFromString s) := by
  unfold column_index_from_string columnIndexFromString
  -- the two cases of the text, with the test in either orientation; the extern's result taken apart
  by_cases h : s = ['0']
  · subst h; simp [resToOpt]
  · have h' : ¬ ['0'] = s := fun e => h e.symm
    cases hA : alphaToIndex s <;> simp [h, h', hA, resToOpt] <;> (repeat' split) <;> simp_all [resToOpt]

theorem gen_alpha_constants :
    alpha_to_index_base_char_code = 65 ∧ alpha_to_index_positional_constants = [26 ^ 0, 26 ^ 1, 26 ^ 2] := by decide

/-- the closure of `alpha_to_index`: `POSITIONAL_CONSTANTS[index] * ((v as u32 - 'A') + 1)`; it panics beyond three
    characters and below `'A'`, exactly where the model's `alphaToIndex` says `.panic` -/
theorem gen_alpha_to_index_term (i : Nat) (c : Char) :
    alpha_to_index_term i c = if i < 3 ∧ 65 ≤ c.toNat then some (26 ^ i * (c.toNat - 65 + 1)) else none := by
  unfold alpha_to_index_term
  have hA : Char.toNat 'A' = 65 := by decide
  by_cases hc : 65 ≤ c.toNat
  · match i with
    | 0 => simp [usub, rt_index, hA, hc] <;> omega
    | 1 => simp [usub, rt_index, hA, hc] <;> omega
    | 2 => simp [usub, rt_index, hA, hc] <;> omega
    | n + 3 =>
      have h3 : ¬ (n + 3 < 3) := by omega
      simp [usub, rt_index, hA, hc, h3]
  · simp [usub, rt_index, hA, hc]

/-- the `successors` step of `index_to_alpha` -/
theorem gen_index_to_alpha_step (v : Nat) :
    index_to_alpha_step v = some (if v / 26 = 0 then none else some (v / 26 - 1)) := by
  unfold index_to_alpha_step
  fn_eq

/-- the digit of `index_to_alpha`: `BASE_CHAR_CODE + (v % 26)` is the code of the model's `letter v` -/
theorem gen_index_to_alpha_digit (v : Nat) : Char.ofNat (index_to_alpha_digit v) = letter v := by
  unfold index_to_alpha_digit letter
  (try simp only [show Char.toNat 'A' = 65 from by decide]) <;> first | rfl | (congr 1; omega)

/-- one unfolding of the model's `alphaRev` in terms of the compiled step and digit -/
theorem gen_alphaRev_step (v : Nat) :
    alphaRev v = Char.ofNat (index_to_alpha_digit v) ::
      (match index_to_alpha_step v with
       | some (some n) => alphaRev n
       | _ => []) := by
  rw [alphaRev, gen_index_to_alpha_step, gen_index_to_alpha_digit]
  by_cases h : v / 26 = 0 <;> simp [h]

/-! ## the whole functions: `alpha_to_index`, `index_to_alpha`, `string_from_column_index`

  The closures are lifted into definitions of their own by the translator; each is proved equal to a fixed specification
  (`termSpec`, `stepSpec`, `digitSpec`), and the skeleton (`to_uppercase().chars().rev().enumerate().map(..).sum()`;
  `successors(..).map(..).collect().into_iter().rev().map(char::from_u32 .. unwrap).collect()`) is related to the hand
  model once and for all, over these specifications. -/

def termSpec (i : Nat) (c : Char) : Option Nat := if i < 3 ∧ 65 ≤ c.toNat then some (26 ^ i * (c.toNat - 65 + 1)) else none

theorem gen_alpha_to_index_closure (i : Nat) (c : Char) : alpha_to_index_closure_0 i c = termSpec i c := by
  unfold alpha_to_index_closure_0 termSpec
  have hA : Char.toNat 'A' = 65 := by decide
  by_cases hc : 65 ≤ c.toNat
  · match i with
    | 0 => simp [usub, rt_index, hA, hc] <;> omega
    | 1 => simp [usub, rt_index, hA, hc] <;> omega
    | 2 => simp [usub, rt_index, hA, hc] <;> omega
    | n + 3 =>
      have h3 : ¬ (n + 3 < 3) := by omega
      simp [usub, rt_index, hA, hc, h3]
  · simp [usub, rt_index, hA, hc]

/-- the skeleton of `alpha_to_index` over the specified term: the sum of the terms of the enumerated characters is the
    model's accumulation `go`, and it is defined iff there are at most three characters left and none is below `'A'` -/
theorem mapM_terms (l : List Char) : ∀ (i acc : Nat),
    (rt_mapM (fun x : Nat × Char => termSpec x.1 x.2) (rt_enumerate_from i l)).map (fun t => acc + t.sum) =
      if (l.length = 0 ∨ i + l.length ≤ 3) ∧ (∀ c ∈ l, 65 ≤ c.toNat) then some (alphaToIndex.go l i acc) else none := by
  induction l with
  | nil => intro i acc; simp [rt_enumerate_from, rt_mapM, alphaToIndex.go]
  | cons c l ih =>
    intro i acc
    simp only [rt_enumerate_from, rt_mapM, alphaToIndex.go]
    by_cases hc : i < 3 ∧ 65 ≤ c.toNat
    · have ht : termSpec i c = some (26 ^ i * (c.toNat - 65 + 1)) := by simp [termSpec, hc]
      have e : ∀ t : List Nat, acc + (26 ^ i * (c.toNat - 65 + 1) :: t).sum = (acc + 26 ^ i * (c.toNat - 65 + 1)) + t.sum := by
        intro t; simp [List.sum_cons]; omega
      simp only [ht, Option.bind_some, Option.map_map, Function.comp_def, e]
      rw [ih (i + 1) (acc + 26 ^ i * (c.toNat - 65 + 1))]
      have hl : ((l.length = 0 ∨ i + 1 + l.length ≤ 3) ∧ ∀ c ∈ l, 65 ≤ c.toNat) ↔
          (((c :: l).length = 0 ∨ i + (c :: l).length ≤ 3) ∧ ∀ d ∈ c :: l, 65 ≤ d.toNat) := by
        simp only [List.length_cons, List.mem_cons, forall_eq_or_imp]
        constructor
        · rintro ⟨h1, h2⟩; exact ⟨by omega, hc.2, h2⟩
        · rintro ⟨h1, _, h2⟩; exact ⟨by omega, h2⟩
      by_cases hh : (l.length = 0 ∨ i + 1 + l.length ≤ 3) ∧ ∀ c ∈ l, 65 ≤ c.toNat
      · rw [if_pos hh, if_pos (hl.1 hh)]
      · rw [if_neg hh, if_neg (fun h => hh (hl.2 h))]
    · have ht : termSpec i c = none := by simp [termSpec, hc]
      have hn : ¬ (((c :: l).length = 0 ∨ i + (c :: l).length ≤ 3) ∧ ∀ d ∈ c :: l, 65 ≤ d.toNat) := by
        simp only [List.length_cons, List.mem_cons, forall_eq_or_imp]
        rintro ⟨h1, h2, _⟩; exact hc ⟨by omega, h2⟩
      rw [if_neg hn, ht]
      rfl

/-- the two panic conditions of the model, in the form the skeleton lemma produces them -/
theorem alpha_cases (u : List Char) :
    (if (u.reverse.length = 0 ∨ u.reverse.length ≤ 3) ∧ (∀ c ∈ u, 65 ≤ c.toNat) then some (alphaToIndex.go u.reverse 0 0) else none) =
      resToOpt (if u.length > 3 then Res.panic else if u.any (fun c => decide (c.toNat < 65)) = true then Res.panic
                else Res.ok (alphaToIndex.go u.reverse 0 0)) := by
  simp only [List.length_reverse]
  by_cases h3 : u.length > 3
  · have hn : ¬ ((u.length = 0 ∨ u.length ≤ 3) ∧ ∀ c ∈ u, 65 ≤ c.toNat) := fun hh => by omega
    rw [if_neg hn, if_pos h3]; rfl
  · rw [if_neg h3]
    by_cases ha : u.any (fun c => decide (c.toNat < 65)) = true
    · have hn : ¬ ((u.length = 0 ∨ u.length ≤ 3) ∧ ∀ c ∈ u, 65 ≤ c.toNat) := by
        rintro ⟨_, hall⟩
        obtain ⟨c, hc, hlt⟩ := List.any_eq_true.1 ha
        have := hall c hc
        simp at hlt; omega
      rw [if_neg hn, if_pos ha]; rfl
    · have hp : (u.length = 0 ∨ u.length ≤ 3) ∧ ∀ c ∈ u, 65 ≤ c.toNat := by
        refine ⟨by omega, fun c hc => ?_⟩
        by_cases hlt : c.toNat < 65
        · exact absurd (List.any_eq_true.2 ⟨c, hc, by simpa using hlt⟩) ha
        · omega
      rw [if_pos hp, if_neg ha]; rfl

/-- `alpha_to_index` as it is in the source — `to_uppercase().chars().rev().enumerate().map(term).sum::<u32>()` — is the
    model's `alphaToIndex`, for every text (`to_uppercase` on its documented ASCII domain): the same value, and a panic
    (more than three characters: index out of bounds; a character below `'A'`: `u32` underflow) exactly where the model says -/
theorem gen_alpha_to_index (s : List Char) : alpha_to_index s = resToOpt (alphaToIndex s) := by
  unfold alpha_to_index alphaToIndex
  simp only [gen_alpha_to_index_closure]
  have h := mapM_terms (List.reverse (rt_to_uppercase s)) 0 0
  simp only [Nat.zero_add, List.mem_reverse] at h
  have e : ∀ o : Option (List Nat), (Option.bind o fun t => some (List.sum t)) = o.map (fun t => t.sum) := by
    intro o; cases o <;> rfl
  rw [e, rt_enumerate, h]
  simp only [rt_to_uppercase]
  exact alpha_cases _

def stepSpec (v : Nat) : Option (Option Nat) := some (if v / 26 = 0 then none else some (v / 26 - 1))
def digitSpec (v : Nat) : Nat := 65 + v % 26

theorem gen_index_to_alpha_closure_0 (v : Nat) : index_to_alpha_closure_0 v = stepSpec v := by
  unfold index_to_alpha_closure_0 stepSpec
  fn_eq

theorem gen_index_to_alpha_closure_1 (v : Nat) : index_to_alpha_closure_1 v = digitSpec v := by
  unfold index_to_alpha_closure_1 digitSpec
  (try simp only [show Char.toNat 'A' = 65 from by decide]) <;> first | rfl | omega

theorem gen_index_to_alpha_closure_2 (n : Nat) : index_to_alpha_closure_2 n = rt_char_from_u32 n := by
  unfold index_to_alpha_closure_2
  cases rt_char_from_u32 n <;> rfl

/-- the values `successors` produces from `v`: termination measure = the value (`v / 26 - 1 < v`) -/
def succList (v : Nat) : List Nat := if v / 26 = 0 then [v] else v :: succList (v / 26 - 1)
termination_by v
decreasing_by omega

/-- the fuel-bounded unfold never runs out of fuel when the fuel exceeds the first value -/
theorem successors_fuel (v : Nat) : ∀ fuel, v < fuel → rt_successors_fuel stepSpec fuel v = some (succList v) := by
  induction v using Nat.strongRecOn with
  | ind v ih =>
    intro fuel hf
    match fuel, hf with
    | fuel + 1, hf =>
      rw [succList]
      by_cases h : v / 26 = 0
      · simp [rt_successors_fuel, stepSpec, h]
      · have hlt : v / 26 - 1 < v := by omega
        simp [rt_successors_fuel, stepSpec, h, ih (v / 26 - 1) hlt fuel (by omega)]

theorem succList_letters (v : Nat) : (succList v).map (fun x => Char.ofNat (digitSpec x)) = alphaRev v := by
  induction v using Nat.strongRecOn with
  | ind v ih =>
    rw [succList, alphaRev]
    by_cases h : v / 26 = 0
    · simp [h, digitSpec, letter]
    · have hlt : v / 26 - 1 < v := by omega
      simpa [h, digitSpec, letter] using ih _ hlt

theorem mapM_chars (l : List Nat) :
    rt_mapM rt_char_from_u32 (l.map digitSpec) = some (l.map (fun x => Char.ofNat (digitSpec x))) := by
  induction l with
  | nil => rfl
  | cons a l ih =>
    have hv : (digitSpec a).isValidChar := by
      unfold digitSpec Nat.isValidChar; left; omega
    simp [rt_mapM, rt_char_from_u32, hv, ih]

/-- `index_to_alpha` as it is in the source — the assertion, `successors(Some(index - 1), step)`, the digit map, the
    reversal and `char::from_u32(..).unwrap()` — is the model's `indexToAlpha?`, for every index: the letters for
    `index ≥ 1`, a panic for 0; the unfold never runs out of fuel and no `unwrap` fails -/
theorem gen_index_to_alpha (n : Nat) : index_to_alpha n = indexToAlpha? n := by
  unfold index_to_alpha indexToAlpha?
  simp only [gen_index_to_alpha_closure_0, gen_index_to_alpha_closure_1, gen_index_to_alpha_closure_2]
  rcases Nat.eq_zero_or_pos n with h0 | hpos
  · -- index 0: whatever the assertion is spelled like, it is a closed Boolean
    subst h0; simp
  · have h1 : 1 ≤ n := hpos
    have hs : rt_successors (fun x => stepSpec x) (some (n - 1)) = some (succList (n - 1)) :=
      successors_fuel (n - 1) _ (by omega)
    have hm : rt_mapM (fun x => rt_char_from_u32 x) (List.reverse (List.map (fun x => digitSpec x) (succList (n - 1)))) =
        some ((alphaRev (n - 1)).reverse) := by
      rw [← List.map_reverse]
      exact (mapM_chars _).trans (by rw [List.map_reverse, succList_letters])
    -- every conditional of both sides (the assertion in any spelling); excluded paths by `omega`
    simp only [usub_bind, guardO, ite_bind', Option.bind_some, Option.bind_none]
    repeat' split
    all_goals (try simp only [decide_eq_true_eq, decide_eq_false_iff_not, Bool.not_eq_true', Bool.not_eq_true, Bool.not_eq_false] at *)
    all_goals (first
      | (exfalso; omega)
      | rfl
      | simp [h1, hs, hm])

/-- `string_from_column_index` as it is in the source (its own assertion, then `index_to_alpha`) -/
theorem gen_string_from_column_index (n : Nat) : string_from_column_index n = indexToAlpha? n := by
  unfold string_from_column_index
  simp only [gen_index_to_alpha]
  unfold indexToAlpha?
  fn_eq

end Umya.Gen
