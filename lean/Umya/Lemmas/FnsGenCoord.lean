/-
  (T) translator, part 3 — `src/helper/coordinate.rs`: the format strings of `coordinate_from_index[_with_lock]`,
  the `"0"` special case of `column_index_from_string`, the constants and the per-character term of `alpha_to_index`,
  and the `successors` step / digit of `index_to_alpha`, as compiled from the source on this run, are the hand
  model's (`Umya/Model/Coord.lean`).  The iterator chains themselves (`to_uppercase().chars().rev().enumerate()
  .map(..).sum()`, `successors(..).map(..).collect().rev()`) and `string_from_column_index` are NOT translated: the
  compiled functions take `string_from_column_index` / `alpha_to_index` as parameters, instantiated here with the model.
-/
import Umya.Lemmas.FnsGen
import Umya.Model.Coord
namespace Umya.Gen
open Umya.Coord Umya.Dec
set_option linter.unusedSimpArgs false

def resToOpt {α} : Res α → Option α
  | .ok a => some a
  | .panic => none

theorem gen_coordinate_from_index_with_lock (col row : Nat) (lc lr : Bool) :
    coordinate_from_index_with_lock indexToAlpha? col row lc lr = coordinateFromIndexWithLock? col row lc lr := by
  unfold coordinate_from_index_with_lock coordinateFromIndexWithLock? indexToAlpha? indexToAlpha
  by_cases h : col ≥ 1 <;> cases lc <;> cases lr <;> simp [h]

theorem gen_coordinate_from_index (col row : Nat) :
    coordinate_from_index indexToAlpha? col row = coordinateFromIndexWithLock? col row false false := by
  unfold coordinate_from_index coordinateFromIndexWithLock? indexToAlpha? indexToAlpha
  by_cases h : col ≥ 1 <;> simp [h]

theorem gen_column_index_from_string (s : List Char) :
    column_index_from_string (fun t => resToOpt (alphaToIndex t)) s = resToOpt (columnIndexFromString s) := by
  unfold column_index_from_string columnIndexFromString
  by_cases h : s = ['0']
  · simp [h, resToOpt]
  · simp only [h, decide_false, if_false, Bool.false_eq_true]
    cases alphaToIndex s <;> simp [resToOpt]

theorem gen_alpha_constants :
    alpha_to_index_base_char_code = 65 ∧ alpha_to_index_positional_constants = [26 ^ 0, 26 ^ 1, 26 ^ 2] := by decide

/-- the closure of `alpha_to_index`: `POSITIONAL_CONSTANTS[index] * ((v as u32 - 'A') + 1)`; it panics beyond three
    characters and below `'A'`, exactly where the model's `alphaToIndex` says `.panic` -/
theorem gen_alpha_to_index_term (i : Nat) (c : Char) :
    alpha_to_index_term i c = if i < 3 ∧ 65 ≤ c.toNat then some (26 ^ i * (c.toNat - 65 + 1)) else none := by
  unfold alpha_to_index_term
  have hA : Char.toNat 'A' = 65 := by decide
  by_cases hc : 65 ≤ c.toNat
  · match i with
    | 0 => simp [usub, rt_index, hA, hc] <;> omega
    | 1 => simp [usub, rt_index, hA, hc] <;> omega
    | 2 => simp [usub, rt_index, hA, hc] <;> omega
    | n + 3 =>
      have h3 : ¬ (n + 3 < 3) := by omega
      simp [usub, rt_index, hA, hc, h3]
  · simp [usub, rt_index, hA, hc]

/-- the `successors` step of `index_to_alpha` -/
theorem gen_index_to_alpha_step (v : Nat) :
    index_to_alpha_step v = some (if v / 26 = 0 then none else some (v / 26 - 1)) := by
  unfold index_to_alpha_step
  split
  · rename_i h; simp [h]
  · rename_i n h
    have hn : ¬ v / 26 = 0 := fun e => h e
    have h1 : 1 ≤ v / 26 := by omega
    simp [usub_bind, guardO_true _ _ h1, hn]

/-- the digit of `index_to_alpha`: `BASE_CHAR_CODE + (v % 26)` is the code of the model's `letter v` -/
theorem gen_index_to_alpha_digit (v : Nat) : Char.ofNat (index_to_alpha_digit v) = letter v := by
  unfold index_to_alpha_digit letter
  simp [show Char.toNat 'A' = 65 from by decide]

/-- one unfolding of the model's `alphaRev` in terms of the compiled step and digit -/
theorem gen_alphaRev_step (v : Nat) :
    alphaRev v = Char.ofNat (index_to_alpha_digit v) ::
      (match index_to_alpha_step v with
       | some (some n) => alphaRev n
       | _ => []) := by
  rw [alphaRev, gen_index_to_alpha_step, gen_index_to_alpha_digit]
  by_cases h : v / 26 = 0 <;> simp [h]

end Umya.Gen
