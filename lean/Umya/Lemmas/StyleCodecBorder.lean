/-
  Borders: one edge (`Border`), the `<border>` element with its seven edges and the two diagonal flags.
-/
import Umya.Lemmas.StyleCodecFont
namespace Umya.StyleCodec
open Umya.Spec.Xml (Node Attr)
open Umya.Dec

section
variable (cf : Tok → Tok)

theorem borderStyleAttr_read (t : Option BorderStyle) :
    enumAttr BorderStyle.fromStr (optAttr "style" t (fun t => t.toStr.toList)) "style" none = t := by
  cases t with
  | none => rfl
  | some v =>
    have := BorderStyle.fromStr_toStr v
    simp [enumAttr, optAttr, getAttr_cons, mkAttr, this]

/-- an edge written by `Border::write_to(tag)` and read into a fresh edge -/
theorem Border.read_write (tag : String) (b : Border) (h : b.color.Range cf) :
    Border.readInto cf {} (b.write tag) = some b.norm := by
  have hfold := Color.write_fold cf "color" b.color h (Border.colorStep cf)
    { style := b.style } (fun a c => { a with color := c })
    (by intro as; simp [Border.colorStep, mkEl]) (by intro _; rfl)
  simp only [Border.readInto, Border.write, children_mkEl, attrs_mkEl, borderStyleAttr_read]
  exact hfold

theorem diagAttrs_up (u d : Option Bool) :
    boolAttr (optAttr "diagonalUp" u boolStr ++ optAttr "diagonalDown" d boolStr) "diagonalUp" none = u := by
  cases u <;> cases d <;> simp [boolAttr, optAttr, getAttr_cons, mkAttr]
theorem diagAttrs_down (u d : Option Bool) :
    boolAttr (optAttr "diagonalUp" u boolStr ++ optAttr "diagonalDown" d boolStr) "diagonalDown" none = d := by
  cases u <;> cases d <;> simp [boolAttr, optAttr, getAttr_cons, mkAttr]

theorem Borders.step_left (b : Borders) (as : List Attr) (cs : List Node) :
    Borders.step cf b (mkEl "left" as cs) = (b.left.readInto cf (mkEl "left" as cs)).map (fun e => { b with left := e }) := by
  simp [Borders.step, mkEl]
theorem Borders.step_right (b : Borders) (as : List Attr) (cs : List Node) :
    Borders.step cf b (mkEl "right" as cs) = (b.right.readInto cf (mkEl "right" as cs)).map (fun e => { b with right := e }) := by
  simp [Borders.step, mkEl]
theorem Borders.step_top (b : Borders) (as : List Attr) (cs : List Node) :
    Borders.step cf b (mkEl "top" as cs) = (b.top.readInto cf (mkEl "top" as cs)).map (fun e => { b with top := e }) := by
  simp [Borders.step, mkEl]
theorem Borders.step_bottom (b : Borders) (as : List Attr) (cs : List Node) :
    Borders.step cf b (mkEl "bottom" as cs) = (b.bottom.readInto cf (mkEl "bottom" as cs)).map (fun e => { b with bottom := e }) := by
  simp [Borders.step, mkEl]
theorem Borders.step_diagonal (b : Borders) (as : List Attr) (cs : List Node) :
    Borders.step cf b (mkEl "diagonal" as cs) = (b.diagonal.readInto cf (mkEl "diagonal" as cs)).map (fun e => { b with diagonal := e }) := by
  simp [Borders.step, mkEl]
theorem Borders.step_vertical (b : Borders) (as : List Attr) (cs : List Node) :
    Borders.step cf b (mkEl "vertical" as cs) = (b.vertical.readInto cf (mkEl "vertical" as cs)).map (fun e => { b with vertical := e }) := by
  simp [Borders.step, mkEl]
theorem Borders.step_horizontal (b : Borders) (as : List Attr) (cs : List Node) :
    Borders.step cf b (mkEl "horizontal" as cs) = (b.horizontal.readInto cf (mkEl "horizontal" as cs)).map (fun e => { b with horizontal := e }) := by
  simp [Borders.step, mkEl]

theorem Borders.seg_vertical (e : Border) (h : e.color.Range cf) (acc : Borders) (hacc : acc.vertical = {}) :
    foldOpt (Borders.step cf) (if e.isDefaultKey then [] else [e.write "vertical"]) acc =
      some { acc with vertical := e.normSkippable } := by
  have hr := Border.read_write cf "vertical" e h
  unfold Border.write at hr
  cases hk : e.isDefaultKey with
  | true => simp [Border.normSkippable, hk, ← hacc]
  | false =>
    simp only [Bool.false_eq_true, if_false, foldOpt_single, Border.write, Border.normSkippable, hk]
    rw [Borders.step_vertical, hacc, hr]; rfl

theorem Borders.seg_horizontal (e : Border) (h : e.color.Range cf) (acc : Borders) (hacc : acc.horizontal = {}) :
    foldOpt (Borders.step cf) (if e.isDefaultKey then [] else [e.write "horizontal"]) acc =
      some { acc with horizontal := e.normSkippable } := by
  have hr := Border.read_write cf "horizontal" e h
  unfold Border.write at hr
  cases hk : e.isDefaultKey with
  | true => simp [Border.normSkippable, hk, ← hacc]
  | false =>
    simp only [Bool.false_eq_true, if_false, foldOpt_single, Border.write, Border.normSkippable, hk]
    rw [Borders.step_horizontal, hacc, hr]; rfl

theorem Borders.read_write (b : Borders) (h : b.Range cf) : Borders.read cf b.write = some b.norm := by
  obtain ⟨h1, h2, h3, h4, h5, h6, h7⟩ := h
  have r1 := Border.read_write cf "left" b.left h1
  have r2 := Border.read_write cf "right" b.right h2
  have r3 := Border.read_write cf "top" b.top h3
  have r4 := Border.read_write cf "bottom" b.bottom h4
  have r5 := Border.read_write cf "diagonal" b.diagonal h5
  have s6 := Borders.seg_vertical cf b.vertical h6
  have s7 := Borders.seg_horizontal cf b.horizontal h7
  unfold Border.write at r1 r2 r3 r4 r5 s6 s7
  simp only [Borders.read, Borders.write, children_mkEl, attrs_mkEl, diagAttrs_up, diagAttrs_down, List.cons_append,
    List.nil_append, foldOpt, Border.write]
  rw [Borders.step_left, r1]; simp only [Option.map_some, Option.bind_some]
  rw [Borders.step_right, r2]; simp only [Option.map_some, Option.bind_some]
  rw [Borders.step_top, r3]; simp only [Option.map_some, Option.bind_some]
  rw [Borders.step_bottom, r4]; simp only [Option.map_some, Option.bind_some]
  rw [Borders.step_diagonal, r5]; simp only [Option.map_some, Option.bind_some]
  rw [foldOpt_append, s6 _ rfl]; simp only [Option.bind_some]
  rw [s7 _ rfl]
  rfl

theorem Border.norm_idem (b : Border) : b.norm.norm = b.norm := by simp [Border.norm, Color.norm_idem]

theorem Border.eff_norm (b : Border) (h : b.color.OneForm = true) : b.norm.eff = b.eff := by
  simp [Border.norm, Border.eff, Color.norm_of_oneForm _ h]

theorem BorderStyle.toStr_none {s : BorderStyle} (h : s.toStr = BorderStyle.none.toStr) : s = BorderStyle.none := by
  cases s <;> first | rfl | (revert h; decide)

theorem Border.normSkippable_of_WF (b : Border) (h1 : b.color.OneForm = true) :
    b.normSkippable = if b.isDefaultKey then {} else b := by
  unfold Border.normSkippable
  split
  · rfl
  · simp [Border.norm, Color.norm_of_oneForm _ h1]

theorem Border.isDefaultKey_default : Border.isDefaultKey {} = true := by decide

theorem Border.normSkippable_idem (b : Border) (h1 : b.color.OneForm = true) :
    b.normSkippable.normSkippable = b.normSkippable := by
  rw [Border.normSkippable_of_WF b h1]
  cases hk : b.isDefaultKey with
  | true => simp [Border.normSkippable, Border.isDefaultKey_default]
  | false =>
    simp only [Bool.false_eq_true, if_false]
    rw [Border.normSkippable_of_WF b h1, hk]; rfl

theorem Border.eff_normSkippable (b : Border) (h1 : b.color.OneForm = true) (h2 : b.NoMark = true) :
    b.normSkippable.eff = b.eff := by
  rw [Border.normSkippable_of_WF b h1]
  cases hk : b.isDefaultKey with
  | false => rfl
  | true =>
    simp only [Border.isDefaultKey, Bool.and_eq_true, decide_eq_true_eq] at hk
    simp only [Border.NoMark, hk.2, decide_true, Bool.not_true, Bool.false_or, decide_eq_true_eq] at h2
    have hs := BorderStyle.toStr_none hk.1
    simp [Border.eff, h2, hs]

theorem Borders.norm_of_WF (b : Borders) (h : b.WF = true) :
    b.norm = { b with vertical := if b.vertical.isDefaultKey then {} else b.vertical,
                      horizontal := if b.horizontal.isDefaultKey then {} else b.horizontal } := by
  simp only [Borders.WF, Bool.and_eq_true] at h
  obtain ⟨⟨⟨⟨⟨⟨⟨⟨h1, h2⟩, h3⟩, h4⟩, h5⟩, h6⟩, h7⟩, _⟩, _⟩ := h
  simp [Borders.norm, Border.norm, Color.norm_of_oneForm, h1, h2, h3, h4, h5, Border.normSkippable_of_WF, h6, h7]

theorem Borders.norm_idem (b : Borders) (h : b.WF = true) : b.norm.norm = b.norm := by
  have h' := h
  simp only [Borders.WF, Bool.and_eq_true] at h
  obtain ⟨⟨⟨⟨⟨⟨⟨⟨h1, h2⟩, h3⟩, h4⟩, h5⟩, h6⟩, h7⟩, _⟩, _⟩ := h
  simp only [Borders.norm, Border.norm_idem, Border.normSkippable_idem _ h6, Border.normSkippable_idem _ h7]

theorem Borders.eff_norm (b : Borders) (h : b.WF = true) : b.norm.eff = b.eff := by
  simp only [Borders.WF, Bool.and_eq_true] at h
  obtain ⟨⟨⟨⟨⟨⟨⟨⟨h1, h2⟩, h3⟩, h4⟩, h5⟩, h6⟩, h7⟩, h8⟩, h9⟩ := h
  simp [Borders.norm, Borders.eff, Border.eff_norm, h1, h2, h3, h4, h5, Border.eff_normSkippable, h6, h7, h8, h9]

theorem Border.normSkippable_props (b : Border) (h1 : b.color.OneForm = true) (h2 : b.NoMark = true) :
    b.normSkippable.color.OneForm = true ∧ b.normSkippable.NoMark = true := by
  rw [Border.normSkippable_of_WF b h1]
  cases b.isDefaultKey with
  | false => exact ⟨h1, h2⟩
  | true => simp only [if_true]; exact ⟨by decide, by decide⟩

theorem Borders.norm_WF (b : Borders) (h : b.WF = true) : b.norm.WF = true := by
  have h' := h
  simp only [Borders.WF, Bool.and_eq_true] at h
  obtain ⟨⟨⟨⟨⟨⟨⟨⟨h1, h2⟩, h3⟩, h4⟩, h5⟩, h6⟩, h7⟩, h8⟩, h9⟩ := h
  have p6 := Border.normSkippable_props _ h6 h8
  have p7 := Border.normSkippable_props _ h7 h9
  simp [Borders.WF, Borders.norm, Border.norm, Color.norm_oneForm, p6.1, p6.2, p7.1, p7.2]

theorem Border.normSkippable_range (b : Border) (h : b.color.Range cf) : b.normSkippable.color.Range cf := by
  unfold Border.normSkippable
  split
  · exact ⟨by simp, by simp, by simp⟩
  · exact Color.norm_range cf _ h

theorem Borders.norm_range (b : Borders) (h : b.Range cf) : b.norm.Range cf := by
  obtain ⟨h1, h2, h3, h4, h5, h6, h7⟩ := h
  exact ⟨Color.norm_range cf _ h1, Color.norm_range cf _ h2, Color.norm_range cf _ h3, Color.norm_range cf _ h4,
    Color.norm_range cf _ h5, Border.normSkippable_range cf _ h6, Border.normSkippable_range cf _ h7⟩

end
end Umya.StyleCodec
