/-
  One save + load of a sheet's cell list (`normS`) against edits that create or delete a cell.
-/
import Umya.Model.CellEdit
import Umya.Lemmas.ResaveCells
namespace Umya.CellXml
open Umya.Num

section
variable (F : NumFmt)

theorem normS_append (a b : List (Cell F.Num)) : normS F (a ++ b) = normS F a ++ normS F b := by
  simp [normS, List.filter_append]

theorem normS_cons_kept (c : Cell F.Num) (s : List (Cell F.Num)) (hc : blankUnstyled F c = false) :
    normS F (c :: s) = Cell.resolved F c :: normS F s := by
  simp [normS, List.filter_cons, hc]

theorem normS_cons_dropped (c : Cell F.Num) (s : List (Cell F.Num)) (hc : blankUnstyled F c = true) :
    normS F (c :: s) = normS F s := by
  simp [normS, List.filter_cons, hc]

theorem normalize_eq_map (cells : List (List (Cell F.Num))) : normalize F cells = cells.map (normS F) := rfl

theorem normalize_onSheet (cells : List (List (Cell F.Num))) (i : Nat) (g g' : List (Cell F.Num) → List (Cell F.Num))
    (hg : ∀ s, cells[i]? = some s → normS F (g s) = g' (normS F s)) :
    normalize F (onSheet F cells i g) = onSheet F (normalize F cells) i g' := by
  unfold onSheet
  cases h : cells[i]? with
  | none =>
    have : (normalize F cells)[i]? = none := by simp [normalize_eq_map, h]
    simp [this]
  | some s =>
    have : (normalize F cells)[i]? = some (normS F s) := by simp [normalize_eq_map, h]
    simp only [this]
    simp only [normalize_eq_map, List.map_set, hg s h]

theorem onSheet_other (cells : List (List (Cell F.Num))) (i i' : Nat) (g : List (Cell F.Num) → List (Cell F.Num))
    (hne : i' ≠ i) : (onSheet F cells i g)[i']? = cells[i']? := by
  unfold onSheet
  cases h : cells[i]? with
  | none => rfl
  | some s => simp [List.getElem?_set, Ne.symm hne]

theorem onSheet_self (cells : List (List (Cell F.Num))) (i : Nat) (g : List (Cell F.Num) → List (Cell F.Num))
    (s : List (Cell F.Num)) (h : cells[i]? = some s) : (onSheet F cells i g)[i]? = some (g s) := by
  have hi : i < cells.length := by
    rcases Nat.lt_or_ge i cells.length with h1 | h1
    · exact h1
    · rw [List.getElem?_eq_none h1] at h; cases h
  unfold onSheet
  simp only [h]
  simp [hi]

/-! ### create -/

/-- the reloaded list of the sheet with the new cell is the reloaded list with the (resolved) new cell inserted -/
theorem normS_createSheet (n : Nat) (c : Cell F.Num) (s : List (Cell F.Num)) (hc : blankUnstyled F c = false) :
    normS F (createSheet F n c s) = createSheet F (keptBefore F s n) (Cell.resolved F c) (normS F s) := by
  have hs : normS F s = normS F (s.take n) ++ normS F (s.drop n) := by
    rw [← normS_append, List.take_append_drop]
  unfold createSheet keptBefore
  rw [normS_append, normS_cons_kept F c _ hc, hs, List.take_left', List.drop_left']
  all_goals rfl

/-- a created cell that is blank and has no style is not written: nothing changes -/
theorem normS_createSheet_blank (n : Nat) (c : Cell F.Num) (s : List (Cell F.Num)) (hc : blankUnstyled F c = true) :
    normS F (createSheet F n c s) = normS F s := by
  unfold createSheet
  rw [normS_append, normS_cons_dropped F c _ hc, ← normS_append, List.take_append_drop]

theorem lookup_append (a b : List (Cell F.Num)) (k : Nat × Nat) :
    lookup F (a ++ b) k = (lookup F a k).or (lookup F b k) := by
  simp [lookup, List.find?_append]

theorem lookup_createSheet_other (n : Nat) (c : Cell F.Num) (s : List (Cell F.Num)) (k : Nat × Nat)
    (hk : (c.row, c.col) ≠ k) : lookup F (createSheet F n c s) k = lookup F s k := by
  have h2 : lookup F (c :: s.drop n) k = lookup F (s.drop n) k := by
    simp [lookup, List.find?_cons, hk]
  have : lookup F s k = lookup F (s.take n ++ s.drop n) k := by rw [List.take_append_drop]
  rw [this]
  unfold createSheet
  rw [lookup_append, lookup_append, h2]

theorem lookup_normS_none (s : List (Cell F.Num)) (k : Nat × Nat) (h : lookup F s k = none) :
    lookup F (normS F s) k = none := by
  unfold lookup at h ⊢
  rw [List.find?_eq_none] at h ⊢
  intro x hx
  obtain ⟨y, hy, rfl⟩ := List.mem_map.1 hx
  exact h y (List.mem_filter.1 hy).1

theorem lookup_take_none (s : List (Cell F.Num)) (n : Nat) (k : Nat × Nat) (h : lookup F s k = none) :
    lookup F (s.take n) k = none := by
  unfold lookup at h ⊢
  rw [List.find?_eq_none] at h ⊢
  intro x hx
  exact h x (List.mem_of_mem_take hx)

theorem lookup_createSheet_self (n : Nat) (c : Cell F.Num) (s : List (Cell F.Num))
    (h : lookup F s (c.row, c.col) = none) : lookup F (createSheet F n c s) (c.row, c.col) = some c := by
  unfold createSheet
  rw [lookup_append, lookup_take_none F s n _ h]
  simp [lookup, List.find?_cons]

theorem length_createSheet (n : Nat) (c : Cell F.Num) (s : List (Cell F.Num)) :
    (createSheet F n c s).length = s.length + 1 := by
  have : (s.take n).length + (s.drop n).length = s.length := by
    rw [← List.length_append, List.take_append_drop]
  simp only [createSheet, List.length_append, List.length_cons]
  omega

/-! ### delete -/

theorem normS_deleteSheet (k : Nat × Nat) (s : List (Cell F.Num)) :
    normS F (deleteSheet F k s) = deleteSheet F k (normS F s) := by
  unfold normS deleteSheet
  rw [List.filter_map, List.filter_filter, List.filter_filter]
  congr 1
  apply List.filter_congr
  intro c _
  show (!blankUnstyled F c && !decide ((c.row, c.col) = k)) = (!decide ((c.row, c.col) = k) && !blankUnstyled F c)
  exact Bool.and_comm _ _

theorem lookup_deleteSheet_other (k k' : Nat × Nat) (s : List (Cell F.Num)) (hk : k' ≠ k) :
    lookup F (deleteSheet F k s) k' = lookup F s k' := by
  induction s with
  | nil => rfl
  | cons c cs ih =>
    simp only [lookup, deleteSheet] at ih ⊢
    by_cases h1 : (c.row, c.col) = k
    · have h2 : (c.row, c.col) ≠ k' := fun h => hk (h.symm.trans h1)
      rw [List.filter_cons, if_neg (by rw [decide_eq_true h1]; decide), List.find?_cons, decide_eq_false h2]
      exact ih
    · rw [List.filter_cons, if_pos (by rw [decide_eq_false h1]; rfl), List.find?_cons, List.find?_cons]
      by_cases h2 : (c.row, c.col) = k'
      · rw [decide_eq_true h2]
      · rw [decide_eq_false h2]; exact ih

theorem lookup_deleteSheet_self (k : Nat × Nat) (s : List (Cell F.Num)) : lookup F (deleteSheet F k s) k = none := by
  unfold lookup deleteSheet
  rw [List.find?_eq_none]
  intro x hx
  have := (List.mem_filter.1 hx).2
  simpa using this

/-- an edit that leaves the cell blank without a style (`set_blank` / `remove_style` on …): the writer drops it, which
    is what `remove_cell` followed by a save gives -/
theorem normS_editSheet_blank (k : Nat × Nat) (f : Cell F.Num → Cell F.Num)
    (hf : ∀ c, blankUnstyled F (f c) = true) (s : List (Cell F.Num)) :
    normS F (editSheet F k f s) = normS F (deleteSheet F k s) := by
  induction s with
  | nil => rfl
  | cons c cs ih =>
    simp only [normS, deleteSheet, editSheet] at ih ⊢
    by_cases hk : (c.row, c.col) = k
    · rw [List.map_cons, if_pos hk, List.filter_cons, if_neg (by rw [hf]; decide), ih]
      rw [List.filter_cons (x := c), if_neg (by rw [decide_eq_true hk]; decide)]
    · rw [List.map_cons, if_neg hk, List.filter_cons (x := c) (p := fun (c : Cell F.Num) => !decide ((c.row, c.col) = k)),
        if_pos (by rw [decide_eq_false hk]; rfl)]
      cases hb : blankUnstyled F c
      · rw [List.filter_cons, if_pos (by rw [hb]; rfl), List.filter_cons, if_pos (by rw [hb]; rfl), List.map_cons, List.map_cons, ih]
      · rw [List.filter_cons, if_neg (by rw [hb]; decide), List.filter_cons, if_neg (by rw [hb]; decide), ih]

end

/-! ### the row record `get_cell_mut` creates -/

open Umya.StyleCodec in
theorem ensureRow_map_norm (r x : Nat) (rows : List (Row × Nat)) :
    (ensureRow r x rows).map (fun p => (p.1.norm, p.2)) = ensureRow r x (rows.map (fun p => (p.1.norm, p.2))) := by
  have hany : (rows.map (fun p => (p.1.norm, p.2))).any (fun p => p.1.num == r) = rows.any (fun p => p.1.num == r) := by
    simp [List.any_map, Function.comp_def, Row.norm]
  unfold ensureRow
  rw [hany]
  cases rows.any (fun p => p.1.num == r)
  · simp [Row.norm, normFlag]
  · simp

open Umya.StyleCodec in
/-- every record that was there is still there, at its place -/
theorem ensureRow_old (r x : Nat) (rows : List (Row × Nat)) (j : Nat) (p : Row × Nat) (h : rows[j]? = some p) :
    (ensureRow r x rows)[j]? = some p := by
  unfold ensureRow
  split
  · exact h
  · exact Umya.InternC01.getElem?_append_left' h

open Umya.StyleCodec in
theorem ensureCol_map_norm (k x : Nat) (cols : List (Col × Nat × Nat × Nat)) :
    (ensureCol k x cols).map (fun p => (p.1.norm, p.2)) = ensureCol k x (cols.map (fun p => (p.1.norm, p.2))) := by
  have hany : (cols.map (fun p => (p.1.norm, p.2))).any (fun p => p.2.1 == k) = cols.any (fun p => p.2.1 == k) := by
    simp [List.any_map, Function.comp_def]
  unfold ensureCol
  rw [hany]
  cases cols.any (fun p => p.2.1 == k)
  · simp [Col.norm, normFlag]
  · simp

open Umya.StyleCodec in
theorem ensureCol_old (k x : Nat) (cols : List (Col × Nat × Nat × Nat)) (j : Nat) (p : Col × Nat × Nat × Nat)
    (h : cols[j]? = some p) : (ensureCol k x cols)[j]? = some p := by
  unfold ensureCol
  split
  · exact h
  · exact Umya.InternC01.getElem?_append_left' h

end Umya.CellXml
