/-
  The exact panic condition of `removeAdj` on one axis for ANY position (position 0 included):
  the row table and the column list never panic; the cell pass panics exactly when the position is
  0 and a cell's coordinate on that axis is smaller than the number of removed lines
  (`adjustment_remove_coordinate`: `num - offset` underflows).
-/
import Umya.Lemmas.Refine2
namespace Umya.Sheet
open Umya.Coord (Res)

theorem mapRes_panic_iff {α β} (f : α → Res β) (l : List α) :
    mapRes f l = .panic ↔ ∃ x ∈ l, f x = .panic := by
  induction l with
  | nil => simp [mapRes]
  | cons x xs ih =>
    cases hx : f x with
    | panic => simp [mapRes, hx]
    | ok y =>
      cases hxs : mapRes f xs with
      | panic =>
        have := ih.1 hxs
        obtain ⟨z, hz, hp⟩ := this
        simp only [mapRes, hx, hxs, true_iff]
        exact ⟨z, List.mem_cons_of_mem _ hz, hp⟩
      | ok ys =>
        simp only [mapRes, hx, hxs]
        constructor
        · intro hh; cases hh
        · rintro ⟨z, hz, hp⟩
          rcases List.mem_cons.1 hz with e | hz'
          · subst e; rw [hx] at hp; cases hp
          · have : mapRes f xs = .panic := ih.2 ⟨z, hz', hp⟩
            rw [hxs] at this; cases this

theorem adjRemV_kept_ok' (x root off : Nat) (hoff : off ≠ 0) (hk : ¬ (x ≥ root ∧ x ≤ root + off - 1)) :
    ∃ y, adjRemV x root off = .ok y := by
  unfold adjRemV
  by_cases hn : x ≥ root
  · have : off ≤ x := by omega
    simp [hn, this]
  · simp [hn]

theorem colsRemove_total (cols : List ColM) (rc oc : Nat) : ∃ cols', colsRemove cols rc oc = .ok cols' := by
  unfold colsRemove
  by_cases ho : oc = 0
  · simp [ho]
  · simp only [ne_eq, ho, not_false_eq_true, if_true]
    obtain ⟨fl, hfl⟩ := mapRes_exists (fun c : ColM => (isRemV c.num rc oc).bind fun b => Res.ok (c, b)) cols
      (fun x _ => ⟨_, by rw [isRemV_ok _ _ _ ho]; rfl⟩)
    rw [hfl]
    simp only
    obtain ⟨efl, _⟩ := mapRes_ok _ _ _ hfl
    apply mapRes_exists
    intro x hx
    obtain ⟨⟨y, b⟩, hy, e⟩ := List.mem_map.1 hx
    simp only at e; subst e
    obtain ⟨hy1, hy2⟩ := List.mem_filter.1 hy
    rw [efl] at hy1
    obtain ⟨w, _, ew⟩ := List.mem_map.1 hy1
    rw [isRemV_ok _ _ _ ho] at ew
    simp only [Res.bind, Res.getD] at ew
    injection ew with e1 e2; subst e1
    simp only [← e2, Bool.not_eq_true', decide_eq_false_iff_not] at hy2
    obtain ⟨z, hz⟩ := adjRemV_kept_ok' w.num rc oc ho hy2
    exact ⟨_, by rw [hz]; rfl⟩

theorem rowsRemove_total (rows : List (Nat × RowM)) (rr or_ : Nat) : ∃ rows', rowsRemove rows rr or_ = .ok rows' := by
  unfold rowsRemove
  by_cases ho : or_ = 0
  · simp [ho]
  · simp only [ne_eq, ho, not_false_eq_true, if_true]
    obtain ⟨fl, hfl⟩ := mapRes_exists (fun p : Nat × RowM => (isRemV p.2.num rr or_).bind fun b => Res.ok (p, b)) rows
      (fun x _ => ⟨_, by rw [isRemV_ok _ _ _ ho]; rfl⟩)
    rw [hfl]
    simp only
    obtain ⟨efl, _⟩ := mapRes_ok _ _ _ hfl
    apply mapRes_exists
    intro x hx
    obtain ⟨⟨y, b⟩, hy, e⟩ := List.mem_map.1 hx
    simp only at e; subst e
    obtain ⟨hy1, hy2⟩ := List.mem_filter.1 hy
    rw [efl] at hy1
    obtain ⟨w, _, ew⟩ := List.mem_map.1 hy1
    rw [isRemV_ok _ _ _ ho] at ew
    simp only [Res.bind, Res.getD] at ew
    injection ew with e1 e2; subst e1
    simp only [← e2, Bool.not_eq_true', decide_eq_false_iff_not] at hy2
    obtain ⟨z, hz⟩ := adjRemV_kept_ok' w.2.num rr or_ ho hy2
    exact ⟨_, by rw [hz]; rfl⟩

theorem adjRem_zero_off (x root : Nat) : adjRem x root 0 = .ok x := by
  unfold adjRem; simp

/-- one kept coordinate: `adjRem` panics exactly at position 0 below the offset -/
theorem adjRem_kept_panic_iff (x root off : Nat) (hoff : off ≠ 0) (hk : isRem x root off = false) :
    (∃ y, adjRem x root off = .ok y) ∨ (root = 0 ∧ x < off ∧ adjRem x root off = .panic) := by
  by_cases hr : 1 ≤ root
  · exact Or.inl (adjRem_kept_ok x root off (Or.inl hr) hk)
  · have h0 : root = 0 := by omega
    subst h0
    by_cases hx : off ≤ x
    · left; unfold adjRem; simp [hoff, hx]
    · right; refine ⟨rfl, by omega, ?_⟩
      unfold adjRem; simp [hoff, hx]

/-- rows: `removeAdj s 0 0 p n` panics exactly when `p = 0`, `n ≠ 0` and some cell's row is below `n` -/
theorem removeAdj_rows_panic_iff (s : Sheet) (p n : Nat) :
    removeAdj s 0 0 p n = .panic ↔ p = 0 ∧ n ≠ 0 ∧ ∃ q ∈ s.cells, q.2.row < n := by
  unfold removeAdj
  obtain ⟨cols, hcols⟩ := colsRemove_total s.cols 0 0
  obtain ⟨rows, hrows⟩ := rowsRemove_total s.rows p n
  rw [hcols, hrows]
  simp only
  by_cases hn : n = 0
  · subst hn
    simp
  · have h0 : ¬ (True ∧ n = 0) := by simp [hn]
    rw [if_neg h0]
    have key : cellsRemove s.cells 0 0 p n = .panic ↔ p = 0 ∧ ∃ q ∈ s.cells, q.2.row < n := by
      unfold cellsRemove
      rw [mapRes_panic_iff]
      constructor
      · rintro ⟨q, hq, hp⟩
        obtain ⟨hq1, hq2⟩ := List.mem_filter.1 hq
        simp only [Bool.not_eq_true', Bool.or_eq_false_iff] at hq2
        rw [adjRem_zero_off] at hp
        simp only [Res.bind] at hp
        rcases adjRem_kept_panic_iff q.2.row p n hn hq2.2 with ⟨y, hy⟩ | ⟨e, hlt, _⟩
        · rw [hy] at hp; cases hp
        · exact ⟨e, q, hq1, hlt⟩
      · rintro ⟨e, q, hq, hlt⟩
        subst e
        refine ⟨q, List.mem_filter.2 ⟨hq, ?_⟩, ?_⟩
        · simp [isRem]
        · rw [adjRem_zero_off]
          simp only [Res.bind]
          have : adjRem q.2.row 0 n = .panic := by
            unfold adjRem
            have : ¬ n ≤ q.2.row := by omega
            simp [hn, this]
          rw [this]
    cases hc : cellsRemove s.cells 0 0 p n with
    | panic =>
      obtain ⟨e, hq⟩ := key.1 hc
      simp only [true_iff]
      exact ⟨e, hn, hq⟩
    | ok cells =>
      simp only
      constructor
      · intro hh; cases hh
      · rintro ⟨e, _, hq⟩
        have := key.2 ⟨e, hq⟩
        rw [hc] at this; cases this

/-- columns, likewise -/
theorem removeAdj_cols_panic_iff (s : Sheet) (p n : Nat) :
    removeAdj s p n 0 0 = .panic ↔ p = 0 ∧ n ≠ 0 ∧ ∃ q ∈ s.cells, q.2.col < n := by
  unfold removeAdj
  obtain ⟨cols, hcols⟩ := colsRemove_total s.cols p n
  obtain ⟨rows, hrows⟩ := rowsRemove_total s.rows 0 0
  rw [hcols, hrows]
  simp only
  by_cases hn : n = 0
  · subst hn
    simp
  · have h0 : ¬ (n = 0 ∧ True) := by simp [hn]
    rw [if_neg h0]
    have key : cellsRemove s.cells p n 0 0 = .panic ↔ p = 0 ∧ ∃ q ∈ s.cells, q.2.col < n := by
      unfold cellsRemove
      rw [mapRes_panic_iff]
      constructor
      · rintro ⟨q, hq, hp⟩
        obtain ⟨hq1, hq2⟩ := List.mem_filter.1 hq
        simp only [Bool.not_eq_true', Bool.or_eq_false_iff] at hq2
        rw [adjRem_zero_off q.2.row] at hp
        rcases adjRem_kept_panic_iff q.2.col p n hn hq2.1 with ⟨y, hy⟩ | ⟨e, hlt, _⟩
        · rw [hy] at hp; simp only [Res.bind] at hp; cases hp
        · exact ⟨e, q, hq1, hlt⟩
      · rintro ⟨e, q, hq, hlt⟩
        subst e
        refine ⟨q, List.mem_filter.2 ⟨hq, ?_⟩, ?_⟩
        · simp [isRem]
        · have : adjRem q.2.col 0 n = .panic := by
            unfold adjRem
            have : ¬ n ≤ q.2.col := by omega
            simp [hn, this]
          rw [this]
          rfl
    cases hc : cellsRemove s.cells p n 0 0 with
    | panic =>
      obtain ⟨e, hq⟩ := key.1 hc
      simp only [true_iff]
      exact ⟨e, hn, hq⟩
    | ok cells =>
      simp only
      constructor
      · intro hh; cases hh
      · rintro ⟨e, _, hq⟩
        have := key.2 ⟨e, hq⟩
        rw [hc] at this; cases this

end Umya.Sheet
