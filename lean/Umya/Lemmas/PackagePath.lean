/-
  The OPC path rules of `Umya/Spec/Sml.lean` (`segsOf`, `resolveTargetL`, `relsNameOfL`, `relsSourceL`,
  `isRelsNameL`, `extOfL`) on the part names of `Umya/Model/PackageNode.lean`, for every sheet number.
-/
import Umya.Model.PackageNode
import Umya.Lemmas.WorkbookNode
namespace Umya.PackageNode
open Umya.Dec Umya.SheetNode Umya.WorkbookNode
open Umya.Spec.Sml

/-! ## splitting -/

theorem splitGo_append (c : Char) (a b : List Char) (h : c ∉ a) :
    splitGo c (a ++ b) = (a ++ (splitGo c b).1, (splitGo c b).2) := by
  induction a with
  | nil => rfl
  | cons x r ih =>
    have hx : x ≠ c := fun e => h (by simp [e])
    have hr : c ∉ r := fun e => h (by simp [e])
    simp only [List.cons_append, splitGo, ih hr, if_neg hx]

theorem splitGo_cons_ne (c x : Char) (r : List Char) (h : x ≠ c) : splitGo c (x :: r) = (x :: (splitGo c r).1, (splitGo c r).2) := by
  simp [splitGo, h]

theorem splitGo_cons_eq (c : Char) (r : List Char) : splitGo c (c :: r) = ([], (splitGo c r).1 :: (splitGo c r).2) := by
  simp [splitGo]

theorem digit_notin (c : Char) (hc : c.isDigit = false) (k : Nat) : c ∉ decDigits k := by
  intro h
  have := List.all_eq_true.1 (Umya.CellNode.decDigits_all_charDigit k) c h
  rw [hc] at this
  cases this

theorem slash_notin (k : Nat) : '/' ∉ decDigits k := digit_notin '/' (by decide) k
theorem dot_notin (k : Nat) : '.' ∉ decDigits k := digit_notin '.' (by decide) k

/-- `<digits>.xml` at `/` -/
theorem splitGo_slash_tail (k : Nat) (suffix : List Char) (hs : '/' ∉ suffix) :
    splitGo '/' (decDigits k ++ suffix) = (decDigits k ++ suffix, []) := by
  rw [splitGo_append _ _ _ (slash_notin k)]
  have : splitGo '/' suffix = (suffix, []) := by
    have := splitGo_append '/' suffix [] hs
    simpa [splitGo] using this
  rw [this]

theorem segsOf_sheetPart (k : Nat) :
    segsOf (sheetPartL k) = [['x', 'l'], ['w', 'o', 'r', 'k', 's', 'h', 'e', 'e', 't', 's'], 's' :: 'h' :: 'e' :: 'e' :: 't' :: (decDigits k ++ ['.', 'x', 'm', 'l'])] := by
  have ht := splitGo_slash_tail k ['.', 'x', 'm', 'l'] (by decide)
  simp [segsOf, splitOnChar, sheetPartL, splitGo_cons_ne, splitGo_cons_eq, ht]

theorem segsOf_sheetRels (k : Nat) :
    segsOf (sheetRelsL k) = [['x', 'l'], ['w', 'o', 'r', 'k', 's', 'h', 'e', 'e', 't', 's'], ['_', 'r', 'e', 'l', 's'],
      's' :: 'h' :: 'e' :: 'e' :: 't' :: (decDigits k ++ ['.', 'x', 'm', 'l', '.', 'r', 'e', 'l', 's'])] := by
  have ht := splitGo_slash_tail k ['.', 'x', 'm', 'l', '.', 'r', 'e', 'l', 's'] (by decide)
  simp [segsOf, splitOnChar, sheetRelsL, splitGo_cons_ne, splitGo_cons_eq, ht]

theorem segsOf_sheetTarget (k : Nat) :
    segsOf (sheetTarget k) = [['w', 'o', 'r', 'k', 's', 'h', 'e', 'e', 't', 's'], 's' :: 'h' :: 'e' :: 'e' :: 't' :: (decDigits k ++ ['.', 'x', 'm', 'l'])] := by
  have ht := splitGo_slash_tail k ['.', 'x', 'm', 'l'] (by decide)
  simp [segsOf, splitOnChar, sheetTarget, splitGo_cons_ne, splitGo_cons_eq, ht]

/-! ## the rules on sheet parts -/

/-- the target `worksheets/sheetK.xml`, relative to the workbook part, is the name of the K-th sheet part -/
theorem resolve_sheetTarget (k : Nat) : resolveTargetL nWorkbookPart (sheetTarget k) = sheetPartL k := by
  have hb : segsOf nWorkbookPart = [['x', 'l'], ['w', 'o', 'r', 'k', 'b', 'o', 'o', 'k', '.', 'x', 'm', 'l']] := by decide
  have hh : (sheetTarget k).head? ≠ some '/' := by simp [sheetTarget]
  unfold resolveTargetL
  rw [if_neg hh, hb, segsOf_sheetTarget]
  simp [resolveSegs, joinSegs, List.intercalate, sheetPartL]

theorem relsName_sheetPart (k : Nat) : relsNameOfL (sheetPartL k) = sheetRelsL k := by
  unfold relsNameOfL
  rw [segsOf_sheetPart]
  simp [joinSegs, List.intercalate, sheetRelsL]

theorem relsSource_sheetRels (k : Nat) : relsSourceL (sheetRelsL k) = sheetPartL k := by
  unfold relsSourceL
  rw [segsOf_sheetRels]
  simp [joinSegs, List.intercalate, sheetPartL]
  have h2 : decDigits k ++ ['.', 'x', 'm', 'l', '.', 'r', 'e', 'l', 's'] = (decDigits k ++ ['.', 'x', 'm', 'l']) ++ ['.', 'r', 'e', 'l', 's'] := by simp
  rw [h2, List.take_append_of_le_length (by simp)]
  exact List.take_of_length_le (by simp)

theorem isRels_sheetRels (k : Nat) : isRelsNameL (sheetRelsL k) = true := by
  have : sheetRelsL k = ('x' :: 'l' :: '/' :: 'w' :: 'o' :: 'r' :: 'k' :: 's' :: 'h' :: 'e' :: 'e' :: 't' :: 's' :: '/' :: '_' :: 'r' :: 'e' :: 'l' :: 's' :: '/' :: 's' :: 'h' :: 'e' :: 'e' :: 't' :: (decDigits k ++ ['.', 'x', 'm', 'l'])) ++ ['.', 'r', 'e', 'l', 's'] := by
    simp [sheetRelsL]
  rw [isRelsNameL, this]
  exact List.isSuffixOf_iff_suffix.2 (List.suffix_append _ _)

theorem isRels_sheetPart (k : Nat) : isRelsNameL (sheetPartL k) = false := by
  rw [isRelsNameL, Bool.eq_false_iff]
  intro h
  have hs := List.isSuffixOf_iff_suffix.1 h
  have : sheetPartL k = ('x' :: 'l' :: '/' :: 'w' :: 'o' :: 'r' :: 'k' :: 's' :: 'h' :: 'e' :: 'e' :: 't' :: 's' :: '/' :: 's' :: 'h' :: 'e' :: 'e' :: 't' :: (decDigits k ++ ['.'])) ++ ['x', 'm', 'l'] := by
    simp [sheetPartL]
  rw [this] at hs
  obtain ⟨t, ht⟩ := hs
  have h1 := congrArg List.reverse ht
  simp only [List.reverse_append, List.reverse_cons, List.reverse_nil, List.nil_append, List.cons_append, List.cons.injEq] at h1
  exact absurd h1.1 (by decide)

/-- the extension of a sheet relationships part is `rels` -/
theorem ext_sheetRels (k : Nat) : extOfL (sheetRelsL k) = ['r', 'e', 'l', 's'] := by
  have ht : splitGo '.' (decDigits k ++ ['.', 'x', 'm', 'l', '.', 'r', 'e', 'l', 's']) = (decDigits k, [['x', 'm', 'l'], ['r', 'e', 'l', 's']]) := by
    rw [splitGo_append _ _ _ (dot_notin k)]
    simp [splitGo]
  simp [extOfL, splitOnChar, sheetRelsL, splitGo_cons_ne, ht]

/-! ## names are distinct -/

theorem sheetPartL_inj (j k : Nat) (h : sheetPartL j = sheetPartL k) : j = k := by
  simp only [sheetPartL, List.cons.injEq, true_and] at h
  exact decDigits_inj j k (List.append_cancel_right h)

theorem sheetRelsL_inj (j k : Nat) (h : sheetRelsL j = sheetRelsL k) : j = k := by
  simp only [sheetRelsL, List.cons.injEq, true_and] at h
  exact decDigits_inj j k (List.append_cancel_right h)

theorem sheetPart_ne_sheetRels (j k : Nat) : sheetPartL j ≠ sheetRelsL k := by
  intro h
  simp [sheetPartL, sheetRelsL] at h

end Umya.PackageNode
