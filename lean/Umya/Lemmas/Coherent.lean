/-
  The coherence invariant of the cell store and its preservation by the primitive operations.
-/
import Umya.Lemmas.Sheet
namespace Umya.Sheet
open Umya.Coord (Res)

def keysOf (s : Sheet) : List Key := s.cells.map (·.1)

theorem swap_swap (k : Key) : swap (swap k) = k := rfl

/-- The store is coherent: map keys are distinct and equal to each cell's own coordinate; both
    ordered indexes are strictly sorted and hold exactly the keys; every cell's row is present in
    the row table; the row table's keys are distinct and equal to each row's own number. -/
structure Coherent (s : Sheet) : Prop where
  nodup : (keysOf s).Nodup
  coord : ∀ p ∈ s.cells, p.2.row = p.1.1 ∧ p.2.col = p.1.2
  rsorted : SSorted s.rowIdx
  rmem : ∀ k, k ∈ s.rowIdx ↔ k ∈ keysOf s
  csorted : SSorted s.colIdx
  cmem : ∀ k, k ∈ s.colIdx ↔ swap k ∈ keysOf s
  rowKnown : ∀ k ∈ keysOf s, k.1 ∈ s.rows.map (·.1)
  rowKey : ∀ q ∈ s.rows, q.2.num = q.1
  rowNodup : (s.rows.map (·.1)).Nodup

theorem coherent_empty : Coherent {} := by
  constructor <;> simp [keysOf, SSorted]

/-! ### ensureRow / ensureCol -/

theorem ensureRow_cells (s : Sheet) (r : Nat) : (ensureRow s r).cells = s.cells ∧
    (ensureRow s r).rowIdx = s.rowIdx ∧ (ensureRow s r).colIdx = s.colIdx ∧ (ensureRow s r).cols = s.cols := by
  unfold ensureRow; split <;> simp

theorem ensureRow_has (s : Sheet) (r : Nat) : r ∈ (ensureRow s r).rows.map (·.1) := by
  unfold ensureRow
  split
  · rename_i x h
    exact lookupRow_isSome_iff.1 (by rw [h]; rfl)
  · simp

theorem ensureRow_mono (s : Sheet) (r n : Nat) (h : n ∈ s.rows.map (·.1)) : n ∈ (ensureRow s r).rows.map (·.1) := by
  unfold ensureRow
  split
  · exact h
  · simp only [List.map_append, List.mem_append]; left; exact h

theorem ensureRow_coherent (s : Sheet) (r : Nat) (h : Coherent s) : Coherent (ensureRow s r) := by
  obtain ⟨e1, e2, e3, _⟩ := ensureRow_cells s r
  have hk : keysOf (ensureRow s r) = keysOf s := by simp [keysOf, e1]
  refine ⟨by rw [hk]; exact h.nodup, by rw [e1]; exact h.coord, by rw [e2]; exact h.rsorted,
    by rw [e2, hk]; exact h.rmem, by rw [e3]; exact h.csorted, by rw [e3, hk]; exact h.cmem, ?_, ?_, ?_⟩
  · intro k hk'; rw [hk] at hk'; exact ensureRow_mono s r _ (h.rowKnown k hk')
  · unfold ensureRow; split
    · exact h.rowKey
    · intro q hq
      rcases List.mem_append.1 hq with hq | hq
      · exact h.rowKey q hq
      · simp at hq; subst hq; rfl
  · unfold ensureRow; split
    · exact h.rowNodup
    · rename_i hnone
      have hnot : r ∉ s.rows.map (·.1) := by
        intro hin
        have := lookupRow_isSome_iff.2 hin
        rw [hnone] at this; simp at this
      simp only [List.map_append, List.map_cons, List.map_nil]
      rw [List.nodup_append]
      refine ⟨h.rowNodup, by simp, ?_⟩
      intro a ha b hb
      simp at hb; subst hb
      intro e; subst e; exact hnot ha

theorem ensureCol_eq (s : Sheet) (c : Nat) : (ensureCol s c).cells = s.cells ∧
    (ensureCol s c).rowIdx = s.rowIdx ∧ (ensureCol s c).colIdx = s.colIdx ∧ (ensureCol s c).rows = s.rows := by
  unfold ensureCol; split <;> simp

theorem coherent_of_eq {s t : Sheet} (h : Coherent s) (e1 : t.cells = s.cells) (e2 : t.rowIdx = s.rowIdx)
    (e3 : t.colIdx = s.colIdx) (e4 : t.rows = s.rows) : Coherent t := by
  have hk : keysOf t = keysOf s := by simp [keysOf, e1]
  exact ⟨by rw [hk]; exact h.nodup, by rw [e1]; exact h.coord, by rw [e2]; exact h.rsorted,
    by rw [e2, hk]; exact h.rmem, by rw [e3]; exact h.csorted, by rw [e3, hk]; exact h.cmem,
    by rw [hk, e4]; exact h.rowKnown, by rw [e4]; exact h.rowKey, by rw [e4]; exact h.rowNodup⟩

theorem ensureCol_coherent (s : Sheet) (c : Nat) (h : Coherent s) : Coherent (ensureCol s c) := by
  obtain ⟨e1, e2, e3, e4⟩ := ensureCol_eq s c
  exact coherent_of_eq h e1 e2 e3 e4

/-! ### getMut -/

theorem getMut_coherent (s : Sheet) (col row : Nat) (h : Coherent s) : Coherent (getMut s col row) := by
  have h1 := ensureRow_coherent s row h
  have h2 := ensureCol_coherent (ensureRow s row) col h1
  have hrow : row ∈ (ensureCol (ensureRow s row) col).rows.map (·.1) := by
    rw [(ensureCol_eq _ col).2.2.2]; exact ensureRow_has s row
  unfold getMut
  generalize ensureCol (ensureRow s row) col = t at h2 hrow
  simp only
  split
  · exact h2
  · rename_i hnone
    have hnot : (row, col) ∉ keysOf t := lookup_none_iff.1 hnone
    refine ⟨?_, ?_, ?_, ?_, ?_, ?_, ?_, h2.rowKey, h2.rowNodup⟩
    · simp only [keysOf, List.map_append, List.map_cons, List.map_nil]
      rw [List.nodup_append]
      refine ⟨h2.nodup, by simp, ?_⟩
      intro a ha b hb; simp at hb; subst hb
      intro e; subst e; exact hnot ha
    · intro p hp
      rcases List.mem_append.1 hp with hp | hp
      · exact h2.coord p hp
      · simp at hp; subst hp; simp
    · exact sorted_setInsert _ _ h2.rsorted
    · intro k
      simp only [mem_setInsert, keysOf, List.map_append, List.map_cons, List.map_nil, List.mem_append,
        List.mem_singleton]
      rw [h2.rmem k]; simp only [keysOf]; constructor
      · rintro (h | h) <;> simp [h]
      · rintro (h | h) <;> simp [h]
    · exact sorted_setInsert _ _ h2.csorted
    · intro k
      simp only [mem_setInsert, keysOf, List.map_append, List.map_cons, List.map_nil, List.mem_append,
        List.mem_singleton]
      rw [h2.cmem k]; simp only [keysOf]
      have hs : k = (col, row) ↔ swap k = (row, col) := by
        obtain ⟨a, b⟩ := k; simp [swap]; exact And.comm
      rw [hs]; constructor
      · rintro (h | h) <;> simp [h]
      · rintro (h | h) <;> simp [h]
    · intro k hk
      simp only [keysOf, List.map_append, List.map_cons, List.map_nil, List.mem_append,
        List.mem_singleton] at hk
      rcases hk with hk | hk
      · exact h2.rowKnown k hk
      · subst hk; exact hrow

theorem getMut_has (s : Sheet) (col row : Nat) : (lookup (row, col) (getMut s col row).cells).isSome := by
  unfold getMut
  simp only
  split
  · rename_i c hc; rw [hc]; rfl
  · rw [lookup_isSome_iff]; simp

/-! ### modify -/

theorem modify_coherent (s : Sheet) (col row : Nat) (f : CellM → CellM)
    (hf : ∀ c, (f c).row = c.row ∧ (f c).col = c.col) (h : Coherent s) : Coherent (modify s col row f) := by
  unfold modify
  split
  · rename_i c hc
    have hk : keysOf { s with cells := replaceKey (row, col) (f c) s.cells } = keysOf s := by
      simp [keysOf, map_fst_replaceKey]
    refine ⟨by rw [hk]; exact h.nodup, ?_, h.rsorted, by rw [hk]; exact h.rmem, h.csorted,
      by rw [hk]; exact h.cmem, by rw [hk]; exact h.rowKnown, h.rowKey, h.rowNodup⟩
    intro p hp
    rcases mem_replaceKey hp with hp | hp
    · exact h.coord p hp
    · subst hp
      have := h.coord _ (lookup_some_mem hc)
      simp only [(hf c).1, (hf c).2]; exact this
  · exact h

/-! ### removeCell -/

theorem keys_eraseKey (k : Key) (l : List (Key × CellM)) :
    (eraseKey k l).map (·.1) = (l.map (·.1)).filter (· ≠ k) := by
  induction l with
  | nil => rfl
  | cons p r ih =>
    simp only [eraseKey, List.filter_cons, List.map_cons]
    by_cases hp : p.1 = k
    · simp [hp]; simpa [eraseKey] using ih
    · simp [hp]; simpa [eraseKey] using ih

theorem removeCell_coherent (s : Sheet) (col row : Nat) (h : Coherent s) : Coherent (removeCell s col row) := by
  unfold removeCell
  split
  · have hk : keysOf { s with cells := eraseKey (row, col) s.cells, rowIdx := setErase (row, col) s.rowIdx, colIdx := setErase (col, row) s.colIdx } = (keysOf s).filter (· ≠ (row, col)) := by
      simp [keysOf, keys_eraseKey]
    refine ⟨?_, ?_, sorted_setErase _ _ h.rsorted, ?_, sorted_setErase _ _ h.csorted, ?_, ?_, h.rowKey, h.rowNodup⟩
    · rw [hk]; exact List.Pairwise.filter _ h.nodup
    · intro p hp
      exact h.coord p (List.mem_filter.1 hp).1
    · intro k; rw [hk, mem_setErase, h.rmem k, List.mem_filter]; simp; exact And.comm
    · intro k; rw [hk, mem_setErase, h.cmem k, List.mem_filter]
      have : k ≠ (col, row) ↔ swap k ≠ (row, col) := by
        obtain ⟨a, b⟩ := k; simp only [swap, ne_eq, Prod.mk.injEq]; omega
      simp [this]; exact And.comm
    · intro k hk'; rw [hk] at hk'; exact h.rowKnown k (List.mem_filter.1 hk').1
  · exact h

/-! ### row / column style setters -/

theorem setRowSty_coherent (s : Sheet) (row sty : Nat) (h : Coherent s) : Coherent (setRowSty s row sty) := by
  have h1 := ensureRow_coherent s row h
  unfold setRowSty
  generalize ensureRow s row = t at h1
  have hm : (t.rows.map (fun p => if p.1 = row then (p.1, { p.2 with sty := sty }) else p)).map (·.1) = t.rows.map (·.1) := by
    rw [List.map_map]; apply List.map_congr_left; intro p _; simp only [Function.comp]; split <;> rfl
  refine ⟨h1.nodup, h1.coord, h1.rsorted, h1.rmem, h1.csorted, h1.cmem, ?_, ?_, ?_⟩
  · simp only [keysOf] at *; rw [hm]; exact h1.rowKnown
  · intro q hq
    simp only [List.mem_map] at hq
    obtain ⟨p, hp, e⟩ := hq
    split at e
    · subst e; simp; exact h1.rowKey p hp
    · subst e; exact h1.rowKey p hp
  · simp only; rw [hm]; exact h1.rowNodup

theorem setColSty_coherent (s : Sheet) (col sty : Nat) (h : Coherent s) : Coherent (setColSty s col sty) := by
  have h1 := ensureCol_coherent s col h
  unfold setColSty
  exact coherent_of_eq h1 rfl rfl rfl rfl

end Umya.Sheet
