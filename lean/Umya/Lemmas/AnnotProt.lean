/-
  Round trips of the protection records, tab colour, active tab and `<definedName>` attributes
  (`Model/AnnotProt.lean`).
-/
import Umya.Model.AnnotProt
import Umya.Lemmas.AnnotCodec
namespace Umya.AnnotProt
open Umya.Spec.Xml (Node Attr)
open Umya.Dec Umya.AnnotCodec

/-! ## sheet protection -/

theorem flag_mem_all (f : Flag) : f ∈ Flag.all := by cases f <;> decide

/-- no two fields of `<sheetProtection>` share an attribute name (21 names) -/
theorem sheetProtectionKeys_nodup : sheetProtectionKeys.Nodup := by decide

theorem SheetProtection.fields_keys (x : SheetProtection) : x.fields.map (·.1) = sheetProtectionKeys := by
  simp [SheetProtection.fields, sheetProtectionKeys, List.map_map, Function.comp_def]

theorem SheetProtection.fields_nodup (x : SheetProtection) : (x.fields.map (·.1)).Nodup := by
  rw [x.fields_keys]; exact sheetProtectionKeys_nodup

theorem SheetProtection.flag_mem (x : SheetProtection) (f : Flag) :
    (f.attr, (x.flags f).map boolStr) ∈ x.fields := by
  unfold SheetProtection.fields
  exact List.mem_append_right _ (List.mem_map.mpr ⟨f, flag_mem_all f, rfl⟩)

theorem SheetProtection.read_write (x : SheetProtection) (h : x.WF) : SheetProtection.read x.write = some x := by
  have nd := x.fields_nodup
  have e1 : getAttr (render x.fields) "algorithmName".toList = x.algorithmName :=
    getAttr_render _ nd (by simp [SheetProtection.fields])
  have e2 : getAttr (render x.fields) "hashValue".toList = x.hashValue :=
    getAttr_render _ nd (by simp [SheetProtection.fields])
  have e3 : getAttr (render x.fields) "saltValue".toList = x.saltValue :=
    getAttr_render _ nd (by simp [SheetProtection.fields])
  have e4 : getAttr (render x.fields) "spinCount".toList = x.spinCount.map decDigits :=
    getAttr_render _ nd (by simp [SheetProtection.fields])
  have e5 : getAttr (render x.fields) "password".toList = x.password :=
    getAttr_render _ nd (by simp [SheetProtection.fields])
  have e6 : ∀ f : Flag, getAttr (render x.fields) f.attr = (x.flags f).map boolStr :=
    fun f => getAttr_render _ nd (x.flag_mem f)
  simp only [SheetProtection.read, SheetProtection.write, elem, Node.attrs, e1, e2, e3, e4, e5, e6,
    optU32_map_decDigits _ h, optBool_map_boolStr, Option.map_some]

/-! ## workbook protection -/

theorem workbookProtectionKeys_nodup : workbookProtectionKeys.Nodup := by decide

theorem WorkbookProtection.fields_nodup (x : WorkbookProtection) : (x.fields.map (·.1)).Nodup := by
  have : x.fields.map (·.1) = workbookProtectionKeys := by
    simp [WorkbookProtection.fields, workbookProtectionKeys, workbookProtectionTable]
  rw [this]; exact workbookProtectionKeys_nodup

theorem WorkbookProtection.read_write (x : WorkbookProtection) (h : x.WF) :
    WorkbookProtection.read x.write = some x := by
  have nd := x.fields_nodup
  have e1 : getAttr (render x.fields) "workbookAlgorithmName".toList = x.workbookAlgorithmName :=
    getAttr_render _ nd (by simp [WorkbookProtection.fields])
  have e2 : getAttr (render x.fields) "workbookHashValue".toList = x.workbookHashValue :=
    getAttr_render _ nd (by simp [WorkbookProtection.fields])
  have e3 : getAttr (render x.fields) "workbookSaltValue".toList = x.workbookSaltValue :=
    getAttr_render _ nd (by simp [WorkbookProtection.fields])
  have e4 : getAttr (render x.fields) "workbookSpinCount".toList = x.workbookSpinCount.map decDigits :=
    getAttr_render _ nd (by simp [WorkbookProtection.fields])
  have e5 : getAttr (render x.fields) "workbookPassword".toList = x.workbookPassword :=
    getAttr_render _ nd (by simp [WorkbookProtection.fields])
  have e6 : getAttr (render x.fields) "revisionsAlgorithmName".toList = x.revisionsAlgorithmName :=
    getAttr_render _ nd (by simp [WorkbookProtection.fields])
  have e7 : getAttr (render x.fields) "revisionsHashValue".toList = x.revisionsHashValue :=
    getAttr_render _ nd (by simp [WorkbookProtection.fields])
  have e8 : getAttr (render x.fields) "revisionsSaltValue".toList = x.revisionsSaltValue :=
    getAttr_render _ nd (by simp [WorkbookProtection.fields])
  have e9 : getAttr (render x.fields) "revisionsSpinCount".toList = x.revisionsSpinCount.map decDigits :=
    getAttr_render _ nd (by simp [WorkbookProtection.fields])
  have e10 : getAttr (render x.fields) "revisionsPassword".toList = x.revisionsPassword :=
    getAttr_render _ nd (by simp [WorkbookProtection.fields])
  have e11 : getAttr (render x.fields) "lockRevision".toList = x.lockRevision.map boolStr :=
    getAttr_render _ nd (by simp [WorkbookProtection.fields])
  have e12 : getAttr (render x.fields) "lockStructure".toList = x.lockStructure.map boolStr :=
    getAttr_render _ nd (by simp [WorkbookProtection.fields])
  have e13 : getAttr (render x.fields) "lockWindows".toList = x.lockWindows.map boolStr :=
    getAttr_render _ nd (by simp [WorkbookProtection.fields])
  simp only [WorkbookProtection.read, WorkbookProtection.write, elem, Node.attrs, e1, e2, e3, e4, e5, e6, e7,
    e8, e9, e10, e11, e12, e13, optU32_map_decDigits _ h.1, optU32_map_decDigits _ h.2, optBool_map_boolStr,
    Option.map_some, Option.bind_some]

/-! ## active tab, `<definedName>` attributes -/

theorem WorkbookView.fields_nodup (v : WorkbookView) : (v.fields.map (·.1)).Nodup := by
  simp only [WorkbookView.fields, List.map_cons, List.map_nil]; decide

theorem WorkbookView.read_write (v : WorkbookView) (h : ∀ n, v.activeTab = some n → n < 4294967296) :
    WorkbookView.read v.write = some v := by
  have e : getAttr (render v.fields) "activeTab".toList = v.activeTab.map decDigits :=
    getAttr_render _ v.fields_nodup (by simp [WorkbookView.fields])
  simp only [WorkbookView.read, WorkbookView.write, elem, Node.attrs, e, optU32_map_decDigits _ h, Option.map_some]

theorem DnAttrs.fields_nodup (d : DnAttrs) : (d.fields.map (·.1)).Nodup := by
  simp only [DnAttrs.fields, List.map_cons, List.map_nil]; decide

theorem DnAttrs.read_write (d : DnAttrs) (h : ∀ n, d.localSheetId = some n → n < 4294967296) :
    DnAttrs.read d.writeAttrs = some d.norm := by
  have nd := d.fields_nodup
  have e1 : getAttr (render d.fields) "name".toList = some (d.name.getD []) :=
    getAttr_render _ nd (by simp [DnAttrs.fields])
  have e2 : getAttr (render d.fields) "localSheetId".toList = d.localSheetId.map decDigits :=
    getAttr_render _ nd (by simp [DnAttrs.fields])
  have e3 : getAttr (render d.fields) "hidden".toList = d.hidden.map boolStr :=
    getAttr_render _ nd (by simp [DnAttrs.fields])
  simp only [DnAttrs.read, DnAttrs.writeAttrs, e1, e2, e3, optU32_map_decDigits _ h, optBool_map_boolStr,
    Option.map_some, DnAttrs.norm]

/-! ## tab colour -/

theorem Color.read_writeTab {Z : NumZ} (hs : Z.F.Sound) (c : Color Z)
    (h3 : ∀ n, c.theme = some n → n < 4294967296) (h4 : ∀ n, c.indexed = some n → n < 4294967296) :
    readSheetPr (writeSheetPr [] (some c)) = some (normTab (some c)) := by
  obtain ⟨ix, th, ar, ti⟩ := c
  simp only at h3 h4
  cases th with
  | some t =>
    have ht := u32Attr_decDigits t (h3 t rfl)
    cases ti with
    | none =>
      simp [readSheetPr, writeSheetPr, Color.writeTab, Color.fields, render, elem, elemKids, Node.children,
        Node.isElem, Node.name, Color.read, Node.attrs, Color.step, ht, normTab, Color.isEmpty, Color.norm]
    | some x =>
      simp [readSheetPr, writeSheetPr, Color.writeTab, Color.fields, render, elem, elemKids, Node.children,
        Node.isElem, Node.name, Color.read, Node.attrs, Color.step, ht, normTab, Color.isEmpty, Color.norm,
        numRead_fmt Z hs]
  | none =>
    cases ix with
    | some i =>
      have hi := u32Attr_decDigits i (h4 i rfl)
      cases ti with
      | none =>
        simp [readSheetPr, writeSheetPr, Color.writeTab, Color.fields, render, elem, elemKids, Node.children,
          Node.isElem, Node.name, Color.read, Node.attrs, Color.step, hi, normTab, Color.isEmpty, Color.norm]
      | some x =>
        simp [readSheetPr, writeSheetPr, Color.writeTab, Color.fields, render, elem, elemKids, Node.children,
          Node.isElem, Node.name, Color.read, Node.attrs, Color.step, hi, normTab, Color.isEmpty, Color.norm,
          numRead_fmt Z hs]
    | none =>
      cases ar with
      | some a =>
        cases ti with
        | none =>
          simp [readSheetPr, writeSheetPr, Color.writeTab, Color.fields, render, elem, elemKids, Node.children,
            Node.isElem, Node.name, Color.read, Node.attrs, Color.step, normTab, Color.isEmpty, Color.norm]
        | some x =>
          simp [readSheetPr, writeSheetPr, Color.writeTab, Color.fields, render, elem, elemKids, Node.children,
            Node.isElem, Node.name, Color.read, Node.attrs, Color.step, normTab, Color.isEmpty, Color.norm,
            numRead_fmt Z hs]
      | none =>
        cases ti with
        | none =>
          simp [readSheetPr, writeSheetPr, Color.writeTab, Color.fields, render, elem, elemKids, Node.children,
            normTab, Color.isEmpty]
        | some x =>
          simp [readSheetPr, writeSheetPr, Color.writeTab, Color.fields, render, elem, elemKids, Node.children,
            Node.isElem, Node.name, Color.read, Node.attrs, Color.step, normTab, Color.isEmpty, Color.norm,
            numRead_fmt Z hs]

theorem Color.norm_of_WF {Z : NumZ} (c : Color Z) (h : c.WF) : c.norm = c := by
  obtain ⟨ix, th, ar, ti⟩ := c
  obtain ⟨h1, h2, _, _⟩ := h
  simp only at h1 h2
  cases th with
  | some t => obtain ⟨a, b⟩ := h1 rfl; subst a; subst b; simp [Color.norm]
  | none =>
    cases ix with
    | some i => have := h2 rfl; subst this; simp [Color.norm]
    | none => simp [Color.norm]

theorem Color.norm_idem {Z : NumZ} (c : Color Z) : c.norm.norm = c.norm := by
  obtain ⟨ix, th, ar, ti⟩ := c
  cases th <;> cases ix <;> simp [Color.norm]

end Umya.AnnotProt
