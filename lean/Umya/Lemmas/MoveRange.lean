/-
  Content of the cell store under the primitive edits (`removeCell`, `setCell`) and under the three
  stages of `move_or_copy_range`: collect the source cells, clear (move only), paste.
  No coherence is needed for the primitives: `lookup` finds the first entry of a key, `replaceKey`
  rewrites the first entry, `eraseKey` drops all of them.
-/
import Umya.Lemmas.Refine
namespace Umya.Sheet
open Umya.Coord (Res)
open Umya.Spec.Grid

/-! ### `lookup` under the list edits -/

theorem lookup_eraseKey (k k' : Key) (l : List (Key × CellM)) :
    lookup k (eraseKey k' l) = if k = k' then none else lookup k l := by
  have h := lookup_filter_key (fun x => decide (x ≠ k')) l k
  unfold eraseKey
  rw [h]
  by_cases e : k = k'
  · simp [e]
  · simp [e]

theorem lookup_append_single_ne (k k' : Key) (c : CellM) (l : List (Key × CellM)) (h : k ≠ k') :
    lookup k (l ++ [(k', c)]) = lookup k l := by
  induction l with
  | nil => simp [lookup, Ne.symm h]
  | cons p r ih =>
    obtain ⟨k'', c''⟩ := p
    simp only [List.cons_append, lookup, ih]

theorem lookup_replaceKey (k k' : Key) (c : CellM) (l : List (Key × CellM)) :
    lookup k (replaceKey k' c l) = if k = k' ∧ (lookup k l).isSome then some c else lookup k l := by
  induction l with
  | nil => simp [replaceKey, lookup]
  | cons p r ih =>
    obtain ⟨k'', c''⟩ := p
    simp only [replaceKey]
    by_cases e1 : k'' = k'
    · rw [if_pos e1]
      simp only [lookup]
      by_cases e2 : k'' = k
      · have : k = k' := by rw [← e2, e1]
        simp [e2, this]
      · have : ¬ k = k' := by intro e; exact e2 (by rw [e1, e])
        simp [e2, this]
    · rw [if_neg e1]
      simp only [lookup]
      by_cases e2 : k'' = k
      · have : ¬ k = k' := by intro e; exact e1 (by rw [e2, e])
        simp [e2, this]
      · simp only [e2, if_false, ih]

/-! ### `content` under the primitive operations -/

theorem content_removeCell (s : Sheet) (col row r c : Nat) :
    content (removeCell s col row) r c = if (r, c) = (row, col) then none else content s r c := by
  unfold removeCell
  split
  · simp only [content, lookup_eraseKey]
    by_cases e : (r, c) = (row, col)
    · simp [e]
    · simp [e]
  · rename_i hnone
    by_cases e : (r, c) = (row, col)
    · simp only [content, e, if_true, hnone, Option.map_none]
    · simp [e]

theorem getMut_lookup_other (s : Sheet) (col row : Nat) (k : Key) (h : k ≠ (row, col)) :
    lookup k (getMut s col row).cells = lookup k s.cells := by
  have e0 : (ensureCol (ensureRow s row) col).cells = s.cells := by
    rw [(ensureCol_eq _ col).1, (ensureRow_cells s row).1]
  unfold getMut
  simp only
  split
  · exact congrArg (lookup k) e0
  · simp only [e0]
    exact lookup_append_single_ne k (row, col) _ s.cells h

theorem content_setCell (s : Sheet) (col row v sty r c : Nat) :
    content (setCell s col row v sty) r c = if (r, c) = (row, col) then some (v, sty) else content s r c := by
  have hhas := getMut_has s col row
  have hoth := getMut_lookup_other s col row (r, c)
  unfold setCell modify
  generalize getMut s col row = t at hhas hoth
  split
  · rename_i c0 hc0
    simp only [content, lookup_replaceKey]
    by_cases e : (r, c) = (row, col)
    · have : (r, c) = (row, col) ∧ (lookup (r, c) t.cells).isSome = true := ⟨e, by rw [e, hc0]; rfl⟩
      rw [if_pos this, if_pos e]; rfl
    · simp only [e, false_and, if_false, hoth e]
  · rename_i hnone
    rw [hnone] at hhas
    simp at hhas

/-! ### folds -/

/-- a fold whose steps each blank a set of positions blanks their union -/
theorem content_foldl_erase_hit {α} (f : Sheet → α → Sheet) (E : α → Prop) (r c : Nat)
    (hf1 : ∀ s x, E x → content (f s x) r c = none)
    (hf2 : ∀ s x, ¬ E x → content (f s x) r c = content s r c)
    (l : List α) (s : Sheet) (h : ∃ x ∈ l, E x) : content (l.foldl f s) r c = none := by
  induction l generalizing s with
  | nil => simp at h
  | cons x xs ih =>
    simp only [List.foldl_cons]
    by_cases hx : ∃ y ∈ xs, E y
    · exact ih _ hx
    · have hall : ∀ y ∈ xs, ¬ E y := fun y hy he => hx ⟨y, hy, he⟩
      have hmiss : ∀ (t : Sheet), content (xs.foldl f t) r c = content t r c := by
        clear ih h hx
        induction xs with
        | nil => intro t; rfl
        | cons y ys ih2 =>
          intro t
          simp only [List.foldl_cons]
          rw [ih2 (fun z hz => hall z (List.mem_cons_of_mem _ hz)), hf2 _ _ (hall y (List.mem_cons_self ..))]
      rw [hmiss]
      obtain ⟨y, hy, he⟩ := h
      rcases List.mem_cons.1 hy with e | hy'
      · subst e; exact hf1 _ _ he
      · exact absurd he (hall y hy')

theorem content_foldl_miss {α} (f : Sheet → α → Sheet) (E : α → Prop) (r c : Nat)
    (hf2 : ∀ s x, ¬ E x → content (f s x) r c = content s r c)
    (l : List α) (s : Sheet) (h : ∀ x ∈ l, ¬ E x) : content (l.foldl f s) r c = content s r c := by
  induction l generalizing s with
  | nil => rfl
  | cons x xs ih =>
    simp only [List.foldl_cons]
    rw [ih _ (fun z hz => h z (List.mem_cons_of_mem _ hz)), hf2 _ _ (h x (List.mem_cons_self ..))]

theorem mem_range (lo hi x : Nat) : x ∈ range lo hi ↔ lo ≤ x ∧ x ≤ hi := by
  simp only [range, List.mem_map, List.mem_range]
  constructor
  · rintro ⟨a, ha, rfl⟩; omega
  · rintro ⟨h1, h2⟩; exact ⟨x - lo, by omega, by omega⟩

/-! ### the three stages of `move_or_copy_range` -/

theorem mem_rectPositions (rs re cs ce : Nat) (p : Key) :
    p ∈ rectPositions rs re cs ce ↔ rs ≤ p.1 ∧ p.1 ≤ re ∧ cs ≤ p.2 ∧ p.2 ≤ ce := by
  obtain ⟨r, c⟩ := p
  simp only [rectPositions, List.mem_flatMap, List.mem_map, mem_range, Prod.mk.injEq]
  constructor
  · rintro ⟨a, ha, b, hb, rfl, rfl⟩; omega
  · intro h; exact ⟨r, by omega, c, by omega, rfl, rfl⟩

/-- the clean-up pass of a move: every position of the source rectangle and its image -/
def clearRect (s : Sheet) (rs re cs ce : Nat) (dr dc : Int) : Sheet :=
  (rectPositions rs re cs ce).foldl (fun s p =>
    removeCell (removeCell s p.2 p.1) (((p.2 : Int) + dc).toNat) (((p.1 : Int) + dr).toNat)) s

/-- the paste pass -/
def paste (s : Sheet) (copies : List CellM) (dr dc : Int) : Sheet :=
  copies.foldl (fun s c => setCell s (((c.col : Int) + dc).toNat) (((c.row : Int) + dr).toNat) c.val c.sty) s

/-- the collected source cells -/
def copiesOf (s : Sheet) (coords : List Key) : List CellM := coords.filterMap (fun k => lookup (k.2, k.1) s.cells)

theorem moveOrCopy_eq (s : Sheet) (rs re cs ce : Nat) (dr dc : Int) (mv : Bool) :
    moveOrCopy s rs re cs ce dr dc mv =
      if (cs : Int) + dc < 1 ∨ (rs : Int) + dr < 1 ∨ (ce : Int) + dc > 16384 ∨ (re : Int) + dr > 1048576 then .panic
      else match coordsInRange s rs re cs ce with
        | .panic => .panic
        | .ok coords => match collectCells s rs re cs ce coords with
          | .panic => .panic
          | .ok copies => .ok (paste (if mv then clearRect s rs re cs ce dr dc else s) copies dr dc) := rfl

theorem coordsInRange_ok (s : Sheet) (rs re cs ce : Nat) (hr : rs ≤ re) (hc : cs ≤ ce) :
    ∃ l, coordsInRange s rs re cs ce = .ok l := by
  unfold coordsInRange
  have : ¬ keyLt (re, ce) (rs, cs) = true := by rw [keyLt_iff]; simp only; omega
  rw [if_neg this]
  exact ⟨_, rfl⟩

/-- the collected cells are exactly the cells stored inside the rectangle -/
theorem copiesOf_spec (s : Sheet) (h : Coherent s) (rs re cs ce : Nat) (coords : List Key)
    (hok : coordsInRange s rs re cs ce = .ok coords) :
    (∀ x ∈ copiesOf s coords, lookup (x.row, x.col) s.cells = some x ∧ rs ≤ x.row ∧ x.row ≤ re ∧ cs ≤ x.col ∧ x.col ≤ ce) ∧
    (∀ r c x, lookup (r, c) s.cells = some x → rs ≤ r → r ≤ re → cs ≤ c → c ≤ ce → x ∈ copiesOf s coords) := by
  obtain ⟨_, hmem⟩ := coordsInRange_spec s h rs re cs ce coords hok
  constructor
  · intro x hx
    obtain ⟨k, hk, hl⟩ := List.mem_filterMap.1 hx
    have hk' := (hmem (k.2, k.1)).1 (by simpa [swap] using hk)
    have hco := h.coord _ (lookup_some_mem hl)
    simp only at hco hk'
    rw [hco.1, hco.2]
    exact ⟨hl, hk'.2⟩
  · intro r c x hl h1 h2 h3 h4
    have hin : (r, c) ∈ keysOf s := lookup_isSome_iff.1 (by rw [hl]; rfl)
    have := (hmem (r, c)).2 ⟨hin, h1, h2, h3, h4⟩
    exact List.mem_filterMap.2 ⟨swap (r, c), this, hl⟩

theorem content_clear_step_hit (s : Sheet) (p : Key) (dr dc : Int) (r c : Nat)
    (h : (r, c) = p ∨ (r, c) = (((p.1 : Int) + dr).toNat, ((p.2 : Int) + dc).toNat)) :
    content (removeCell (removeCell s p.2 p.1) (((p.2 : Int) + dc).toNat) (((p.1 : Int) + dr).toNat)) r c = none := by
  rw [content_removeCell, content_removeCell]
  rcases h with e | e
  · have : (r, c) = (p.1, p.2) := e
    simp [this]
  · simp [e]

theorem content_clear_step_miss (s : Sheet) (p : Key) (dr dc : Int) (r c : Nat)
    (h : ¬ ((r, c) = p ∨ (r, c) = (((p.1 : Int) + dr).toNat, ((p.2 : Int) + dc).toNat))) :
    content (removeCell (removeCell s p.2 p.1) (((p.2 : Int) + dc).toNat) (((p.1 : Int) + dr).toNat)) r c = content s r c := by
  rw [content_removeCell, content_removeCell]
  have a : ¬ (r, c) = (p.1, p.2) := fun e => h (Or.inl e)
  have b : ¬ (r, c) = (((p.1 : Int) + dr).toNat, ((p.2 : Int) + dc).toNat) := fun e => h (Or.inr e)
  rw [if_neg b, if_neg a]

/-- content after the clean-up pass -/
theorem content_clearRect_hit (s : Sheet) (rs re cs ce : Nat) (dr dc : Int) (r c : Nat)
    (h : ∃ r0 c0, rs ≤ r0 ∧ r0 ≤ re ∧ cs ≤ c0 ∧ c0 ≤ ce ∧
      ((r, c) = (r0, c0) ∨ (r, c) = (((r0 : Int) + dr).toNat, ((c0 : Int) + dc).toNat))) :
    content (clearRect s rs re cs ce dr dc) r c = none := by
  obtain ⟨r0, c0, h1, h2, h3, h4, he⟩ := h
  unfold clearRect
  apply content_foldl_erase_hit _
    (fun p : Key => (r, c) = p ∨ (r, c) = (((p.1 : Int) + dr).toNat, ((p.2 : Int) + dc).toNat)) r c
  · intro s p hp; exact content_clear_step_hit s p dr dc r c hp
  · intro s p hp; exact content_clear_step_miss s p dr dc r c hp
  · exact ⟨(r0, c0), (mem_rectPositions _ _ _ _ _).2 ⟨h1, h2, h3, h4⟩, he⟩

theorem content_clearRect_miss (s : Sheet) (rs re cs ce : Nat) (dr dc : Int) (r c : Nat)
    (h : ∀ r0 c0, rs ≤ r0 → r0 ≤ re → cs ≤ c0 → c0 ≤ ce →
      ¬ ((r, c) = (r0, c0) ∨ (r, c) = (((r0 : Int) + dr).toNat, ((c0 : Int) + dc).toNat))) :
    content (clearRect s rs re cs ce dr dc) r c = content s r c := by
  unfold clearRect
  apply content_foldl_miss _
    (fun p : Key => (r, c) = p ∨ (r, c) = (((p.1 : Int) + dr).toNat, ((p.2 : Int) + dc).toNat)) r c
  · intro s p hp; exact content_clear_step_miss s p dr dc r c hp
  · intro p hp
    obtain ⟨a1, a2, a3, a4⟩ := (mem_rectPositions _ _ _ _ _).1 hp
    exact h p.1 p.2 a1 a2 a3 a4

/-- content after the paste pass, for copies that are cells of `s0` stored under their own coordinate -/
theorem content_paste_hit (s1 : Sheet) (copies : List CellM) (dr dc : Int) (r c : Nat) (x : CellM)
    (hx : x ∈ copies) (htx : (r, c) = (((x.row : Int) + dr).toNat, ((x.col : Int) + dc).toNat))
    (huniq : ∀ y ∈ copies, (r, c) = (((y.row : Int) + dr).toNat, ((y.col : Int) + dc).toNat) → (y.val, y.sty) = (x.val, x.sty)) :
    content (paste s1 copies dr dc) r c = some (x.val, x.sty) := by
  unfold paste
  -- writers of (r, c) that are members of `copies`: restrict the fold's step predicate to members by
  -- carrying the value agreement in the predicate
  have key : ∀ (l : List CellM) (s : Sheet),
      (∀ y ∈ l, (r, c) = (((y.row : Int) + dr).toNat, ((y.col : Int) + dc).toNat) → (y.val, y.sty) = (x.val, x.sty)) →
      (∃ y ∈ l, (r, c) = (((y.row : Int) + dr).toNat, ((y.col : Int) + dc).toNat)) →
      content (l.foldl (fun s c => setCell s (((c.col : Int) + dc).toNat) (((c.row : Int) + dr).toNat) c.val c.sty) s) r c
        = some (x.val, x.sty) := by
    intro l
    induction l with
    | nil => intro s _ h; simp at h
    | cons y ys ih =>
      intro s hu he
      simp only [List.foldl_cons]
      by_cases hys : ∃ z ∈ ys, (r, c) = (((z.row : Int) + dr).toNat, ((z.col : Int) + dc).toNat)
      · exact ih _ (fun z hz => hu z (List.mem_cons_of_mem _ hz)) hys
      · have hall : ∀ z ∈ ys, ¬ (r, c) = (((z.row : Int) + dr).toNat, ((z.col : Int) + dc).toNat) :=
          fun z hz e => hys ⟨z, hz, e⟩
        rw [content_foldl_miss _ (fun z : CellM => (r, c) = (((z.row : Int) + dr).toNat, ((z.col : Int) + dc).toNat)) r c
          (fun s z hz => by rw [content_setCell, if_neg hz]) ys _ hall]
        obtain ⟨z, hz, e⟩ := he
        rcases List.mem_cons.1 hz with e' | hz'
        · subst e'
          rw [content_setCell, if_pos e, hu z (List.mem_cons_self ..) e]
        · exact absurd e (hall z hz')
  exact key copies s1 huniq ⟨x, hx, htx⟩

theorem content_paste_miss (s1 : Sheet) (copies : List CellM) (dr dc : Int) (r c : Nat)
    (h : ∀ y ∈ copies, ¬ (r, c) = (((y.row : Int) + dr).toNat, ((y.col : Int) + dc).toNat)) :
    content (paste s1 copies dr dc) r c = content s1 r c := by
  unfold paste
  exact content_foldl_miss _ (fun z : CellM => (r, c) = (((z.row : Int) + dr).toNat, ((z.col : Int) + dc).toNat)) r c
    (fun s z hz => by rw [content_setCell, if_neg hz]) copies s1 h

end Umya.Sheet
