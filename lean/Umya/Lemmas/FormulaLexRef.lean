/-
  The text of a well-formed reference is classified as Range by pass 3: it is never accepted by
  `str::parse::<f64>` (`parseF64Ok`) and never equals TRUE / FALSE.  This discharges the conjunct
  `isRangeText r.text = true` of `LexOk` (`Umya/Lemmas/FormulaLexExpr.lean`).

  Helper lemmas for `Umya/Thm/C09LexWF.lean` / `Umya/Thm/C08LexWF.lean`.
-/
import Umya.Lemmas.FormulaLexExpr
import Umya.Lemmas.Coord
namespace Umya.Formula
open Umya.Coord Umya.Dec Umya.Spec

/-! ## decomposition of `parseF64Ok` -/

/-- the characters a decimal float literal consists of -/
def isNumCh (c : Char) : Bool := isDigit c || c == '.' || c == 'e' || c == 'E' || c == '+' || c == '-'

/-- the characters a decimal float literal can begin with -/
def headNum (c : Char) : Bool := isDigit c || c == '.' || c == '+' || c == '-'

/-- characters that occur in reference texts and in none of `nan` / `inf` / `infinity` / `TRUE` /
    `FALSE` in any case -/
def mark (c : Char) : Bool := isDigit c || c == '!' || c == ':' || c == '$'

def f64Special (t : List Char) : Bool :=
  t.map lowerAscii = "nan".toList || t.map lowerAscii = "inf".toList || t.map lowerAscii = "infinity".toList

def fracPart (r1 : List Char) : List Char × List Char :=
  match r1 with
  | '.' :: r1' => spanDigits r1'
  | _ => ([], r1)

def expOk (r2 : List Char) : Bool :=
  match r2 with
  | [] => true
  | e :: r3 =>
    if e = 'e' || e = 'E' then
      let r4 := match r3 with
        | sg :: r3' => if sg = '-' || sg = '+' then r3' else r3
        | [] => r3
      let (d, r5) := spanDigits r4
      !d.isEmpty && r5.isEmpty
    else false

def f64Body (t : List Char) : Bool :=
  if f64Special t then true else
  if (spanDigits t).1.length + (fracPart (spanDigits t).2).1.length = 0 then false else
  expOk (fracPart (spanDigits t).2).2

theorem parseF64Ok_cons (c : Char) (r : List Char) :
    parseF64Ok (c :: r) =
      (if (if c = '-' || c = '+' then r else c :: r) = [] then false
       else f64Body (if c = '-' || c = '+' then r else c :: r)) := by
  rfl

theorem mark_not_upper (x : Char) (h : mark x = true) : isUpperAZ x = false := by
  simp only [mark, Bool.or_eq_true, beq_iff_eq] at h
  rcases h with ((h | h) | h) | h
  · simp [isUpperAZ, isDigit] at *; omega
  · subst h; decide
  · subst h; decide
  · subst h; decide

theorem mark_not_lower (x : Char) (h : mark x = true) : isLowerAZ x = false := by
  simp only [mark, Bool.or_eq_true, beq_iff_eq] at h
  rcases h with ((h | h) | h) | h
  · simp [isLowerAZ, isDigit] at *; omega
  · subst h; decide
  · subst h; decide
  · subst h; decide

theorem special_no_mark (t : List Char) (h : f64Special t = true) : ∀ x ∈ t, mark x = false := by
  intro x hx
  cases hm : mark x with
  | false => rfl
  | true =>
    have hl : lowerAscii x = x := by simp [lowerAscii, mark_not_upper x hm]
    have hmem : lowerAscii x ∈ t.map lowerAscii := List.mem_map_of_mem hx
    rw [hl] at hmem
    simp only [f64Special, Bool.or_eq_true, decide_eq_true_eq] at h
    have hall0 : ∀ y ∈ "nan".toList ++ ("inf".toList ++ "infinity".toList), mark y = false := by decide
    have hall : ∀ y, (y ∈ "nan".toList ∨ y ∈ "inf".toList ∨ y ∈ "infinity".toList) → mark y = false := by
      intro y hy
      apply hall0 y
      rcases hy with hy | hy | hy
      · exact List.mem_append_left _ hy
      · exact List.mem_append_right _ (List.mem_append_left _ hy)
      · exact List.mem_append_right _ (List.mem_append_right _ hy)
    have : mark x = false := by
      rcases h with (h | h) | h <;> rw [h] at hmem
      · exact hall x (Or.inl hmem)
      · exact hall x (Or.inr (Or.inl hmem))
      · exact hall x (Or.inr (Or.inr hmem))
    rw [this] at hm; cases hm

theorem mem_tw (p : Char → Bool) : ∀ (l : List Char) (x : Char), x ∈ l.takeWhile p → p x = true := by
  intro l
  induction l with
  | nil => intro x hx; cases hx
  | cons a l ih =>
    intro x hx
    by_cases ha : p a = true
    · rw [List.takeWhile_cons_of_pos ha] at hx
      rcases List.mem_cons.1 hx with h | h
      · subst h; exact ha
      · exact ih x h
    · rw [List.takeWhile_cons_of_neg ha] at hx; cases hx

theorem mem_span (t : List Char) (x : Char) (hx : x ∈ t) : isNumCh x = true ∨ x ∈ (spanDigits t).2 := by
  have e := List.takeWhile_append_dropWhile (p := isDigit) (l := t)
  rw [← e] at hx
  rcases List.mem_append.1 hx with h | h
  · left
    have := mem_tw _ _ _ h
    simp [isNumCh, this]
  · right; exact h

theorem mem_frac (r1 : List Char) (x : Char) (hx : x ∈ r1) : isNumCh x = true ∨ x ∈ (fracPart r1).2 := by
  unfold fracPart
  split
  · rename_i r1'
    rcases List.mem_cons.1 hx with h | h
    · left; subst h; decide
    · exact mem_span r1' x h
  · right; exact hx

theorem expOk_num (r2 : List Char) (h : expOk r2 = true) : ∀ x ∈ r2, isNumCh x = true := by
  intro x hx
  cases r2 with
  | nil => cases hx
  | cons e r3 =>
    simp only [expOk] at h
    split at h
    · rename_i he
      rcases List.mem_cons.1 hx with hxe | hx3
      · subst hxe
        simp only [Bool.or_eq_true, decide_eq_true_eq] at he
        rcases he with he | he <;> subst he <;> decide
      · -- x ∈ r3
        simp only [spanDigits, Bool.and_eq_true, List.isEmpty_iff] at h
        have key : ∀ r4 : List Char, r4.dropWhile isDigit = [] → ∀ y ∈ r4, isNumCh y = true := by
          intro r4 h4 y hy
          have e := List.takeWhile_append_dropWhile (p := isDigit) (l := r4)
          rw [h4, List.append_nil] at e
          rw [← e] at hy
          have := mem_tw _ _ _ hy
          simp [isNumCh, this]
        cases r3 with
        | nil => cases hx3
        | cons sg r3' =>
          simp only at h
          split at h
          · rename_i hsg
            rcases List.mem_cons.1 hx3 with hs | hs
            · subst hs
              simp only [Bool.or_eq_true, decide_eq_true_eq] at hsg
              rcases hsg with hsg | hsg <;> subst hsg <;> decide
            · exact key _ h.2 x hs
          · exact key _ h.2 x hx3
    · cases h

theorem f64Body_shape (t : List Char) (h : f64Body t = true) :
    (∀ x ∈ t, mark x = false) ∨
      ((∀ x ∈ t, isNumCh x = true) ∧ ∀ c r, t = c :: r → (isDigit c = true ∨ c = '.')) := by
  unfold f64Body at h
  split at h
  · left; exact special_no_mark t (by assumption)
  · split at h
    · cases h
    · rename_i hlen
      right
      refine ⟨?_, ?_⟩
      · intro x hx
        rcases mem_span t x hx with h1 | h1
        · exact h1
        · rcases mem_frac _ x h1 with h2 | h2
          · exact h2
          · exact expOk_num _ h x h2
      · intro c r ht
        subst ht
        cases hd : isDigit c with
        | true => left; rfl
        | false =>
          right
          apply Classical.byContradiction
          intro hc
          apply hlen
          have h2 : (spanDigits (c :: r)).2 = c :: r := by simp [spanDigits, List.dropWhile, hd]
          have h1 : (spanDigits (c :: r)).1 = [] := by simp [spanDigits, List.takeWhile, hd]
          rw [h1, h2]
          have : fracPart (c :: r) = ([], c :: r) := by
            unfold fracPart
            split
            · rename_i heq; injection heq with heq _; exact absurd heq hc
            · rfl
          rw [this]; rfl

/-- **decomposition of `parseF64Ok`**: an accepted text either contains no digit / `!` / `:` / `$`
    at all (`nan`, `inf`, `infinity` with an optional sign), or begins with a digit, `.` or a sign
    and consists of digits, `.`, `e`, `E`, `+`, `-` only -/
theorem parseF64Ok_shape (c : Char) (r : List Char) (h : parseF64Ok (c :: r) = true) :
    (∀ x ∈ c :: r, mark x = false) ∨ (headNum c = true ∧ ∀ x ∈ c :: r, isNumCh x = true) := by
  rw [parseF64Ok_cons] at h
  by_cases hs : (c = '-' || c = '+') = true
  · rw [if_pos hs] at h
    split at h
    · cases h
    have hc : mark c = false ∧ headNum c = true ∧ isNumCh c = true := by
      simp only [Bool.or_eq_true, decide_eq_true_eq] at hs
      rcases hs with hs | hs <;> subst hs <;> decide
    rcases f64Body_shape r h with h1 | h1
    · left
      intro x hx
      rcases List.mem_cons.1 hx with hx | hx
      · subst hx; exact hc.1
      · exact h1 x hx
    · right
      refine ⟨hc.2.1, ?_⟩
      intro x hx
      rcases List.mem_cons.1 hx with hx | hx
      · subst hx; exact hc.2.2
      · exact h1.1 x hx
  · rw [if_neg hs] at h
    split at h
    · cases h
    rcases f64Body_shape (c :: r) h with h1 | h1
    · left; exact h1
    · right
      refine ⟨?_, h1.1⟩
      rcases h1.2 c r rfl with h2 | h2
      · simp [headNum, h2]
      · subst h2; decide

/-! ## texts that are never numbers / booleans -/

theorem not_bool_of_mark (t : List Char) (x : Char) (hx : x ∈ t) (hm : mark x = true) :
    eqUpper t "TRUE" = false ∧ eqUpper t "FALSE" = false := by
  have hu : upcase x = x := by simp [upcase, mark_not_lower x hm]
  have hmem : upcase x ∈ t.map upcase := List.mem_map_of_mem hx
  rw [hu] at hmem
  constructor
  · cases h : eqUpper t "TRUE" with
    | false => rfl
    | true =>
      simp only [eqUpper, decide_eq_true_eq] at h
      rw [h] at hmem; simp at hmem
      rcases hmem with hmem | hmem | hmem | hmem <;> subst hmem <;> exact absurd hm (by decide)
  · cases h : eqUpper t "FALSE" with
    | false => rfl
    | true =>
      simp only [eqUpper, decide_eq_true_eq] at h
      rw [h] at hmem; simp at hmem
      rcases hmem with hmem | hmem | hmem | hmem | hmem <;> subst hmem <;> exact absurd hm (by decide)

/-- a text that contains `!` or `:` is a Range operand -/
theorem isRangeText_of_sep (t : List Char) (x : Char) (hx : x ∈ t) (hsep : x = '!' ∨ x = ':') :
    isRangeText t = true := by
  have hm : mark x = true ∧ isNumCh x = false := by rcases hsep with h | h <;> subst h <;> decide
  have hb := not_bool_of_mark t x hx hm.1
  have hf : parseF64Ok t = false := by
    cases hp : parseF64Ok t with
    | false => rfl
    | true =>
      cases t with
      | nil => cases hx
      | cons c r =>
        rcases parseF64Ok_shape c r hp with h1 | h1
        · rw [h1 x hx] at hm; exact absurd hm.1 (by decide)
        · rw [h1.2 x hx] at hm; exact absurd hm.2 (by decide)
  simp [isRangeText, hf, hb.1, hb.2]

/-- a text that begins with `$` or a capital letter and contains a digit is a Range operand -/
theorem isRangeText_of_cell (c : Char) (r : List Char) (hc : c = '$' ∨ isUpperAZ c = true)
    (x : Char) (hx : x ∈ c :: r) (hd : isDigit x = true) : isRangeText (c :: r) = true := by
  have hm : mark x = true := by simp [mark, hd]
  have hb := not_bool_of_mark (c :: r) x hx hm
  have hh : headNum c = false := by
    rcases hc with hc | hc
    · subst hc; decide
    · have h1 : isDigit c = false := by simp [isUpperAZ, isDigit] at *; omega
      have h2 : c ≠ '.' := by rintro rfl; exact absurd hc (by decide)
      have h3 : c ≠ '+' := by rintro rfl; exact absurd hc (by decide)
      have h4 : c ≠ '-' := by rintro rfl; exact absurd hc (by decide)
      simp [headNum, h1, h2, h3, h4]
  have hf : parseF64Ok (c :: r) = false := by
    cases hp : parseF64Ok (c :: r) with
    | false => rfl
    | true =>
      rcases parseF64Ok_shape c r hp with h1 | h1
      · rw [h1 x hx] at hm; cases hm
      · rw [h1.1] at hh; cases hh
  simp [isRangeText, hf, hb.1, hb.2]

/-! ## reference texts -/

theorem qual_text_bang (q : Qual) : '!' ∈ q.text := by
  unfold Qual.text
  split <;> simp

/-- **the text of a well-formed reference is a Range operand**: cell, range, whole columns, whole
    rows, any `$` flags, no / plain / quoted sheet qualifier -/
theorem isRangeText_of_WF (r : CRef) (h : r.WF) : isRangeText r.text = true := by
  obtain ⟨s, a⟩ := r
  cases s with
  | some q =>
    apply isRangeText_of_sep _ '!' _ (Or.inl rfl)
    simp only [CRef.text]
    exact List.mem_append_left _ (qual_text_bang q)
  | none =>
    simp only [CRef.text, List.nil_append]
    cases a with
    | two k1 k2 =>
      apply isRangeText_of_sep _ ':' _ (Or.inr rfl)
      simp [Area.text]
    | one k =>
      obtain ⟨kc, kr⟩ := k
      have hw := h.1
      simp only [Area.WF] at hw
      cases kc with
      | none => exact absurd hw.1 (by simp)
      | some cr =>
        cases kr with
        | none => exact absurd hw.2.1 (by simp)
        | some rr =>
          simp only [Area.text, Corner.text, optText, colRefText, rowRefText]
          obtain ⟨d, dr, hdd, hdig⟩ := decDigits_head rr.num
          obtain ⟨l, lr, hll, hup⟩ := indexToAlpha_head cr.num
          rw [hdd, hll]
          cases hcl : cr.lock <;> cases hrl : rr.lock <;>
            simp only [if_true, if_false, Bool.false_eq_true, List.nil_append, List.cons_append]
          · exact isRangeText_of_cell l _ (Or.inr hup) d (by simp) hdig
          · exact isRangeText_of_cell l _ (Or.inr hup) d (by simp) hdig
          · exact isRangeText_of_cell '$' _ (Or.inl rfl) d (by simp) hdig
          · exact isRangeText_of_cell '$' _ (Or.inl rfl) d (by simp) hdig

/-! ## `LexOk` with well-formedness instead of the Range hypothesis -/

mutual
  /-- `LexOk` with `r.WF` on the references instead of `isRangeText r.text = true` -/
  def LexOk' : Expr → Prop
    | .num t => t ≠ [] ∧ ordText t = true ∧ parseF64Ok t = true
    | .str _ => True
    | .bool _ => True
    | .err _ => True
    | .name n => n ≠ [] ∧ ordText n = true ∧ isRangeText n = true
    | .ref r => RefLexOk r ∧ r.WF
    | .opaque _ => False
    | .array _ => False
    | .neg e => LexOk' e
    | .pos e => LexOk' e
    | .pct e => LexOk' e
    | .bin _ a b => LexOk' a ∧ LexOk' b
    | .isect _ _ => False
    | .union es => LexOkA' es
    | .paren e => LexOk' e
    | .call f as => (f ≠ [] ∧ ordText f = true ∧ f.head? ≠ some '@') ∧ LexOkA' as
  def LexOkA' : Args → Prop
    | .nil => True
    | .cons e rest => LexOk' e ∧ LexOkA' rest
    | .skip rest => LexOkA' rest
end

mutual
  theorem lexOk_of_wf (e : Expr) (h : LexOk' e) : LexOk e := by
    match e, h with
    | .num _, h => exact h
    | .str _, _ => trivial
    | .bool _, _ => trivial
    | .err _, _ => trivial
    | .name _, h => exact h
    | .ref r, h => exact ⟨h.1, isRangeText_of_WF r h.2⟩
    | .opaque _, h => exact absurd h (by simp [LexOk'])
    | .array _, h => exact absurd h (by simp [LexOk'])
    | .isect _ _, h => exact absurd h (by simp [LexOk'])
    | .neg e, h => simp only [LexOk]; exact lexOk_of_wf e h
    | .pos e, h => simp only [LexOk]; exact lexOk_of_wf e h
    | .pct e, h => simp only [LexOk]; exact lexOk_of_wf e h
    | .paren e, h => simp only [LexOk]; exact lexOk_of_wf e h
    | .bin _ a b, h => simp only [LexOk]; exact ⟨lexOk_of_wf a h.1, lexOk_of_wf b h.2⟩
    | .union es, h => simp only [LexOk]; exact lexOkA_of_wf es h
    | .call f as, h => simp only [LexOk]; exact ⟨h.1, lexOkA_of_wf as h.2⟩
  theorem lexOkA_of_wf (as : Args) (h : LexOkA' as) : LexOkA as := by
    match as, h with
    | .nil, _ => trivial
    | .cons e rest, h => simp only [LexOkA]; exact ⟨lexOk_of_wf e h.1, lexOkA_of_wf rest h.2⟩
    | .skip rest, h => simp only [LexOkA]; exact lexOkA_of_wf rest h
end

end Umya.Formula
