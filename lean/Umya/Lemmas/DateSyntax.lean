/-
  A SYNTACTIC class of date-format codes that `format_as_date` reads the way the tokens mean (C18 display).

  `format_as_date` turns a code into a strftime string by 21 + 2 successive `str::replace` passes over the
  WHOLE text.  None of the `from` patterns contains `-`, `,` or blank, so no match of any pass can straddle
  one of these characters: every pass, hence the whole pipeline, acts on the pieces between them
  independently (`replaceAll_split`, `apply_split`, by induction over the scanner of `replaceAll`).  The
  pieces ("words") are taken from a vocabulary described by a generator (`vocab`): a field alone; hour `:`
  minutes [`:` seconds]; minutes `:` seconds; two or three of year / month / day, each at most once, joined by `/` or
  by `.`.  The words of the vocabulary (≈ 180 per clock mode) are validated once, by kernel evaluation of the
  tables on each word (`vocab_ok`); arbitrary many words joined by `-` `,` blank follow by induction.

  `simpleSyntax toks` itself evaluates no replacement table: it splits the list at the tokens `-` `,` blank,
  looks every piece up in `vocab`, and wants one field token at least.  The clock mode is global, as in the
  code: with an `AM/PM` token the hour tokens must be `h12` / `hh12`, without one `h` / `hh`.

  Core Lean only.
-/
import Umya.Lemmas.DateDisplay
namespace Umya.Lemmas.DateSyntax
open Umya.Date Umya.Lemmas.DateDisplay

/-! ## `str::replace` does not see across a character that is not in the pattern -/

theorem startsWith_split (c : Char) (b : List Char) : ∀ (a p : List Char), p.contains c = false →
    startsWith (a ++ c :: b) p = startsWith a p
  | [], [], _ => by simp [startsWith]
  | [], q :: p, h => by
    simp only [List.contains_cons, Bool.or_eq_false_iff] at h
    simp [startsWith, h.1]
  | x :: a, [], _ => by simp [startsWith]
  | x :: a, q :: p, h => by
    simp only [List.contains_cons, Bool.or_eq_false_iff] at h
    simp only [List.cons_append, startsWith]
    rw [startsWith_split c b a p h.2]

theorem startsWith_length : ∀ (s p : List Char), startsWith s p = true → p.length ≤ s.length
  | _, [], _ => by simp
  | [], _ :: _, h => by simp [startsWith] at h
  | a :: s, b :: p, h => by
    simp only [startsWith, Bool.and_eq_true] at h
    have := startsWith_length s p h.2
    simp only [List.length_cons]; omega

theorem go_nil (f t : List Char) (fuel : Nat) : replaceAll.go f t [] fuel = [] := by
  cases fuel <;> simp [replaceAll.go]

/-- the scanner's fuel does not matter once it covers the text -/
theorem go_fuel (f t : List Char) : ∀ (fuel₁ fuel₂ : Nat) (s : List Char), s.length ≤ fuel₁ → s.length ≤ fuel₂ →
    replaceAll.go f t s fuel₁ = replaceAll.go f t s fuel₂ := by
  intro fuel₁
  induction fuel₁ with
  | zero =>
    intro fuel₂ s h1 _
    have : s = [] := List.eq_nil_of_length_eq_zero (by omega)
    subst this; simp [go_nil]
  | succ n ih =>
    intro fuel₂ s h1 h2
    cases s with
    | nil => simp [go_nil]
    | cons c r =>
      obtain ⟨m, rfl⟩ : ∃ m, fuel₂ = m + 1 := ⟨fuel₂ - 1, by simp only [List.length_cons] at h2; omega⟩
      simp only [List.length_cons] at h1 h2
      simp only [replaceAll.go]
      split
      · rename_i hm
        cases f with
        | nil => simp at hm
        | cons q f' =>
          congr 1
          apply ih <;> simp only [List.length_drop, List.length_cons] <;> omega
      · congr 1
        exact ih m r (by omega) (by omega)

theorem go_split (f t : List Char) (c : Char) (b : List Char) (hc : f.contains c = false) :
    ∀ (fuel : Nat) (a : List Char), a.length + 1 + b.length ≤ fuel →
      replaceAll.go f t (a ++ c :: b) fuel = replaceAll.go f t a fuel ++ c :: replaceAll.go f t b fuel := by
  intro fuel
  induction fuel with
  | zero => intro a h; omega
  | succ n ih =>
    intro a h
    have hb : replaceAll.go f t b (n + 1) = replaceAll.go f t b n := go_fuel f t _ _ b (by omega) (by omega)
    cases a with
    | nil =>
      cases f with
      | nil => simp [replaceAll.go, hb]
      | cons q f' =>
        simp only [List.contains_cons, Bool.or_eq_false_iff] at hc
        simp [replaceAll.go, startsWith, hc.1, hb]
    | cons x a' =>
      have hs := startsWith_split c b (x :: a') f hc
      simp only [List.cons_append] at hs
      simp only [List.length_cons] at h
      by_cases hm : (!f.isEmpty && startsWith (x :: a') f) = true
      · have hlen : f.length ≤ (x :: a').length := by
          simp only [Bool.and_eq_true] at hm
          exact startsWith_length _ _ hm.2
        have hpos : 1 ≤ f.length := by
          cases f with
          | nil => simp at hm
          | cons q f' => simp
        have hd : List.drop f.length (x :: (a' ++ c :: b)) = List.drop f.length (x :: a') ++ c :: b := by
          rw [← List.cons_append, List.drop_append_of_le_length hlen]
        simp only [List.cons_append, replaceAll.go, hs, hm, if_true, hd]
        rw [ih (List.drop f.length (x :: a'))
          (by simp only [List.length_drop, List.length_cons] at hlen ⊢; omega), hb, List.append_assoc]
      · simp only [List.cons_append, replaceAll.go, hs, hm]
        rw [ih a' (by omega), hb]
        simp

/-- **one pass** -/
theorem replaceAll_split (f t : List Char) (c : Char) (a b : List Char) (hc : f.contains c = false) :
    replaceAll (a ++ c :: b) f t = replaceAll a f t ++ c :: replaceAll b f t := by
  unfold replaceAll
  rw [go_split f t c b hc _ a (by simp only [List.length_append, List.length_cons]; omega)]
  rw [go_fuel f t _ a.length a (by simp only [List.length_append, List.length_cons]; omega) (Nat.le_refl _),
    go_fuel f t _ b.length b (by simp only [List.length_append, List.length_cons]; omega) (Nat.le_refl _)]

/-- no `from` pattern of the table contains `c` -/
def tblAvoids (tbl : List (String × String)) (c : Char) : Bool := tbl.all fun p => !p.1.toList.contains c

theorem applyReplacements_cons (p : String × String) (rest : List (String × String)) (s : List Char) :
    applyReplacements (p :: rest) s = applyReplacements rest (replaceAll s p.1.toList p.2.toList) := rfl

/-- **a whole table of passes** -/
theorem apply_split (c : Char) : ∀ (tbl : List (String × String)), tblAvoids tbl c = true → ∀ a b : List Char,
    applyReplacements tbl (a ++ c :: b) = applyReplacements tbl a ++ c :: applyReplacements tbl b := by
  intro tbl
  induction tbl with
  | nil => intro _ a b; rfl
  | cons p rest ih =>
    intro hc a b
    simp only [tblAvoids, List.all_cons, Bool.and_eq_true, Bool.not_eq_true'] at hc
    rw [applyReplacements_cons, applyReplacements_cons, applyReplacements_cons, replaceAll_split _ _ c a b hc.1]
    exact ih (by simpa [tblAvoids] using hc.2) _ _

theorem contains_split (p : List Char) (c : Char) (b : List Char) (hc : p.contains c = false) (hp : p ≠ []) :
    ∀ a : List Char, Umya.Date.contains (a ++ c :: b) p = (Umya.Date.contains a p || Umya.Date.contains b p)
  | [] => by
    obtain ⟨q, p', rfl⟩ := List.exists_cons_of_ne_nil hp
    simp only [List.contains_cons, Bool.or_eq_false_iff] at hc
    simp [Umya.Date.contains, startsWith, hc.1]
  | x :: a => by
    have hs := startsWith_split c b (x :: a) p hc
    simp only [List.cons_append] at hs
    simp only [List.cons_append, Umya.Date.contains, hs, contains_split p c b hc hp a, Bool.or_assoc]

/-! ## the syntax -/

/-- the separators at which a code falls into independent words -/
def isMajor (c : Char) : Bool := c == '-' || c == ',' || c == ' '

def yearToks : List Tok := [.yyyy, .yy]
def monthToks : List Tok := [.mmmm, .mmm, .mm, .m]
def dayToks : List Tok := [.dd, .d]
/-- hour tokens of the clock mode (`pm` = the code has an `AM/PM` marker) -/
def hourToks (pm : Bool) : List Tok := if pm then [.h12, .hh12] else [.h, .hh]

def join2 (c : Char) (a b : List Tok) : List (List Tok) := a.flatMap fun x => b.map fun y => [x, .lit c, y]
def join3 (c : Char) (a b d : List Tok) : List (List Tok) :=
  a.flatMap fun x => b.flatMap fun y => d.map fun z => [x, .lit c, y, .lit c, z]

/-- the words: nothing; a field alone; `h:mm`, `h:mm:ss` (`mm` = minutes), `mm:ss` (minutes); year / month /
    day, two or three of them, each kind once, joined by `/` or by `.` (`mm` = month) -/
def vocab (pm : Bool) : List (List Tok) :=
  [[]] ++ (yearToks ++ monthToks ++ dayToks ++ ([.dddd, .ddd, .ss] : List Tok) ++ hourToks pm).map (fun t => [t])
  ++ (if pm then [[.ampm]] else [])
  ++ (hourToks pm).flatMap (fun hr => [[hr, .lit ':', .mi], [hr, .lit ':', .mi, .lit ':', .ss]])
  ++ [[.mi, .lit ':', .ss]]
  ++ ['/', '.'].flatMap (fun c =>
       join2 c yearToks monthToks ++ join2 c monthToks yearToks ++ join2 c monthToks dayToks
       ++ join2 c dayToks monthToks ++ join3 c yearToks monthToks dayToks ++ join3 c dayToks monthToks yearToks
       ++ join3 c monthToks dayToks yearToks)

/-- words of the vocabulary joined by `-` `,` blank -/
inductive Syn (pm : Bool) : List Tok → Prop
  | word (w : List Tok) : w ∈ vocab pm → Syn pm w
  | cons (w : List Tok) (c : Char) (rest : List Tok) : w ∈ vocab pm → isMajor c = true → Syn pm rest →
      Syn pm (w ++ .lit c :: rest)

/-- the decision procedure for `Syn` (fuel = number of tokens + 1) -/
def synB (pm : Bool) : Nat → List Tok → Bool
  | 0, _ => false
  | fuel + 1, toks => (vocab pm).any fun w => toks == w || (w.isPrefixOf toks &&
      match toks.drop w.length with
      | .lit c :: rest => isMajor c && synB pm fuel rest
      | _ => false)

/-- year, month, day, weekday, hour, minute, second tokens -/
def isField : Tok → Bool
  | .lit _ => false
  | .ampm => false
  | _ => true

/-- **the syntactic criterion** (no replacement table is evaluated) -/
def simpleSyntax (toks : List Tok) : Bool :=
  toks.any isField && synB (toks.contains .ampm) (toks.length + 1) toks

theorem synB_sound (pm : Bool) : ∀ (fuel : Nat) (toks : List Tok), synB pm fuel toks = true → Syn pm toks := by
  intro fuel
  induction fuel with
  | zero => intro toks h; simp [synB] at h
  | succ n ih =>
    intro toks h
    simp only [synB, List.any_eq_true] at h
    obtain ⟨w, hw, h⟩ := h
    simp only [Bool.or_eq_true, Bool.and_eq_true, beq_iff_eq] at h
    rcases h with h | ⟨hp, h⟩
    · subst h; exact Syn.word _ hw
    · have e := List.prefix_iff_eq_append.1 (List.isPrefixOf_iff_prefix.1 hp)
      generalize List.drop w.length toks = d at h e
      cases d with
      | nil => simp at h
      | cons t rest =>
        cases t with
        | lit c =>
          simp only [Bool.and_eq_true] at h
          rw [← e]; exact Syn.cons w c rest hw h.1 (ih rest h.2)
        | _ => simp at h

/-! ## the words, validated once; the induction over the separators -/

def tblFor (pm : Bool) : List (String × String) := if pm then dateReplacements12 else dateReplacements24
def low (toks : List Tok) : List Char := (codeText toks).map lowerAscii
/-- the text after the passes of `DATE_FORMAT_REPLACEMENTS` -/
def phase1 (toks : List Tok) : List Char := applyReplacements dateReplacements (low toks)

def wordOK (pm : Bool) (w : List Tok) : Bool :=
  w.all Tok.ok && decide (applyReplacements (tblFor pm) (phase1 w) = codeSf w) &&
    (Umya.Date.contains (phase1 w) "%P".toList == w.contains .ampm)

/-- every word of the vocabulary, alone, is read by the tables as its tokens mean (kernel evaluation, finite) -/
theorem vocab_ok : ∀ pm : Bool, (vocab pm).all (wordOK pm) = true := by decide +kernel

structure Facts (pm : Bool) (toks : List Tok) : Prop where
  ok : toks.all Tok.ok = true
  sf : applyReplacements (tblFor pm) (phase1 toks) = codeSf toks
  pc : Umya.Date.contains (phase1 toks) "%P".toList = toks.contains .ampm

theorem facts_of_vocab (pm : Bool) (w : List Tok) (hw : w ∈ vocab pm) : Facts pm w := by
  have h := List.all_eq_true.1 (vocab_ok pm) w hw
  simp only [wordOK, Bool.and_eq_true, decide_eq_true_eq, beq_iff_eq] at h
  exact ⟨h.1.1, h.1.2, h.2⟩

theorem major_cases (c : Char) (h : isMajor c = true) : c = '-' ∨ c = ',' ∨ c = ' ' := by
  simp only [isMajor, Bool.or_eq_true, beq_iff_eq] at h
  rcases h with (h | h) | h
  · exact Or.inl h
  · exact Or.inr (Or.inl h)
  · exact Or.inr (Or.inr h)

theorem low_split (w rest : List Tok) (c : Char) (hc : lowerAscii c = c) :
    low (w ++ .lit c :: rest) = low w ++ c :: low rest := by
  simp [low, codeText, tokText, hc]

theorem codeSf_split (w rest : List Tok) (c : Char) :
    codeSf (w ++ .lit c :: rest) = codeSf w ++ c :: codeSf rest := by
  simp [codeSf, tokSf]

theorem syn_facts (pm : Bool) (toks : List Tok) (h : Syn pm toks) : Facts pm toks := by
  induction h with
  | word w hw => exact facts_of_vocab pm w hw
  | cons w c rest hw hc _ ih =>
    have fw := facts_of_vocab pm w hw
    have a1 : lowerAscii c = c ∧ tblAvoids dateReplacements c = true ∧ tblAvoids (tblFor pm) c = true ∧
        "%P".toList.contains c = false := by
      rcases major_cases c hc with e | e | e <;> subst e <;> cases pm <;> decide
    have e1 : phase1 (w ++ .lit c :: rest) = phase1 w ++ c :: phase1 rest := by
      unfold phase1
      rw [low_split w rest c a1.1, apply_split c _ a1.2.1]
    refine ⟨?_, ?_, ?_⟩
    · simp only [List.all_append, List.all_cons, Bool.and_eq_true]
      refine ⟨fw.ok, ?_, ih.ok⟩
      rcases major_cases c hc with e | e | e <;> subst e <;> decide
    · rw [e1, apply_split c _ a1.2.2.1, fw.sf, ih.sf, codeSf_split]
    · rw [e1, contains_split _ c _ a1.2.2.2 (by decide), fw.pc, ih.pc]
      simp

/-! ## the guard of `strftimeOf` -/

theorem tok_chars (t : Tok) (h : t.ok = true) :
    (tokText t).all fmtCharOk = true ∧ (tokText t).all (· != 'G') = true := by
  cases t with
  | lit c =>
    simp only [Tok.ok, isSep, Bool.or_eq_true, beq_iff_eq] at h
    rcases h with ((((e | e) | e) | e) | e) | e <;> subst e <;> decide
  | _ => decide

theorem field_chars (t : Tok) (h : isField t = true) :
    (tokText t).any (fun c => c == 'h' || c == 'm' || c == 's' || c == 'd' || c == 'y') = true := by
  cases t with
  | lit c => simp [isField] at h
  | ampm => simp [isField] at h
  | _ => decide

theorem guard_ok (toks : List Tok) (hok : toks.all Tok.ok = true) (hf : toks.any isField = true) :
    ((codeText toks).all fmtCharOk && isDateFormat (codeText toks) && (codeText toks != "General".toList)) = true := by
  have g1 : (codeText toks).all fmtCharOk = true := by
    unfold codeText; rw [List.all_flatMap, List.all_eq_true]
    intro t ht; exact (tok_chars t (List.all_eq_true.1 hok t ht)).1
  have g3 : (codeText toks).all (· != 'G') = true := by
    unfold codeText; rw [List.all_flatMap, List.all_eq_true]
    intro t ht; exact (tok_chars t (List.all_eq_true.1 hok t ht)).2
  have g2 : isDateFormat (codeText toks) = true := by
    unfold isDateFormat codeText; rw [List.any_flatMap, List.any_eq_true]
    obtain ⟨t, ht, hft⟩ := List.any_eq_true.1 hf
    exact ⟨t, ht, field_chars t hft⟩
  have g4 : (codeText toks != "General".toList) = true := by
    rw [bne_iff_ne]; intro e; rw [e] at g3; exact absurd g3 (by decide)
  rw [g1, g2, g4]; rfl

/-- **soundness of the syntactic criterion**: the replacement pipeline of `format_as_date` turns the text
    of the list into the token-by-token specifiers -/
theorem simpleSyntax_sound (toks : List Tok) (h : simpleSyntax toks = true) : simpleCode toks = true := by
  unfold simpleSyntax at h
  simp only [Bool.and_eq_true] at h
  have f := syn_facts _ toks (synB_sound _ _ toks h.2)
  unfold simpleCode
  simp only [Bool.and_eq_true, decide_eq_true_eq]
  refine ⟨f.ok, ?_⟩
  unfold strftimeOf
  rw [if_pos (guard_ok toks f.ok h.1)]
  have hp : Umya.Date.contains (applyReplacements dateReplacements ((codeText toks).map lowerAscii)) "%P".toList =
      toks.contains .ampm := f.pc
  have hs := f.sf
  unfold phase1 low at hs
  simp only [hp]
  cases hpm : toks.contains Tok.ampm
  · rw [hpm] at hs; simpa [tblFor] using hs
  · rw [hpm] at hs; simpa [tblFor] using hs

end Umya.Lemmas.DateSyntax
