/-
  Defined names follow the sheet they refer to: the model of the repaired fan-out
  (`Umya/Model/NameShift.lean`) against the reference shifter of `Umya/Spec/Refs.lean`.
-/
import Umya.Model.NameShift
import Umya.Spec.Refs
import Umya.Lemmas.Formula
namespace Umya.NameShift
open Umya.Coord Umya.Annot Umya.Formula

theorem mapRes_pointwise {α β} (f : α → Res β) (g : α → β) (l : List α)
    (h : ∀ a ∈ l, f a = .ok (g a)) : mapRes f l = .ok (l.map g) := by
  induction l with
  | nil => rfl
  | cons a rest ih =>
    simp only [mapRes, h a (List.mem_cons_self ..), ih (fun x hx => h x (List.mem_cons_of_mem _ hx)),
      List.map]

theorem rejectRes_pointwise {α} (p : α → Res Bool) (q : α → Bool) (l : List α)
    (h : ∀ a ∈ l, p a = .ok (q a)) : rejectRes p l = .ok (l.filter (fun a => !q a)) := by
  induction l with
  | nil => rfl
  | cons a rest ih =>
    simp only [rejectRes, h a (List.mem_cons_self ..), ih (fun x hx => h x (List.mem_cons_of_mem _ hx))]
    cases hq : q a <;> simp [List.filter, hq]

/-! ### the kernels against the reference arithmetic -/

theorem insRef_spec (r : Ref) (root off : Nat) (h : r.num + off ≤ 4294967295) :
    insRef r root off = .ok ⟨Spec.insNum r.num root off, r.lock⟩ := by
  unfold insRef insertCoordinate Spec.insNum u32Max
  by_cases h1 : r.num ≥ root <;> by_cases h2 : off = 0
  · subst h2; simp [h1]
  · have : ¬ r.num + off > 4294967295 := by omega
    simp [h1, h2, this]
  · subst h2; simp [h1]
  · simp [h1, h2]

theorem insRef_zero (r : Ref) : insRef r 0 0 = .ok r := by
  simp [insRef, insertCoordinate]

theorem isRemove_spec (num at_ n : Nat) (h1 : 1 ≤ at_) (hn : n ≠ 0) (ho : at_ + n ≤ 4294967295) :
    isRemoveCoordinate num at_ n = .ok (Spec.inBand num at_ n) := by
  unfold isRemoveCoordinate Spec.inBand u32Max
  have h0 : at_ ≠ 0 := by omega
  have h3 : ¬ at_ + n > 4294967295 := by omega
  by_cases h : num ≥ at_
  · simp [h0, hn, h, h3]
  · have : ¬ at_ ≤ num := h
    simp [h0, hn, h, this]

theorem isRemove_zero (num : Nat) : isRemoveCoordinate num 0 0 = .ok false := by
  simp [isRemoveCoordinate]

/-- what the reference shifter makes of one part on the edited axis -/
def remPart (isStart : Bool) (r : Ref) (at_ n : Nat) : Ref :=
  ⟨if Spec.inBand r.num at_ n then (if isStart then at_ else at_ - 1) else Spec.remNum r.num at_ n, r.lock⟩

theorem remRef_spec (isStart : Bool) (r : Ref) (at_ n : Nat) (h1 : 1 ≤ at_) (hn : n ≠ 0)
    (ho : at_ + n ≤ 4294967295) : remRef isStart r at_ n = .ok (remPart isStart r at_ n) := by
  unfold remRef remPart
  rw [isRemove_spec r.num at_ n h1 hn ho]
  cases hb : Spec.inBand r.num at_ n with
  | true => simp
  | false =>
    simp only [Bool.false_eq_true, if_false]
    unfold removeCoordinate Spec.remNum
    simp only [Spec.inBand, Bool.and_eq_false_iff, decide_eq_false_iff_not] at hb
    by_cases h : r.num ≥ at_
    · have h2 : r.num ≥ at_ + n := by
        rcases hb with hb | hb
        · exact absurd h hb
        · omega
      have h3 : ¬ n > r.num := by omega
      simp [h, hn, h2, h3]
    · have h2 : ¬ r.num ≥ at_ + n := by omega
      simp [h, h2]

theorem remRef_zero (isStart : Bool) (r : Ref) : remRef isStart r 0 0 = .ok r := by
  simp [remRef, isRemoveCoordinate, removeCoordinate]

theorem optR_pointwise (f : Ref → Res Ref) (g : Ref → Ref) (p : Option Ref) (h : ∀ r, p = some r → f r = .ok (g r)) :
    optR f p = .ok (p.map g) := by
  cases p with
  | none => rfl
  | some r => simp [optR, h r rfl]

/-! ### `Range` -/

/-- no part is pushed beyond `u32` by an insert of `n` lines (every grid coordinate qualifies) -/
def RangeFits (ρ : Range) (n : Nat) : Prop :=
  ∀ r, (ρ.startCol = some r ∨ ρ.startRow = some r ∨ ρ.endCol = some r ∨ ρ.endRow = some r) →
    r.num + n ≤ 4294967295

theorem rangeInsert_spec (ρ : Range) (ax : Spec.Axis) (at_ n : Nat) (hf : RangeFits ρ n) :
    rangeInsert ρ (axisArgs ax at_ n).1 (axisArgs ax at_ n).2.1 (axisArgs ax at_ n).2.2.1 (axisArgs ax at_ n).2.2.2
      = .ok (Spec.shiftRangeInsert ρ ax at_ n) := by
  obtain ⟨sc, sr, ec, er⟩ := ρ
  have id0 : ∀ p : Option Ref, optR (fun r => insRef r 0 0) p = .ok p := by
    intro p; cases p <;> simp [optR, insRef_zero]
  cases ax with
  | col =>
    have h1 := optR_pointwise (fun r => insRef r at_ n) (fun r => ⟨Spec.insNum r.num at_ n, r.lock⟩) sc
      (fun r hr => insRef_spec r at_ n (hf r (Or.inl hr)))
    have h2 := optR_pointwise (fun r => insRef r at_ n) (fun r => ⟨Spec.insNum r.num at_ n, r.lock⟩) ec
      (fun r hr => insRef_spec r at_ n (hf r (Or.inr (Or.inr (Or.inl hr)))))
    simp [rangeInsert, axisArgs, h1, h2, id0, Res.bind, Spec.shiftRangeInsert, Spec.insOpt]
  | row =>
    have h1 := optR_pointwise (fun r => insRef r at_ n) (fun r => ⟨Spec.insNum r.num at_ n, r.lock⟩) sr
      (fun r hr => insRef_spec r at_ n (hf r (Or.inr (Or.inl hr))))
    have h2 := optR_pointwise (fun r => insRef r at_ n) (fun r => ⟨Spec.insNum r.num at_ n, r.lock⟩) er
      (fun r hr => insRef_spec r at_ n (hf r (Or.inr (Or.inr (Or.inr hr)))))
    simp [rangeInsert, axisArgs, h1, h2, id0, Res.bind, Spec.shiftRangeInsert, Spec.insOpt]

/-- a range has an end part on an axis only when it has a start part there (`A1`, `A1:B2`) -/
def StartFirst (ρ : Range) : Prop := (ρ.endCol.isSome → ρ.startCol.isSome) ∧ (ρ.endRow.isSome → ρ.startRow.isSome)

theorem axisInside_zero (s e : Option Ref) : axisInside s e 0 0 = .ok false := by
  cases s <;> cases e <;> simp [axisInside, isRemove_zero, Res.bind]

theorem axisInside_spec (s e : Option Ref) (at_ n : Nat) (h1 : 1 ≤ at_) (hn : n ≠ 0)
    (ho : at_ + n ≤ 4294967295) (hsf : e.isSome → s.isSome) :
    axisInside s e at_ n = .ok (Spec.remAxis s e at_ n).isNone := by
  cases s with
  | none =>
    cases e with
    | none => simp [axisInside, Spec.remAxis]
    | some y => simp at hsf
  | some x =>
    cases e with
    | none =>
      simp only [axisInside, Spec.remAxis, isRemove_spec x.num at_ n h1 hn ho]
      cases Spec.inBand x.num at_ n <;> simp
    | some y =>
      simp only [axisInside, Spec.remAxis, isRemove_spec x.num at_ n h1 hn ho,
        isRemove_spec y.num at_ n h1 hn ho, Res.bind]
      cases Spec.inBand x.num at_ n <;> cases Spec.inBand y.num at_ n <;> simp

theorem remAxis_parts (s e : Option Ref) (at_ n : Nat) (c : Option Ref × Option Ref)
    (h : Spec.remAxis s e at_ n = some c) (hsf : e.isSome → s.isSome) :
    c = (s.map (fun r => remPart true r at_ n), e.map (fun r => remPart false r at_ n)) := by
  cases s with
  | none =>
    cases e with
    | none => simp [Spec.remAxis] at h; subst h; rfl
    | some y => simp at hsf
  | some x =>
    cases e with
    | none =>
      simp only [Spec.remAxis] at h
      cases hb : Spec.inBand x.num at_ n with
      | true => simp [hb] at h
      | false => simp [hb] at h; subst h; simp [remPart, hb]
    | some y =>
      simp only [Spec.remAxis] at h
      cases hx : Spec.inBand x.num at_ n <;> cases hy : Spec.inBand y.num at_ n <;>
        simp [hx, hy] at h <;> subst h <;> simp [remPart, hx, hy]

theorem rangeIsRemove_spec (ρ : Range) (ax : Spec.Axis) (at_ n : Nat) (h1 : 1 ≤ at_) (hn : n ≠ 0)
    (ho : at_ + n ≤ 4294967295) (hsf : StartFirst ρ) :
    rangeIsRemove ρ (axisArgs ax at_ n).1 (axisArgs ax at_ n).2.1 (axisArgs ax at_ n).2.2.1 (axisArgs ax at_ n).2.2.2
      = .ok (Spec.shiftRangeRemove ρ ax at_ n).isNone := by
  cases ax with
  | col =>
    simp only [rangeIsRemove, axisArgs, axisInside_spec _ _ at_ n h1 hn ho hsf.1, axisInside_zero, Res.bind,
      Spec.shiftRangeRemove]
    cases Spec.remAxis ρ.startCol ρ.endCol at_ n <;> simp
  | row =>
    simp only [rangeIsRemove, axisArgs, axisInside_spec _ _ at_ n h1 hn ho hsf.2, axisInside_zero, Res.bind,
      Spec.shiftRangeRemove]
    cases Spec.remAxis ρ.startRow ρ.endRow at_ n <;> simp

theorem rangeRemove_spec (ρ ρ' : Range) (ax : Spec.Axis) (at_ n : Nat) (h1 : 1 ≤ at_) (hn : n ≠ 0)
    (ho : at_ + n ≤ 4294967295) (hsf : StartFirst ρ) (h : Spec.shiftRangeRemove ρ ax at_ n = some ρ') :
    rangeRemove ρ (axisArgs ax at_ n).1 (axisArgs ax at_ n).2.1 (axisArgs ax at_ n).2.2.1 (axisArgs ax at_ n).2.2.2
      = .ok ρ' := by
  obtain ⟨sc, sr, ec, er⟩ := ρ
  have id0 : ∀ (b : Bool) (p : Option Ref), optR (fun r => remRef b r 0 0) p = .ok p := by
    intro b p; cases p <;> simp [optR, remRef_zero]
  have hp : ∀ (b : Bool) (p : Option Ref), optR (fun r => remRef b r at_ n) p = .ok (p.map (fun r => remPart b r at_ n)) :=
    fun b p => optR_pointwise _ _ p (fun r _ => remRef_spec b r at_ n h1 hn ho)
  cases ax with
  | col =>
    simp only [Spec.shiftRangeRemove] at h
    cases hc : Spec.remAxis sc ec at_ n with
    | none => simp [hc] at h
    | some c =>
      simp only [hc, Option.map_some, Option.some.injEq] at h
      have := remAxis_parts sc ec at_ n c hc hsf.1
      subst this; subst h
      simp [rangeRemove, axisArgs, hp, id0, Res.bind]
  | row =>
    simp only [Spec.shiftRangeRemove] at h
    cases hc : Spec.remAxis sr er at_ n with
    | none => simp [hc] at h
    | some c =>
      simp only [hc, Option.map_some, Option.some.injEq] at h
      have := remAxis_parts sr er at_ n c hc hsf.2
      subst this; subst h
      simp [rangeRemove, axisArgs, hp, id0, Res.bind]

end Umya.NameShift
